(* Xml/ReadingInterp.v — C01, faithfulness: the AUTOSAR interpretation of a plain XML tree (Xml/Reading.v) as an element
   tree of the model.  DEFINITIONS only; declarative: table lookups (Spec/SpecOps.v), the name tables, the value grammar -
   no parser state, no fuel.
     ValueOf ver spec raw v   the value a raw text (attribute value, character data run) denotes for a CharacterDataSpec:
        Enum     the text without the blanks at both ends (strip) is the name of an item that is listed in the version
        Pattern  the stripped text ITSELF - references are NOT decoded (recorded class pattern-value-not-unescaped: the
                 interpretation deliberately follows the loader here; a naive reading would decode) - within max_length,
                 accepted by the validator, UTF-8
        String   the denotation (Unesc: Xml/StrictValidEntities.v) of the text - stripped unless preserve_whitespace;
                 max_length and UTF-8 are conditions on the text before decoding
        UInt / Float   the stripped text is a u64 in decimal / a float (oracle)
     InterpE ver ty cm x t    element x, read with element type ty and preceded by comment cm, is the tree t:
        the name is in the element name table; every attribute is known for ty in the version and its value ValueOf;
        content (InterpKids): blank character data runs and processing instructions are dropped; a comment is attached
        to the NEXT element (the last one wins; a comment with no following element is dropped; the stored text is the
        lossy UTF-8 conversion); a character data run is ValueOf the type's specification (a Characters element takes
        one run only); a sub-element has the type find_sub_element gives for its name in the version.
     InterpDoc d ver t        the root is the AUTOSAR element with the root type; its attributes are read with the
        placeholder version 4.0.1 and name the file version ver (xmlns, xmlns:xsi, xsi:schemaLocation); the root's comment
        is the last comment of the prolog. *)
From Coq Require Import Arith.
From AV Require Import Base.Bytes Base.Outcome Base.Utf8 Base.Radix Hash.HashModel Spec.SpecTypes Spec.SpecOps Spec.Versions
  Xml.Lexer Xml.Parser Xml.RoundTripAttrs Xml.RoundTripLexer Xml.StrictValidDef Xml.StrictValidEntities Xml.RoundTripReload
  Xml.RoundTripSetVersion Xml.Reading.
Open Scope list_scope.
Open Scope N_scope.

Section Interp.
Variable T : tables.
Variable tab_el tab_at tab_en : nametab.
Variable check_fn : N -> list N -> res bool.
Variable float_parse : list N -> option N.

Inductive ValueOf (ver : N) : cdspec -> list N -> cdata -> Prop :=
| vof_enum items raw item mask :
    from_bytes tab_en (strip raw) = Ok item -> find (fun it => fst it =? item) items = Some (item, mask) ->
    N.land ver mask <> 0 -> ValueOf ver (CEnum items) raw (DEnum item)
| vof_pattern fn maxlen raw :
    opt_len_gt maxlen (strip raw) = false -> check_fn fn (strip raw) = Val true -> utf8_valid (strip raw) = true ->
    ValueOf ver (CPattern fn maxlen) raw (DString (strip raw))
| vof_string (preserve : bool) maxlen raw u :
    opt_len_gt maxlen (if preserve then raw else strip raw) = false ->
    utf8_valid (if preserve then raw else strip raw) = true ->
    Unesc (if preserve then raw else strip raw) u ->
    ValueOf ver (CString preserve maxlen) raw (DString u)
| vof_uint raw n : utf8_valid (strip raw) = true -> from_str_radix_u 64 10 (strip raw) = Some n -> ValueOf ver CUInt raw (DUInt n)
| vof_float raw b : utf8_valid (strip raw) = true -> float_parse (strip raw) = Some b -> ValueOf ver CFloat raw (DFloat b).

Definition AttrOf (ver : N) (ty : etype) (xa : xattr) (a : N * cdata) : Prop :=
  from_bytes tab_at (xa_name xa) = Ok (fst a) /\
  exists cdid ctype req vm, find_attribute_spec T ty (fst a) = Val (Some (cdid, ctype, req, vm)) /\ N.land ver vm <> 0 /\
    ValueOf ver ctype (xa_value xa) (snd a).

Inductive InterpE (ver : N) : etype -> option (list N) -> xml -> etree -> Prop :=
| ie_elem ty cm name atts trail sc kids n attrs content :
    from_bytes tab_el name = Ok n -> Forall2 (AttrOf ver ty) atts attrs ->
    InterpKids ver ty None [] kids content ->
    InterpE ver ty cm (XElem name atts trail sc kids) (ENode n ty attrs content cm)
(* InterpKids ver ty pending pre kids out : `pending` = the comment waiting for the next element, `pre` = the content
   read so far *)
with InterpKids (ver : N) : etype -> option (list N) -> list (etree + cdata) -> list xml -> list (etree + cdata) -> Prop :=
| ik_nil ty pend pre : InterpKids ver ty pend pre [] []
| ik_blank ty pend pre t r out : allws t -> InterpKids ver ty pend pre r out -> InterpKids ver ty pend pre (XText t :: r) out
| ik_text ty pend pre t r out cs v mode :
    forallb is_ws t = false -> chardata_spec T ty = Val (Some cs) -> content_mode T ty = Val mode ->
    (mode = MCharacters -> pre = []) -> ValueOf ver cs t v ->
    InterpKids ver ty pend (pre ++ [inr v]) r out -> InterpKids ver ty pend pre (XText t :: r) (inr v :: out)
| ik_comment ty pend pre c r out :
    InterpKids ver ty (Some (utf8_lossy c)) pre r out -> InterpKids ver ty pend pre (XComment c :: r) out
| ik_pi ty pend pre b r out : InterpKids ver ty pend pre r out -> InterpKids ver ty pend pre (XPI b :: r) out
| ik_elem ty pend pre x r out sub sub_ty idx :
    find_sub_element T ty (e_name sub) ver = Val (Some (sub_ty, idx)) -> InterpE ver sub_ty pend x sub ->
    InterpKids ver ty None (pre ++ [inl sub]) r out -> InterpKids ver ty pend pre (x :: r) (inl sub :: out).

(* the last comment of the prolog *)
Fixpoint last_comment (acc : option (list N)) (l : list xml) : option (list N) :=
  match l with
  | [] => acc
  | XComment c :: r => last_comment (Some (utf8_lossy c)) r
  | _ :: r => last_comment acc r
  end.

(* the header attributes name the file version *)
Definition HeaderOf (attrs : list (N * cdata)) (ver : N) : Prop :=
  exists a_xmlns a_xsi a_schema schema,
    from_bytes tab_at (BS "xmlns") = Ok a_xmlns /\ from_bytes tab_at (BS "xmlns:xsi") = Ok a_xsi /\
    from_bytes tab_at (BS "xsi:schemaLocation") = Ok a_schema /\
    attr_string a_xmlns attrs = Some (Some (BS "http://autosar.org/schema/r4.0")) /\
    attr_string a_xsi attrs = Some (Some (BS "http://www.w3.org/2001/XMLSchema-instance")) /\
    attr_string a_schema attrs = Some (Some schema) /\
    hd [] (split_on 32 [] schema) = BS "http://autosar.org/schema/r4.0" /\ version_of_filename (xsd_of schema) = Some ver.

Definition InterpDoc (d : doc) (ver : N) (t : etree) : Prop :=
  exists rt e v401,
    et_new T (autosar_element T) = Val rt /\ elem T (autosar_element T) = Val e /\
    version_of_ident "Autosar_4_0_1" = Some v401 /\ e_name t = ed_name e /\
    (* the root's attributes are read before the version is known *)
    (exists name atts trail sc kids n attrs content cm,
       d_root d = XElem name atts trail sc kids /\ t = ENode n rt attrs content cm /\
       from_bytes tab_el name = Ok n /\ Forall2 (AttrOf v401 rt) atts attrs /\ HeaderOf attrs ver /\
       InterpKids ver rt None [] kids content /\ cm = last_comment None (d_prolog d)).

End Interp.
