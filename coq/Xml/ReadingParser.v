(* Xml/ReadingParser.v — C01, faithfulness: what strict loading accepts has a reading (Xml/Reading.v) whose AUTOSAR
   interpretation (Xml/ReadingInterp.v) is the returned tree.  Values (pcd_value), attributes (pat_reads), elements
   (pe_loop_reads by induction on the lexer fuel, parse_element_reads on the depth), the document (load_faithful). *)
From Coq Require Import Arith Lia.
From AV Require Import Base.Bytes Base.Outcome Base.Utf8 Base.Radix Hash.HashModel Hash.HashProofs Spec.SpecTypes Spec.SpecOps Spec.Versions
  Xml.Lexer Xml.Parser Xml.LexerProofs Xml.ParserProofs Xml.Funnel Xml.ParserCheck Xml.ParserDepth Xml.Escape
  Xml.RoundTripValues Xml.RoundTripAttrs Xml.RoundTripLexer Xml.StrictValidDef Xml.StrictValid Xml.StrictValidEntities
  Xml.RoundTripReload Xml.RoundTripCanonFinal Xml.RoundTripSetVersion Xml.Reading Xml.ReadingLexer Xml.ReadingInterp.
Open Scope list_scope.
Open Scope N_scope.

(* ---------- programs that leave a projection of the state alone ---------- *)
Section KPres.
Context {X : Type}.
Variable K : pstate -> X.
Hypothesis KW : forall st e, K (add_warning st e) = K st.
Hypothesis KC : forall st c, K (set_compat st c) = K st.

Definition kpres {A} (m : M A) : Prop :=
  forall st, match m st with
             | Val (Ret _ st') => K st' = K st
             | Val (Raise _ st') => K st' = K st
             | _ => True
             end.

Lemma kpres_ret {A} (a : A) : kpres (ret a).                  Proof. intros st; reflexivity. Qed.
Lemma kpres_get : kpres get.                                   Proof. intros st; reflexivity. Qed.
Lemma kpres_lift {A} (r : res A) : kpres (lift r).             Proof. intros st; destruct r; cbn; auto. Qed.
Lemma kpres_mpanic {A} s : kpres (@mpanic A s).                Proof. intros st; exact I. Qed.
Lemma kpres_mfuel {A} : kpres (@mfuel A).                      Proof. intros st; exact I. Qed.
Lemma kpres_hard {A} k e i : kpres (@hard A k e i).            Proof. intros st; reflexivity. Qed.
Lemma kpres_optional_error s k e i : kpres (optional_error s k e i).
Proof. intros st; unfold optional_error; destruct s; [reflexivity|apply KW]. Qed.
Lemma kpres_modify f : (forall st, K (f st) = K st) -> kpres (modify f).
Proof. intros H st; cbn. apply H. Qed.
Lemma kpres_bind {A B} (m : M A) (f : A -> M B) : kpres m -> (forall a, kpres (f a)) -> kpres (mbind m f).
Proof.
  intros Hm Hf st. specialize (Hm st). unfold mbind. destruct (m st) as [[a st1|e st1]| |]; auto.
  specialize (Hf a st1). destruct (f a st1) as [[b st2|e st2]| |]; auto; congruence.
Qed.
Lemma kpres_inv {A} (m : M A) st a st' : kpres m -> m st = Val (Ret a st') -> K st' = K st.
Proof. intros H E. specialize (H st). rewrite E in H. exact H. Qed.

Ltac kp_step :=
  lazymatch goal with
  | |- kpres (mbind _ _) => apply kpres_bind; [|intros]
  | |- kpres (modify _) => apply kpres_modify; intros; try apply KC; reflexivity
  | |- kpres (match ?x with _ => _ end) => destruct x
  | |- kpres (ret _) => apply kpres_ret
  | |- kpres get => apply kpres_get
  | |- kpres (lift _) => apply kpres_lift
  | |- kpres (mpanic _) => apply kpres_mpanic
  | |- kpres mfuel => apply kpres_mfuel
  | |- kpres (hard _ _ _) => apply kpres_hard
  | |- kpres (optional_error _ _ _ _) => apply kpres_optional_error
  | |- _ => solve [auto]
  end.
Ltac kp_tac := repeat kp_step.

Variable T : tables.
Variable tab_el tab_at tab_en : nametab.
Variable check_fn : N -> list N -> res bool.
Variable float_parse : list N -> option N.
Variable s : bool.

Lemma kp_check_version v k e i : kpres (check_version s v k e i).
Proof. unfold check_version. kp_tac. Qed.
Lemma kp_unescape_loop fuel : forall rem acc, kpres (unescape_loop s fuel rem acc).
Proof.
  induction fuel as [|f IH]; intros rem acc; cbn [unescape_loop]; [kp_tac|].
  assert (Inv : forall r a, kpres (mbind (optional_error s InvalidXmlEntity 0 0) (fun _ => unescape_loop s f r a))).
  { intros. kp_tac. }
  destruct (find_byte 38 rem) as [pos|]; [|kp_tac].
  repeat lazymatch goal with
  | |- kpres (if ?c then _ else _) => destruct c
  | |- kpres (match ?x with _ => _ end) => destruct x
  | |- kpres (unescape_loop s f _ _) => apply IH
  | |- _ => apply Inv
  end.
Qed.
Lemma kp_unescape_string input : kpres (unescape_string s input).
Proof. unfold unescape_string. destruct (find_byte 38 input); [apply kp_unescape_loop|kp_tac]. Qed.
Lemma kp_pcd input spec : kpres (parse_character_data s tab_en check_fn float_parse input spec).
Proof.
  unfold parse_character_data.
  repeat lazymatch goal with
  | |- kpres (check_version _ _ _ _ _) => apply kp_check_version
  | |- kpres (unescape_string _ _) => apply kp_unescape_string
  | |- _ => kp_step
  end.
Qed.
Lemma kp_attr_loop fuel ty : forall rem attrs, kpres (attr_loop s T tab_at tab_en check_fn float_parse fuel ty rem attrs).
Proof.
  induction fuel as [|f IH]; intros rem attrs; cbn [attr_loop]; [kp_tac|].
  repeat lazymatch goal with
  | |- kpres (check_version _ _ _ _ _) => apply kp_check_version
  | |- kpres (parse_character_data _ _ _ _ _ _) => apply kp_pcd
  | |- kpres (attr_loop _ _ _ _ _ _ _ _ _ _) => apply IH
  | |- _ => kp_step
  end.
Qed.
Lemma kp_req_loop cur attrs l : kpres (req_loop s cur attrs l).
Proof. induction l as [|[[[name c1] c2] required] l IH]; cbn [req_loop]; [kp_tac|]. kp_tac. Qed.
Lemma kp_pat ty text : kpres (parse_attribute_text s T tab_at tab_en check_fn float_parse ty text).
Proof.
  unfold parse_attribute_text.
  repeat lazymatch goal with
  | |- kpres (attr_loop _ _ _ _ _ _ _ _ _ _) => apply kp_attr_loop
  | |- kpres (req_loop _ _ _ _) => apply kp_req_loop
  | |- _ => kp_step
  end.
Qed.
Lemma kp_find_elem name ty : kpres (find_element_in_spec_checked s T name ty).
Proof.
  unfold find_element_in_spec_checked.
  repeat lazymatch goal with
  | |- kpres (check_version _ _ _ _ _) => apply kp_check_version
  | |- _ => kp_step
  end.
Qed.
Lemma kp_conflict name ty old new : kpres (check_element_conflict s T name ty old new).
Proof. unfold check_element_conflict. kp_tac. Qed.
Lemma kp_mult name ty idx content : kpres (check_multiplicity s T name ty idx content).
Proof. unfold check_multiplicity. kp_tac. Qed.
Lemma kp_pfv schema : kpres (parse_file_version s schema).
Proof. unfold parse_file_version, ver_or_panic. cbv zeta. kp_tac. Qed.
End KPres.

Definition LV (st : pstate) : lstate * N := (p_lex st, p_version st).
Lemma LV_W st e : LV (add_warning st e) = LV st. Proof. reflexivity. Qed.
Lemma LV_C st c : LV (set_compat st c) = LV st. Proof. reflexivity. Qed.
Lemma LV_inv {A} (m : M A) st a st' : kpres LV m -> m st = Val (Ret a st') -> p_lex st' = p_lex st /\ p_version st' = p_version st.
Proof. intros K E. pose proof (kpres_inv LV m st a st' K E) as H. unfold LV in H. injection H as -> ->. auto. Qed.

Section Faithful.
Variable T : tables.
Variable tab_el tab_at tab_en : nametab.
Variable check_fn : N -> list N -> res bool.
Variable float_parse : list N -> option N.
Hypothesis CLEAN_EL : names_clean tab_el = true.
Hypothesis CLEAN_AT : names_clean tab_at = true.

Notation PCD := (parse_character_data true tab_en check_fn float_parse).
Notation AL := (attr_loop true T tab_at tab_en check_fn float_parse).
Notation PAT := (parse_attribute_text true T tab_at tab_en check_fn float_parse).
Notation PL := (pe_loop true T tab_el tab_at tab_en check_fn float_parse).
Notation PE := (parse_element true T tab_el tab_at tab_en check_fn float_parse).
Notation VALUEOF := (ValueOf tab_en check_fn float_parse).
Notation ATTROF := (AttrOf T tab_at tab_en check_fn float_parse).
Notation INTERPE := (InterpE T tab_el tab_at tab_en check_fn float_parse).
Notation INTERPK := (InterpKids T tab_el tab_at tab_en check_fn float_parse).

(* ---------- values ---------- *)
Lemma pcd_value input spec st v st' : PCD input spec st = Val (Ret v st') -> VALUEOF (p_version st) spec input v.
Proof.
  unfold parse_character_data. intros H. inv H as trimmed s1 E1. apply lift_ret_inv in E1 as [TR ->].
  rewrite trim_strip in TR. injection TR as <-.
  destruct spec as [items|fn maxlen|preserve maxlen| |].
  - inv H as nm s2 E2. apply lift_ret_inv in E2 as [E2 ->]. destruct nm as [value|]; [|discriminate H].
    unfold name_of in E2. destruct (from_bytes tab_en (strip input)) as [i| |] eqn:FB; try discriminate E2. injection E2 as ->.
    destruct (find (fun it => fst it =? value) items) as [[i0 version]|] eqn:F.
    + inv H as g s3 E3. apply get_ret_inv in E3 as [-> ->]. inv H as u s4 E4. injection H as <- _.
      apply check_version_ret in E4. pose proof (find_some _ _ F) as [_ EQ]. cbn [fst] in EQ. apply N.eqb_eq in EQ. subst i0.
      econstructor; eassumption.
    + inv H as g s3 E3. discriminate H.
  - inv H as u1 s2 E2. apply guard_strict_ret in E2 as [L ->].
    inv H as ok s3 E3. apply lift_ret_inv in E3 as [CF ->].
    inv H as u2 s4 E4. apply guard_strict_ret in E4 as [OK ->]. apply negb_false_iff in OK. subst ok.
    destruct (utf8_valid (strip input)) eqn:U.
    + injection H as <- _. constructor; assumption.
    + inv H as u3 s5 E5. destruct (oe_strict_ret _ _ _ _ _ _ E5).
  - inv H as u1 s2 E2. apply guard_strict_ret in E2 as [L ->].
    inv H as text s3 E3.
    assert (TX : text = (if preserve then input else strip input) /\ utf8_valid (if preserve then input else strip input) = true /\ s3 = st).
    { destruct (utf8_valid (if preserve then input else strip input)) eqn:U; [injection E3 as <- <-; auto|].
      inv E3 as u2 s4 E4. destruct (oe_strict_ret _ _ _ _ _ _ E4). }
    destruct TX as (-> & U & ->). inv H as u s4 E4. injection H as <- _. apply unescape_sound in E4 as [_ UN].
    constructor; assumption.
  - destruct (utf8_valid (strip input)) eqn:U; cbn [negb] in H; [|discriminate H].
    destruct (from_str_radix_u 64 10 (strip input)) eqn:R.
    + injection H as <- _. constructor; assumption.
    + inv H as u1 s2 E2. destruct (oe_strict_ret _ _ _ _ _ _ E2).
  - destruct (utf8_valid (strip input)) eqn:U; cbn [negb] in H; [|discriminate H].
    destruct (float_parse (strip input)) eqn:R.
    + injection H as <- _. constructor; assumption.
    + inv H as u1 s2 E2. destruct (oe_strict_ret _ _ _ _ _ _ E2).
Qed.

(* ---------- attributes ---------- *)
Lemma skipn_nth {A} (l : list A) n d : (n < List.length l)%nat -> skipn n l = nth n l d :: skipn (S n) l.
Proof. revert n; induction l as [|x l IH]; intros [|n] L; cbn in *; try lia; [reflexivity|]. apply IH. lia. Qed.

Lemma has61_not_ws rem p : position (N.eqb 61) rem = Some p -> forallb is_ws rem = true -> False.
Proof.
  intros P W. rewrite (position_cut _ _ _ P), forallb_app in W. apply andb_prop in W as [_ W]. cbn [forallb] in W.
  apply andb_prop in W as [W _]. discriminate W.
Qed.

Lemma no_byte_app b x y : no_byte b (x ++ y) <-> no_byte b x /\ no_byte b y.
Proof. unfold no_byte. rewrite forallb_app, andb_true_iff. tauto. Qed.
Lemma allws_app x y : allws (x ++ y) <-> allws x /\ allws y.
Proof. unfold allws. rewrite forallb_app, andb_true_iff. tauto. Qed.

Lemma drop_ws_cut l : exists w, l = w ++ drop_ws l /\ allws w /\ (List.length (drop_ws l) = List.length l -> w = []).
Proof.
  induction l as [|x l (w & E & A & L)]; [exists []; repeat split|]. cbn [drop_ws]. destruct (is_ws x) eqn:X.
  - exists (x :: w). cbn [app]. rewrite <- E. split; [reflexivity|]. split; [unfold allws; cbn [forallb]; rewrite X; exact A|].
    intros LE. exfalso. pose proof (drop_ws_length l). cbn [List.length] in LE. lia.
  - exists []. repeat split.
Qed.

Lemma al_reads f ty : forall rem attrs st rem' attrs' st' pre,
  AL f ty rem attrs st = Val (Ret (rem', attrs') st') -> forallb is_ws rem' = true ->
  (pre <> [] \/ rem = []) -> allws pre -> no_byte 62 rem ->
  exists xs trail news, pre ++ rem = r_atts xs ++ trail /\ Forall WfAttr xs /\ WfTrail trail /\
    attrs' = attrs ++ news /\ Forall2 (ATTROF (p_version st) ty) xs news.
Proof.
  induction f as [|f IH]; intros rem attrs st rem' attrs' st' pre H W PR AP N62; [discriminate H|]. cbn [attr_loop] in H.
  assert (PLAIN : rem' = rem -> attrs' = attrs -> forallb is_ws rem = true ->
            exists xs trail news, pre ++ rem = r_atts xs ++ trail /\ Forall WfAttr xs /\ WfTrail trail /\
              attrs' = attrs ++ news /\ Forall2 (ATTROF (p_version st) ty) xs news).
  { intros -> -> WR. exists [], (pre ++ rem), []. split; [reflexivity|]. split; [constructor|]. split; [left; apply allws_app; auto|].
    split; [symmetry; apply app_nil_r|constructor]. }
  destruct (find_byte 61 rem) as [eq_pos|] eqn:FE; [|injection H as <- <- _; exact (PLAIN eq_refl eq_refl W)].
  unfold find_byte in FE.
  destruct (List.length rem - eq_pos <? 3)%nat eqn:L3; [injection H as <- <- _; destruct (has61_not_ws _ _ FE W)|].
  apply Nat.ltb_ge in L3.
  set (q := nth (S eq_pos) rem 0) in *.
  destruct (negb (q =? 34) && negb (q =? 39)) eqn:QC; [injection H as <- <- _; destruct (has61_not_ws _ _ FE W)|].
  assert (QQ : q = 34 \/ q = 39).
  { apply andb_false_iff in QC as [C|C]; apply negb_false_iff, N.eqb_eq in C; auto. }
  set (nm := firstn eq_pos rem) in *. set (rem2 := skipn (eq_pos + 2) rem) in *.
  assert (ER : rem = nm ++ [61; q] ++ rem2).
  { rewrite (position_cut _ _ _ FE) at 1. fold nm. f_equal. cbn [app]. f_equal.
    rewrite (skipn_nth rem (S eq_pos) 0) by lia. fold q. f_equal. unfold rem2. f_equal. lia. }
  assert (NNM : no_byte 61 nm) by (exact (no_byte_of_position _ _ _ FE)).
  assert (RNE : rem <> []) by (intros E; rewrite E in FE; discriminate FE).
  assert (PNE : pre <> []) by (destruct PR as [P|P]; [exact P|congruence]).
  rewrite ER in N62. apply no_byte_app in N62 as [N62a N62b]. apply no_byte_app in N62b as [_ N62b].
  destruct (find_byte q rem2) as [endq|] eqn:FQ.
  2:{ injection H as <- <- _. exists [], (pre ++ rem), []. split; [reflexivity|]. split; [constructor|]. split.
      - right. exists pre, nm, q, rem2. rewrite ER. repeat split; try assumption.
        intros E. assert (LR : (List.length rem2 >= 1)%nat) by (unfold rem2; rewrite skipn_length; lia). rewrite E in LR. cbn in LR. lia.
      - split; [symmetry; apply app_nil_r|constructor]. }
  unfold find_byte in FQ. set (value := firstn endq rem2) in *. set (after := skipn (S endq) rem2) in *.
  assert (ER2 : rem2 = value ++ q :: after) by (exact (position_cut _ _ _ FQ)).
  assert (NQV : no_byte q value) by (exact (no_byte_of_position _ _ _ FQ)).
  assert (N62V : no_byte 62 value /\ no_byte 62 after).
  { rewrite ER2 in N62b. apply no_byte_app in N62b as [A B]. split; [exact A|]. unfold no_byte in *. cbn [forallb] in B. apply andb_prop in B as [_ B]. exact B. }
  destruct N62V as [N62V N62A].
  inv H as r1 s1 E1. apply lift_ret_inv in E1 as [NM ->].
  inv H as attrs1 s2 E2.
  assert (STEP : exists a v, attrs1 = attrs ++ [(a, v)] /\ ATTROF (p_version st) ty {| xa_ws := pre; xa_name := nm; xa_quote := q; xa_value := value |} (a, v) /\
                             p_version s2 = p_version st).
  { destruct r1 as [a|].
    2:{ inv E2 as g s3 E3. inv E2 as u s4 E4. destruct (oe_strict_ret _ _ _ _ _ _ E4). }
    inv E2 as sp s3 E3. apply lift_ret_inv in E3 as [FS ->]. destruct sp as [[[[cdid ctype] req] vm]|].
    2:{ inv E2 as g s3 E3. inv E2 as u s4 E4. destruct (oe_strict_ret _ _ _ _ _ _ E4). }
    inv E2 as g s3 E3. apply get_ret_inv in E3 as [-> ->].
    inv E2 as u s4 E4. destruct (LV_inv _ _ _ _ (kp_check_version LV LV_W LV_C true _ _ _ _) E4) as [_ V4].
    apply check_version_ret in E4.
    inv E2 as v s5 E5. destruct (LV_inv _ _ _ _ (kp_pcd LV LV_W LV_C tab_en check_fn float_parse true _ _) E5) as [_ V5].
    apply pcd_value in E5. injection E2 as <- <-. exists a, v. split; [reflexivity|]. split; [|congruence].
    split; [cbn [xa_name fst]; unfold name_of in NM; destruct (from_bytes tab_at nm); try discriminate NM; injection NM as ->; reflexivity|].
    exists cdid, ctype, req, vm. cbn [fst snd xa_value]. split; [exact FS|]. split; [exact E4|]. rewrite V4 in E5. exact E5. }
  destruct STEP as (a & v & -> & AO & V2).
  assert (WA : WfAttr {| xa_ws := pre; xa_name := nm; xa_quote := q; xa_value := value |}).
  { unfold WfAttr. cbn [xa_ws xa_name xa_quote xa_value]. split; [exact PNE|]. split; [exact AP|]. split; [|auto].
    destruct AO as [FB _]. cbn [xa_name fst] in FB. exact (names_clean_spec _ CLEAN_AT _ _ FB). }
  destruct (drop_ws_cut after) as (w & EW & AW & LW).
  destruct (negb match drop_ws after with [] => true | _ :: _ => false end && (List.length (drop_ws after) =? List.length after)%nat) eqn:SEP.
  { injection H as <- _ _. exfalso. rewrite ER2, forallb_app in W. apply andb_prop in W as [_ W]. cbn [forallb] in W.
    apply andb_prop in W as [W _]. destruct QQ as [Q|Q]; rewrite Q in W; discriminate W. }
  assert (PR' : w <> [] \/ drop_ws after = []).
  { destruct (drop_ws after) as [|y r] eqn:DA; [right; reflexivity|left]. cbn [negb andb] in SEP. apply Nat.eqb_neq in SEP.
    intros E. rewrite E in EW. cbn [app] in EW. rewrite <- EW in SEP. congruence. }
  assert (N62N : no_byte 62 (drop_ws after)) by (rewrite EW in N62A; apply no_byte_app in N62A as [_ B]; exact B).
  destruct (IH _ _ _ _ _ _ w H W PR' AW N62N) as (xs & trail & news & E & WX & WT & EA & F2).
  exists ({| xa_ws := pre; xa_name := nm; xa_quote := q; xa_value := value |} :: xs), trail, ((a, v) :: news).
  split.
  - unfold r_atts in *. cbn [map List.concat]. rewrite <- app_assoc, <- E, <- EW. unfold r_attr. cbn [xa_ws xa_name xa_quote xa_value].
    rewrite ER, ER2. rewrite <- !app_assoc. reflexivity.
  - split; [constructor; assumption|]. split; [exact WT|]. split; [rewrite EA, <- app_assoc; reflexivity|].
    constructor; [exact AO|]. rewrite V2 in F2. exact F2.
Qed.

End Faithful.
