(* Xml/ReadingParser.v — C01, faithfulness: what strict loading accepts has a reading (Xml/Reading.v) whose AUTOSAR
   interpretation (Xml/ReadingInterp.v) is the returned tree.  Values (pcd_value), attributes (pat_reads), elements
   (pe_loop_reads by induction on the lexer fuel, parse_element_reads on the depth), the document (load_faithful). *)
From Coq Require Import Arith Lia.
From AV Require Import Base.Bytes Base.Outcome Base.Utf8 Base.Radix Hash.HashModel Hash.HashProofs Spec.SpecTypes Spec.SpecOps Spec.Versions
  Xml.Lexer Xml.Parser Xml.LexerProofs Xml.ParserProofs Xml.Funnel Xml.ParserCheck Xml.ParserDepth Xml.Escape
  Xml.RoundTripValues Xml.RoundTripAttrs Xml.RoundTripLexer Xml.StrictValidDef Xml.StrictValid Xml.StrictValidEntities
  Xml.RoundTripReload Xml.RoundTripCanonFinal Xml.RoundTripSetVersion Xml.FunnelParser Xml.Reading Xml.ReadingLexer Xml.ReadingInterp.
Open Scope list_scope.
Open Scope N_scope.

(* ---------- programs that leave a projection of the state alone ---------- *)
Section KPres.
Context {X : Type}.
Variable K : pstate -> X.
Hypothesis KW : forall st e, K (add_warning st e) = K st.
Hypothesis KC : forall st c, K (set_compat st c) = K st.

Definition kpres {A} (m : M A) : Prop :=
  forall st, match m st with
             | Val (Ret _ st') => K st' = K st
             | Val (Raise _ st') => K st' = K st
             | _ => True
             end.

Lemma kpres_ret {A} (a : A) : kpres (ret a).                  Proof. intros st; reflexivity. Qed.
Lemma kpres_get : kpres get.                                   Proof. intros st; reflexivity. Qed.
Lemma kpres_lift {A} (r : res A) : kpres (lift r).             Proof. intros st; destruct r; cbn; auto. Qed.
Lemma kpres_mpanic {A} s : kpres (@mpanic A s).                Proof. intros st; exact I. Qed.
Lemma kpres_mfuel {A} : kpres (@mfuel A).                      Proof. intros st; exact I. Qed.
Lemma kpres_hard {A} k e i : kpres (@hard A k e i).            Proof. intros st; reflexivity. Qed.
Lemma kpres_optional_error s k e i : kpres (optional_error s k e i).
Proof. intros st; unfold optional_error; destruct s; [reflexivity|apply KW]. Qed.
Lemma kpres_modify f : (forall st, K (f st) = K st) -> kpres (modify f).
Proof. intros H st; cbn. apply H. Qed.
Lemma kpres_bind {A B} (m : M A) (f : A -> M B) : kpres m -> (forall a, kpres (f a)) -> kpres (mbind m f).
Proof.
  intros Hm Hf st. specialize (Hm st). unfold mbind. destruct (m st) as [[a st1|e st1]| |]; auto.
  specialize (Hf a st1). destruct (f a st1) as [[b st2|e st2]| |]; auto; congruence.
Qed.
Lemma kpres_inv {A} (m : M A) st a st' : kpres m -> m st = Val (Ret a st') -> K st' = K st.
Proof. intros H E. specialize (H st). rewrite E in H. exact H. Qed.

Ltac kp_step :=
  lazymatch goal with
  | |- kpres (mbind _ _) => apply kpres_bind; [|intros]
  | |- kpres (modify _) => apply kpres_modify; intros; try apply KC; reflexivity
  | |- kpres (match ?x with _ => _ end) => destruct x
  | |- kpres (ret _) => apply kpres_ret
  | |- kpres get => apply kpres_get
  | |- kpres (lift _) => apply kpres_lift
  | |- kpres (mpanic _) => apply kpres_mpanic
  | |- kpres mfuel => apply kpres_mfuel
  | |- kpres (hard _ _ _) => apply kpres_hard
  | |- kpres (optional_error _ _ _ _) => apply kpres_optional_error
  | |- _ => solve [auto]
  end.
Ltac kp_tac := repeat kp_step.

Variable T : tables.
Variable tab_el tab_at tab_en : nametab.
Variable check_fn : N -> list N -> res bool.
Variable float_parse : list N -> option N.
Variable s : bool.

Lemma kp_check_version v k e i : kpres (check_version s v k e i).
Proof. unfold check_version. kp_tac. Qed.
Lemma kp_unescape_loop fuel : forall rem acc, kpres (unescape_loop s fuel rem acc).
Proof.
  induction fuel as [|f IH]; intros rem acc; cbn [unescape_loop]; [kp_tac|].
  assert (Inv : forall r a, kpres (mbind (optional_error s InvalidXmlEntity 0 0) (fun _ => unescape_loop s f r a))).
  { intros. kp_tac. }
  destruct (find_byte 38 rem) as [pos|]; [|kp_tac].
  repeat lazymatch goal with
  | |- kpres (if ?c then _ else _) => destruct c
  | |- kpres (match ?x with _ => _ end) => destruct x
  | |- kpres (unescape_loop s f _ _) => apply IH
  | |- _ => apply Inv
  end.
Qed.
Lemma kp_unescape_string input : kpres (unescape_string s input).
Proof. unfold unescape_string. destruct (find_byte 38 input); [apply kp_unescape_loop|kp_tac]. Qed.
Lemma kp_pcd input spec : kpres (parse_character_data s tab_en check_fn float_parse input spec).
Proof.
  unfold parse_character_data.
  repeat lazymatch goal with
  | |- kpres (check_version _ _ _ _ _) => apply kp_check_version
  | |- kpres (unescape_string _ _) => apply kp_unescape_string
  | |- _ => kp_step
  end.
Qed.
Lemma kp_attr_loop fuel ty : forall rem attrs, kpres (attr_loop s T tab_at tab_en check_fn float_parse fuel ty rem attrs).
Proof.
  induction fuel as [|f IH]; intros rem attrs; cbn [attr_loop]; [kp_tac|].
  repeat lazymatch goal with
  | |- kpres (check_version _ _ _ _ _) => apply kp_check_version
  | |- kpres (parse_character_data _ _ _ _ _ _) => apply kp_pcd
  | |- kpres (attr_loop _ _ _ _ _ _ _ _ _ _) => apply IH
  | |- _ => kp_step
  end.
Qed.
Lemma kp_req_loop cur attrs l : kpres (req_loop s cur attrs l).
Proof. induction l as [|[[[name c1] c2] required] l IH]; cbn [req_loop]; [kp_tac|]. kp_tac. Qed.
Lemma kp_pat ty text : kpres (parse_attribute_text s T tab_at tab_en check_fn float_parse ty text).
Proof.
  unfold parse_attribute_text.
  repeat lazymatch goal with
  | |- kpres (attr_loop _ _ _ _ _ _ _ _ _ _) => apply kp_attr_loop
  | |- kpres (req_loop _ _ _ _) => apply kp_req_loop
  | |- _ => kp_step
  end.
Qed.
Lemma kp_find_elem name ty : kpres (find_element_in_spec_checked s T name ty).
Proof.
  unfold find_element_in_spec_checked.
  repeat lazymatch goal with
  | |- kpres (check_version _ _ _ _ _) => apply kp_check_version
  | |- _ => kp_step
  end.
Qed.
Lemma kp_conflict name ty old new : kpres (check_element_conflict s T name ty old new).
Proof. unfold check_element_conflict. kp_tac. Qed.
Lemma kp_mult name ty idx content : kpres (check_multiplicity s T name ty idx content).
Proof. unfold check_multiplicity. kp_tac. Qed.
Lemma kp_pfv schema : kpres (parse_file_version s schema).
Proof. unfold parse_file_version, ver_or_panic. cbv zeta. kp_tac. Qed.

(* programs that also move the lexer, the current element, the recorded lists, the version *)
Hypothesis KLX : forall st l, K (set_lex st l) = K st.
Hypothesis KLN : forall st l, K (set_line st l) = K st.
Hypothesis KCU : forall st c, K (set_cur st c) = K st.
Hypothesis KID : forall st i, K (add_ident st i) = K st.
Hypothesis KRF : forall st r, K (add_ref st r) = K st.
Hypothesis KVE : forall st v, K (Parser.set_version st v) = K st.

Lemma kpres_pnext : kpres pnext.
Proof. intros st. unfold pnext. destruct (next (p_lex st)) as [[line ev l'|line e]| |]; auto. rewrite KLN, KLX. reflexivity. Qed.

Ltac kp_step2 :=
  lazymatch goal with
  | |- kpres (mbind _ _) => apply kpres_bind; [|intros]
  | |- kpres (modify _) => apply kpres_modify; intros; first [apply KCU|apply KID|apply KRF|apply KVE|apply KC]
  | |- kpres pnext => apply kpres_pnext
  | |- kpres (check_version _ _ _ _ _) => apply kp_check_version
  | |- kpres (parse_character_data _ _ _ _ _ _) => apply kp_pcd
  | |- kpres (parse_attribute_text _ _ _ _ _ _ _ _) => apply kp_pat
  | |- kpres (find_element_in_spec_checked _ _ _ _) => apply kp_find_elem
  | |- kpres (check_element_conflict _ _ _ _ _ _) => apply kp_conflict
  | |- kpres (check_multiplicity _ _ _ _ _ _) => apply kp_mult
  | |- kpres (parse_file_version _ _) => apply kp_pfv
  | |- kpres (match ?x with _ => _ end) => destruct x
  | |- kpres (ret _) => apply kpres_ret
  | |- kpres get => apply kpres_get
  | |- kpres (lift _) => apply kpres_lift
  | |- kpres (mpanic _) => apply kpres_mpanic
  | |- kpres mfuel => apply kpres_mfuel
  | |- kpres (hard _ _ _) => apply kpres_hard
  | |- kpres (optional_error _ _ _ _) => apply kpres_optional_error
  | |- _ => solve [auto]
  end.

Definition recT0 := N -> etype -> list (N * cdata) -> option (list N) -> list N -> list nat -> M etree.

Lemma kp_pe_loop (rec : recT0) : (forall n ty a c p ps, kpres (rec n ty a c p ps)) ->
  forall lfuel name ty attrs comment pos content elem_idx snf stored path,
  kpres (pe_loop s T tab_el tab_at tab_en check_fn float_parse rec lfuel name ty attrs comment pos content elem_idx snf stored path).
Proof.
  intros HR. induction lfuel as [|lf IH]; intros; cbn [pe_loop]; [apply kpres_mfuel|].
  repeat lazymatch goal with
  | |- kpres (pe_loop _ _ _ _ _ _ _ _ lf _ _ _ _ _ _ _ _ _ _) => apply IH
  | |- kpres (rec _ _ _ _ _ _) => apply HR
  | |- _ => kp_step2
  end.
Qed.

Lemma kp_parse_element fuel lfuel : forall n ty a c p ps,
  kpres (parse_element s T tab_el tab_at tab_en check_fn float_parse fuel lfuel n ty a c p ps).
Proof.
  induction fuel as [|f IH]; intros; cbn [parse_element]; [apply kpres_mfuel|]. apply kp_pe_loop. exact IH.
Qed.

Lemma kp_skip_comments fuel : forall stored tok, kpres (skip_comments fuel stored tok).
Proof. induction fuel as [|f IH]; intros stored tok; cbn [skip_comments]; [apply kpres_mfuel|]. repeat first [apply IH|kp_step2]. Qed.

Lemma kp_pfh attrs : kpres (parse_file_header s tab_at attrs).
Proof. unfold parse_file_header, attr_id. repeat kp_step2. Qed.

Lemma kp_verify_end : kpres (verify_end_of_input s).
Proof.
  intros st. unfold verify_end_of_input. destruct (next (p_lex st)) as [[line ev l'|line e]| |]; auto.
  destruct ev; try (pose proof (kpres_optional_error s AdditionalDataError 0 0 (set_lex st l')) as H;
                    destruct (optional_error s AdditionalDataError 0 0 (set_lex st l')) as [[u x|e0 x]| |]; auto; rewrite H; apply KLX).
Qed.
End KPres.

Definition LV (st : pstate) : lstate * N := (p_lex st, p_version st).
Lemma LV_W st e : LV (add_warning st e) = LV st. Proof. reflexivity. Qed.
Lemma LV_C st c : LV (set_compat st c) = LV st. Proof. reflexivity. Qed.
Lemma LV_inv {A} (m : M A) st a st' : kpres LV m -> m st = Val (Ret a st') -> p_lex st' = p_lex st /\ p_version st' = p_version st.
Proof. intros K E. pose proof (kpres_inv LV m st a st' K E) as H. unfold LV in H. injection H as -> ->. auto. Qed.

Section Faithful.
Variable T : tables.
Variable tab_el tab_at tab_en : nametab.
Variable check_fn : N -> list N -> res bool.
Variable float_parse : list N -> option N.
Hypothesis CLEAN_EL : names_clean tab_el = true.
Hypothesis CLEAN_AT : names_clean tab_at = true.

Notation PCD := (parse_character_data true tab_en check_fn float_parse).
Notation AL := (attr_loop true T tab_at tab_en check_fn float_parse).
Notation PAT := (parse_attribute_text true T tab_at tab_en check_fn float_parse).
Notation PL := (pe_loop true T tab_el tab_at tab_en check_fn float_parse).
Notation PE := (parse_element true T tab_el tab_at tab_en check_fn float_parse).
Notation VALUEOF := (ValueOf tab_en check_fn float_parse).
Notation ATTROF := (AttrOf T tab_at tab_en check_fn float_parse).
Notation INTERPE := (InterpE T tab_el tab_at tab_en check_fn float_parse).
Notation INTERPK := (InterpKids T tab_el tab_at tab_en check_fn float_parse).

(* ---------- values ---------- *)
Lemma pcd_value input spec st v st' : PCD input spec st = Val (Ret v st') -> VALUEOF (p_version st) spec input v.
Proof.
  unfold parse_character_data. intros H. inv H as trimmed s1 E1. apply lift_ret_inv in E1 as [TR ->].
  rewrite trim_strip in TR. injection TR as <-.
  destruct spec as [items|fn maxlen|preserve maxlen| |].
  - inv H as nm s2 E2. apply lift_ret_inv in E2 as [E2 ->]. destruct nm as [value|]; [|discriminate H].
    unfold name_of in E2. destruct (from_bytes tab_en (strip input)) as [i| |] eqn:FB; try discriminate E2. injection E2 as ->.
    destruct (find (fun it => fst it =? value) items) as [[i0 version]|] eqn:F.
    + inv H as g s3 E3. apply get_ret_inv in E3 as [-> ->]. inv H as u s4 E4. injection H as <- _.
      apply check_version_ret in E4. pose proof (find_some _ _ F) as [_ EQ]. cbn [fst] in EQ. apply N.eqb_eq in EQ. subst i0.
      econstructor; eassumption.
    + inv H as g s3 E3. discriminate H.
  - inv H as u1 s2 E2. apply guard_strict_ret in E2 as [L ->].
    inv H as ok s3 E3. apply lift_ret_inv in E3 as [CF ->].
    inv H as u2 s4 E4. apply guard_strict_ret in E4 as [OK ->]. apply negb_false_iff in OK. subst ok.
    destruct (utf8_valid (strip input)) eqn:U.
    + injection H as <- _. constructor; assumption.
    + inv H as u3 s5 E5. destruct (oe_strict_ret _ _ _ _ _ _ E5).
  - inv H as u1 s2 E2. apply guard_strict_ret in E2 as [L ->].
    inv H as text s3 E3.
    assert (TX : text = (if preserve then input else strip input) /\ utf8_valid (if preserve then input else strip input) = true /\ s3 = st).
    { destruct (utf8_valid (if preserve then input else strip input)) eqn:U; [injection E3 as <- <-; auto|].
      inv E3 as u2 s4 E4. destruct (oe_strict_ret _ _ _ _ _ _ E4). }
    destruct TX as (-> & U & ->). inv H as u s4 E4. injection H as <- _. apply unescape_sound in E4 as [_ UN].
    constructor; assumption.
  - destruct (utf8_valid (strip input)) eqn:U; cbn [negb] in H; [|discriminate H].
    destruct (from_str_radix_u 64 10 (strip input)) eqn:R.
    + injection H as <- _. constructor; assumption.
    + inv H as u1 s2 E2. destruct (oe_strict_ret _ _ _ _ _ _ E2).
  - destruct (utf8_valid (strip input)) eqn:U; cbn [negb] in H; [|discriminate H].
    destruct (float_parse (strip input)) eqn:R.
    + injection H as <- _. constructor; assumption.
    + inv H as u1 s2 E2. destruct (oe_strict_ret _ _ _ _ _ _ E2).
Qed.

(* ---------- attributes ---------- *)
Lemma skipn_nth {A} (l : list A) n d : (n < List.length l)%nat -> skipn n l = nth n l d :: skipn (S n) l.
Proof. revert n; induction l as [|x l IH]; intros [|n] L; cbn in *; try lia; [reflexivity|]. apply IH. lia. Qed.

Lemma has61_not_ws rem p : position (N.eqb 61) rem = Some p -> forallb is_ws rem = true -> False.
Proof.
  intros P W. rewrite (position_cut _ _ _ P), forallb_app in W. apply andb_prop in W as [_ W]. cbn [forallb] in W.
  apply andb_prop in W as [W _]. discriminate W.
Qed.

Lemma no_byte_app b x y : no_byte b (x ++ y) <-> no_byte b x /\ no_byte b y.
Proof. unfold no_byte. rewrite forallb_app, andb_true_iff. tauto. Qed.
Lemma allws_app x y : allws (x ++ y) <-> allws x /\ allws y.
Proof. unfold allws. rewrite forallb_app, andb_true_iff. tauto. Qed.

Lemma drop_ws_cut l : exists w, l = w ++ drop_ws l /\ allws w /\ (List.length (drop_ws l) = List.length l -> w = []).
Proof.
  induction l as [|x l (w & E & A & L)]; [exists []; repeat split|]. cbn [drop_ws]. destruct (is_ws x) eqn:X.
  - exists (x :: w). cbn [app]. rewrite <- E. split; [reflexivity|]. split; [unfold allws; cbn [forallb]; rewrite X; exact A|].
    intros LE. exfalso. pose proof (drop_ws_length l). cbn [List.length] in LE. lia.
  - exists []. repeat split.
Qed.

Lemma al_reads f ty : forall rem attrs st rem' attrs' st' pre,
  AL f ty rem attrs st = Val (Ret (rem', attrs') st') -> forallb is_ws rem' = true ->
  (pre <> [] \/ rem = []) -> allws pre -> no_byte 62 rem ->
  exists xs trail news, pre ++ rem = r_atts xs ++ trail /\ Forall WfAttr xs /\ WfTrail trail /\
    attrs' = attrs ++ news /\ Forall2 (ATTROF (p_version st) ty) xs news.
Proof.
  induction f as [|f IH]; intros rem attrs st rem' attrs' st' pre H W PR AP N62; [discriminate H|]. cbn [attr_loop] in H.
  assert (PLAIN : rem' = rem -> attrs' = attrs -> forallb is_ws rem = true ->
            exists xs trail news, pre ++ rem = r_atts xs ++ trail /\ Forall WfAttr xs /\ WfTrail trail /\
              attrs' = attrs ++ news /\ Forall2 (ATTROF (p_version st) ty) xs news).
  { intros -> -> WR. exists [], (pre ++ rem), []. split; [reflexivity|]. split; [constructor|]. split; [apply allws_app; auto|].
    split; [symmetry; apply app_nil_r|constructor]. }
  destruct (find_byte 61 rem) as [eq_pos|] eqn:FE; [|injection H as <- <- _; exact (PLAIN eq_refl eq_refl W)].
  unfold find_byte in FE.
  destruct (List.length rem - eq_pos <? 3)%nat eqn:L3; [injection H as <- <- _; destruct (has61_not_ws _ _ FE W)|].
  apply Nat.ltb_ge in L3.
  set (q := nth (S eq_pos) rem 0) in *.
  destruct (negb (q =? 34) && negb (q =? 39)) eqn:QC; [injection H as <- <- _; destruct (has61_not_ws _ _ FE W)|].
  assert (QQ : q = 34 \/ q = 39).
  { apply andb_false_iff in QC as [C|C]; apply negb_false_iff, N.eqb_eq in C; auto. }
  set (nm := firstn eq_pos rem) in *. set (rem2 := skipn (eq_pos + 2) rem) in *.
  assert (ER : rem = nm ++ [61; q] ++ rem2).
  { rewrite (position_cut _ _ _ FE) at 1. fold nm. f_equal. cbn [app]. f_equal.
    rewrite (skipn_nth rem (S eq_pos) 0) by lia. fold q. f_equal. unfold rem2. f_equal. lia. }
  assert (NNM : no_byte 61 nm) by (exact (no_byte_of_position _ _ _ FE)).
  assert (RNE : rem <> []) by (intros E; rewrite E in FE; discriminate FE).
  assert (PNE : pre <> []) by (destruct PR as [P|P]; [exact P|congruence]).
  rewrite ER in N62. apply no_byte_app in N62 as [N62a N62b]. apply no_byte_app in N62b as [_ N62b].
  destruct (find_byte q rem2) as [endq|] eqn:FQ.
  2:{ injection H as <- <- _. destruct (has61_not_ws _ _ FE W). }
  unfold find_byte in FQ. set (value := firstn endq rem2) in *. set (after := skipn (S endq) rem2) in *.
  assert (ER2 : rem2 = value ++ q :: after) by (exact (position_cut _ _ _ FQ)).
  assert (NQV : no_byte q value) by (exact (no_byte_of_position _ _ _ FQ)).
  assert (N62V : no_byte 62 value /\ no_byte 62 after).
  { rewrite ER2 in N62b. apply no_byte_app in N62b as [A B]. split; [exact A|]. unfold no_byte in *. cbn [forallb] in B. apply andb_prop in B as [_ B]. exact B. }
  destruct N62V as [N62V N62A].
  inv H as r1 s1 E1. apply lift_ret_inv in E1 as [NM ->].
  inv H as attrs1 s2 E2.
  assert (STEP : exists a v, attrs1 = attrs ++ [(a, v)] /\ ATTROF (p_version st) ty {| xa_ws := pre; xa_name := nm; xa_quote := q; xa_value := value |} (a, v) /\
                             p_version s2 = p_version st).
  { destruct r1 as [a|].
    2:{ inv E2 as g s3 E3. inv E2 as u s4 E4. destruct (oe_strict_ret _ _ _ _ _ _ E4). }
    inv E2 as sp s3 E3. apply lift_ret_inv in E3 as [FS ->]. destruct sp as [[[[cdid ctype] req] vm]|].
    2:{ inv E2 as g s3 E3. inv E2 as u s4 E4. destruct (oe_strict_ret _ _ _ _ _ _ E4). }
    inv E2 as g s3 E3. apply get_ret_inv in E3 as [-> ->].
    inv E2 as u s4 E4. destruct (LV_inv _ _ _ _ (kp_check_version LV LV_W LV_C true _ _ _ _) E4) as [_ V4].
    apply check_version_ret in E4.
    inv E2 as v s5 E5. destruct (LV_inv _ _ _ _ (kp_pcd LV LV_W LV_C tab_en check_fn float_parse true _ _) E5) as [_ V5].
    apply pcd_value in E5. injection E2 as <- <-. exists a, v. split; [reflexivity|]. split; [|congruence].
    split; [cbn [xa_name fst]; unfold name_of in NM; destruct (from_bytes tab_at nm); try discriminate NM; injection NM as ->; reflexivity|].
    exists cdid, ctype, req, vm. cbn [fst snd xa_value]. split; [exact FS|]. split; [exact E4|]. rewrite V4 in E5. exact E5. }
  destruct STEP as (a & v & -> & AO & V2).
  assert (WA : WfAttr {| xa_ws := pre; xa_name := nm; xa_quote := q; xa_value := value |}).
  { unfold WfAttr. cbn [xa_ws xa_name xa_quote xa_value]. split; [exact PNE|]. split; [exact AP|]. split; [|auto].
    destruct AO as [FB _]. cbn [xa_name fst] in FB. exact (names_clean_spec _ CLEAN_AT _ _ FB). }
  destruct (drop_ws_cut after) as (w & EW & AW & LW).
  destruct (negb match drop_ws after with [] => true | _ :: _ => false end && (List.length (drop_ws after) =? List.length after)%nat) eqn:SEP.
  { injection H as <- _ _. exfalso. rewrite ER2, forallb_app in W. apply andb_prop in W as [_ W]. cbn [forallb] in W.
    apply andb_prop in W as [W _]. destruct QQ as [Q|Q]; rewrite Q in W; discriminate W. }
  assert (PR' : w <> [] \/ drop_ws after = []).
  { destruct (drop_ws after) as [|y r] eqn:DA; [right; reflexivity|left]. cbn [negb andb] in SEP. apply Nat.eqb_neq in SEP.
    intros E. rewrite E in EW. cbn [app] in EW. rewrite <- EW in SEP. congruence. }
  assert (N62N : no_byte 62 (drop_ws after)) by (rewrite EW in N62A; apply no_byte_app in N62A as [_ B]; exact B).
  destruct (IH _ _ _ _ _ _ w H W PR' AW N62N) as (xs & trail & news & E & WX & WT & EA & F2).
  exists ({| xa_ws := pre; xa_name := nm; xa_quote := q; xa_value := value |} :: xs), trail, ((a, v) :: news).
  split.
  - unfold r_atts in *. cbn [map List.concat]. rewrite <- app_assoc, <- E, <- EW. unfold r_attr. cbn [xa_ws xa_name xa_quote xa_value].
    rewrite ER, ER2. rewrite <- !app_assoc. reflexivity.
  - split; [constructor; assumption|]. split; [exact WT|]. split; [rewrite EA, <- app_assoc; reflexivity|].
    constructor; [exact AO|]. rewrite V2 in F2. exact F2.
Qed.

Lemma pat_reads ty text st attrs st' sep : PAT ty text st = Val (Ret attrs st') -> no_byte 62 text -> is_ws sep = true ->
  exists xs trail, sep :: text = r_atts xs ++ trail /\ Forall WfAttr xs /\ WfTrail trail /\
    Forall2 (ATTROF (p_version st) ty) xs attrs /\ p_lex st' = p_lex st /\ p_version st' = p_version st.
Proof.
  intros H N62 SEP.
  destruct (LV_inv _ _ _ _ (kp_pat LV LV_W LV_C T tab_at tab_en check_fn float_parse true ty text) H) as [LX VX].
  unfold parse_attribute_text in H.
  set (rem0 := match position (fun c => negb (is_ws c)) text with Some p => skipn p text | None => text end) in *.
  assert (E0 : exists w, text = w ++ rem0 /\ allws w /\ (w <> [] \/ True)).
  { unfold rem0. destruct (position (fun c => negb (is_ws c)) text) as [p|] eqn:P.
    - exists (firstn p text). split; [symmetry; apply firstn_skipn|]. split; [|auto].
      destruct (position_Some _ _ P) as (_ & _ & NO). unfold allws. rewrite forallb_forall in *. intros x I. specialize (NO x I).
      apply negb_true_iff, negb_false_iff in NO. exact NO.
    - exists []. split; [reflexivity|]. split; [reflexivity|auto]. }
  destruct E0 as (w & ET & AW & _).
  inv H as r s1 E1. destruct r as [rem attrs0].
  inv H as g s2 E2. apply get_ret_inv in E2 as [-> ->].
  inv H as u1 s3 E3. apply guard_strict_ret in E3 as [GC ->].
  inv H as specs s4 E4. inv H as u2 s5 E5. injection H as <- _.
  assert (WR : forallb is_ws rem = true).
  { destruct rem as [|y r]; [reflexivity|]. cbn [negb andb] in GC. apply negb_false_iff in GC. exact GC. }
  assert (N0 : no_byte 62 rem0) by (rewrite ET in N62; apply no_byte_app in N62 as [_ B]; exact B).
  assert (PN : sep :: w <> [] \/ rem0 = []) by (left; discriminate).
  assert (PW : allws (sep :: w)) by (unfold allws in *; cbn [forallb]; rewrite SEP; exact AW).
  destruct (al_reads _ ty rem0 [] st rem attrs0 s1 (sep :: w) E1 WR PN PW N0) as (xs & trail & news & E & WX & WT & EA & F2).
  exists xs, trail. cbn [app] in EA. subst attrs0. split; [rewrite ET; exact E|]. auto 6.
Qed.

(* a start tag or an empty element tag whose attribute text the loader accepts: the bytes between '<' and '>' / '/>' *)
Lemma tag_reads inner name text ty st attrs st' n :
  split_tag inner = (name, text) -> no_byte 62 inner -> PAT ty text st = Val (Ret attrs st') -> from_bytes tab_el name = Ok n ->
  exists atts trail, inner = name ++ r_atts atts ++ trail /\ clean_name name = true /\ Forall WfAttr atts /\ WfTrail trail /\
    Forall2 (ATTROF (p_version st) ty) atts attrs /\ p_lex st' = p_lex st /\ p_version st' = p_version st.
Proof.
  intros ST N62 H FB. pose proof (names_clean_spec _ CLEAN_EL _ _ FB) as CN. unfold split_tag in ST.
  destruct (position is_ws inner) as [sp|] eqn:P.
  - injection ST as <- <-. destruct (position_split _ _ P) as (x & WX & E).
    assert (N62T : no_byte 62 (skipn (S sp) inner)).
    { rewrite E in N62. apply no_byte_app in N62 as [_ B]. unfold no_byte in *. cbn [forallb] in B. apply andb_prop in B as [_ B]. exact B. }
    destruct (pat_reads ty _ st attrs st' x H N62T WX) as (xs & trail & EQ & W1 & W2 & F & L & V).
    exists xs, trail. split; [rewrite <- EQ; exact E|]. auto 8.
  - injection ST as <- <-.
    destruct (LV_inv _ _ _ _ (kp_pat LV LV_W LV_C T tab_at tab_en check_fn float_parse true ty []) H) as [LX VX].
    assert (AE : attrs = []).
    { unfold parse_attribute_text in H. cbn [position List.length attr_loop find_byte] in H.
      inv H as r s1 E1. injection E1 as <- <-. inv H as g s2 E2. inv H as u1 s3 E3. inv H as specs s4 E4. inv H as u2 s5 E5.
      injection H as <- _. reflexivity. }
    subst attrs. exists [], []. split; [cbn; rewrite app_nil_r; reflexivity|]. split; [exact CN|]. split; [constructor|].
    split; [reflexivity|]. split; [constructor|auto].
Qed.

(* ---------- items ---------- *)
Lemma wfitems_app a b : WfItems a -> WfItems b -> (a <> [] -> is_xtext (last a (XPI [])) = true -> head_is_text b = false) ->
  WfItems (a ++ b).
Proof.
  induction 1 as [|x r WX WR IH HT]; intros WB LB; [exact WB|]. cbn [app]. constructor; [exact WX| |].
  - apply IH; [exact WB|]. intros NE L. apply LB; [discriminate|]. destruct r; [congruence|exact L].
  - intros IT. destruct r as [|y r']; [cbn [app]; apply LB; [discriminate|exact IT]|exact (HT IT)].
Qed.

Lemma interp_skip ver ty pend pre sk rest out : Forall is_misc sk ->
  INTERPK ver ty pend pre rest out -> INTERPK ver ty pend pre (sk ++ rest) out.
Proof.
  induction 1 as [|x sk MX _ IH]; intros H; [exact H|]. cbn [app]. destruct x as [t|c|b|? ? ? ? ?]; cbn in MX.
  - apply ik_blank; [exact MX|exact (IH H)].
  - destruct MX.
  - apply ik_pi. exact (IH H).
  - destruct MX.
Qed.

Lemma pnext_inv st ev s2 : pnext st = Val (Ret ev s2) ->
  exists line l', next (p_lex st) = Val (LOk line ev l') /\ p_lex s2 = l' /\ p_version s2 = p_version st.
Proof.
  unfold pnext. destruct (next (p_lex st)) as [[line e l'|line e]| |]; try discriminate. intros [= <- <-]. eauto.
Qed.

(* ---------- elements ---------- *)
Definition etag (nm : list N) : list N := [60; 47] ++ nm ++ [62].

Definition recT := N -> etype -> list (N * cdata) -> option (list N) -> list N -> list nat -> M etree.

(* what one run of the loop of parse_element has read: the content items up to and including the end tag *)
Definition LoopR (st st' : pstate) (nm : list N) (kids : list xml) : Prop :=
  match l_deferred (p_lex st) with
  | None => l_rest (p_lex st) = render_items kids ++ etag nm ++ l_rest (p_lex st') /\
            (at_markup (l_rest (p_lex st)) -> head_is_text kids = false)
  | Some _ => kids = [] /\ l_rest (p_lex st') = l_rest (p_lex st)
  end.

Definition rec_reads (rec : recT) : Prop :=
  forall n ty a c p ps st sub st' nm, rec n ty a c p ps st = Val (Ret sub st') -> from_bytes tab_el nm = Ok n ->
    exists content kids, sub = ENode n ty a content c /\ p_version st' = p_version st /\ l_deferred (p_lex st') = None /\
      WfItems kids /\ INTERPK (p_version st) ty None [] kids content /\ LoopR st st' nm kids.

Lemma same_name nm1 nm2 n : from_bytes tab_el nm1 = Ok n -> from_bytes tab_el nm2 = Ok n -> nm1 = nm2.
Proof. intros A B. apply from_bytes_only_members in A, B. congruence. Qed.

Lemma pe_loop_reads (rec : recT) : rec_reads rec ->
  forall k name ty attrs comment pos content elem_idx snf stored path st t st' nm,
  PL rec k name ty attrs comment pos content elem_idx snf stored path st = Val (Ret t st') -> from_bytes tab_el nm = Ok name ->
  exists more kids, t = ENode name ty attrs (content ++ more) comment /\ p_version st' = p_version st /\
    l_deferred (p_lex st') = None /\ WfItems kids /\ INTERPK (p_version st) ty stored content kids more /\ LoopR st st' nm kids.
Proof.
  intros HR. induction k as [|k IH]; intros name ty attrs comment pos content elem_idx snf stored path st t st' nm H FBN;
    [discriminate H|].
  cbn [pe_loop] in H.
  inv H as u1 s1 E1. injection E1 as _ <-. inv H as ev s2 E2.
  destruct (pnext_inv _ _ _ E2) as (line & l' & NX & PL2 & V2). cbn [p_lex p_version set_cur] in NX, V2.
  destruct (l_deferred (p_lex st)) as [dn|] eqn:DF.
  { (* a deferred end tag *)
    destruct (next_deferred_reads _ _ _ _ _ DF NX) as (-> & LR & LD).
    inv H as nm0 s3 E3. apply lift_ret_inv in E3 as [NO ->]. destruct nm0 as [n|]; [|discriminate H].
    destruct (n =? name); [|discriminate H].
    assert (KP : kpres LV (mbind get (fun st0 => mbind (lift (is_named_in_version T ty (p_version st0))) (fun named =>
                   mbind (if negb snf && named then optional_error true RequiredSubelementMissing name (name_short_name T) else ret tt)
                     (fun _ => ret (ENode name ty attrs content comment)))))).
    { repeat first [apply kpres_bind; [|intros] | apply kpres_get | apply kpres_lift | apply kpres_ret | apply (kpres_optional_error LV LV_W)
                   | match goal with |- kpres _ (if ?c then _ else _) => destruct c end]. }
    destruct (LV_inv _ _ _ _ KP H) as [L9 V9].
    inv H as g1 s4 E4. inv H as named s5 E5. inv H as u6 s6 E6. injection H as <- _.
    exists [], []. rewrite app_nil_r. split; [reflexivity|]. split; [congruence|]. split; [rewrite L9, PL2; exact LD|].
    split; [constructor|]. split; [constructor|]. unfold LoopR. rewrite DF. split; [reflexivity|]. rewrite L9, PL2. exact LR. }
  destruct (next_reads _ _ _ _ DF NX) as (sk & WSK & MSK & HM & LT & ALT).
  destruct ALT as [(-> & _)|(bytes & TK & RB & CB)]; [discriminate H|].
  (* the frame shared by all continuing branches: an item x read by this step, then the rest of the loop *)
  assert (CONT : forall x content' stored' elem_idx' snf' path' s9 (more' : list (etree + cdata)) (first : list (etree + cdata)),
            WfX x -> (is_xtext x = true -> is_chars ev = true) -> (is_chars ev = true -> is_xtext x = true) ->
            l_rest (p_lex st) = render_items sk ++ render x ++ l_rest (p_lex s9) ->
            (is_xtext x = true -> at_markup (l_rest (p_lex s9))) -> l_deferred (p_lex s9) = None ->
            p_version s9 = p_version st ->
            PL rec k name ty attrs comment pos content' elem_idx' snf' stored' path' s9 = Val (Ret t st') ->
            content' = content ++ first ->
            (forall kids' out, INTERPK (p_version st) ty stored' content' kids' out ->
                               INTERPK (p_version st) ty stored content (x :: kids') (first ++ out)) ->
            exists more kids, t = ENode name ty attrs (content ++ more) comment /\ p_version st' = p_version st /\
              l_deferred (p_lex st') = None /\ WfItems kids /\ INTERPK (p_version st) ty stored content kids more /\ LoopR st st' nm kids).
  { intros x content' stored' elem_idx' snf' path' s9 more' first WX XT1 XT2 RX AMX D9 V9 HL EC IK.
    destruct (IH _ _ _ _ _ _ _ _ _ _ _ _ _ _ HL FBN) as (more & kids & -> & VF & DFF & WK & IKK & LR).
    rewrite V9 in *. subst content'. exists (first ++ more), (sk ++ x :: kids). split; [rewrite <- app_assoc; reflexivity|].
    split; [exact VF|]. split; [exact DFF|]. unfold LoopR in LR. rewrite D9 in LR. destruct LR as [LR HK]. split.
    - apply wfitems_app; [exact WSK| |].
      + constructor; [exact WX|exact WK|]. intros IT. exact (HK (AMX IT)).
      + intros NE L. cbn [head_is_text]. specialize (LT NE L). destruct (is_xtext x) eqn:IX; [|reflexivity]. rewrite (XT1 eq_refl) in LT. discriminate LT.
    - split; [apply interp_skip; [exact MSK|]; apply IK; exact IKK|].
      unfold LoopR. rewrite DF. split.
      + rewrite render_items_app, render_items_cons, RX, LR. rewrite <- !app_assoc. reflexivity.
      + intros A. destruct (HM A) as [H1 H2]. destruct sk as [|y sk']; [|exact H1]. cbn [app head_is_text].
        specialize (H2 eq_refl). destruct (is_xtext x) eqn:IX; [|reflexivity]. rewrite (XT1 eq_refl) in H2. discriminate H2. }
  destruct ev as [sa|elem_text attr_text|elem_text|text|c|].
  - inv H as u3 s3 E3. destruct (oe_strict_ret _ _ _ _ _ _ E3).
  - (* a sub-element *)
    inv H as nmo s3 E3. apply lift_ret_inv in E3 as [NO ->]. destruct nmo as [sub_name|]; [|discriminate H].
    assert (FBS : from_bytes tab_el elem_text = Ok sub_name).
    { unfold name_of in NO. destruct (from_bytes tab_el elem_text); try discriminate NO. injection NO as ->. reflexivity. }
    inv H as r s4 E4. destruct r as [sub_ty idx'].
    destruct (LV_inv _ _ _ _ (kp_find_elem LV LV_W LV_C T true _ _) E4) as [L4 V4]. apply find_elem_ret in E4.
    inv H as u5 s5 E5. destruct (LV_inv _ _ _ _ (kp_conflict LV LV_W T true _ _ _ _) E5) as [L5 V5].
    inv H as u6 s6 E6.
    assert (LV6 : p_lex s6 = p_lex s5 /\ p_version s6 = p_version s5).
    { destruct content; [injection E6 as _ <-; auto|exact (LV_inv _ _ _ _ (kp_mult LV LV_W T true _ _ _ _) E6)]. }
    destruct LV6 as [L6 V6].
    inv H as sub_attrs s7 E7. inv H as sub s8 E8.
    assert (V6' : p_version s6 = p_version st) by congruence.
    assert (L6' : p_lex s6 = l') by congruence.
    (* the tag *)
    assert (TAG : exists inner (sc : bool), bytes = [60] ++ inner ++ (if sc then [47; 62] else [62]) /\ no_byte 62 inner /\
                    split_tag inner = (elem_text, attr_text) /\ l_deferred l' = (if sc then Some elem_text else None)).
    { inversion TK; subst; [exists inner, false|exists inner, true]; auto. }
    destruct TAG as (inner & sc & EB & N62 & ST & DL).
    destruct (tag_reads inner elem_text attr_text sub_ty s6 sub_attrs s7 sub_name ST N62 E7 FBS)
      as (atts & trail & EI & CN & WA & WT & F2 & L7 & V7).
    destruct (HR _ _ _ _ _ _ _ _ _ elem_text E8 FBS) as (subcontent & subkids & -> & V8 & D8 & WSUB & IKS & LRS).
    assert (V7' : p_version s7 = p_version st) by congruence.
    assert (L7' : p_lex s7 = l') by congruence.
    rewrite V7' in IKS. rewrite V6' in F2. rewrite V2 in E4.
    unfold LoopR in LRS. rewrite L7', DL in LRS.
    assert (SCK : sc = true -> subkids = []) by (intros ->; exact (proj1 LRS)).
    assert (RXE : bytes ++ l_rest l' = render (XElem elem_text atts trail sc subkids) ++ l_rest (p_lex s8)).
    { rewrite render_elem, EB, EI. destruct sc.
      - destruct LRS as [_ LRS]. rewrite LRS. rewrite <- !app_assoc. reflexivity.
      - destruct LRS as [LRS _]. rewrite LRS. unfold etag. rewrite <- !app_assoc. reflexivity. }
    assert (WXE : WfX (XElem elem_text atts trail sc subkids)) by (constructor; assumption).
    assert (FIN : forall snf2 p2 s9, p_lex s9 = p_lex s8 -> p_version s9 = p_version s8 ->
              PL rec k name ty attrs comment pos (content ++ [inl (ENode sub_name sub_ty sub_attrs subcontent stored)]) idx' snf2 None p2 s9 = Val (Ret t st') ->
              exists more kids, t = ENode name ty attrs (content ++ more) comment /\ p_version st' = p_version st /\
                l_deferred (p_lex st') = None /\ WfItems kids /\ INTERPK (p_version st) ty stored content kids more /\ LoopR st st' nm kids).
    { intros snf2 p2 s9 L9 V9 HL.
      apply (CONT (XElem elem_text atts trail sc subkids) (content ++ [inl (ENode sub_name sub_ty sub_attrs subcontent stored)]) None idx' snf2 p2 s9 [] [inl (ENode sub_name sub_ty sub_attrs subcontent stored)] WXE);
        try (intros; discriminate); try reflexivity.
      - rewrite RB, L9, <- RXE. reflexivity.
      - rewrite L9. exact D8.
      - congruence.
      - exact HL.
      - intros kids' out IK. cbn [app]. eapply ik_elem; [cbn [e_name]; exact E4| |exact IK].
        constructor; assumption. }
    destruct ((sub_name =? name_short_name T) && match content with [] => true | _ :: _ => false end).
    + destruct (first_string _).
      * inv H as u9 s9 E9. injection E9 as _ <-. eapply FIN; [| |exact H]; reflexivity.
      * eapply FIN; [| |exact H]; reflexivity.
    + eapply FIN; [| |exact H]; reflexivity.
  - (* the end tag *)
    inv H as nm0 s3 E3. apply lift_ret_inv in E3 as [NO ->]. destruct nm0 as [n|]; [|discriminate H].
    destruct (n =? name) eqn:EN; [|discriminate H]. apply N.eqb_eq in EN. subst n.
    assert (FBE : from_bytes tab_el elem_text = Ok name).
    { unfold name_of in NO. destruct (from_bytes tab_el elem_text); try discriminate NO. injection NO as ->. reflexivity. }
    pose proof (same_name _ _ _ FBE FBN) as ->.
    assert (KP : kpres LV (mbind get (fun st0 => mbind (lift (is_named_in_version T ty (p_version st0))) (fun named =>
                   mbind (if negb snf && named then optional_error true RequiredSubelementMissing name (name_short_name T) else ret tt)
                     (fun _ => ret (ENode name ty attrs content comment)))))).
    { repeat first [apply kpres_bind; [|intros] | apply kpres_get | apply kpres_lift | apply kpres_ret | apply (kpres_optional_error LV LV_W)
                   | match goal with |- kpres _ (if ?c then _ else _) => destruct c end]. }
    destruct (LV_inv _ _ _ _ KP H) as [L9 V9].
    inv H as g1 s4 E4. inv H as named s5 E5. inv H as u6 s6 E6. injection H as <- _.
    assert (DL : l_deferred l' = None /\ bytes = etag nm) by (inversion TK; subst; auto).
    destruct DL as [DL ->].
    exists [], sk. rewrite app_nil_r. split; [reflexivity|]. split; [congruence|]. split; [rewrite L9, PL2; exact DL|].
    split; [exact WSK|]. split; [rewrite <- (app_nil_r sk); apply interp_skip; [exact MSK|constructor]|].
    unfold LoopR. rewrite DF. split; [rewrite L9, PL2; exact RB|]. intros A. exact (proj1 (HM A)).
  - (* character data *)
    inv H as spec s3 E3. apply lift_ret_inv in E3 as [CS ->]. destruct spec as [cs|].
    2:{ inv H as u4 s4 E4. destruct (oe_strict_ret _ _ _ _ _ _ E4). }
    inv H as mode sm Em. apply lift_ret_inv in Em as [CM ->].
    destruct ((mode =? MCharacters) && negb match content with [] => true | _ :: _ => false end) eqn:GD.
    { inv H as ux sx Ex. destruct (oe_strict_ret _ _ _ _ _ _ Ex). }
    inv H as value s4 E4. destruct (LV_inv _ _ _ _ (kp_pcd LV LV_W LV_C tab_en check_fn float_parse true _ _) E4) as [L4 V4].
    apply pcd_value in E4. rewrite V2 in E4.
    inv H as isr s5 E5. apply lift_ret_inv in E5 as [_ ->]. inv H as u6 s6 E6.
    assert (LV6 : p_lex s6 = p_lex s4 /\ p_version s6 = p_version s4).
    { destruct value; try (injection E6 as _ <-; auto). destruct isr; injection E6 as _ <-; auto. }
    destruct LV6 as [L6 V6].
    assert (TX : bytes = text /\ text <> [] /\ no_byte 60 text /\ forallb is_ws text = false /\ l_deferred l' = None) by (inversion TK; subst; auto).
    destruct TX as (-> & TNE & T60 & TWS & DL).
    apply (CONT (XText text) (content ++ [inr value]) stored elem_idx snf path s6 [] [inr value]); try reflexivity.
    + constructor; assumption.
    + rewrite L6, L4, PL2. exact RB.
    + intros _. rewrite L6, L4, PL2. exact (CB eq_refl).
    + rewrite L6, L4, PL2. exact DL.
    + congruence.
    + exact H.
    + intros kids' out IK. cbn [app]. eapply ik_text; [exact TWS|exact CS|exact CM| |exact E4|exact IK].
      intros ->. rewrite N.eqb_refl in GD. cbn [andb] in GD. apply negb_false_iff in GD. destruct content; [reflexivity|discriminate GD].
  - (* a comment *)
    assert (TX : bytes = comment_text c ++ [62] /\ CommentOk c /\ l_deferred l' = None) by (inversion TK; subst; auto).
    destruct TX as (-> & CO & DL).
    apply (CONT (XComment c) content (Some (utf8_lossy c)) elem_idx snf path s2 [] []); try (intros; discriminate); try reflexivity.
    + constructor. exact CO.
    + rewrite PL2. exact RB.
    + rewrite PL2. exact DL.
    + exact V2.
    + exact H.
    + symmetry. apply app_nil_r.
    + intros kids' out IK. cbn [app]. apply ik_comment. exact IK.
  - discriminate H.
Qed.

Lemma parse_element_reads fuel lfuel : rec_reads (PE fuel lfuel).
Proof.
  induction fuel as [|f IH]; intros n ty a c p ps st sub st' nm H FB; [discriminate H|]. cbn [parse_element] in H.
  destruct (pe_loop_reads _ IH _ _ _ _ _ _ _ _ _ _ _ _ _ _ _ H FB) as (more & kids & -> & V & D & W & IK & LR).
  exists more, kids. auto 8.
Qed.

(* ---------- the document ---------- *)
Lemma pfv_header schema st v st' : parse_file_version true schema st = Val (Ret v st') ->
  st' = st /\ hd [] (split_on 32 [] schema) = BS "http://autosar.org/schema/r4.0" /\ version_of_filename (xsd_of schema) = Some v.
Proof.
  unfold parse_file_version. cbv zeta. fold (xsd_of schema).
  destruct (bytes_eqb (hd [] (split_on 32 [] schema)) (BS "http://autosar.org/schema/r4.0")) eqn:B; cbn [negb]; [|discriminate].
  apply bytes_eqb_spec in B. destruct (version_of_filename (xsd_of schema)) as [v0|].
  - intros [= <- <-]. auto.
  - intros H. exfalso.
    repeat match type of H with
           | (if ?c then _ else _) _ = _ => destruct c
           end; inv H as u1 s1 E1; exact (oe_strict_ret _ _ _ _ _ _ E1).
Qed.

Lemma pfh_header attrs st u st' : parse_file_header true tab_at attrs st = Val (Ret u st') ->
  exists ver, st' = Parser.set_version st ver /\ HeaderOf tab_at attrs ver.
Proof.
  unfold parse_file_header, attr_id. intros H.
  inv H as a1 s1 E1. inv E1 as r1 s1' E1'. apply lift_ret_inv in E1' as [N1 ->]. destruct r1 as [i1|]; [|discriminate E1]. injection E1 as <- <-.
  inv H as a2 s2 E2. inv E2 as r2 s2' E2'. apply lift_ret_inv in E2' as [N2 ->]. destruct r2 as [i2|]; [|discriminate E2]. injection E2 as <- <-.
  inv H as a3 s3 E3. inv E3 as r3 s3' E3'. apply lift_ret_inv in E3' as [N3 ->]. destruct r3 as [i3|]; [|discriminate E3]. injection E3 as <- <-.
  destruct (attr_string i1 attrs) as [[xmlns|]|] eqn:A1; try discriminate H.
  destruct (attr_string i2 attrs) as [[xsi|]|] eqn:A2; try discriminate H.
  destruct (attr_string i3 attrs) as [[schema|]|] eqn:A3; try discriminate H.
  destruct (negb (bytes_eqb xmlns (BS "http://autosar.org/schema/r4.0")) || negb (bytes_eqb xsi (BS "http://www.w3.org/2001/XMLSchema-instance"))) eqn:C;
    [discriminate H|].
  apply orb_false_iff in C as [C1 C2]. apply negb_false_iff, bytes_eqb_spec in C1, C2. subst xmlns xsi.
  inv H as v s4 E4. apply pfv_header in E4 as (-> & HB & VF). injection H as _ <-.
  exists v. split; [reflexivity|]. exists i1, i2, i3, schema.
  assert (NO : forall s i, name_of tab_at s = Val (Some i) -> from_bytes tab_at s = Ok i).
  { intros s0 i. unfold name_of. destruct (from_bytes tab_at s0); [intros [= ->]; reflexivity|discriminate|discriminate]. }
  auto 10.
Qed.

Definition is_comment_ev (ev : event) : bool := match ev with EvComment _ => true | _ => false end.

(* what has been read between the declaration and a token *)
Definition PrologR (l0 : lstate) (tok : event) (lx : lstate) (pl : list xml) : Prop :=
  exists bytes, TokR tok bytes (l_deferred lx) /\ l_rest l0 = render_items pl ++ bytes ++ l_rest lx /\ WfItems pl /\
    Forall is_misc_or_comment pl /\ (pl <> [] -> is_xtext (last pl (XPI [])) = true -> is_chars tok = false).

Lemma last_comment_app acc a b : last_comment acc (a ++ b) = last_comment (last_comment acc a) b.
Proof. revert acc; induction a as [|x a IH]; intros acc; [reflexivity|]. destruct x; cbn [app last_comment]; apply IH. Qed.

Lemma last_comment_misc acc sk : Forall is_misc sk -> last_comment acc sk = acc.
Proof. induction 1 as [|x sk M _ IH]; [reflexivity|]. destruct x; cbn in M; try destruct M; cbn [last_comment]; exact IH. Qed.

Lemma misc_moc sk : Forall is_misc sk -> Forall is_misc_or_comment sk.
Proof. apply Forall_impl. intros [t|c|b|? ? ? ? ?]; cbn; auto. Qed.

Lemma last_app_cons {A} (a : list A) x b d : last (a ++ x :: b) d = last (x :: b) d.
Proof. apply last_app_ne. discriminate. Qed.

Lemma skip_comments_reads f : forall stored tok st r st' l0 pl,
  skip_comments f stored tok st = Val (Ret r st') -> PrologR l0 tok (p_lex st) pl -> stored = last_comment None pl ->
  forall nm at_, snd r = EvBegin nm at_ ->
  exists pl', PrologR l0 (snd r) (p_lex st') pl' /\ fst r = last_comment None pl' /\ p_version st' = p_version st.
Proof.
  induction f as [|f IH]; intros stored tok st r st' l0 pl H PR ST nm at_ SR; [discriminate H|]. cbn [skip_comments] in H.
  destruct tok as [sa|n0 a0|n0|t0|c|]; try (injection H as <- <-; exists pl; auto).
  inv H as t s1 E1. destruct (pnext_inv _ _ _ E1) as (line & l1 & NX & PL1 & V1).
  destruct PR as (bytes & TK & RB & WP & MP & LP).
  assert (TC : bytes = comment_text c ++ [62] /\ CommentOk c /\ l_deferred (p_lex st) = None) by (inversion TK; subst; auto).
  destruct TC as (-> & CO & DF).
  destruct (next_reads _ _ _ _ DF NX) as (sk & WSK & MSK & HM & LT & ALT).
  destruct ALT as [(-> & _)|(bytes1 & TK1 & RB1 & CB1)].
  { exfalso. destruct f as [|f']; [discriminate H|]. cbn [skip_comments] in H. injection H as <- _. discriminate SR. }
  assert (PR1 : PrologR l0 t (p_lex s1) (pl ++ XComment c :: sk)).
  { exists bytes1. rewrite PL1. split; [exact TK1|]. split.
    - rewrite RB, RB1, render_items_app, render_items_cons. cbn [render]. rewrite <- !app_assoc. reflexivity.
    - split.
      + apply wfitems_app; [exact WP| |].
        * constructor; [constructor; exact CO|exact WSK|discriminate].
        * intros _ _. reflexivity.
      + split; [apply Forall_app; split; [exact MP|constructor; [exact I|exact (misc_moc _ MSK)]]|].
        intros _ L. rewrite last_app_cons in L. destruct sk as [|y sk']; [discriminate L|]. apply LT; [discriminate|]. exact L. }
  assert (ST1 : Some (utf8_lossy c) = last_comment None (pl ++ XComment c :: sk)).
  { rewrite last_comment_app. cbn [last_comment]. symmetry. apply last_comment_misc. exact MSK. }
  destruct (IH _ _ _ _ _ l0 _ H PR1 ST1 nm at_ SR) as (pl' & PR' & FR & VV).
  exists pl'. split; [exact PR'|]. split; [exact FR|]. congruence.
Qed.

Lemma lexer_new_bom bs : exists b : bool, bs = (if b then bom else []) ++ l_rest (lexer_new bs).
Proof.
  unfold lexer_new; cbn [l_rest].
  assert (F : exists b : bool, bs = (if b then bom else []) ++ bs) by (exists false; reflexivity).
  destruct bs as [|b0 [|b1 [|b2 [|b3 r]]]]; auto;
  (destruct b0 as [|p]; auto; repeat (destruct p as [p|p|]; auto));
  (destruct b1 as [|p]; auto; repeat (destruct p as [p|p|]; auto));
  (destruct b2 as [|p]; auto; repeat (destruct p as [p|p|]; auto)).
  exists true. reflexivity.
Qed.

(* the header: the standalone flag of the loaded file is the one of the XML declaration - the first event of the lexer; a
   later declaration never changes it (it is an UnexpectedXmlFileHeader error / warning inside the root element).  Both modes. *)
Theorem load_standalone (s : bool) bs t st :
  load s T tab_el tab_at tab_en check_fn float_parse bs = Val (Ret t st) ->
  exists line sa l1, next (lexer_new bs) = Val (LOk line (EvHeader sa) l1) /\ p_standalone st = sa.
Proof.
  unfold load.
  destruct (version_of_ident "Autosar_4_0_1") as [v401|]; [|destruct (elem T (autosar_element T)); discriminate].
  destruct (elem T (autosar_element T)) as [e|site|]; try discriminate.
  unfold parse_arxml. intros H.
  inv H as ev s1 E1. destruct (pnext_inv _ _ _ E1) as (line1 & l1 & NX1 & _ & _). destruct ev as [sa| | | | |]; try discriminate H.
  exists line1, sa, l1. split; [exact NX1|].
  inv H as u2 s2 E2. injection E2 as _ <-.
  assert (KP : forall {A} (m : M A) x a y, kpres p_standalone m -> m x = Val (Ret a y) -> p_standalone y = p_standalone x)
    by (intros A m x a y K E; exact (kpres_inv p_standalone m x a y K E)).
  inv H as tok s3 E3. apply (KP _ pnext) in E3; [|apply kpres_pnext; intros; reflexivity].
  inv H as r s4 E4. apply (KP _ (skip_comments _ _ _)) in E4; [|apply kp_skip_comments; intros; reflexivity]. destruct r as [stored token].
  destruct token as [|elemname attr_text| | | |]; try discriminate H.
  inv H as nmo s5 E5. apply lift_ret_inv in E5 as [_ ->]. inv H as an s6 E6.
  assert (S6 : s6 = s4). { unfold autosar_name in E6. inv E6 as e0 sy Ey. apply lift_ret_inv in Ey as [_ ->]. injection E6 as _ <-. reflexivity. }
  subst s6. destruct nmo as [n0|]; [|discriminate H]. destruct (n0 =? an); [|discriminate H].
  inv H as rt s7 E7. apply lift_ret_inv in E7 as [_ ->].
  inv H as attributes s8 E8. apply (KP _ (parse_attribute_text _ _ _ _ _ _ _ _)) in E8; [|apply kp_pat; intros; reflexivity].
  inv H as u9 s9 E9. apply (KP _ (parse_file_header _ _ _)) in E9; [|apply kp_pfh; intros; reflexivity].
  inv H as root s10 E10. apply (KP _ (parse_element _ _ _ _ _ _ _ _ _ _ _ _ _ _ _)) in E10; [|apply kp_parse_element; intros; reflexivity].
  inv H as u11 s11 E11. apply (KP _ (verify_end_of_input _)) in E11; [|apply kp_verify_end; intros; reflexivity].
  injection H as _ <-. rewrite E11, E10, E9, E8, E4, E3. reflexivity.
Qed.

Theorem load_faithful bs t st :
  load true T tab_el tab_at tab_en check_fn float_parse bs = Val (Ret t st) ->
  exists d, Reads bs d /\ InterpDoc T tab_el tab_at tab_en check_fn float_parse d (p_version st) t.
Proof.
  unfold load.
  destruct (version_of_ident "Autosar_4_0_1") as [v401|] eqn:V401; [|destruct (elem T (autosar_element T)); discriminate].
  destruct (elem T (autosar_element T)) as [e|site|] eqn:EE; try discriminate.
  unfold parse_arxml. intros H.
  set (st0 := init_pstate bs v401 (ed_name e)) in *.
  inv H as ev s1 E1. destruct (pnext_inv _ _ _ E1) as (line1 & l1 & NX1 & PL1 & V1). destruct ev as [sa| | | | |]; try discriminate H.
  assert (D0 : l_deferred (p_lex st0) = None) by reflexivity.
  destruct (next_reads _ _ _ _ D0 NX1) as (sk0 & WSK0 & MSK0 & _ & _ & ALT0).
  destruct ALT0 as [(EQ & _)|(bytes0 & TK0 & RB0 & _)]; [discriminate EQ|].
  assert (TH : exists body, bytes0 = [60; 63] ++ body ++ [63; 62] /\ XmlDeclR body sa /\ l_deferred l1 = None) by (inversion TK0; subst; eauto).
  destruct TH as (body & -> & XD & DL1).
  inv H as u2 s2 E2. injection E2 as _ <-.
  inv H as tok s3 E3. destruct (pnext_inv _ _ _ E3) as (line3 & l3 & NX3 & PL3 & V3). cbn [p_lex p_version set_standalone] in NX3, V3.
  rewrite PL1 in NX3.
  destruct (next_reads _ _ _ _ DL1 NX3) as (sk1 & WSK1 & MSK1 & _ & LT1 & ALT1).
  inv H as r s4 E4. destruct r as [stored token].
  destruct token as [|elemname attr_text| | | |]; try discriminate H.
  assert (PRO : exists pl, PrologR l1 (EvBegin elemname attr_text) (p_lex s4) pl /\ stored = last_comment None pl /\ p_version s4 = p_version s3).
  { destruct ALT1 as [(-> & _)|(bytes1 & TK1 & RB1 & _)].
    - exfalso. cbn [skip_comments] in E4. injection E4 as _ EQ _. discriminate EQ.
    - assert (PR1 : PrologR l1 tok (p_lex s3) sk1).
      { exists bytes1. rewrite PL3. split; [exact TK1|]. split; [exact RB1|]. split; [exact WSK1|]. split; [exact (misc_moc _ MSK1)|exact LT1]. }
      destruct (skip_comments_reads _ _ _ _ _ _ l1 sk1 E4 PR1 (eq_sym (last_comment_misc None sk1 MSK1)) elemname attr_text eq_refl) as (pl & PR & FR & VV).
      exists pl. auto. }
  destruct PRO as (pl & (bytesR & TKR & RBR & WPL & MPL & _) & STO & V4).
  inv H as nmo s5 E5. apply lift_ret_inv in E5 as [NO ->]. inv H as an s6 E6.
  assert (S6 : s6 = s4 /\ an = ed_name e).
  { unfold autosar_name in E6. inv E6 as e0 sy Ey. apply lift_ret_inv in Ey as [EY ->]. rewrite EE in EY. injection EY as <-. injection E6 as <- <-. auto. }
  destruct S6 as [-> ->]. destruct nmo as [n0|]; [|discriminate H]. destruct (n0 =? ed_name e) eqn:EN; [|discriminate H].
  apply N.eqb_eq in EN. subst n0.
  assert (FBR : from_bytes tab_el elemname = Ok (ed_name e)).
  { unfold name_of in NO. destruct (from_bytes tab_el elemname); try discriminate NO. injection NO as ->. reflexivity. }
  inv H as rt s7 E7. apply lift_ret_inv in E7 as [RT ->].
  inv H as attributes s8 E8.
  assert (TAG : exists inner (sc : bool), bytesR = [60] ++ inner ++ (if sc then [47; 62] else [62]) /\ no_byte 62 inner /\
                  split_tag inner = (elemname, attr_text) /\ l_deferred (p_lex s4) = (if sc then Some elemname else None)).
  { inversion TKR; subst; [exists inner, false|exists inner, true]; auto. }
  destruct TAG as (inner & sc & EB & N62 & STG & DL4).
  destruct (tag_reads inner elemname attr_text rt s4 attributes s8 (ed_name e) STG N62 E8 FBR)
    as (atts & trail & EI & CN & WA & WT & F2 & L8 & V8).
  inv H as u9 s9 E9. destruct (pfh_header _ _ _ _ E9) as (ver & -> & HDR).
  inv H as root s10 E10.
  destruct (parse_element_reads _ _ _ _ _ _ _ _ _ _ _ elemname E10 FBR) as (content & kids & -> & V10 & D10 & WK & IK & LR).
  cbn [p_version p_lex Parser.set_version] in V10, IK, LR.
  unfold LoopR in LR. cbn [p_lex Parser.set_version] in LR. rewrite L8, DL4 in LR.
  inv H as u11 s11 E11. injection H as <- <-.
  (* the end of the input *)
  assert (END : exists sk2, WfItems sk2 /\ Forall is_misc sk2 /\ l_rest (p_lex s10) = render_items sk2 /\
                            p_version s11 = p_version s10).
  { unfold verify_end_of_input in E11. destruct (next (p_lex s10)) as [[lineE evE lE|lineE eE]| |] eqn:NXE; try discriminate E11.
    destruct evE; try (destruct (oe_strict_ret _ _ _ _ _ _ E11)). injection E11 as _ <-.
    destruct (next_reads _ _ _ _ D10 NXE) as (sk2 & W2 & M2 & _ & _ & ALT2).
    destruct ALT2 as [(_ & R2 & _)|(b2 & TK2 & _)]; [|inversion TK2].
    exists sk2. auto. }
  destruct END as (sk2 & W2 & M2 & R2 & V11).
  assert (SCK : sc = true -> kids = []) by (intros ->; exact (proj1 LR)).
  assert (RXE : bytesR ++ l_rest (p_lex s4) = render (XElem elemname atts trail sc kids) ++ l_rest (p_lex s10)).
  { rewrite render_elem, EB, EI. destruct sc.
    - destruct LR as [_ LR]. rewrite LR. rewrite <- !app_assoc. reflexivity.
    - destruct LR as [LR _]. rewrite LR. unfold etag. rewrite <- !app_assoc. reflexivity. }
  (* the byte order mark *)
  assert (BOM : exists b : bool, bs = (if b then bom else []) ++ l_rest (p_lex st0)) by (exact (lexer_new_bom bs)).
  destruct BOM as (hasbom & EBS).
  exists {| d_bom := hasbom; d_before := sk0; d_decl := body; d_standalone := sa; d_prolog := pl;
            d_root := XElem elemname atts trail sc kids; d_after := sk2 |}.
  split.
  - split.
    + unfold render_doc. cbn [d_bom d_before d_decl d_prolog d_root d_after]. rewrite EBS at 1. f_equal.
      rewrite RB0. f_equal. rewrite <- !app_assoc. do 3 f_equal. cbn [app]. do 2 f_equal.
      rewrite RBR, RXE, R2. reflexivity.
    + unfold WfDoc. cbn [d_bom d_before d_decl d_standalone d_prolog d_root d_after].
      split; [exact WSK0|]. split; [exact MSK0|]. split; [exact XD|]. split; [exact WPL|]. split; [exact MPL|].
      split; [eauto 6|]. split; [constructor; assumption|]. auto.
  - exists rt, e, v401. split; [exact RT|]. split; [exact EE|]. split; [exact V401|]. split; [reflexivity|].
    exists elemname, atts, trail, sc, kids, (ed_name e), attributes, content, stored.
    cbn [d_root d_prolog]. split; [reflexivity|]. split; [reflexivity|]. split; [exact FBR|].
    assert (VV : p_version s4 = v401) by (rewrite V4, V3, V1; reflexivity).
    rewrite VV in F2. split; [exact F2|].
    assert (VF : p_version s11 = ver) by (rewrite V11, V10; reflexivity). rewrite VF. split; [exact HDR|]. split; [exact IK|exact STO].
Qed.

(* both modes: a lenient load without warnings is a strict load (C08_agree) *)
Theorem load_faithful_clean (b : bool) bs t st :
  load b T tab_el tab_at tab_en check_fn float_parse bs = Val (Ret t st) -> p_warnings st = [] ->
  exists d, Reads bs d /\ InterpDoc T tab_el tab_at tab_en check_fn float_parse d (p_version st) t.
Proof.
  intros L W. apply load_faithful. destruct b; [exact L|].
  destruct (load_agree T tab_el tab_at tab_en check_fn float_parse bs) as (A & _). exact (A t st L W).
Qed.

End Faithful.
