(* Xml/StrictValidDef.v — StrictValid: what a strictly loaded tree must satisfy, stated on the TREE and the
   specification tables only (lookups of Spec/SpecOps.v = the API of autosar-data-specification), independent of the
   parser.  `ver` is the file's version bit.

   StrictValid ver (ENode name ty attrs content comment) :=
     attrs_valid     every attribute is known for `ty` (find_attribute_spec), allowed in `ver`, its value valid for
                     the attribute's character-data spec; every required attribute of `ty` is present;
     children_ok     walking the content left to right: every child element is findable in `ty` in version `ver`
                     (find_sub_element ty name ver) under some index path, with the type the tree records;
                     the index paths of two consecutive child elements are equal or their deepest common group is not a
                     Choice; a child whose container is a Sequence or Choice and whose multiplicity is not Any does
                     not repeat the name of an earlier child; every text item is valid for the type's
                     character-data spec; every child element is StrictValid itself;
     shortname_ok    if `ty` is named in `ver` there is a SHORT-NAME child.
   cdata_valid: enum item listed and in version; pattern string within max_length, accepted by the validator, UTF-8;
   plain string within max_length (after unescaping); numbers are numbers by construction of the tree.  NOT in the predicate (see the `holes` in StrictValid.v):
   an element that must carry text has exactly one text item; entity well-formedness of plain strings
   (a property of the bytes before unescaping, not of the tree). *)
From AV Require Import Base.Bytes Base.Outcome Base.Utf8 Hash.HashModel Spec.SpecOps Xml.Lexer Xml.Parser.
Open Scope list_scope.
Open Scope N_scope.

Definition e_type (e : etree) : etype := match e with ENode _ ty _ _ _ => ty end.
Definition e_attrs (e : etree) := match e with ENode _ _ a _ _ => a end.

Section Def.
Variable T : tables.
Variable check_fn : N -> list N -> res bool.
Variable ver : N.

Definition in_ver (mask : N) : Prop := N.land ver mask <> 0.

Inductive cdata_valid : cdspec -> cdata -> Prop :=
| cv_enum items item mask :
    find (fun it => fst it =? item) items = Some (item, mask) -> in_ver mask -> cdata_valid (CEnum items) (DEnum item)
| cv_pattern fn maxlen s :
    opt_len_gt maxlen s = false -> check_fn fn s = Val true -> utf8_valid s = true ->
    cdata_valid (CPattern fn maxlen) (DString s)
| cv_string preserve maxlen s : opt_len_gt maxlen s = false -> cdata_valid (CString preserve maxlen) (DString s)
| cv_uint n : cdata_valid CUInt (DUInt n)
| cv_float b : cdata_valid CFloat (DFloat b).

Definition attr_valid (ty : etype) (a : N * cdata) : Prop :=
  exists cdid c req m, find_attribute_spec T ty (fst a) = Val (Some (cdid, c, req, m)) /\ in_ver m /\ cdata_valid c (snd a).

Definition attrs_valid (ty : etype) (attrs : list (N * cdata)) : Prop :=
  Forall (attr_valid ty) attrs /\
  (forall specs, attribute_spec_list T ty = Val specs ->
     forall name cdid c req, In (name, cdid, c, req) specs -> req <> 0 -> exists v, In (name, v) attrs).

(* two consecutive child elements with index paths prev / idx *)
Definition no_conflict (ty : etype) (prev idx : list N) : Prop :=
  prev = [] \/ prev = idx \/
  exists g d, find_common_group T ty prev idx = Val g /\ dt T g = Val d /\ dt_mode d <> MChoice.

(* a child element `cname` at index path idx, after the content `pre` *)
Definition mult_ok (ty : etype) (idx : list N) (cname : N) (pre : list (etree + cdata)) : Prop :=
  forall mode mult,
    get_sub_element_container_mode T ty idx = Val mode -> (mode = MSequence \/ mode = MChoice) ->
    get_sub_element_multiplicity T ty idx = Val (Some mult) -> mult <> 2 ->
    forall e, In (inl e) pre -> e_name e <> cname.

Definition text_ok (ty : etype) (v : cdata) : Prop :=
  exists cs, chardata_spec T ty = Val (Some cs) /\ cdata_valid cs v.

Definition shortname_ok (ty : etype) (content : list (etree + cdata)) : Prop :=
  is_named_in_version T ty ver = Val true -> exists e, In (inl e) content /\ e_name e = name_short_name T.

(* a character data element (content mode Characters) holds at most one value (fix 00b10f0), in every node *)
Definition count_text (l : list (etree + cdata)) : nat :=
  List.length (filter (fun c => match c with inr _ => true | inl _ => false end) l).

Inductive single_valued : etree -> Prop :=
| sv_node name ty attrs content comment :
    (content_mode T ty = Val MCharacters -> (count_text content <= 1)%nat) ->
    (forall c, In (inl c) content -> single_valued c) ->
    single_valued (ENode name ty attrs content comment).

Inductive StrictValid : etree -> Prop :=
| SV_node name ty attrs content comment :
    attrs_valid ty attrs -> children_ok ty [] [] content -> shortname_ok ty content ->
    StrictValid (ENode name ty attrs content comment)
(* children_ok ty prev pre rest: `pre` is the content already seen, `prev` the index path of the last child element *)
with children_ok : etype -> list N -> list (etree + cdata) -> list (etree + cdata) -> Prop :=
| co_nil ty prev pre : children_ok ty prev pre []
| co_elem ty prev pre c rest idx :
    find_sub_element T ty (e_name c) ver = Val (Some (e_type c, idx)) ->
    no_conflict ty prev idx -> mult_ok ty idx (e_name c) pre -> StrictValid c ->
    children_ok ty idx (pre ++ [inl c]) rest -> children_ok ty prev pre (inl c :: rest)
| co_text ty prev pre v rest :
    text_ok ty v -> children_ok ty prev (pre ++ [inr v]) rest -> children_ok ty prev pre (inr v :: rest).

End Def.
