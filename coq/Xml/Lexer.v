(* Xml/Lexer.v — model of autosar-data/src/lexer.rs (ArxmlLexer::new, next, read_xxx), function by function.
   The lexer state is the REMAINING buffer suffix, the line counter and the deferred end element.
   Every slice / index expression of the Rust that can be out of range yields `Pan`.
   The loop of `next` (ignored processing instructions, whitespace-only character runs) is on fuel;
   each iteration consumes at least one byte, so fuel = remaining length + 1 suffices (proved in LexerProofs). *)
From Coq Require Import Arith.
From AV Require Import Base.Bytes Base.Outcome Base.Utf8.
Open Scope string_scope.
Open Scope N_scope.

Inductive event :=
| EvHeader (standalone : option bool)
| EvBegin (name attrs : list N)
| EvEnd (name : list N)
| EvChars (text : list N)
| EvComment (text : list N)
| EvEOF.

Inductive lexerr := IncompleteData | InvalidElement | InvalidProcessingInstruction | InvalidXmlHeader | InvalidComment.

Record lstate := { l_rest : list N; l_line : N; l_deferred : option (list N) }.

Inductive lexout :=
| LOk (line : N) (ev : event) (st : lstate)
| LErr (line : N) (e : lexerr).

(* ---- slice helpers ---- *)
Fixpoint position (p : N -> bool) (l : list N) : option nat :=
  match l with
  | [] => None
  | x :: l' => if p x then Some O else option_map S (position p l')
  end.

Definition count_lines (l : list N) : N := N.of_nat (List.length (filter (N.eqb 10) l)).

Fixpoint starts_with (pre l : list N) : bool :=
  match pre, l with
  | [], _ => true
  | p :: pre', x :: l' => (p =? x) && starts_with pre' l'
  | _ :: _, [] => false
  end.

(* text.split(is_ascii_whitespace) : n separators give n+1 pieces *)
Fixpoint split_ws_aux (cur : list N) (l : list N) : list (list N) :=
  match l with
  | [] => [rev cur]
  | x :: l' => if is_ws x then rev cur :: split_ws_aux [] l' else split_ws_aux (x :: cur) l'
  end.
Definition split_ws (l : list N) : list (list N) := split_ws_aux [] l.

(* ArxmlLexer::new : skip the byte order mark *)
Definition lexer_new (buffer : list N) : lstate :=
  let rest := match buffer with
              | 239 :: 187 :: 191 :: ((_ :: _) as r) => r
              | _ => buffer
              end in
  {| l_rest := rest; l_line := 1; l_deferred := None |}.

(* one attribute of the xml header:
     (&attr_text[0..pos], attr_text.get(pos + 2..attr_text.len() - 1).unwrap_or(&attr_text[0..0]))
   `get` is None when pos + 2 > len - 1 (the upper bound len - 1 never exceeds len); `len - 1` itself is a usize
   subtraction. *)
Definition header_attr (attr_text : list N) : res (list N * list N) :=
  match position (N.eqb 61) attr_text with
  | Some pos =>
    let len := List.length attr_text in
    if (len =? 0)%nat then Pan "lexer.rs: attr_text.len() - 1" else
    let value := if (len - 1 <? pos + 2)%nat then []
                 else firstn (len - 1 - (pos + 2))%nat (skipn (pos + 2)%nat attr_text) in
    Val (firstn pos attr_text, value)
  | None => Val (attr_text, [])
  end.

Fixpoint header_attrs (pieces : list (list N)) (ver enc : list N) (sa : option bool)
  : res (list N * list N * option bool) :=
  match pieces with
  | [] => Val (ver, enc, sa)
  | a :: rest =>
    match header_attr a with
    | Val (nme, val) =>
      if bytes_eqb nme (BS "version") then header_attrs rest val enc sa
      else if bytes_eqb nme (BS "encoding") then header_attrs rest ver val sa
      else if bytes_eqb nme (BS "standalone") then header_attrs rest ver enc (Some (bytes_eqb val (BS "yes")))
      else header_attrs rest ver enc sa
    | Pan s => Pan s
    | Fuel => Fuel
    end
  end.

Definition encoding_ok (e : list N) : bool :=
  bytes_eqb e (BS "utf-8") || bytes_eqb e (BS "UTF-8") || bytes_eqb e (BS "utf8") || bytes_eqb e (BS "UTF8").

(* the comment scan: smallest k >= k0 with rest[k-2..] starting with "-->", k < len; counted from the suffix *)
Fixpoint comment_end (fuel : nat) (rest : list N) (k : nat) : option nat :=
  match fuel with
  | O => None
  | S f =>
    if (k <? List.length rest)%nat then
      if starts_with [45; 45; 62] (skipn (k - 2)%nat rest) then Some k else comment_end f rest (S k)
    else None
  end.

Definition ends_with (suf l : list N) : bool := starts_with (rev suf) (rev l).

(* one call of ArxmlLexer::next *)
Fixpoint lex_next (fuel : nat) (st : lstate) {struct fuel} : res lexout :=
  match l_deferred st with
  | Some name => Val (LOk (l_line st) (EvEnd name) {| l_rest := l_rest st; l_line := l_line st; l_deferred := None |})
  | None =>
    match fuel with
    | O => Fuel
    | S fuel' =>
      match l_rest st with
      | [] => Val (LOk (l_line st) EvEOF st)
      | 60 :: tail =>
        match position (N.eqb 62) tail with
        | None => Val (LErr (l_line st) IncompleteData)
        | Some O => Val (LErr (l_line st) InvalidElement)
        | Some (S fp' as findpos) =>
          (* tail[findpos] = '>' ; the bytes between '<' and '>' are firstn findpos tail (non-empty) *)
          let inner := firstn findpos tail in
          let after := skipn (S findpos) tail in
          match tail with
          | 47 :: _ =>  (* '/' : read_element_end, text = buffer[bufpos+2..endpos] *)
            Val (LOk (l_line st) (EvEnd (skipn 1 inner)) {| l_rest := after; l_line := l_line st; l_deferred := None |})
          | 63 :: _ =>  (* '?' : read_xml_header *)
            (* if endpos < self.bufpos + 3 || self.buffer[endpos - 1] != b'?'   (endpos = bufpos + findpos + 1) *)
            if (findpos <? 2)%nat || negb (N.eqb (last inner 0) 63)
            then Val (LErr (l_line st) InvalidProcessingInstruction)
            else
              (* text = &buffer[bufpos + 2..endpos - 1] : needs 2 <= findpos, i.e. at least "<??>" *)
              if (findpos <? 2)%nat then Pan "lexer.rs: read_xml_header buffer[bufpos+2..endpos-1]"
              else
                let text := firstn (findpos - 2)%nat (skipn 1 inner) in
                let pieces := split_ws text in
                let elemname := hd [] pieces in
                let line' := l_line st + count_lines text in
                if bytes_eqb elemname (BS "xml") then
                  match header_attrs (tl pieces) [] [] None with
                  | Val (ver, enc, sa) =>
                    if negb (bytes_eqb ver (BS "1.0")) || negb (encoding_ok enc)
                    then Val (LErr (l_line st) InvalidXmlHeader)
                    else Val (LOk line' (EvHeader sa) {| l_rest := after; l_line := line'; l_deferred := None |})
                  | Pan s => Pan s
                  | Fuel => Fuel
                  end
                else lex_next fuel' {| l_rest := after; l_line := line'; l_deferred := None |}
          | 33 :: _ =>  (* '!' : comment; rest index of '>' is findpos+1 *)
            let rest := l_rest st in
            match comment_end (S (List.length rest)) rest (S findpos) with
            | None => Val (LErr (l_line st) InvalidComment)
            | Some k =>
              let text := firstn k rest in
              if (k <? 6)%nat || negb (starts_with [60; 33; 45; 45] text) || negb (ends_with [45; 45] text)
              then Val (LErr (l_line st) InvalidComment)
              else
                let line' := l_line st + count_lines text in
                Val (LOk line' (EvComment (firstn (k - 2 - 4)%nat (skipn 4 rest)))
                         {| l_rest := skipn (S k) rest; l_line := line'; l_deferred := None |})
            end
          | _ =>  (* read_element_start *)
            let is_end := N.eqb (last inner 0) 47 in
            let text := if is_end then removelast inner else inner in
            let '(elemname, attributes) :=
              match position is_ws text with
              | Some sp => (firstn sp text, skipn (S sp) text)
              | None => (text, [])
              end in
            Val (LOk (l_line st) (EvBegin elemname attributes)
                     {| l_rest := after; l_line := l_line st + count_lines text;
                        l_deferred := if is_end then Some elemname else None |})
          end
        end
      | _ =>
        (* read_characters: up to the next '<' *)
        let n := match position (N.eqb 60) (l_rest st) with Some n => n | None => List.length (l_rest st) end in
        let text := firstn n (l_rest st) in
        let line' := l_line st + count_lines text in
        let st' := {| l_rest := skipn n (l_rest st); l_line := line'; l_deferred := None |} in
        if forallb is_ws text then lex_next fuel' st'
        else Val (LOk line' (EvChars text) st')
      end
    end
  end.

Definition lex_fuel (st : lstate) : nat := S (List.length (l_rest st)).
Definition next (st : lstate) : res lexout := lex_next (lex_fuel st) st.
