(* Xml/RoundTripExamples.v — C01 on the REAL tables: computed round trips (load, serialize, load again, serialize again:
   same bytes, no warnings) for documents with attributes, entities, mixed content and a comment, and a concrete tree that
   satisfies RootCanon (non-vacuity of C01_roundtrip_partial). *)
From AV Require Import Base.Bytes Base.Outcome Base.Utf8 Hash.HashModel Spec.SpecOps Spec.SpecReal Spec.Versions
  Xml.Lexer Xml.Parser Xml.Serializer Xml.ParserExamples.
From AV Require Import Hash.HashRealElement Hash.HashRealAttr Hash.HashRealEnum.
Open Scope list_scope.
Open Scope string_scope.

Definition no_float_fmt (bits : N) : list N := [].
Definition SERF (ver : N) (sa : option bool) (t : etree) := serialize_file RT tab_element tab_attr tab_enum accept_all no_float_fmt ver sa t.

(* load d; serialize; load; serialize: the second text equals the first, both loads are strict and silent, same tree size *)
Definition cycle_ok (d : list N) : bool :=
  match LOAD true d with
  | Val (Ret t st) =>
    match SERF (p_version st) (p_standalone st) t with
    | Val bs =>
      match LOAD true bs with
      | Val (Ret t' st') =>
        match SERF (p_version st') (p_standalone st') t' with
        | Val bs' => bytes_eqb bs bs' && match p_warnings st' with [] => true | _ => false end
        | _ => false
        end
      | _ => false
      end
    | _ => false
    end
  | _ => false
  end.

Definition doc_rich := doc "<AR-PACKAGES><AR-PACKAGE UUID=""abc-1""><SHORT-NAME>Pkg</SHORT-NAME><DESC><L-2 L=""EN"">a &lt;b&gt; &amp; <TT TYPE=""x"">tt</TT> tail</L-2></DESC><CATEGORY>CAT</CATEGORY><!--note--><ELEMENTS><SYSTEM><SHORT-NAME>Sys</SHORT-NAME></SYSTEM></ELEMENTS></AR-PACKAGE></AR-PACKAGES>".
Example cycle_rich : cycle_ok doc_rich = true.   Proof. vm_compute. reflexivity. Qed.
Example cycle_plain : cycle_ok doc_ok = true.    Proof. vm_compute. reflexivity. Qed.

(* ---------- a concrete canonical root (hypotheses of C01_roundtrip_partial are satisfiable) ---------- *)
From AV Require Import Xml.Escape Xml.RoundTripValues Xml.RoundTripAttrs Xml.StrictValidDef Xml.RoundTripElem Xml.RoundTripFile.
Open Scope list_scope.

Definition doc_small := doc "<AR-PACKAGES/>".
Definition dummy_tree := ENode 0 (0, 0) [] [] None.
Definition t_small : etree := Eval vm_compute in match LOAD true doc_small with Val (Ret t _) => t | _ => dummy_tree end.
Definition v_small : N := Eval vm_compute in match LOAD true doc_small with Val (Ret _ st) => p_version st | _ => 0 end.

Notation ATTROK := (AttrOk RT tab_attr tab_enum accept_all no_float_fmt no_float).
Notation CANONR := (Canon RT tab_element tab_attr tab_enum accept_all no_float_fmt no_float).

Ltac attr_ok ty a :=
  let nm := eval vm_compute in (match to_str tab_attr (fst a) with Some s => s | None => [] end) in
  let sp := eval vm_compute in (find_attribute_spec RT ty (fst a)) in
  let bs := eval vm_compute in (match ser_cdata tab_enum no_float_fmt (snd a) with Val b => b | _ => [] end) in
  lazymatch sp with
  | Val (Some (?cdid, ?ctype, ?req, ?vm)) =>
    exists nm, cdid, ctype, req, vm, bs;
    split; [vm_compute; reflexivity|]; split; [vm_compute; reflexivity|]; split; [vm_compute; reflexivity|];
    split; [vm_compute; reflexivity|]; split; [vm_compute; discriminate|];
    split; [first [apply vo_string; [right; vm_compute; split; reflexivity|vm_compute; reflexivity|vm_compute; reflexivity]
                  |apply vo_pattern; [vm_compute; reflexivity|vm_compute; split; reflexivity|vm_compute; reflexivity|reflexivity|vm_compute; reflexivity]]|];
    split; [vm_compute; reflexivity|vm_compute; reflexivity]
  end.

Ltac req_ok ty :=
  let specs := eval vm_compute in (match attribute_spec_list RT ty with Val l => l | _ => [] end) in
  exists specs; split; [vm_compute; reflexivity|];
  intros name cdid c req HIn NZ; cbn [In] in HIn;
  repeat (destruct HIn as [HIn|HIn]; [injection HIn as <- <- <- <-; first [exfalso; apply NZ; reflexivity|vm_compute; reflexivity]|]);
  destruct HIn.

Lemma child_small_canon : CANONR v_small (ENode 5413 (350, 251) [] [] None).
Proof.
  let nm := eval vm_compute in (match to_str tab_element 5413 with Some s => s | None => [] end) in
  let mode := eval vm_compute in (match content_mode RT (350, 251) with Val m => m | _ => 99 end) in
  let named := eval vm_compute in (match is_named_in_version RT (350, 251) v_small with Val b => b | _ => true end) in
  apply (canon_node RT tab_element tab_attr tab_enum accept_all no_float_fmt no_float v_small 5413 (350, 251) [] [] None nm mode named).
  - exact I.
  - repeat split; vm_compute; reflexivity.
  - split; [constructor|]. req_ok (350, 251).
  - vm_compute. reflexivity.
  - vm_compute. constructor.
  - constructor.
  - vm_compute. reflexivity.
  - discriminate.
Qed.

Lemma t_small_canon : RootCanon true RT tab_element tab_attr tab_enum accept_all no_float_fmt no_float v_small t_small.
Proof.
  unfold t_small.
  let e := eval vm_compute in (match elem RT (autosar_element RT) with Val e => e | _ => Build_elemdef 0 0 0 0 0 0 end) in
  let nm := eval vm_compute in (match to_str tab_element 4057 with Some s => s | None => [] end) in
  let mode := eval vm_compute in (match content_mode RT (0, 250) with Val m => m | _ => 99 end) in
  let named := eval vm_compute in (match is_named_in_version RT (0, 250) v_small with Val b => b | _ => true end) in
  let idx := eval vm_compute in (match find_sub_element RT (0, 250) 5413 v_small with Val (Some (_, i)) => i | _ => [] end) in
  apply (root_canon true RT tab_element tab_attr tab_enum accept_all no_float_fmt no_float v_small e 1 nm _ _ None mode named).
  - vm_compute. reflexivity.
  - vm_compute. reflexivity.
  - exact I.
  - repeat split; vm_compute; reflexivity.
  - split.
    + repeat constructor.
      * attr_ok (0, 250) (78, DString (BS "http://autosar.org/schema/r4.0 AUTOSAR_00050.xsd")).
      * attr_ok (0, 250) (28, DString (BS "http://autosar.org/schema/r4.0")).
      * attr_ok (0, 250) (17, DString (BS "http://www.w3.org/2001/XMLSchema-instance")).
    + req_ok (0, 250).
  - intros st. vm_compute. reflexivity.
  - vm_compute. reflexivity.
  - vm_compute. repeat constructor.
  - let idx := eval vm_compute in (match find_sub_element RT (0, 250) 5413 v_small with Val (Some (_, i)) => i | _ => [] end) in
    apply (ck_elem RT tab_element tab_attr tab_enum accept_all no_float_fmt no_float v_small (0, 250) _ [] [] (ENode 5413 (350, 251) [] [] None) [] idx).
    + vm_compute. reflexivity.
    + left. reflexivity.
    + left. reflexivity.
    + exact child_small_canon.
    + constructor.
  - vm_compute. reflexivity.
  - discriminate.
Qed.

(* hence the theorem applies to it: *)
Example t_small_roundtrip :
  exists bs st, SERF v_small None t_small = Val bs /\
                load true RT tab_element tab_attr tab_enum accept_all no_float bs = Val (Ret t_small st) /\ p_warnings st = [].
Proof.
  destruct (SERF v_small None t_small) as [bs| |] eqn:SF; [|vm_compute in SF; discriminate SF|vm_compute in SF; discriminate SF].
  destruct (serialize_load_roundtrip true RT tab_element tab_attr tab_enum accept_all no_float_fmt no_float v_small t_small None bs
              t_small_canon ltac:(vm_compute; reflexivity) SF) as (st & L & W & _ & _).
  exists bs, st. auto.
Qed.

(* ---------- the loader returns trees that are NOT canonical: witness of the known finding mixed-text-split ---------- *)
Open Scope string_scope.
Definition doc_mixed_split := doc "<AR-PACKAGES><AR-PACKAGE><SHORT-NAME>Pkg</SHORT-NAME><DESC><L-2 L=""EN"">a<!--c-->b</L-2></DESC></AR-PACKAGE></AR-PACKAGES>".
Open Scope list_scope.

(* strict load without warnings; the loaded tree has the text item "a", the tree loaded from its serialization has not
   (it has "ab"): load (serialize (load d)) <> load d *)
Lemma reload_identity_refuted :
  exists d, match LOAD true d with
            | Val (Ret t st) =>
              p_warnings st = [] /\
              match SERF (p_version st) (p_standalone st) t with
              | Val bs => match LOAD true bs with
                          | Val (Ret t' _) => any_node (has_text (BS "a")) t = true /\ any_node (has_text (BS "a")) t' = false /\
                                              any_node (has_text (BS "ab")) t' = true
                          | _ => False
                          end
              | _ => False
              end
            | _ => False
            end.
Proof. exists doc_mixed_split. vm_compute. auto. Qed.

(* ---------- first half of C01 on the real tables ---------- *)
From AV Require Import Xml.TablesOk Xml.TablesOkReal Xml.RoundTripCanonValues Xml.RoundTripCanon Xml.RoundTripCanonFinal.

Lemma real_canon_hyps : canon_hyps RT tab_element tab_attr tab_enum no_float_fmt no_float.
Proof.
  split; [exact tables_ok_real|]. split; [vm_compute; reflexivity|]. split; [vm_compute; reflexivity|].
  split; [vm_compute; reflexivity|]. split; [vm_compute; reflexivity|]. intros s b H. discriminate H.
Qed.

Definition known_of (d : list N) : option bool := match LOAD true d with Val (Ret t _) => Some (knownb RT t) | _ => None end.

(* the recorded classes are recognised on the loaded tree; ordinary documents are outside them *)
Open Scope string_scope.
Definition doc_amp_pattern := doc "<AR-PACKAGES><AR-PACKAGE><SHORT-NAME>Pkg</SHORT-NAME><ADMIN-DATA><DOC-REVISIONS><DOC-REVISION><REVISION-LABEL>1.0.0;a&amp;b</REVISION-LABEL></DOC-REVISION></DOC-REVISIONS></ADMIN-DATA></AR-PACKAGE></AR-PACKAGES>".
Definition doc_edge_blank := doc "<AR-PACKAGES><AR-PACKAGE><SHORT-NAME>Pkg</SHORT-NAME><DESC><L-2 L=""EN"">&#x20;lead</L-2></DESC></AR-PACKAGE></AR-PACKAGES>".
Open Scope list_scope.
Example known_plain : known_of doc_ok = Some false.               Proof. vm_compute. reflexivity. Qed.
Example known_rich : known_of doc_rich = Some false.              Proof. vm_compute. reflexivity. Qed.
Example known_mixed_split : known_of doc_mixed_split = Some true. Proof. vm_compute. reflexivity. Qed.
Example known_edge_blank : known_of doc_edge_blank = Some true.   Proof. vm_compute. reflexivity. Qed.
Example known_amp_pattern : known_of doc_amp_pattern = Some true. Proof. vm_compute. reflexivity. Qed.

(* ---------- the boolean checkers on real loaded trees ---------- *)
From AV Require Import Xml.RoundTripCanonb.
Definition rootcanon_of (d : list N) : option bool :=
  match LOAD true d with
  | Val (Ret t st) => Some (rootcanonb RT tab_element tab_attr tab_enum accept_all no_float_fmt no_float (p_version st) t)
  | _ => None
  end.
(* the rich document (attributes, entities, mixed content, a comment) loads to a canonical root; the three documents of
   the recorded classes do not *)
Example rootcanon_rich : rootcanon_of doc_rich = Some true.                 Proof. vm_compute. reflexivity. Qed.
Example rootcanon_plain : rootcanon_of doc_ok = Some true.                  Proof. vm_compute. reflexivity. Qed.
Example rootcanon_mixed_split : rootcanon_of doc_mixed_split = Some false.  Proof. vm_compute. reflexivity. Qed.
Example rootcanon_edge_blank : rootcanon_of doc_edge_blank = Some false.    Proof. vm_compute. reflexivity. Qed.
Example rootcanon_amp_pattern : rootcanon_of doc_amp_pattern = Some false.  Proof. vm_compute. reflexivity. Qed.
