(* Xml/ReadingExamples.v — the faithfulness theorem on the regenerated tables; an explicit reading; the relaxations
   R1..R7 of Xml/Reading.v witnessed on the loader model (each of these documents is accepted by STRICT loading). *)
From AV Require Import Base.Bytes Base.Outcome Base.Utf8 Hash.HashModel Spec.SpecTypes Spec.SpecOps Spec.SpecReal Xml.Lexer Xml.Parser
  Xml.ParserExamples Xml.RoundTripAttrs Xml.RoundTripLexer Xml.RoundTripCanonFinal Xml.RoundTripExamples
  Xml.Reading Xml.ReadingInterp Xml.ReadingParser.
From AV Require Import Hash.HashRealElement Hash.HashRealAttr Hash.HashRealEnum.
Open Scope list_scope.
Open Scope N_scope.

Lemma real_clean_el : names_clean tab_element = true. Proof. vm_compute. reflexivity. Qed.
Lemma real_clean_at : names_clean tab_attr = true.    Proof. vm_compute. reflexivity. Qed.

(* the theorem for the real loader model *)
Theorem real_load_faithful bs t st : LOAD true bs = Val (Ret t st) ->
  exists d, Reads bs d /\ InterpDoc RT tab_element tab_attr tab_enum accept_all no_float d (p_version st) t.
Proof. exact (load_faithful RT tab_element tab_attr tab_enum accept_all no_float real_clean_el real_clean_at bs t st). Qed.

(* non-vacuity: the rich document (attributes, references, mixed content, a comment) is loaded, so it has a reading *)
Example faithful_rich :
  exists t st d, LOAD true doc_rich = Val (Ret t st) /\ Reads doc_rich d /\
    InterpDoc RT tab_element tab_attr tab_enum accept_all no_float d (p_version st) t.
Proof.
  destruct (LOAD true doc_rich) as [[t st|]| |] eqn:L; try (vm_compute in L; discriminate L).
  destruct (real_load_faithful _ _ _ L) as (d & R & I). exists t, st, d. auto.
Qed.

(* an explicit reading: the tree of doc_ok with its layout *)
Open Scope string_scope.
Definition att (ws name value : string) : xattr := {| xa_ws := BS ws; xa_name := BS name; xa_quote := 34; xa_value := BS value |}.
Definition d_ok : doc := {|
  d_bom := false; d_before := []; d_decl := BS "xml version=""1.0"" encoding=""utf-8"""; d_standalone := None; d_prolog := [];
  d_root := XElem (BS "AUTOSAR")
              [att " " "xsi:schemaLocation" "http://autosar.org/schema/r4.0 AUTOSAR_00050.xsd";
               att " " "xmlns" "http://autosar.org/schema/r4.0"; att " " "xmlns:xsi" "http://www.w3.org/2001/XMLSchema-instance"] [] false
              [XElem (BS "AR-PACKAGES") [] [] false
                 [XElem (BS "AR-PACKAGE") [] [] false [XElem (BS "SHORT-NAME") [] [] false [XText (BS "Pkg")]]]];
  d_after := [] |}.
Open Scope list_scope.

Example reads_doc_ok : Reads doc_ok d_ok.
Proof.
  split; [vm_compute; reflexivity|]. unfold WfDoc, d_ok. cbn [d_before d_decl d_standalone d_prolog d_root d_after].
  split; [constructor|]. split; [constructor|].
  split; [split; [vm_compute; reflexivity|split; [vm_compute; reflexivity|exists (BS "utf-8"); split; vm_compute; reflexivity]]|].
  split; [constructor|]. split; [constructor|]. split; [eauto 6|]. split; [|split; constructor].
  assert (WA : forall w n v, w <> "" -> forallb is_ws (BS w) = true -> clean_name (BS n) = true -> no_byte 34 (BS v) -> no_byte 62 (BS v) -> WfAttr (att w n v)).
  { intros w n v A B C D E. unfold WfAttr, att. cbn [xa_ws xa_name xa_quote xa_value]. repeat split; auto. destruct w; [congruence|discriminate]. }
  assert (LEAF : forall x, WfX x -> WfItems [x]) by (intros x W; constructor; [exact W|constructor|reflexivity]).
  constructor; [vm_compute; reflexivity| |reflexivity|discriminate|].
  - repeat constructor; apply WA; try discriminate; vm_compute; reflexivity.
  - apply LEAF. constructor; [vm_compute; reflexivity|constructor|reflexivity|discriminate|].
    apply LEAF. constructor; [vm_compute; reflexivity|constructor|reflexivity|discriminate|].
    apply LEAF. constructor; [vm_compute; reflexivity|constructor|reflexivity|discriminate|].
    apply LEAF. constructor; [discriminate|vm_compute; reflexivity].
Qed.

(* ---------- the relaxations: each document is accepted by strict loading ---------- *)
Open Scope string_scope.
Definition doc_R1 := ParserExamples.doc "<!--a--b--><AR-PACKAGES><AR-PACKAGE><SHORT-NAME>Pkg</SHORT-NAME></AR-PACKAGE></AR-PACKAGES>".
Definition doc_R2 := ParserExamples.doc "<??><? ?><AR-PACKAGES><AR-PACKAGE><SHORT-NAME>Pkg</SHORT-NAME></AR-PACKAGE></AR-PACKAGES>".
Definition doc_R3 := ParserExamples.doc "<AR-PACKAGES><AR-PACKAGE UUID=""a<b""><SHORT-NAME>Pkg</SHORT-NAME></AR-PACKAGE></AR-PACKAGES>".
Definition doc_R4 := ParserExamples.doc "<AR-PACKAGES><AR-PACKAGE UUID=""1"" UUID=""2""><SHORT-NAME>Pkg</SHORT-NAME></AR-PACKAGE></AR-PACKAGES>".
Definition doc_R5 := BS (" <?pi?>" ++ HDR ++ "<AR-PACKAGES><AR-PACKAGE><SHORT-NAME>Pkg</SHORT-NAME></AR-PACKAGE></AR-PACKAGES></AUTOSAR>").
Definition doc_R6 := BS ("<?xml version=x1.0x encoding=yutf-8y zzz?><AUTOSAR xsi:schemaLocation=""http://autosar.org/schema/r4.0 AUTOSAR_00050.xsd"" xmlns=""http://autosar.org/schema/r4.0"" xmlns:xsi=""http://www.w3.org/2001/XMLSchema-instance""><AR-PACKAGES><AR-PACKAGE><SHORT-NAME>Pkg</SHORT-NAME></AR-PACKAGE></AR-PACKAGES></AUTOSAR>").
Definition doc_R7 := ParserExamples.doc "<AR-PACKAGES><AR-PACKAGE><SHORT-NAME>Pkg</SHORT-NAME><DESC><L-2 L=""EN"">a]]>b</L-2></DESC></AR-PACKAGE></AR-PACKAGES>".
Definition doc_R8 := ParserExamples.doc "<AR-PACKAGES><AR-PACKAGE nonsense=""  ><SHORT-NAME>Pkg</SHORT-NAME></AR-PACKAGE></AR-PACKAGES>".
Open Scope list_scope.

Example relaxations_accepted :
  map (fun d => is_ret (LOAD true d)) [doc_R1; doc_R2; doc_R3; doc_R4; doc_R5; doc_R6; doc_R7] =
  [true; true; true; true; true; true; true].
Proof. vm_compute. reflexivity. Qed.

(* R4: both values of the repeated attribute are stored *)
Definition root_kid_attrs (d : list N) : option (list (N * cdata)) :=
  match LOAD true d with
  | Val (Ret (ENode _ _ _ [inl (ENode _ _ _ [inl (ENode _ _ a _ _)] _)] _) _) => Some a
  | _ => None
  end.
Example R4_both_stored : option_map (fun a => List.length a) (root_kid_attrs doc_R4) = Some 2%nat. Proof. vm_compute. reflexivity. Qed.

(* the former relaxation R8 (regression of the fixed dangling-attribute defect): a tag that ends with `name = quote blanks`
   and no closing quote used to be accepted by strict loading, the attribute silently dropped; now AttributeValueError
   (strict: error, lenient: warning) *)
Definition strict_kind (d : list N) : option pkind :=
  match LOAD true d with Val (Raise (ErrParse _ k _ _) _) => Some k | _ => None end.
Definition lenient_kinds (d : list N) : option (list pkind) :=
  match LOAD false d with
  | Val (Ret _ st) => Some (map (fun e => match e with ErrParse _ k _ _ => k | _ => InvalidArxmlFileHeader end) (p_warnings st))
  | _ => None
  end.
Example dangling_attribute_rejected :
  strict_kind doc_R8 = Some AttributeValueError /\ lenient_kinds doc_R8 = Some [AttributeValueError].
Proof. split; vm_compute; reflexivity. Qed.

(* where the interpretation deliberately differs from a naive reading: a Pattern value is the text ITSELF (blanks at the
   ends dropped), its references are not decoded - although the text denotes "1.0.0;a&b" (Unesc) *)
From AV Require Import Xml.StrictValidEntities Xml.RoundTripReload.
Open Scope string_scope.
Example pattern_not_decoded :
  ValueOf tab_enum accept_all no_float 0 (CPattern 24 None) (BS " 1.0.0;a&amp;b ") (DString (BS "1.0.0;a&amp;b")) /\
  Unesc (BS "1.0.0;a&amp;b") (BS "1.0.0;a&b") /\
  ValueOf tab_enum accept_all no_float 0 (CString false None) (BS " 1.0.0;a&amp;b ") (DString (BS "1.0.0;a&b")).
Proof.
  assert (S : strip (BS " 1.0.0;a&amp;b ") = BS "1.0.0;a&amp;b") by (vm_compute; reflexivity).
  assert (U : Unesc (BS "1.0.0;a&amp;b") (BS "1.0.0;a&b")).
  { repeat (apply un_byte; [discriminate|]). apply un_amp. apply un_byte; [discriminate|]. constructor. }
  split; [|split; [exact U|]].
  - rewrite <- S. constructor; rewrite ?S; reflexivity.
  - constructor; cbv iota; rewrite ?S; try reflexivity. exact U.
Qed.
Open Scope list_scope.

(* the header: a stray second declaration inside the root does not change the standalone flag (lenient: warning
   UnexpectedXmlFileHeader; strict: that error) *)
Open Scope string_scope.
Definition doc_stray_decl := BS ("<?xml version=""1.0"" encoding=""utf-8"" standalone=""yes""?><AUTOSAR xsi:schemaLocation=""http://autosar.org/schema/r4.0 AUTOSAR_00050.xsd"" xmlns=""http://autosar.org/schema/r4.0"" xmlns:xsi=""http://www.w3.org/2001/XMLSchema-instance""><AR-PACKAGES><?xml version=""1.0"" encoding=""utf-8"" standalone=""no""?><AR-PACKAGE><SHORT-NAME>Pkg</SHORT-NAME></AR-PACKAGE></AR-PACKAGES></AUTOSAR>").
Open Scope list_scope.
Definition lenient_standalone (d : list N) : option (option bool) :=
  match LOAD false d with Val (Ret _ st) => Some (p_standalone st) | _ => None end.
Example stray_declaration_ignored :
  strict_kind doc_stray_decl = Some UnexpectedXmlFileHeader /\
  lenient_kinds doc_stray_decl = Some [UnexpectedXmlFileHeader] /\
  lenient_standalone doc_stray_decl = Some (Some true).
Proof. repeat split; vm_compute; reflexivity. Qed.
