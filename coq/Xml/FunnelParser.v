(* Xml/FunnelParser.v — `agree` (Xml/Funnel.v) instantiated for every function of Xml/Parser.v, bottom-up, up to `load`.
   One lemma per function; each proof is "unfold; agree_tac" (plus an induction on the fuel for the loops). *)
From AV Require Import Base.Bytes Base.Outcome Base.Utf8 Base.Radix Hash.HashModel Spec.SpecOps Spec.Versions
  Xml.Lexer Xml.Parser Xml.Funnel.
Open Scope list_scope.

Section Inst.
Variable T : tables.
Variable tab_el tab_at tab_en : nametab.
Variable check_fn : N -> list N -> res bool.
Variable float_parse : list N -> option N.

Lemma agree_check_version v k e i : agree (fun s => check_version s v k e i).
Proof. unfold check_version. agree_tac. Qed.
Hint Resolve agree_check_version : agree.

Lemma agree_unescape_loop fuel : forall rem acc, agree (fun s => unescape_loop s fuel rem acc).
Proof.
  induction fuel as [|f IH]; intros rem acc; cbn [unescape_loop]; [auto with agree|].
  assert (Inv : forall r a, agree (fun s => mbind (optional_error s InvalidXmlEntity 0 0) (fun _ => unescape_loop s f r a))).
  { intros. agree_tac. }
  destruct (find_byte 38 rem) as [pos|]; [|auto with agree].
  repeat lazymatch goal with
  | |- agree (fun s => if ?c then _ else _) => destruct c
  | |- agree (fun s => match ?x with _ => _ end) => destruct x
  | |- agree (fun s => unescape_loop s f _ _) => apply IH
  | |- _ => apply Inv
  end.
Qed.

Lemma agree_unescape_string input : agree (fun s => unescape_string s input).
Proof. unfold unescape_string. destruct (find_byte 38 input); [apply agree_unescape_loop|auto with agree]. Qed.
Hint Resolve agree_unescape_string : agree.

Lemma agree_parse_character_data input spec :
  agree (fun s => parse_character_data s tab_en check_fn float_parse input spec).
Proof. unfold parse_character_data. agree_tac. Qed.
Hint Resolve agree_parse_character_data : agree.

Lemma agree_attr_loop fuel ty : forall rem attrs,
  agree (fun s => attr_loop s T tab_at tab_en check_fn float_parse fuel ty rem attrs).
Proof.
  induction fuel as [|f IH]; intros rem attrs; cbn [attr_loop]; [auto with agree|].
  agree_tac.
Qed.
Hint Resolve agree_attr_loop : agree.

Lemma agree_req_loop cur attrs l : agree (fun s => req_loop s cur attrs l).
Proof.
  induction l as [|[[[name c1] c2] required] l IH]; cbn [req_loop]; [auto with agree|].
  agree_tac.
Qed.
Hint Resolve agree_req_loop : agree.

Lemma agree_parse_attribute_text ty text :
  agree (fun s => parse_attribute_text s T tab_at tab_en check_fn float_parse ty text).
Proof. unfold parse_attribute_text. agree_tac. Qed.
Hint Resolve agree_parse_attribute_text : agree.

Lemma agree_ver_or_panic o : agree (fun _ => ver_or_panic o).
Proof. unfold ver_or_panic. agree_tac. Qed.
Hint Resolve agree_ver_or_panic : agree.

Lemma agree_parse_file_version schema : agree (fun s => parse_file_version s schema).
Proof. unfold parse_file_version. agree_tac. Qed.
Hint Resolve agree_parse_file_version : agree.

Lemma agree_attr_id text : agree (fun _ => attr_id tab_at text).
Proof. unfold attr_id. agree_tac. Qed.
Hint Resolve agree_attr_id : agree.

Lemma agree_parse_file_header attrs : agree (fun s => parse_file_header s tab_at attrs).
Proof. unfold parse_file_header. agree_tac. Qed.
Hint Resolve agree_parse_file_header : agree.

Lemma agree_find_element_in_spec_checked name ty : agree (fun s => find_element_in_spec_checked s T name ty).
Proof. unfold find_element_in_spec_checked. agree_tac. Qed.
Hint Resolve agree_find_element_in_spec_checked : agree.

Lemma agree_check_element_conflict name ty old new : agree (fun s => check_element_conflict s T name ty old new).
Proof. unfold check_element_conflict. agree_tac. Qed.
Hint Resolve agree_check_element_conflict : agree.

Lemma agree_check_multiplicity name ty idx content : agree (fun s => check_multiplicity s T name ty idx content).
Proof. unfold check_multiplicity. agree_tac. Qed.
Hint Resolve agree_check_multiplicity : agree.

Lemma agree_pe_loop (rec : bool -> N -> etype -> list (N * cdata) -> option (list N) -> list N -> list nat -> M etree) :
  (forall a b c d e f, agree (fun s => rec s a b c d e f)) ->
  forall lfuel name ty attrs comment pos content elem_idx snf stored path,
  agree (fun s => pe_loop s T tab_el tab_at tab_en check_fn float_parse (rec s) lfuel name ty attrs comment pos
                          content elem_idx snf stored path).
Proof.
  intros Hrec lfuel name ty attrs comment pos.
  induction lfuel as [|lf IH]; intros content elem_idx snf stored path; cbn [pe_loop]; [auto with agree|].
  agree_tac.
Qed.

Lemma agree_parse_element fuel lfuel : forall name ty attrs comment path pos,
  agree (fun s => parse_element s T tab_el tab_at tab_en check_fn float_parse fuel lfuel name ty attrs comment path pos).
Proof.
  induction fuel as [|f IH]; intros; cbn [parse_element]; [auto with agree|].
  apply (agree_pe_loop (fun s => parse_element s T tab_el tab_at tab_en check_fn float_parse f lfuel)).
  intros. apply IH.
Qed.
Hint Resolve agree_parse_element : agree.

Lemma agree_skip_comments fuel : forall stored tok, agree (fun _ => skip_comments fuel stored tok).
Proof.
  induction fuel as [|f IH]; intros; cbn [skip_comments]; [auto with agree|].
  agree_tac.
Qed.
Hint Resolve agree_skip_comments : agree.

Lemma agree_root_type : agree (fun _ => root_type T).       Proof. unfold root_type. agree_tac. Qed.
Lemma agree_autosar_name : agree (fun _ => autosar_name T). Proof. unfold autosar_name. agree_tac. Qed.
Hint Resolve agree_root_type agree_autosar_name : agree.

Lemma agree_parse_arxml buflen :
  agree (fun s => parse_arxml s T tab_el tab_at tab_en check_fn float_parse buflen).
Proof. unfold parse_arxml. agree_tac. Qed.

(* ---- C08_agree: the whole load, both modes, every byte string ---- *)
Definition loadf (strict : bool) (bs : list N) : res (step etree) :=
  load strict T tab_el tab_at tab_en check_fn float_parse bs.

Lemma load_cases bs :
  (exists v401 e, forall s, loadf s bs =
      parse_arxml s T tab_el tab_at tab_en check_fn float_parse (List.length bs) (init_pstate bs v401 (ed_name e)))
  \/ (exists site, forall s, loadf s bs = Pan site).
Proof.
  unfold loadf, load.
  destruct (version_of_ident "Autosar_4_0_1") as [v|]; destruct (elem T (autosar_element T)) as [e|site|]; eauto.
Qed.

Theorem load_agree bs :
  let l := loadf false bs in
  let s := loadf true bs in
  (* lenient succeeds without warnings: strict succeeds with the same tree and the same final state *)
  (forall t st, l = Val (Ret t st) -> p_warnings st = [] -> s = Val (Ret t st)) /\
  (* lenient succeeds with warnings (stored newest first, w the oldest): strict fails with w *)
  (forall t st w ws, l = Val (Ret t st) -> p_warnings st = ws ++ [w] -> exists sx, s = Val (Raise w sx)) /\
  (* lenient fails with e after collecting the warnings of st: strict fails with the oldest warning, or with e if none *)
  (forall e st, l = Val (Raise e st) -> exists sx, s = Val (Raise (last (p_warnings st) e) sx)) /\
  (* strict succeeds: lenient succeeds with the same tree and state, and without warnings *)
  (forall t st, s = Val (Ret t st) -> l = Val (Ret t st) /\ p_warnings st = []) /\
  (* the model's panic / fuel outcomes: strict shows the same, or has already stopped with an error *)
  (forall site, l = Pan site -> s = Pan site \/ exists w sx, s = Val (Raise w sx)) /\
  (l = Fuel -> s = Fuel \/ exists w sx, s = Val (Raise w sx)).
Proof.
  cbv zeta. destruct (load_cases bs) as [(v401 & e & E)|(site & E)].
  - rewrite !E. set (st0 := init_pstate bs v401 (ed_name e)).
    pose proof (agree_parse_arxml (List.length bs)) as H.
    assert (W0 : p_warnings st0 = []) by reflexivity.
    repeat split.
    + intros t st. apply (agree_ok_clean _ H st0 W0).
    + intros t st w ws. apply (agree_ok_warned _ H st0 W0).
    + intros e0 st. apply (agree_err _ H st0 W0).
    + apply (agree_strict_ok _ H st0 W0 t st H0).
    + apply (agree_strict_ok _ H st0 W0 t st H0).
    + intros site E1. specialize (H st0). unfold agree_at in H. rewrite E1 in H. exact H.
    + intros E1. specialize (H st0). unfold agree_at in H. rewrite E1 in H. exact H.
  - rewrite !E. repeat split; try discriminate. intros site0 [= ->]. left; reflexivity.
Qed.

End Inst.
