(* Xml/RoundTripReloadExamples.v — the positive statements for the recorded classes (Xml/RoundTripReload.v), on the real
   tables and on the three documents of the recorded classes (Xml/RoundTripExamples.v). *)
From AV Require Import Base.Bytes Base.Outcome Hash.HashModel Spec.SpecTypes Spec.SpecOps Spec.SpecReal Xml.Lexer Xml.Parser Xml.Serializer
  Xml.ParserExamples Xml.RoundTripValues Xml.RoundTripFile Xml.RoundTripCanonb Xml.RoundTripExamples Xml.RoundTripReload.
From AV Require Import Hash.HashRealElement Hash.HashRealAttr Hash.HashRealEnum.
Open Scope list_scope.
Open Scope N_scope.

(* load d strictly, serialize, load again: (first tree, its version, second tree) *)
Definition reload_of (d : list N) : option (etree * N * etree) :=
  match LOAD true d with
  | Val (Ret t st) =>
    match SERF (p_version st) (p_standalone st) t with
    | Val bs => match LOAD true bs with Val (Ret t' _) => Some (t, p_version st, t') | _ => None end
    | _ => None
    end
  | _ => None
  end.

(* mixed-text-split: the merged tree differs from the loaded one, is canonical (so reload_merged applies to it), and is
   what is read back *)
Example merged_real :
  match reload_of doc_mixed_split with
  | Some (t, ver, t') =>
    t' = norm RT t /\ any_node (has_text (BS "ab")) t = false /\ any_node (has_text (BS "ab")) (norm RT t) = true /\
    rootcanonb RT tab_element tab_attr tab_enum accept_all no_float_fmt no_float ver (norm RT t) = true /\
    rootcanonb RT tab_element tab_attr tab_enum accept_all no_float_fmt no_float ver t = false
  | None => False
  end.
Proof. vm_compute. repeat split. Qed.

(* a tree without adjacent text items is its own merged form *)
Example merged_rich_id : match LOAD true doc_rich with Val (Ret t _) => norm RT t = t | _ => False end.
Proof. vm_compute. reflexivity. Qed.

(* the theorem, applied: *)
Example merged_real_thm :
  match LOAD true doc_mixed_split with
  | Val (Ret t st) =>
    forall bs, SERF (p_version st) None t = Val bs ->
    exists st', LOAD true bs = Val (Ret (norm RT t) st') /\ p_warnings st' = []
  | _ => False
  end.
Proof.
  destruct (LOAD true doc_mixed_split) as [[t st|]| |] eqn:L; try (vm_compute in L; discriminate L).
  intros bs SF.
  assert (RC : rootcanonb RT tab_element tab_attr tab_enum accept_all no_float_fmt no_float (p_version st) (norm RT t) = true).
  { vm_compute in L. injection L as <- <-. vm_compute. reflexivity. }
  assert (SV : Serializer.set_version RT tab_attr accept_all (p_version st) t = Val t).
  { vm_compute in L. injection L as <- <-. vm_compute. reflexivity. }
  destruct (reload_merged RT tab_element tab_attr tab_enum accept_all no_float_fmt true no_float (p_version st) None t bs
              (rootcanonb_sound _ _ _ _ _ _ _ _ _ RC true) SV SF) as (st' & L' & W & _).
  exists st'. split; assumption.
Qed.

(* encoded-edge-blank-lost: the loaded value " lead" of a plain String without preserve_whitespace is read back as "lead" *)
Open Scope string_scope.
Example edge_blank_value :
  reload_value (CString false None) (DString (BS " lead")) = DString (BS "lead") /\
  ValLoose tab_enum accept_all no_float_fmt no_float 0 (CString false None) (DString (BS " lead")).
Proof. split; [vm_compute; reflexivity|]. apply vl_string; vm_compute; reflexivity. Qed.

Example edge_blank_real :
  match reload_of doc_edge_blank with
  | Some (t, _, t') => any_node (has_text (BS " lead")) t = true /\ any_node (has_text (BS "lead")) t' = true /\
                       any_node (has_text (BS " lead")) t' = false
  | None => False
  end.
Proof. vm_compute. repeat split. Qed.

(* pattern value with an escaped byte: the loaded value keeps the entity text, which is escaped once more when written *)
Example amp_pattern_value :
  reload_value (CPattern 24 None) (DString (BS "1.0.0;a&amp;b")) = DString (BS "1.0.0;a&amp;amp;b").
Proof. vm_compute. reflexivity. Qed.

Example amp_pattern_real :
  match reload_of doc_amp_pattern with
  | Some (t, _, t') => any_node (has_text (BS "1.0.0;a&amp;b")) t = true /\ any_node (has_text (BS "1.0.0;a&amp;amp;b")) t' = true
  | None => False
  end.
Proof. vm_compute. repeat split. Qed.

(* the schemaLocation rewrite (Xml/RoundTripSetVersion.v): a root with another accepted spelling - lower case xsd name and a
   further part - loads silently, is outside the recorded classes, and is read back with the canonical text *)
From AV Require Import Xml.RoundTripCanon Xml.RoundTripSetVersion.
Definition doc_lower_xsd : list N := BS
  ("<?xml version=""1.0"" encoding=""utf-8""?><AUTOSAR xsi:schemaLocation=""http://autosar.org/schema/r4.0 autosar_00050.xsd more"" xmlns=""http://autosar.org/schema/r4.0"" xmlns:xsi=""http://www.w3.org/2001/XMLSchema-instance"">"
   ++ "<AR-PACKAGES><AR-PACKAGE><SHORT-NAME>Pkg</SHORT-NAME></AR-PACKAGE></AR-PACKAGES></AUTOSAR>").

Definition root_attr_texts (t : etree) : list (list N) :=
  match t with ENode _ _ attrs _ _ => flat_map (fun a => match snd a with DString s => [s] | _ => [] end) attrs end.

Example rewritten_real :
  match reload_of doc_lower_xsd with
  | Some (t, ver, t') =>
    knownb RT t = false /\ Serializer.set_version RT tab_attr accept_all ver t = Val t' /\
    existsb (bytes_eqb (BS "http://autosar.org/schema/r4.0 autosar_00050.xsd more")) (root_attr_texts t) = true /\
    existsb (bytes_eqb (BS "http://autosar.org/schema/r4.0 autosar_00050.xsd more")) (root_attr_texts t') = false /\
    existsb (bytes_eqb (BS "http://autosar.org/schema/r4.0 AUTOSAR_00050.xsd")) (root_attr_texts t') = true
  | None => False
  end.
Proof. vm_compute. repeat split. Qed.
