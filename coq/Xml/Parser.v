(* Xml/Parser.v — model of autosar-data/src/parser.rs, function by function, in a "funnel" monad:
   the flag `strict` is read by exactly one primitive (optional_error) and the warning list is written
   only there, as in the Rust.  Hard errors abort; every Rust expression that can panic is a `Pan`;
   parse_element recursion is on fuel (one level per start tag), its event loop on a second fuel.
   The result is a pure element tree; installing it into a model is Tree/. *)
From Coq Require Import Arith.
From AV Require Import Base.Bytes Base.Outcome Base.Utf8 Base.Radix Hash.HashModel Spec.SpecOps Spec.Versions Xml.Lexer.
Open Scope string_scope.
Open Scope list_scope.
Open Scope N_scope.

(* ---------- values and trees ---------- *)
Inductive cdata := DEnum (item : N) | DString (s : list N) | DUInt (n : N) | DFloat (bits : N).

Inductive etree :=
| ENode (name : N) (ty : N * N) (attrs : list (N * cdata)) (content : list (etree + cdata)) (comment : option (list N)).

Definition e_name (e : etree) := match e with ENode n _ _ _ _ => n end.
Definition e_content (e : etree) := match e with ENode _ _ _ c _ => c end.

(* ---------- errors ---------- *)
Inductive pkind :=
| InvalidArxmlFileHeader | UnexpectedXmlFileHeader | UnknownAutosarVersion | InvalidAutosarVersion
| IncorrectBeginElement | InvalidBeginElement | IncorrectEndElement | InvalidEndElement
| ElementChoiceConflict | ElementVersionError | TooManySubElements | RequiredSubelementMissing
| AttributeValueError | UnknownAttributeError | AttributeVersionError | RequiredAttributeMissing
| CharacterContentForbidden | EnumItemVersionError | UnknownEnumItem | InvalidEnumItem
| StringValueTooLong | RegexMatchError | Utf8Error | UnexpectedEndOfFile | InvalidNumber
| AdditionalDataError | InvalidXmlEntity.

(* element = the `element` / `parent_element` field (an ElementName) when the variant has one, else 0;
   item = sub_element / other_element / attribute / enum item when it is a typed name, else 0 *)
Inductive perror :=
| ErrLex (line : N) (e : lexerr)
| ErrParse (line : N) (k : pkind) (element item : N).

Record pstate := {
  p_lex : lstate;
  p_line : N;
  p_version : N;                 (* fileversion as u32 *)
  p_cur : N;                     (* current_element *)
  p_compat : N;                  (* version_compatibility *)
  p_warnings : list perror;      (* newest first *)
  p_standalone : option bool;
  p_idents : list (list N * list nat);   (* (path, position of the named element: child indices from the root), newest first *)
  p_refs : list (list N * list nat)
}.

Definition set_lex st l := {| p_lex := l; p_line := p_line st; p_version := p_version st; p_cur := p_cur st; p_compat := p_compat st;
  p_warnings := p_warnings st; p_standalone := p_standalone st; p_idents := p_idents st; p_refs := p_refs st |}.
Definition set_line st l := {| p_lex := p_lex st; p_line := l; p_version := p_version st; p_cur := p_cur st; p_compat := p_compat st;
  p_warnings := p_warnings st; p_standalone := p_standalone st; p_idents := p_idents st; p_refs := p_refs st |}.
Definition set_version st v := {| p_lex := p_lex st; p_line := p_line st; p_version := v; p_cur := p_cur st; p_compat := p_compat st;
  p_warnings := p_warnings st; p_standalone := p_standalone st; p_idents := p_idents st; p_refs := p_refs st |}.
Definition set_cur st c := {| p_lex := p_lex st; p_line := p_line st; p_version := p_version st; p_cur := c; p_compat := p_compat st;
  p_warnings := p_warnings st; p_standalone := p_standalone st; p_idents := p_idents st; p_refs := p_refs st |}.
Definition set_compat st c := {| p_lex := p_lex st; p_line := p_line st; p_version := p_version st; p_cur := p_cur st; p_compat := c;
  p_warnings := p_warnings st; p_standalone := p_standalone st; p_idents := p_idents st; p_refs := p_refs st |}.
Definition add_warning st w := {| p_lex := p_lex st; p_line := p_line st; p_version := p_version st; p_cur := p_cur st; p_compat := p_compat st;
  p_warnings := w :: p_warnings st; p_standalone := p_standalone st; p_idents := p_idents st; p_refs := p_refs st |}.
Definition set_standalone st s := {| p_lex := p_lex st; p_line := p_line st; p_version := p_version st; p_cur := p_cur st; p_compat := p_compat st;
  p_warnings := p_warnings st; p_standalone := s; p_idents := p_idents st; p_refs := p_refs st |}.
Definition add_ident st i := {| p_lex := p_lex st; p_line := p_line st; p_version := p_version st; p_cur := p_cur st; p_compat := p_compat st;
  p_warnings := p_warnings st; p_standalone := p_standalone st; p_idents := i :: p_idents st; p_refs := p_refs st |}.
Definition add_ref st r := {| p_lex := p_lex st; p_line := p_line st; p_version := p_version st; p_cur := p_cur st; p_compat := p_compat st;
  p_warnings := p_warnings st; p_standalone := p_standalone st; p_idents := p_idents st; p_refs := r :: p_refs st |}.

(* ---------- the funnel monad ---------- *)
Inductive step (A : Type) := Ret (a : A) (st : pstate) | Raise (e : perror) (st : pstate).
Arguments Ret {A} a st. Arguments Raise {A} e st.
Definition M (A : Type) := pstate -> res (step A).

Definition ret {A} (a : A) : M A := fun st => Val (Ret a st).
Definition mbind {A B} (m : M A) (f : A -> M B) : M B :=
  fun st => match m st with
            | Val (Ret a st') => f a st'
            | Val (Raise e st') => Val (Raise e st')
            | Pan s => Pan s
            | Fuel => Fuel
            end.
Definition get : M pstate := fun st => Val (Ret st st).
Definition modify (f : pstate -> pstate) : M unit := fun st => Val (Ret tt (f st)).
Definition lift {A} (r : res A) : M A := fun st => match r with Val a => Val (Ret a st) | Pan s => Pan s | Fuel => Fuel end.
Definition mpanic {A} (s : string) : M A := fun _ => Pan s.
Definition mfuel {A} : M A := fun _ => Fuel.

Declare Scope m_scope.
Delimit Scope m_scope with M.
Notation "'do' x '<-' m ';' k" := (mbind m (fun x => k)) (at level 200, x name, m at level 100, k at level 200, right associativity) : m_scope.
Notation "'do' ' p '<-' m ';' k" := (mbind m (fun x => match x with p => k end))
  (at level 200, p pattern, m at level 100, k at level 200, right associativity) : m_scope.
Notation "m ';;' k" := (mbind m (fun _ => k)) (at level 100, k at level 200, right associativity) : m_scope.

Section Parser.
Variable strict : bool.
Variable T : tables.
Variable tab_el tab_at tab_en : nametab.          (* ElementName / AttributeName / EnumItem tables *)
Variable check_fn : N -> list N -> res bool.      (* validate_regex_n *)
Variable float_parse : list N -> option N.        (* ORACLE: str::parse::<f64>, result as raw bits *)

(* self.error(err) : hard error at the current line *)
Definition hard {A} (k : pkind) (element item : N) : M A :=
  fun st => Val (Raise (ErrParse (p_line st) k element item) st).

(* THE funnel: the only reader of `strict`, the only writer of the warning list *)
Definition optional_error (k : pkind) (element item : N) : M unit :=
  fun st => let e := ErrParse (p_line st) k element item in
            if strict then Val (Raise e st) else Val (Ret tt (add_warning st e)).

Definition check_version (item_version : N) (k : pkind) (element item : N) : M unit :=
  (modify (fun st => set_compat st (N.land (p_compat st) item_version));;
   do st <- get;
   if N.land (p_version st) item_version =? 0 then optional_error k element item else ret tt)%M.

(* self.next(lexer) *)
Definition pnext : M event :=
  fun st => match Lexer.next (p_lex st) with
            | Val (LOk line ev l') => Val (Ret ev (set_line (set_lex st l') line))
            | Val (LErr line e) => Val (Raise (ErrLex line e) st)
            | Pan s => Pan s
            | Fuel => Fuel
            end.

Definition name_of (t : nametab) (s : list N) : res (option N) :=
  match from_bytes t s with Ok i => Val (Some i) | Err => Val None | Panic => Pan "from_bytes: table index" end.

(* trim_byte_string:
     let mut len = input.len();
     if len > 0 {
         while len > 0 && input[len - 1].is_ascii_whitespace() { len -= 1; }
         let start = input.iter().position(|c| !c.is_ascii_whitespace()).unwrap_or(len);
         &input[start..len]
     } else { input }                                                                   *)
Fixpoint drop_ws (l : list N) : list N := match l with x :: l' => if is_ws x then drop_ws l' else l | [] => [] end.
(* the value of `len` after the backwards scan *)
Definition trim_len (input : list N) : nat := List.length (drop_ws (rev input)).
Definition trim_byte_string (input : list N) : res (list N) :=
  match input with
  | [] => Val []
  | _ =>
    let len := trim_len input in
    let start := match position (fun c => negb (is_ws c)) input with Some p => p | None => len end in
    if (len <? start)%nat then Pan "parser.rs: trim_byte_string input[start..len]"
    else Val (firstn (len - start) (skipn start input))
  end.

(* position of a sub-list / byte *)
Definition find_byte (c : N) (l : list N) : option nat := position (N.eqb c) l.

(* unescape_string ; `orig` is the whole input (payload of the error only) *)
Fixpoint unescape_loop (fuel : nat) (rem acc : list N) {struct fuel} : M (list N) :=
  match fuel with
  | O => mfuel
  | S f =>
    match find_byte 38 rem with
    | None => ret (acc ++ rem)
    | Some pos =>
      let acc := acc ++ firstn pos rem in
      let rem := skipn pos rem in
      let invalid := (optional_error InvalidXmlEntity 0 0;; unescape_loop f (skipn 1 rem) (acc ++ [38]))%M in
      if starts_with (BS "&lt;") rem then unescape_loop f (skipn 4 rem) (acc ++ [60])
      else if starts_with (BS "&gt;") rem then unescape_loop f (skipn 4 rem) (acc ++ [62])
      else if starts_with (BS "&amp;") rem then unescape_loop f (skipn 5 rem) (acc ++ [38])
      else if starts_with (BS "&apos;") rem then unescape_loop f (skipn 6 rem) (acc ++ [39])
      else if starts_with (BS "&quot;") rem then unescape_loop f (skipn 6 rem) (acc ++ [34])
      else if starts_with (BS "&#x") rem then
        match find_byte 59 rem with
        | Some endpos =>
          (* if let (false, Ok(hexval)) = (hextxt.starts_with('+'), u32::from_str_radix(hextxt, 16)) *)
          let hextxt := firstn (endpos - 3) (skipn 3 rem) in
          if starts_with [43] hextxt then invalid else
          match from_str_radix_u 32 16 hextxt with
          | Some v => if is_char v then unescape_loop f (skipn (S endpos) rem) (acc ++ utf8_encode v) else invalid
          | None => invalid
          end
        | None => invalid
        end
      else if starts_with (BS "&#") rem then
        match find_byte 59 rem with
        | Some endpos =>
          let numtxt := firstn (endpos - 2) (skipn 2 rem) in
          if starts_with [43] numtxt then invalid else
          match from_str_radix_u 32 10 numtxt with
          | Some v => if is_char v then unescape_loop f (skipn (S endpos) rem) (acc ++ utf8_encode v) else invalid
          | None => invalid
          end
        | None => invalid
        end
      else invalid
    end
  end.

Definition unescape_string (input : list N) : M (list N) :=
  match find_byte 38 input with
  | None => ret input
  | Some _ => unescape_loop (S (List.length input)) input []
  end.

Definition opt_len_gt (maxlen : option N) (l : list N) : bool :=
  match maxlen with Some m => m <? N.of_nat (List.length l) | None => false end.

(* parse_character_data *)
Definition parse_character_data (input : list N) (spec : cdspec) : M cdata :=
  (do trimmed <- lift (trim_byte_string input);
   match spec with
   | CEnum items =>
     do v <- lift (name_of tab_en trimmed);
     match v with
     | None => hard UnknownEnumItem 0 0
     | Some value =>
       match find (fun it => fst it =? value) items with
       | None => do st <- get; hard InvalidEnumItem (p_cur st) value
       | Some (_, version) =>
         do st <- get;
         check_version version EnumItemVersionError (p_cur st) value;;
         ret (DEnum value)
       end
     end
   | CPattern fn maxlen =>
     (if opt_len_gt maxlen trimmed then optional_error StringValueTooLong 0 0 else ret tt);;
     do ok <- lift (check_fn fn trimmed);
     (if negb ok then optional_error RegexMatchError 0 0 else ret tt);;
     if utf8_valid trimmed then ret (DString trimmed)
     else (optional_error Utf8Error 0 0;; ret (DString (utf8_lossy trimmed)))
   | CString preserve maxlen =>
     let raw := if preserve then input else trimmed in
     (if opt_len_gt maxlen raw then optional_error StringValueTooLong 0 0 else ret tt);;
     do text <- (if utf8_valid raw then ret raw else (optional_error Utf8Error 0 0;; ret (utf8_lossy raw)));
     do u <- unescape_string text;
     ret (DString u)
   | CUInt =>
     if negb (utf8_valid trimmed) then hard Utf8Error 0 0 else
     match from_str_radix_u 64 10 trimmed with
     | Some v => ret (DUInt v)
     | None => optional_error InvalidNumber 0 0;; ret (DUInt 0)
     end
   | CFloat =>
     if negb (utf8_valid trimmed) then hard Utf8Error 0 0 else
     match float_parse trimmed with
     | Some b => ret (DFloat b)
     | None => optional_error InvalidNumber 0 0;; ret (DFloat 0)
     end
   end)%M.

(* parse_attribute_text: the while loop over `rem`; `break` = return the remaining text *)
Fixpoint attr_loop (fuel : nat) (ty : etype) (rem : list N) (attrs : list (N * cdata)) {struct fuel}
  : M (list N * list (N * cdata)) :=
  match fuel with
  | O => mfuel
  | S f =>
    match find_byte 61 rem with
    | None => ret (rem, attrs)
    | Some equals_pos =>
      let attr_name_part := firstn equals_pos rem in
      if (List.length rem - equals_pos <? 3)%nat then ret (rem, attrs) else
      let quote_char := nth (S equals_pos) rem 0 in
      if negb (quote_char =? 34) && negb (quote_char =? 39) then ret (rem, attrs) else
      let rem2 := skipn (equals_pos + 2) rem in
      match find_byte quote_char rem2 with
      | None => ret (rem, attrs)   (* fix: `rem` is advanced only after the closing quote was found *)
      | Some endquote_pos =>
        let attr_value_part := firstn endquote_pos rem2 in
        (do nm <- lift (name_of tab_at attr_name_part);
         do attrs' <-
           match nm with
           | Some attr_name =>
             do sp <- lift (find_attribute_spec T ty attr_name);
             match sp with
             | Some (_, ctype, _, version_mask) =>
               do st <- get;
               check_version version_mask AttributeVersionError (p_cur st) attr_name;;
               do v <- parse_character_data attr_value_part ctype;
               ret (attrs ++ [(attr_name, v)])
             | None => do st <- get; optional_error UnknownAttributeError (p_cur st) 0;; ret attrs
             end
           | None => do st <- get; optional_error UnknownAttributeError (p_cur st) 0;; ret attrs
           end;
         let after := skipn (S endquote_pos) rem2 in
         let next := drop_ws after in
         (* at least one whitespace character must separate attributes *)
         if negb (match next with [] => true | _ => false end) && (List.length next =? List.length after)%nat
         then ret (rem2, attrs')
         else attr_loop f ty next attrs')%M
      end
    end
  end.

(* the final loop of parse_attribute_text over attribute_spec_iter() *)
Fixpoint req_loop (cur : N) (attrs : list (N * cdata)) (l : list (N * N * cdspec * N)) : M unit :=
  match l with
  | [] => ret tt
  | (name, _, _, required) :: l' =>
    ((if negb (required =? 0) && negb (existsb (fun a => fst a =? name) attrs)
      then optional_error RequiredAttributeMissing cur name else ret tt);;
     req_loop cur attrs l')%M
  end.

Definition parse_attribute_text (ty : etype) (attributes_text : list N) : M (list (N * cdata)) :=
  (let rem0 := match position (fun c => negb (is_ws c)) attributes_text with
               | Some p => skipn p attributes_text | None => attributes_text end in
   do '(rem, attrs) <- attr_loop (S (List.length attributes_text)) ty rem0 [];
   do st <- get;
   (if negb (match rem with [] => true | _ => false end) && negb (forallb is_ws rem)
    then optional_error AttributeValueError (p_cur st) 0 else ret tt);;
   do specs <- lift (attribute_spec_list T ty);
   req_loop (p_cur st) attrs specs;;
   ret attrs)%M.

(* parse_file_version *)
Fixpoint split_on (c : N) (cur : list N) (l : list N) : list (list N) :=
  match l with
  | [] => [rev cur]
  | x :: l' => if x =? c then rev cur :: split_on c [] l' else split_on c (x :: cur) l'
  end.

Definition ver_or_panic (o : option N) : M N :=
  match o with Some v => ret v | None => mpanic "version constant missing from the tables" end.

Definition parse_file_version (schema : list N) : M N :=
  (let parts := split_on 32 [] schema in
   let schema_base := hd [] parts in
   if negb (bytes_eqb schema_base (BS "http://autosar.org/schema/r4.0")) then hard InvalidArxmlFileHeader 0 0 else
   let xsd_file_raw := hd [] (tl parts) in
   let xsd_file := if starts_with (BS "autosar") xsd_file_raw then BS "AUTOSAR" ++ skipn 7 xsd_file_raw else xsd_file_raw in
   match version_of_filename xsd_file with
   | Some v => ret v
   | None =>
     if bytes_eqb xsd_file (BS "AUTOSAR_4-3-1.xsd") then
       optional_error InvalidAutosarVersion 0 0;; ver_or_panic (version_of_ident "Autosar_00044")
     else if bytes_eqb xsd_file (BS "AUTOSAR_4-4-0.xsd") then
       optional_error InvalidAutosarVersion 0 0;; ver_or_panic (version_of_ident "Autosar_00046")
     else if bytes_eqb xsd_file (BS "AUTOSAR_4-5-0.xsd") then
       optional_error InvalidAutosarVersion 0 0;; ver_or_panic (version_of_ident "Autosar_00048")
     else optional_error UnknownAutosarVersion 0 0;; ver_or_panic version_latest
   end)%M.

Definition attr_string (name : N) (attrs : list (N * cdata)) : option (option (list N)) :=
  match find (fun a => fst a =? name) attrs with
  | Some (_, DString s) => Some (Some s)
  | Some _ => Some None
  | None => None
  end.

Definition attr_id (text : list N) : M N :=
  (do r <- lift (name_of tab_at text);
   match r with Some i => ret i | None => mpanic "AttributeName constant missing from the table" end)%M.

Definition parse_file_header (attrs : list (N * cdata)) : M unit :=
  (do a_xmlns <- attr_id (BS "xmlns");
   do a_xsi <- attr_id (BS "xmlns:xsi");
   do a_schema <- attr_id (BS "xsi:schemaLocation");
   match attr_string a_xmlns attrs, attr_string a_xsi attrs, attr_string a_schema attrs with
   | Some (Some xmlns), Some (Some xsi), Some (Some schema) =>
     if negb (bytes_eqb xmlns (BS "http://autosar.org/schema/r4.0"))
        || negb (bytes_eqb xsi (BS "http://www.w3.org/2001/XMLSchema-instance"))
     then hard InvalidArxmlFileHeader 0 0
     else do v <- parse_file_version schema; modify (fun st => set_version st v)
   | _, _, _ => hard InvalidArxmlFileHeader 0 0
   end)%M.

(* find_element_in_spec_checked *)
Definition find_element_in_spec_checked (name : N) (ty : etype) : M (etype * list N) :=
  (do st <- get;
   do r <- lift (find_sub_element T ty name (p_version st));
   match r with
   | Some x => ret x
   | None =>
     do r2 <- lift (find_sub_element T ty name 4294967295);
     match r2 with
     | None => hard IncorrectBeginElement (p_cur st) name
     | Some (sub, idx) =>
       do vm <- lift (get_sub_element_version_mask T ty idx);
       match vm with
       | None => mpanic "parser.rs: get_sub_element_version_mask(..).unwrap()"
       | Some mask => check_version mask ElementVersionError (p_cur st) name;; ret (sub, idx)
       end
     end
   end)%M.

Fixpoint list_eqbN (a b : list N) : bool :=
  match a, b with [], [] => true | x :: a', y :: b' => (x =? y) && list_eqbN a' b' | _, _ => false end.

Definition check_element_conflict (name : N) (ty : etype) (old new : list N) : M unit :=
  match old with
  | [] => ret tt
  | _ =>
    if list_eqbN old new then ret tt else
    (do g <- lift (find_common_group T ty old new);
     do d <- lift (dt T g);
     let mode := dt_mode d in
     if mode =? MChoice then (do st <- get; optional_error ElementChoiceConflict (p_cur st) name)
     else if mode =? MCharacters then mpanic "parser.rs: accepted a sub-element inside a character-only element"
     else ret tt)%M
  end.

Definition check_multiplicity (name : N) (ty : etype) (idx : list N) (content : list (etree + cdata)) : M unit :=
  (do mode <- lift (get_sub_element_container_mode T ty idx);
   if (mode =? MSequence) || (mode =? MChoice) then
     do m <- lift (get_sub_element_multiplicity T ty idx);
     match m with
     | Some mult =>
       if negb (mult =? 2) &&
          existsb (fun c => match c with inl e => e_name e =? name | inr _ => false end) content
       then (do st <- get; optional_error TooManySubElements (p_cur st) name)
       else ret tt
     | None => ret tt
     end
   else ret tt)%M.

Definition first_string (e : etree) : option (list N) :=
  match e_content e with inr (DString s) :: _ => Some s | _ => None end.

(* parse_element: `pos` = reversed child-index path of this element; `path` = Autosar path so far.
   The element's own name/type/attributes/comment were fixed by the caller.
   pe_loop is the `loop { ... }` of parse_element (one iteration per lexer event, fuel `lfuel`); `rec` is the
   recursive call self.parse_element(new_element, path, lexer).  parse_element has one unit of `fuel` per
   recursion level (= nesting depth of elements, see C02_depth) and hands `lfuel` to every loop. *)
Fixpoint pe_loop (rec : N -> etype -> list (N * cdata) -> option (list N) -> list N -> list nat -> M etree)
         (lfuel : nat) (name : N) (ty : etype) (attrs : list (N * cdata)) (comment : option (list N)) (pos : list nat)
         (content : list (etree + cdata)) (elem_idx : list N) (short_name_found : bool)
         (stored_comment : option (list N)) (path : list N) {struct lfuel} : M etree :=
  match lfuel with
  | O => mfuel
  | S lf =>
    let loop := pe_loop rec lf name ty attrs comment pos in
    (modify (fun st => set_cur st name);;
     do ev <- pnext;
     match ev with
     | EvBegin elem_text attr_text =>
       do nm <- lift (name_of tab_el elem_text);
       match nm with
       | Some sub_name =>
         do '(sub_ty, idx) <- find_element_in_spec_checked sub_name ty;
         check_element_conflict sub_name ty elem_idx idx;;
         (match content with [] => ret tt | _ => check_multiplicity sub_name ty idx content end);;
         do sub_attrs <- parse_attribute_text sub_ty attr_text;
         do sub <- rec sub_name sub_ty sub_attrs stored_comment path (List.length content :: pos);
         (* only a SHORT-NAME that is the FIRST content item names the element (fix: late SHORT-NAME) *)
         if (sub_name =? name_short_name T) && (match content with [] => true | _ => false end) then
           match first_string sub with
           | Some name_string =>
             let new_path := path ++ [47] ++ name_string in
             modify (fun st => add_ident st (new_path, rev pos));;
             loop (content ++ [inl sub]) idx true None new_path
           | None => loop (content ++ [inl sub]) idx true None path
           end
         else loop (content ++ [inl sub]) idx short_name_found None path
       | None => hard InvalidBeginElement name 0
       end
     | EvEnd elem_text =>
       do nm <- lift (name_of tab_el elem_text);
       match nm with
       | Some n =>
         if n =? name then
           (* after the loop *)
           (do st <- get;
            do named <- lift (is_named_in_version T ty (p_version st));
            (if negb short_name_found && named
             then optional_error RequiredSubelementMissing name (name_short_name T) else ret tt);;
            ret (ENode name ty attrs content comment))
         else hard IncorrectEndElement name n
       | None => hard InvalidEndElement name 0
       end
     | EvChars text =>
       do spec <- lift (chardata_spec T ty);
       match spec with
       | Some cs =>
         (* a character data element holds exactly one value (fix 00b10f0) *)
         do mode <- lift (content_mode T ty);
         if (mode =? MCharacters) && negb (match content with [] => true | _ => false end) then
           optional_error CharacterContentForbidden name 0;;
           loop content elem_idx short_name_found stored_comment path
         else
         do value <- parse_character_data text cs;
         do isr <- lift (is_ref T ty);
         (match value with
          | DString refpath => if isr then modify (fun st => add_ref st (refpath, rev pos)) else ret tt
          | _ => ret tt
          end);;
         loop (content ++ [inr value]) elem_idx short_name_found stored_comment path
       | None =>
         optional_error CharacterContentForbidden name 0;;
         loop content elem_idx short_name_found stored_comment path
       end
     | EvHeader _ =>
       optional_error UnexpectedXmlFileHeader name 0;;
       loop content elem_idx short_name_found stored_comment path
     | EvEOF => hard UnexpectedEndOfFile name 0
     | EvComment c => loop content elem_idx short_name_found (Some (utf8_lossy c)) path
     end)%M
  end.

Fixpoint parse_element (fuel lfuel : nat) (name : N) (ty : etype) (attrs : list (N * cdata)) (comment : option (list N))
         (path : list N) (pos : list nat) {struct fuel} : M etree :=
  match fuel with
  | O => mfuel
  | S fuel' => pe_loop (parse_element fuel' lfuel) lfuel name ty attrs comment pos [] [] false None path
  end.

Definition verify_end_of_input : M unit :=
  fun st => match Lexer.next (p_lex st) with
            | Val (LOk _ EvEOF l') => Val (Ret tt (set_lex st l'))
            | Val (LOk _ _ l') => optional_error AdditionalDataError 0 0 (set_lex st l')
            | Val (LErr line e) => Val (Raise (ErrLex line e) st)
            | Pan s => Pan s
            | Fuel => Fuel
            end.

Definition root_type : M etype := lift (et_new T (autosar_element T)).
Definition autosar_name : M N := (do e <- lift (elem T (autosar_element T)); ret (ed_name e))%M.

Fixpoint skip_comments (fuel : nat) (stored : option (list N)) (tok : event) : M (option (list N) * event) :=
  match fuel with
  | O => mfuel
  | S f =>
    match tok with
    | EvComment c => (do t <- pnext; skip_comments f (Some (utf8_lossy c)) t)%M
    | _ => ret (stored, tok)
    end
  end.

Definition parse_arxml (buflen : nat) : M etree :=
  (do ev <- pnext;
   match ev with
   | EvHeader sa =>
     modify (fun st => set_standalone st sa);;
     do tok <- pnext;
     do '(stored_comment, token) <- skip_comments (S buflen) None tok;
     match token with
     | EvBegin elemname attributes_text =>
       do nm <- lift (name_of tab_el elemname);
       do an <- autosar_name;
       match nm with
       | Some n =>
         if n =? an then
           do rt <- root_type;
           do attributes <- parse_attribute_text rt attributes_text;
           parse_file_header attributes;;
           do root <- parse_element (S buflen) (S buflen) an rt attributes stored_comment [] [];
           verify_end_of_input;;
           ret root
         else hard InvalidArxmlFileHeader 0 0
       | None => hard InvalidArxmlFileHeader 0 0
       end
     | _ => hard InvalidArxmlFileHeader 0 0
     end
   | _ => hard InvalidArxmlFileHeader 0 0
   end)%M.

Definition init_pstate (buffer : list N) (v401 an : N) : pstate :=
  {| p_lex := lexer_new buffer; p_line := 1; p_version := v401; p_cur := an; p_compat := 4294967295;
     p_warnings := []; p_standalone := None; p_idents := []; p_refs := [] |}.

(* the whole load: AutosarModel::load_buffer's parsing stage *)
Definition load (buffer : list N) : res (step etree) :=
  match version_of_ident "Autosar_4_0_1", elem T (autosar_element T) with
  | Some v401, Val e => parse_arxml (List.length buffer) (init_pstate buffer v401 (ed_name e))
  | _, Pan s => Pan s
  | _, _ => Pan "version constant missing"
  end.

(* check_arxml_header *)
Definition check_arxml_header (buffer : list N) : res bool :=
  match version_of_ident "Autosar_4_0_1", elem T (autosar_element T) with
  | Some v401, Val e =>
    let m : M bool :=
      (do ev <- pnext;
       match ev with
       | EvHeader _ =>
         do tok <- pnext;
         do '(_, token) <- skip_comments (S (List.length buffer)) None tok;
         match token with
         | EvBegin elemname attributes_text =>
           do nm <- lift (name_of tab_el elemname);
           match nm with
           | Some n => if n =? ed_name e then
                         (do rt <- root_type;
                          do attributes <- parse_attribute_text rt attributes_text;
                          parse_file_header attributes;; ret true)
                       else ret false
           | None => ret false
           end
         | _ => ret false
         end
       | _ => ret false
       end)%M in
    match m (init_pstate buffer v401 (ed_name e)) with
    | Val (Ret b _) => Val b
    | Val (Raise _ _) => Val false
    | Pan s => Pan s
    | Fuel => Fuel
    end
  | _, Pan s => Pan s
  | _, _ => Pan "version constant missing"
  end.

End Parser.
