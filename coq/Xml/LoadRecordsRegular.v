(* Xml/LoadRecordsRegular.v — when do the lists the loader records (Xml/LoadRecords.v: pidents, prefs) coincide with the
   specification-side reading of the tree (pre-order; an element is named by a SHORT-NAME with text as its FIRST content
   item; a reference is an element of the reference type with exactly one text item)?
   Three conditions on every node of the tree (AllNodes):
     LateFreeP   no SHORT-NAME sub-element with text at a child position >= 1     <- can fail for loaded files: the known
                                                                                     class late / repeated SHORT-NAME
     SnLeafP     a SHORT-NAME sub-element has no sub-elements
     RefPlainP   an element of the reference type has no content or exactly one text item
   The last two are PROVED for every loaded tree (both modes) of a table set with tables_ok and the two boolean table
   facts sn_charsb / ref_charsb (SHORT-NAME elements and the reference type have content mode Characters; true for the
   regenerated tables by evaluation): load_sn_leaf, load_ref_plain. *)
From Coq Require Import Arith Lia.
From AV Require Import Base.Bytes Base.Outcome Base.Utf8 Hash.HashModel Spec.SpecTypes Spec.SpecOps Spec.Versions
  Xml.Lexer Xml.Parser Xml.TablesOk Xml.Funnel Xml.ParserCheck Xml.ParserDepth Xml.StrictValidDef Xml.StrictValid Xml.LoadRecords.
Open Scope list_scope.
Open Scope N_scope.

Section Regular.
Variable T : tables.

Inductive AllNodes (P : etype -> list (etree + cdata) -> Prop) : etree -> Prop :=
| an_node n ty a content cm :
    P ty content -> (forall c, In (inl c) content -> AllNodes P c) -> AllNodes P (ENode n ty a content cm).

Lemma AllNodes_and P Q t : AllNodes P t -> AllNodes Q t -> AllNodes (fun ty l => P ty l /\ Q ty l) t.
Proof.
  induction 1 as [n ty a content cm HP _ IH]. intros HQ. inversion HQ as [n0 ty0 a0 c0 cm0 HQ1 HQ2]; subst.
  constructor; [split; assumption|]. intros c I. apply IH; [exact I|apply HQ2, I].
Qed.

Definition named_sn (c : etree) : bool :=
  (e_name c =? name_short_name T) && match first_string c with Some _ => true | None => false end.

Definition LateFreeP (ty : etype) (content : list (etree + cdata)) : Prop :=
  forall k c, nth_error content (S k) = Some (inl c) -> named_sn c = false.
Definition SnLeafP (ty : etype) (content : list (etree + cdata)) : Prop :=
  forall c, In (inl c) content -> e_name c = name_short_name T -> forall x, ~ In (inl x) (e_content c).
Definition RefPlainP (ty : etype) (content : list (etree + cdata)) : Prop :=
  is_ref_b T ty = true -> content = [] \/ exists v, content = [inr v].

(* the decidable form of LateFreeP on every node *)
Definition late_free_list (l : list (etree + cdata)) : bool :=
  forallb (fun x => match x with inl c => negb (named_sn c) | inr _ => true end) (tl l).
Fixpoint late_freeb (t : etree) : bool :=
  match t with
  | ENode _ _ _ content _ =>
    late_free_list content && forallb (fun x => match x with inl c => late_freeb c | inr _ => true end) content
  end.

Lemma late_freeb_spec t : late_freeb t = true -> AllNodes LateFreeP t.
Proof.
  remember (depth t) as n eqn:D. assert (B : (depth t <= n)%nat) by lia. clear D. revert t B.
  induction n as [|n IH]; intros [name ty attrs content cm] B; rewrite depth_node in B; [lia|].
  cbn [late_freeb]. rewrite andb_true_iff. intros [L A]. constructor.
  - intros k c NE. unfold late_free_list in L. rewrite forallb_forall in L.
    destruct content as [|x r]; [discriminate NE|]. cbn [nth_error tl] in *. apply nth_error_In in NE. specialize (L _ NE).
    apply negb_true_iff in L. exact L.
  - intros c I. rewrite forallb_forall in A. specialize (A _ I). apply IH; [|exact A].
    assert (M : (depth c <= maxd content)%nat).
    { clear -I. induction content as [|[e|d] l IHl]; cbn [In maxd] in *; [tauto| |].
      - destruct I as [E|I]; [injection E as ->; lia|specialize (IHl I); lia].
      - destruct I as [E|I]; [discriminate E|exact (IHl I)]. }
    lia.
Qed.

(* ---------- the element a lookup finds carries the name that was looked up ---------- *)
Lemma find_sub_named f : forall ty target ver et ixs, find_sub T f ty target ver = Val (Some (et, ixs)) ->
  exists e, T_elements T (fst et) = Some e /\ ed_name e = target /\ snd et = ed_type e.
Proof.
  induction f as [|f IH]; intros ty target ver et ixs; [discriminate|]. rewrite find_sub_S.
  destruct (sub_slice T ty) as [[[start stop] d]| |]; try discriminate. cbn [bind].
  generalize (N.to_nat (stop - start)) as k. generalize 0 as pos. intros pos k. revert pos et ixs.
  induction k as [|k IHk]; intros pos et ixs; [rewrite find_loop_0; discriminate|]. rewrite find_loop_S.
  destruct (subel T (start + pos)) as [[kind idx]| |]; try discriminate. cbn [bind].
  destruct (kind =? 0).
  - unfold elem at 1. destruct (T_elements T idx) as [e|] eqn:EE; try discriminate. cbn [unwrap bind].
    destruct (vinfo T (dt_sub_ver d + pos)) as [mask| |]; try discriminate. cbn [bind].
    destruct ((ed_name e =? target) && negb (N.land ver mask =? 0)) eqn:C; [|apply IHk].
    unfold et_new, elem. rewrite EE. cbn [unwrap bind]. intros [= <- _]. cbn [fst snd]. exists e.
    apply andb_true_iff in C as [C _]. apply N.eqb_eq in C. auto.
  - destruct (find_sub T f idx target ver) as [[[et' ixs']|]| |] eqn:F; try discriminate.
    + intros [= <- _]. exact (IH _ _ _ _ _ F).
    + apply IHk.
Qed.

Lemma found_named ty c : found_in T ty c ->
  exists e, T_elements T (fst (e_type c)) = Some e /\ ed_name e = e_name c /\ snd (e_type c) = ed_type e.
Proof. intros (v & idx & F). exact (find_sub_named _ _ _ _ _ _ F). Qed.

(* ---------- with tables_ok: every node type of a linked tree is checked ---------- *)
Hypothesis OK : tables_ok T = true.

Lemma linked_types_ok t : linked T t -> etype_ok T (e_type t) -> AllNodes (fun ty _ => etype_ok T ty) t.
Proof.
  induction 1 as [n ty a content cm H _ IH]. cbn [e_type]. intros TY. constructor; [exact TY|]. intros c I.
  apply (IH c I). destruct (H c I) as (v & idx & F).
  destruct (find_sub_element_total T OK ty (e_name c) v TY) as (r & E & FO). rewrite F in E. injection E as <-. exact (proj1 FO).
Qed.

(* ---------- the two table facts ---------- *)
Definition sn_charsb : bool :=
  forallb (fun i => match T_elements T i with
                    | Some e => negb (ed_name e =? name_short_name T) ||
                                match T_datatypes T (ed_type e) with Some d => dt_mode d =? MCharacters | None => false end
                    | None => true
                    end) (iota (n_elements T)).
Definition ref_charsb : bool :=
  forallb (fun ty => match T_datatypes T ty with
                     | Some d => (dt_cdata d =? 0) || negb (dt_cdata d - 1 =? reference_type_idx T) || (dt_mode d =? MCharacters)
                     | None => true
                     end) (iota (n_datatypes T)).

Lemma chars_leaf ty : etype_ok T ty -> content_mode T ty = Val MCharacters -> leaf_type T ty = true.
Proof.
  intros (_ & L & _) CM. destruct (ok_type T OK _ L) as (G & _ & _). change FUEL with (S 23) in G.
  destruct (grp_ok_S T _ _ G) as (d & ED & _ & MODE & _).
  unfold content_mode, dt in CM. rewrite ED in CM. cbn [unwrap bind] in CM. injection CM as CM.
  unfold leaf_type, dt. rewrite ED. cbn [unwrap]. apply N.eqb_eq.
  destruct (N.eq_dec (dt_sub_start d) (dt_sub_end d)) as [E|NE]; [exact E|]. specialize (MODE NE). rewrite CM in MODE. discriminate MODE.
Qed.

Lemma AllNodes_root P t : AllNodes P t -> P (e_type t) (e_content t).
Proof. intros [n ty a content cm H _]. exact H. Qed.

Lemma all_inr_length (l : list (etree + cdata)) : (forall c, ~ In (inl c) l) -> List.length l = count_text l.
Proof.
  unfold count_text. induction l as [|[c|v] l IH]; intros H; [reflexivity|exfalso; exact (H c (or_introl eq_refl))|].
  cbn [filter List.length]. f_equal. apply IH. intros c I. exact (H c (or_intror I)).
Qed.

Theorem sn_leaf t : sn_charsb = true ->
  AllNodes (fun ty _ => etype_ok T ty) t -> linked T t -> AllNodes SnLeafP t.
Proof.
  intros SC. induction 1 as [n ty a content cm TY KT IH]. intros LK.
  inversion LK as [n0 ty0 a0 c0 cm0 FD LC]; subst.
  constructor; [|intros c I; exact (IH c I (LC c I))].
  intros c I EN x IX.
  destruct (found_named _ _ (FD c I)) as (e & EE & NM & TE).
  pose proof (AllNodes_root _ _ (KT c I)) as TYc. cbn beta in TYc. pose proof TYc as (LE & LD & _).
  unfold sn_charsb in SC. rewrite forallb_forall in SC. specialize (SC _ (proj2 (iota_spec _ _) LE)). rewrite EE in SC.
  rewrite NM, EN, N.eqb_refl in SC. cbn [negb orb] in SC.
  destruct (T_datatypes T (ed_type e)) as [d|] eqn:ED; [|discriminate SC]. apply N.eqb_eq in SC.
  assert (CM : content_mode T (e_type c) = Val MCharacters).
  { unfold content_mode, dt. rewrite TE, ED. cbn [unwrap bind]. rewrite SC. reflexivity. }
  pose proof (chars_leaf _ (AllNodes_root _ _ (KT c I)) CM) as LF.
  destruct c as [cn cty ca cc ccm]. cbn [e_type e_content] in *. exact (linked_leaf T _ _ _ _ _ (LC _ I) LF x IX).
Qed.

Theorem ref_plain t : ref_charsb = true ->
  AllNodes (fun ty _ => etype_ok T ty) t -> linked T t -> single_valued T t -> AllNodes RefPlainP t.
Proof.
  intros RC. induction 1 as [n ty a content cm TY KT IH]. intros LK SV.
  inversion LK as [n0 ty0 a0 c0 cm0 FD LC]; subst. inversion SV as [n1 ty1 a1 c1 cm1 CT SVC]; subst.
  constructor; [|intros c I; exact (IH c I (LC c I) (SVC c I))].
  intros IR. unfold is_ref_b in IR. destruct (is_ref T ty) as [b| |] eqn:E; try discriminate IR. subst b.
  unfold is_ref, dt in E. pose proof TY as (LE & LD & EX).
  destruct (T_datatypes T (snd ty)) as [d|] eqn:ED; [|discriminate E]. cbn [unwrap bind] in E.
  destruct (dt_cdata d =? 0) eqn:Z; [discriminate E|]. injection E as E.
  unfold ref_charsb in RC. rewrite forallb_forall in RC. specialize (RC _ (proj2 (iota_spec _ _) LD)). rewrite ED, Z, E in RC.
  cbn [negb orb] in RC. apply N.eqb_eq in RC.
  assert (CM : content_mode T ty = Val MCharacters).
  { unfold content_mode, dt. rewrite ED. cbn [unwrap bind]. rewrite RC. reflexivity. }
  pose proof (chars_leaf _ (conj LE (conj LD EX)) CM) as LF.
  pose proof (linked_leaf T _ _ _ _ _ LK LF) as NOEL. specialize (CT CM). rewrite <- (all_inr_length _ NOEL) in CT.
  destruct content as [|[c|v] [|y r]]; [left; reflexivity|exfalso; exact (NOEL c (or_introl eq_refl))|exfalso; exact (NOEL c (or_introl eq_refl))|right; eauto|cbn in CT; lia].
Qed.

End Regular.

(* ---------- every loaded tree, both modes ---------- *)
Lemma load_types_ok T tab_el tab_at tab_en check_fn float_parse s bs t st :
  tables_ok T = true -> load s T tab_el tab_at tab_en check_fn float_parse bs = Val (Ret t st) ->
  AllNodes (fun ty _ => etype_ok T ty) t /\ linked T t.
Proof.
  intros OK L. destruct (load_records T tab_el tab_at tab_en check_fn float_parse s bs t st L) as (_ & _ & LK & RT).
  split; [|exact LK]. apply (linked_types_ok T OK t LK).
  destruct (et_new_ok T OK _ (ok_root T OK)) as (rt & E & TOK & _). rewrite RT in E. injection E as <-. exact TOK.
Qed.

Theorem load_sn_leaf T tab_el tab_at tab_en check_fn float_parse s bs t st :
  tables_ok T = true -> sn_charsb T = true ->
  load s T tab_el tab_at tab_en check_fn float_parse bs = Val (Ret t st) -> AllNodes (SnLeafP T) t.
Proof.
  intros OK SC L. destruct (load_types_ok T tab_el tab_at tab_en check_fn float_parse s bs t st OK L) as [TY LK].
  exact (sn_leaf T OK t SC TY LK).
Qed.

Theorem load_ref_plain T tab_el tab_at tab_en check_fn float_parse s bs t st :
  tables_ok T = true -> ref_charsb T = true ->
  load s T tab_el tab_at tab_en check_fn float_parse bs = Val (Ret t st) -> AllNodes (RefPlainP T) t.
Proof.
  intros OK RC L. destruct (load_types_ok T tab_el tab_at tab_en check_fn float_parse s bs t st OK L) as [TY LK].
  exact (ref_plain T OK t RC TY LK (load_single_valued T tab_el tab_at tab_en check_fn float_parse s bs t st L)).
Qed.
