(* Xml/LoadRecordsTree.v — the bridge to the tree side (read-only use of Tree/MergeSpec.v idents_of / refs_of and
   Tree/LoadRefineIndex.v StOf): on a tree whose nodes satisfy SnLeafP and RefPlainP (every loaded tree does) the lists the
   loader records are the specification-side lists, so StOf holds for the final parser state of `load`.  (Before the fix
   of the late SHORT-NAME defect LateFreeP was needed as well; the statements with it are kept.) *)
From Coq Require Import Arith Lia.
From AV Require Import Base.Bytes Base.Outcome Hash.HashModel Spec.SpecTypes Spec.SpecOps
  Xml.Lexer Xml.Parser Xml.TablesOk Xml.StrictValidDef Xml.LoadRecords Xml.LoadRecordsRegular.
From AV Require Import Tree.MergeSpec Tree.LoadRefineIndex.
Open Scope list_scope.
Open Scope N_scope.

Section Bridge.
Variable T : tables.

(* the anonymous loops of idents_of / refs_of, restated *)
Definition ido_go (path' : list N) (pos : list nat) :=
  fix go (k : nat) (l : list (etree + cdata)) {struct l} : list (list N * list nat) :=
    match l with
    | [] => []
    | inl c :: r => idents_of T path' (k :: pos) c ++ go (S k) r
    | inr _ :: r => go (S k) r
    end.
Definition rfo_go (pos : list nat) :=
  fix go (k : nat) (l : list (etree + cdata)) {struct l} : list (list N * list nat) :=
    match l with
    | [] => []
    | inl c :: r => refs_of T (k :: pos) c ++ go (S k) r
    | inr _ :: r => go (S k) r
    end.

Lemma idents_of_eq path pos n ty a content cm :
  idents_of T path pos (ENode n ty a content cm) =
  (let path' := match e_item_name T (ENode n ty a content cm) with Some nm => path ++ [47] ++ nm | None => path end in
   (match e_item_name T (ENode n ty a content cm) with Some _ => [(path', rev pos)] | None => [] end) ++ ido_go path' pos O content).
Proof. reflexivity. Qed.

Lemma refs_of_eq pos n ty a content cm :
  refs_of T pos (ENode n ty a content cm) =
  (match is_ref T ty, content with Val true, [inr (DString s)] => [(s, rev pos)] | _, _ => [] end) ++ rfo_go pos O content.
Proof. reflexivity. Qed.

Lemma no_elems_pidents path pos c : (forall x, ~ In (inl x) (e_content c)) -> pidents T path pos c = [] /\ idents_of T path pos c = [].
Proof.
  destruct c as [n ty a content cm]. cbn [e_content]. intros NE. rewrite pidents_node, idents_of_eq.
  assert (A : forall k p, pid_go T (pidents T) pos k p content = [] /\ forall p', ido_go p' pos k content = []).
  { induction content as [|[x|v] r IH]; intros k p; [split; reflexivity|exfalso; exact (NE x (or_introl eq_refl))|].
    cbn [pid_go ido_go]. apply IH. intros x I. exact (NE x (or_intror I)). }
  split; [exact (proj1 (A O path))|].
  assert (E : e_item_name T (ENode n ty a content cm) = None).
  { unfold e_item_name. cbn [e_content]. destruct content as [|[x|v] r]; [reflexivity|exfalso; exact (NE x (or_introl eq_refl))|reflexivity]. }
  rewrite E. cbv zeta. exact (proj2 (A O path) path).
Qed.

Lemma go_agree pos r : forall k path,
  (forall c, In (inl c) r -> forall p ps, pidents T p ps c = idents_of T p ps c) ->
  pid_go T (pidents T) pos (S k) path r = ido_go path pos (S k) r.
Proof.
  induction r as [|[c|v] r IH]; intros k path AG; [reflexivity| |].
  - cbn [pid_go ido_go]. rewrite (AG c (or_introl eq_refl)). cbn [Nat.eqb]. rewrite andb_false_r.
    rewrite IH; [reflexivity|]. intros c0 I0. apply AG. right. exact I0.
  - cbn [pid_go ido_go]. apply IH. intros c0 I0. apply AG. right. exact I0.
Qed.

Lemma rgo_agree pos r : forall k,
  (forall c, In (inl c) r -> forall ps, prefs T ps c = refs_of T ps c) ->
  pref_go (prefs T) false pos k r = rfo_go pos k r.
Proof.
  induction r as [|[c|v] r IH]; intros k AG; [reflexivity| |].
  - cbn [pref_go rfo_go]. rewrite (AG c (or_introl eq_refl)), IH; [reflexivity|]. intros c0 I0. apply AG. right. exact I0.
  - cbn [pref_go rfo_go]. destruct v; cbn [app]; apply IH; intros c0 I0; apply AG; right; exact I0.
Qed.

Lemma AllNodes_impl (P Q : etype -> list (etree + cdata) -> Prop) t :
  (forall ty l, P ty l -> Q ty l) -> AllNodes P t -> AllNodes Q t.
Proof. intros PQ. induction 1 as [n ty a content cm HP _ IH]. constructor; [exact (PQ _ _ HP)|exact IH]. Qed.

(* after the fix of the late SHORT-NAME defect only the first content item can name an element, on both sides *)
Theorem idents_agree_all t :
  AllNodes (SnLeafP T) t -> forall path pos, pidents T path pos t = idents_of T path pos t.
Proof.
  induction 1 as [n ty a content cm SL _ AGI].
  intros path pos. rewrite pidents_node, idents_of_eq. destruct content as [|[c0|v] r].
  - reflexivity.
  - assert (REST : forall p, pid_go T (pidents T) pos 1 p r = ido_go p pos 1 r).
    { intros p. apply go_agree. intros c I. apply AGI. right. exact I. }
    unfold e_item_name. cbn [e_content pid_go ido_go]. change (e_first_string c0) with (first_string c0).
    cbn [Nat.eqb]. rewrite andb_true_r.
    destruct (e_name c0 =? name_short_name T) eqn:SN.
    + destruct (first_string c0) as [nm|] eqn:FS; cbv zeta.
      * apply N.eqb_eq in SN. destruct (no_elems_pidents path (O :: pos) c0 (SL c0 (or_introl eq_refl) SN)) as [-> _].
        destruct (no_elems_pidents (path ++ [47] ++ nm) (O :: pos) c0 (SL c0 (or_introl eq_refl) SN)) as [_ ->].
        cbn [app]. rewrite REST. reflexivity.
      * cbn [app]. rewrite (AGI c0 (or_introl eq_refl)), REST. reflexivity.
    + cbv zeta. cbn [app]. rewrite (AGI c0 (or_introl eq_refl)), REST. reflexivity.
  - unfold e_item_name. cbn [e_content pid_go ido_go app]. cbv zeta. apply go_agree. intros c I. apply AGI. right. exact I.
Qed.

Theorem idents_agree t :
  AllNodes (fun ty l => LateFreeP T ty l /\ SnLeafP T ty l) t ->
  forall path pos, pidents T path pos t = idents_of T path pos t.
Proof. intros H. apply idents_agree_all. exact (AllNodes_impl _ _ t (fun ty l HL => proj2 HL) H). Qed.

Theorem refs_agree t : AllNodes (RefPlainP T) t -> forall pos, prefs T pos t = refs_of T pos t.
Proof.
  induction 1 as [n ty a content cm RP _ AGR].
  intros pos. rewrite prefs_node, refs_of_eq. unfold RefPlainP in RP. unfold is_ref_b in *.
  destruct (is_ref T ty) as [[|]| |] eqn:IR.
  - destruct (RP eq_refl) as [->|(v & ->)]; [reflexivity|]. destruct v; reflexivity.
  - rewrite rgo_agree; [|exact AGR]. destruct content as [|[c|[]] [|y r]]; reflexivity.
  - rewrite rgo_agree; [|exact AGR]. reflexivity.
  - rewrite rgo_agree; [|exact AGR]. reflexivity.
Qed.

End Bridge.

(* ---------- the final state of load ---------- *)
(* references: unconditional on the tree *)
Theorem load_refs_of T tab_el tab_at tab_en check_fn float_parse s bs t st :
  tables_ok T = true -> ref_charsb T = true ->
  load s T tab_el tab_at tab_en check_fn float_parse bs = Val (Ret t st) -> p_refs st = rev (refs_of T [] t).
Proof.
  intros OK RC L. destruct (load_records T tab_el tab_at tab_en check_fn float_parse s bs t st L) as (_ & RF & _ & _).
  rewrite RF, (refs_agree T t (load_ref_plain T tab_el tab_at tab_en check_fn float_parse s bs t st OK RC L)). reflexivity.
Qed.

(* identifiables: unconditional on the tree as well (since the fix of the late SHORT-NAME defect) *)
Theorem load_idents_of_all T tab_el tab_at tab_en check_fn float_parse s bs t st :
  tables_ok T = true -> sn_charsb T = true ->
  load s T tab_el tab_at tab_en check_fn float_parse bs = Val (Ret t st) -> p_idents st = rev (idents_of T [] [] t).
Proof.
  intros OK SC L. destruct (load_records T tab_el tab_at tab_en check_fn float_parse s bs t st L) as (ID & _ & _ & _).
  rewrite ID, (idents_agree_all T t (load_sn_leaf T tab_el tab_at tab_en check_fn float_parse s bs t st OK SC L)). reflexivity.
Qed.

Theorem load_StOf_all T tab_el tab_at tab_en check_fn float_parse s bs t st :
  tables_ok T = true -> sn_charsb T = true -> ref_charsb T = true ->
  load s T tab_el tab_at tab_en check_fn float_parse bs = Val (Ret t st) -> StOf T st t.
Proof.
  intros OK SC RC L. split.
  - exact (load_idents_of_all T tab_el tab_at tab_en check_fn float_parse s bs t st OK SC L).
  - exact (load_refs_of T tab_el tab_at tab_en check_fn float_parse s bs t st OK RC L).
Qed.

(* the statements as they were before the fix (with the then necessary condition on the tree) *)
Theorem load_idents_of T tab_el tab_at tab_en check_fn float_parse s bs t st :
  tables_ok T = true -> sn_charsb T = true ->
  load s T tab_el tab_at tab_en check_fn float_parse bs = Val (Ret t st) ->
  AllNodes (LateFreeP T) t -> p_idents st = rev (idents_of T [] [] t).
Proof. intros OK SC L _. exact (load_idents_of_all T tab_el tab_at tab_en check_fn float_parse s bs t st OK SC L). Qed.

Theorem load_StOf T tab_el tab_at tab_en check_fn float_parse s bs t st :
  tables_ok T = true -> sn_charsb T = true -> ref_charsb T = true ->
  load s T tab_el tab_at tab_en check_fn float_parse bs = Val (Ret t st) ->
  AllNodes (LateFreeP T) t -> StOf T st t.
Proof. intros OK SC RC L _. exact (load_StOf_all T tab_el tab_at tab_en check_fn float_parse s bs t st OK SC RC L). Qed.
