(* Xml/StrictValidShortName.v — C08: an identifiable element without SHORT-NAME is never accepted by strict loading, whatever
   its spelling.  In every node of a strictly loaded tree whose type is named in the file version the FIRST content item is a
   SHORT-NAME sub-element; in particular the content is not empty, so <X/> and <X></X> (both read as an element without
   content) are rejected alike, and so is a SHORT-NAME that is not the first sub element (fix f86b268). *)
From Coq Require Import Arith.
From AV Require Import Base.Bytes Base.Outcome Base.Utf8 Hash.HashModel Spec.SpecOps Spec.Versions
  Xml.Lexer Xml.Parser Xml.Funnel Xml.ParserCheck Xml.ParserDepth Xml.StrictValidDef Xml.StrictValid Xml.RoundTripElem.
Open Scope list_scope.
Open Scope N_scope.

Section SN.
Variable T : tables.
Variable tab_el tab_at tab_en : nametab.
Variable check_fn : N -> list N -> res bool.
Variable float_parse : list N -> option N.
Notation PL := (pe_loop true T tab_el tab_at tab_en check_fn float_parse).
Notation PE := (parse_element true T tab_el tab_at tab_en check_fn float_parse).

Inductive named_first (ver : N) : etree -> Prop :=
| nf_node name ty attrs content comment :
    (is_named_in_version T ty ver = Val true -> head_short T content = true) ->
    (forall c, In (inl c) content -> named_first ver c) ->
    named_first ver (ENode name ty attrs content comment).

Definition recT := N -> etype -> list (N * cdata) -> option (list N) -> list N -> list nat -> M etree.
Definition rec_nf (rec : recT) : Prop :=
  forall n ty a c p ps st sub st', rec n ty a c p ps st = Val (Ret sub st') ->
    named_first (p_version st) sub /\ e_name sub = n /\ p_version st' = p_version st.

Lemma pe_loop_nf (rec : recT) : rec_nf rec ->
  forall k name ty attrs comment pos content elem_idx snf stored path st t st',
  PL rec k name ty attrs comment pos content elem_idx snf stored path st = Val (Ret t st') ->
  (snf = true -> head_short T content = true) ->
  (forall c, In (inl c) content -> named_first (p_version st) c) ->
  named_first (p_version st) t /\ e_name t = name /\ p_version st' = p_version st.
Proof.
  intros HR. induction k as [|k IH]; intros name ty attrs comment pos content elem_idx snf stored path st t st' H SNF SC;
    [discriminate H|].
  cbn [pe_loop] in H.
  inv H as u1 s1 E1. injection E1 as _ <-. inv H as ev s2 E2.
  pose proof (vpres_inv _ _ _ _ vpres_pnext E2) as V2. cbn [p_version set_cur] in V2.
  assert (NEXT : forall content' idx' snf' stored' path' s9, p_version s9 = p_version st ->
            PL rec k name ty attrs comment pos content' idx' snf' stored' path' s9 = Val (Ret t st') ->
            (snf' = true -> head_short T content' = true) ->
            (forall c, In (inl c) content' -> named_first (p_version st) c) ->
            named_first (p_version st) t /\ e_name t = name /\ p_version st' = p_version st).
  { intros content' idx' snf' stored' path' s9 V9 HL S' C'. rewrite <- V9 in C'.
    destruct (IH _ _ _ _ _ _ _ _ _ _ _ _ _ HL S' C') as (A & B & C). rewrite V9 in *. auto. }
  assert (KEEP : forall x, snf = true -> head_short T (content ++ [x]) = true).
  { intros x S1. specialize (SNF S1). destruct content; [discriminate SNF|exact SNF]. }
  destruct ev as [sa|elem_text attr_text|elem_text|text|c|].
  - inv H as u3 s3 E3. destruct (oe_strict_ret _ _ _ _ _ _ E3).
  - inv H as nm s3 E3. apply lift_ret_inv in E3 as [_ ->]. destruct nm as [sub_name|]; [|discriminate H].
    inv H as r s4 E4. pose proof (vpres_inv _ _ _ _ (vp_find_elem T true _ _) E4) as V4. destruct r as [sub_ty idx'].
    inv H as u5 s5 E5. pose proof (vpres_inv _ _ _ _ (vp_conflict T true _ _ _ _) E5) as V5.
    inv H as u6 s6 E6.
    assert (V6 : p_version s6 = p_version s5).
    { destruct content; [injection E6 as _ <-; reflexivity|exact (vpres_inv _ _ _ _ (vp_mult T true _ _ _ _) E6)]. }
    inv H as sub_attrs s7 E7. pose proof (vpres_inv _ _ _ _ (vp_pat T tab_at tab_en check_fn float_parse true _ _) E7) as V7.
    inv H as sub s8 E8. destruct (HR _ _ _ _ _ _ _ _ _ E8) as (NS & EN & V8).
    assert (V7' : p_version s7 = p_version st) by congruence. rewrite V7' in NS.
    assert (VS : p_version s8 = p_version st) by congruence.
    assert (SC' : forall c, In (inl c) (content ++ [inl sub]) -> named_first (p_version st) c).
    { intros c HIn. apply in_app_or in HIn as [HIn|[HIn|[]]]; [apply SC; exact HIn|]. injection HIn as <-. exact NS. }
    destruct (sub_name =? name_short_name T) eqn:ISN; cbn [andb] in H; [|eapply NEXT; [exact VS|exact H|apply KEEP|exact SC']].
    destruct content as [|c0 cr] eqn:EC; [|rewrite <- EC in *; eapply NEXT; [exact VS|exact H|apply KEEP|exact SC']].
    assert (HS : true = true -> head_short T ([] ++ [inl sub]) = true).
    { intros _. cbn [app head_short is_short]. rewrite EN. exact ISN. }
    destruct (first_string sub).
    + inv H as u9 s9 E9. injection E9 as _ <-. eapply NEXT; [|exact H|exact HS|exact SC']. exact VS.
    + eapply NEXT; [exact VS|exact H|exact HS|exact SC'].
  - inv H as nm s3 E3. apply lift_ret_inv in E3 as [_ ->]. destruct nm as [n|]; [|discriminate H].
    destruct (n =? name); [|discriminate H].
    inv H as g s4 E4. apply get_ret_inv in E4 as [-> ->].
    inv H as named s5 E5. apply lift_ret_inv in E5 as [NV ->].
    inv H as u6 s6 E6. apply guard_strict_ret in E6 as [C ->]. injection H as <- <-.
    split; [|split; [reflexivity|exact V2]]. rewrite V2 in NV. constructor; [|exact SC].
    intros NT. rewrite NT in NV. injection NV as <-. rewrite andb_true_r in C. apply negb_false_iff in C. exact (SNF C).
  - inv H as spec s3 E3. apply lift_ret_inv in E3 as [_ ->]. destruct spec as [cs|].
    2:{ inv H as u4 s4 E4. destruct (oe_strict_ret _ _ _ _ _ _ E4). }
    inv H as mode sm Em. apply lift_ret_inv in Em as [_ ->].
    destruct ((mode =? MCharacters) && negb match content with [] => true | _ :: _ => false end).
    { inv H as ux sx Ex. destruct (oe_strict_ret _ _ _ _ _ _ Ex). }
    inv H as value s4 E4. pose proof (vpres_inv _ _ _ _ (vp_pcd tab_en check_fn float_parse true _ _) E4) as V4.
    inv H as isr s5 E5. apply lift_ret_inv in E5 as [_ ->]. inv H as u6 s6 E6.
    assert (V6 : p_version s6 = p_version s4).
    { destruct value; try (injection E6 as _ <-; reflexivity). destruct isr; injection E6 as _ <-; reflexivity. }
    eapply NEXT; [|exact H|apply KEEP|].
    + congruence.
    + intros c0 HIn. apply in_app_or in HIn as [HIn|[HIn|[]]]; [apply SC; exact HIn|discriminate HIn].
  - eapply NEXT; [exact V2|exact H|exact SNF|exact SC].
  - discriminate H.
Qed.

Lemma parse_element_nf fuel lfuel : rec_nf (PE fuel lfuel).
Proof.
  induction fuel as [|f IH]; intros n ty a c p ps st sub st' H; [discriminate H|]. cbn [parse_element] in H.
  eapply (pe_loop_nf _ IH); [exact H|discriminate|intros c0 []].
Qed.

Theorem load_named_first bs t st :
  load true T tab_el tab_at tab_en check_fn float_parse bs = Val (Ret t st) -> named_first (p_version st) t.
Proof.
  unfold load.
  destruct (version_of_ident "Autosar_4_0_1") as [v401|]; [|destruct (elem T (autosar_element T)); discriminate].
  destruct (elem T (autosar_element T)) as [e|site|]; try discriminate.
  unfold parse_arxml. intros H.
  inv H as ev s1 E1. destruct ev; try discriminate H.
  inv H as u2 s2 E2. inv H as tok s3 E3. inv H as r s4 E4. destruct r as [stored token].
  destruct token; try discriminate H.
  inv H as nm s5 E5. inv H as an s6 E6. destruct nm as [n0|]; [|discriminate H]. destruct (n0 =? an); [|discriminate H].
  inv H as rt s7 E7. inv H as attributes s8 E8. inv H as u9 s9 E9. inv H as root s10 E10. inv H as u11 s11 E11.
  injection H as <- <-. destruct (parse_element_nf _ _ _ _ _ _ _ _ _ _ _ E10) as (NF & _ & V10).
  pose proof (vpres_inv _ _ _ _ (vp_verify_end true) E11) as V11. rewrite V11, V10. exact NF.
Qed.

(* in words: a node of named type has content, and it begins with the SHORT-NAME *)
Lemma named_first_root ver name ty attrs content comment :
  named_first ver (ENode name ty attrs content comment) -> is_named_in_version T ty ver = Val true ->
  exists sn rest, content = inl sn :: rest /\ e_name sn = name_short_name T.
Proof.
  intros NF NT. inversion NF as [? ? ? ? ? HS _]; subst. specialize (HS NT).
  destruct content as [|[sn|v] rest]; cbn [head_short is_short] in HS; try discriminate HS.
  exists sn, rest. split; [reflexivity|]. apply N.eqb_eq. exact HS.
Qed.

End SN.

(* on the real tables: both spellings of an AR-PACKAGE without content are rejected by strict loading *)
From AV Require Import Spec.SpecReal Xml.ParserExamples Hash.HashRealElement Hash.HashRealAttr Hash.HashRealEnum.
Open Scope string_scope.
Definition doc_empty_tag := ParserExamples.doc "<AR-PACKAGES><AR-PACKAGE/></AR-PACKAGES>".
Definition doc_empty_pair := ParserExamples.doc "<AR-PACKAGES><AR-PACKAGE></AR-PACKAGE></AR-PACKAGES>".
Open Scope list_scope.
Definition strict_err (d : list N) : option pkind :=
  match LOAD true d with Val (Raise (ErrParse _ k _ _) _) => Some k | _ => None end.
Example nameless_rejected : strict_err doc_empty_tag = Some RequiredSubelementMissing /\ strict_err doc_empty_pair = Some RequiredSubelementMissing.
Proof. split; vm_compute; reflexivity. Qed.
