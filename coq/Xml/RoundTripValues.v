(* Xml/RoundTripValues.v — C01, values: parse_character_data (ser_cdata v) spec = v, without error or warning, for every
   value that is canonical for its specification (ValOk).  The predicate says exactly which values survive:
     Enum     the item is listed and in version, its name has no blank at either end and parses back to the item;
     Pattern  NOT unescaped on load but escaped on save: none of the five escaped bytes (Escape.special) may occur;
              no blank at either end;
              within max_length; accepted by the validator; UTF-8;
     String   preserve_whitespace, or no blank at either end; the ESCAPED text within max_length (the loader checks the
              length before unescaping) and UTF-8;
     UInt     below 2^64;
     Float    the printed text parses back to the same bits, has no blank at either end and is UTF-8 (conditions on the
              two float oracles, stated for the value).
   For every table set / name table / oracle; both modes. *)
From Coq Require Import Arith.
From AV Require Import Base.Bytes Base.Outcome Base.Utf8 Base.Radix Hash.HashModel Spec.SpecOps
  Xml.Lexer Xml.Parser Xml.Serializer Xml.LexerProofs Xml.ParserProofs Xml.Escape.
Open Scope list_scope.
Open Scope N_scope.

(* ---------- trimming ---------- *)
Definition no_edge_ws (s : list N) : Prop :=
  match s with [] => True | c :: _ => is_ws c = false /\ is_ws (last s 0) = false end.

Lemma drop_ws_head c s : is_ws c = false -> drop_ws (c :: s) = c :: s.
Proof. intros H. cbn [drop_ws]. rewrite H. reflexivity. Qed.

Lemma rev_head_last (s : list N) c : s <> [] -> exists r, rev s = last s c :: r.
Proof.
  intros NE. destruct (exists_last NE) as (l & x & ->). rewrite rev_app_distr, last_last. cbn. eauto.
Qed.

Lemma trim_id s : no_edge_ws s -> trim_byte_string s = Val s.
Proof.
  intros H. rewrite trim_byte_string_value. destruct s as [|c s]; [reflexivity|]. destruct H as [H1 H2].
  rewrite (drop_ws_head c s H1). destruct (rev_head_last (c :: s) 0 ltac:(discriminate)) as (r & E).
  rewrite E, (drop_ws_head _ r H2), <- E, rev_involutive. reflexivity.
Qed.

Lemma escape_byte_edges c : exists h l, escape_byte c = h :: l /\ is_ws h = is_ws c /\ is_ws (last (escape_byte c) 0) = is_ws c /\
  (special c = true -> is_ws c = false).
Proof.
  destruct (special c) eqn:S.
  - destruct (escape_byte_special c S) as [[-> E]|[[-> E]|[[-> E]|[[-> E]|[-> E]]]]]; rewrite E; do 2 eexists; repeat split.
  - rewrite (escape_byte_plain c S). exists c, []. repeat split. discriminate.
Qed.

Lemma last_app_ne {A} (a b : list A) d : b <> [] -> last (a ++ b) d = last b d.
Proof.
  intros NE. induction a as [|x a IH]; [reflexivity|]. cbn [app]. rewrite <- IH.
  destruct (a ++ b) eqn:E; [destruct a; cbn in E; [congruence|discriminate]|reflexivity].
Qed.

Lemma escape_text_nonempty c s : escape_text (c :: s) <> [].
Proof. rewrite escape_text_cons. destruct (escape_byte_edges c) as (h & l & -> & _). discriminate. Qed.

Lemma escape_text_last s : s <> [] -> is_ws (last (escape_text s) 0) = is_ws (last s 0).
Proof.
  induction s as [|c s IH]; [congruence|]. intros _. rewrite escape_text_cons. destruct s as [|c' s'].
  - cbn [escape_text flat_map]. rewrite app_nil_r. destruct (escape_byte_edges c) as (h & l & _ & _ & L & _). exact L.
  - rewrite last_app_ne by apply escape_text_nonempty. rewrite IH by discriminate. reflexivity.
Qed.

Lemma no_edge_ws_escape s : no_edge_ws s -> no_edge_ws (escape_text s).
Proof.
  destruct s as [|c s]; [exact (fun H => H)|]. intros [H1 H2].
  pose proof (escape_text_last (c :: s) ltac:(discriminate)) as L. rewrite H2 in L.
  rewrite escape_text_cons in *. destruct (escape_byte_edges c) as (h & l & E & Hh & _). rewrite E in *. cbn [app no_edge_ws] in *.
  split; [congruence|exact L].
Qed.

(* ---------- ASCII text is UTF-8 ---------- *)
Lemma utf8_valid_ascii s : Forall (fun c => c < 128) s -> utf8_valid s = true.
Proof.
  unfold utf8_valid. generalize (S (List.length s)) as fuel. intros fuel. revert s.
  induction fuel as [|f IH]; intros s H; [reflexivity|]. cbn [utf8_valid_fuel].
  destruct s as [|c s]; [reflexivity|]. inversion H as [|? ? Hc Hs]; subst. cbn [utf8_chunk].
  destruct (c <? 128) eqn:E; [|apply N.ltb_ge in E; lia]. cbn [skipn]. apply IH, Hs.
Qed.

(* ---------- decimal printing and parsing of u64 ---------- *)
Fixpoint dval (a : N) (s : list N) : N := match s with [] => a | c :: s' => dval (a * 10 + (c - 48)) s' end.
Definition is_digit (c : N) : Prop := 48 <= c <= 57.

Lemma dval_app a s t : dval a (s ++ t) = dval (dval a s) t.
Proof. revert a; induction s as [|c s IH]; intros a; [reflexivity|]. cbn [app dval]. apply IH. Qed.

Lemma dval_ge a s : a <= dval a s.
Proof. revert a; induction s as [|c s IH]; intros a; cbn [dval]; [lia|]. specialize (IH (a * 10 + (c - 48))). lia. Qed.

Lemma digit_val_dec c : is_digit c -> digit_val 10 c = Some (c - 48).
Proof.
  intros [A B]. unfold digit_val. destruct ((48 <=? c) && (c <=? 57)) eqn:E.
  - destruct (c - 48 <? 10) eqn:L; [reflexivity|]. apply N.ltb_ge in L. lia.
  - apply andb_false_iff in E as [E|E]; [apply N.leb_gt in E|apply N.leb_gt in E]; lia.
Qed.

Lemma digits_val_dec limit : forall s a, Forall is_digit s -> dval a s <= limit -> digits_val 10 limit a s = Some (dval a s).
Proof.
  induction s as [|c s IH]; intros a F L; [reflexivity|]. inversion F as [|? ? Fc Fs]; subst.
  change (dval a (c :: s)) with (dval (a * 10 + (c - 48)) s) in *. cbn [digits_val].
  rewrite (digit_val_dec c Fc). pose proof (dval_ge (a * 10 + (c - 48)) s) as G. cbv zeta.
  destruct (limit <? a * 10 + (c - 48)) eqn:E; [apply N.ltb_lt in E; exfalso; lia|]. apply IH; assumption.
Qed.

Lemma dec_step n : exists q r, n / 10 = q /\ n mod 10 = r /\ n = 10 * q + r /\ r < 10.
Proof.
  exists (n / 10), (n mod 10). split; [reflexivity|]. split; [reflexivity|].
  split; [apply N.div_mod; discriminate|apply N.mod_lt; discriminate].
Qed.

Lemma dec_digits_S f n acc :
  dec_digits (S f) n acc = if n / 10 =? 0 then (48 + n mod 10) :: acc else dec_digits f (n / 10) ((48 + n mod 10) :: acc).
Proof. reflexivity. Qed.

Lemma dec_digits_spec : forall fuel n acc, n < 10 ^ N.of_nat (S fuel) ->
  exists ds, dec_digits (S fuel) n acc = ds ++ acc /\ Forall is_digit ds /\ ds <> [] /\
             forall a, dval a ds = a * 10 ^ N.of_nat (List.length ds) + n.
Proof.
  induction fuel as [|f IH]; intros n acc L; rewrite dec_digits_S;
    destruct (dec_step n) as (q & r & -> & -> & DM & M);
    assert (DG : is_digit (48 + r)) by (unfold is_digit; lia);
    (destruct (q =? 0) eqn:Z;
     [apply N.eqb_eq in Z; exists [48 + r]; split; [reflexivity|]; split; [constructor; [exact DG|constructor]|];
      split; [discriminate|]; intros a; cbn [dval List.length]; change (10 ^ N.of_nat 1) with 10; lia|]).
  - exfalso. apply N.eqb_neq in Z. change (10 ^ N.of_nat 1) with 10 in L. lia.
  - assert (L' : q < 10 ^ N.of_nat (S f)).
    { rewrite (Nat2N.inj_succ (S f)), N.pow_succ_r' in L. lia. }
    destruct (IH q ((48 + r) :: acc) L') as (ds & E & F & NE & V).
    exists (ds ++ [48 + r]). split; [rewrite E, <- app_assoc; reflexivity|].
    split; [apply Forall_app; split; [exact F|constructor; [exact DG|constructor]]|].
    split; [destruct ds; discriminate|]. intros a. rewrite dval_app, V. cbn [dval].
    rewrite app_length. cbn [List.length]. rewrite Nat.add_1_r, Nat2N.inj_succ, N.pow_succ_r'. lia.
Qed.

Lemma pos_size_bound p : N.pos p < 2 ^ N.of_nat (Pos.size_nat p).
Proof.
  induction p as [p IH|p IH|]; cbn [Pos.size_nat]; rewrite ?Nat2N.inj_succ, ?N.pow_succ_r'; try lia.
Qed.

Lemma dec_of_N_spec n : exists ds, dec_of_N n = ds /\ Forall is_digit ds /\ ds <> [] /\ dval 0 ds = n.
Proof.
  unfold dec_of_N. assert (L : n < 10 ^ N.of_nat (S (N.size_nat n))).
  { destruct n as [|p]; [cbn; lia|]. cbn [N.size_nat]. pose proof (pos_size_bound p) as B.
    rewrite Nat2N.inj_succ, N.pow_succ_r'.
    assert (2 ^ N.of_nat (Pos.size_nat p) <= 10 ^ N.of_nat (Pos.size_nat p)) by (apply N.pow_le_mono_l; lia). lia. }
  destruct (dec_digits_spec (N.size_nat n) n [] L) as (ds & E & F & NE & V). exists ds. rewrite E, app_nil_r.
  split; [reflexivity|]. split; [exact F|]. split; [exact NE|]. rewrite V. lia.
Qed.

Lemma from_str_radix_u_digits bits radix c s : c <> 43 -> c <> 45 ->
  from_str_radix_u bits radix (c :: s) = digits_val radix (2 ^ bits - 1) 0 (c :: s).
Proof.
  intros A B. unfold from_str_radix_u.
  destruct c as [|p]; [reflexivity|].
  do 6 (destruct p as [p|p|]; try reflexivity); destruct s; try reflexivity; congruence.
Qed.

Lemma parse_dec_of_N n : n < 2 ^ 64 -> from_str_radix_u 64 10 (dec_of_N n) = Some n.
Proof.
  intros L. destruct (dec_of_N_spec n) as (ds & -> & F & NE & V). destruct ds as [|c s]; [congruence|].
  inversion F as [|x l Fc Fs]. subst x l. destruct Fc as [C1 C2].
  rewrite from_str_radix_u_digits by lia. rewrite digits_val_dec; [rewrite V; reflexivity|constructor; [split|]; assumption|rewrite V; lia].
Qed.

Lemma digits_props ds : Forall is_digit ds -> ds <> [] -> no_edge_ws ds /\ utf8_valid ds = true /\ forallb markup_free ds = true.
Proof.
  intros F NE. assert (A : Forall (fun c => c < 128) ds) by (eapply Forall_impl; [|exact F]; unfold is_digit; intros; lia).
  assert (W : forall c, is_digit c -> is_ws c = false).
  { intros c [C1 C2]. unfold is_ws. repeat (apply orb_false_iff; split); apply N.eqb_neq; lia. }
  split; [|split; [apply utf8_valid_ascii, A|]].
  - destruct ds as [|c s]; [congruence|]. inversion F; subst. split; [apply W; assumption|].
    apply W. destruct (exists_last NE) as (l & x & E). rewrite E, last_last. rewrite E in F. apply Forall_app in F as [_ F].
    inversion F; assumption.
  - apply forallb_forall. intros c Hc. rewrite Forall_forall in F. destruct (F c Hc) as [C1 C2].
    unfold markup_free. apply negb_true_iff. repeat (apply orb_false_iff; split); apply N.eqb_neq; lia.
Qed.

(* ---------- canonical values ---------- *)
Section Values.
Variable strict : bool.
Variable T : tables.
Variable tab_en : nametab.
Variable check_fn : N -> list N -> res bool.
Variable float_fmt : N -> list N.
Variable float_parse : list N -> option N.
Variable ver : N.

Inductive ValOk : cdspec -> cdata -> Prop :=
| vo_enum items item mask str :
    to_str tab_en item = Some str -> no_edge_ws str -> from_bytes tab_en str = Ok item ->
    find (fun it => fst it =? item) items = Some (item, mask) -> N.land ver mask <> 0 ->
    ValOk (CEnum items) (DEnum item)
| vo_pattern fn maxlen s :
    forallb (fun c => negb (special c)) s = true -> no_edge_ws s -> opt_len_gt maxlen s = false ->
    check_fn fn s = Val true -> utf8_valid s = true ->
    ValOk (CPattern fn maxlen) (DString s)
| vo_string preserve maxlen s :
    (preserve = true \/ no_edge_ws s) -> opt_len_gt maxlen (escape_text s) = false -> utf8_valid (escape_text s) = true ->
    ValOk (CString preserve maxlen) (DString s)
| vo_uint n : n < 2 ^ 64 -> ValOk CUInt (DUInt n)
| vo_float b :
    no_edge_ws (float_fmt b) -> utf8_valid (float_fmt b) = true -> float_parse (float_fmt b) = Some b ->
    ValOk CFloat (DFloat b).

Lemma set_compat_same st : set_compat st (p_compat st) = st.
Proof. destruct st; reflexivity. Qed.

(* C01, values: the text the serializer writes for a canonical value is read back as that value; the parser state changes
   in the compatibility mask only (an enum item narrows it); in particular there is no warning and no error *)
Theorem value_roundtrip spec v st : ValOk spec v -> p_version st = ver ->
  exists bytes c, ser_cdata tab_en float_fmt v = Val bytes /\
    parse_character_data strict tab_en check_fn float_parse bytes spec st = Val (Ret v (set_compat st c)).
Proof.
  intros OK PV. destruct OK as [items item mask str TS NW FB FI IV|fn maxlen s PL NW LEN CF U|preserve maxlen s PW LEN U|n L|b NW U FP];
    cbn [ser_cdata]; unfold parse_character_data.
  - rewrite TS. cbn [unwrap]. exists str, (N.land (p_compat st) mask). split; [reflexivity|].
    rewrite (trim_id _ NW). change (mbind (lift (Val str)) ?f) with (f str). cbv beta.
    unfold name_of. rewrite FB. change (mbind (lift (Val (Some item))) ?f) with (f (Some item)). cbv beta iota.
    rewrite FI. rewrite <- PV in IV. apply N.eqb_neq in IV.
    cbv [mbind get check_version modify ret]. cbn [p_version set_compat]. rewrite IV. reflexivity.
  - exists (escape_text s), (p_compat st). split; [reflexivity|]. rewrite (escape_text_plain s PL), (trim_id _ NW).
    change (mbind (lift (Val s)) ?f) with (f s). cbv beta. rewrite LEN, CF.
    unfold mbind, ret, lift. cbn [negb]. rewrite U, set_compat_same. reflexivity.
  - exists (escape_text s), (p_compat st). split; [reflexivity|].
    destruct (trim_byte_string_total (escape_text s)) as (tr & TR & _). rewrite TR.
    change (mbind (lift (Val tr)) ?f) with (f tr). cbv beta.
    assert (RAW : (if preserve then escape_text s else tr) = escape_text s).
    { destruct PW as [->|NW]; [reflexivity|]. destruct preserve; [reflexivity|].
      rewrite (trim_id _ (no_edge_ws_escape _ NW)) in TR. congruence. }
    rewrite RAW, LEN, U. unfold mbind at 1. unfold ret at 1. unfold mbind at 1. unfold ret at 1.
    unfold mbind. rewrite escape_unescape. unfold ret. rewrite set_compat_same. reflexivity.
  - exists (dec_of_N n), (p_compat st). split; [reflexivity|].
    destruct (dec_of_N_spec n) as (ds & E & F & NE & V). destruct (digits_props ds F NE) as (NW & U & _).
    rewrite E in *. rewrite (trim_id _ NW). change (mbind (lift (Val ds)) ?f) with (f ds). cbv beta.
    rewrite U. cbn [negb]. rewrite <- E, (parse_dec_of_N n L). unfold ret. rewrite set_compat_same. reflexivity.
  - exists (float_fmt b), (p_compat st). split; [reflexivity|]. rewrite (trim_id _ NW).
    change (mbind (lift (Val (float_fmt b))) ?f) with (f (float_fmt b)). cbv beta. rewrite U. cbn [negb]. rewrite FP.
    unfold ret. rewrite set_compat_same. reflexivity.
Qed.

End Values.
