(* Xml/ParserProofs.v — C02, parser half: a Hoare logic for the funnel monad of Xml/Parser.v and, with it, totality
   (no `Pan`, no `Fuel`), the line bounds of every error and warning, and the fuel bounds, for every function up to
   `load` and `check_arxml_header`; both modes (strict is a parameter).
   Hypotheses (Section): tables_ok T, the three name tables well-formed and containing the three header attribute
   names, and the validators of the patterns the tables mention never panic on byte input (C19_n, part 3).
   Nothing is assumed about float_parse. *)
From Coq Require Import Arith.
From AV Require Import Base.Bytes Base.Outcome Base.Utf8 Base.Radix Hash.HashModel Spec.SpecOps Spec.Versions
  Xml.Lexer Xml.Parser Xml.LexerProofs Xml.TablesOk.
Open Scope list_scope.

Definition isb (b : N) : Prop := (b < 256)%N.

Lemma bytes_ok_isb s : bytes_ok s = true <-> Forall isb s.
Proof. apply bytes_ok_forall. Qed.

(* ---------- trim_byte_string never panics (fix 84da333) ---------- *)
Lemma drop_ws_app_len x : is_ws x = false -> forall L R, (S (List.length R) <= List.length (drop_ws (L ++ x :: R)))%nat.
Proof.
  intros Hx L R. induction L as [|y L IH]; cbn [app drop_ws].
  - rewrite Hx. cbn [List.length]. lia.
  - destruct (is_ws y); [exact IH|]. cbn [List.length]. rewrite app_length. cbn [List.length]. lia.
Qed.

Lemma trim_len_ge input p : position (fun c => negb (is_ws c)) input = Some p -> (p < trim_len input)%nat.
Proof.
  intros P. destruct (position_split _ _ P) as (x & Hx & SPLIT). apply negb_true_iff in Hx.
  pose proof (position_Some _ _ P) as (LT & _ & _).
  unfold trim_len. rewrite SPLIT, rev_app_distr. cbn [rev]. rewrite <- app_assoc. cbn [app].
  pose proof (drop_ws_app_len x Hx (rev (skipn (S p) input)) (rev (firstn p input))) as H.
  rewrite rev_length, firstn_length in H. lia.
Qed.

Lemma trim_byte_string_total input :
  exists t, trim_byte_string input = Val t /\ forall P : N -> Prop, Forall P input -> Forall P t.
Proof.
  unfold trim_byte_string. destruct input as [|c input']; [exists []; split; [reflexivity|auto]|].
  set (input := c :: input').
  destruct (position (fun c => negb (is_ws c)) input) as [p|] eqn:P.
  - pose proof (trim_len_ge _ _ P) as L. destruct (trim_len input <? p)%nat eqn:C; [apply Nat.ltb_lt in C; lia|].
    eexists. split; [reflexivity|]. intros Q F. apply Forall_firstn, Forall_skipn, F.
  - rewrite Nat.ltb_irrefl. eexists. split; [reflexivity|]. intros Q F. apply Forall_firstn, Forall_skipn, F.
Qed.

(* ---------- version constants used by parse_file_version / load ---------- *)
Lemma ver_401 : exists v, version_of_ident "Autosar_4_0_1" = Some v.  Proof. eexists; vm_compute; reflexivity. Qed.
Lemma ver_44 : exists v, version_of_ident "Autosar_00044" = Some v.   Proof. eexists; vm_compute; reflexivity. Qed.
Lemma ver_46 : exists v, version_of_ident "Autosar_00046" = Some v.   Proof. eexists; vm_compute; reflexivity. Qed.
Lemma ver_48 : exists v, version_of_ident "Autosar_00048" = Some v.   Proof. eexists; vm_compute; reflexivity. Qed.
Lemma ver_latest : exists v, version_latest = Some v.                 Proof. eexists; vm_compute; reflexivity. Qed.

Definition attr_names_ok (t : nametab) : bool :=
  forallb (fun s => match from_bytes t s with Ok _ => true | _ => false end)
          [BS "xmlns"; BS "xmlns:xsi"; BS "xsi:schemaLocation"].

Section PP.
Variable strict : bool.
Variable T : tables.
Variable tab_el tab_at tab_en : nametab.
Variable check_fn : N -> list N -> res bool.
Variable float_parse : list N -> option N.
Variable bs : list N.

Hypothesis TOK : tables_ok T = true.
Hypothesis NEL : nametab_ok tab_el = true.
Hypothesis NAT : nametab_ok tab_at = true.
Hypothesis NEN : nametab_ok tab_en = true.
Hypothesis ANAMES : attr_names_ok tab_at = true.
Hypothesis CHK : forall fn maxlen i s, T_cdata T i = Some (CPattern fn maxlen) -> bytes_ok s = true ->
  exists b, check_fn fn s = Val b.

(* ---------- the state invariant ---------- *)
Definition err_line_ok (e : perror) : Prop :=
  match e with ErrLex l _ => line_ok bs l | ErrParse l _ _ _ => line_ok bs l end.

Definition lex_bytes (l : lstate) : Prop := Forall isb (l_rest l) /\ opt_all isb (l_deferred l).

Definition pinv (st : pstate) : Prop :=
  lex_inv bs (p_lex st) /\ lex_bytes (p_lex st) /\ line_ok bs (p_line st) /\ Forall err_line_ok (p_warnings st).

Lemma pinv_frame st st' : p_lex st' = p_lex st -> p_line st' = p_line st -> p_warnings st' = p_warnings st ->
  pinv st -> pinv st'.
Proof. unfold pinv. intros -> -> ->. auto. Qed.

(* ---------- layer 1: programs that do not touch the lexer ---------- *)
Definition tot1 {A} (m : M A) (Q : A -> Prop) : Prop :=
  forall st, pinv st ->
    match m st with
    | Val (Ret a st') => pinv st' /\ p_lex st' = p_lex st /\ Q a
    | Val (Raise e st') => pinv st' /\ err_line_ok e
    | Pan _ => False
    | Fuel => False
    end.

Lemma tot1_conseq {A} (m : M A) (Q Q' : A -> Prop) : tot1 m Q -> (forall a, Q a -> Q' a) -> tot1 m Q'.
Proof.
  intros H HQ st Hi. specialize (H st Hi). destruct (m st) as [[a st'|e st']| |]; auto.
  destruct H as (H1 & H2 & H3). auto.
Qed.

Lemma tot1_ret {A} (a : A) (Q : A -> Prop) : Q a -> tot1 (ret a) Q.
Proof. intros H st Hi. cbn. auto. Qed.

Lemma tot1_bind {A B} (m : M A) (f : A -> M B) (Q1 : A -> Prop) (Q : B -> Prop) :
  tot1 m Q1 -> (forall a, Q1 a -> tot1 (f a) Q) -> tot1 (mbind m f) Q.
Proof.
  intros Hm Hf st Hi. specialize (Hm st Hi). unfold mbind. destruct (m st) as [[a st1|e st1]| |]; auto.
  destruct Hm as (I1 & L1 & Q1a). specialize (Hf a Q1a st1 I1).
  destruct (f a st1) as [[b st2|e st2]| |]; auto. destruct Hf as (I2 & L2 & Qb). rewrite L2, L1. auto.
Qed.

Lemma tot1_get : tot1 get (fun _ => True).
Proof. intros st Hi. cbn. auto. Qed.

Lemma tot1_modify f :
  (forall st, p_lex (f st) = p_lex st /\ p_line (f st) = p_line st /\ p_warnings (f st) = p_warnings st) ->
  tot1 (modify f) (fun _ => True).
Proof. intros H st Hi. cbn. destruct (H st) as (H1 & H2 & H3). split; [eapply pinv_frame; eauto|auto]. Qed.

Lemma tot1_lift {A} (r : res A) (a : A) (Q : A -> Prop) : r = Val a -> Q a -> tot1 (lift r) Q.
Proof. intros -> H st Hi. cbn. auto. Qed.

Lemma tot1_hard {A} k e i (Q : A -> Prop) : tot1 (@hard A k e i) Q.
Proof. intros st Hi. cbn. split; [exact Hi|]. apply Hi. Qed.

Lemma tot1_optional_error k e i : tot1 (optional_error strict k e i) (fun _ => True).
Proof.
  intros st Hi. unfold optional_error. destruct strict.
  - cbn. split; [exact Hi|]. apply Hi.
  - cbn [p_lex add_warning]. split; [|split; [reflexivity|exact I]].
    destruct Hi as (I1 & I2 & I3 & I4). unfold pinv. cbn [p_lex p_line p_warnings add_warning].
    split; [exact I1|]. split; [exact I2|]. split; [exact I3|]. constructor; [exact I3|exact I4].
Qed.

Lemma tot1_check_version v k e i : tot1 (check_version strict v k e i) (fun _ => True).
Proof.
  unfold check_version. eapply tot1_bind; [apply tot1_modify; intros; repeat split|]. intros _ _.
  eapply tot1_bind; [apply tot1_get|]. intros st _.
  destruct (N.land (p_version st) v =? 0)%N; [apply tot1_optional_error|apply tot1_ret; exact I].
Qed.

(* an optional_error / ret tt guarded by a condition, followed by something *)
Lemma tot1_guard {B} (c : bool) k e i (f : unit -> M B) Q :
  tot1 (f tt) Q -> tot1 (mbind (if c then optional_error strict k e i else ret tt) f) Q.
Proof.
  intros H. eapply tot1_bind with (Q1 := fun _ => True).
  - destruct c; [apply tot1_optional_error|apply tot1_ret; exact I].
  - intros [] _. exact H.
Qed.

(* ---------- names ---------- *)
Lemma name_of_total t s : nametab_ok t = true -> exists r, name_of t s = Val r.
Proof.
  intros H. unfold name_of. pose proof (from_bytes_no_panic t s H) as NP.
  destruct (from_bytes t s); [eauto|eauto|congruence].
Qed.

(* ---------- unescape ---------- *)
Lemma find_byte_skip c rem pos : find_byte c rem = Some pos -> (pos < List.length rem)%nat.
Proof. unfold find_byte. intros H. apply position_Some in H. apply H. Qed.

Lemma tot1_unescape_loop fuel : forall rem acc, (List.length rem < fuel)%nat ->
  tot1 (unescape_loop strict fuel rem acc) (fun _ => True).
Proof.
  induction fuel as [|f IH]; intros rem acc L; [lia|]. cbn [unescape_loop].
  destruct (find_byte 38 rem) as [pos|] eqn:F; [|apply tot1_ret; exact I].
  pose proof (find_byte_skip _ _ _ F) as LP.
  set (rem' := skipn pos rem). assert (LR : (List.length rem' = List.length rem - pos)%nat) by (unfold rem'; apply skipn_length).
  assert (REC : forall n a, (1 <= n)%nat -> tot1 (unescape_loop strict f (skipn n rem') a) (fun _ => True)).
  { intros n a Hn. apply IH. rewrite skipn_length. lia. }
  assert (INV : forall a, tot1 (mbind (optional_error strict InvalidXmlEntity 0 0) (fun _ => unescape_loop strict f (skipn 1 rem') a)) (fun _ => True)).
  { intros a. eapply tot1_bind; [apply tot1_optional_error|]. intros _ _. apply REC. lia. }
  repeat lazymatch goal with
  | |- tot1 (if ?c then _ else _) _ => destruct c
  | |- tot1 (match ?x with _ => _ end) _ => destruct x
  | |- tot1 (unescape_loop strict f (skipn _ rem') _) _ => apply REC; lia
  | |- _ => apply INV
  end.
Qed.

Lemma tot1_unescape_string input : tot1 (unescape_string strict input) (fun _ => True).
Proof.
  unfold unescape_string. destruct (find_byte 38 input); [apply tot1_unescape_loop; lia|apply tot1_ret; exact I].
Qed.

(* ---------- parse_character_data ---------- *)
Lemma tot1_parse_character_data input spec : Forall isb input -> cd_in_tables T spec ->
  tot1 (parse_character_data strict tab_en check_fn float_parse input spec) (fun _ => True).
Proof.
  intros FB (ci & CI). unfold parse_character_data.
  destruct (trim_byte_string_total input) as (trimmed & -> & FT). specialize (FT isb FB).
  change (mbind (lift (Val trimmed)) ?f) with (f trimmed). cbv beta.
  destruct spec as [items|fn maxlen|preserve maxlen| |].
  - destruct (name_of_total tab_en trimmed NEN) as (r & ->). change (mbind (lift (Val r)) ?f) with (f r). cbv beta.
    destruct r as [value|]; [|apply tot1_hard].
    destruct (find (fun it => (fst it =? value)%N) items) as [[i0 version]|].
    + eapply tot1_bind; [apply tot1_get|]. intros st _. eapply tot1_bind; [apply tot1_check_version|]. intros _ _.
      apply tot1_ret; exact I.
    + eapply tot1_bind; [apply tot1_get|]. intros st _. apply tot1_hard.
  - apply tot1_guard.
    destruct (CHK fn maxlen ci trimmed CI (proj2 (bytes_ok_isb _) FT)) as (b & ->).
    change (mbind (lift (Val b)) ?f) with (f b). cbv beta. apply tot1_guard.
    destruct (utf8_valid trimmed); [apply tot1_ret; exact I|].
    eapply tot1_bind; [apply tot1_optional_error|]. intros _ _. apply tot1_ret; exact I.
  - apply tot1_guard. eapply tot1_bind with (Q1 := fun _ => True).
    + destruct (utf8_valid _); [apply tot1_ret; exact I|].
      eapply tot1_bind; [apply tot1_optional_error|]. intros _ _. apply tot1_ret; exact I.
    + intros text _. eapply tot1_bind; [apply tot1_unescape_string|]. intros u _. apply tot1_ret; exact I.
  - destruct (negb (utf8_valid trimmed)); [apply tot1_hard|].
    destruct (from_str_radix_u 64 10 trimmed); [apply tot1_ret; exact I|].
    eapply tot1_bind; [apply tot1_optional_error|]. intros _ _. apply tot1_ret; exact I.
  - destruct (negb (utf8_valid trimmed)); [apply tot1_hard|].
    destruct (float_parse trimmed); [apply tot1_ret; exact I|].
    eapply tot1_bind; [apply tot1_optional_error|]. intros _ _. apply tot1_ret; exact I.
Qed.

(* ---------- parse_attribute_text ---------- *)
Lemma drop_ws_suffix l : exists n, drop_ws l = skipn n l.
Proof.
  induction l as [|x l IH]; [exists O; reflexivity|]. cbn [drop_ws]. destruct (is_ws x); [|exists O; reflexivity].
  destruct IH as (n & ->). exists (S n). reflexivity.
Qed.

Lemma drop_ws_length l : (List.length (drop_ws l) <= List.length l)%nat.
Proof. destruct (drop_ws_suffix l) as (n & ->). rewrite skipn_length. lia. Qed.

Lemma tot1_attr_loop fuel ty : etype_ok T ty -> forall rem attrs, (List.length rem < fuel)%nat -> Forall isb rem ->
  tot1 (attr_loop strict T tab_at tab_en check_fn float_parse fuel ty rem attrs) (fun _ => True).
Proof.
  intros TY. induction fuel as [|f IH]; intros rem attrs L FB; [lia|]. cbn [attr_loop].
  destruct (find_byte 61 rem) as [eq_pos|] eqn:F; [|apply tot1_ret; exact I].
  destruct (List.length rem - eq_pos <? 3)%nat eqn:C3; [apply tot1_ret; exact I|]. apply Nat.ltb_ge in C3.
  destruct (negb (nth (S eq_pos) rem 0 =? 34)%N && negb (nth (S eq_pos) rem 0 =? 39)%N); [apply tot1_ret; exact I|].
  set (rem2 := skipn (eq_pos + 2) rem).
  assert (L2 : (List.length rem2 = List.length rem - (eq_pos + 2))%nat) by (unfold rem2; apply skipn_length).
  assert (FB2 : Forall isb rem2) by (unfold rem2; apply Forall_skipn, FB).
  destruct (find_byte (nth (S eq_pos) rem 0%N) rem2) as [endq|] eqn:FQ; [|apply tot1_ret; exact I].
  pose proof (find_byte_skip _ _ _ FQ) as LQ.
  destruct (name_of_total tab_at (firstn eq_pos rem) NAT) as (nm & ->).
  change (mbind (lift (Val nm)) ?f) with (f nm). cbv beta.
  eapply tot1_bind with (Q1 := fun _ => True).
  - assert (UNK : tot1 (mbind get (fun st => mbind (optional_error strict UnknownAttributeError (p_cur st) 0) (fun _ => ret attrs))) (fun _ => True)).
    { eapply tot1_bind; [apply tot1_get|]. intros st _. eapply tot1_bind; [apply tot1_optional_error|]. intros _ _.
      apply tot1_ret; exact I. }
    destruct nm as [attr_name|]; [|exact UNK].
    destruct (find_attribute_spec_ok T TOK ty attr_name TY) as (sp & -> & SP).
    change (mbind (lift (Val sp)) ?f) with (f sp). cbv beta.
    destruct sp as [[[[cdid ctype] req] vm]|]; [|exact UNK].
    eapply tot1_bind; [apply tot1_get|]. intros st _.
    eapply tot1_bind; [apply tot1_check_version|]. intros _ _.
    eapply tot1_bind; [apply tot1_parse_character_data; [apply Forall_firstn, FB2|exact SP]|]. intros v _.
    apply tot1_ret; exact I.
  - intros attrs' _.
    destruct (negb match drop_ws (skipn (S endq) rem2) with [] => true | _ :: _ => false end
              && (List.length (drop_ws (skipn (S endq) rem2)) =? List.length (skipn (S endq) rem2))%nat);
      [apply tot1_ret; exact I|].
    apply IH.
    + pose proof (drop_ws_length (skipn (S endq) rem2)) as D. rewrite skipn_length in D. lia.
    + destruct (drop_ws_suffix (skipn (S endq) rem2)) as (n & ->). apply Forall_skipn, Forall_skipn, FB2.
Qed.

Lemma tot1_req_loop cur attrs l : tot1 (req_loop strict cur attrs l) (fun _ => True).
Proof.
  induction l as [|[[[name c1] c2] required] l IH]; cbn [req_loop]; [apply tot1_ret; exact I|].
  apply tot1_guard. exact IH.
Qed.

Lemma tot1_parse_attribute_text ty text : etype_ok T ty -> Forall isb text ->
  tot1 (parse_attribute_text strict T tab_at tab_en check_fn float_parse ty text) (fun _ => True).
Proof.
  intros TY FB. unfold parse_attribute_text.
  set (rem0 := match position (fun c => negb (is_ws c)) text with Some p => skipn p text | None => text end).
  assert (L0 : (List.length rem0 <= List.length text)%nat).
  { unfold rem0. destruct (position _ text); [rewrite skipn_length|]; lia. }
  assert (F0 : Forall isb rem0).
  { unfold rem0. destruct (position _ text); [apply Forall_skipn|]; exact FB. }
  eapply tot1_bind; [apply tot1_attr_loop; [exact TY|lia|exact F0]|]. intros [rem attrs] _.
  eapply tot1_bind; [apply tot1_get|]. intros st _.
  apply tot1_guard.
  destruct (attribute_spec_list_ok T TOK ty TY) as (specs & ->).
  change (mbind (lift (Val specs)) ?f) with (f specs). cbv beta.
  eapply tot1_bind; [apply tot1_req_loop|]. intros _ _. apply tot1_ret; exact I.
Qed.

(* ---------- the file header ---------- *)
Lemma tot1_ver_or_panic o : (exists v, o = Some v) -> tot1 (ver_or_panic o) (fun _ => True).
Proof. intros (v & ->). apply tot1_ret; exact I. Qed.

Lemma tot1_parse_file_version schema : tot1 (parse_file_version strict schema) (fun _ => True).
Proof.
  unfold parse_file_version.
  repeat lazymatch goal with
  | |- tot1 (if ?c then _ else _) _ => destruct c
  | |- tot1 (match ?x with _ => _ end) _ => destruct x
  | |- tot1 (hard _ _ _) _ => apply tot1_hard
  | |- tot1 (ret _) _ => apply tot1_ret; exact I
  | |- tot1 (mbind (optional_error _ _ _ _) _) _ => eapply tot1_bind; [apply tot1_optional_error|intros _ _]
  | |- tot1 (ver_or_panic _) _ => apply tot1_ver_or_panic; first [apply ver_44|apply ver_46|apply ver_48|apply ver_latest]
  end.
Qed.

Lemma attr_id_total text : In text [BS "xmlns"; BS "xmlns:xsi"; BS "xsi:schemaLocation"] ->
  exists i, forall st, attr_id tab_at text st = Val (Ret i st).
Proof.
  intros HIn. unfold attr_names_ok in ANAMES. rewrite forallb_forall in ANAMES. specialize (ANAMES _ HIn).
  unfold attr_id, name_of. destruct (from_bytes tab_at text) as [i| |]; try discriminate.
  exists i. intros st. reflexivity.
Qed.

Lemma tot1_parse_file_header attrs : tot1 (parse_file_header strict tab_at attrs) (fun _ => True).
Proof.
  unfold parse_file_header.
  destruct (attr_id_total (BS "xmlns") ltac:(cbn; auto)) as (i1 & E1).
  destruct (attr_id_total (BS "xmlns:xsi") ltac:(cbn; auto)) as (i2 & E2).
  destruct (attr_id_total (BS "xsi:schemaLocation") ltac:(cbn; auto)) as (i3 & E3).
  intros st Hi. unfold mbind at 1. rewrite E1. unfold mbind at 1. rewrite E2. unfold mbind at 1. rewrite E3.
  revert st Hi. change (tot1 (match attr_string i1 attrs, attr_string i2 attrs, attr_string i3 attrs with
     | Some (Some xmlns), Some (Some xsi), Some (Some schema) =>
         if negb (bytes_eqb xmlns (BS "http://autosar.org/schema/r4.0"))
            || negb (bytes_eqb xsi (BS "http://www.w3.org/2001/XMLSchema-instance"))
         then hard InvalidArxmlFileHeader 0 0
         else mbind (parse_file_version strict schema) (fun v => modify (fun st => set_version st v))
     | _, _, _ => hard InvalidArxmlFileHeader 0 0
     end) (fun _ => True)).
  repeat lazymatch goal with
  | |- tot1 (if ?c then _ else _) _ => destruct c
  | |- tot1 (match ?x with _ => _ end) _ => destruct x
  | |- tot1 (hard _ _ _) _ => apply tot1_hard
  end.
  eapply tot1_bind; [apply tot1_parse_file_version|]. intros v _. apply tot1_modify. intros; repeat split.
Qed.

(* ---------- the specification checks of parse_element ---------- *)
Lemma tot1_find_element_in_spec_checked name ty : etype_ok T ty ->
  tot1 (find_element_in_spec_checked strict T name ty) (fun r => etype_ok T (fst r) /\ path_ok T (snd ty) (snd r)).
Proof.
  intros TY. unfold find_element_in_spec_checked. eapply tot1_bind; [apply tot1_get|]. intros st _.
  destruct (find_sub_element_total T TOK ty name (p_version st) TY) as (r & -> & FR).
  change (mbind (lift (Val r)) ?f) with (f r). cbv beta.
  destruct r as [[sub idx]|]; [apply tot1_ret; exact FR|].
  destruct (find_sub_element_total T TOK ty name 4294967295 TY) as (r2 & -> & FR2).
  change (mbind (lift (Val r2)) ?f) with (f r2). cbv beta.
  destruct r2 as [[sub idx]|]; [|apply tot1_hard]. destruct FR2 as [F1 F2].
  destruct (get_sub_element_version_mask_ok T ty idx F2) as (m & ->).
  change (mbind (lift (Val (Some m))) ?f) with (f (Some m)). cbv beta iota.
  eapply tot1_bind; [apply tot1_check_version|]. intros _ _. apply tot1_ret. split; assumption.
Qed.

Lemma tot1_check_element_conflict name ty old new :
  (old = [] \/ path_ok T (snd ty) old) -> path_ok T (snd ty) new ->
  tot1 (check_element_conflict strict T name ty old new) (fun _ => True).
Proof.
  intros PO PN. unfold check_element_conflict. destruct old as [|o old']; [apply tot1_ret; exact I|].
  destruct PO as [PO|PO]; [discriminate|].
  destruct (list_eqbN (o :: old') new); [apply tot1_ret; exact I|].
  destruct (find_common_group_ok T ty _ _ PO PN) as (g & d & -> & ED & MODE).
  change (mbind (lift (Val g)) ?f) with (f g). cbv beta. rewrite ED.
  change (mbind (lift (Val d)) ?f) with (f d). cbv beta.
  destruct (dt_mode d =? MChoice)%N.
  - eapply tot1_bind; [apply tot1_get|]. intros st _. apply tot1_optional_error.
  - rewrite MODE. apply tot1_ret; exact I.
Qed.

Lemma tot1_check_multiplicity name ty idx content : path_ok T (snd ty) idx ->
  tot1 (check_multiplicity strict T name ty idx content) (fun _ => True).
Proof.
  intros P. unfold check_multiplicity.
  destruct (get_sub_element_container_mode_ok T ty idx P) as (mode & ->).
  change (mbind (lift (Val mode)) ?f) with (f mode). cbv beta.
  destruct ((mode =? MSequence)%N || (mode =? MChoice)%N); [|apply tot1_ret; exact I].
  destruct (get_sub_element_multiplicity_ok T TOK ty idx P) as (r & ->).
  change (mbind (lift (Val r)) ?f) with (f r). cbv beta.
  destruct r as [mult|]; [|apply tot1_ret; exact I].
  destruct (negb (mult =? 2)%N && existsb _ content); [|apply tot1_ret; exact I].
  eapply tot1_bind; [apply tot1_get|]. intros st _. apply tot1_optional_error.
Qed.

End PP.
