(* Xml/ParserProofs.v — C02, parser half: a Hoare logic for the funnel monad of Xml/Parser.v and, with it, totality
   (no `Pan`, no `Fuel`), the line bounds of every error and warning, and the fuel bounds, for every function up to
   `load` and `check_arxml_header`; both modes (strict is a parameter).
   Hypotheses (Section): tables_ok T, the three name tables well-formed and containing the three header attribute
   names, and the validators of the patterns the tables mention never panic on byte input (C19_n, part 3).
   Nothing is assumed about float_parse. *)
From Coq Require Import Arith.
From AV Require Import Base.Bytes Base.Outcome Base.Utf8 Base.Radix Hash.HashModel Spec.SpecOps Spec.Versions
  Xml.Lexer Xml.Parser Xml.LexerProofs Xml.TablesOk.
Open Scope list_scope.

Definition isb (b : N) : Prop := (b < 256)%N.

Lemma bytes_ok_isb s : bytes_ok s = true <-> Forall isb s.
Proof. apply bytes_ok_forall. Qed.

(* ---------- trim_byte_string never panics (fix 84da333) ---------- *)
Lemma drop_ws_app_len x : is_ws x = false -> forall L R, (S (List.length R) <= List.length (drop_ws (L ++ x :: R)))%nat.
Proof.
  intros Hx L R. induction L as [|y L IH]; cbn [app drop_ws].
  - rewrite Hx. cbn [List.length]. lia.
  - destruct (is_ws y); [exact IH|]. cbn [List.length]. rewrite app_length. cbn [List.length]. lia.
Qed.

Lemma trim_len_ge input p : position (fun c => negb (is_ws c)) input = Some p -> (p < trim_len input)%nat.
Proof.
  intros P. destruct (position_split _ _ P) as (x & Hx & SPLIT). apply negb_true_iff in Hx.
  pose proof (position_Some _ _ P) as (LT & _ & _).
  unfold trim_len. rewrite SPLIT, rev_app_distr. cbn [rev]. rewrite <- app_assoc. cbn [app].
  pose proof (drop_ws_app_len x Hx (rev (skipn (S p) input)) (rev (firstn p input))) as H.
  rewrite rev_length, firstn_length in H. lia.
Qed.

Lemma trim_byte_string_total input :
  exists t, trim_byte_string input = Val t /\ forall P : N -> Prop, Forall P input -> Forall P t.
Proof.
  unfold trim_byte_string. destruct input as [|c input']; [exists []; split; [reflexivity|auto]|].
  set (input := c :: input').
  destruct (position (fun c => negb (is_ws c)) input) as [p|] eqn:P.
  - pose proof (trim_len_ge _ _ P) as L. destruct (trim_len input <? p)%nat eqn:C; [apply Nat.ltb_lt in C; lia|].
    eexists. split; [reflexivity|]. intros Q F. apply Forall_firstn, Forall_skipn, F.
  - rewrite Nat.ltb_irrefl. eexists. split; [reflexivity|]. intros Q F. apply Forall_firstn, Forall_skipn, F.
Qed.

(* ---------- version constants used by parse_file_version / load ---------- *)
Lemma ver_401 : exists v, version_of_ident "Autosar_4_0_1" = Some v.  Proof. eexists; vm_compute; reflexivity. Qed.
Lemma ver_44 : exists v, version_of_ident "Autosar_00044" = Some v.   Proof. eexists; vm_compute; reflexivity. Qed.
Lemma ver_46 : exists v, version_of_ident "Autosar_00046" = Some v.   Proof. eexists; vm_compute; reflexivity. Qed.
Lemma ver_48 : exists v, version_of_ident "Autosar_00048" = Some v.   Proof. eexists; vm_compute; reflexivity. Qed.
Lemma ver_latest : exists v, version_latest = Some v.                 Proof. eexists; vm_compute; reflexivity. Qed.

Definition attr_names_ok (t : nametab) : bool :=
  forallb (fun s => match from_bytes t s with Ok _ => true | _ => false end)
          [BS "xmlns"; BS "xmlns:xsi"; BS "xsi:schemaLocation"].

Section PP.
Variable strict : bool.
Variable T : tables.
Variable tab_el tab_at tab_en : nametab.
Variable check_fn : N -> list N -> res bool.
Variable float_parse : list N -> option N.
Variable bs : list N.

Hypothesis TOK : tables_ok T = true.
Hypothesis NEL : nametab_ok tab_el = true.
Hypothesis NAT : nametab_ok tab_at = true.
Hypothesis NEN : nametab_ok tab_en = true.
Hypothesis ANAMES : attr_names_ok tab_at = true.
Hypothesis CHK : forall fn maxlen i s, T_cdata T i = Some (CPattern fn maxlen) -> bytes_ok s = true ->
  exists b, check_fn fn s = Val b.

(* ---------- the state invariant ---------- *)
Definition err_line_ok (e : perror) : Prop :=
  match e with ErrLex l _ => line_ok bs l | ErrParse l _ _ _ => line_ok bs l end.

Definition lex_bytes (l : lstate) : Prop := Forall isb (l_rest l) /\ opt_all isb (l_deferred l).

Definition pinv (st : pstate) : Prop :=
  lex_inv bs (p_lex st) /\ lex_bytes (p_lex st) /\ line_ok bs (p_line st) /\ Forall err_line_ok (p_warnings st).

Lemma pinv_frame st st' : p_lex st' = p_lex st -> p_line st' = p_line st -> p_warnings st' = p_warnings st ->
  pinv st -> pinv st'.
Proof. unfold pinv. intros -> -> ->. auto. Qed.

(* ---------- layer 1: programs that do not touch the lexer ---------- *)
Definition tot1 {A} (m : M A) (Q : A -> Prop) : Prop :=
  forall st, pinv st ->
    match m st with
    | Val (Ret a st') => pinv st' /\ p_lex st' = p_lex st /\ Q a
    | Val (Raise e st') => pinv st' /\ err_line_ok e
    | Pan _ => False
    | Fuel => False
    end.

Lemma tot1_conseq {A} (m : M A) (Q Q' : A -> Prop) : tot1 m Q -> (forall a, Q a -> Q' a) -> tot1 m Q'.
Proof.
  intros H HQ st Hi. specialize (H st Hi). destruct (m st) as [[a st'|e st']| |]; auto.
  destruct H as (H1 & H2 & H3). auto.
Qed.

Lemma tot1_ret {A} (a : A) (Q : A -> Prop) : Q a -> tot1 (ret a) Q.
Proof. intros H st Hi. cbn. auto. Qed.

Lemma tot1_bind {A B} (m : M A) (f : A -> M B) (Q1 : A -> Prop) (Q : B -> Prop) :
  tot1 m Q1 -> (forall a, Q1 a -> tot1 (f a) Q) -> tot1 (mbind m f) Q.
Proof.
  intros Hm Hf st Hi. specialize (Hm st Hi). unfold mbind. destruct (m st) as [[a st1|e st1]| |]; auto.
  destruct Hm as (I1 & L1 & Q1a). specialize (Hf a Q1a st1 I1).
  destruct (f a st1) as [[b st2|e st2]| |]; auto. destruct Hf as (I2 & L2 & Qb). rewrite L2, L1. auto.
Qed.

Lemma tot1_get : tot1 get (fun _ => True).
Proof. intros st Hi. cbn. auto. Qed.

Lemma tot1_modify f :
  (forall st, p_lex (f st) = p_lex st /\ p_line (f st) = p_line st /\ p_warnings (f st) = p_warnings st) ->
  tot1 (modify f) (fun _ => True).
Proof. intros H st Hi. cbn. destruct (H st) as (H1 & H2 & H3). split; [eapply pinv_frame; eauto|auto]. Qed.

Lemma tot1_lift {A} (r : res A) (a : A) (Q : A -> Prop) : r = Val a -> Q a -> tot1 (lift r) Q.
Proof. intros -> H st Hi. cbn. auto. Qed.

Lemma tot1_hard {A} k e i (Q : A -> Prop) : tot1 (@hard A k e i) Q.
Proof. intros st Hi. cbn. split; [exact Hi|]. apply Hi. Qed.

Lemma tot1_optional_error k e i : tot1 (optional_error strict k e i) (fun _ => True).
Proof.
  intros st Hi. unfold optional_error. destruct strict.
  - cbn. split; [exact Hi|]. apply Hi.
  - cbn [p_lex add_warning]. split; [|split; [reflexivity|exact I]].
    destruct Hi as (I1 & I2 & I3 & I4). unfold pinv. cbn [p_lex p_line p_warnings add_warning].
    split; [exact I1|]. split; [exact I2|]. split; [exact I3|]. constructor; [exact I3|exact I4].
Qed.

Lemma tot1_check_version v k e i : tot1 (check_version strict v k e i) (fun _ => True).
Proof.
  unfold check_version. eapply tot1_bind; [apply tot1_modify; intros; repeat split|]. intros _ _.
  eapply tot1_bind; [apply tot1_get|]. intros st _.
  destruct (N.land (p_version st) v =? 0)%N; [apply tot1_optional_error|apply tot1_ret; exact I].
Qed.

(* an optional_error / ret tt guarded by a condition, followed by something *)
Lemma tot1_guard {B} (c : bool) k e i (f : unit -> M B) Q :
  tot1 (f tt) Q -> tot1 (mbind (if c then optional_error strict k e i else ret tt) f) Q.
Proof.
  intros H. eapply tot1_bind with (Q1 := fun _ => True).
  - destruct c; [apply tot1_optional_error|apply tot1_ret; exact I].
  - intros [] _. exact H.
Qed.

(* ---------- names ---------- *)
Lemma name_of_total t s : nametab_ok t = true -> exists r, name_of t s = Val r.
Proof.
  intros H. unfold name_of. pose proof (from_bytes_no_panic t s H) as NP.
  destruct (from_bytes t s); [eauto|eauto|congruence].
Qed.

(* ---------- unescape ---------- *)
Lemma find_byte_skip c rem pos : find_byte c rem = Some pos -> (pos < List.length rem)%nat.
Proof. unfold find_byte. intros H. apply position_Some in H. apply H. Qed.

Lemma tot1_unescape_loop fuel : forall rem acc, (List.length rem < fuel)%nat ->
  tot1 (unescape_loop strict fuel rem acc) (fun _ => True).
Proof.
  induction fuel as [|f IH]; intros rem acc L; [lia|]. cbn [unescape_loop].
  destruct (find_byte 38 rem) as [pos|] eqn:F; [|apply tot1_ret; exact I].
  pose proof (find_byte_skip _ _ _ F) as LP.
  set (rem' := skipn pos rem). assert (LR : (List.length rem' = List.length rem - pos)%nat) by (unfold rem'; apply skipn_length).
  assert (REC : forall n a, (1 <= n)%nat -> tot1 (unescape_loop strict f (skipn n rem') a) (fun _ => True)).
  { intros n a Hn. apply IH. rewrite skipn_length. lia. }
  assert (INV : forall a, tot1 (mbind (optional_error strict InvalidXmlEntity 0 0) (fun _ => unescape_loop strict f (skipn 1 rem') a)) (fun _ => True)).
  { intros a. eapply tot1_bind; [apply tot1_optional_error|]. intros _ _. apply REC. lia. }
  repeat lazymatch goal with
  | |- tot1 (if ?c then _ else _) _ => destruct c
  | |- tot1 (match ?x with _ => _ end) _ => destruct x
  | |- tot1 (unescape_loop strict f (skipn _ rem') _) _ => apply REC; lia
  | |- _ => apply INV
  end.
Qed.

Lemma tot1_unescape_string input : tot1 (unescape_string strict input) (fun _ => True).
Proof.
  unfold unescape_string. destruct (find_byte 38 input); [apply tot1_unescape_loop; lia|apply tot1_ret; exact I].
Qed.

(* ---------- parse_character_data ---------- *)
Lemma tot1_parse_character_data input spec : Forall isb input -> cd_in_tables T spec ->
  tot1 (parse_character_data strict tab_en check_fn float_parse input spec) (fun _ => True).
Proof.
  intros FB (ci & CI). unfold parse_character_data.
  destruct (trim_byte_string_total input) as (trimmed & -> & FT). specialize (FT isb FB).
  change (mbind (lift (Val trimmed)) ?f) with (f trimmed). cbv beta.
  destruct spec as [items|fn maxlen|preserve maxlen| |].
  - destruct (name_of_total tab_en trimmed NEN) as (r & ->). change (mbind (lift (Val r)) ?f) with (f r). cbv beta.
    destruct r as [value|]; [|apply tot1_hard].
    destruct (find (fun it => (fst it =? value)%N) items) as [[i0 version]|].
    + eapply tot1_bind; [apply tot1_get|]. intros st _. eapply tot1_bind; [apply tot1_check_version|]. intros _ _.
      apply tot1_ret; exact I.
    + eapply tot1_bind; [apply tot1_get|]. intros st _. apply tot1_hard.
  - apply tot1_guard.
    destruct (CHK fn maxlen ci trimmed CI (proj2 (bytes_ok_isb _) FT)) as (b & ->).
    change (mbind (lift (Val b)) ?f) with (f b). cbv beta. apply tot1_guard.
    destruct (utf8_valid trimmed); [apply tot1_ret; exact I|].
    eapply tot1_bind; [apply tot1_optional_error|]. intros _ _. apply tot1_ret; exact I.
  - apply tot1_guard. eapply tot1_bind with (Q1 := fun _ => True).
    + destruct (utf8_valid _); [apply tot1_ret; exact I|].
      eapply tot1_bind; [apply tot1_optional_error|]. intros _ _. apply tot1_ret; exact I.
    + intros text _. eapply tot1_bind; [apply tot1_unescape_string|]. intros u _. apply tot1_ret; exact I.
  - destruct (negb (utf8_valid trimmed)); [apply tot1_hard|].
    destruct (from_str_radix_u 64 10 trimmed); [apply tot1_ret; exact I|].
    eapply tot1_bind; [apply tot1_optional_error|]. intros _ _. apply tot1_ret; exact I.
  - destruct (negb (utf8_valid trimmed)); [apply tot1_hard|].
    destruct (float_parse trimmed); [apply tot1_ret; exact I|].
    eapply tot1_bind; [apply tot1_optional_error|]. intros _ _. apply tot1_ret; exact I.
Qed.

(* ---------- parse_attribute_text ---------- *)
Lemma drop_ws_suffix l : exists n, drop_ws l = skipn n l.
Proof.
  induction l as [|x l IH]; [exists O; reflexivity|]. cbn [drop_ws]. destruct (is_ws x); [|exists O; reflexivity].
  destruct IH as (n & ->). exists (S n). reflexivity.
Qed.

Lemma drop_ws_length l : (List.length (drop_ws l) <= List.length l)%nat.
Proof. destruct (drop_ws_suffix l) as (n & ->). rewrite skipn_length. lia. Qed.

Lemma tot1_attr_loop fuel ty : etype_ok T ty -> forall rem attrs, (List.length rem < fuel)%nat -> Forall isb rem ->
  tot1 (attr_loop strict T tab_at tab_en check_fn float_parse fuel ty rem attrs) (fun _ => True).
Proof.
  intros TY. induction fuel as [|f IH]; intros rem attrs L FB; [lia|]. cbn [attr_loop].
  destruct (find_byte 61 rem) as [eq_pos|] eqn:F; [|apply tot1_ret; exact I].
  destruct (List.length rem - eq_pos <? 3)%nat eqn:C3; [apply tot1_ret; exact I|]. apply Nat.ltb_ge in C3.
  destruct (negb (nth (S eq_pos) rem 0 =? 34)%N && negb (nth (S eq_pos) rem 0 =? 39)%N); [apply tot1_ret; exact I|].
  set (rem2 := skipn (eq_pos + 2) rem).
  assert (L2 : (List.length rem2 = List.length rem - (eq_pos + 2))%nat) by (unfold rem2; apply skipn_length).
  assert (FB2 : Forall isb rem2) by (unfold rem2; apply Forall_skipn, FB).
  destruct (find_byte (nth (S eq_pos) rem 0%N) rem2) as [endq|] eqn:FQ; [|apply tot1_ret; exact I].
  pose proof (find_byte_skip _ _ _ FQ) as LQ.
  destruct (name_of_total tab_at (firstn eq_pos rem) NAT) as (nm & ->).
  change (mbind (lift (Val nm)) ?f) with (f nm). cbv beta.
  eapply tot1_bind with (Q1 := fun _ => True).
  - assert (UNK : tot1 (mbind get (fun st => mbind (optional_error strict UnknownAttributeError (p_cur st) 0) (fun _ => ret attrs))) (fun _ => True)).
    { eapply tot1_bind; [apply tot1_get|]. intros st _. eapply tot1_bind; [apply tot1_optional_error|]. intros _ _.
      apply tot1_ret; exact I. }
    destruct nm as [attr_name|]; [|exact UNK].
    destruct (find_attribute_spec_ok T TOK ty attr_name TY) as (sp & -> & SP).
    change (mbind (lift (Val sp)) ?f) with (f sp). cbv beta.
    destruct sp as [[[[cdid ctype] req] vm]|]; [|exact UNK].
    eapply tot1_bind; [apply tot1_get|]. intros st _.
    eapply tot1_bind; [apply tot1_check_version|]. intros _ _.
    eapply tot1_bind; [apply tot1_parse_character_data; [apply Forall_firstn, FB2|exact SP]|]. intros v _.
    apply tot1_ret; exact I.
  - intros attrs' _.
    destruct (negb match drop_ws (skipn (S endq) rem2) with [] => true | _ :: _ => false end
              && (List.length (drop_ws (skipn (S endq) rem2)) =? List.length (skipn (S endq) rem2))%nat);
      [apply tot1_ret; exact I|].
    apply IH.
    + pose proof (drop_ws_length (skipn (S endq) rem2)) as D. rewrite skipn_length in D. lia.
    + destruct (drop_ws_suffix (skipn (S endq) rem2)) as (n & ->). apply Forall_skipn, Forall_skipn, FB2.
Qed.

Lemma tot1_req_loop cur attrs l : tot1 (req_loop strict cur attrs l) (fun _ => True).
Proof.
  induction l as [|[[[name c1] c2] required] l IH]; cbn [req_loop]; [apply tot1_ret; exact I|].
  apply tot1_guard. exact IH.
Qed.

Lemma tot1_parse_attribute_text ty text : etype_ok T ty -> Forall isb text ->
  tot1 (parse_attribute_text strict T tab_at tab_en check_fn float_parse ty text) (fun _ => True).
Proof.
  intros TY FB. unfold parse_attribute_text.
  set (rem0 := match position (fun c => negb (is_ws c)) text with Some p => skipn p text | None => text end).
  assert (L0 : (List.length rem0 <= List.length text)%nat).
  { unfold rem0. destruct (position _ text); [rewrite skipn_length|]; lia. }
  assert (F0 : Forall isb rem0).
  { unfold rem0. destruct (position _ text); [apply Forall_skipn|]; exact FB. }
  eapply tot1_bind; [apply tot1_attr_loop; [exact TY|lia|exact F0]|]. intros [rem attrs] _.
  eapply tot1_bind; [apply tot1_get|]. intros st _.
  apply tot1_guard.
  destruct (attribute_spec_list_ok T TOK ty TY) as (specs & ->).
  change (mbind (lift (Val specs)) ?f) with (f specs). cbv beta.
  eapply tot1_bind; [apply tot1_req_loop|]. intros _ _. apply tot1_ret; exact I.
Qed.

(* ---------- the file header ---------- *)
Lemma tot1_ver_or_panic o : (exists v, o = Some v) -> tot1 (ver_or_panic o) (fun _ => True).
Proof. intros (v & ->). apply tot1_ret; exact I. Qed.

Lemma tot1_parse_file_version schema : tot1 (parse_file_version strict schema) (fun _ => True).
Proof.
  unfold parse_file_version.
  repeat lazymatch goal with
  | |- tot1 (if ?c then _ else _) _ => destruct c
  | |- tot1 (match ?x with _ => _ end) _ => destruct x
  | |- tot1 (hard _ _ _) _ => apply tot1_hard
  | |- tot1 (ret _) _ => apply tot1_ret; exact I
  | |- tot1 (mbind (optional_error _ _ _ _) _) _ => eapply tot1_bind; [apply tot1_optional_error|intros _ _]
  | |- tot1 (ver_or_panic _) _ => apply tot1_ver_or_panic; first [apply ver_44|apply ver_46|apply ver_48|apply ver_latest]
  end.
Qed.

Lemma attr_id_total text : In text [BS "xmlns"; BS "xmlns:xsi"; BS "xsi:schemaLocation"] ->
  exists i, forall st, attr_id tab_at text st = Val (Ret i st).
Proof.
  intros HIn. unfold attr_names_ok in ANAMES. rewrite forallb_forall in ANAMES. specialize (ANAMES _ HIn).
  unfold attr_id, name_of. destruct (from_bytes tab_at text) as [i| |]; try discriminate.
  exists i. intros st. reflexivity.
Qed.

Lemma tot1_parse_file_header attrs : tot1 (parse_file_header strict tab_at attrs) (fun _ => True).
Proof.
  unfold parse_file_header.
  destruct (attr_id_total (BS "xmlns") ltac:(cbn; auto)) as (i1 & E1).
  destruct (attr_id_total (BS "xmlns:xsi") ltac:(cbn; auto)) as (i2 & E2).
  destruct (attr_id_total (BS "xsi:schemaLocation") ltac:(cbn; auto)) as (i3 & E3).
  intros st Hi. unfold mbind at 1. rewrite E1. unfold mbind at 1. rewrite E2. unfold mbind at 1. rewrite E3.
  revert st Hi. change (tot1 (match attr_string i1 attrs, attr_string i2 attrs, attr_string i3 attrs with
     | Some (Some xmlns), Some (Some xsi), Some (Some schema) =>
         if negb (bytes_eqb xmlns (BS "http://autosar.org/schema/r4.0"))
            || negb (bytes_eqb xsi (BS "http://www.w3.org/2001/XMLSchema-instance"))
         then hard InvalidArxmlFileHeader 0 0
         else mbind (parse_file_version strict schema) (fun v => modify (fun st => set_version st v))
     | _, _, _ => hard InvalidArxmlFileHeader 0 0
     end) (fun _ => True)).
  repeat lazymatch goal with
  | |- tot1 (if ?c then _ else _) _ => destruct c
  | |- tot1 (match ?x with _ => _ end) _ => destruct x
  | |- tot1 (hard _ _ _) _ => apply tot1_hard
  end.
  eapply tot1_bind; [apply tot1_parse_file_version|]. intros v _. apply tot1_modify. intros; repeat split.
Qed.

(* ---------- the specification checks of parse_element ---------- *)
Lemma tot1_find_element_in_spec_checked name ty : etype_ok T ty ->
  tot1 (find_element_in_spec_checked strict T name ty) (fun r => etype_ok T (fst r) /\ path_ok T (snd ty) (snd r)).
Proof.
  intros TY. unfold find_element_in_spec_checked. eapply tot1_bind; [apply tot1_get|]. intros st _.
  destruct (find_sub_element_total T TOK ty name (p_version st) TY) as (r & -> & FR).
  change (mbind (lift (Val r)) ?f) with (f r). cbv beta.
  destruct r as [[sub idx]|]; [apply tot1_ret; exact FR|].
  destruct (find_sub_element_total T TOK ty name 4294967295 TY) as (r2 & -> & FR2).
  change (mbind (lift (Val r2)) ?f) with (f r2). cbv beta.
  destruct r2 as [[sub idx]|]; [|apply tot1_hard]. destruct FR2 as [F1 F2].
  destruct (get_sub_element_version_mask_ok T ty idx F2) as (m & ->).
  change (mbind (lift (Val (Some m))) ?f) with (f (Some m)). cbv beta iota.
  eapply tot1_bind; [apply tot1_check_version|]. intros _ _. apply tot1_ret. split; assumption.
Qed.

Lemma tot1_check_element_conflict name ty old new :
  (old = [] \/ path_ok T (snd ty) old) -> path_ok T (snd ty) new ->
  tot1 (check_element_conflict strict T name ty old new) (fun _ => True).
Proof.
  intros PO PN. unfold check_element_conflict. destruct old as [|o old']; [apply tot1_ret; exact I|].
  destruct PO as [PO|PO]; [discriminate|].
  destruct (list_eqbN (o :: old') new); [apply tot1_ret; exact I|].
  destruct (find_common_group_ok T ty _ _ PO PN) as (g & d & -> & ED & MODE).
  change (mbind (lift (Val g)) ?f) with (f g). cbv beta. rewrite ED.
  change (mbind (lift (Val d)) ?f) with (f d). cbv beta.
  destruct (dt_mode d =? MChoice)%N.
  - eapply tot1_bind; [apply tot1_get|]. intros st _. apply tot1_optional_error.
  - rewrite MODE. apply tot1_ret; exact I.
Qed.

Lemma tot1_check_multiplicity name ty idx content : path_ok T (snd ty) idx ->
  tot1 (check_multiplicity strict T name ty idx content) (fun _ => True).
Proof.
  intros P. unfold check_multiplicity.
  destruct (get_sub_element_container_mode_ok T ty idx P) as (mode & ->).
  change (mbind (lift (Val mode)) ?f) with (f mode). cbv beta.
  destruct ((mode =? MSequence)%N || (mode =? MChoice)%N); [|apply tot1_ret; exact I].
  destruct (get_sub_element_multiplicity_ok T TOK ty idx P) as (r & ->).
  change (mbind (lift (Val r)) ?f) with (f r). cbv beta.
  destruct r as [mult|]; [|apply tot1_ret; exact I].
  destruct (negb (mult =? 2)%N && existsb _ content); [|apply tot1_ret; exact I].
  eapply tot1_bind; [apply tot1_get|]. intros st _. apply tot1_optional_error.
Qed.

(* ---------- layer 2: programs that drive the lexer; the fuel bound ---------- *)
Definition pnu (st : pstate) : nat := nu (p_lex st).

Lemma pnext_spec st : pinv st ->
  match pnext st with
  | Val (Ret ev st') => pinv st' /\ ev_all isb ev /\ (pnu st' <= pnu st)%nat /\ (ev = EvEOF \/ (pnu st' < pnu st)%nat)
  | Val (Raise e st') => pinv st' /\ err_line_ok e
  | Pan _ => False
  | Fuel => False
  end.
Proof.
  intros Hi. pose proof Hi as (I1 & (I2a & I2b) & I3 & I4). unfold pnext.
  pose proof (next_spec (p_lex st)) as SP. pose proof (lex_inv_lines bs (p_lex st) I1) as LL.
  destruct (next (p_lex st)) as [[line ev l'|line e]| |]; try exact SP.
  - destruct LL as [LO LI']. destruct SP as (_ & (c & EC & _) & MEAS & BYTES).
    destruct (BYTES isb I2a I2b) as [EB DB].
    assert (FR : Forall isb (l_rest l')) by (rewrite EC in I2a; apply Forall_app in I2a; apply I2a).
    split; [|split; [exact EB|]].
    + unfold pinv; cbn [p_lex p_line p_warnings set_line set_lex].
      split; [exact LI'|]. split; [split; [exact FR|exact DB]|]. split; [exact LO|exact I4].
    + unfold pnu; cbn [p_lex set_line set_lex].
      destruct ev; try (split; [lia|right; exact MEAS]).
      destruct MEAS as [M1 M2]. unfold nu. rewrite M1, M2. cbn [List.length]. split; [lia|left; reflexivity].
  - split; [exact Hi|exact LL].
Qed.

Definition tot2 {A} (F : nat) (m : M A) (Q : A -> Prop) : Prop :=
  forall st, pinv st -> (pnu st < F)%nat ->
    match m st with
    | Val (Ret a st') => pinv st' /\ (pnu st' <= pnu st)%nat /\ Q a
    | Val (Raise e st') => pinv st' /\ err_line_ok e
    | Pan _ => False
    | Fuel => False
    end.

Lemma tot2_of_tot1 {A} F (m : M A) Q : tot1 m Q -> tot2 F m Q.
Proof.
  intros H st Hi _. specialize (H st Hi). destruct (m st) as [[a st'|e st']| |]; auto.
  destruct H as (H1 & H2 & H3). unfold pnu. rewrite H2. auto.
Qed.

Lemma tot2_zero {A} (m : M A) Q : tot2 0 m Q.
Proof. intros st _ L. lia. Qed.

Lemma tot2_weaken {A} F F' (m : M A) Q : (F' <= F)%nat -> tot2 F m Q -> tot2 F' m Q.
Proof. intros L H st Hi Hn. apply H; [exact Hi|lia]. Qed.

Lemma tot2_conseq {A} F (m : M A) (Q Q' : A -> Prop) : tot2 F m Q -> (forall a, Q a -> Q' a) -> tot2 F m Q'.
Proof.
  intros H HQ st Hi Hn. specialize (H st Hi Hn). destruct (m st) as [[a st'|e st']| |]; auto.
  destruct H as (H1 & H2 & H3). auto.
Qed.

Lemma tot2_bind {A B} F (m : M A) (f : A -> M B) (Q1 : A -> Prop) (Q : B -> Prop) :
  tot2 F m Q1 -> (forall a, Q1 a -> tot2 F (f a) Q) -> tot2 F (mbind m f) Q.
Proof.
  intros Hm Hf st Hi Hn. specialize (Hm st Hi Hn). unfold mbind. destruct (m st) as [[a st1|e st1]| |]; auto.
  destruct Hm as (I1 & L1 & Q1a). specialize (Hf a Q1a st1 I1 ltac:(lia)).
  destruct (f a st1) as [[b st2|e st2]| |]; auto. destruct Hf as (I2 & L2 & Qb). split; [exact I2|]. split; [lia|exact Qb].
Qed.

Lemma tot2_bind1 {A B} F (m : M A) (f : A -> M B) (Q1 : A -> Prop) (Q : B -> Prop) :
  tot1 m Q1 -> (forall a, Q1 a -> tot2 F (f a) Q) -> tot2 F (mbind m f) Q.
Proof. intros H. apply tot2_bind. apply tot2_of_tot1. exact H. Qed.

Lemma tot2_pnext_bind {B} F (k : event -> M B) Q :
  (forall ev, ev_all isb ev -> tot2 (match ev with EvEOF => F | _ => pred F end) (k ev) Q) ->
  tot2 F (mbind pnext k) Q.
Proof.
  intros Hk st Hi Hn. pose proof (pnext_spec st Hi) as SP. unfold mbind.
  destruct (pnext st) as [[ev st1|e st1]| |]; auto.
  destruct SP as (I1 & EB & LE & MEAS). specialize (Hk ev EB st1 I1).
  assert (PRE : (pnu st1 < match ev with EvEOF => F | _ => pred F end)%nat).
  { destruct MEAS as [->|M]; [lia|]. destruct ev; lia. }
  specialize (Hk PRE). destruct (k ev st1) as [[b st2|e st2]| |]; auto.
  destruct Hk as (I2 & L2 & Qb). split; [exact I2|]. split; [lia|exact Qb].
Qed.

Lemma tot2_guard {B} F (c : bool) k e i (f : unit -> M B) Q :
  tot2 F (f tt) Q -> tot2 F (mbind (if c then optional_error strict k e i else ret tt) f) Q.
Proof.
  intros H. eapply tot2_bind1 with (Q1 := fun _ => True).
  - destruct c; [apply tot1_optional_error|apply tot1_ret; exact I].
  - intros [] _. exact H.
Qed.

Definition modify_ok (f : pstate -> pstate) : Prop :=
  forall st, p_lex (f st) = p_lex st /\ p_line (f st) = p_line st /\ p_warnings (f st) = p_warnings st.

Definition recT := N -> etype -> list (N * cdata) -> option (list N) -> list N -> list nat -> M etree.

Lemma tot2_pe_loop (rec : recT) G :
  (forall n ty a c p ps, etype_ok T ty -> tot2 G (rec n ty a c p ps) (fun _ => True)) ->
  forall lfuel F name ty attrs comment pos content elem_idx snf stored path,
    (F <= lfuel)%nat -> (F <= S G)%nat -> etype_ok T ty -> (elem_idx = [] \/ path_ok T (snd ty) elem_idx) ->
    tot2 F (pe_loop strict T tab_el tab_at tab_en check_fn float_parse rec lfuel name ty attrs comment pos
                    content elem_idx snf stored path) (fun _ => True).
Proof.
  intros Hrec. induction lfuel as [|lf IH]; intros F name ty attrs comment pos content elem_idx snf stored path LF LG TY PE.
  { replace F with O by lia. apply tot2_zero. }
  destruct F as [|f]; [apply tot2_zero|].
  assert (LOOP : forall content elem_idx snf stored path, (elem_idx = [] \/ path_ok T (snd ty) elem_idx) ->
     tot2 f (pe_loop strict T tab_el tab_at tab_en check_fn float_parse rec lf name ty attrs comment pos
                    content elem_idx snf stored path) (fun _ => True)).
  { intros. apply IH; auto; lia. }
  cbn [pe_loop].
  eapply tot2_bind1; [apply tot1_modify; intros; repeat split|]. intros _ _.
  apply tot2_pnext_bind. intros ev EB.
  destruct ev as [sa|elem_text attr_text|elem_text|text|c|]; cbn [pred].
  - (* unexpected xml header *)
    eapply tot2_bind1; [apply tot1_optional_error|]. intros _ _. apply LOOP. exact PE.
  - (* begin element *)
    destruct EB as [EB1 EB2].
    destruct (name_of_total tab_el elem_text NEL) as (nm & ->).
    change (mbind (lift (Val nm)) ?k) with (k nm). cbv beta.
    destruct nm as [sub_name|]; [|apply tot2_of_tot1, tot1_hard].
    eapply tot2_bind1; [apply tot1_find_element_in_spec_checked; exact TY|]. intros [sub_ty idx] [ST PI]. cbn [fst snd] in ST, PI.
    eapply tot2_bind1; [apply tot1_check_element_conflict; [exact PE|exact PI]|]. intros _ _.
    eapply tot2_bind1 with (Q1 := fun _ => True).
    { destruct content; [apply tot1_ret; exact I|apply tot1_check_multiplicity; exact PI]. }
    intros _ _.
    eapply tot2_bind1; [apply tot1_parse_attribute_text; [exact ST|exact EB2]|]. intros sub_attrs _.
    eapply tot2_bind; [eapply tot2_weaken; [|apply Hrec; exact ST]; lia|]. intros sub _.
    destruct ((sub_name =? name_short_name T)%N && match content with [] => true | _ :: _ => false end); [|apply LOOP; right; exact PI].
    destruct (first_string sub); [|apply LOOP; right; exact PI].
    eapply tot2_bind1; [apply tot1_modify; intros; repeat split|]. intros _ _. apply LOOP; right; exact PI.
  - (* end element *)
    destruct (name_of_total tab_el elem_text NEL) as (nm & ->).
    change (mbind (lift (Val nm)) ?k) with (k nm). cbv beta.
    destruct nm as [n|]; [|apply tot2_of_tot1, tot1_hard].
    destruct (n =? name)%N; [|apply tot2_of_tot1, tot1_hard].
    apply tot2_of_tot1. eapply tot1_bind; [apply tot1_get|]. intros st _.
    destruct (is_named_in_version_ok T TOK ty (p_version st) TY) as (b & ->).
    change (mbind (lift (Val b)) ?k) with (k b). cbv beta.
    apply tot1_guard. apply tot1_ret; exact I.
  - (* characters *)
    destruct (chardata_spec_ok T TOK ty TY) as (spec & -> & SP).
    change (mbind (lift (Val spec)) ?k) with (k spec). cbv beta.
    destruct spec as [cs|].
    + destruct (content_mode_ok T TOK ty TY) as (mode & ->).
      change (mbind (lift (Val mode)) ?k) with (k mode). cbv beta.
      destruct ((mode =? MCharacters)%N && negb match content with [] => true | _ :: _ => false end).
      { eapply tot2_bind1; [apply tot1_optional_error|]. intros _ _. apply LOOP. exact PE. }
      eapply tot2_bind1; [apply tot1_parse_character_data; [exact EB|exact SP]|]. intros value _.
      destruct (is_ref_ok T TOK ty TY) as (isr & ->).
      change (mbind (lift (Val isr)) ?k) with (k isr). cbv beta.
      eapply tot2_bind1 with (Q1 := fun _ => True).
      { destruct value; try (apply tot1_ret; exact I).
        destruct isr; [apply tot1_modify; intros; repeat split|apply tot1_ret; exact I]. }
      intros _ _. apply LOOP. exact PE.
    + eapply tot2_bind1; [apply tot1_optional_error|]. intros _ _. apply LOOP. exact PE.
  - (* comment *)
    apply LOOP. exact PE.
  - (* end of file *)
    apply tot2_of_tot1, tot1_hard.
Qed.

Lemma tot2_parse_element fuel lfuel : forall name ty attrs comment path pos, etype_ok T ty ->
  tot2 (Nat.min fuel lfuel)
       (parse_element strict T tab_el tab_at tab_en check_fn float_parse fuel lfuel name ty attrs comment path pos)
       (fun _ => True).
Proof.
  induction fuel as [|f IH]; intros name ty attrs comment path pos TY; [apply tot2_zero|].
  cbn [parse_element].
  apply (tot2_pe_loop (parse_element strict T tab_el tab_at tab_en check_fn float_parse f lfuel) (Nat.min f lfuel)).
  - intros. apply IH. assumption.
  - lia.
  - lia.
  - exact TY.
  - left; reflexivity.
Qed.

Lemma tot2_skip_comments fuel : forall F stored tok, (F < fuel)%nat -> ev_all isb tok ->
  tot2 F (skip_comments fuel stored tok) (fun r => ev_all isb (snd r)).
Proof.
  induction fuel as [|f IH]; intros F stored tok LF EB; [lia|].
  cbn [skip_comments].
  destruct tok; try (apply tot2_of_tot1, tot1_ret; exact EB).
  apply tot2_pnext_bind. intros ev EB'.
  assert (STEP : forall ev', ev_all isb ev' -> tot2 (pred F) (skip_comments f (Some (utf8_lossy text)) ev') (fun r => ev_all isb (snd r))).
  { intros ev' E'. destruct F as [|F']; [apply tot2_zero|]. apply IH; [cbn [pred]; lia|exact E']. }
  destruct ev; try (apply STEP; exact EB').
  (* end of file: the next round returns at once *)
  destruct f as [|f']; [replace F with O by lia; apply tot2_zero|].
  cbn [skip_comments]. apply tot2_of_tot1, tot1_ret. exact EB'.
Qed.

Lemma tot2_verify_end_of_input F : tot2 F (verify_end_of_input strict) (fun _ => True).
Proof.
  intros st Hi Hn. pose proof (pnext_spec st Hi) as SP. unfold pnext in SP. unfold verify_end_of_input.
  destruct (next (p_lex st)) as [[line ev l'|line e]| |]; try exact SP.
  destruct SP as (I1 & _ & LE & _).
    assert (I1' : pinv (set_lex st l')).
    { destruct I1 as (A & B & C & D). destruct Hi as (_ & _ & C0 & _). unfold pinv in *.
      cbn [p_lex p_line p_warnings set_line set_lex] in *. auto. }
    assert (LE' : (pnu (set_lex st l') <= pnu st)%nat) by exact LE.
    destruct ev; try (pose proof (tot1_optional_error AdditionalDataError 0 0 (set_lex st l') I1') as OE;
      destruct (optional_error strict AdditionalDataError 0 0 (set_lex st l')) as [[a st2|e st2]| |]; auto;
      destruct OE as (O1 & O2 & _); split; [exact O1|]; split; [unfold pnu in *; rewrite O2; exact LE'|exact I]).
    split; [exact I1'|]. split; [exact LE'|exact I].
Qed.

Lemma tot2_parse_arxml :
  tot2 (S (List.length bs)) (parse_arxml strict T tab_el tab_at tab_en check_fn float_parse (List.length bs)) (fun _ => True).
Proof.
  unfold parse_arxml. set (n := List.length bs).
  apply tot2_pnext_bind. intros ev EB.
  destruct ev; try (apply tot2_of_tot1, tot1_hard). cbn [pred].
  eapply tot2_bind1; [apply tot1_modify; intros; repeat split|]. intros _ _.
  apply tot2_pnext_bind. intros tok EBt.
  assert (SK : forall F, (F <= n)%nat -> tot2 F (mbind (skip_comments (S n) None tok)
     (fun x => let '(stored_comment, token) := x in
        match token with
        | EvBegin elemname attributes_text =>
            mbind (lift (name_of tab_el elemname)) (fun nm =>
            mbind (autosar_name T) (fun an =>
            match nm with
            | Some n0 =>
                if (n0 =? an)%N
                then mbind (root_type T) (fun rt =>
                     mbind (parse_attribute_text strict T tab_at tab_en check_fn float_parse rt attributes_text) (fun attributes =>
                     mbind (parse_file_header strict tab_at attributes) (fun _ =>
                     mbind (parse_element strict T tab_el tab_at tab_en check_fn float_parse (S n) (S n) an rt attributes stored_comment [] []) (fun root =>
                     mbind (verify_end_of_input strict) (fun _ => ret root)))))
                else hard InvalidArxmlFileHeader 0 0
            | None => hard InvalidArxmlFileHeader 0 0
            end))
        | _ => hard InvalidArxmlFileHeader 0 0
        end)) (fun _ => True)).
  { intros F LF. eapply tot2_bind; [apply tot2_skip_comments; [lia|exact EBt]|]. intros [stored token] ET. cbn [snd] in ET.
    destruct token; try (apply tot2_of_tot1, tot1_hard). destruct ET as [ET1 ET2].
    destruct (name_of_total tab_el name NEL) as (nm & ->).
    change (mbind (lift (Val nm)) ?k) with (k nm). cbv beta.
    destruct (root_ok T TOK) as (e & rt & EE & ER & RTOK).
    unfold autosar_name. rewrite EE. change (mbind (mbind (lift (Val e)) ?g) ?k) with (mbind (g e) k). cbv beta.
    change (mbind (ret (ed_name e)) ?k) with (k (ed_name e)). cbv beta.
    destruct nm as [n0|]; [|apply tot2_of_tot1, tot1_hard].
    destruct (n0 =? ed_name e)%N; [|apply tot2_of_tot1, tot1_hard].
    unfold root_type. rewrite ER. change (mbind (lift (Val rt)) ?k) with (k rt). cbv beta.
    eapply tot2_bind1; [apply tot1_parse_attribute_text; [exact RTOK|exact ET2]|]. intros attributes _.
    eapply tot2_bind1; [apply tot1_parse_file_header|]. intros _ _.
    eapply tot2_bind; [eapply tot2_weaken; [|apply tot2_parse_element; exact RTOK]; lia|]. intros root _.
    eapply tot2_bind; [apply tot2_verify_end_of_input|]. intros _ _. apply tot2_of_tot1, tot1_ret; exact I. }
  destruct tok; cbn [pred]; apply SK; try apply Nat.le_pred_l; apply Nat.le_refl.
Qed.

(* ---------- the whole load ---------- *)
Hypothesis BOK : bytes_ok bs = true.

Lemma init_pinv v401 an : pinv (init_pstate bs v401 an) /\ (pnu (init_pstate bs v401 an) < S (List.length bs))%nat.
Proof.
  unfold pinv, pnu, init_pstate; cbn [p_lex p_line p_warnings].
  assert (FB : Forall isb bs) by (apply bytes_ok_isb; exact BOK).
  split; [split; [apply lexer_new_inv|split; [|split; [|constructor]]]|].
  - split; [|exact I]. destruct (lexer_new_rest bs) as [-> | ->]; [exact FB|apply Forall_skipn, FB].
  - unfold line_ok. lia.
  - unfold nu. change (l_deferred (lexer_new bs)) with (@None (list N)).
    destruct (lexer_new_rest bs) as [-> | ->]; [lia|rewrite skipn_length; lia].
Qed.

Theorem load_total :
  match load strict T tab_el tab_at tab_en check_fn float_parse bs with
  | Val (Ret t st) => Forall err_line_ok (p_warnings st)
  | Val (Raise e st) => err_line_ok e /\ Forall err_line_ok (p_warnings st)
  | Pan _ => False
  | Fuel => False
  end.
Proof.
  unfold load. destruct ver_401 as (v401 & ->). destruct (root_ok T TOK) as (e & rt & -> & _ & _).
  destruct (init_pinv v401 (ed_name e)) as [Hi Hn].
  pose proof (tot2_parse_arxml _ Hi Hn) as H.
  destruct (parse_arxml _ _ _ _ _ _ _ _ _) as [[t st|er st]| |]; try exact H.
  - destruct H as (H1 & _). apply H1.
  - destruct H as (H1 & H2). split; [exact H2|apply H1].
Qed.

(* ---------- check_arxml_header ---------- *)
Theorem check_total : exists b, check_arxml_header strict T tab_el tab_at tab_en check_fn float_parse bs = Val b.
Proof.
  unfold check_arxml_header. destruct ver_401 as (v401 & ->). destruct (root_ok T TOK) as (e & rt & EE & ER & RTOK).
  rewrite EE. destruct (init_pinv v401 (ed_name e)) as [Hi Hn].
  set (n := List.length bs) in *.
  match goal with |- context [match ?m (init_pstate bs v401 (ed_name e)) with _ => _ end] => set (m0 := m) end.
  assert (TOT : tot2 (S n) m0 (fun _ => True)).
  { unfold m0. apply tot2_pnext_bind. intros ev EB.
    destruct ev; try (apply tot2_of_tot1, tot1_ret; exact I). cbn [pred].
    apply tot2_pnext_bind. intros tok EBt.
    assert (SK : forall F, (F <= n)%nat -> tot2 F (mbind (skip_comments (S n) None tok)
       (fun x => let '(_, token) := x in
          match token with
          | EvBegin elemname attributes_text =>
              mbind (lift (name_of tab_el elemname)) (fun nm =>
              match nm with
              | Some n0 =>
                  if (n0 =? ed_name e)%N
                  then mbind (root_type T) (fun rt =>
                       mbind (parse_attribute_text strict T tab_at tab_en check_fn float_parse rt attributes_text) (fun attributes =>
                       mbind (parse_file_header strict tab_at attributes) (fun _ => ret true)))
                  else ret false
              | None => ret false
              end)
          | _ => ret false
          end)) (fun _ => True)).
    { intros F LF. eapply tot2_bind; [apply tot2_skip_comments; [lia|exact EBt]|]. intros [stored token] ET. cbn [snd] in ET.
      destruct token; try (apply tot2_of_tot1, tot1_ret; exact I). destruct ET as [ET1 ET2].
      destruct (name_of_total tab_el name NEL) as (nm & ->).
      change (mbind (lift (Val nm)) ?k) with (k nm). cbv beta.
      destruct nm as [n0|]; [|apply tot2_of_tot1, tot1_ret; exact I].
      destruct (n0 =? ed_name e)%N; [|apply tot2_of_tot1, tot1_ret; exact I].
      unfold root_type. rewrite ER. change (mbind (lift (Val rt)) ?k) with (k rt). cbv beta.
      eapply tot2_bind1; [apply tot1_parse_attribute_text; [exact RTOK|exact ET2]|]. intros attributes _.
      eapply tot2_bind1; [apply tot1_parse_file_header|]. intros _ _. apply tot2_of_tot1, tot1_ret; exact I. }
    destruct tok; cbn [pred]; apply SK; try apply Nat.le_pred_l; apply Nat.le_refl. }
  specialize (TOT _ Hi Hn). destruct (m0 (init_pstate bs v401 (ed_name e))) as [[b st|er st]| |]; [eauto|eauto|destruct TOT|destruct TOT].
Qed.

End PP.


(* ---------- statements for Properties/C02.v ---------- *)
Definition loader_hyps (T : tables) (tab_el tab_at tab_en : nametab) (check_fn : N -> list N -> res bool) : Prop :=
  tables_ok T = true /\ nametab_ok tab_el = true /\ nametab_ok tab_at = true /\ nametab_ok tab_en = true /\
  attr_names_ok tab_at = true /\
  (forall fn maxlen i s, T_cdata T i = Some (CPattern fn maxlen) -> bytes_ok s = true -> exists b, check_fn fn s = Val b).

Theorem load_total_closed strict T tab_el tab_at tab_en check_fn float_parse bs :
  loader_hyps T tab_el tab_at tab_en check_fn -> bytes_ok bs = true ->
  exists r, load strict T tab_el tab_at tab_en check_fn float_parse bs = Val r.
Proof.
  intros (H1 & H2 & H3 & H4 & H5 & H6) HB.
  pose proof (load_total strict T tab_el tab_at tab_en check_fn float_parse bs H1 H2 H3 H4 H5 H6 HB) as H.
  destruct (load _ _ _ _ _ _ _ _) as [r| |]; [eauto|destruct H|destruct H].
Qed.

Theorem load_line_bounds strict T tab_el tab_at tab_en check_fn float_parse bs :
  loader_hyps T tab_el tab_at tab_en check_fn -> bytes_ok bs = true ->
  forall r, load strict T tab_el tab_at tab_en check_fn float_parse bs = Val r ->
  let in_range := fun e => match e with
                           | ErrLex line _ => (1 <= line <= 1 + count_lines bs)%N
                           | ErrParse line _ _ _ => (1 <= line <= 1 + count_lines bs)%N
                           end in
  match r with
  | Ret _ st => Forall in_range (p_warnings st)
  | Raise e st => in_range e /\ Forall in_range (p_warnings st)
  end.
Proof.
  intros (H1 & H2 & H3 & H4 & H5 & H6) HB r E.
  pose proof (load_total strict T tab_el tab_at tab_en check_fn float_parse bs H1 H2 H3 H4 H5 H6 HB) as H.
  rewrite E in H. exact H.
Qed.

Theorem check_total_closed strict T tab_el tab_at tab_en check_fn float_parse bs :
  loader_hyps T tab_el tab_at tab_en check_fn -> bytes_ok bs = true ->
  exists b, check_arxml_header strict T tab_el tab_at tab_en check_fn float_parse bs = Val b.
Proof. intros (H1 & H2 & H3 & H4 & H5 & H6) HB. apply check_total; assumption. Qed.

(* ---------- trim_byte_string, the value ---------- *)
(* the value: what is left after dropping the blanks at both ends (the formulation the model used before the fix) *)
Lemma drop_ws_app_nonws x : is_ws x = false -> forall L R, drop_ws (L ++ x :: R) = drop_ws (L ++ [x]) ++ R.
Proof.
  intros Hx L R. induction L as [|y L IH]; cbn [app drop_ws].
  - rewrite Hx. reflexivity.
  - destruct (is_ws y); [exact IH|]. cbn [app]. rewrite <- app_assoc. reflexivity.
Qed.

Lemma drop_ws_all l : forallb is_ws l = true -> drop_ws l = [].
Proof. induction l as [|x l IH]; cbn [forallb drop_ws]; [reflexivity|]. destruct (is_ws x); [exact IH|discriminate]. Qed.

Lemma drop_ws_position l p : position (fun c => negb (is_ws c)) l = Some p -> drop_ws l = skipn p l.
Proof.
  revert p; induction l as [|x l IH]; intros p; cbn [position drop_ws]; [discriminate|].
  destruct (is_ws x); cbn [negb].
  - destruct (position (fun c => negb (is_ws c)) l) as [k|]; [|discriminate]. cbn [option_map]. intros [= <-].
    cbn [skipn]. apply IH. reflexivity.
  - intros [= <-]. reflexivity.
Qed.

Lemma rev_skipn_rev {A} n (l : list A) : (n <= List.length l)%nat ->
  rev (skipn n (rev l)) = firstn (List.length l - n) l.
Proof.
  intros L.
  assert (E : rev l = rev (skipn (List.length l - n) l) ++ rev (firstn (List.length l - n) l)).
  { rewrite <- rev_app_distr, firstn_skipn. reflexivity. }
  rewrite E, skipn_app, rev_length, skipn_length.
  replace (List.length l - (List.length l - n))%nat with n by lia. rewrite Nat.sub_diag. cbn [skipn].
  rewrite skipn_all2 by (rewrite rev_length, skipn_length; lia). cbn [app]. apply rev_involutive.
Qed.

Lemma trim_byte_string_value input : trim_byte_string input = Val (rev (drop_ws (rev (drop_ws input)))).
Proof.
  unfold trim_byte_string. destruct input as [|c input']; [reflexivity|]. set (input := c :: input').
  destruct (position (fun c => negb (is_ws c)) input) as [p|] eqn:P.
  - pose proof (trim_len_ge _ _ P) as L. destruct (trim_len input <? p)%nat eqn:C; [apply Nat.ltb_lt in C; lia|].
    f_equal. rewrite (drop_ws_position _ _ P).
    destruct (position_split _ _ P) as (x & Hx & SPLIT). apply negb_true_iff in Hx.
    pose proof (position_Some _ _ P) as (LT & _ & _).
    assert (SK : skipn p input = x :: skipn (S p) input).
    { rewrite SPLIT at 1. rewrite skipn_app, firstn_length. replace (Nat.min p (List.length input)) with p by lia.
      rewrite Nat.sub_diag. rewrite skipn_all2 by (rewrite firstn_length; lia). reflexivity. }
    (* trim_len input = p + length (drop_ws (rev (skipn p input))) *)
    assert (TL : trim_len input = (List.length (drop_ws (rev (skipn p input))) + p)%nat).
    { unfold trim_len. rewrite SPLIT at 1. rewrite rev_app_distr. cbn [rev]. rewrite <- app_assoc. cbn [app].
      rewrite (drop_ws_app_nonws x Hx). rewrite app_length, rev_length, firstn_length.
      replace (Nat.min p (List.length input)) with p by lia. rewrite SK. cbn [rev]. reflexivity. }
    rewrite TL. replace (List.length (drop_ws (rev (skipn p input))) + p - p)%nat with (List.length (drop_ws (rev (skipn p input)))) by lia.
    set (S0 := skipn p input).
    destruct (drop_ws_suffix (rev S0)) as (n & EN). rewrite EN.
    assert (LN : (n <= List.length S0)%nat).
    { destruct (le_lt_dec n (List.length S0)) as [A|B]; [exact A|].
      exfalso. assert (Z : drop_ws (rev S0) = []) by (rewrite EN; apply skipn_all2; rewrite rev_length; lia).
      unfold S0 in Z. rewrite SK in Z. cbn [rev] in Z.
      pose proof (drop_ws_app_len x Hx (rev (skipn (S p) input)) []) as Q. rewrite Z in Q. cbn in Q. lia. }
    rewrite skipn_length, rev_length. symmetry. apply rev_skipn_rev. exact LN.
  - rewrite Nat.ltb_irrefl. f_equal. rewrite Nat.sub_diag. cbn [firstn].
    assert (A : forallb is_ws input = true).
    { pose proof (position_None _ P) as Q. rewrite forallb_forall in Q |- *. intros y Hy. specialize (Q y Hy).
      rewrite negb_involutive in Q. exact Q. }
    rewrite (drop_ws_all _ A). reflexivity.
Qed.

