(* Xml/ParserCheck.v — C02_check_accepts: whenever `load` (either mode) returns a tree, `check_arxml_header` in lenient
   mode (what check_buffer uses) returns true.  For every table set, no hypothesis.
   The two functions run the same header computation, except that parse_arxml records the `standalone` flag first;
   `sa_ind` (proved once per combinator, then per function) says a program neither reads nor writes that field. *)
From AV Require Import Base.Bytes Base.Outcome Base.Utf8 Base.Radix Hash.HashModel Spec.SpecOps Spec.Versions
  Xml.Lexer Xml.Parser Xml.Funnel Xml.FunnelParser.
Open Scope list_scope.

Definition sa_map {A} (sa : option bool) (r : res (step A)) : res (step A) :=
  match r with
  | Val (Ret a st) => Val (Ret a (set_standalone st sa))
  | Val (Raise e st) => Val (Raise e (set_standalone st sa))
  | Pan s => Pan s
  | Fuel => Fuel
  end.

Definition sa_ind {A} (m : M A) : Prop := forall st sa, m (set_standalone st sa) = sa_map sa (m st).

Lemma sa_ind_ret {A} (a : A) : sa_ind (ret a).                Proof. intros st sa; reflexivity. Qed.
Lemma sa_ind_lift {A} (r : res A) : sa_ind (lift r).          Proof. intros st sa; destruct r; reflexivity. Qed.
Lemma sa_ind_mpanic {A} s : sa_ind (@mpanic A s).             Proof. intros st sa; reflexivity. Qed.
Lemma sa_ind_mfuel {A} : sa_ind (@mfuel A).                   Proof. intros st sa; reflexivity. Qed.
Lemma sa_ind_hard {A} k e i : sa_ind (@hard A k e i).         Proof. intros st sa; reflexivity. Qed.
Lemma sa_ind_optional_error s k e i : sa_ind (optional_error s k e i).
Proof. intros st sa; unfold optional_error; destruct s; reflexivity. Qed.
Lemma sa_ind_pnext : sa_ind pnext.
Proof.
  intros st sa. unfold pnext. cbn [p_lex set_standalone].
  destruct (next (p_lex st)) as [[line ev l'|line e]| |]; reflexivity.
Qed.
Lemma sa_ind_modify f : (forall st sa, f (set_standalone st sa) = set_standalone (f st) sa) -> sa_ind (modify f).
Proof. intros H st sa. unfold modify. rewrite H. reflexivity. Qed.

Lemma sa_ind_bind {A B} (m : M A) (f : A -> M B) : sa_ind m -> (forall a, sa_ind (f a)) -> sa_ind (mbind m f).
Proof.
  intros Hm Hf st sa. unfold mbind. rewrite Hm. destruct (m st) as [[a st1|e st1]| |]; cbn [sa_map]; try reflexivity.
  apply Hf.
Qed.

(* `get` may be used as long as the continuation does not look at the standalone field of what it got *)
Lemma sa_ind_get {B} (k : pstate -> M B) :
  (forall s0, sa_ind (k s0)) -> (forall s0 sa st, k (set_standalone s0 sa) st = k s0 st) -> sa_ind (mbind get k).
Proof. intros H1 H2 st sa. unfold mbind, get. rewrite H2. apply H1. Qed.

Create HintDb sa discriminated.
#[export] Hint Resolve sa_ind_ret sa_ind_lift sa_ind_mpanic sa_ind_mfuel sa_ind_hard sa_ind_optional_error sa_ind_pnext : sa.

Ltac sa_step :=
  lazymatch goal with
  | |- sa_ind (mbind get _) => apply sa_ind_get; [intros ?s0|intros; reflexivity]
  | |- sa_ind (mbind _ _) => apply sa_ind_bind; [|intros]
  | |- sa_ind (modify _) => apply sa_ind_modify; intros; reflexivity
  | |- sa_ind (match ?x with _ => _ end) => destruct x
  | |- _ => solve [auto with sa]
  end.
Ltac sa_tac := repeat sa_step.

Section Inst.
Variable strict : bool.
Variable T : tables.
Variable tab_el tab_at tab_en : nametab.
Variable check_fn : N -> list N -> res bool.
Variable float_parse : list N -> option N.

Lemma sa_check_version v k e i : sa_ind (check_version strict v k e i).
Proof. unfold check_version. sa_tac. Qed.
Hint Resolve sa_check_version : sa.

Lemma sa_unescape_loop fuel : forall rem acc, sa_ind (unescape_loop strict fuel rem acc).
Proof.
  induction fuel as [|f IH]; intros rem acc; cbn [unescape_loop]; [auto with sa|].
  assert (Inv : forall r a, sa_ind (mbind (optional_error strict InvalidXmlEntity 0 0) (fun _ => unescape_loop strict f r a))).
  { intros. sa_tac. }
  destruct (find_byte 38 rem) as [pos|]; [|auto with sa].
  repeat lazymatch goal with
  | |- sa_ind (if ?c then _ else _) => destruct c
  | |- sa_ind (match ?x with _ => _ end) => destruct x
  | |- sa_ind (unescape_loop strict f _ _) => apply IH
  | |- _ => apply Inv
  end.
Qed.

Lemma sa_unescape_string input : sa_ind (unescape_string strict input).
Proof. unfold unescape_string. destruct (find_byte 38 input); [apply sa_unescape_loop|auto with sa]. Qed.
Hint Resolve sa_unescape_string : sa.

Lemma sa_parse_character_data input spec : sa_ind (parse_character_data strict tab_en check_fn float_parse input spec).
Proof. unfold parse_character_data. sa_tac. Qed.
Hint Resolve sa_parse_character_data : sa.

Lemma sa_attr_loop fuel ty : forall rem attrs, sa_ind (attr_loop strict T tab_at tab_en check_fn float_parse fuel ty rem attrs).
Proof. induction fuel as [|f IH]; intros rem attrs; cbn [attr_loop]; [auto with sa|]. sa_tac. Qed.
Hint Resolve sa_attr_loop : sa.

Lemma sa_req_loop cur attrs l : sa_ind (req_loop strict cur attrs l).
Proof. induction l as [|[[[name c1] c2] required] l IH]; cbn [req_loop]; [auto with sa|]. sa_tac. Qed.
Hint Resolve sa_req_loop : sa.

Lemma sa_parse_attribute_text ty text : sa_ind (parse_attribute_text strict T tab_at tab_en check_fn float_parse ty text).
Proof. unfold parse_attribute_text. sa_tac. Qed.

Lemma sa_ver_or_panic o : sa_ind (ver_or_panic o).
Proof. unfold ver_or_panic. sa_tac. Qed.
Hint Resolve sa_ver_or_panic : sa.

Lemma sa_parse_file_version schema : sa_ind (parse_file_version strict schema).
Proof. unfold parse_file_version. sa_tac. Qed.
Hint Resolve sa_parse_file_version : sa.

Lemma sa_attr_id text : sa_ind (attr_id tab_at text).
Proof. unfold attr_id. sa_tac. Qed.
Hint Resolve sa_attr_id : sa.

Lemma sa_parse_file_header attrs : sa_ind (parse_file_header strict tab_at attrs).
Proof. unfold parse_file_header. sa_tac. Qed.

Lemma sa_skip_comments fuel : forall stored tok, sa_ind (skip_comments fuel stored tok).
Proof. induction fuel as [|f IH]; intros; cbn [skip_comments]; [auto with sa|]. sa_tac. Qed.

Lemma sa_root_type : sa_ind (root_type T).
Proof. unfold root_type. sa_tac. Qed.

(* inversion of a successful run *)
Lemma mbind_ret_inv {A B} (m : M A) (f : A -> M B) st b st' :
  mbind m f st = Val (Ret b st') -> exists a st1, m st = Val (Ret a st1) /\ f a st1 = Val (Ret b st').
Proof. unfold mbind. destruct (m st) as [[a st1|e st1]| |]; try discriminate. eauto. Qed.

Lemma sa_ind_ret_inv {A} (m : M A) st sa a st' : sa_ind m ->
  m (set_standalone st sa) = Val (Ret a st') -> exists st1, m st = Val (Ret a st1) /\ st' = set_standalone st1 sa.
Proof.
  intros H E. rewrite H in E. destruct (m st) as [[a1 st1|e st1]| |]; cbn [sa_map] in E; try discriminate.
  injection E as <- <-. eauto.
Qed.

Lemma lift_ret_inv {A} (r : res A) st a st' : lift r st = Val (Ret a st') -> r = Val a /\ st' = st.
Proof. unfold lift. destruct r; try discriminate. intros [= <- <-]. auto. Qed.

Theorem load_check_lenient_aux bs t st :
  load strict T tab_el tab_at tab_en check_fn float_parse bs = Val (Ret t st) ->
  check_arxml_header strict T tab_el tab_at tab_en check_fn float_parse bs = Val true.
Proof.
  unfold load, check_arxml_header.
  destruct (version_of_ident "Autosar_4_0_1") as [v401|]; [|destruct (elem T (autosar_element T)); discriminate].
  destruct (elem T (autosar_element T)) as [e|site|] eqn:EE; try discriminate.
  set (st0 := init_pstate bs v401 (ed_name e)). unfold parse_arxml. intros H.
  apply mbind_ret_inv in H as (ev & st1 & E1 & H).
  unfold mbind at 1. rewrite E1.
  destruct ev as [sa| | | | |]; try discriminate H.
  apply mbind_ret_inv in H as ([] & st1' & EM & H). injection EM as <-.
  apply mbind_ret_inv in H as (tok & st2' & E2 & H).
  apply (sa_ind_ret_inv _ _ _ _ _ sa_ind_pnext) in E2 as (st2 & E2 & ->).
  unfold mbind at 1. rewrite E2.
  apply mbind_ret_inv in H as ([stored token] & st3' & E3 & H).
  apply (sa_ind_ret_inv _ _ _ _ _ (sa_skip_comments _ _ _)) in E3 as (st3 & E3 & ->).
  unfold mbind at 1. rewrite E3.
  destruct token as [|elemname attrs_text| | | |]; try discriminate H.
  apply mbind_ret_inv in H as (nm & st4 & E4 & H). apply lift_ret_inv in E4 as [E4 ->].
  rewrite E4. change (mbind (lift (Val nm)) ?k) with (k nm). cbv beta.
  apply mbind_ret_inv in H as (an & st5 & E5 & H).
  unfold autosar_name in E5. rewrite EE in E5. injection E5 as <- <-.
  destruct nm as [n0|]; [|discriminate H].
  destruct (n0 =? ed_name e)%N; [|discriminate H].
  apply mbind_ret_inv in H as (rt & st6 & E6 & H).
  apply (sa_ind_ret_inv _ _ _ _ _ sa_root_type) in E6 as (st6' & E6 & ->).
  unfold mbind at 1. rewrite E6.
  apply mbind_ret_inv in H as (attributes & st7 & E7 & H).
  apply (sa_ind_ret_inv _ _ _ _ _ (sa_parse_attribute_text _ _)) in E7 as (st7' & E7 & ->).
  unfold mbind at 1. rewrite E7.
  apply mbind_ret_inv in H as ([] & st8 & E8 & H).
  apply (sa_ind_ret_inv _ _ _ _ _ (sa_parse_file_header _)) in E8 as (st8' & E8 & ->).
  unfold mbind at 1. rewrite E8. reflexivity.
Qed.

End Inst.

(* check_buffer runs the header check in lenient mode; a strict success is a lenient success (C08_agree) *)
Theorem load_check_accepts (s : bool) T tab_el tab_at tab_en check_fn float_parse bs t st :
  load s T tab_el tab_at tab_en check_fn float_parse bs = Val (Ret t st) ->
  check_arxml_header false T tab_el tab_at tab_en check_fn float_parse bs = Val true.
Proof.
  intros H. destruct s.
  - destruct (load_agree T tab_el tab_at tab_en check_fn float_parse bs) as (_ & _ & _ & A & _).
    apply A in H as [H _]. eapply load_check_lenient_aux. exact H.
  - eapply load_check_lenient_aux. exact H.
Qed.
