(* Xml/RoundTripCanonFinal.v — C01, first half, closed statements: the hypotheses of RoundTripCanon.v bundled as
   canon_hyps (boolean checkers on the tables + the std float law), the UTF-8 closure discharged (Utf8Closure.v). *)
From AV Require Import Base.Bytes Base.Outcome Base.Utf8 Hash.HashModel Hash.HashProofs Spec.SpecOps Spec.Versions
  Xml.Lexer Xml.Parser Xml.Serializer Xml.TablesOk Xml.Escape Xml.RoundTripValues Xml.RoundTripAttrs Xml.RoundTripElem
  Xml.RoundTripFile Xml.RoundTripCanonValues Xml.RoundTripCanon Xml.Utf8Closure.
Open Scope list_scope.
Open Scope N_scope.

Definition names_clean (t : nametab) : bool := forallb clean_name (nt_strtab t).

Lemma names_clean_spec t : names_clean t = true -> forall s i, from_bytes t s = Ok i -> clean_name s = true.
Proof.
  unfold names_clean. rewrite forallb_forall. intros H s i FB. apply H.
  apply from_bytes_only_members in FB. unfold to_str in FB. exact (nth_opt_In _ _ _ FB).
Qed.

(* std: a float that was parsed prints to plain text (no blank at an end, no markup byte, not empty, UTF-8) that parses
   back to the same bits *)
Definition float_law (float_fmt : N -> list N) (float_parse : list N -> option N) : Prop :=
  forall s b, float_parse s = Some b ->
    no_edge_ws (float_fmt b) /\ utf8_valid (float_fmt b) = true /\ float_parse (float_fmt b) = Some b /\
    float_fmt b <> [] /\ forallb markup_free (float_fmt b) = true.

Definition canon_hyps (T : tables) (tab_el tab_at tab_en : nametab) (float_fmt : N -> list N) (float_parse : list N -> option N) : Prop :=
  tables_ok T = true /\ cd_mode_ok T = true /\ names_clean tab_el = true /\ names_clean tab_at = true /\ names_clean tab_en = true /\
  float_law float_fmt float_parse.

Section Final.
Variable T : tables.
Variable tab_el tab_at tab_en : nametab.
Variable check_fn : N -> list N -> res bool.
Variable float_fmt : N -> list N.
Variable float_parse : list N -> option N.
Hypothesis HYP : canon_hyps T tab_el tab_at tab_en float_fmt float_parse.

Theorem loader_canonical (b : bool) bs t st :
  load b T tab_el tab_at tab_en check_fn float_parse bs = Val (Ret t st) -> p_warnings st = [] -> knownb T t = false ->
  forall s, RootCanon s T tab_el tab_at tab_en check_fn float_fmt float_parse (p_version st) t.
Proof.
  destruct HYP as (H1 & H2 & H3 & H4 & H5 & H6).
  exact (load_canon_both T tab_el tab_at tab_en check_fn float_fmt float_parse H1 H2 (names_clean_spec _ H3) (names_clean_spec _ H4)
           (names_clean_spec _ H5) H6 utf8_unescape_escape b bs t st).
Qed.

Theorem reload_identity_closed (b : bool) bs t st :
  load b T tab_el tab_at tab_en check_fn float_parse bs = Val (Ret t st) -> p_warnings st = [] -> knownb T t = false ->
  Serializer.set_version T tab_at check_fn (p_version st) t = Val t ->
  forall sa, exists bs',
    serialize_file T tab_el tab_at tab_en check_fn float_fmt (p_version st) sa t = Val bs' /\
    exists st', load b T tab_el tab_at tab_en check_fn float_parse bs' = Val (Ret t st') /\
      p_warnings st' = [] /\ p_version st' = p_version st /\ p_standalone st' = sa /\
      serialize_file T tab_el tab_at tab_en check_fn float_fmt (p_version st') sa t = Val bs'.
Proof.
  destruct HYP as (H1 & H2 & H3 & H4 & H5 & H6).
  exact (reload_identity T tab_el tab_at tab_en check_fn float_fmt float_parse H1 H2 (names_clean_spec _ H3) (names_clean_spec _ H4)
           (names_clean_spec _ H5) H6 utf8_unescape_escape b bs t st).
Qed.

End Final.
