(* Xml/RoundTripFile.v — C01, files: load (serialize_file ver sa root) = root, the file version and the standalone flag,
   with no error and no warning, in both modes, for a canonical root (RootCanon).  No hypothesis on the tables beyond what
   RootCanon says about the tree; the fuel |bs|+1 of `load` is shown to suffice (canon_size). *)
From Coq Require Import Arith.
From AV Require Import Base.Bytes Base.Outcome Base.Utf8 Base.Radix Hash.HashModel Spec.SpecOps Spec.Versions
  Xml.Lexer Xml.Parser Xml.Serializer Xml.LexerProofs Xml.ParserProofs Xml.ParserDepth Xml.Escape Xml.RoundTripValues
  Xml.RoundTripAttrs Xml.RoundTripLexer Xml.StrictValidDef Xml.RoundTripElem.
Open Scope list_scope.
Open Scope N_scope.

(* the xml header line *)
Lemma lex_header sa tail f line :
  lex_next (S f) (mk (xml_header sa ++ tail) line None) = Val (LOk (line + 0) (EvHeader sa) (mk tail (line + 0) None)).
Proof. destruct sa as [[|]|]; vm_compute; reflexivity. Qed.

Lemma lexer_new_header sa tail : lexer_new (xml_header sa ++ tail) = mk (xml_header sa ++ tail) 1 None.
Proof. destruct sa as [[|]|]; reflexivity. Qed.

Ltac norm_in H := repeat (first [rewrite <- app_assoc in H | progress (cbn [app] in H)]).
Ltac norm_goal := repeat (first [rewrite <- app_assoc | progress (cbn [app])]).

Section File.
Variable strict : bool.
Variable T : tables.
Variable tab_el tab_at tab_en : nametab.
Variable check_fn : N -> list N -> res bool.
Variable float_fmt : N -> list N.
Variable float_parse : list N -> option N.
Variable ver : N.

Notation SER := (ser_elem T tab_el tab_at tab_en float_fmt).
Notation SAT := (ser_attrs tab_at tab_en float_fmt).
Notation PL := (pe_loop strict T tab_el tab_at tab_en check_fn float_parse).
Notation PE := (parse_element strict T tab_el tab_at tab_en check_fn float_parse).
Notation CANON := (Canon T tab_el tab_at tab_en check_fn float_fmt float_parse ver).
Notation CHILDREN := (ChildrenOk T tab_el tab_at tab_en check_fn float_fmt float_parse ver).

(* a canonical root: as Canon, but the attributes of the root are read while the file version is still the placeholder
   Autosar_4_0_1, and they must be the header attributes from which parse_file_header derives `ver` silently *)
Inductive RootCanon : etree -> Prop :=
| root_canon e v401 nm attrs content cm mode named :
    elem T (autosar_element T) = Val e -> version_of_ident "Autosar_4_0_1" = Some v401 ->
    CommentsOk cm -> ElemNameOk tab_el (ed_name e) nm ->
    AttrsOk T tab_at tab_en check_fn float_fmt float_parse v401 (autosar_element T, ed_type e) attrs ->
    (forall st, parse_file_header strict tab_at attrs st = Val (Ret tt (Parser.set_version st ver))) ->
    content_mode T (autosar_element T, ed_type e) = Val mode -> ShapeOk mode content ->
    CHILDREN (autosar_element T, ed_type e) mode [] [] content ->
    is_named_in_version T (autosar_element T, ed_type e) ver = Val named ->
    (named = true -> head_short T content = true) ->
    RootCanon (ENode (ed_name e) (autosar_element T, ed_type e) attrs content cm).

Lemma verify_end_ok st : at_rest st [] -> exists st', verify_end_of_input strict st = Val (Ret tt st') /\ same_core st st'.
Proof.
  intros [R D]. unfold verify_end_of_input, next, lex_fuel. destruct (p_lex st) as [rest line dd] eqn:EL. cbn [l_rest l_deferred] in *. subst.
  cbn. eexists. split; [reflexivity|]. unfold same_core. cbn. rewrite EL. auto.
Qed.

Lemma mbind2_ret_step {A B C} (m : M A) (g : A -> M B) (K : B -> M C) st a s1 :
  m st = Val (Ret a s1) -> mbind (mbind m g) K st = mbind (g a) K s1.
Proof. intros E. unfold mbind. rewrite E. reflexivity. Qed.

(* the tokens between the xml header and the content of the root: an optional comment, then the root's begin tag *)
Lemma root_tokens n cm nm ats X tl d st2 (K : option (list N) * event -> M etree) :
  CommentsOk cm -> (1 <= n)%nat ->
  at_rest st2 ((comment_part cm 0 false ++ newline_indent 0) ++ 60 :: X) ->
  (forall f line', exists l1 l2, lex_next (S f) (mk (60 :: X) line' None) = Val (LOk l1 (EvBegin nm (skipn 1 ats)) (mk tl l2 d))) ->
  exists st3, mbind pnext (fun tok => mbind (skip_comments (S n) None tok) K) st2 = K (cm, EvBegin nm (skipn 1 ats)) st3 /\
    l_rest (p_lex st3) = tl /\ l_deferred (p_lex st3) = d /\
    p_version st3 = p_version st2 /\ p_warnings st3 = p_warnings st2 /\ p_standalone st3 = p_standalone st2.
Proof.
  intros CMO N1 AR HLEX. destruct cm as [c|]; cbn [comment_part app] in AR.
  - destruct CMO as [CO UV].
    destruct (pnext_of_lex st2 (newline_indent 0) (33 :: 45 :: 45 :: c ++ [45; 45] ++ 62 :: newline_indent 0 ++ 60 :: X) (EvComment c)
                (newline_indent 0 ++ 60 :: X) None) as (sa1 & E1 & R1 & D1 & V1 & W1 & S1).
    { unfold at_rest in *. destruct AR as [A1 A2]. split; [|exact A2]. rewrite A1. norm_goal. reflexivity. }
    { reflexivity. }
    { intros f line'. do 2 eexists.
      pose proof (lex_comment f c (newline_indent 0 ++ 60 :: X) line' CO) as G. unfold comment_text in G. cbn [app] in G. rewrite <- !app_assoc in G. cbn [app] in G.
      exact G. }
    destruct (pnext_of_lex sa1 (newline_indent 0) X (EvBegin nm (skipn 1 ats)) tl d (conj R1 D1) eq_refl HLEX) as (st3 & E3 & R3 & D3 & V3 & W3 & S3).
    exists st3. rewrite (mbind_ret_step _ _ _ _ _ E1). cbn [skip_comments]. rewrite (mbind2_ret_step _ _ _ _ _ _ E3).
    destruct n as [|n']; [lia|]. cbn [skip_comments]. rewrite (utf8_lossy_valid c UV).
    split; [reflexivity|]. repeat split; congruence.
  - destruct (pnext_of_lex st2 (newline_indent 0) X (EvBegin nm (skipn 1 ats)) tl d AR eq_refl HLEX) as (st3 & E3 & R3 & D3 & V3 & W3 & S3).
    exists st3. rewrite (mbind_ret_step _ _ _ _ _ E3). cbn [skip_comments]. split; [reflexivity|]. auto.
Qed.

Theorem file_roundtrip root sa body : RootCanon root -> SER root 0 false = Val body ->
  exists st, load strict T tab_el tab_at tab_en check_fn float_parse (xml_header sa ++ body) = Val (Ret root st) /\
             p_warnings st = [] /\ p_version st = ver /\ p_standalone st = sa.
Proof.
  intros RC SB. destruct RC as [e v401 nm attrs content cm mode named EE V401 CMO EN AO HDR CM SH CK NV NAMED].
  set (rt := (autosar_element T, ed_type e)) in *. set (an := ed_name e) in *.
  pose proof EN as (TS & CN & FB).
  destruct (clean_name_props nm CN) as (NE & FN).
  assert (FWS : Forall (fun x => is_ws x = false) nm) by (eapply Forall_impl; [|exact FN]; cbn; tauto).
  assert (F62 : Forall (fun x => x <> 62) nm) by (eapply Forall_impl; [|exact FN]; cbn; tauto).
  destruct (name_head check_fn float_fmt float_parse ver nm CN) as (c1 & tl & ENM & H47 & H63 & H33).
  destruct AO as [AF AREQ]. pose proof (conj AF AREQ) as AO.
  destruct (ser_attrs_total T tab_at tab_en check_fn float_fmt float_parse v401 rt attrs AF) as (ats & SA & ASH & _).
  destruct (ser_attrs_bytes T tab_at tab_en check_fn float_fmt float_parse v401 rt attrs ats AF SA) as (A62 & ALAST).
  assert (INNER : Forall (fun x => x <> 62) (nm ++ ats)) by (apply Forall_app; auto).
  assert (SPLIT : split_tag (nm ++ ats) = (nm, skipn 1 ats)) by (apply split_tag_name; assumption).
  assert (ENM' : nm ++ ats = c1 :: (tl ++ ats)) by (rewrite ENM; reflexivity).
  set (bs := xml_header sa ++ body). set (n := List.length bs).
  assert (LB : (List.length body <= n)%nat) by (unfold n, bs; rewrite app_length; lia).
  assert (N1 : (1 <= n)%nat) by (unfold n, bs; rewrite app_length; destruct sa as [[|]|]; cbn; lia).
  unfold load. rewrite V401, EE. unfold parse_arxml. fold n.
  set (st0 := init_pstate bs v401 an).
  (* 1. the xml header *)
  assert (E0 : exists st1, pnext st0 = Val (Ret (EvHeader sa) st1) /\ at_rest st1 body /\ p_version st1 = v401 /\ p_warnings st1 = []).
  { unfold pnext, next, lex_fuel, st0, init_pstate. cbn [p_lex]. unfold bs. rewrite lexer_new_header. cbn [l_rest mk].
    pose proof (lex_header sa body (List.length (xml_header sa ++ body)) 1) as G. rewrite G.
    eexists. split; [reflexivity|]. unfold at_rest. cbn. auto. }
  destruct E0 as (st1 & E1 & AR1 & PV1 & PW1).
  rewrite (mbind_ret_step _ _ _ _ _ E1).
  rewrite (mbind_ret_step _ _ st1 tt (set_standalone st1 sa) eq_refl).
  set (st2 := set_standalone st1 sa).
  assert (AR2 : at_rest st2 body) by exact AR1.
  (* common tail of both cases: from the begin event of the root to the end of the file *)
  assert (FINISH : forall st3 content_bytes d,
            l_rest (p_lex st3) = content_bytes -> l_deferred (p_lex st3) = d ->
            p_version st3 = v401 -> p_warnings st3 = [] -> p_standalone st3 = sa ->
            (forall st5, l_rest (p_lex st5) = content_bytes -> l_deferred (p_lex st5) = d -> p_version st5 = ver ->
               exists st6, PE (S n) (S n) an rt attrs cm [] [] st5 = Val (Ret (ENode an rt attrs content cm) st6) /\ adv st5 st6 []) ->
            exists st,
              (mbind (lift (name_of tab_el nm)) (fun nm0 =>
               mbind (autosar_name T) (fun an0 =>
               match nm0 with
               | Some n0 =>
                 if (n0 =? an0)%N
                 then mbind (root_type T) (fun rt0 =>
                      mbind (parse_attribute_text strict T tab_at tab_en check_fn float_parse rt0 (skipn 1 ats)) (fun attributes =>
                      mbind (parse_file_header strict tab_at attributes) (fun _ =>
                      mbind (PE (S n) (S n) an0 rt0 attributes cm [] []) (fun root0 =>
                      mbind (verify_end_of_input strict) (fun _ => ret root0)))))
                 else hard InvalidArxmlFileHeader 0 0
               | None => hard InvalidArxmlFileHeader 0 0
               end))) st3 = Val (Ret (ENode an rt attrs content cm) st) /\
              p_warnings st = [] /\ p_version st = ver /\ p_standalone st = sa).
  { intros st3 cb d R3 D3 V3 W3 S3 HPE.
    unfold name_of at 1. rewrite FB. change (mbind (lift (Val (Some an))) ?k0 st3) with (k0 (Some an) st3). cbv beta.
    unfold autosar_name. rewrite EE. change (mbind (mbind (lift (Val e)) ?g) ?k0 st3) with (k0 (ed_name e) st3). cbv beta iota.
    fold an. rewrite N.eqb_refl.
    unfold root_type, et_new. rewrite EE. cbn [bind]. fold rt. change (mbind (lift (Val rt)) ?k0 st3) with (k0 rt st3). cbv beta.
    destruct (attrs_roundtrip_lexed strict T tab_at tab_en check_fn float_fmt float_parse v401 rt attrs st3 ats AO V3 SA) as (c & PA).
    rewrite (mbind_ret_step _ _ _ _ _ PA). rewrite (mbind_ret_step _ _ _ _ _ (HDR _)).
    set (st5 := Parser.set_version (set_compat st3 c) ver).
    destruct (HPE st5 R3 D3 eq_refl) as (st6 & E6 & (AR6 & V6 & W6 & S6)).
    rewrite (mbind_ret_step _ _ _ _ _ E6).
    destruct (verify_end_ok st6 AR6) as (st7 & E7 & (C7a & C7b & C7c & C7d)).
    rewrite (mbind_ret_step _ _ _ _ _ E7).
    exists st7. split; [reflexivity|]. split; [rewrite C7c, W6; exact W3|]. split; [rewrite C7b, V6; reflexivity|].
    rewrite C7d, S6. exact S3. }
  destruct (ser_shape T tab_el tab_at tab_en float_fmt an rt attrs content cm nm mode ats 0%nat false body TS SA CM SH SB)
    as [[EC EB]|(NEC & items & wsc & i' & il' & WSC & IS & TX & EB)]; cbv zeta in EB.
  - (* <AUTOSAR .../> *)
    subst content body.
    assert (AR2' : at_rest st2 ((comment_part cm 0 false ++ newline_indent 0) ++ 60 :: (nm ++ ats) ++ 47 :: 62 :: [])).
    { norm_in AR2. norm_goal. exact AR2. }
    match goal with |- context [mbind pnext (fun tok => mbind (skip_comments (S n) None tok) ?K0) st2] =>
      destruct (root_tokens n cm nm ats ((nm ++ ats) ++ 47 :: 62 :: []) [] (Some nm) st2 K0 CMO N1 AR2') as (st3 & E3 & R3 & D3 & V3 & W3 & S3)
    end.
    { intros f0 line'. do 2 eexists.
      rewrite (lex_empty_tag f0 (nm ++ ats) [] line' c1 (tl ++ ats) ENM' H47 H63 H33 INNER). rewrite SPLIT. reflexivity. }
    rewrite E3. cbv beta iota.
    apply (FINISH st3 [] (Some nm) R3 D3 ltac:(rewrite V3; exact PV1) ltac:(rewrite W3; exact PW1) ltac:(rewrite S3; reflexivity)).
    intros st5 R5 D5 V5. rewrite PE_S.
    destruct (deferred_end_step strict T tab_el tab_at tab_en check_fn float_parse ver (PE n (S n)) n an rt attrs cm [] [] [] false None [] st5 nm named
                EN NV ltac:(intros Hn; specialize (NAMED Hn); discriminate NAMED) D5 V5) as (st6 & E6 & A6).
    exists st6. split; [exact E6|]. rewrite R5 in A6. exact A6.
  - (* <AUTOSAR ...> content </AUTOSAR> *)
    subst body.
    assert (AR2' : at_rest st2 ((comment_part cm 0 false ++ newline_indent 0) ++ 60 :: (nm ++ ats) ++ 62 :: items ++ closing wsc nm ++ [])).
    { norm_in AR2. norm_goal. rewrite app_nil_r. exact AR2. }
    assert (LASTI : last (nm ++ ats) 0 <> 47).
    { destruct ats as [|a0 ats'].
      - rewrite app_nil_r. destruct (exists_last NE) as (l0 & x & EL). rewrite EL, last_last. rewrite EL in FN.
        apply Forall_app in FN as [_ FX]. inversion FX as [|? ? HX _]; subst. tauto.
      - rewrite last_app_ne by discriminate. rewrite ALAST by discriminate. discriminate. }
    match goal with |- context [mbind pnext (fun tok => mbind (skip_comments (S n) None tok) ?K0) st2] =>
      destruct (root_tokens n cm nm ats ((nm ++ ats) ++ 62 :: items ++ closing wsc nm ++ []) (items ++ closing wsc nm ++ []) None st2 K0 CMO N1 AR2')
        as (st3 & E3 & R3 & D3 & V3 & W3 & S3)
    end.
    { intros f0 line'. do 2 eexists.
      rewrite (lex_begin_tag f0 (nm ++ ats) (items ++ closing wsc nm ++ []) line' c1 (tl ++ ats) ENM' H47 H63 H33 INNER LASTI).
      rewrite SPLIT. reflexivity. }
    rewrite E3. cbv beta iota.
    apply (FINISH st3 (items ++ closing wsc nm ++ []) None R3 D3 ltac:(rewrite V3; exact PV1) ltac:(rewrite W3; exact PW1) ltac:(rewrite S3; reflexivity)).
    intros st5 R5 D5 V5.
    (* sizes: the fuel |bs|+1 is enough *)
    destruct (items_size T tab_el tab_at tab_en check_fn float_fmt float_parse ver i' il' rt mode content [] [] items) as (SZ1 & SZ2 & SZ3);
      [intros c0 b0 _ CA0 SB0; apply (canon_size_all T tab_el tab_at tab_en check_fn float_fmt float_parse ver c0 CA0 i' il' b0 SB0)|exact CK|exact IS|].
    assert (LI : (List.length items <= n)%nat).
    { unfold n, bs, closing. repeat (rewrite app_length || cbn [List.length]). lia. }
    rewrite PE_S.
    destruct (children_loop strict T tab_el tab_at tab_en check_fn float_fmt float_parse ver n (S n) (maxd content)
                (elem_step strict T tab_el tab_at tab_en check_fn float_fmt float_parse ver (maxd content) n (S n) ltac:(lia))
                an rt attrs cm nm mode named [] i' il' wsc EN CM NV WSC content [] [] false [] st5 (S n) items [] CK) as (st6 & E6 & A6).
    { intros c0 HIn. split; [apply maxd_in; exact HIn|pose proof (maxw_in _ _ HIn); lia]. }
    { exact IS. }
    { exact TX. }
    { unfold at_rest. rewrite R5, D5. auto. }
    { exact V5. }
    { lia. }
    { reflexivity. }
    { exact NAMED. }
    exists st6. cbn [app] in E6. split; [exact E6|exact A6].
Qed.

Lemma root_ser_total root : RootCanon root -> exists body, SER root 0 false = Val body.
Proof.
  intros RC. destruct RC as [e v401 nm attrs content cm mode named EE V401 CMO (TS & _) [AF _] HDR CM SH CK NV NAMED].
  destruct (ser_attrs_total T tab_at tab_en check_fn float_fmt float_parse v401 _ attrs AF) as (ats & SA & _ & _).
  destruct (children_items T tab_el tab_at tab_en check_fn float_fmt float_parse ver _ mode content [] [] CK) as [KC KT].
  exact (node_ser_total T tab_el tab_at tab_en check_fn float_fmt float_parse ver _ _ attrs content cm nm mode ats 0%nat false TS SA CM KC KT).
Qed.

(* through ArxmlFile::serialize: it first rewrites the root's xsi:schemaLocation for the file version (set_version);
   for a root that already carries the canonical spelling that is the identity *)
Theorem serialize_load_roundtrip root sa bs : RootCanon root ->
  Serializer.set_version T tab_at check_fn ver root = Val root ->
  serialize_file T tab_el tab_at tab_en check_fn float_fmt ver sa root = Val bs ->
  exists st, load strict T tab_el tab_at tab_en check_fn float_parse bs = Val (Ret root st) /\
             p_warnings st = [] /\ p_version st = ver /\ p_standalone st = sa.
Proof.
  intros RC SV SF. unfold serialize_file in SF. rewrite SV in SF. cbn [bind] in SF.
  destruct (SER root 0 false) as [body| |] eqn:SB; try discriminate SF. cbn [bind] in SF. injection SF as <-.
  apply file_roundtrip; assumption.
Qed.

(* and serializing what was loaded gives the same bytes again (same tree, same version, same standalone flag) *)
Corollary serialize_fixpoint root sa bs st : RootCanon root ->
  Serializer.set_version T tab_at check_fn ver root = Val root ->
  serialize_file T tab_el tab_at tab_en check_fn float_fmt ver sa root = Val bs ->
  load strict T tab_el tab_at tab_en check_fn float_parse bs = Val (Ret root st) ->
  serialize_file T tab_el tab_at tab_en check_fn float_fmt (p_version st) sa root = Val bs.
Proof.
  intros RC SV SF L. destruct (serialize_load_roundtrip root sa bs RC SV SF) as (st' & L' & _ & V & _). rewrite L in L'.
  injection L' as <-. rewrite V. exact SF.
Qed.

End File.

(* the full property (not proved; the proved part is C01_roundtrip_partial, the missing parts are named in Properties/C01.v):
   every tree the loader returns is canonical for its file version (so that save + load is the identity on everything
   that loads), and save + load is the identity on canonical trees *)
Definition C01_full : Prop :=
  forall (T : tables) (tab_el tab_at tab_en : nametab) (check_fn : N -> list N -> res bool)
         (float_fmt : N -> list N) (float_parse : list N -> option N) (strict : bool),
    (forall bs t st, load strict T tab_el tab_at tab_en check_fn float_parse bs = Val (Ret t st) ->
       RootCanon strict T tab_el tab_at tab_en check_fn float_fmt float_parse (p_version st) t) /\
    (forall ver root sa bs, RootCanon strict T tab_el tab_at tab_en check_fn float_fmt float_parse ver root ->
       Serializer.set_version T tab_at check_fn ver root = Val root ->
       serialize_file T tab_el tab_at tab_en check_fn float_fmt ver sa root = Val bs ->
       exists st, load strict T tab_el tab_at tab_en check_fn float_parse bs = Val (Ret root st) /\
                  p_warnings st = [] /\ p_version st = ver /\ p_standalone st = sa).
