(* Xml/RoundTripFile.v — C01, files: load (serialize_file ver sa root) = root, the file version and the standalone flag,
   with no error and no warning, in both modes, for a canonical root (RootCanon).  No hypothesis on the tables beyond what
   RootCanon says about the tree; the fuel |bs|+1 of `load` is shown to suffice (canon_size). *)
From Coq Require Import Arith.
From AV Require Import Base.Bytes Base.Outcome Base.Utf8 Base.Radix Hash.HashModel Spec.SpecOps Spec.Versions
  Xml.Lexer Xml.Parser Xml.Serializer Xml.LexerProofs Xml.ParserProofs Xml.ParserDepth Xml.Escape Xml.RoundTripValues
  Xml.RoundTripAttrs Xml.RoundTripLexer Xml.StrictValidDef Xml.RoundTripElem.
Open Scope list_scope.
Open Scope N_scope.

(* the xml header line *)
Lemma lex_header sa tail f line :
  lex_next (S f) (mk (xml_header sa ++ tail) line None) = Val (LOk (line + 0) (EvHeader sa) (mk tail (line + 0) None)).
Proof. destruct sa as [[|]|]; vm_compute; reflexivity. Qed.

Lemma lexer_new_header sa tail : lexer_new (xml_header sa ++ tail) = mk (xml_header sa ++ tail) 1 None.
Proof. destruct sa as [[|]|]; reflexivity. Qed.
