(* Xml/TablesOkReal.v — [F] the well-formedness checker of Xml/TablesOk.v evaluated on the regenerated tables
   (Spec/SpecReal.v over Gen/SpecTables.v) and on the three regenerated name tables. *)
From AV Require Import Base.Bytes Base.Outcome Hash.HashModel Spec.SpecOps Spec.SpecReal Xml.TablesOk.
From AV Require Import Hash.HashRealElement Hash.HashRealAttr Hash.HashRealEnum.

Lemma tables_ok_real : tables_ok RT = true.
Proof. vm_compute. reflexivity. Qed.
