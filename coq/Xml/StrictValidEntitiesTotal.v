(* Xml/StrictValidEntitiesTotal.v — C08: every malformed entity in a String value is reported, wherever it stands.
   unescape_string never panics and never runs out of fuel; in strict mode it returns the decoded text with the state
   untouched or raises InvalidXmlEntity at the untouched state; in lenient mode it always returns, and the warnings it adds
   are InvalidXmlEntity warnings only.  With the grammar Unesc (Xml/StrictValidEntities.v): a text of the grammar is decoded
   silently in both modes; a text outside the grammar - a '&' that begins no well-formed reference, anywhere in the
   text - is an InvalidXmlEntity error in strict mode and at least one InvalidXmlEntity warning in lenient mode. *)
From Coq Require Import Arith Lia.
From AV Require Import Base.Bytes Base.Outcome Base.Utf8 Base.Radix Hash.HashModel Spec.SpecOps
  Xml.Lexer Xml.Parser Xml.LexerProofs Xml.Funnel Xml.FunnelParser Xml.ParserCheck Xml.ParserDepth Xml.StrictValid Xml.StrictValidEntities.
Open Scope list_scope.
Open Scope N_scope.

Definition is_ixe (e : perror) : Prop := match e with ErrParse _ InvalidXmlEntity _ _ => True | _ => False end.

(* strict: decoded at the untouched state, or InvalidXmlEntity at the untouched state *)
Definition shapeS (m : M (list N)) : Prop :=
  forall st, (exists u, m st = Val (Ret u st)) \/ m st = Val (Raise (ErrParse (p_line st) InvalidXmlEntity 0 0) st).

(* lenient: always returns; only InvalidXmlEntity warnings are added *)
Definition shapeL (m : M (list N)) : Prop :=
  forall st, exists u st' ws, m st = Val (Ret u st') /\ p_warnings st' = ws ++ p_warnings st /\ Forall is_ixe ws.

Lemma shapeS_ret u : shapeS (ret u). Proof. intros st. left. exists u. reflexivity. Qed.
Lemma shapeL_ret u : shapeL (ret u). Proof. intros st. exists u, st, []. repeat split. constructor. Qed.

Lemma shapeS_invalid (k : M (list N)) : shapeS (mbind (optional_error true InvalidXmlEntity 0 0) (fun _ => k)).
Proof. intros st. right. reflexivity. Qed.

Lemma shapeL_invalid (k : M (list N)) : shapeL k -> shapeL (mbind (optional_error false InvalidXmlEntity 0 0) (fun _ => k)).
Proof.
  intros HK st. unfold mbind, optional_error.
  destruct (HK (add_warning st (ErrParse (p_line st) InvalidXmlEntity 0 0))) as (u & st' & ws & E & W & F).
  exists u, st', (ws ++ [ErrParse (p_line st) InvalidXmlEntity 0 0]). split; [exact E|]. split.
  - rewrite W. cbn [p_warnings add_warning]. rewrite <- app_assoc. reflexivity.
  - apply Forall_app. split; [exact F|constructor; [exact I|constructor]].
Qed.

Lemma unescape_loop_shapeS fuel : forall rem acc, (List.length rem < fuel)%nat -> shapeS (unescape_loop true fuel rem acc).
Proof.
  induction fuel as [|f IH]; intros rem acc L; [lia|]. cbn [unescape_loop].
  destruct (find_byte 38 rem) as [pos|] eqn:F; [|apply shapeS_ret].
  unfold find_byte in F. pose proof (position_Some _ _ F) as (LP & _ & _).
  set (rem' := skipn pos rem) in *.
  assert (LR : (List.length rem' <= List.length rem)%nat) by (unfold rem'; rewrite skipn_length; lia).
  assert (L1 : (1 <= List.length rem')%nat) by (unfold rem'; rewrite skipn_length; lia).
  assert (REC : forall n a, (1 <= n)%nat -> shapeS (unescape_loop true f (skipn n rem') a)).
  { intros n a Hn. apply IH. rewrite skipn_length. lia. }
  repeat lazymatch goal with
  | |- shapeS (if ?c then _ else _) => destruct c
  | |- shapeS (match ?x with _ => _ end) => destruct x
  | |- shapeS (unescape_loop true f (skipn _ rem') _) => apply REC; lia
  | |- _ => apply shapeS_invalid
  end.
Qed.

Lemma unescape_loop_shapeL fuel : forall rem acc, (List.length rem < fuel)%nat -> shapeL (unescape_loop false fuel rem acc).
Proof.
  induction fuel as [|f IH]; intros rem acc L; [lia|]. cbn [unescape_loop].
  destruct (find_byte 38 rem) as [pos|] eqn:F; [|apply shapeL_ret].
  unfold find_byte in F. pose proof (position_Some _ _ F) as (LP & _ & _).
  set (rem' := skipn pos rem) in *.
  assert (LR : (List.length rem' <= List.length rem)%nat) by (unfold rem'; rewrite skipn_length; lia).
  assert (L1 : (1 <= List.length rem')%nat) by (unfold rem'; rewrite skipn_length; lia).
  assert (REC : forall n a, (1 <= n)%nat -> shapeL (unescape_loop false f (skipn n rem') a)).
  { intros n a Hn. apply IH. rewrite skipn_length. lia. }
  repeat lazymatch goal with
  | |- shapeL (if ?c then _ else _) => destruct c
  | |- shapeL (match ?x with _ => _ end) => destruct x
  | |- shapeL (unescape_loop false f (skipn _ rem') _) => apply REC; lia
  | |- shapeL (mbind (optional_error false _ _ _) _) => apply shapeL_invalid
  end.
Qed.

Lemma unescape_string_shapeS text : shapeS (unescape_string true text).
Proof. unfold unescape_string. destruct (find_byte 38 text); [apply unescape_loop_shapeS; lia|apply shapeS_ret]. Qed.
Lemma unescape_string_shapeL text : shapeL (unescape_string false text).
Proof. unfold unescape_string. destruct (find_byte 38 text); [apply unescape_loop_shapeL; lia|apply shapeL_ret]. Qed.

(* ---------- with the grammar ---------- *)
Definition InGrammar (text : list N) : Prop := exists u, Unesc text u.

Theorem strict_exact text st :
  (forall u, Unesc text u -> unescape_string true text st = Val (Ret u st)) /\
  (~ InGrammar text -> unescape_string true text st = Val (Raise (ErrParse (p_line st) InvalidXmlEntity 0 0) st)).
Proof.
  split; [intros u UN; exact (unesc_complete true text u st UN)|].
  intros NG. destruct (unescape_string_shapeS text st) as [(u & E)|E]; [|exact E].
  exfalso. apply NG. exists u. exact (proj2 (unescape_sound _ _ _ _ E)).
Qed.

Theorem lenient_exact text st :
  exists u st' ws, unescape_string false text st = Val (Ret u st') /\ p_warnings st' = ws ++ p_warnings st /\ Forall is_ixe ws /\
    (ws = [] <-> Unesc text u) /\ (~ InGrammar text -> ws <> []).
Proof.
  destruct (unescape_string_shapeL text st) as (u & st' & ws & E & W & F). exists u, st', ws. split; [exact E|]. split; [exact W|]. split; [exact F|].
  assert (A : ws = [] -> Unesc text u).
  { intros ->. pose proof (agree_unescape_string text st) as AG. unfold agree_at in AG. rewrite E in AG.
    destruct AG as (ws' & W' & O). cbn [app] in W. rewrite W in W'.
    assert (ws' = []) by (destruct ws'; [reflexivity|exfalso; apply (f_equal (@List.length perror)) in W'; rewrite app_length in W'; cbn in W'; lia]).
    subst ws'. cbn in O. exact (proj2 (unescape_sound _ _ _ _ O)). }
  split; [split; [exact A|]|].
  - intros UN. pose proof (unesc_complete false text u st UN) as C. rewrite C in E. injection E as <-.
    destruct ws as [|w ws']; [reflexivity|exfalso]. apply (f_equal (@List.length perror)) in W. rewrite app_length in W. cbn in W. lia.
  - intros NG EW. apply NG. exists u. exact (A EW).
Qed.

(* wherever it stands: two malformed references in one value give two warnings, the well-formed ones are decoded *)
Open Scope string_scope.
Example two_malformed :
  match unescape_string false (BS "a&b;&lt;c&#x;d&amp;") (init_pstate [] 0 0) with
  | Val (Ret u st') => u = BS "a&b;<c&#x;d&" /\ List.length (p_warnings st') = 2%nat
  | _ => False
  end.
Proof. vm_compute. split; reflexivity. Qed.
