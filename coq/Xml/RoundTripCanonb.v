(* Xml/RoundTripCanonb.v — a boolean checker for the canonical trees:  canonb t = true <-> Canon t  (reflection), so that
   Canon can be evaluated (by vm_compute, or by the extracted model in the correspondence harness). *)
From Coq Require Import Arith.
From AV Require Import Base.Bytes Base.Outcome Base.Utf8 Base.Radix Hash.HashModel Spec.SpecOps
  Xml.Lexer Xml.Parser Xml.Serializer Xml.LexerProofs Xml.ParserDepth Xml.StrictValidDef Xml.StrictValid Xml.Escape Xml.RoundTripValues
  Xml.RoundTripAttrs Xml.RoundTripLexer Xml.RoundTripElem Xml.RoundTripCanonValues Xml.RoundTripCanon.
Open Scope list_scope.
Open Scope N_scope.

Lemma no_edge_ws_b s : no_edge_ws s <-> edge_wsb s = false.
Proof.
  split; [|apply edge_wsb_false]. destruct s as [|c s]; [reflexivity|]. intros [A B]. unfold edge_wsb. rewrite A, B. reflexivity.
Qed.

Lemma comment_okb_true c : CommentOk c -> comment_okb c = true.
Proof. apply comment_okb_spec. Qed.

Definition res_bool_true (r : res bool) : bool := match r with Val true => true | _ => false end.
Lemma res_bool_true_spec r : res_bool_true r = true <-> r = Val true.
Proof. destruct r as [[|]| |]; cbn; split; congruence. Qed.

Definition opt_N_eqb (a : option N) (b : N) : bool := match a with Some x => x =? b | None => false end.
Lemma opt_N_eqb_spec a b : opt_N_eqb a b = true <-> a = Some b.
Proof. destruct a as [x|]; cbn; [rewrite N.eqb_eq|]; split; congruence. Qed.

Definition from_bytes_is (t : nametab) (s : list N) (i : N) : bool := match from_bytes t s with Ok j => j =? i | _ => false end.
Lemma from_bytes_is_spec t s i : from_bytes_is t s i = true <-> from_bytes t s = Ok i.
Proof. unfold from_bytes_is. destruct (from_bytes t s) as [j| |]; [rewrite N.eqb_eq|..]; split; congruence. Qed.

Section Canonb.
Variable T : tables.
Variable tab_el tab_at tab_en : nametab.
Variable check_fn : N -> list N -> res bool.
Variable float_fmt : N -> list N.
Variable float_parse : list N -> option N.
Variable ver : N.

Notation VALOK := (ValOk tab_en check_fn float_fmt float_parse ver).
Notation SCD := (ser_cdata tab_en float_fmt).

(* ---------- values ---------- *)
Definition valokb (spec : cdspec) (v : cdata) : bool :=
  match spec, v with
  | CEnum items, DEnum item =>
    match to_str tab_en item with
    | Some str => negb (edge_wsb str) && from_bytes_is tab_en str item &&
                  match find (fun it => fst it =? item) items with Some (_, mask) => negb (N.land ver mask =? 0) | None => false end
    | None => false
    end
  | CPattern fn maxlen, DString s =>
    forallb (fun c => negb (special c)) s && negb (edge_wsb s) && negb (opt_len_gt maxlen s) &&
    res_bool_true (check_fn fn s) && utf8_valid s
  | CString preserve maxlen, DString s =>
    (preserve || negb (edge_wsb s)) && negb (opt_len_gt maxlen (escape_text s)) && utf8_valid (escape_text s)
  | CUInt, DUInt n => n <? 2 ^ 64
  | CFloat, DFloat b => negb (edge_wsb (float_fmt b)) && utf8_valid (float_fmt b) && opt_N_eqb (float_parse (float_fmt b)) b
  | _, _ => false
  end.

Lemma valokb_spec spec v : valokb spec v = true <-> VALOK spec v.
Proof.
  split.
  - destruct spec as [items|fn maxlen|preserve maxlen| |]; destruct v as [item|s|n|b]; cbn [valokb]; try discriminate.
    + destruct (to_str tab_en item) as [str|] eqn:TS; [|discriminate]. rewrite !andb_true_iff, negb_true_iff, from_bytes_is_spec.
      intros [[A B] C]. destruct (find (fun it => fst it =? item) items) as [[i mask]|] eqn:F; [|discriminate C].
      pose proof (find_some _ _ F) as [_ EQ]. cbn [fst] in EQ. apply N.eqb_eq in EQ. subst i.
      apply negb_true_iff, N.eqb_neq in C. econstructor; [exact TS|apply edge_wsb_false; exact A|exact B|exact F|exact C].
    + rewrite !andb_true_iff, !negb_true_iff, res_bool_true_spec. intros [[[[A B] C] D] E].
      constructor; [exact A|apply edge_wsb_false; exact B|exact C|exact D|exact E].
    + rewrite !andb_true_iff, negb_true_iff. intros [[A B] C]. constructor; [|exact B|exact C].
      apply orb_true_iff in A as [A|A]; [left; exact A|right; apply edge_wsb_false, negb_true_iff; exact A].
    + intros H. constructor. apply N.ltb_lt. exact H.
    + rewrite !andb_true_iff, negb_true_iff, opt_N_eqb_spec. intros [[A B] C]. constructor; [apply edge_wsb_false; exact A|exact B|exact C].
  - intros OK. destruct OK as [items item mask str TS NW FB FI IV|fn maxlen s PL NW LEN CF U|preserve maxlen s PW LEN U|n L|b NW U FP]; cbn [valokb].
    + rewrite TS, FI. apply no_edge_ws_b in NW. rewrite NW. rewrite (proj2 (from_bytes_is_spec _ _ _) FB).
      apply N.eqb_neq in IV. rewrite IV. reflexivity.
    + apply no_edge_ws_b in NW. rewrite PL, NW, LEN, CF, U. reflexivity.
    + rewrite LEN, U. destruct PW as [->|NW]; [reflexivity|]. apply no_edge_ws_b in NW. rewrite NW. rewrite orb_true_r. reflexivity.
    + apply N.ltb_lt. exact L.
    + apply no_edge_ws_b in NW. rewrite NW, U, (proj2 (opt_N_eqb_spec _ _) FP). reflexivity.
Qed.

(* ---------- names and attributes ---------- *)
Definition elem_nameb (name : N) : bool :=
  match to_str tab_el name with Some nm => clean_name nm && from_bytes_is tab_el nm name | None => false end.

Lemma elem_nameb_spec name : elem_nameb name = true <-> exists nm, ElemNameOk tab_el name nm.
Proof.
  unfold elem_nameb, ElemNameOk. split.
  - destruct (to_str tab_el name) as [nm|]; [|discriminate]. rewrite andb_true_iff, from_bytes_is_spec. intros [A B]. exists nm. auto.
  - intros (nm & TS & CN & FB). rewrite TS, CN, (proj2 (from_bytes_is_spec _ _ _) FB). reflexivity.
Qed.

Definition ser_cleanb (v : cdata) : bool := match SCD v with Val bytes => forallb markup_free bytes | _ => false end.

Definition attrokb (ty : etype) (a : N * cdata) : bool :=
  match to_str tab_at (fst a) with
  | Some nm =>
    clean_name nm && from_bytes_is tab_at nm (fst a) &&
    match find_attribute_spec T ty (fst a) with
    | Val (Some (_, ctype, _, vm)) => negb (N.land ver vm =? 0) && valokb ctype (snd a) && ser_cleanb (snd a)
    | _ => false
    end
  | None => false
  end.

Lemma attrokb_spec ty a : attrokb ty a = true <-> AttrOk T tab_at tab_en check_fn float_fmt float_parse ver ty a.
Proof.
  unfold attrokb, AttrOk, ser_cleanb. split.
  - destruct (to_str tab_at (fst a)) as [nm|]; [|discriminate]. rewrite !andb_true_iff, from_bytes_is_spec. intros [[A B] C].
    destruct (find_attribute_spec T ty (fst a)) as [[[[[cdid ctype] req] vm]|]| |]; try discriminate C.
    rewrite !andb_true_iff, negb_true_iff, N.eqb_neq, valokb_spec in C. destruct C as [[C1 C2] C3].
    destruct (SCD (snd a)) as [bytes| |]; try discriminate C3. exists nm, cdid, ctype, req, vm, bytes. auto 10.
  - intros (nm & cdid & ctype & req & vm & bytes & TS & CN & FB & FA & IV & VO & SC & MF).
    rewrite TS, CN, (proj2 (from_bytes_is_spec _ _ _) FB), FA, SC, MF, (proj2 (valokb_spec _ _) VO).
    apply N.eqb_neq in IV. rewrite IV. reflexivity.
Qed.

Definition reqb (ty : etype) (attrs : list (N * cdata)) : bool :=
  match attribute_spec_list T ty with
  | Val specs => forallb (fun sp => (snd sp =? 0) || existsb (fun a => fst a =? fst (fst (fst sp))) attrs) specs
  | _ => false
  end.

Definition attrsokb (ty : etype) (attrs : list (N * cdata)) : bool := forallb (attrokb ty) attrs && reqb ty attrs.

Lemma attrsokb_spec ty attrs : attrsokb ty attrs = true <-> AttrsOk T tab_at tab_en check_fn float_fmt float_parse ver ty attrs.
Proof.
  unfold attrsokb, AttrsOk, reqb. rewrite andb_true_iff, forallb_forall, Forall_forall. split.
  - intros [A B]. split; [intros a Ha; apply attrokb_spec, A, Ha|].
    destruct (attribute_spec_list T ty) as [specs| |]; try discriminate B. exists specs. split; [reflexivity|].
    rewrite forallb_forall in B. intros name cdid c req HIn NZ. specialize (B _ HIn). cbn [fst snd] in B.
    apply orb_true_iff in B as [B|B]; [apply N.eqb_eq in B; congruence|exact B].
  - intros [A (specs & SL & R)]. split; [intros a Ha; apply attrokb_spec, A, Ha|]. rewrite SL. apply forallb_forall.
    intros [[[name cdid] c] req] HIn. cbn [fst snd]. destruct (req =? 0) eqn:Z; [reflexivity|]. apply N.eqb_neq in Z.
    rewrite (R name cdid c req HIn Z). reflexivity.
Qed.

(* ---------- the per-child checks ---------- *)
Definition etype_eqb (a b : etype) : bool := (fst a =? fst b) && (snd a =? snd b).
Lemma etype_eqb_spec a b : etype_eqb a b = true <-> a = b.
Proof.
  destruct a, b. unfold etype_eqb. cbn [fst snd]. rewrite andb_true_iff, !N.eqb_eq. split; [intros [-> ->]; reflexivity|intros [= -> ->]; auto].
Qed.

Definition is_nil {A} (l : list A) : bool := match l with [] => true | _ => false end.
Lemma is_nil_spec {A} (l : list A) : is_nil l = true <-> l = [].
Proof. destruct l; cbn; split; congruence. Qed.

Definition conflictb (ty : etype) (prev idx : list N) : bool :=
  is_nil prev || list_eqbN prev idx ||
  match find_common_group T ty prev idx with
  | Val g => match dt T g with Val d => negb (dt_mode d =? MChoice) && negb (dt_mode d =? MCharacters) | _ => false end
  | _ => false
  end.

Lemma conflictb_spec ty prev idx : conflictb ty prev idx = true <-> ConflictOk T ty prev idx.
Proof.
  unfold conflictb, ConflictOk. rewrite !orb_true_iff, is_nil_spec. split.
  - intros [[A|A]|A]; [left; exact A|right; left; apply list_eqbN_eq; exact A|right; right].
    destruct (find_common_group T ty prev idx) as [g| |] eqn:FG; try discriminate A. destruct (dt T g) as [d| |] eqn:ED; try discriminate A.
    apply andb_true_iff in A as [A1 A2]. apply negb_true_iff, N.eqb_neq in A1. apply negb_true_iff, N.eqb_neq in A2.
    exists g, d. split; [reflexivity|]. split; [exact ED|]. split; assumption.
  - intros [A|[A|(g & d & FG & ED & M1 & M2)]]; [left; left; exact A|left; right; subst; apply list_eqbN_refl|right].
    rewrite FG, ED. apply N.eqb_neq in M1, M2. rewrite M1, M2. reflexivity.
Qed.

Definition multb (ty : etype) (idx : list N) (cname : N) (pre : list (etree + cdata)) : bool :=
  is_nil pre ||
  match get_sub_element_container_mode T ty idx with
  | Val mode =>
    negb ((mode =? MSequence) || (mode =? MChoice)) ||
    match get_sub_element_multiplicity T ty idx with
    | Val (Some mult) => (mult =? 2) || negb (existsb (same_name cname) pre)
    | Val None => true
    | _ => false
    end
  | _ => false
  end.

Lemma multb_spec ty idx cname pre : multb ty idx cname pre = true <-> MultOk T ty idx cname pre.
Proof.
  unfold multb, MultOk. rewrite orb_true_iff, is_nil_spec. split.
  - intros [A|A]; [left; exact A|right]. destruct (get_sub_element_container_mode T ty idx) as [mode| |]; try discriminate A.
    exists mode. split; [reflexivity|]. apply orb_true_iff in A as [A|A]; [left; apply negb_true_iff; exact A|right].
    destruct (get_sub_element_multiplicity T ty idx) as [m| |]; try discriminate A. exists m. split; [reflexivity|].
    destruct m as [mult|]; [|exact I]. apply orb_true_iff in A as [A|A]; [left; apply N.eqb_eq; exact A|right; apply negb_true_iff; exact A].
  - intros [A|(mode & GM & H)]; [left; exact A|right]. rewrite GM. destruct H as [H|(m & GX & HM)]; [rewrite H; reflexivity|].
    rewrite GX. destruct ((mode =? MSequence) || (mode =? MChoice)); [cbn [negb orb]|reflexivity].
    destruct m as [mult|]; [|reflexivity]. destruct HM as [->|E]; [reflexivity|]. rewrite E. apply orb_true_r.
Qed.

Definition textokb (ty : etype) (v : cdata) : bool :=
  match chardata_spec T ty, is_ref T ty with
  | Val (Some cs), Val _ =>
    valokb cs v && match SCD v with Val bytes => forallb markup_free bytes && negb (forallb is_ws bytes) | _ => false end
  | _, _ => false
  end.

Lemma textokb_spec ty v : textokb ty v = true <-> TextOk T tab_en check_fn float_fmt float_parse ver ty v.
Proof.
  unfold textokb, TextOk. split.
  - destruct (chardata_spec T ty) as [[cs|]| |]; try discriminate. destruct (is_ref T ty) as [isr| |]; try discriminate.
    rewrite andb_true_iff, valokb_spec. intros [A B]. destruct (SCD v) as [bytes| |]; try discriminate B.
    rewrite andb_true_iff, negb_true_iff in B. exists cs, bytes, isr. tauto.
  - intros (cs & bytes & isr & CS & IR & VO & SC & MF & NW). rewrite CS, IR, SC, MF, NW, (proj2 (valokb_spec _ _) VO). reflexivity.
Qed.

Definition shapeb (mode : N) (content : list (etree + cdata)) : bool :=
  if mode =? MCharacters then match content with [] => true | [inr _] => true | _ => false end
  else if mode =? MMixed then negb (adjb content)
  else forallb (fun c => negb (is_text c)) content.

Lemma no_adjacent_adjb l : no_adjacent l -> adjb l = false.
Proof.
  induction l as [|x l IH]; intros NA; [reflexivity|].
  assert (NT : no_adjacent l) by (eapply no_adjacent_tail; exact NA). specialize (IH NT).
  destruct x as [ex|vx]; [exact IH|]. destruct l as [|y l']; [reflexivity|]. destruct y as [ey|vy]; [exact IH|].
  specialize (NA (inr vx) (inr vy) [] l' eq_refl eq_refl). discriminate NA.
Qed.

Lemma shapeb_spec mode content : shapeb mode content = true <-> ShapeOk mode content.
Proof.
  unfold shapeb, ShapeOk. destruct (mode =? MCharacters).
  - split.
    + destruct content as [|[e|v] [|y l]]; try discriminate; [left; reflexivity|right; eauto].
    + intros [->|(v & ->)]; reflexivity.
  - destruct (mode =? MMixed).
    + rewrite negb_true_iff. split; [apply adjb_no_adjacent|apply no_adjacent_adjb].
    + rewrite forallb_forall, Forall_forall. split; intros H x Hx; specialize (H x Hx); [apply negb_true_iff|apply negb_true_iff]; exact H.
Qed.

Definition namedb (ty : etype) (content : list (etree + cdata)) : bool :=
  match is_named_in_version T ty ver with Val named => negb named || head_short T content | _ => false end.

Lemma namedb_spec ty content : namedb ty content = true <->
  exists named, is_named_in_version T ty ver = Val named /\ (named = true -> head_short T content = true).
Proof.
  unfold namedb. split.
  - destruct (is_named_in_version T ty ver) as [named| |]; try discriminate. intros H. exists named. split; [reflexivity|].
    intros ->. exact H.
  - intros (named & -> & H). destruct named; [exact (H eq_refl)|reflexivity].
Qed.

(* ---------- the recursion ---------- *)
Definition childrenb_gen (cb : etree -> bool) (ty : etype) (mode : N)
  : list N -> list (etree + cdata) -> list (etree + cdata) -> bool :=
  fix go (prev : list N) (pre l : list (etree + cdata)) {struct l} : bool :=
    match l with
    | [] => true
    | inl c :: rest =>
      match find_sub_element T ty (e_name c) ver with
      | Val (Some (cty, idx)) =>
        etype_eqb cty (e_type c) && conflictb ty prev idx && multb ty idx (e_name c) pre && cb c && go idx (pre ++ [inl c]) rest
      | _ => false
      end
    | inr v :: rest =>
      textokb ty v && (negb (mode =? MCharacters) || is_nil pre) && go prev (pre ++ [inr v]) rest
    end.

Fixpoint canonb (t : etree) : bool :=
  match t with
  | ENode name ty attrs content cm =>
    comments_okb cm && elem_nameb name && attrsokb ty attrs &&
    match content_mode T ty with
    | Val mode =>
      shapeb mode content && namedb ty content &&
      (fix go (prev : list N) (pre l : list (etree + cdata)) {struct l} : bool :=
         match l with
         | [] => true
         | inl c :: rest =>
           match find_sub_element T ty (e_name c) ver with
           | Val (Some (cty, idx)) =>
             etype_eqb cty (e_type c) && conflictb ty prev idx && multb ty idx (e_name c) pre && canonb c && go idx (pre ++ [inl c]) rest
           | _ => false
           end
         | inr v :: rest =>
           textokb ty v && (negb (mode =? MCharacters) || is_nil pre) && go prev (pre ++ [inr v]) rest
         end) [] [] content
    | _ => false
    end
  end.

Lemma canonb_node name ty attrs content cm :
  canonb (ENode name ty attrs content cm) =
  comments_okb cm && elem_nameb name && attrsokb ty attrs &&
  match content_mode T ty with
  | Val mode => shapeb mode content && namedb ty content && childrenb_gen canonb ty mode [] [] content
  | _ => false
  end.
Proof. reflexivity. Qed.

(* ---------- reflection ---------- *)
Notation CANON := (Canon T tab_el tab_at tab_en check_fn float_fmt float_parse ver).
Notation CHILDREN := (ChildrenOk T tab_el tab_at tab_en check_fn float_fmt float_parse ver).

Lemma childrenb_unfold cb ty mode prev pre l :
  childrenb_gen cb ty mode prev pre l =
  match l with
  | [] => true
  | inl c :: rest =>
    match find_sub_element T ty (e_name c) ver with
    | Val (Some (cty, idx)) =>
      etype_eqb cty (e_type c) && conflictb ty prev idx && multb ty idx (e_name c) pre && cb c &&
      childrenb_gen cb ty mode idx (pre ++ [inl c]) rest
    | _ => false
    end
  | inr v :: rest => textokb ty v && (negb (mode =? MCharacters) || is_nil pre) && childrenb_gen cb ty mode prev (pre ++ [inr v]) rest
  end.
Proof. destruct l; reflexivity. Qed.

Lemma childrenb_sound (d : nat) ty mode :
  (forall c, (depth c <= d)%nat -> canonb c = true -> CANON c) ->
  forall l prev pre, (forall c, In (inl c) l -> (depth c <= d)%nat) ->
    childrenb_gen canonb ty mode prev pre l = true -> CHILDREN ty mode prev pre l.
Proof.
  intros IH. induction l as [|[c|v] l IHl]; intros prev pre DL H; rewrite childrenb_unfold in H; [constructor| |].
  - destruct (find_sub_element T ty (e_name c) ver) as [[[cty idx]|]| |] eqn:FS; try discriminate H.
    rewrite !andb_true_iff, etype_eqb_spec, conflictb_spec, multb_spec in H. destruct H as [[[[A B] C] D] E]. subst cty.
    eapply ck_elem; [exact FS|exact B|exact C|apply IH; [apply DL; left; reflexivity|exact D]|].
    apply IHl; [intros c0 H0; apply DL; right; exact H0|exact E].
  - rewrite !andb_true_iff, textokb_spec in H. destruct H as [[A B] C].
    apply ck_text; [exact A| |apply IHl; [intros c0 H0; apply DL; right; exact H0|exact C]].
    intros ->. rewrite N.eqb_refl in B. cbn [negb orb] in B. apply is_nil_spec. exact B.
Qed.

Theorem canonb_sound : forall d t, (depth t <= d)%nat -> canonb t = true -> CANON t.
Proof.
  induction d as [|d IH]; intros t DT H.
  { destruct t. rewrite depth_node in DT. lia. }
  destruct t as [name ty attrs content cm]. rewrite depth_node in DT. rewrite canonb_node in H.
  rewrite !andb_true_iff in H. destruct H as [[[A B] C] D].
  destruct (content_mode T ty) as [mode| |] eqn:CM; try discriminate D.
  rewrite !andb_true_iff in D. destruct D as [[D1 D2] D3].
  apply elem_nameb_spec in B as (nm & EN). apply namedb_spec in D2 as (named & NV & NM).
  apply (canon_node T tab_el tab_at tab_en check_fn float_fmt float_parse ver name ty attrs content cm nm mode named).
  - apply comments_okb_spec. exact A.
  - exact EN.
  - apply attrsokb_spec. exact C.
  - exact CM.
  - apply shapeb_spec. exact D1.
  - apply (childrenb_sound d ty mode IH); [|exact D3]. intros c HIn. pose proof (maxd_in _ _ HIn). lia.
  - exact NV.
  - exact NM.
Qed.

Scheme canon_mut := Minimality for Canon Sort Prop
  with children_mut := Minimality for ChildrenOk Sort Prop.

Lemma comments_okb_complete cm : CommentsOk cm -> comments_okb cm = true.
Proof. destruct cm as [c|]; [|reflexivity]. intros [A B]. cbn [comments_okb]. rewrite (comment_okb_true c A), B. reflexivity. Qed.

Theorem canonb_complete t : CANON t -> canonb t = true.
Proof.
  apply (canon_mut T tab_el tab_at tab_en check_fn float_fmt float_parse ver
           (fun t => canonb t = true)
           (fun ty mode prev pre l => childrenb_gen canonb ty mode prev pre l = true)).
  - intros name ty attrs content cm nm mode named CMO EN AO CM SH _ CK NV NM.
    rewrite canonb_node, CM. rewrite (comments_okb_complete _ CMO), (proj2 (elem_nameb_spec name) (ex_intro _ nm EN)),
      (proj2 (attrsokb_spec ty attrs) AO), (proj2 (shapeb_spec mode content) SH), CK,
      (proj2 (namedb_spec ty content) (ex_intro _ named (conj NV NM))). reflexivity.
  - intros. reflexivity.
  - intros ty mode prev pre c rest idx FS CO MO _ CB _ CR. rewrite childrenb_unfold, FS.
    rewrite (proj2 (etype_eqb_spec _ _) eq_refl), (proj2 (conflictb_spec _ _ _) CO), (proj2 (multb_spec _ _ _ _) MO), CB, CR. reflexivity.
  - intros ty mode prev pre v rest TO PRE _ CR. rewrite childrenb_unfold, (proj2 (textokb_spec _ _) TO), CR.
    destruct (mode =? MCharacters) eqn:MC; [|reflexivity]. apply N.eqb_eq in MC. rewrite (PRE MC). reflexivity.
Qed.

(* canonb decides Canon *)
Theorem canonb_spec t : canonb t = true <-> CANON t.
Proof. split; [apply (canonb_sound (depth t) t (le_n _))|apply canonb_complete]. Qed.

End Canonb.

(* ---------- the same for a root: a sound boolean checker for RootCanon ---------- *)
From AV Require Import Spec.Versions Xml.RoundTripFile.

Section RootCanonb.
Variable T : tables.
Variable tab_el tab_at tab_en : nametab.
Variable check_fn : N -> list N -> res bool.
Variable float_fmt : N -> list N.
Variable float_parse : list N -> option N.
Variable ver : N.

Definition dummy_state : pstate :=
  {| p_lex := {| l_rest := []; l_line := 1; l_deferred := None |}; p_line := 1; p_version := 0; p_cur := 0; p_compat := 0;
     p_warnings := []; p_standalone := None; p_idents := []; p_refs := [] |}.

(* the header attributes yield `ver` silently (evaluated strictly on one state; by pfh_indep that is every state, both modes) *)
Definition headerb (attrs : list (N * cdata)) : bool :=
  match parse_file_header true tab_at attrs dummy_state with
  | Val (Ret _ st') => p_version st' =? ver
  | _ => false
  end.

Definition rootcanonb (t : etree) : bool :=
  match t, elem T (autosar_element T), version_of_ident "Autosar_4_0_1" with
  | ENode name ty attrs content cm, Val e, Some v401 =>
    (name =? ed_name e) && etype_eqb ty (autosar_element T, ed_type e) &&
    comments_okb cm && elem_nameb tab_el name &&
    attrsokb T tab_at tab_en check_fn float_fmt float_parse v401 ty attrs && headerb attrs &&
    match content_mode T ty with
    | Val mode =>
      shapeb mode content && namedb T ver ty content &&
      childrenb_gen T tab_en check_fn float_fmt float_parse ver
        (canonb T tab_el tab_at tab_en check_fn float_fmt float_parse ver) ty mode [] [] content
    | _ => false
    end
  | _, _, _ => false
  end.

Theorem rootcanonb_sound t : rootcanonb t = true ->
  forall s, RootCanon s T tab_el tab_at tab_en check_fn float_fmt float_parse ver t.
Proof.
  unfold rootcanonb. destruct t as [name ty attrs content cm].
  destruct (elem T (autosar_element T)) as [e| |] eqn:EE; try discriminate.
  destruct (version_of_ident "Autosar_4_0_1") as [v401|] eqn:V401; try discriminate.
  rewrite !andb_true_iff. intros [[[[[[A B] C] D] E] F] G] s.
  apply N.eqb_eq in A. apply etype_eqb_spec in B. subst name ty.
  destruct (content_mode T (autosar_element T, ed_type e)) as [mode| |] eqn:CM; try discriminate G.
  rewrite !andb_true_iff in G. destruct G as [[G1 G2] G3].
  apply elem_nameb_spec in D as (nm & EN). apply namedb_spec in G2 as (named & NV & NM).
  unfold headerb in F. destruct (parse_file_header true tab_at attrs dummy_state) as [[u st'|? ?]| |] eqn:PF; try discriminate F.
  destruct (pfh_indep tab_at attrs _ _ _ PF) as (v & -> & HDR). cbn [p_version Parser.set_version] in F. apply N.eqb_eq in F. subst v.
  apply (root_canon s T tab_el tab_at tab_en check_fn float_fmt float_parse ver e v401 nm attrs content cm mode named).
  - exact EE.
  - exact V401.
  - apply comments_okb_spec. exact C.
  - exact EN.
  - apply attrsokb_spec. exact E.
  - intros st2. apply HDR.
  - exact CM.
  - apply shapeb_spec. exact G1.
  - apply (childrenb_sound T tab_el tab_at tab_en check_fn float_fmt float_parse ver (maxd content) _ mode
             (fun c D0 H0 => canonb_sound T tab_el tab_at tab_en check_fn float_fmt float_parse ver (maxd content) c D0 H0));
      [|exact G3]. intros c HIn. apply maxd_in. exact HIn.
  - exact NV.
  - exact NM.
Qed.

End RootCanonb.
