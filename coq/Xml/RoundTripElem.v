(* Xml/RoundTripElem.v — C01, elements: the canonical trees (Canon) and the proof that parse_element reads back what
   ser_elem writes for them: same tree, no error, no warning, both modes.
   Canon ver t (every node): the element name is in the name table with a clean text; the attributes are AttrsOk; the
   content fits the content mode (Characters: one value; Mixed: no two adjacent text items; otherwise only sub-elements);
   every child is findable in the parent's type in the file version, does not conflict with its predecessor and does not
   exceed its multiplicity (the lookups the parser performs return values and pass); every text item is a canonical value
   (ValOk) whose printed form is not blank; SHORT-NAME present where the type is named; no comment (comments: see
   RoundTripFile.v / the missing part named in Properties/C01.v). *)
From Coq Require Import Arith.
From AV Require Import Base.Bytes Base.Outcome Base.Utf8 Base.Radix Hash.HashModel Spec.SpecOps Spec.Versions
  Xml.Lexer Xml.Parser Xml.Serializer Xml.LexerProofs Xml.ParserProofs Xml.ParserDepth Xml.Escape Xml.RoundTripValues
  Xml.RoundTripAttrs Xml.RoundTripLexer Xml.StrictValidDef.
Open Scope list_scope.
Open Scope N_scope.

Definition is_short (T : tables) (c : etree + cdata) : bool :=
  match c with inl e => e_name e =? name_short_name T | inr _ => false end.
(* only a SHORT-NAME that is the FIRST content item names its element (fix: late SHORT-NAME) *)
Definition emptyb {A} (l : list A) : bool := match l with [] => true | _ :: _ => false end.
Definition head_short (T : tables) (l : list (etree + cdata)) : bool := match l with c :: _ => is_short T c | [] => false end.
Lemma head_short_snoc T pre x : head_short T (pre ++ [x]) = if emptyb pre then is_short T x else head_short T pre.
Proof. destruct pre; reflexivity. Qed.
Lemma head_short_app T pre l : pre <> [] -> head_short T (pre ++ l) = head_short T pre.
Proof. destruct pre; [congruence|reflexivity]. Qed.

(* loop iterations an item costs its parent: a comment in front of an element is an event of its own *)
Definition e_comment (e : etree) : option (list N) := match e with ENode _ _ _ _ cm => cm end.
Definition cost (c : etree + cdata) : nat :=
  match c with inl e => match e_comment e with Some _ => 2 | None => 1 end | inr _ => 1 end.
Fixpoint lcost (l : list (etree + cdata)) : nat := match l with [] => O | c :: l' => (cost c + lcost l')%nat end.

Fixpoint width (t : etree) : nat :=
  match t with
  | ENode _ _ _ content _ =>
    Nat.max (lcost content)
      ((fix go (l : list (etree + cdata)) : nat :=
          match l with
          | [] => O
          | inl e :: l' => Nat.max (width e) (go l')
          | inr _ :: l' => go l'
          end) content)
  end.
Fixpoint maxw (l : list (etree + cdata)) : nat :=
  match l with
  | [] => O
  | inl e :: l' => Nat.max (width e) (maxw l')
  | inr _ :: l' => maxw l'
  end.
Lemma width_node n ty a c cm : width (ENode n ty a c cm) = Nat.max (lcost c) (maxw c).
Proof. reflexivity. Qed.
Lemma maxw_in l e : In (inl e) l -> (width e <= maxw l)%nat.
Proof.
  induction l as [|[x|v] l IH]; cbn [In maxw]; [intros []| |].
  - intros [E|H]; [injection E as ->; lia|specialize (IH H); lia].
  - intros [E|H]; [discriminate E|exact (IH H)].
Qed.
Lemma maxd_in l e : In (inl e) l -> (depth e <= maxd l)%nat.
Proof.
  induction l as [|[x|v] l IH]; cbn [In maxd]; [intros []| |].
  - intros [E|H]; [injection E as ->; lia|specialize (IH H); lia].
  - intros [E|H]; [discriminate E|exact (IH H)].
Qed.

(* the loops of ser_elem (anonymous fixes there), restated *)
Definition ser_items (ser_cd : cdata -> res (list N)) (rec : etree -> res (list N)) : list (etree + cdata) -> res (list N) :=
  fix items (l : list (etree + cdata)) : res (list N) :=
    match l with
    | [] => Val []
    | inl sub :: l' => (let* a := rec sub in let* b := items l' in Val (a ++ b))%res
    | inr cd :: l' => (let* a := ser_cd cd in let* b := items l' in Val (a ++ b))%res
    end.
Definition ser_subs (rec : etree -> res (list N)) : list (etree + cdata) -> res (list N) :=
  fix subs (l : list (etree + cdata)) : res (list N) :=
    match l with
    | [] => Val []
    | inl sub :: l' => (let* a := rec sub in let* b := subs l' in Val (a ++ b))%res
    | inr _ :: l' => subs l'
    end.

Section Elem.
Variable strict : bool.
Variable T : tables.
Variable tab_el tab_at tab_en : nametab.
Variable check_fn : N -> list N -> res bool.
Variable float_fmt : N -> list N.
Variable float_parse : list N -> option N.
Variable ver : N.

Notation SER := (ser_elem T tab_el tab_at tab_en float_fmt).
Notation SCD := (ser_cdata tab_en float_fmt).
Notation SAT := (ser_attrs tab_at tab_en float_fmt).

Lemma ser_elem_eq name ty attrs content comment indent inline :
  SER (ENode name ty attrs content comment) indent inline =
  (let* nm := unwrap "ElementName::to_str: STRING_TABLE index" (to_str tab_el name) in
   let* ats := SAT attrs in
   let pre := comment_part comment indent inline ++ (if inline then [] else newline_indent indent) in
   match content with
   | [] => Val (pre ++ [60] ++ nm ++ ats ++ [47; 62])
   | first :: _ =>
     let* mode := content_mode T ty in
     let open_tag := [60] ++ nm ++ ats ++ [62] in
     let close_tag := [60; 47] ++ nm ++ [62] in
     if mode =? MCharacters then
       let* body := match first with inr cd => SCD cd | inl _ => Val [] end in
       Val (pre ++ open_tag ++ body ++ close_tag)
     else if mode =? MMixed then
       let* body := ser_items SCD (fun sub => SER sub (S indent) true) content in
       Val (pre ++ open_tag ++ body ++ close_tag)
     else
       let* body := ser_subs (fun sub => SER sub (S indent) false) content in
       Val (pre ++ open_tag ++ body ++ newline_indent indent ++ close_tag)
   end)%res.
Proof. reflexivity. Qed.

(* ---------- canonical trees ---------- *)
Definition ElemNameOk (name : N) (nm : list N) : Prop :=
  to_str tab_el name = Some nm /\ clean_name nm = true /\ from_bytes tab_el nm = Ok name.

Definition TextOk (ty : etype) (v : cdata) : Prop :=
  exists cs bytes isr, chardata_spec T ty = Val (Some cs) /\ is_ref T ty = Val isr /\
    ValOk tab_en check_fn float_fmt float_parse ver cs v /\ SCD v = Val bytes /\
    forallb markup_free bytes = true /\ forallb is_ws bytes = false.

Definition ConflictOk (ty : etype) (prev idx : list N) : Prop :=
  prev = [] \/ prev = idx \/
  exists g d, find_common_group T ty prev idx = Val g /\ dt T g = Val d /\ dt_mode d <> MChoice /\ dt_mode d <> MCharacters.

Definition same_name (name : N) (c : etree + cdata) : bool := match c with inl e => e_name e =? name | inr _ => false end.

Definition MultOk (ty : etype) (idx : list N) (cname : N) (pre : list (etree + cdata)) : Prop :=
  pre = [] \/
  exists mode, get_sub_element_container_mode T ty idx = Val mode /\
    (((mode =? MSequence) || (mode =? MChoice) = false) \/
     exists m, get_sub_element_multiplicity T ty idx = Val m /\
       match m with Some mult => mult = 2 \/ existsb (same_name cname) pre = false | None => True end).

Definition is_text (c : etree + cdata) : bool := match c with inr _ => true | inl _ => false end.

(* the content fits the layout the serializer uses for the mode *)
Definition ShapeOk (mode : N) (content : list (etree + cdata)) : Prop :=
  if mode =? MCharacters then content = [] \/ exists v, content = [inr v]
  else if mode =? MMixed then forall a b pre post, content = pre ++ a :: b :: post -> is_text a = true -> is_text b = false
  else Forall (fun c => is_text c = false) content.

(* a comment that is read back: the lexer finds its end (CommentOk) and the stored text is the lossy UTF-8 conversion *)
Definition CommentsOk (cm : option (list N)) : Prop :=
  match cm with None => True | Some c => CommentOk c /\ utf8_valid c = true end.

Inductive Canon : etree -> Prop :=
| canon_node name ty attrs content cm nm mode named :
    CommentsOk cm ->
    ElemNameOk name nm -> AttrsOk T tab_at tab_en check_fn float_fmt float_parse ver ty attrs ->
    content_mode T ty = Val mode -> ShapeOk mode content ->
    ChildrenOk ty mode [] [] content ->
    is_named_in_version T ty ver = Val named -> (named = true -> head_short T content = true) ->
    Canon (ENode name ty attrs content cm)
with ChildrenOk : etype -> N -> list N -> list (etree + cdata) -> list (etree + cdata) -> Prop :=
| ck_nil ty mode prev pre : ChildrenOk ty mode prev pre []
| ck_elem ty mode prev pre c rest idx :
    find_sub_element T ty (e_name c) ver = Val (Some (e_type c, idx)) ->
    ConflictOk ty prev idx -> MultOk ty idx (e_name c) pre -> Canon c ->
    ChildrenOk ty mode idx (pre ++ [inl c]) rest -> ChildrenOk ty mode prev pre (inl c :: rest)
| ck_text ty mode prev pre v rest :
    TextOk ty v -> (mode = MCharacters -> pre = []) ->
    ChildrenOk ty mode prev (pre ++ [inr v]) rest -> ChildrenOk ty mode prev pre (inr v :: rest).

(* ---------- the checks of parse_element pass silently on canonical data ---------- *)
Definition same_core (st st' : pstate) : Prop :=
  p_lex st' = p_lex st /\ p_version st' = p_version st /\ p_warnings st' = p_warnings st /\ p_standalone st' = p_standalone st.
Lemma same_core_refl st : same_core st st.                Proof. repeat split. Qed.
Lemma same_core_trans a b c : same_core a b -> same_core b c -> same_core a c.
Proof. intros (A1 & A2 & A3 & A4) (B1 & B2 & B3 & B4). repeat split; congruence. Qed.

Lemma find_elem_ok name ty st r : find_sub_element T ty name (p_version st) = Val (Some r) ->
  find_element_in_spec_checked strict T name ty st = Val (Ret r st).
Proof. intros H. unfold find_element_in_spec_checked. cbv [mbind get]. rewrite H. reflexivity. Qed.

Lemma list_eqbN_refl a : list_eqbN a a = true.
Proof. induction a as [|x a IH]; [reflexivity|]. cbn [list_eqbN]. rewrite N.eqb_refl. exact IH. Qed.

Lemma conflict_ok name ty prev idx st : ConflictOk ty prev idx ->
  check_element_conflict strict T name ty prev idx st = Val (Ret tt st).
Proof.
  unfold check_element_conflict. intros [->|[->|(g & d & FG & ED & M1 & M2)]]; [reflexivity| |].
  - destruct idx; [reflexivity|]. rewrite list_eqbN_refl. reflexivity.
  - destruct prev as [|p0 prev']; [reflexivity|]. destruct (list_eqbN (p0 :: prev') idx); [reflexivity|].
    rewrite FG. change (mbind (lift (Val g)) ?k st) with (k g st). cbv beta. rewrite ED.
    change (mbind (lift (Val d)) ?k st) with (k d st). cbv beta.
    apply N.eqb_neq in M1, M2. rewrite M1, M2. reflexivity.
Qed.

Lemma mult_step_ok name ty idx pre st : MultOk ty idx name pre ->
  (match pre with [] => ret tt | _ :: _ => check_multiplicity strict T name ty idx pre end) st = Val (Ret tt st).
Proof.
  intros [->|(mode & GM & H)]; [reflexivity|]. destruct pre as [|p0 pre']; [reflexivity|].
  unfold check_multiplicity. rewrite GM. change (mbind (lift (Val mode)) ?k st) with (k mode st). cbv beta.
  destruct H as [->|(m & GX & HM)]; [reflexivity|].
  destruct ((mode =? MSequence) || (mode =? MChoice)); [|reflexivity].
  rewrite GX. change (mbind (lift (Val m)) ?k st) with (k m st). cbv beta.
  destruct m as [mult|]; [|reflexivity].
  assert (G : negb (mult =? 2) && existsb (fun c => match c with inl e => e_name e =? name | inr _ => false end) (p0 :: pre') = false).
  { destruct HM as [->|E]; [reflexivity|]. unfold same_name in E. rewrite E. apply andb_false_r. }
  rewrite G. reflexivity.
Qed.

(* ---------- the lexer inside the parser state ---------- *)
Definition at_rest (st : pstate) (bytes : list N) : Prop := l_rest (p_lex st) = bytes /\ l_deferred (p_lex st) = None.
Definition adv (st st' : pstate) (tail : list N) : Prop :=
  at_rest st' tail /\ p_version st' = p_version st /\ p_warnings st' = p_warnings st /\ p_standalone st' = p_standalone st.

Lemma adv_core st st1 st2 tail : adv st st1 tail -> same_core st1 st2 -> adv st st2 tail.
Proof.
  intros ((A1 & A2) & A3 & A4 & A5) (B1 & B2 & B3 & B4). unfold adv, at_rest. rewrite B1, B2, B3, B4. auto.
Qed.
Lemma adv_trans st st1 st2 t1 t2 : adv st st1 t1 -> adv st1 st2 t2 -> adv st st2 t2.
Proof. intros (A1 & A2 & A3 & A4) (B1 & B2 & B3 & B4). unfold adv. split; [exact B1|]. repeat split; congruence. Qed.
Lemma core_adv st st1 st2 tail : same_core st st1 -> adv st1 st2 tail -> adv st st2 tail.
Proof. intros (A1 & A2 & A3 & A4) (B1 & B2 & B3 & B4). unfold adv. split; [exact B1|]. repeat split; congruence. Qed.

Lemma pnext_of_lex st ws X ev tail d : at_rest st (ws ++ 60 :: X) -> blanks ws ->
  (forall f line', exists l1 l2, lex_next (S f) (mk (60 :: X) line' None) = Val (LOk l1 ev (mk tail l2 d))) ->
  exists st', pnext st = Val (Ret ev st') /\ l_rest (p_lex st') = tail /\ l_deferred (p_lex st') = d /\
              p_version st' = p_version st /\ p_warnings st' = p_warnings st /\ p_standalone st' = p_standalone st.
Proof.
  intros [R D] WS H. unfold pnext, next, lex_fuel. destruct (p_lex st) as [rest line dd] eqn:EL. cbn [l_rest l_deferred] in *. subst rest dd.
  assert (G : exists l1 l2, lex_next (S (List.length (ws ++ 60 :: X))) (mk (ws ++ 60 :: X) line None) = Val (LOk l1 ev (mk tail l2 d))).
  { destruct ws as [|c ws'].
    - cbn [app]. apply H.
    - rewrite (lex_skip_blanks _ (c :: ws') X line ltac:(discriminate) WS). rewrite app_length. cbn [List.length].
      rewrite Nat.add_succ_r. apply H. }
  destruct G as (l1 & l2 & G). unfold mk in G. rewrite G. eexists. split; [reflexivity|]. cbn. auto.
Qed.

Lemma pnext_text st vb X : at_rest st (vb ++ 60 :: X) -> vb <> [] -> Forall (fun x => x <> 60) vb -> forallb is_ws vb = false ->
  exists st', pnext st = Val (Ret (EvChars vb) st') /\ adv st st' (60 :: X).
Proof.
  intros [R D] NE F NW. unfold pnext, next, lex_fuel. destruct (p_lex st) as [rest line dd] eqn:EL. cbn [l_rest l_deferred] in *. subst rest dd.
  pose proof (lex_text (List.length (vb ++ 60 :: X)) vb X line NE F NW) as G. unfold mk in G. rewrite G.
  eexists. split; [reflexivity|]. unfold adv, at_rest. cbn. auto.
Qed.

Lemma pnext_deferred st nm : l_deferred (p_lex st) = Some nm ->
  exists st', pnext st = Val (Ret (EvEnd nm) st') /\ adv st st' (l_rest (p_lex st)).
Proof.
  intros D. unfold pnext, next. destruct (p_lex st) as [rest line dd] eqn:EL. cbn [l_rest l_deferred] in *. subst dd.
  pose proof (lex_deferred (lex_fuel (mk rest line (Some nm))) rest line nm) as G. unfold mk in G. rewrite G.
  eexists. split; [reflexivity|]. unfold adv, at_rest. cbn. auto.
Qed.

Lemma split_tag_name nm ats : Forall (fun x => is_ws x = false) nm -> (ats = [] \/ exists r, ats = 32 :: r) ->
  split_tag (nm ++ ats) = (nm, skipn 1 ats).
Proof.
  intros F [->|(r & ->)]; unfold split_tag.
  - rewrite app_nil_r. rewrite (position_none_all nm); [reflexivity|].
    apply forallb_forall. intros x Hx. rewrite Forall_forall in F. rewrite (F x Hx). reflexivity.
  - rewrite (position_app_hit nm 32 r); [|apply forallb_forall; intros x Hx; rewrite Forall_forall in F; rewrite (F x Hx); reflexivity|reflexivity].
    rewrite firstn_app_exact, skipn_app_S. reflexivity.
Qed.

(* ---------- steps of the element loop ---------- *)
Notation PL := (pe_loop strict T tab_el tab_at tab_en check_fn float_parse).
Notation PE := (parse_element strict T tab_el tab_at tab_en check_fn float_parse).
Definition recT := N -> etype -> list (N * cdata) -> option (list N) -> list N -> list nat -> M etree.

Lemma set_cur_rest st n bytes : at_rest st bytes -> at_rest (set_cur st n) bytes.
Proof. exact (fun H => H). Qed.

(* a text item *)
Lemma text_step (rec : recT) k name ty attrs comment pos pre prev snf stored path st v vb X mode cs isr :
  chardata_spec T ty = Val (Some cs) -> is_ref T ty = Val isr ->
  ValOk tab_en check_fn float_fmt float_parse ver cs v -> SCD v = Val vb ->
  forallb markup_free vb = true -> forallb is_ws vb = false ->
  content_mode T ty = Val mode -> (mode = MCharacters -> pre = []) ->
  at_rest st (vb ++ 60 :: X) -> p_version st = ver ->
  exists st', PL rec (S k) name ty attrs comment pos pre prev snf stored path st
              = PL rec k name ty attrs comment pos (pre ++ [inr v]) prev snf stored path st' /\ adv st st' (60 :: X).
Proof.
  intros CS IR VO SC MF NW CM PRE AR PV.
  assert (NE : vb <> []) by (intros ->; discriminate NW).
  assert (N60 : Forall (fun x => x <> 60) vb).
  { apply Forall_forall. intros x Hx E. subst x. rewrite forallb_forall in MF. specialize (MF _ Hx). discriminate MF. }
  destruct (pnext_text (set_cur st name) vb X (set_cur_rest _ _ _ AR) NE N60 NW) as (st1 & E1 & A1).
  cbn [pe_loop].
  rewrite (mbind_ret_step _ _ st tt (set_cur st name) eq_refl).
  rewrite (mbind_ret_step _ _ _ _ _ E1).
  rewrite CS. change (mbind (lift (Val (Some cs))) ?k0 st1) with (k0 (Some cs) st1). cbv beta iota.
  rewrite CM. change (mbind (lift (Val mode)) ?k0 st1) with (k0 mode st1). cbv beta.
  assert (G : (mode =? MCharacters) && negb match pre with [] => true | _ :: _ => false end = false).
  { destruct (mode =? MCharacters) eqn:Z; [|reflexivity]. apply N.eqb_eq in Z. rewrite (PRE Z). reflexivity. }
  rewrite G.
  assert (PV1 : p_version st1 = ver) by (destruct A1 as (_ & V & _); cbn in V; congruence).
  destruct (value_roundtrip strict tab_en check_fn float_fmt float_parse ver cs v st1 VO PV1) as (vb' & c1 & SC' & PC).
  rewrite SC in SC'. injection SC' as <-.
  rewrite (mbind_ret_step _ _ _ _ _ PC).
  rewrite IR. change (mbind (lift (Val isr)) ?k0 ?s0) with (k0 isr s0). cbv beta.
  set (st2 := set_compat st1 c1).
  assert (R : exists st3, (match v with DString refpath => if isr then modify (fun st0 => add_ref st0 (refpath, rev pos)) else ret tt | _ => ret tt end) st2
                          = Val (Ret tt st3) /\ same_core st2 st3).
  { destruct v; try (exists st2; split; [reflexivity|apply same_core_refl]).
    destruct isr; [eexists; split; [reflexivity|repeat split]|exists st2; split; [reflexivity|apply same_core_refl]]. }
  destruct R as (st3 & E3 & C3). rewrite (mbind_ret_step _ _ _ _ _ E3).
  exists st3. split; [reflexivity|].
  eapply adv_core; [|exact C3]. eapply adv_core; [|instantiate (1 := st1); repeat split].
  destruct A1 as (A1 & A2 & A3). split; [exact A1|]. split; [exact A2|exact A3].
Qed.

(* the end of an element: after the event EvEnd nm *)
Lemma end_tail (rec : recT) name ty attrs comment content snf nm named st1 :
  from_bytes tab_el nm = Ok name -> is_named_in_version T ty (p_version st1) = Val named -> (named = true -> snf = true) ->
  (mbind (lift (name_of tab_el nm)) (fun nm0 =>
     match nm0 with
     | Some n =>
       if n =? name then
         mbind get (fun st0 => mbind (lift (is_named_in_version T ty (p_version st0))) (fun named0 =>
           mbind (if negb snf && named0 then optional_error strict RequiredSubelementMissing name (name_short_name T) else ret tt)
             (fun _ => ret (ENode name ty attrs content comment))))
       else hard IncorrectEndElement name n
     | None => hard InvalidEndElement name 0
     end)) st1 = Val (Ret (ENode name ty attrs content comment) st1).
Proof.
  intros FB NV SN. unfold name_of. rewrite FB. change (mbind (lift (Val (Some name))) ?k0 st1) with (k0 (Some name) st1). cbv beta iota.
  rewrite N.eqb_refl. cbv [mbind get]. rewrite NV. cbn [lift].
  assert (G : negb snf && named = false).
  { destruct named; [rewrite (SN eq_refl); reflexivity|apply andb_false_r]. }
  rewrite G. reflexivity.
Qed.

Lemma end_step (rec : recT) k name ty attrs comment pos content prev snf stored path st ws nm tail named :
  ElemNameOk name nm -> is_named_in_version T ty ver = Val named -> (named = true -> snf = true) ->
  blanks ws -> at_rest st (ws ++ [60; 47] ++ nm ++ [62] ++ tail) -> p_version st = ver ->
  exists st', PL rec (S k) name ty attrs comment pos content prev snf stored path st
              = Val (Ret (ENode name ty attrs content comment) st') /\ adv st st' tail.
Proof.
  intros (TS & CN & FB) NV SN WS AR PV. destruct (clean_name_props nm CN) as (_ & FN).
  assert (F62 : Forall (fun x => x <> 62) nm) by (eapply Forall_impl; [|exact FN]; cbn; tauto).
  destruct (pnext_of_lex (set_cur st name) ws (47 :: nm ++ 62 :: tail) (EvEnd nm) tail None (set_cur_rest _ _ _ AR) WS) as (st1 & E1 & R1 & D1 & V1 & W1).
  { intros f line'. do 2 eexists. apply (lex_end_tag f nm tail line' F62). }
  cbn [pe_loop]. rewrite (mbind_ret_step _ _ st tt (set_cur st name) eq_refl). rewrite (mbind_ret_step _ _ _ _ _ E1).
  cbn [p_version set_cur] in V1.
  rewrite (end_tail rec name ty attrs comment content snf nm named st1 FB ltac:(rewrite V1, PV; exact NV) SN).
  exists st1. split; [reflexivity|]. unfold adv, at_rest. cbn [p_warnings set_cur] in W1. auto.
Qed.

Lemma deferred_end_step (rec : recT) k name ty attrs comment pos content prev snf stored path st nm named :
  ElemNameOk name nm -> is_named_in_version T ty ver = Val named -> (named = true -> snf = true) ->
  l_deferred (p_lex st) = Some nm -> p_version st = ver ->
  exists st', PL rec (S k) name ty attrs comment pos content prev snf stored path st
              = Val (Ret (ENode name ty attrs content comment) st') /\ adv st st' (l_rest (p_lex st)).
Proof.
  intros (TS & CN & FB) NV SN D PV.
  destruct (pnext_deferred (set_cur st name) nm D) as (st1 & E1 & (A1 & V1 & W1)).
  cbn [pe_loop]. rewrite (mbind_ret_step _ _ st tt (set_cur st name) eq_refl). rewrite (mbind_ret_step _ _ _ _ _ E1).
  cbn [p_version set_cur p_warnings p_lex] in *.
  rewrite (end_tail rec name ty attrs comment content snf nm named st1 FB ltac:(rewrite V1, PV; exact NV) SN).
  exists st1. split; [reflexivity|]. unfold adv. auto.
Qed.

(* what the loop does with the parsed child *)
Definition after_child (rec : recT) (k : nat) (pname : N) (pty : etype) (pattrs : list (N * cdata)) (pcomment : option (list N))
    (ppos : list nat) (pcontent : list (etree + cdata)) (idx : list N) (psnf : bool) (ppath : list N) (sub_name : N) : etree -> M etree :=
  fun sub =>
    if (sub_name =? name_short_name T) && emptyb pcontent then
      match first_string sub with
      | Some name_string =>
        mbind (modify (fun st => add_ident st (ppath ++ [47] ++ name_string, rev ppos)))
              (fun _ => PL rec k pname pty pattrs pcomment ppos (pcontent ++ [inl sub]) idx true None (ppath ++ [47] ++ name_string))
      | None => PL rec k pname pty pattrs pcomment ppos (pcontent ++ [inl sub]) idx true None ppath
      end
    else PL rec k pname pty pattrs pcomment ppos (pcontent ++ [inl sub]) idx psnf None ppath.

Lemma after_child_ok rec k pname pty pattrs pcomment ppos pcontent idx psnf ppath sub_name sub st5 :
  exists path' st',
    after_child rec k pname pty pattrs pcomment ppos pcontent idx psnf ppath sub_name sub st5
    = PL rec k pname pty pattrs pcomment ppos (pcontent ++ [inl sub]) idx (if (sub_name =? name_short_name T) && emptyb pcontent then true else psnf) None path' st'
    /\ same_core st5 st'.
Proof.
  unfold after_child. destruct ((sub_name =? name_short_name T) && emptyb pcontent).
  - destruct (first_string sub) as [s0|].
    + eexists _, _. split; [reflexivity|]. repeat split.
    + exists ppath, st5. split; [reflexivity|apply same_core_refl].
  - exists ppath, st5. split; [reflexivity|apply same_core_refl].
Qed.

(* a comment: stored for the next element *)
Lemma comment_step (rec : recT) k name ty attrs comment pos content prev snf stored path st ws c X :
  CommentOk c -> utf8_valid c = true -> blanks ws -> at_rest st (ws ++ comment_text c ++ 62 :: X) ->
  exists st', PL rec (S k) name ty attrs comment pos content prev snf stored path st
              = PL rec k name ty attrs comment pos content prev snf (Some c) path st' /\ adv st st' X.
Proof.
  intros CO UV WS AR.
  destruct (pnext_of_lex (set_cur st name) ws (33 :: 45 :: 45 :: c ++ [45; 45] ++ 62 :: X) (EvComment c) X None) as (st1 & E1 & R1 & D1 & V1 & W1 & S1).
  { unfold at_rest in *. cbn [p_lex set_cur]. destruct AR as [A1 A2]. split; [|exact A2]. rewrite A1. unfold comment_text.
    cbn [app]. rewrite <- !app_assoc. reflexivity. }
  { exact WS. }
  { intros f line'. do 2 eexists.
    pose proof (lex_comment f c X line' CO) as G. unfold comment_text in G. cbn [app] in G. rewrite <- !app_assoc in G. cbn [app] in G.
    exact G. }
  cbn [pe_loop]. rewrite (mbind_ret_step _ _ st tt (set_cur st name) eq_refl). rewrite (mbind_ret_step _ _ _ _ _ E1).
  rewrite (utf8_lossy_valid c UV). exists st1. split; [reflexivity|]. unfold adv, at_rest. cbn in V1, W1, S1. auto.
Qed.

(* from the begin event to the recursive call *)
Lemma open_gen (rec : recT) k pname pty pattrs pcomment ppos pcontent pidx psnf stored ppath st st1 name nm ty attrs ats idx :
  pnext (set_cur st pname) = Val (Ret (EvBegin nm (skipn 1 ats)) st1) -> p_version st1 = ver ->
  ElemNameOk name nm -> AttrsOk T tab_at tab_en check_fn float_fmt float_parse ver ty attrs -> SAT attrs = Val ats ->
  find_sub_element T pty name ver = Val (Some (ty, idx)) -> ConflictOk pty pidx idx -> MultOk pty idx name pcontent ->
  exists st4,
    PL rec (S k) pname pty pattrs pcomment ppos pcontent pidx psnf stored ppath st
    = mbind (rec name ty attrs stored ppath (List.length pcontent :: ppos))
            (after_child rec k pname pty pattrs pcomment ppos pcontent idx psnf ppath name) st4
    /\ same_core st1 st4.
Proof.
  intros E1 PV1 (TS & CN & FB) AO SA FS CO MO.
  cbn [pe_loop]. rewrite (mbind_ret_step _ _ st tt (set_cur st pname) eq_refl). rewrite (mbind_ret_step _ _ _ _ _ E1).
  unfold name_of at 1. rewrite FB. change (mbind (lift (Val (Some name))) ?k0 st1) with (k0 (Some name) st1). cbv beta iota.
  rewrite <- PV1 in FS. rewrite (mbind_ret_step _ _ _ _ _ (find_elem_ok name pty st1 (ty, idx) FS)). cbv beta iota.
  rewrite (mbind_ret_step _ _ _ _ _ (conflict_ok name pty pidx idx st1 CO)).
  rewrite (mbind_ret_step _ _ _ _ _ (mult_step_ok name pty idx pcontent st1 MO)).
  destruct (attrs_roundtrip_lexed strict T tab_at tab_en check_fn float_fmt float_parse ver ty attrs st1 ats AO PV1 SA) as (c & PA).
  rewrite (mbind_ret_step _ _ _ _ _ PA).
  exists (set_compat st1 c). split; [reflexivity|repeat split].
Qed.

(* ---------- the content of an element ---------- *)
Inductive ItemsSer (indent : nat) (inline : bool) : list (etree + cdata) -> list N -> Prop :=
| iss_nil : ItemsSer indent inline [] []
| iss_elem c l b bs : SER c indent inline = Val b -> ItemsSer indent inline l bs -> ItemsSer indent inline (inl c :: l) (b ++ bs)
| iss_text v l vb bs : SCD v = Val vb -> ItemsSer indent inline l bs -> ItemsSer indent inline (inr v :: l) (vb ++ bs).

Lemma ser_items_rel indent l : forall body, ser_items SCD (fun sub => SER sub indent true) l = Val body -> ItemsSer indent true l body.
Proof.
  induction l as [|[c|v] l IH]; intros body H.
  - injection H as <-. constructor.
  - change (ser_items SCD (fun sub => SER sub indent true) (inl c :: l)) with
      (bind (SER c indent true) (fun a => bind (ser_items SCD (fun sub => SER sub indent true) l) (fun b => Val (a ++ b)))) in H.
    destruct (SER c indent true) as [a| |] eqn:E; try discriminate H. cbn [bind] in H.
    destruct (ser_items SCD (fun sub => SER sub indent true) l) as [b| |]; try discriminate H. injection H as <-.
    constructor; [exact E|apply IH; reflexivity].
  - change (ser_items SCD (fun sub => SER sub indent true) (inr v :: l)) with
      (bind (SCD v) (fun a => bind (ser_items SCD (fun sub => SER sub indent true) l) (fun b => Val (a ++ b)))) in H.
    destruct (SCD v) as [a| |] eqn:E; try discriminate H. cbn [bind] in H.
    destruct (ser_items SCD (fun sub => SER sub indent true) l) as [b| |]; try discriminate H. injection H as <-.
    constructor; [exact E|apply IH; reflexivity].
Qed.

Lemma ser_subs_rel indent l : Forall (fun c => is_text c = false) l ->
  forall body, ser_subs (fun sub => SER sub indent false) l = Val body -> ItemsSer indent false l body.
Proof.
  induction 1 as [|[c|v] l NT F IH]; intros body H.
  - injection H as <-. constructor.
  - change (ser_subs (fun sub => SER sub indent false) (inl c :: l)) with
      (bind (SER c indent false) (fun a => bind (ser_subs (fun sub => SER sub indent false) l) (fun b => Val (a ++ b)))) in H.
    destruct (SER c indent false) as [a| |] eqn:E; try discriminate H. cbn [bind] in H.
    destruct (ser_subs (fun sub => SER sub indent false) l) as [b| |]; try discriminate H. injection H as <-.
    constructor; [exact E|apply IH; reflexivity].
  - discriminate NT.
Qed.

Definition no_adjacent (l : list (etree + cdata)) : Prop :=
  forall a b pre post, l = pre ++ a :: b :: post -> is_text a = true -> is_text b = false.

Lemma no_adjacent_tail x l : no_adjacent (x :: l) -> no_adjacent l.
Proof. intros H a b pre post E. apply (H a b (x :: pre) post). rewrite E. reflexivity. Qed.

Definition starts60 (x : list N) : Prop := exists X, x = 60 :: X.

Definition closing (wsc nm : list N) : list N := wsc ++ [60; 47] ++ nm ++ [62].
Lemma closing_app wsc nm tail : closing wsc nm ++ tail = wsc ++ [60; 47] ++ nm ++ [62] ++ tail.
Proof. unfold closing. rewrite <- !app_assoc. reflexivity. Qed.

(* one child element is consumed by its parent's loop (the statement proved by induction on the depth) *)
Definition StepOK (f lf d : nat) : Prop :=
  forall c, Canon c -> (depth c <= d)%nat -> (width c < lf)%nat ->
  forall indent inline bytes, SER c indent inline = Val bytes ->
  forall k pname pty pattrs pcomment ppos pcontent pidx psnf ppath st tail idx,
    find_sub_element T pty (e_name c) ver = Val (Some (e_type c, idx)) -> ConflictOk pty pidx idx -> MultOk pty idx (e_name c) pcontent ->
    at_rest st (bytes ++ tail) -> p_version st = ver ->
    exists path' st',
      PL (PE f lf) (cost (inl c) + k) pname pty pattrs pcomment ppos pcontent pidx psnf None ppath st
      = PL (PE f lf) k pname pty pattrs pcomment ppos (pcontent ++ [inl c]) idx
           (if (e_name c =? name_short_name T) && emptyb pcontent then true else psnf) None path' st'
      /\ adv st st' tail.

Lemma canon_inline_starts60 c indent bytes : Canon c -> SER c indent true = Val bytes -> starts60 bytes.
Proof.
  intros CA H. destruct CA as [name ty attrs content cm nm mode named _ (TS & _) _ _ _ _ _ _]. rewrite ser_elem_eq in H.
  rewrite TS in H. cbn [unwrap bind] in H. destruct (SAT attrs) as [ats| |]; try discriminate H. cbn [bind] in H.
  cbv zeta in H.
  assert (PRE : starts60 ((comment_part cm indent true ++ []) ++ [60])).
  { destruct cm as [c0|]; cbn [comment_part app]; eexists; reflexivity. }
  assert (G : forall X, starts60 ((comment_part cm indent true ++ []) ++ [60] ++ X)).
  { intros X. destruct PRE as (Y & EY). rewrite app_assoc, EY. eexists. reflexivity. }
  destruct content as [|first rest].
  - injection H as <-. apply G.
  - destruct (content_mode T ty) as [m| |]; try discriminate H. cbn [bind] in H.
    destruct (m =? MCharacters).
    + destruct (match first with inr cd => SCD cd | inl _ => Val [] end); try discriminate H. injection H as <-.
      rewrite <- !app_assoc. rewrite app_assoc. apply G.
    + destruct (m =? MMixed).
      * destruct (ser_items _ _ _); try discriminate H. injection H as <-. rewrite <- !app_assoc. rewrite app_assoc. apply G.
      * destruct (ser_subs _ _); try discriminate H. injection H as <-. rewrite <- !app_assoc. rewrite app_assoc. apply G.
Qed.

Lemma children_loop f lf d : StepOK f lf d ->
  forall cname cty cattrs ccm nm mode named pos indent inline wsc,
  ElemNameOk cname nm -> content_mode T cty = Val mode -> is_named_in_version T cty ver = Val named -> blanks wsc ->
  forall l pre prev snf path st k bs tail,
    ChildrenOk cty mode prev pre l ->
    (forall c, In (inl c) l -> (depth c <= d)%nat /\ (width c < lf)%nat) ->
    ItemsSer indent inline l bs ->
    (Forall (fun c => is_text c = false) l \/ (inline = true /\ wsc = [] /\ no_adjacent l)) ->
    at_rest st (bs ++ closing wsc nm ++ tail) -> p_version st = ver ->
    (lcost l < k)%nat -> snf = head_short T pre ->
    (named = true -> head_short T (pre ++ l) = true) ->
    exists st', PL (PE f lf) k cname cty cattrs ccm pos pre prev snf None path st
                = Val (Ret (ENode cname cty cattrs (pre ++ l) ccm) st') /\ adv st st' tail.
Proof.
  intros STEP cname cty cattrs ccm nm mode named pos indent inline wsc EN CM NV WSC.
  induction l as [|item l IH]; intros pre prev snf path st k bs tail CK DW IS TX AR PV LK SNF NAMED.
  - inversion IS; subst. cbn [app] in AR. rewrite app_nil_r. destruct k as [|k]; [cbn in LK; lia|].
    rewrite closing_app in AR.
    apply (end_step (PE f lf) k cname cty cattrs ccm pos pre prev (head_short T pre) None path st wsc nm tail named EN NV
             ltac:(rewrite app_nil_r in NAMED; exact NAMED) WSC AR PV).
  - cbn [lcost] in LK.
    assert (TX' : Forall (fun c => is_text c = false) l \/ (inline = true /\ wsc = [] /\ no_adjacent l)).
    { destruct TX as [F|(A & B & C)]; [left; inversion F; assumption|right; split; [exact A|split; [exact B|eapply no_adjacent_tail; exact C]]]. }
    assert (DW' : forall c, In (inl c) l -> (depth c <= d)%nat /\ (width c < lf)%nat) by (intros c H; apply DW; right; exact H).
    inversion CK as [|ty0 m0 prev0 pre0 c rest idx FS CO MO CA CK'|ty0 m0 prev0 pre0 v rest TO PRE CK']; subst.
    + (* a child element *)
      inversion IS as [|c0 l0 b bs' SB IS'|]; subst. rewrite <- app_assoc in AR.
      destruct (DW c (or_introl eq_refl)) as [DC WC].
      replace k with (cost (inl c) + (k - cost (inl c)))%nat by lia.
      destruct (STEP c CA DC WC indent inline b SB (k - cost (inl c))%nat cname cty cattrs ccm pos pre prev (head_short T pre) path st
                  (bs' ++ closing wsc nm ++ tail) idx FS CO MO AR PV)
        as (path' & st1 & E1 & A1).
      rewrite E1.
      destruct (IH (pre ++ [inl c]) idx (if (e_name c =? name_short_name T) && emptyb pre then true else head_short T pre) path' st1
                  (k - cost (inl c))%nat bs' tail
                  CK' DW' IS' TX' ltac:(destruct A1 as (A & _); exact A) ltac:(destruct A1 as (_ & V & _); congruence)
                  ltac:(lia)
                  ltac:(rewrite head_short_snoc; cbn [is_short]; destruct pre; cbn [emptyb head_short];
                        [rewrite andb_true_r; destruct (e_name c =? name_short_name T); reflexivity|rewrite andb_false_r; reflexivity])
                  ltac:(rewrite <- app_assoc; exact NAMED))
        as (st2 & E2 & A2).
      exists st2. rewrite E2, <- app_assoc. split; [reflexivity|]. eapply adv_trans; eassumption.
    + (* a text item *)
      cbn [cost] in LK. destruct k as [|k]; [lia|].
      inversion IS as [| |v0 l0 vb bs' SV IS']; subst. rewrite <- app_assoc in AR.
      destruct TO as (cs & vb' & isr & CS & IR & VO & SV' & MF & NW). rewrite SV in SV'. injection SV' as <-.
      assert (N60 : starts60 (bs' ++ closing wsc nm ++ tail)).
      { destruct TX as [F|(IL & WS0 & NA)]; [inversion F as [|? ? NT _]; discriminate NT|]. subst inline wsc.
        inversion IS' as [|c1 l1 b1 bs1 SB1 IS1|v1 l1 vb1 bs1 SV1 IS1]; subst.
        - eexists. reflexivity.
        - inversion CK' as [|? ? ? ? ? ? ? ? ? ? CA1 ?|]; subst. destruct (canon_inline_starts60 c1 indent b1 CA1 SB1) as (X & ->).
          eexists. reflexivity.
        - specialize (NA (inr v) (inr v1) [] l1 eq_refl eq_refl). discriminate NA. }
      destruct N60 as (X & EX). rewrite EX in AR.
      destruct (text_step (PE f lf) k cname cty cattrs ccm pos pre prev (head_short T pre) None path st v vb X mode cs isr
                  CS IR VO SV MF NW CM PRE AR PV) as (st1 & E1 & A1).
      rewrite E1.
      destruct (IH (pre ++ [inr v]) prev (head_short T pre) path st1 k bs' tail
                  CK' DW' IS' TX' ltac:(destruct A1 as (A & _); rewrite <- EX in A; exact A)
                  ltac:(destruct A1 as (_ & V & _); congruence) ltac:(lia)
                  ltac:(rewrite head_short_snoc; destruct pre; reflexivity)
                  ltac:(rewrite <- app_assoc; exact NAMED))
        as (st2 & E2 & A2).
      exists st2. rewrite E2, <- app_assoc. split; [reflexivity|]. eapply adv_trans; eassumption.
Qed.

Lemma blanks_indent (b : bool) n : blanks (if b then @nil N else newline_indent n).
Proof.
  destruct b; [reflexivity|]. unfold blanks, newline_indent. cbn [forallb is_ws N.eqb Pos.eqb orb andb].
  induction n as [|n IH]; [reflexivity|]. cbn [List.repeat List.concat app forallb]. exact IH.
Qed.

Lemma name_head nm : clean_name nm = true -> exists c1 tl, nm = c1 :: tl /\ c1 <> 47 /\ c1 <> 63 /\ c1 <> 33.
Proof.
  intros CN. destruct (clean_name_props nm CN) as (NE & FN). destruct nm as [|c1 tl]; [congruence|].
  inversion FN as [|? ? H _]; subst. exists c1, tl. split; [reflexivity|]. tauto.
Qed.

Ltac norm_in H := repeat (first [rewrite <- app_assoc in H | progress (cbn [app] in H)]).
Ltac norm_goal := repeat (first [rewrite <- app_assoc | progress (cbn [app])]).

Lemma PE_S f lf n ty a c p ps : PE (S f) lf n ty a c p ps = PL (PE f lf) lf n ty a c ps [] [] false None p.
Proof. reflexivity. Qed.

(* the element round trip, one level of nesting at a time *)
Theorem elem_step : forall d f lf, (d <= f)%nat -> StepOK f lf d.
Proof.
  induction d as [|d IH]; intros f lf DF c CA DC WC indent inline bytes SB k pname pty pattrs pcomment ppos pcontent pidx psnf ppath st tail idx FS CO MO AR PV.
  { destruct c. rewrite depth_node in DC. lia. }
  destruct f as [|f]; [lia|].
  destruct CA as [name ty attrs content cm nm mode named CMO EN AO CM SH CK NV NAMED].
  cbn [e_name e_type] in *. rewrite depth_node in DC. rewrite width_node in WC.
  destruct EN as (TS & CN & FB).
  destruct (clean_name_props nm CN) as (NE & FN).
  assert (FWS : Forall (fun x => is_ws x = false) nm) by (eapply Forall_impl; [|exact FN]; cbn; tauto).
  assert (F62 : Forall (fun x => x <> 62) nm) by (eapply Forall_impl; [|exact FN]; cbn; tauto).
  destruct (name_head nm CN) as (c1 & tl & ENM & H47 & H63 & H33).
  destruct AO as [AF AREQ]. pose proof (conj AF AREQ) as AO.
  destruct (ser_attrs_total T tab_at tab_en check_fn float_fmt float_parse ver ty attrs AF) as (ats & SA & ASH & _).
  destruct (ser_attrs_bytes T tab_at tab_en check_fn float_fmt float_parse ver ty attrs ats AF SA) as (A62 & ALAST).
  rewrite ser_elem_eq, TS, SA in SB. cbn [unwrap bind] in SB. cbv zeta in SB.
  set (ws := if inline then [] else newline_indent indent) in *.
  assert (WS : blanks ws) by apply blanks_indent.
  assert (INNER : Forall (fun x => x <> 62) (nm ++ ats)) by (apply Forall_app; auto).
  assert (SPLIT : split_tag (nm ++ ats) = (nm, skipn 1 ats)) by (apply split_tag_name; assumption).
  assert (ENM' : nm ++ ats = c1 :: (tl ++ ats)) by (rewrite ENM; reflexivity).
  (* the comment, if any, is one event of the parent loop *)
  assert (CMT : forall rest_bytes, at_rest st ((comment_part cm indent inline ++ ws) ++ rest_bytes) ->
            exists st0, PL (PE (S f) lf) (cost (inl (ENode name ty attrs content cm)) + k) pname pty pattrs pcomment ppos pcontent pidx psnf None ppath st
                        = PL (PE (S f) lf) (S k) pname pty pattrs pcomment ppos pcontent pidx psnf cm ppath st0
                        /\ adv st st0 (ws ++ rest_bytes)).
  { intros rest_bytes AR0. destruct cm as [c0|]; cbn [cost e_comment comment_part app] in *.
    - destruct CMO as [CO0 UV0].
      destruct (comment_step (PE (S f) lf) (S k) pname pty pattrs pcomment ppos pcontent pidx psnf None ppath st ws c0 (ws ++ rest_bytes) CO0 UV0 WS)
        as (st0 & E0 & A0).
      { fold ws in AR0. unfold comment_text. norm_in AR0. norm_goal. exact AR0. }
      exists st0. split; [exact E0|exact A0].
    - exists st. split; [reflexivity|]. unfold adv. split; [exact AR0|auto]. }
  destruct content as [|first rest].
  - (* <nm ats/> *)
    injection SB as <-.
    destruct (CMT ([60] ++ nm ++ ats ++ [47; 62] ++ tail)) as (st0 & E0 & A0).
    { norm_in AR. norm_goal. exact AR. }
    rewrite E0. destruct A0 as (AR0 & PV0 & PW0 & PS0).
    assert (AR' : at_rest st0 (ws ++ 60 :: (nm ++ ats) ++ 47 :: 62 :: tail)).
    { norm_in AR0. norm_goal. exact AR0. }
    destruct (pnext_of_lex (set_cur st0 pname) ws ((nm ++ ats) ++ 47 :: 62 :: tail) (EvBegin nm (skipn 1 ats)) tail (Some nm)
                (set_cur_rest _ _ _ AR') WS) as (st1 & E1 & R1 & D1 & V1 & W1 & S1).
    { intros f0 line'. do 2 eexists.
      rewrite (lex_empty_tag f0 (nm ++ ats) tail line' c1 (tl ++ ats) ENM' H47 H63 H33 INNER). rewrite SPLIT. reflexivity. }
    cbn [p_version p_warnings p_standalone set_cur] in V1, W1, S1.
    destruct (open_gen (PE (S f) lf) k pname pty pattrs pcomment ppos pcontent pidx psnf cm ppath st0 st1 name nm ty attrs ats idx
                E1 ltac:(congruence) (conj TS (conj CN FB)) AO SA FS CO MO) as (st4 & E4 & C4).
    rewrite E4. unfold mbind at 1. rewrite PE_S.
    destruct C4 as (C4a & C4b & C4c & C4d).
    destruct lf as [|lf']; [cbn in WC; lia|].
    destruct (deferred_end_step (PE f (S lf')) lf' name ty attrs cm (List.length pcontent :: ppos) [] [] false None ppath st4 nm named
                (conj TS (conj CN FB)) NV ltac:(intros Hn; specialize (NAMED Hn); discriminate NAMED)
                ltac:(rewrite C4a; exact D1) ltac:(congruence)) as (st5 & E5 & A5).
    rewrite E5.
    destruct (after_child_ok (PE (S f) (S lf')) k pname pty pattrs pcomment ppos pcontent idx psnf ppath name
                (ENode name ty attrs [] cm) st5) as (path' & st6 & E6 & C6).
    rewrite E6. exists path', st6. split; [reflexivity|].
    eapply adv_core; [|exact C6]. destruct A5 as ((A5a & A5b) & A5c & A5d & A5e). rewrite C4a, R1 in A5a.
    unfold adv, at_rest. repeat split; congruence.
  - (* <nm ats> content </nm> *)
    remember (first :: rest) as content eqn:EC.
    assert (LASTI : last (nm ++ ats) 0 <> 47).
    { destruct ats as [|a0 ats'].
      - rewrite app_nil_r. destruct (exists_last NE) as (l0 & x & EL). rewrite EL, last_last. rewrite EL in FN.
        apply Forall_app in FN as [_ FX]. inversion FX as [|? ? HX _]; subst. tauto.
      - rewrite last_app_ne by discriminate. rewrite ALAST by discriminate. discriminate. }
    assert (BODY : forall body wsc indent' inline', blanks wsc -> ItemsSer indent' inline' content body ->
              (Forall (fun c => is_text c = false) content \/ (inline' = true /\ wsc = [] /\ no_adjacent content)) ->
              bytes = (comment_part cm indent inline ++ ws) ++ [60] ++ nm ++ ats ++ [62] ++ body ++ closing wsc nm ->
              exists path' st',
                PL (PE (S f) lf) (cost (inl (ENode name ty attrs content cm)) + k) pname pty pattrs pcomment ppos pcontent pidx psnf None ppath st
                = PL (PE (S f) lf) k pname pty pattrs pcomment ppos (pcontent ++ [inl (ENode name ty attrs content cm)]) idx
                     (if (name =? name_short_name T) && emptyb pcontent then true else psnf) None path' st' /\ adv st st' tail).
    { intros body wsc indent' inline' WSC IS TX EB. subst bytes.
      destruct (CMT ([60] ++ nm ++ ats ++ [62] ++ body ++ closing wsc nm ++ tail)) as (st0 & E0 & A0).
      { norm_in AR. norm_goal. exact AR. }
      rewrite E0. destruct A0 as (AR0 & PV0 & PW0 & PS0).
      assert (AR' : at_rest st0 (ws ++ 60 :: (nm ++ ats) ++ 62 :: body ++ closing wsc nm ++ tail)).
      { norm_in AR0. norm_goal. exact AR0. }
      destruct (pnext_of_lex (set_cur st0 pname) ws ((nm ++ ats) ++ 62 :: body ++ closing wsc nm ++ tail) (EvBegin nm (skipn 1 ats))
                  (body ++ closing wsc nm ++ tail) None (set_cur_rest _ _ _ AR') WS) as (st1 & E1 & R1 & D1 & V1 & W1 & S1).
      { intros f0 line'. do 2 eexists.
        rewrite (lex_begin_tag f0 (nm ++ ats) (body ++ closing wsc nm ++ tail) line' c1 (tl ++ ats) ENM' H47 H63 H33 INNER LASTI).
        rewrite SPLIT. reflexivity. }
      cbn [p_version p_warnings p_standalone set_cur] in V1, W1, S1.
      destruct (open_gen (PE (S f) lf) k pname pty pattrs pcomment ppos pcontent pidx psnf cm ppath st0 st1 name nm ty attrs ats idx
                  E1 ltac:(congruence) (conj TS (conj CN FB)) AO SA FS CO MO) as (st4 & E4 & (C4a & C4b & C4c & C4d)).
      rewrite E4. unfold mbind at 1. rewrite PE_S.
      destruct (children_loop f lf d (IH f lf ltac:(lia)) name ty attrs cm nm mode named (List.length pcontent :: ppos) indent' inline' wsc
                  (conj TS (conj CN FB)) CM NV WSC content [] [] false ppath st4 lf body tail CK) as (st5 & E5 & A5).
      { intros c0 HIn. split; [pose proof (maxd_in _ _ HIn); lia|pose proof (maxw_in _ _ HIn); lia]. }
      { exact IS. }
      { exact TX. }
      { unfold at_rest. rewrite C4a. auto. }
      { congruence. }
      { lia. }
      { reflexivity. }
      { exact NAMED. }
      cbn [app] in E5. rewrite E5.
      destruct (after_child_ok (PE (S f) lf) k pname pty pattrs pcomment ppos pcontent idx psnf ppath name
                  (ENode name ty attrs content cm) st5) as (path' & st6 & E6 & C6).
      rewrite E6. exists path', st6. split; [reflexivity|].
      eapply adv_core; [|exact C6]. destruct A5 as (A5a & A5b & A5c & A5d). unfold adv. split; [exact A5a|]. repeat split; congruence. }
    rewrite CM in SB. cbn [bind] in SB. unfold ShapeOk in SH.
    destruct (mode =? MCharacters) eqn:MC.
    + (* one value *)
      destruct SH as [SH|(v & SH)]; [congruence|]. rewrite SH in *. injection EC as <- <-.
      destruct (SCD v) as [vb| |] eqn:SV; try discriminate SB. cbn [bind] in SB. injection SB as <-.
      apply (BODY (vb ++ []) [] (S indent) true eq_refl).
      * constructor; [exact SV|constructor].
      * right. split; [reflexivity|]. split; [reflexivity|]. intros a b pre post E. exfalso.
        apply (f_equal (@List.length _)) in E. rewrite app_length in E. cbn [List.length] in E. lia.
      * unfold closing. norm_goal. reflexivity.
    + destruct (mode =? MMixed) eqn:MM.
      * destruct (ser_items SCD (fun sub => SER sub (S indent) true) content) as [body| |] eqn:SI; try discriminate SB.
        cbn [bind] in SB. injection SB as <-.
        apply (BODY body [] (S indent) true eq_refl (ser_items_rel (S indent) content body SI)).
        -- right. split; [reflexivity|]. split; [reflexivity|]. exact SH.
        -- unfold closing. norm_goal. reflexivity.
      * destruct (ser_subs (fun sub => SER sub (S indent) false) content) as [body| |] eqn:SI; try discriminate SB.
        cbn [bind] in SB. injection SB as <-.
        apply (BODY body (newline_indent indent) (S indent) false (blanks_indent false indent) (ser_subs_rel (S indent) content SH body SI)).
        -- left. exact SH.
        -- unfold closing. norm_goal. reflexivity.
Qed.

(* ---------- the shape of a serialized element, and its size ---------- *)
Lemma ser_shape name ty attrs content cm nm mode ats indent inline bytes :
  to_str tab_el name = Some nm -> SAT attrs = Val ats -> content_mode T ty = Val mode -> ShapeOk mode content ->
  SER (ENode name ty attrs content cm) indent inline = Val bytes ->
  let ws := comment_part cm indent inline ++ (if inline then @nil N else newline_indent indent) in
  (content = [] /\ bytes = ws ++ [60] ++ nm ++ ats ++ [47; 62]) \/
  (content <> [] /\ exists body wsc indent' inline',
     blanks wsc /\ ItemsSer indent' inline' content body /\
     (Forall (fun c => is_text c = false) content \/ (inline' = true /\ wsc = [] /\ no_adjacent content)) /\
     bytes = ws ++ [60] ++ nm ++ ats ++ [62] ++ body ++ closing wsc nm).
Proof.
  intros TS SA CM SH SB. cbv zeta. rewrite ser_elem_eq, TS, SA in SB. cbn [unwrap bind] in SB. cbv zeta in SB.
  destruct content as [|first rest].
  - left. injection SB as <-. split; reflexivity.
  - right. split; [discriminate|]. remember (first :: rest) as content eqn:EC.
    rewrite CM in SB. cbn [bind] in SB. unfold ShapeOk in SH.
    destruct (mode =? MCharacters) eqn:MC.
    + destruct SH as [SH|(v & SH)]; [congruence|]. rewrite SH in *. injection EC as <- <-.
      destruct (SCD v) as [vb| |] eqn:SV; try discriminate SB. cbn [bind] in SB. injection SB as <-.
      exists (vb ++ []), [], (S indent), true. split; [reflexivity|]. split; [constructor; [exact SV|constructor]|]. split.
      * right. split; [reflexivity|]. split; [reflexivity|]. intros a b pre post E. exfalso.
        apply (f_equal (@List.length _)) in E. rewrite app_length in E. cbn [List.length] in E. lia.
      * unfold closing. norm_goal. reflexivity.
    + destruct (mode =? MMixed) eqn:MM.
      * destruct (ser_items SCD (fun sub => SER sub (S indent) true) content) as [body| |] eqn:SI; try discriminate SB.
        cbn [bind] in SB. injection SB as <-.
        exists body, [], (S indent), true. split; [reflexivity|]. split; [exact (ser_items_rel (S indent) content body SI)|]. split.
        -- right. split; [reflexivity|]. split; [reflexivity|]. exact SH.
        -- unfold closing. norm_goal. reflexivity.
      * destruct (ser_subs (fun sub => SER sub (S indent) false) content) as [body| |] eqn:SI; try discriminate SB.
        cbn [bind] in SB. injection SB as <-.
        exists body, (newline_indent indent), (S indent), false. split; [exact (blanks_indent false indent)|].
        split; [exact (ser_subs_rel (S indent) content SH body SI)|]. split; [left; exact SH|].
        unfold closing. norm_goal. reflexivity.
Qed.

(* a serialized canonical tree is at least as long as it is deep and wide *)
Lemma elem_bytes_cost c indent inline bytes : Canon c -> SER c indent inline = Val bytes -> (cost (inl c) <= List.length bytes)%nat.
Proof.
  intros CA SB. destruct CA as [name ty attrs content cm nm mode named CMO (TS & CN & FB) [AF AREQ] CM SH CK NV NAMED].
  destruct (ser_attrs_total T tab_at tab_en check_fn float_fmt float_parse ver ty attrs AF) as (ats & SA & _ & _).
  destruct (clean_name_props nm CN) as (NE & _).
  assert (L1 : (1 <= List.length nm)%nat) by (destruct nm; [congruence|cbn; lia]).
  destruct (ser_shape name ty attrs content cm nm mode ats indent inline bytes TS SA CM SH SB) as [[_ ->]|(_ & body & wsc & i' & il' & _ & _ & _ & ->)];
    cbn [cost e_comment]; destruct cm; repeat (rewrite app_length || cbn [List.length]); lia.
Qed.

Lemma items_size i' il' ty mode : forall l prev pre bs,
  (forall c0 b0, In (inl c0) l -> Canon c0 -> SER c0 i' il' = Val b0 ->
     (depth c0 <= List.length b0)%nat /\ (width c0 <= List.length b0)%nat) ->
  ChildrenOk ty mode prev pre l -> ItemsSer i' il' l bs ->
  (maxd l <= List.length bs)%nat /\ (maxw l <= List.length bs)%nat /\ (lcost l <= List.length bs)%nat.
Proof.
  induction l as [|item l IHl]; intros prev pre bs SZ CK0 IS0.
  - cbn. lia.
  - inversion CK0 as [|? ? ? ? c0 ? idx0 _ _ _ CA0 CK1|? ? ? ? v0 ? TO0 _ CK1]; subst.
    + inversion IS0 as [|? ? b0 bs0 SB0 IS1|]; subst.
      destruct (SZ c0 b0 (or_introl eq_refl) CA0 SB0) as [D0 W0].
      destruct (IHl _ _ bs0 ltac:(intros c1 b1 H1; apply SZ; right; exact H1) CK1 IS1) as (A & B & C).
      assert (cost (inl c0) <= List.length b0)%nat by (apply (elem_bytes_cost c0 i' il' b0 CA0 SB0)).
      cbn [maxd maxw lcost]. rewrite app_length. lia.
    + inversion IS0 as [| |? ? vb0 bs0 SV0 IS1]; subst.
      destruct (IHl _ _ bs0 ltac:(intros c1 b1 H1; apply SZ; right; exact H1) CK1 IS1) as (A & B & C).
      destruct TO0 as (cs & vb' & isr & _ & _ & _ & SV' & _ & NW). rewrite SV0 in SV'. injection SV' as <-.
      assert (1 <= List.length vb0)%nat by (destruct vb0; [discriminate NW|cbn; lia]).
      cbn [maxd maxw lcost cost]. rewrite app_length. lia.
Qed.

Lemma canon_size : forall d c, (depth c <= d)%nat -> Canon c -> forall indent inline bytes, SER c indent inline = Val bytes ->
  (depth c <= List.length bytes)%nat /\ (width c <= List.length bytes)%nat.
Proof.
  induction d as [|d IH]; intros c DC CA indent inline bytes SB.
  { destruct c. rewrite depth_node in DC. lia. }
  destruct CA as [name ty attrs content cm nm mode named CMO (TS & CN & FB) [AF AREQ] CM SH CK NV NAMED].
  destruct (ser_attrs_total T tab_at tab_en check_fn float_fmt float_parse ver ty attrs AF) as (ats & SA & _ & _).
  rewrite depth_node in *. rewrite width_node.
  destruct (ser_shape name ty attrs content cm nm mode ats indent inline bytes TS SA CM SH SB) as [[-> ->]|(NE & body & wsc & i' & il' & _ & IS & _ & ->)].
  - cbn [maxd maxw lcost]. repeat (rewrite app_length || cbn [List.length]). lia.
  - destruct (items_size i' il' ty mode content [] [] body) as (A & B & C); [|exact CK|exact IS|].
    + intros c0 b0 H0 CA0 SB0. apply (IH c0 ltac:(pose proof (maxd_in _ _ H0); lia) CA0 i' il' b0 SB0).
    + unfold closing. repeat (rewrite app_length || cbn [List.length]). lia.
Qed.

Lemma canon_size_all c : Canon c -> forall indent inline bytes, SER c indent inline = Val bytes ->
  (depth c <= List.length bytes)%nat /\ (width c <= List.length bytes)%nat.
Proof. intros CA. apply (canon_size (depth c) c (le_n _) CA). Qed.

(* ---------- serializing a canonical tree returns a text (no STRING_TABLE index panic) ---------- *)
Lemma children_items ty mode : forall l prev pre, ChildrenOk ty mode prev pre l ->
  (forall c, In (inl c) l -> Canon c) /\ (forall v, In (inr v) l -> TextOk ty v).
Proof.
  induction l as [|item l IH]; intros prev pre CK; [split; intros ? []|].
  inversion CK as [|? ? ? ? c rest idx _ _ _ CA CK1|? ? ? ? v rest TO _ CK1]; subst; destruct (IH _ _ CK1) as [A B]; split.
  - intros c0 [E|H]; [injection E as <-; exact CA|exact (A _ H)].
  - intros v0 [E|H]; [discriminate E|exact (B _ H)].
  - intros c0 [E|H]; [discriminate E|exact (A _ H)].
  - intros v0 [E|H]; [injection E as <-; exact TO|exact (B _ H)].
Qed.

Lemma canon_ser_total : forall d c, (depth c <= d)%nat -> Canon c -> forall indent inline, exists bytes, SER c indent inline = Val bytes.
Proof.
  induction d as [|d IH]; intros c DC CA indent inline.
  { destruct c. rewrite depth_node in DC. lia. }
  destruct CA as [name ty attrs content cm nm mode named CMO (TS & CN & FB) [AF AREQ] CM SH CK NV NAMED].
  destruct (ser_attrs_total T tab_at tab_en check_fn float_fmt float_parse ver ty attrs AF) as (ats & SA & _ & _).
  rewrite depth_node in DC. rewrite ser_elem_eq, TS, SA. cbn [unwrap bind]. cbv zeta.
  destruct (children_items ty mode content [] [] CK) as [KC KT].
  destruct content as [|first rest]; [eauto|]. remember (first :: rest) as content eqn:EC.
  rewrite CM. cbn [bind].
  assert (ITEMS : forall i b l, (forall c0, In (inl c0) l -> Canon c0 /\ (depth c0 <= d)%nat) -> (forall v, In (inr v) l -> TextOk ty v) ->
            exists body, ser_items SCD (fun sub => SER sub i b) l = Val body).
  { intros i b l. induction l as [|[c0|v0] l IHl]; intros HC HT; [exists []; reflexivity| |].
    - destruct (HC c0 (or_introl eq_refl)) as [CA0 D0]. destruct (IH c0 D0 CA0 i b) as (b0 & E0).
      destruct IHl as (bl & El); [intros; apply HC; right; assumption|intros; apply HT; right; assumption|].
      exists (b0 ++ bl).
      change (ser_items SCD (fun sub => SER sub i b) (inl c0 :: l)) with
        (bind (SER c0 i b) (fun a => bind (ser_items SCD (fun sub => SER sub i b) l) (fun b1 => Val (a ++ b1)))).
      rewrite E0. cbn [bind]. rewrite El. reflexivity.
    - destruct (HT v0 (or_introl eq_refl)) as (cs & vb & isr & _ & _ & _ & SV & _).
      destruct IHl as (bl & El); [intros; apply HC; right; assumption|intros; apply HT; right; assumption|].
      exists (vb ++ bl).
      change (ser_items SCD (fun sub => SER sub i b) (inr v0 :: l)) with
        (bind (SCD v0) (fun a => bind (ser_items SCD (fun sub => SER sub i b) l) (fun b1 => Val (a ++ b1)))).
      rewrite SV. cbn [bind]. rewrite El. reflexivity. }
  assert (SUBS : forall i b l, (forall c0, In (inl c0) l -> Canon c0 /\ (depth c0 <= d)%nat) ->
            exists body, ser_subs (fun sub => SER sub i b) l = Val body).
  { intros i b l. induction l as [|[c0|v0] l IHl]; intros HC; [exists []; reflexivity| |].
    - destruct (HC c0 (or_introl eq_refl)) as [CA0 D0]. destruct (IH c0 D0 CA0 i b) as (b0 & E0).
      destruct IHl as (bl & El); [intros; apply HC; right; assumption|].
      exists (b0 ++ bl).
      change (ser_subs (fun sub => SER sub i b) (inl c0 :: l)) with
        (bind (SER c0 i b) (fun a => bind (ser_subs (fun sub => SER sub i b) l) (fun b1 => Val (a ++ b1)))).
      rewrite E0. cbn [bind]. rewrite El. reflexivity.
    - destruct IHl as (bl & El); [intros; apply HC; right; assumption|]. exists bl. exact El. }
  assert (HC : forall c0, In (inl c0) content -> Canon c0 /\ (depth c0 <= d)%nat).
  { intros c0 H0. split; [exact (KC _ H0)|pose proof (maxd_in _ _ H0); lia]. }
  destruct (mode =? MCharacters).
  - assert (FB1 : exists body, match first with inr cd => SCD cd | inl _ => Val [] end = Val body).
    { destruct first as [c0|v0]; [eauto|]. destruct (KT v0 ltac:(rewrite EC; left; reflexivity)) as (cs & vb & isr & _ & _ & _ & SV & _). eauto. }
    destruct FB1 as (body & ->). cbn [bind]. eauto.
  - destruct (mode =? MMixed).
    + destruct (ITEMS (S indent) true content HC KT) as (body & ->). cbn [bind]. eauto.
    + destruct (SUBS (S indent) false content HC) as (body & ->). cbn [bind]. eauto.
Qed.

Lemma node_ser_total name ty attrs content cm nm mode ats indent inline :
  to_str tab_el name = Some nm -> SAT attrs = Val ats -> content_mode T ty = Val mode ->
  (forall c, In (inl c) content -> Canon c) -> (forall v, In (inr v) content -> TextOk ty v) ->
  exists bytes, SER (ENode name ty attrs content cm) indent inline = Val bytes.
Proof.
  intros TS SA CM KC KT. rewrite ser_elem_eq, TS, SA. cbn [unwrap bind]. cbv zeta.
  destruct content as [|first rest]; [eauto|]. remember (first :: rest) as content eqn:EC.
  rewrite CM. cbn [bind].
  assert (ITEMS : forall i b l, (forall c0, In (inl c0) l -> Canon c0) -> (forall v, In (inr v) l -> TextOk ty v) ->
            exists body, ser_items SCD (fun sub => SER sub i b) l = Val body).
  { intros i b l. induction l as [|[c0|v0] l IHl]; intros HC HT; [exists []; reflexivity| |].
    - destruct (canon_ser_total (depth c0) c0 (le_n _) (HC c0 (or_introl eq_refl)) i b) as (b0 & E0).
      destruct IHl as (bl & El); [intros; apply HC; right; assumption|intros; apply HT; right; assumption|].
      exists (b0 ++ bl).
      change (ser_items SCD (fun sub => SER sub i b) (inl c0 :: l)) with
        (bind (SER c0 i b) (fun a => bind (ser_items SCD (fun sub => SER sub i b) l) (fun b1 => Val (a ++ b1)))).
      rewrite E0. cbn [bind]. rewrite El. reflexivity.
    - destruct (HT v0 (or_introl eq_refl)) as (cs & vb & isr & _ & _ & _ & SV & _).
      destruct IHl as (bl & El); [intros; apply HC; right; assumption|intros; apply HT; right; assumption|].
      exists (vb ++ bl).
      change (ser_items SCD (fun sub => SER sub i b) (inr v0 :: l)) with
        (bind (SCD v0) (fun a => bind (ser_items SCD (fun sub => SER sub i b) l) (fun b1 => Val (a ++ b1)))).
      rewrite SV. cbn [bind]. rewrite El. reflexivity. }
  assert (SUBS : forall i b l, (forall c0, In (inl c0) l -> Canon c0) -> exists body, ser_subs (fun sub => SER sub i b) l = Val body).
  { intros i b l. induction l as [|[c0|v0] l IHl]; intros HC; [exists []; reflexivity| |].
    - destruct (canon_ser_total (depth c0) c0 (le_n _) (HC c0 (or_introl eq_refl)) i b) as (b0 & E0).
      destruct IHl as (bl & El); [intros; apply HC; right; assumption|].
      exists (b0 ++ bl).
      change (ser_subs (fun sub => SER sub i b) (inl c0 :: l)) with
        (bind (SER c0 i b) (fun a => bind (ser_subs (fun sub => SER sub i b) l) (fun b1 => Val (a ++ b1)))).
      rewrite E0. cbn [bind]. rewrite El. reflexivity.
    - destruct IHl as (bl & El); [intros; apply HC; right; assumption|]. exists bl. exact El. }
  destruct (mode =? MCharacters).
  - assert (FB1 : exists body, match first with inr cd => SCD cd | inl _ => Val [] end = Val body).
    { destruct first as [c0|v0]; [eauto|]. destruct (KT v0 ltac:(rewrite EC; left; reflexivity)) as (cs & vb & isr & _ & _ & _ & SV & _). eauto. }
    destruct FB1 as (body & ->). cbn [bind]. eauto.
  - destruct (mode =? MMixed).
    + destruct (ITEMS (S indent) true content KC KT) as (body & ->). cbn [bind]. eauto.
    + destruct (SUBS (S indent) false content KC) as (body & ->). cbn [bind]. eauto.
Qed.

End Elem.
