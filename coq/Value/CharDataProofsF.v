(* Value/CharDataProofsF.v — format -> parse for the four value kinds, and parse_float:
   prefixed forms (value < 2^64: correctly rounded; value >= 2^64: the defect, characterised exactly),
   zero, INF / -INF / NaN, decimal forms = the std conversion. *)
From AV Require Import Base.Bytes Base.Outcome Hash.HashModel Hash.HashProofs Spec.SpecTypes.
From AV Require Import Value.Num Value.ValueSpec Value.NumProofs Value.F64 Value.F64Proofs Value.CharData Value.CharDataProofs.
From Coq Require Import ZArith Lia.

Local Open Scope N_scope.
Local Open Scope list_scope.

(* ------------------------------------------------------------------ *)
(** * bit-pattern facts *)

Lemma P64_eq : P64 = 4096 * P52. Proof. reflexivity. Qed.

Lemma f64_exp_lt b : f64_exp b < 2048.
Proof. unfold f64_exp. apply N.mod_lt. discriminate. Qed.

Lemma f64_finite_not_special b :
  f64_is_finite b = true -> f64_is_nan b = false /\ f64_is_inf b = false.
Proof.
  unfold f64_is_finite, f64_is_nan, f64_is_inf. intros H. apply N.ltb_lt in H.
  destruct (N.eqb_spec (f64_exp b) 2047); [lia|]. auto.
Qed.

Lemma f64_not_special_finite b :
  f64_is_nan b = false -> f64_is_inf b = false -> f64_is_finite b = true.
Proof.
  unfold f64_is_finite, f64_is_nan, f64_is_inf. pose proof (f64_exp_lt b).
  destruct (N.eqb_spec (f64_exp b) 2047) as [E | E].
  - destruct (f64_frac b =? 0); discriminate.
  - intros _ _. apply N.ltb_lt. lia.
Qed.

(* the only two infinite patterns *)
Lemma f64_inf_pattern b : b < P64 -> f64_is_inf b = true ->
  b = if f64_neg b then F64_NEG_INF else F64_INF.
Proof.
  intros Hb H. unfold f64_is_inf in H. apply andb_true_iff in H as [He Hf].
  apply N.eqb_eq in He, Hf. unfold f64_exp, f64_frac, f64_neg in *.
  assert (HP : P52 <> 0) by discriminate.
  pose proof (N.div_mod b P52 HP) as Hdm. rewrite Hf, N.add_0_r in Hdm.
  set (E := b / P52) in *.
  assert (HE : E < 4096).
  { apply N.div_lt_upper_bound; [exact HP|]. rewrite P64_eq in Hb. lia. }
  pose proof (N.div_mod E 2048 ltac:(discriminate)) as HdE. rewrite He in HdE.
  assert (Hq : E / 2048 < 2) by (apply N.div_lt_upper_bound; [discriminate | lia]).
  assert (HEv : E = 2047 \/ E = 4095) by lia.
  destruct HEv as [-> | ->]; rewrite Hdm; reflexivity.
Qed.

(* ------------------------------------------------------------------ *)
(** * Format, then parse with the same value type *)

Section FormatParse.
Variable dec_parse : list N -> option N.
Variable dec_fmt : N -> list N.
Variable ET : nametab.
Variable validate : N -> list N -> res bool.

(* a value that can exist: enum discriminants index the item table, u64 and f64 fit 64 bits *)
Definition cdata_wf (d : cdata) : Prop :=
  match d with
  | DEnum e => e < nt_mtab ET
  | DString _ => True
  | DUInt n => n < 2 ^ 64
  | DFloat b => b < 2 ^ 64
  end.

(* the std law: the shortest-round-trip text of a finite value parses back to the same bits *)
Definition float_roundtrip_law : Prop :=
  forall x, x < 2 ^ 64 -> f64_is_finite x = true -> f64_from_str dec_parse (dec_fmt x) = Some x.

Lemma float_format_parse x : float_roundtrip_law -> x < 2 ^ 64 ->
  exists y, f64_from_str dec_parse (f64_to_string dec_fmt x) = Some y /\ f64_same x y = true.
Proof.
  intros Hlaw Hx. unfold f64_to_string.
  destruct (f64_is_nan x) eqn:En.
  - exists F64_NAN. split; [reflexivity|]. unfold f64_same. rewrite En. apply orb_true_r.
  - destruct (f64_is_inf x) eqn:Ei.
    + pose proof (f64_inf_pattern x Hx Ei) as Hp.
      destruct (f64_neg x); exists x; (split; [rewrite Hp; reflexivity |]);
        unfold f64_same; rewrite N.eqb_refl; reflexivity.
    + exists x. split; [apply Hlaw; [exact Hx | apply f64_not_special_finite; assumption]|].
      unfold f64_same. rewrite N.eqb_refl. reflexivity.
Qed.

Theorem format_parse (ET_ok : roundtrip_ok ET = true) (d : cdata) (spec : cdspec) (ver : N) :
  float_roundtrip_law -> cdata_wf d ->
  check_value validate d spec ver = Val true ->
  exists t d', display dec_fmt ET d = Val t /\
               parse dec_parse ET validate t spec ver = Val (Some d') /\
               cdata_same d d' = true.
Proof.
  intros Hlaw Hwf Hchk.
  destruct spec as [items | fn ml | pw ml | | ]; cbn [check_value] in Hchk.
  - (* enum *)
    destruct d as [e | s | n | b]; try discriminate. cbn [cdata_wf] in Hwf.
    destruct (find_item items e) as [[i mask]|] eqn:Ef; [|discriminate].
    injection Hchk as Hv.
    destruct (roundtrip_sound ET ET_ok e Hwf) as (s & Hs & Hb).
    exists s, (DEnum e). cbn [display parse cdata_same]. rewrite Hs, Hb, Ef, Hv.
    repeat split. apply N.eqb_refl.
  - (* pattern *)
    destruct d as [e | s | n | b]; try discriminate.
    destruct (len_ok s ml) eqn:El; [|discriminate].
    exists s, (DString s). cbn [display parse cdata_same]. rewrite El, Hchk.
    repeat split. apply bytes_eqb_refl.
  - (* string *)
    destruct d as [e | s | n | b]; try discriminate. injection Hchk as El.
    exists s, (DString s). cbn [display parse cdata_same]. rewrite El.
    repeat split. apply bytes_eqb_refl.
  - (* u64 *)
    destruct d as [e | s | n | b]; try discriminate. cbn [cdata_wf] in Hwf.
    exists (print_u64 n), (DUInt n). cbn [display parse cdata_same].
    rewrite (print_parse_u64 n Hwf). repeat split. apply N.eqb_refl.
  - (* float *)
    destruct d as [e | s | n | b]; try discriminate. cbn [cdata_wf] in Hwf.
    destruct (float_format_parse b Hlaw Hwf) as (y & Hy & Hs).
    exists (f64_to_string dec_fmt b), (DFloat y). cbn [display parse cdata_same].
    rewrite Hy. repeat split. exact Hs.
Qed.

Theorem format_parse_terms :
  (float_roundtrip_law <->
   forall x, x < 2 ^ 64 -> f64_is_finite x = true -> f64_from_str dec_parse (dec_fmt x) = Some x) /\
  (forall e, cdata_wf (DEnum e) <-> e < nt_mtab ET) /\
  (forall s, cdata_wf (DString s)) /\
  (forall n, cdata_wf (DUInt n) <-> n < 2 ^ 64) /\
  (forall b, cdata_wf (DFloat b) <-> b < 2 ^ 64) /\
  (forall a b, cdata_same (DFloat a) (DFloat b) = true <-> (a = b \/ (f64_is_nan a = true /\ f64_is_nan b = true))).
Proof.
  repeat split; try (intros H; exact H); try exact I.
  - cbn [cdata_same]. unfold f64_same. rewrite orb_true_iff, andb_true_iff, N.eqb_eq. tauto.
  - cbn [cdata_same]. unfold f64_same. rewrite orb_true_iff, andb_true_iff, N.eqb_eq. tauto.
Qed.

(* serialize_internal writes the same text as Display for everything but strings (which it escapes) *)
Theorem serialize_is_display d :
  (forall s, d <> DString s) -> serialize_internal dec_fmt ET d = display dec_fmt ET d.
Proof. destruct d; intros H; try reflexivity. exfalso. eapply H. reflexivity. Qed.

Theorem serialize_string_plain s :
  existsb is_special s = false -> serialize_internal dec_fmt ET (DString s) = Val s.
Proof. intros H. cbn [serialize_internal]. unfold escape_text. rewrite H. reflexivity. Qed.

End FormatParse.

(* ------------------------------------------------------------------ *)
(** * parse_float *)

Section Float.
Variable dec_parse : list N -> option N.

Lemma u64_from_str_radix_value radix (p : N -> bool) (dv : N -> N) ds :
  0 < radix ->
  (forall c, p c = true -> digit_val radix c = Some (dv c)) ->
  (forall c, p c = true -> c <> 43 /\ c <> 45) ->
  nonempty_all p ds = true ->
  u64_from_str_radix radix ds =
  if positional radix dv ds <? 2 ^ 64 then Some (positional radix dv ds) else None.
Proof.
  intros Hr Hp Hns Hall.
  destruct (signed_value_unsigned radix p dv ds Hp Hns Hall) as [Hv Hm].
  unfold u64_from_str_radix. rewrite (from_str_radix_eq false 64 radix ds Hr), Hv, Hm. cbn [andb].
  set (v := positional radix dv ds).
  destruct (N.ltb_spec v (2 ^ 64)) as [Hlt | Hge].
  - rewrite (checked_in _ _ _ (in_range_u64 v Hlt)), N2Z.id. reflexivity.
  - rewrite checked_out; [reflexivity|].
    rewrite in_range_unsigned_iff. change (2 ^ Z.of_N 64)%Z with (Z.of_N (2 ^ 64)). lia.
Qed.

Lemma u64_from_str_radix_bad radix c r :
  0 < radix -> digit_val radix c = None -> c <> 43 -> u64_from_str_radix radix (c :: r) = None.
Proof.
  intros Hr Hd H43. unfold u64_from_str_radix.
  rewrite (from_str_radix_eq false 64 radix (c :: r) Hr).
  unfold leading_minus, signed_value, split_sign.
  destruct (N.eqb_spec c 43); [contradiction|].
  destruct (N.eqb_spec c 45) as [-> | H45]; [reflexivity|]. cbn [andb is_nil].
  unfold digits_value. cbn [digits_value_from]. rewrite Hd. reflexivity.
Qed.

Lemma parse_inf_nan_zero r : parse_inf_nan (48 :: r) = None.
Proof. reflexivity. Qed.

Lemma f64_from_str_zero r : f64_from_str dec_parse (48 :: r) = dec_parse (48 :: r).
Proof. unfold f64_from_str. rewrite parse_inf_nan_zero. reflexivity. Qed.

Lemma oct_digit_cases x : is_oct x = true ->
  (x =? 120) = false /\ (x =? 88) = false /\ (x =? 98) = false /\ (x =? 66) = false.
Proof.
  unfold is_oct. rewrite in_cls_spec. intros [H1 H2].
  repeat split; apply N.eqb_neq; lia.
Qed.

(* the value [prefixed_value] assigns, shape by shape *)
Lemma prefixed_value_cases t v : prefixed_value t = Some v ->
  exists x ds, t = 48 :: x :: ds /\
    ( (((x =? 120) || (x =? 88)) = true /\ nonempty_all is_hex ds = true /\ v = positional 16 hex_digit ds) \/
      (((x =? 120) || (x =? 88)) = false /\ ((x =? 98) || (x =? 66)) = true /\
       nonempty_all is_bin ds = true /\ v = positional 2 dec_digit ds) \/
      (((x =? 120) || (x =? 88)) = false /\ ((x =? 98) || (x =? 66)) = false /\
       forallb is_oct (x :: ds) = true /\ v = positional 8 dec_digit (x :: ds)) ).
Proof.
  unfold prefixed_value, is_prefixed_form, int_value.
  destruct t as [|c [|x ds]]; try discriminate.
  destruct (N.eqb_spec c 48) as [-> | Hc]; [|discriminate]. cbn [andb].
  intros H. exists x, ds. split; [reflexivity|].
  destruct ((x =? 120) || (x =? 88)).
  - destruct (nonempty_all is_hex ds); [|discriminate]. injection H as <-.
    left. rewrite N2Z.id. auto.
  - destruct ((x =? 98) || (x =? 66)).
    + destruct (nonempty_all is_bin ds); [|discriminate]. injection H as <-.
      right. left. rewrite N2Z.id. auto.
    + destruct (forallb is_oct (x :: ds)); [|discriminate]. injection H as <-.
      right. right. rewrite N2Z.id. auto.
Qed.

(* [U] the whole behaviour of parse_float on the prefixed lexical forms *)
Theorem parse_float_prefixed_all t v : prefixed_value t = Some v ->
  parse_float dec_parse (DString t) =
  if v <? 2 ^ 64 then Some (u64_as_f64 v) else dec_parse t.
Proof.
  intros Hpv. destruct (prefixed_value_cases t v Hpv) as (x & ds & -> & Hcase).
  unfold parse_float, prefixed_u64, T0, T0x, T0X, T0b, T0B.
  rewrite !strip_prefix_2, strip_prefix_1.
  cbn [bytes_eqb]. change (48 =? 48) with true. cbn [andb].
  replace (match ds with [] => false | _ :: _ => false end) with false by (destruct ds; reflexivity).
  assert (H16 : 0 < 16) by lia. assert (H2 : 0 < 2) by lia. assert (H8 : 0 < 8) by lia.
  destruct Hcase as [(Hx & Hall & ->) | [(Hx & Hb & Hall & ->) | (Hx & Hb & Hall & ->)]].
  - (* hexadecimal *)
    pose proof (u64_from_str_radix_value 16 is_hex hex_digit ds H16 digit_val_hex hex_not_sign Hall) as Hu.
    assert (Hoct : u64_from_str_radix 8 (x :: ds) = None).
    { apply orb_true_iff in Hx as [Hx | Hx]; apply N.eqb_eq in Hx; subst x;
        apply u64_from_str_radix_bad; try lia; reflexivity. }
    apply orb_true_iff in Hx as [Hx | Hx]; apply N.eqb_eq in Hx; subst x.
    + cbn [N.eqb Pos.eqb]. rewrite Hu.
      destruct (positional 16 hex_digit ds <? 2 ^ 64); [reflexivity|].
      rewrite Hoct. apply f64_from_str_zero.
    + cbn [N.eqb Pos.eqb]. rewrite Hu.
      destruct (positional 16 hex_digit ds <? 2 ^ 64); [reflexivity|].
      rewrite Hoct. apply f64_from_str_zero.
  - (* binary *)
    pose proof (u64_from_str_radix_value 2 is_bin dec_digit ds H2 digit_val_bin bin_not_sign Hall) as Hu.
    assert (Hoct : u64_from_str_radix 8 (x :: ds) = None).
    { apply orb_true_iff in Hb as [Hb | Hb]; apply N.eqb_eq in Hb; subst x;
        apply u64_from_str_radix_bad; try lia; reflexivity. }
    apply orb_true_iff in Hb as [Hb | Hb]; apply N.eqb_eq in Hb; subst x.
    + cbn [N.eqb Pos.eqb]. rewrite Hu.
      destruct (positional 2 dec_digit ds <? 2 ^ 64); [reflexivity|].
      rewrite Hoct. apply f64_from_str_zero.
    + cbn [N.eqb Pos.eqb]. rewrite Hu.
      destruct (positional 2 dec_digit ds <? 2 ^ 64); [reflexivity|].
      rewrite Hoct. apply f64_from_str_zero.
  - (* octal *)
    assert (Hne : nonempty_all is_oct (x :: ds) = true) by (unfold nonempty_all; rewrite Hall; reflexivity).
    pose proof (u64_from_str_radix_value 8 is_oct dec_digit (x :: ds) H8 digit_val_oct oct_not_sign Hne) as Hu.
    pose proof Hall as Hall'. cbn [forallb] in Hall'. apply andb_true_iff in Hall' as [Hox _].
    destruct (oct_digit_cases x Hox) as (E1 & E2 & E3 & E4).
    rewrite (N.eqb_sym 120 x), (N.eqb_sym 88 x), (N.eqb_sym 98 x), (N.eqb_sym 66 x), E1, E2, E3, E4.
    rewrite Hu.
    destruct (positional 8 dec_digit (x :: ds) <? 2 ^ 64); [reflexivity|].
    apply f64_from_str_zero.
Qed.

(* [U] prefixed forms with a value below 2^64: the correctly rounded binary64 *)
Theorem parse_float_prefixed t v : prefixed_value t = Some v -> v < 2 ^ 64 ->
  exists b, parse_float dec_parse (DString t) = Some b /\ correctly_rounded v b.
Proof.
  intros Hpv Hv. exists (u64_as_f64 v). rewrite (parse_float_prefixed_all t v Hpv).
  destruct (N.ltb_spec v (2 ^ 64)); [|lia].
  split; [reflexivity | apply u64_as_f64_correct, Hv].
Qed.

(* the defect class: a prefixed form of value >= 2^64 is handed, prefix and all, to the DECIMAL conversion *)
Theorem parse_float_prefixed_big t v : prefixed_value t = Some v -> 2 ^ 64 <= v ->
  parse_float dec_parse (DString t) = dec_parse t.
Proof.
  intros Hpv Hv. rewrite (parse_float_prefixed_all t v Hpv).
  destruct (N.ltb_spec v (2 ^ 64)); [lia | reflexivity].
Qed.

(* zero, and the three special spellings of the Numerical pattern: no oracle involved *)
Theorem parse_float_special :
  parse_float dec_parse (DString [48]) = Some F64_ZERO /\
  parse_float dec_parse (DString [73; 78; 70]) = Some F64_INF /\
  parse_float dec_parse (DString [45; 73; 78; 70]) = Some F64_NEG_INF /\
  parse_float dec_parse (DString [78; 97; 78]) = Some F64_NAN /\
  f64_is_inf F64_INF = true /\ f64_neg F64_INF = false /\
  f64_is_inf F64_NEG_INF = true /\ f64_neg F64_NEG_INF = true /\
  f64_is_nan F64_NAN = true.
Proof. repeat split; reflexivity. Qed.

(* everything that does not start with '0' goes to the std conversion unchanged *)
Theorem parse_float_no_prefix c r : c <> 48 ->
  parse_float dec_parse (DString (c :: r)) = f64_from_str dec_parse (c :: r).
Proof.
  intros Hc. unfold parse_float, prefixed_u64, T0, T0x, T0X, T0b, T0B.
  rewrite !strip_prefix_2, strip_prefix_1. cbn [bytes_eqb].
  rewrite (proj2 (N.eqb_neq c 48) Hc), (proj2 (N.eqb_neq 48 c)) by congruence. cbn [andb].
  destruct r; reflexivity.
Qed.

(* "0.5", "0e3", "0E3": a leading zero followed by '.', 'e' or 'E' is not taken for octal *)
Theorem parse_float_zero_point c r : c = 46 \/ c = 101 \/ c = 69 ->
  parse_float dec_parse (DString (48 :: c :: r)) = dec_parse (48 :: c :: r).
Proof.
  intros Hc. unfold parse_float, prefixed_u64, T0, T0x, T0X, T0b, T0B.
  rewrite !strip_prefix_2, strip_prefix_1. cbn [bytes_eqb]. change (48 =? 48) with true. cbn [andb].
  replace (match r with [] => false | _ :: _ => false end) with false by (destruct r; reflexivity).
  assert (Hoct : u64_from_str_radix 8 (c :: r) = None).
  { destruct Hc as [-> | [-> | ->]]; apply u64_from_str_radix_bad; try lia; reflexivity. }
  destruct Hc as [-> | [-> | ->]]; cbn [N.eqb Pos.eqb]; rewrite Hoct; apply f64_from_str_zero.
Qed.

(* the non-string kinds *)
Theorem parse_float_values i n b :
  parse_float dec_parse (DEnum i) = None /\
  parse_float dec_parse (DUInt n) = Some (u64_as_f64 n) /\
  parse_float dec_parse (DFloat b) = Some b.
Proof. repeat split. Qed.

End Float.

(* ------------------------------------------------------------------ *)
(** * Witnesses of the defect (the model refutes "correctly rounded for every prefixed form that fits") *)

(* 2^64 written in octal: in the lexical form, exactly representable in binary64 *)
Definition oct_2_64 : list N := BS "02000000000000000000000".
(* 2^65 - 1 written in hexadecimal *)
Definition hex_2_65m1 : list N := BS "0x1ffffffffffffffff".

Lemma rep53_pow2 k : rep53 (2 ^ k).
Proof. exists 1, k. split; [ring | reflexivity]. Qed.

Theorem parse_float_prefixed_refuted :
  (* octal: the result is whatever the decimal conversion makes of the digits 2000000000000000000000 *)
  prefixed_value oct_2_64 = Some (2 ^ 64) /\
  rep53 (2 ^ 64 * 2 ^ 1074) /\
  digits_value 10 oct_2_64 = Some 2000000000000000000000 /\
  (forall dec, parse_float dec (DString oct_2_64) = dec oct_2_64) /\
  (* hexadecimal: the result is whatever the decimal conversion makes of "0x1ffffffffffffffff" (std: an error) *)
  prefixed_value hex_2_65m1 = Some (2 ^ 65 - 1) /\
  (forall dec, parse_float dec (DString hex_2_65m1) = dec hex_2_65m1) /\
  digits_value 10 hex_2_65m1 = None.
Proof.
  assert (H1 : prefixed_value oct_2_64 = Some (2 ^ 64)) by (vm_compute; reflexivity).
  assert (H2 : prefixed_value hex_2_65m1 = Some (2 ^ 65 - 1)) by (vm_compute; reflexivity).
  split; [exact H1|].
  split; [rewrite <- N.pow_add_r; apply rep53_pow2|].
  split; [vm_compute; reflexivity|].
  split; [intros dec; apply (parse_float_prefixed_big dec _ _ H1); lia|].
  split; [exact H2|].
  split; [intros dec; apply (parse_float_prefixed_big dec _ _ H2); vm_compute; discriminate|].
  vm_compute. reflexivity.
Qed.

Print Assumptions format_parse.
Print Assumptions parse_float_prefixed_all.
Print Assumptions parse_float_prefixed_refuted.

(* ------------------------------------------------------------------ *)
(** * Non-vacuity of the hypotheses used in Properties/C20.v *)

(* the float round-trip law is satisfiable: an (artificial) pair of conversions that obeys it *)
Definition toy_fmt (x : N) : list N := 98 :: print_u64 x.
Definition toy_parse (t : list N) : option N := match t with 98 :: r => parse_u64 r | _ => None end.

Example float_roundtrip_law_satisfiable : float_roundtrip_law toy_parse toy_fmt.
Proof.
  intros x Hx _. unfold f64_from_str, toy_fmt.
  replace (parse_inf_nan (98 :: print_u64 x)) with (@None N).
  - cbn [toy_parse]. apply print_parse_u64, Hx.
  - unfold parse_inf_nan. cbn [N.eqb Pos.eqb orb]. unfold inf_nan_word. cbn [map].
    unfold to_lower. cbn [N.leb N.compare Pos.compare Pos.compare_cont andb]. cbn [bytes_eqb N.eqb Pos.eqb andb].
    reflexivity.
Qed.

Example hypotheses_satisfiable :
  int_value (BS "0x1F") = Some 31%Z /\ int_value (BS "-128") = Some (-128)%Z /\
  prefixed_value (BS "0777") = Some 511 /\ prefixed_value (BS "0b1") = Some 1 /\
  prefixed_value (BS "0x10000000000000000") = Some (2 ^ 64).
Proof. vm_compute. repeat split. Qed.
