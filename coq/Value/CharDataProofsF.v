(* Value/CharDataProofsF.v — format -> parse for the four value kinds, and parse_float:
   prefixed forms of ANY length (correctly rounded, or nothing when the value does not fit binary64),
   zero, INF / -INF / NaN, decimal forms = the std conversion. *)
From AV Require Import Base.Bytes Base.Outcome Hash.HashModel Hash.HashProofs Spec.SpecTypes.
From AV Require Import Value.Num Value.ValueSpec Value.NumProofs Value.F64 Value.F64Proofs Value.CharData Value.CharDataProofs Value.RadixFloatProofs.
From Coq Require Import ZArith Lia.

Local Open Scope N_scope.
Local Open Scope list_scope.

(* ------------------------------------------------------------------ *)
(** * bit-pattern facts *)

Lemma P64_eq : P64 = 4096 * P52. Proof. reflexivity. Qed.

Lemma f64_exp_lt b : f64_exp b < 2048.
Proof. unfold f64_exp. apply N.mod_lt. discriminate. Qed.

Lemma f64_finite_not_special b :
  f64_is_finite b = true -> f64_is_nan b = false /\ f64_is_inf b = false.
Proof.
  unfold f64_is_finite, f64_is_nan, f64_is_inf. intros H. apply N.ltb_lt in H.
  destruct (N.eqb_spec (f64_exp b) 2047); [lia|]. auto.
Qed.

Lemma f64_not_special_finite b :
  f64_is_nan b = false -> f64_is_inf b = false -> f64_is_finite b = true.
Proof.
  unfold f64_is_finite, f64_is_nan, f64_is_inf. pose proof (f64_exp_lt b).
  destruct (N.eqb_spec (f64_exp b) 2047) as [E | E].
  - destruct (f64_frac b =? 0); discriminate.
  - intros _ _. apply N.ltb_lt. lia.
Qed.

(* the only two infinite patterns *)
Lemma f64_inf_pattern b : b < P64 -> f64_is_inf b = true ->
  b = if f64_neg b then F64_NEG_INF else F64_INF.
Proof.
  intros Hb H. unfold f64_is_inf in H. apply andb_true_iff in H as [He Hf].
  apply N.eqb_eq in He, Hf. unfold f64_exp, f64_frac, f64_neg in *.
  assert (HP : P52 <> 0) by discriminate.
  pose proof (N.div_mod b P52 HP) as Hdm. rewrite Hf, N.add_0_r in Hdm.
  set (E := b / P52) in *.
  assert (HE : E < 4096).
  { apply N.div_lt_upper_bound; [exact HP|]. rewrite P64_eq in Hb. lia. }
  pose proof (N.div_mod E 2048 ltac:(discriminate)) as HdE. rewrite He in HdE.
  assert (Hq : E / 2048 < 2) by (apply N.div_lt_upper_bound; [discriminate | lia]).
  assert (HEv : E = 2047 \/ E = 4095) by lia.
  destruct HEv as [-> | ->]; rewrite Hdm; reflexivity.
Qed.

(* ------------------------------------------------------------------ *)
(** * Format, then parse with the same value type *)

Section FormatParse.
Variable dec_parse : list N -> option N.
Variable dec_fmt : N -> list N.
Variable ET : nametab.
Variable validate : N -> list N -> res bool.

(* a value that can exist: enum discriminants index the item table, u64 and f64 fit 64 bits *)
Definition cdata_wf (d : cdata) : Prop :=
  match d with
  | DEnum e => e < nt_mtab ET
  | DString _ => True
  | DUInt n => n < 2 ^ 64
  | DFloat b => b < 2 ^ 64
  end.

(* the std law: the shortest-round-trip text of a finite value parses back to the same bits *)
Definition float_roundtrip_law : Prop :=
  forall x, x < 2 ^ 64 -> f64_is_finite x = true -> f64_from_str dec_parse (dec_fmt x) = Some x.

Lemma float_format_parse x : float_roundtrip_law -> x < 2 ^ 64 ->
  exists y, f64_from_str dec_parse (f64_to_string dec_fmt x) = Some y /\ f64_same x y = true.
Proof.
  intros Hlaw Hx. unfold f64_to_string.
  destruct (f64_is_nan x) eqn:En.
  - exists F64_NAN. split; [reflexivity|]. unfold f64_same. rewrite En. apply orb_true_r.
  - destruct (f64_is_inf x) eqn:Ei.
    + pose proof (f64_inf_pattern x Hx Ei) as Hp.
      destruct (f64_neg x); exists x; (split; [rewrite Hp; reflexivity |]);
        unfold f64_same; rewrite N.eqb_refl; reflexivity.
    + exists x. split; [apply Hlaw; [exact Hx | apply f64_not_special_finite; assumption]|].
      unfold f64_same. rewrite N.eqb_refl. reflexivity.
Qed.

Theorem format_parse (ET_ok : roundtrip_ok ET = true) (d : cdata) (spec : cdspec) (ver : N) :
  float_roundtrip_law -> cdata_wf d ->
  check_value validate d spec ver = Val true ->
  exists t d', display dec_fmt ET d = Val t /\
               parse dec_parse ET validate t spec ver = Val (Some d') /\
               cdata_same d d' = true.
Proof.
  intros Hlaw Hwf Hchk.
  destruct spec as [items | fn ml | pw ml | | ]; cbn [check_value] in Hchk.
  - (* enum *)
    destruct d as [e | s | n | b]; try discriminate. cbn [cdata_wf] in Hwf.
    destruct (find_item items e) as [[i mask]|] eqn:Ef; [|discriminate].
    injection Hchk as Hv.
    destruct (roundtrip_sound ET ET_ok e Hwf) as (s & Hs & Hb).
    exists s, (DEnum e). cbn [display parse cdata_same]. rewrite Hs, Hb, Ef, Hv.
    repeat split. apply N.eqb_refl.
  - (* pattern *)
    destruct d as [e | s | n | b]; try discriminate.
    destruct (len_ok s ml) eqn:El; [|discriminate].
    exists s, (DString s). cbn [display parse cdata_same]. rewrite El, Hchk.
    repeat split. apply bytes_eqb_refl.
  - (* string *)
    destruct d as [e | s | n | b]; try discriminate. injection Hchk as El.
    exists s, (DString s). cbn [display parse cdata_same]. rewrite El.
    repeat split. apply bytes_eqb_refl.
  - (* u64 *)
    destruct d as [e | s | n | b]; try discriminate. cbn [cdata_wf] in Hwf.
    exists (print_u64 n), (DUInt n). cbn [display parse cdata_same].
    rewrite (print_parse_u64 n Hwf). repeat split. apply N.eqb_refl.
  - (* float *)
    destruct d as [e | s | n | b]; try discriminate. cbn [cdata_wf] in Hwf.
    destruct (float_format_parse b Hlaw Hwf) as (y & Hy & Hs).
    exists (f64_to_string dec_fmt b), (DFloat y). cbn [display parse cdata_same].
    rewrite Hy. repeat split. exact Hs.
Qed.

Theorem format_parse_terms :
  (float_roundtrip_law <->
   forall x, x < 2 ^ 64 -> f64_is_finite x = true -> f64_from_str dec_parse (dec_fmt x) = Some x) /\
  (forall e, cdata_wf (DEnum e) <-> e < nt_mtab ET) /\
  (forall s, cdata_wf (DString s)) /\
  (forall n, cdata_wf (DUInt n) <-> n < 2 ^ 64) /\
  (forall b, cdata_wf (DFloat b) <-> b < 2 ^ 64) /\
  (forall a b, cdata_same (DFloat a) (DFloat b) = true <-> (a = b \/ (f64_is_nan a = true /\ f64_is_nan b = true))).
Proof.
  repeat split; try (intros H; exact H); try exact I.
  - cbn [cdata_same]. unfold f64_same. rewrite orb_true_iff, andb_true_iff, N.eqb_eq. tauto.
  - cbn [cdata_same]. unfold f64_same. rewrite orb_true_iff, andb_true_iff, N.eqb_eq. tauto.
Qed.

(* serialize_internal writes the same text as Display for everything but strings (which it escapes) *)
Theorem serialize_is_display d :
  (forall s, d <> DString s) -> serialize_internal dec_fmt ET d = display dec_fmt ET d.
Proof. destruct d; intros H; try reflexivity. exfalso. eapply H. reflexivity. Qed.

Theorem serialize_string_plain s :
  existsb is_special s = false -> serialize_internal dec_fmt ET (DString s) = Val s.
Proof. intros H. cbn [serialize_internal]. unfold escape_text. rewrite H. reflexivity. Qed.

End FormatParse.

(* ------------------------------------------------------------------ *)
(** * parse_float *)

Section Float.
Variable dec_parse : list N -> option N.

(* a non-empty string of digits of the radix 2^bpd: the correctly rounded value, or infinite beyond the threshold *)
Lemma float_digits_value bpd (p : N -> bool) (dv : N -> N) ds :
  (forall c, p c = true -> digit_val (2 ^ N.of_nat bpd) c = Some (dv c)) ->
  nonempty_all p ds = true ->
  exists b, float_from_radix_digits bpd ds = Some b /\
    (f64_is_finite b = true -> correctly_rounded (positional (2 ^ N.of_nat bpd) dv ds) b) /\
    (f64_is_finite b = false -> 2 ^ 1024 - 2 ^ 970 <= positional (2 ^ N.of_nat bpd) dv ds).
Proof.
  intros Hp Hall. unfold nonempty_all in Hall. apply andb_true_iff in Hall as [Hne Hall].
  pose proof (float_from_radix_digits_spec bpd ds) as H.
  destruct (is_nil ds); [discriminate|].
  rewrite (digits_value_all _ p dv ds Hp Hall) in H. exact H.
Qed.

Lemma float_digits_bad bpd c r :
  digit_val (2 ^ N.of_nat bpd) c = None -> float_from_radix_digits bpd (c :: r) = None.
Proof. intros H. unfold float_from_radix_digits. cbn [is_nil radix_loop]. rewrite H. reflexivity. Qed.

Lemma parse_inf_nan_zero r : parse_inf_nan (48 :: r) = None.
Proof. reflexivity. Qed.

Lemma f64_from_str_zero r : f64_from_str dec_parse (48 :: r) = dec_parse (48 :: r).
Proof. unfold f64_from_str. rewrite parse_inf_nan_zero. reflexivity. Qed.

Lemma oct_digit_cases x : is_oct x = true ->
  (x =? 120) = false /\ (x =? 88) = false /\ (x =? 98) = false /\ (x =? 66) = false.
Proof.
  unfold is_oct. rewrite in_cls_spec. intros [H1 H2].
  repeat split; apply N.eqb_neq; lia.
Qed.

(* the value [prefixed_value] assigns, shape by shape *)
Lemma prefixed_value_cases t v : prefixed_value t = Some v ->
  exists x ds, t = 48 :: x :: ds /\
    ( (((x =? 120) || (x =? 88)) = true /\ nonempty_all is_hex ds = true /\ v = positional 16 hex_digit ds) \/
      (((x =? 120) || (x =? 88)) = false /\ ((x =? 98) || (x =? 66)) = true /\
       nonempty_all is_bin ds = true /\ v = positional 2 dec_digit ds) \/
      (((x =? 120) || (x =? 88)) = false /\ ((x =? 98) || (x =? 66)) = false /\
       forallb is_oct (x :: ds) = true /\ v = positional 8 dec_digit (x :: ds)) ).
Proof.
  unfold prefixed_value, is_prefixed_form, int_value.
  destruct t as [|c [|x ds]]; try discriminate.
  destruct (N.eqb_spec c 48) as [-> | Hc]; [|discriminate]. cbn [andb].
  intros H. exists x, ds. split; [reflexivity|].
  destruct ((x =? 120) || (x =? 88)).
  - destruct (nonempty_all is_hex ds); [|discriminate]. injection H as <-.
    left. rewrite N2Z.id. auto.
  - destruct ((x =? 98) || (x =? 66)).
    + destruct (nonempty_all is_bin ds); [|discriminate]. injection H as <-.
      right. left. rewrite N2Z.id. auto.
    + destruct (forallb is_oct (x :: ds)); [|discriminate]. injection H as <-.
      right. right. rewrite N2Z.id. auto.
Qed.

(* [U] the whole behaviour of parse_float on the prefixed lexical forms, ANY length *)
Theorem parse_float_prefixed_all t v : prefixed_value t = Some v ->
  exists b, parse_float dec_parse (DString t) = finite_or_none b /\
    (f64_is_finite b = true -> correctly_rounded v b) /\
    (f64_is_finite b = false -> 2 ^ 1024 - 2 ^ 970 <= v).
Proof.
  intros Hpv. destruct (prefixed_value_cases t v Hpv) as (x & ds & -> & Hcase).
  unfold parse_float, prefixed_f64, T0, T0x, T0X, T0b, T0B.
  rewrite !strip_prefix_2, strip_prefix_1.
  cbn [bytes_eqb]. change (48 =? 48) with true. cbn [andb].
  replace (match ds with [] => false | _ :: _ => false end) with false by (destruct ds; reflexivity).
  destruct Hcase as [(Hx & Hall & ->) | [(Hx & Hb & Hall & ->) | (Hx & Hb & Hall & ->)]].
  - (* hexadecimal *)
    destruct (float_digits_value 4 is_hex hex_digit ds digit_val_hex Hall) as (b & Hb & H1 & H2).
    exists b. split; [|split; assumption].
    apply orb_true_iff in Hx as [Hx | Hx]; apply N.eqb_eq in Hx; subst x; cbn [N.eqb Pos.eqb]; rewrite Hb; reflexivity.
  - (* binary *)
    destruct (float_digits_value 1 is_bin dec_digit ds digit_val_bin Hall) as (b & Hbv & H1 & H2).
    exists b. split; [|split; assumption].
    apply orb_true_iff in Hb as [Hb | Hb]; apply N.eqb_eq in Hb; subst x; cbn [N.eqb Pos.eqb]; rewrite Hbv; reflexivity.
  - (* octal *)
    assert (Hne : nonempty_all is_oct (x :: ds) = true) by (unfold nonempty_all; rewrite Hall; reflexivity).
    destruct (float_digits_value 3 is_oct dec_digit (x :: ds) digit_val_oct Hne) as (b & Hbv & H1 & H2).
    exists b. split; [|split; assumption].
    pose proof Hall as Hall'. cbn [forallb] in Hall'. apply andb_true_iff in Hall' as [Hox _].
    destruct (oct_digit_cases x Hox) as (E1 & E2 & E3 & E4).
    rewrite (N.eqb_sym 120 x), (N.eqb_sym 88 x), (N.eqb_sym 98 x), (N.eqb_sym 66 x), E1, E2, E3, E4.
    rewrite Hbv. reflexivity.
Qed.

(* [U] prefixed forms: the correctly rounded binary64 when the value fits, nothing when it does not
   (2^1024 - 2^970 is the smallest number that rounds to 2^1024, i.e. out of the finite range) *)
Theorem parse_float_prefixed t v : prefixed_value t = Some v ->
  (exists b, parse_float dec_parse (DString t) = Some b /\ correctly_rounded v b) \/
  (parse_float dec_parse (DString t) = None /\ 2 ^ 1024 - 2 ^ 970 <= v).
Proof.
  intros Hpv. destruct (parse_float_prefixed_all t v Hpv) as (b & -> & H1 & H2).
  unfold finite_or_none. destruct (f64_is_finite b).
  - left. exists b. auto.
  - right. auto.
Qed.

Corollary parse_float_prefixed_fits t v : prefixed_value t = Some v -> v < 2 ^ 1024 - 2 ^ 970 ->
  exists b, parse_float dec_parse (DString t) = Some b /\ correctly_rounded v b.
Proof.
  intros Hpv Hv. destruct (parse_float_prefixed t v Hpv) as [H | [_ H]]; [exact H | lia].
Qed.

(* zero, and the three special spellings of the Numerical pattern: no oracle involved *)
Theorem parse_float_special :
  parse_float dec_parse (DString [48]) = Some F64_ZERO /\
  parse_float dec_parse (DString [73; 78; 70]) = Some F64_INF /\
  parse_float dec_parse (DString [45; 73; 78; 70]) = Some F64_NEG_INF /\
  parse_float dec_parse (DString [78; 97; 78]) = Some F64_NAN /\
  f64_is_inf F64_INF = true /\ f64_neg F64_INF = false /\
  f64_is_inf F64_NEG_INF = true /\ f64_neg F64_NEG_INF = true /\
  f64_is_nan F64_NAN = true.
Proof. repeat split; reflexivity. Qed.

(* everything that does not start with '0' goes to the std conversion unchanged *)
Theorem parse_float_no_prefix c r : c <> 48 ->
  parse_float dec_parse (DString (c :: r)) = f64_from_str dec_parse (c :: r).
Proof.
  intros Hc. unfold parse_float, prefixed_f64, T0, T0x, T0X, T0b, T0B.
  rewrite !strip_prefix_2, strip_prefix_1. cbn [bytes_eqb].
  rewrite (proj2 (N.eqb_neq c 48) Hc), (proj2 (N.eqb_neq 48 c)) by congruence. cbn [andb].
  destruct r; reflexivity.
Qed.

(* "0.5", "0e3", "0E3": a leading zero followed by '.', 'e' or 'E' is not taken for octal *)
Theorem parse_float_zero_point c r : c = 46 \/ c = 101 \/ c = 69 ->
  parse_float dec_parse (DString (48 :: c :: r)) = dec_parse (48 :: c :: r).
Proof.
  intros Hc. unfold parse_float, prefixed_f64, T0, T0x, T0X, T0b, T0B.
  rewrite !strip_prefix_2, strip_prefix_1. cbn [bytes_eqb]. change (48 =? 48) with true. cbn [andb].
  replace (match r with [] => false | _ :: _ => false end) with false by (destruct r; reflexivity).
  assert (Hoct : float_from_radix_digits 3 (c :: r) = None).
  { destruct Hc as [-> | [-> | ->]]; apply float_digits_bad; reflexivity. }
  destruct Hc as [-> | [-> | ->]]; cbn [N.eqb Pos.eqb]; rewrite Hoct; apply f64_from_str_zero.
Qed.

(* the non-string kinds *)
Theorem parse_float_values i n b :
  parse_float dec_parse (DEnum i) = None /\
  parse_float dec_parse (DUInt n) = Some (u64_as_f64 n) /\
  parse_float dec_parse (DFloat b) = Some b.
Proof. repeat split. Qed.

End Float.

(* ------------------------------------------------------------------ *)
(** * The former defect (known_findings.json "float-prefixed-ge-2^64", fixed): regression witnesses *)

(* 2^64 written in octal, 2^65 - 1 written in hexadecimal (rounds to 2^65) *)
Definition oct_2_64 : list N := BS "02000000000000000000000".
Definition hex_2_65m1 : list N := BS "0x1ffffffffffffffff".

Theorem parse_float_prefixed_regression :
  prefixed_value oct_2_64 = Some (2 ^ 64) /\
  prefixed_value hex_2_65m1 = Some (2 ^ 65 - 1) /\
  forall dec,
    parse_float dec (DString oct_2_64) = Some 4895412794951729152 /\       (* 0x43F0000000000000 = 2^64 *)
    parse_float dec (DString hex_2_65m1) = Some 4899916394579099648.        (* 0x4400000000000000 = 2^65 *)
Proof.
  split; [vm_compute; reflexivity|]. split; [vm_compute; reflexivity|].
  intros dec. split; vm_compute; reflexivity.
Qed.

(* ------------------------------------------------------------------ *)
(** * Non-vacuity of the hypotheses used in Properties/C20.v *)

(* the float round-trip law is satisfiable: an (artificial) pair of conversions that obeys it *)
Definition toy_fmt (x : N) : list N := 98 :: print_u64 x.
Definition toy_parse (t : list N) : option N := match t with 98 :: r => parse_u64 r | _ => None end.

Example float_roundtrip_law_satisfiable : float_roundtrip_law toy_parse toy_fmt.
Proof.
  intros x Hx _. unfold f64_from_str, toy_fmt.
  replace (parse_inf_nan (98 :: print_u64 x)) with (@None N).
  - cbn [toy_parse]. apply print_parse_u64, Hx.
  - unfold parse_inf_nan. cbn [N.eqb Pos.eqb orb]. unfold inf_nan_word. cbn [map].
    unfold to_lower. cbn [N.leb N.compare Pos.compare Pos.compare_cont andb]. cbn [bytes_eqb N.eqb Pos.eqb andb].
    reflexivity.
Qed.

Example hypotheses_satisfiable :
  int_value (BS "0x1F") = Some 31%Z /\ int_value (BS "-128") = Some (-128)%Z /\
  prefixed_value (BS "0777") = Some 511 /\ prefixed_value (BS "0b1") = Some 1 /\
  prefixed_value (BS "0x10000000000000000") = Some (2 ^ 64).
Proof. vm_compute. repeat split. Qed.
