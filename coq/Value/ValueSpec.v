(* Value/ValueSpec.v — the SPECIFICATION side of C20: what a text denotes.

   Nothing here refers to the cascade of chardata.rs or to from_str_radix.
   Everything is executable (so that the harness can also run it), no proofs.

   - [digits_value radix ds]  : positional value of a non-signed digit string
                                (None when some byte is not a digit of the radix)
   - [signed_value radix s]   : optional single sign, then at least one digit
   - [liberal_value t]        : "0", or radix prefix (0x 0X 0b 0B 0), then [signed_value]
   - [int_value t]            : the value of a text that has one of the five
                                shapes of AUTOSAR regex 13
                                0|[\+\-]?[1-9][0-9]*|0[xX][0-9a-fA-F]+|0[bB][0-1]+|0[0-7]+
                                by cases on the shape, with a plain positional fold
   - [is_prefixed_form t]     : 0[xX]hex+ | 0[bB]bin+ | 0oct+  (the first three
                                alternatives of regex 16)
   - [representable53 m]      : m is a natural number that an IEEE binary64
                                holds exactly (53-bit significand) *)
From AV Require Import Base.Bytes Value.Num.
From Coq Require Import ZArith.

Local Open Scope N_scope.
Local Open Scope list_scope.

(* ------------------------------------------------------------------ *)
(** * Generic positional reading *)

Fixpoint digits_value_from (radix : N) (ds : list N) (acc : N) : option N :=
  match ds with
  | [] => Some acc
  | c :: r =>
      match digit_val radix c with
      | Some d => digits_value_from radix r (acc * radix + d)
      | None => None
      end
  end.

Definition digits_value (radix : N) (ds : list N) : option N := digits_value_from radix ds 0.

(* one optional sign: (is_negative, rest) *)
Definition split_sign (s : list N) : bool * list N :=
  match s with
  | c :: r => if c =? 43 then (false, r) else if c =? 45 then (true, r) else (false, s)
  | [] => (false, [])
  end.

Definition signed_value (radix : N) (s : list N) : option Z :=
  let (neg, ds) := split_sign s in
  if is_nil ds then None
  else match digits_value radix ds with
       | Some n => Some (if neg then - Z.of_N n else Z.of_N n)%Z
       | None => None
       end.

(* (radix, text after the radix prefix) *)
Definition radix_prefix (t : list N) : N * list N :=
  match t with
  | a :: r =>
      if a =? 48 then
        match r with
        | b :: r' =>
            if (b =? 120) || (b =? 88) then (16, r')
            else if (b =? 98) || (b =? 66) then (2, r')
            else (8, r)
        | [] => (8, r)
        end
      else (10, t)
  | [] => (10, t)
  end.

Definition liberal_value (t : list N) : option Z :=
  if bytes_eqb t [48] then Some 0%Z
  else let (radix, rest) := radix_prefix t in signed_value radix rest.

(* ------------------------------------------------------------------ *)
(** * Reading by the shapes of regex 13 *)

Definition in_cls (lo hi c : N) : bool := (lo <=? c) && (c <=? hi).
Definition is_dec (c : N) : bool := in_cls 48 57 c.
Definition is_dec1 (c : N) : bool := in_cls 49 57 c.
Definition is_oct (c : N) : bool := in_cls 48 55 c.
Definition is_bin (c : N) : bool := in_cls 48 49 c.
Definition is_hex (c : N) : bool := in_cls 48 57 c || in_cls 97 102 c || in_cls 65 70 c.

Definition dec_digit (c : N) : N := c - 48.
Definition hex_digit (c : N) : N :=
  if c <=? 57 then c - 48 else if c <=? 70 then c - 55 else c - 87.

Definition positional (radix : N) (dv : N -> N) (ds : list N) : N :=
  fold_left (fun a c => a * radix + dv c) ds 0.

Definition nonempty_all (p : N -> bool) (ds : list N) : bool := negb (is_nil ds) && forallb p ds.

(* [1-9][0-9]* *)
Definition dec_shape (ds : list N) : bool :=
  match ds with
  | d :: r => is_dec1 d && forallb is_dec r
  | [] => false
  end.

Definition int_value (t : list N) : option Z :=
  match t with
  | [] => None
  | c :: r =>
      if c =? 48 then
        match r with
        | [] => Some 0%Z                                                       (* 0 *)
        | x :: ds =>
            if (x =? 120) || (x =? 88) then                                    (* 0[xX][0-9a-fA-F]+ *)
              if nonempty_all is_hex ds then Some (Z.of_N (positional 16 hex_digit ds)) else None
            else if (x =? 98) || (x =? 66) then                                (* 0[bB][0-1]+ *)
              if nonempty_all is_bin ds then Some (Z.of_N (positional 2 dec_digit ds)) else None
            else                                                               (* 0[0-7]+ *)
              if forallb is_oct r then Some (Z.of_N (positional 8 dec_digit r)) else None
        end
      else if c =? 43 then                                                     (* \+[1-9][0-9]* *)
        if dec_shape r then Some (Z.of_N (positional 10 dec_digit r)) else None
      else if c =? 45 then                                                     (* \-[1-9][0-9]* *)
        if dec_shape r then Some (- Z.of_N (positional 10 dec_digit r))%Z else None
      else                                                                     (* [1-9][0-9]* *)
        if dec_shape t then Some (Z.of_N (positional 10 dec_digit t)) else None
  end.

Definition is_int_form (t : list N) : bool :=
  match int_value t with Some _ => true | None => false end.

(* the same without '-' : regex 21  0|[\+]?[1-9][0-9]*|0[xX]...|0[bB]...|0[0-7]+ *)
Definition is_posint_form (t : list N) : bool :=
  is_int_form t && match t with c :: _ => negb (c =? 45) | [] => false end.

(* 0[xX][0-9a-fA-F]+ | 0[bB][0-1]+ | 0[0-7]+ *)
Definition is_prefixed_form (t : list N) : bool :=
  match t with
  | c :: x :: ds =>
      (c =? 48) &&
      (if (x =? 120) || (x =? 88) then nonempty_all is_hex ds
       else if (x =? 98) || (x =? 66) then nonempty_all is_bin ds
       else forallb is_oct (x :: ds))
  | _ => false
  end.

(* value of a prefixed form (None for every other text) *)
Definition prefixed_value (t : list N) : option N :=
  if is_prefixed_form t
  then match int_value t with Some v => Some (Z.to_N v) | None => None end
  else None.

(* ------------------------------------------------------------------ *)
(** * binary64-representable naturals *)

Definition representable53 (m : N) : Prop := exists k e, m = k * 2 ^ e /\ k < 2 ^ 53.

(* ------------------------------------------------------------------ *)
(** * Examples *)

Example int_value_ex :
  (int_value (BS "0"), int_value (BS "0x1F"), int_value (BS "0b101"), int_value (BS "017"),
   int_value (BS "-12"), int_value (BS "+12"), int_value (BS "12"), int_value (BS "00"))
  = (Some 0, Some 31, Some 5, Some 15, Some (-12), Some 12, Some 12, Some 0)%Z.
Proof. vm_compute. reflexivity. Qed.

Example int_value_undef :
  map int_value [BS ""; BS "+0"; BS "-0"; BS "0x"; BS "0b"; BS "08"; BS "0b2"; BS "0xg"; BS "1a";
                 BS "+"; BS "0+7"; BS "0x-1"; BS " 1"; BS "1 "; BS "++1"]
  = map (fun _ => None) (seq 0 15).
Proof. vm_compute. reflexivity. Qed.

Example liberal_value_ex :
  (liberal_value (BS "0"), liberal_value (BS "0+7"), liberal_value (BS "0x-1"), liberal_value (BS "-0"),
   liberal_value (BS "0b+11"), liberal_value (BS "007"), liberal_value (BS "0x"), liberal_value (BS "0+"),
   liberal_value (BS "+-1"), liberal_value (BS "08"))
  = (Some 0, Some 7, Some (-1), Some 0, Some 3, Some 7, None, None, None, None)%Z.
Proof. vm_compute. reflexivity. Qed.
