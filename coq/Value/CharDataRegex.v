(* Value/CharDataRegex.v — the lexical forms of Value/ValueSpec.v ARE the published AUTOSAR patterns:
     is_int_form t = true     <->  t is in the language of regex 13  (integer pattern)
     is_posint_form t = true  <->  t is in the language of regex 21  (positive-integer pattern)
     parse_bool accepts t     <->  t is in the language of regex 6   (boolean pattern)
   rx_13 / rx_21 / rx_6 are the syntax trees of the texts published in specification.rs (Gen/RegexData.v,
   regenerated on every run; Properties/C19.v proves that they print to exactly the published text and that
   the validators of regex.rs accept exactly their language).
   Method: the shape test is written once more as a validator expression (Regex/Vexpr.v); its evaluation is
   proved equal to the shape test by hand, and its regex is proved equivalent to the published one by a
   bisimulation certificate checked in the kernel (Regex/Bisim.v). *)
From AV Require Import Base.Bytes Regex.Regex Regex.Bisim Regex.Syntax Regex.SyntaxWf Regex.Vexpr.
From AV.Gen Require Import RegexData RegexCert06 RegexCert13 RegexCert21.
From AV Require Import Value.Num Value.ValueSpec Value.CharData.
From Coq Require Import PeanoNat Arith Lia.
Open Scope N_scope.

Definition hex_cls : list (N*N) := [(48,57);(97,102);(65,70)].
Definition v_dec : vexpr := VStripOpt [(43,43);(45,45)] (VAnd (VAnd VNonEmpty (VAt 0 [(49,57)])) (VAll [(48,57)])).
Definition v_hex : vexpr := VAnd (VAnd (VLenGe 3) (VOr (VStarts [48;120]) (VStarts [48;88]))) (VSkip 2 (VAll hex_cls)).
Definition v_bin : vexpr := VAnd (VAnd (VLenGe 3) (VOr (VStarts [48;98]) (VStarts [48;66]))) (VSkip 2 (VAll [(48,49)])).
Definition v_oct : vexpr := VAnd (VAnd (VLenGe 2) (VStarts [48])) (VSkip 1 (VAll [(48,55)])).
Definition int_form_v : vexpr := VOr (VEq [48]) (VOr v_dec (VOr v_hex (VOr v_bin v_oct))).

Lemma forallb_eq {A} (f g : A -> bool) : (forall x, f x = g x) -> forall l, forallb f l = forallb g l.
Proof. intros H. induction l as [|a l IH]; cbn [forallb]; [reflexivity|]. rewrite H, IH. reflexivity. Qed.
Lemma cm_1 lo hi c : class_mem [(lo, hi)] c = in_cls lo hi c.
Proof. unfold class_mem, in_cls, Regex.in_range. cbn [existsb fst snd]. apply orb_false_r. Qed.
Lemma cm_hex c : class_mem hex_cls c = is_hex c.
Proof. unfold class_mem, is_hex, in_cls, Regex.in_range, hex_cls. cbn [existsb fst snd]. rewrite orb_false_r, orb_assoc. reflexivity. Qed.
Lemma cm_sign c : class_mem [(43,43);(45,45)] c = (c =? 43) || (c =? 45).
Proof.
  unfold class_mem, Regex.in_range. cbn [existsb fst snd]. rewrite orb_false_r.
  destruct (N.eqb_spec c 43) as [->|H1]; [reflexivity|].
  destruct (N.eqb_spec c 45) as [->|H2]; [reflexivity|].
  destruct (N.leb_spec 43 c), (N.leb_spec c 43), (N.leb_spec 45 c), (N.leb_spec c 45); cbn; try reflexivity; lia.
Qed.

Lemma veval_or a b s ba bb : veval a s = Some ba -> veval b s = Some bb -> veval (VOr a b) s = Some (ba || bb).
Proof. intros Ha Hb. cbn [veval]. rewrite Ha. destruct ba; [reflexivity | exact Hb]. Qed.
Lemma veval_and a b s ba bb : veval a s = Some ba -> (ba = true -> veval b s = Some bb) -> veval (VAnd a b) s = Some (ba && bb).
Proof. intros Ha Hb. cbn [veval]. rewrite Ha. destruct ba; [exact (Hb eq_refl) | reflexivity]. Qed.

Definition b_dshape (u : list N) : bool := match u with d :: _ => in_cls 49 57 d && forallb is_dec u | [] => false end.
Definition strip_sign (t : list N) : list N := match t with c :: u => if (c =? 43) || (c =? 45) then u else t | [] => [] end.
Definition b_pre (n : nat) (p1 p2 : list N) (cls : N -> bool) (t : list N) : bool :=
  Nat.leb n (List.length t) && (prefixb p1 t || prefixb p2 t) && forallb cls (skipn (List.length p1) t).

Lemma v_dshape_eval u : veval (VAnd (VAnd VNonEmpty (VAt 0 [(49,57)])) (VAll [(48,57)])) u = Some (b_dshape u).
Proof.
  destruct u as [|d r]; [reflexivity|].
  cbn [veval nth_opt b_dshape]. rewrite cm_1, (forallb_eq _ _ (cm_1 48 57)).
  destruct (in_cls 49 57 d); reflexivity.
Qed.
Lemma veval_strip_cons cls e c u :
  veval (VStripOpt cls e) (c :: u) = if class_mem cls c then veval e u else veval e (c :: u).
Proof. reflexivity. Qed.
Lemma v_dec_eval t : veval v_dec t = Some (b_dshape (strip_sign t)).
Proof.
  unfold v_dec. destruct t as [|c u]; [reflexivity|].
  rewrite veval_strip_cons, cm_sign. cbn [strip_sign].
  destruct ((c =? 43) || (c =? 45)); apply v_dshape_eval.
Qed.
Lemma v_pre_eval n p1 p2 cls clsb t :
  (List.length p1 = List.length p2) -> (List.length p1 <= n)%nat -> (forall c, class_mem cls c = clsb c) ->
  veval (VAnd (VAnd (VLenGe n) (VOr (VStarts p1) (VStarts p2))) (VSkip (List.length p1) (VAll cls))) t
  = Some (b_pre n p1 p2 clsb t).
Proof.
  intros Hl Hn Hc. unfold b_pre.
  apply veval_and.
  - apply veval_and; [reflexivity|]. intros _. apply veval_or; reflexivity.
  - intros H. apply andb_true_iff in H as [H _]. apply Nat.leb_le in H.
    cbn [veval]. replace (Nat.leb (List.length p1) (List.length t)) with true.
    + rewrite (forallb_eq _ _ Hc). reflexivity.
    + symmetry. apply Nat.leb_le. lia.
Qed.
Lemma v_oct_eval t : veval v_oct t = Some (Nat.leb 2 (List.length t) && prefixb [48] t && forallb is_oct (skipn 1 t)).
Proof.
  unfold v_oct. apply veval_and.
  - apply veval_and; [reflexivity|]. intros _. reflexivity.
  - intros H. apply andb_true_iff in H as [H _]. apply Nat.leb_le in H.
    cbn [veval]. replace (Nat.leb 1 (List.length t)) with true by (symmetry; apply Nat.leb_le; lia).
    rewrite (forallb_eq _ _ (cm_1 48 55)). reflexivity.
Qed.

Definition int_form_b (t : list N) : bool :=
  bytes_eqb t [48] || (b_dshape (strip_sign t) || (b_pre 3 [48;120] [48;88] is_hex t || (b_pre 3 [48;98] [48;66] is_bin t ||
   (Nat.leb 2 (List.length t) && prefixb [48] t && forallb is_oct (skipn 1 t))))).

Lemma int_form_v_eval t : veval int_form_v t = Some (int_form_b t).
Proof.
  unfold int_form_v, int_form_b.
  apply veval_or; [reflexivity|].
  apply veval_or; [apply v_dec_eval|].
  apply veval_or; [apply (v_pre_eval 3 [48;120] [48;88] hex_cls is_hex); [reflexivity | cbn; lia | apply cm_hex]|].
  apply veval_or; [apply (v_pre_eval 3 [48;98] [48;66] [(48,49)] is_bin); [reflexivity | cbn; lia | intros c; apply cm_1]|].
  apply v_oct_eval.
Qed.

Lemma b_dshape_dec_shape u : b_dshape u = dec_shape u.
Proof.
  destruct u as [|d r]; [reflexivity|]. cbn [b_dshape dec_shape forallb]. unfold is_dec1, is_dec.
  destruct (in_cls 49 57 d) eqn:E; [|reflexivity]. cbn [andb].
  replace (in_cls 48 57 d) with true; [reflexivity|].
  symmetry. unfold in_cls in *. apply andb_true_iff in E as [E1 E2]. apply N.leb_le in E1, E2.
  apply andb_true_iff. split; apply N.leb_le; lia.
Qed.

Ltac fin ds :=
  repeat match goal with |- context [forallb ?p ds] => destruct (forallb p ds) end;
  destruct (is_nil ds); reflexivity.

Lemma int_form_b_spec t : int_form_b t = is_int_form t.
Proof.
  unfold int_form_b, is_int_form, int_value, b_pre.
  destruct t as [|c r]; [reflexivity|].
  destruct (N.eqb_spec c 48) as [-> | Hc48].
  - destruct r as [|x ds]; [reflexivity|].
    assert (Hd : b_dshape (strip_sign (48 :: x :: ds)) = false) by reflexivity. rewrite Hd.
    cbn [bytes_eqb prefixb List.length Nat.leb skipn].
    change (48 =? 48) with true. cbn [andb orb]. unfold nonempty_all.
    replace (match List.length ds with 0%nat => false | S _ => true end) with (negb (is_nil ds)) by (destruct ds; reflexivity).
    rewrite (N.eqb_sym 120 x), (N.eqb_sym 88 x), (N.eqb_sym 98 x), (N.eqb_sym 66 x).
    destruct (N.eqb_spec x 120) as [-> | H1]; [cbn [forallb]; fin ds|].
    destruct (N.eqb_spec x 88) as [-> | H2]; [cbn [forallb]; fin ds|].
    destruct (N.eqb_spec x 98) as [-> | H3]; [cbn [forallb]; fin ds|].
    destruct (N.eqb_spec x 66) as [-> | H4]; [cbn [forallb]; fin ds|].
    cbn [orb andb]. rewrite !andb_false_r. cbn [orb].
    destruct (forallb is_oct (x :: ds)); reflexivity.
  - rewrite b_dshape_dec_shape.
    cbn [bytes_eqb strip_sign prefixb].
    rewrite (proj2 (N.eqb_neq c 48) Hc48), (proj2 (N.eqb_neq 48 c)) by congruence.
    cbn [andb orb]. rewrite !andb_false_r. cbn [orb]. rewrite !orb_false_r.
    destruct (N.eqb_spec c 43) as [-> | H43]; [cbn [orb]; destruct (dec_shape r); reflexivity|].
    destruct (N.eqb_spec c 45) as [-> | H45]; [cbn [orb]; destruct (dec_shape r); reflexivity|].
    cbn [orb]. destruct (dec_shape (c :: r)); reflexivity.
Qed.

(* ------------------------------------------------------------------ *)
(** * regex 13 *)

Definition FUEL_CD : nat := N.to_nat 400000.
Definition cert_i13 := Eval vm_compute in explore_rr FUEL_CD (rx_sem rx_13) (vregex int_form_v).
Definition R_i13 := match cert_i13 with Some R => R | None => [] end.
Lemma safe_i13 : vsafe 0 int_form_v = true.
Proof. vm_cast_no_check (@eq_refl bool true). Qed.
Lemma cert_ok_i13 : bisim_rr_ok (rx_sem rx_13) (vregex int_form_v) R_i13 = true.
Proof. vm_cast_no_check (@eq_refl bool true). Qed.

Theorem int_form_regex13 : forall t, bytes_ok t = true -> (is_int_form t = true <-> L (rx_sem rx_13) t).
Proof.
  intros t Ht.
  destruct (vexpr_validator_correct int_form_v safe_i13 t Ht) as (b & Hv & Hb).
  rewrite int_form_v_eval, int_form_b_spec in Hv. injection Hv as <-.
  rewrite Hb. symmetry.
  exact (bisim_rr_sound (rx_sem rx_13) (vregex int_form_v) R_i13 (wfb_true _) (vregex_wf _) cert_ok_i13 t Ht).
Qed.

(* the integer validator of the specification accepts exactly the texts int_value gives a value to *)
Theorem int_form_validator13 : forall t, bytes_ok t = true ->
  (dfa_run tbl_13 acc_13 t = Some true <-> exists v, int_value t = Some v).
Proof.
  intros t Ht. rewrite (proj1 (validator_13_correct t Ht)), <- (int_form_regex13 t Ht).
  unfold is_int_form. destruct (int_value t) as [v|]; split; intros H; try discriminate; eauto.
  destruct H as [? H]; discriminate.
Qed.

(* ------------------------------------------------------------------ *)
(** * regex 21 : the same without '-' *)

Definition v_dec21 : vexpr := VStripOpt [(43,43)] (VAnd (VAnd VNonEmpty (VAt 0 [(49,57)])) (VAll [(48,57)])).
Definition posint_form_v : vexpr := VOr (VEq [48]) (VOr v_dec21 (VOr v_hex (VOr v_bin v_oct))).
Definition strip_plus (t : list N) : list N := match t with c :: u => if c =? 43 then u else t | [] => [] end.

Lemma cm_plus c : class_mem [(43,43)] c = (c =? 43).
Proof.
  rewrite cm_1. unfold in_cls. destruct (N.eqb_spec c 43) as [->|H]; [reflexivity|].
  destruct (N.leb_spec 43 c), (N.leb_spec c 43); cbn; try reflexivity; lia.
Qed.

Lemma v_dec21_eval t : veval v_dec21 t = Some (b_dshape (strip_plus t)).
Proof.
  unfold v_dec21. destruct t as [|c u]; [reflexivity|].
  rewrite veval_strip_cons, cm_plus. cbn [strip_plus].
  destruct (c =? 43); apply v_dshape_eval.
Qed.

Definition posint_form_b (t : list N) : bool :=
  bytes_eqb t [48] || (b_dshape (strip_plus t) || (b_pre 3 [48;120] [48;88] is_hex t || (b_pre 3 [48;98] [48;66] is_bin t ||
   (Nat.leb 2 (List.length t) && prefixb [48] t && forallb is_oct (skipn 1 t))))).

Lemma posint_form_v_eval t : veval posint_form_v t = Some (posint_form_b t).
Proof.
  unfold posint_form_v, posint_form_b.
  apply veval_or; [reflexivity|].
  apply veval_or; [apply v_dec21_eval|].
  apply veval_or; [apply (v_pre_eval 3 [48;120] [48;88] hex_cls is_hex); [reflexivity | cbn; lia | apply cm_hex]|].
  apply veval_or; [apply (v_pre_eval 3 [48;98] [48;66] [(48,49)] is_bin); [reflexivity | cbn; lia | intros c; apply cm_1]|].
  apply v_oct_eval.
Qed.

Lemma posint_form_b_spec t : posint_form_b t = is_posint_form t.
Proof.
  unfold is_posint_form. rewrite <- int_form_b_spec. unfold posint_form_b, int_form_b.
  destruct t as [|c r]; [reflexivity|].
  destruct (N.eqb_spec c 45) as [-> | H45].
  - (* '-' : nothing matches *)
    cbn [negb andb strip_plus strip_sign b_dshape b_pre bytes_eqb prefixb]. rewrite andb_false_r.
    change (45 =? 43) with false. change (45 =? 48) with false. change (48 =? 45) with false.
    cbn [b_dshape]. change (in_cls 49 57 45) with false. cbn [andb orb].
    unfold b_pre. cbn [prefixb]. change (48 =? 45) with false. cbn [andb orb].
    rewrite !andb_false_r. reflexivity.
  - cbn [negb]. rewrite andb_true_r.
    cbn [strip_plus strip_sign]. rewrite (proj2 (N.eqb_neq c 45) H45), orb_false_r. reflexivity.
Qed.

Definition cert_i21 := Eval vm_compute in explore_rr FUEL_CD (rx_sem rx_21) (vregex posint_form_v).
Definition R_i21 := match cert_i21 with Some R => R | None => [] end.
Lemma safe_i21 : vsafe 0 posint_form_v = true.
Proof. vm_cast_no_check (@eq_refl bool true). Qed.
Lemma cert_ok_i21 : bisim_rr_ok (rx_sem rx_21) (vregex posint_form_v) R_i21 = true.
Proof. vm_cast_no_check (@eq_refl bool true). Qed.

Theorem posint_form_regex21 : forall t, bytes_ok t = true -> (is_posint_form t = true <-> L (rx_sem rx_21) t).
Proof.
  intros t Ht.
  destruct (vexpr_validator_correct posint_form_v safe_i21 t Ht) as (b & Hv & Hb).
  rewrite posint_form_v_eval, posint_form_b_spec in Hv. injection Hv as <-.
  rewrite Hb. symmetry.
  exact (bisim_rr_sound (rx_sem rx_21) (vregex posint_form_v) R_i21 (wfb_true _) (vregex_wf _) cert_ok_i21 t Ht).
Qed.

(* ------------------------------------------------------------------ *)
(** * regex 6 : parse_bool accepts exactly the boolean pattern *)

Theorem bool_regex6 : forall t, bytes_ok t = true ->
  ((exists b, parse_bool (DString t) = Some b) <-> L (rx_sem rx_6) t).
Proof.
  intros t Ht. destruct (validator_6_correct t Ht) as (b & Hv & Hb). rewrite <- Hb.
  assert (He : veval v_6 t = Some (((bytes_eqb t [48] || bytes_eqb t [49]) || bytes_eqb t T_true) || bytes_eqb t T_false)).
  { unfold v_6. repeat apply veval_or; reflexivity. }
  rewrite He in Hv. injection Hv as <-.
  cbn [parse_bool]. unfold T1, T0.
  destruct (bytes_eqb t T_true), (bytes_eqb t [49]), (bytes_eqb t T_false), (bytes_eqb t [48]); cbn [orb];
    split; intros H; try reflexivity; try discriminate; eauto; destruct H as [? H]; discriminate.
Qed.

Lemma is_int_form_exists t : is_int_form t = true <-> exists v, int_value t = Some v.
Proof.
  unfold is_int_form. destruct (int_value t) as [v|]; split; intros H; try discriminate; eauto.
  destruct H as [? H]; discriminate.
Qed.

(* the statements used by Properties/C20.v, including "the tree prints to the published text" *)
Theorem int_value_domain_regex13 :
  rx_text rx_13 = text_13 /\
  forall t, bytes_ok t = true -> ((exists v, int_value t = Some v) <-> L (rx_sem rx_13) t).
Proof.
  split; [exact (proj1 text_ok_13)|]. intros t Ht. rewrite <- is_int_form_exists. apply int_form_regex13, Ht.
Qed.

Theorem posint_domain_regex21 :
  rx_text rx_21 = text_21 /\
  forall t, bytes_ok t = true ->
    (((exists v, int_value t = Some v) /\ (forall r, t <> 45 :: r)) <-> L (rx_sem rx_21) t).
Proof.
  split; [exact (proj1 text_ok_21)|]. intros t Ht. rewrite <- (posint_form_regex21 t Ht).
  unfold is_posint_form. rewrite andb_true_iff, is_int_form_exists.
  destruct t as [|c r].
  - split; [intros [[v Hv] _]; discriminate | intros [[v Hv] _]; discriminate].
  - destruct (N.eqb_spec c 45) as [-> | Hc]; cbn [negb].
    + split; [intros [_ H]; exfalso; apply (H r); reflexivity | intros [_ H]; discriminate].
    + split; [intros [H _]; auto | intros [H _]; split; [exact H | intros r' [= ? _]; contradiction]].
Qed.

Theorem bool_domain_regex6 :
  rx_text rx_6 = text_6 /\
  forall t, bytes_ok t = true -> ((exists b, parse_bool (DString t) = Some b) <-> L (rx_sem rx_6) t).
Proof. split; [exact (proj1 text_ok_6) | exact bool_regex6]. Qed.

Print Assumptions int_form_regex13.
Print Assumptions posint_form_regex21.
Print Assumptions bool_regex6.
