(* Value/CharDataProofs.v — proofs about the model of chardata.rs (Value/CharData.v):
   integers (exact on the lexical forms, never a different number on any text), booleans,
   format -> parse per value kind, floats (prefixed forms correctly rounded, specials). *)
From AV Require Import Base.Bytes Base.Outcome Hash.HashModel Hash.HashProofs Spec.SpecTypes.
From AV Require Import Value.Num Value.ValueSpec Value.NumProofs Value.F64 Value.F64Proofs Value.CharData.
From Coq Require Import ZArith Lia.

Local Open Scope N_scope.
Local Open Scope list_scope.

(* ------------------------------------------------------------------ *)
(** * The prefix cascade of parse_integer = radix_prefix of the specification side *)

Lemma strip_prefix_1 a t :
  strip_prefix [a] t = match t with c :: r => if a =? c then Some r else None | [] => None end.
Proof. destruct t as [|c r]; cbn [strip_prefix]; [reflexivity|]. destruct (a =? c); reflexivity. Qed.

Lemma strip_prefix_2 a b t :
  strip_prefix [a; b] t =
  match t with
  | c :: d :: r => if (a =? c) && (b =? d) then Some r else None
  | _ => None
  end.
Proof.
  destruct t as [|c [|d r]]; cbn [strip_prefix]; try reflexivity.
  - destruct (a =? c); reflexivity.
  - destruct (a =? c); [|reflexivity]. destruct (b =? d); reflexivity.
Qed.

Theorem parse_integer_cascade signed bits t :
  parse_integer signed bits (DString t) =
  if bytes_eqb t [48] then checked signed bits 0
  else let (radix, rest) := radix_prefix t in from_str_radix signed bits radix rest.
Proof.
  unfold parse_integer, try_from_u64, T0, T0x, T0X, T0b, T0B.
  destruct (bytes_eqb t [48]) eqn:E0; [reflexivity|].
  rewrite !strip_prefix_2, strip_prefix_1. unfold radix_prefix.
  destruct t as [|a r]; [reflexivity|].
  destruct (N.eqb_spec a 48) as [-> | Ha].
  - change (48 =? 48) with true. cbn [andb].
    destruct r as [|b r']; [reflexivity|].
    destruct (N.eqb_spec b 120) as [-> | Hx]; [reflexivity|].
    destruct (N.eqb_spec b 88) as [-> | HX]; [reflexivity|].
    destruct (N.eqb_spec b 98) as [-> | Hb]; [reflexivity|].
    destruct (N.eqb_spec b 66) as [-> | HB]; [reflexivity|].
    rewrite (proj2 (N.eqb_neq 120 b)), (proj2 (N.eqb_neq 88 b)),
            (proj2 (N.eqb_neq 98 b)), (proj2 (N.eqb_neq 66 b)) by congruence.
    reflexivity.
  - rewrite (proj2 (N.eqb_neq 48 a)) by congruence. cbn [andb].
    destruct r; reflexivity.
Qed.

(* radix_prefix always yields a positive radix *)
Lemma radix_prefix_pos t : 0 < fst (radix_prefix t).
Proof.
  unfold radix_prefix. destruct t as [|a r]; [cbn; lia|].
  destruct (a =? 48); [|cbn; lia].
  destruct r as [|b r']; [cbn; lia|].
  destruct ((b =? 120) || (b =? 88)); [cbn; lia|].
  destruct ((b =? 98) || (b =? 66)); cbn; lia.
Qed.

(* [U] parse_integer in terms of the liberal reading *)
Theorem parse_integer_liberal signed bits t :
  parse_integer signed bits (DString t) =
  if bytes_eqb t [48] then checked signed bits 0
  else let (radix, rest) := radix_prefix t in
       if leading_minus rest && negb signed then None
       else match liberal_value t with
            | Some v => checked signed bits v
            | None => None
            end.
Proof.
  rewrite parse_integer_cascade. unfold liberal_value.
  destruct (bytes_eqb t [48]); [reflexivity|].
  pose proof (radix_prefix_pos t) as Hr.
  destruct (radix_prefix t) as [radix rest]. cbn [fst] in Hr.
  apply from_str_radix_eq, Hr.
Qed.

(* [U] never a different number: for EVERY byte string *)
Theorem parse_integer_never_wrong signed bits t v :
  parse_integer signed bits (DString t) = Some v ->
  liberal_value t = Some v /\ in_range signed bits v.
Proof.
  rewrite parse_integer_liberal. unfold liberal_value.
  destruct (bytes_eqb t [48]) eqn:E0.
  - intros H. apply checked_Some in H as [-> H]. auto.
  - destruct (radix_prefix t) as [radix rest].
    destruct (leading_minus rest && negb signed); [discriminate|].
    destruct (signed_value radix rest) as [w|]; [|discriminate].
    intros H. apply checked_Some in H as [-> H]. auto.
Qed.

(* the non-string kinds *)
Lemma parse_integer_uint signed bits n :
  parse_integer signed bits (DUInt n) = checked signed bits (Z.of_N n).
Proof. reflexivity. Qed.

(* ------------------------------------------------------------------ *)
(** * The regex-13 shapes: int_value agrees with the liberal reading *)

Lemma in_cls_spec lo hi c : in_cls lo hi c = true <-> lo <= c /\ c <= hi.
Proof. unfold in_cls. rewrite andb_true_iff, !N.leb_le. tauto. Qed.

Lemma digit_val_dec radix c : 10 <= radix -> is_dec c = true -> digit_val radix c = Some (dec_digit c).
Proof.
  intros Hr H. apply in_cls_spec in H as [H1 H2]. unfold digit_val, to_digit36, dec_digit.
  destruct (N.leb_spec 48 c); [|lia]. destruct (N.leb_spec c 57); [|lia]. cbn [andb].
  destruct (N.ltb_spec (c - 48) radix); [reflexivity | lia].
Qed.

Lemma digit_val_oct c : is_oct c = true -> digit_val 8 c = Some (dec_digit c).
Proof.
  intros H. apply in_cls_spec in H as [H1 H2]. unfold digit_val, to_digit36, dec_digit.
  destruct (N.leb_spec 48 c); [|lia]. destruct (N.leb_spec c 57); [|lia]. cbn [andb].
  destruct (N.ltb_spec (c - 48) 8); [reflexivity | lia].
Qed.

Lemma digit_val_bin c : is_bin c = true -> digit_val 2 c = Some (dec_digit c).
Proof.
  intros H. apply in_cls_spec in H as [H1 H2]. unfold digit_val, to_digit36, dec_digit.
  destruct (N.leb_spec 48 c); [|lia]. destruct (N.leb_spec c 57); [|lia]. cbn [andb].
  destruct (N.ltb_spec (c - 48) 2); [reflexivity | lia].
Qed.

Lemma digit_val_hex c : is_hex c = true -> digit_val 16 c = Some (hex_digit c).
Proof.
  unfold is_hex. rewrite !orb_true_iff, !in_cls_spec.
  unfold digit_val, to_digit36, hex_digit.
  intros [[[H1 H2] | [H1 H2]] | [H1 H2]].
  - destruct (N.leb_spec 48 c); [|lia]. destruct (N.leb_spec c 57); [|lia]. cbn [andb].
    destruct (N.ltb_spec (c - 48) 16); [reflexivity | lia].
  - destruct (N.leb_spec 48 c); [|lia]. destruct (N.leb_spec c 57); [lia|]. cbn [andb].
    destruct (N.leb_spec 97 c); [|lia]. destruct (N.leb_spec c 122); [|lia]. cbn [andb].
    destruct (N.leb_spec c 70); [lia|].
    destruct (N.ltb_spec (c - 97 + 10) 16); [f_equal; lia | lia].
  - destruct (N.leb_spec 48 c); [|lia]. destruct (N.leb_spec c 57); [lia|]. cbn [andb].
    destruct (N.leb_spec 97 c); [lia|]. cbn [andb].
    destruct (N.leb_spec 65 c); [|lia]. destruct (N.leb_spec c 90); [|lia]. cbn [andb].
    destruct (N.leb_spec c 70); [|lia].
    destruct (N.ltb_spec (c - 65 + 10) 16); [f_equal; lia | lia].
Qed.

(* a digit string all of whose bytes are digits (with value dv) reads as its positional value *)
Lemma digits_value_positional radix (p : N -> bool) (dv : N -> N) :
  (forall c, p c = true -> digit_val radix c = Some (dv c)) ->
  forall ds acc, forallb p ds = true ->
    digits_value_from radix ds acc = Some (fold_left (fun a c => a * radix + dv c) ds acc).
Proof.
  intros Hp. induction ds as [|c ds IH]; intros acc Hall; cbn [digits_value_from fold_left]; [reflexivity|].
  cbn [forallb] in Hall. apply andb_true_iff in Hall as [Hc Hds].
  rewrite (Hp c Hc). apply IH, Hds.
Qed.

Lemma signed_value_unsigned radix (p : N -> bool) (dv : N -> N) ds :
  (forall c, p c = true -> digit_val radix c = Some (dv c)) ->
  (forall c, p c = true -> c <> 43 /\ c <> 45) ->
  nonempty_all p ds = true ->
  signed_value radix ds = Some (Z.of_N (positional radix dv ds)) /\ leading_minus ds = false.
Proof.
  intros Hp Hns H. unfold nonempty_all in H. apply andb_true_iff in H as [Hne Hall].
  destruct ds as [|c r]; [discriminate|].
  pose proof Hall as Hall'. cbn [forallb] in Hall'. apply andb_true_iff in Hall' as [Hc _].
  destruct (Hns c Hc) as [H43 H45].
  unfold signed_value, split_sign, leading_minus.
  destruct (N.eqb_spec c 43); [contradiction|]. destruct (N.eqb_spec c 45); [contradiction|].
  cbn [is_nil]. unfold digits_value.
  rewrite (digits_value_positional radix p dv Hp (c :: r) 0 Hall). auto.
Qed.

Lemma hex_not_sign c : is_hex c = true -> c <> 43 /\ c <> 45.
Proof. unfold is_hex. rewrite !orb_true_iff, !in_cls_spec. lia. Qed.
Lemma dec_not_sign c : is_dec c = true -> c <> 43 /\ c <> 45.
Proof. unfold is_dec. rewrite in_cls_spec. lia. Qed.
Lemma oct_not_sign c : is_oct c = true -> c <> 43 /\ c <> 45.
Proof. unfold is_oct. rewrite in_cls_spec. lia. Qed.
Lemma bin_not_sign c : is_bin c = true -> c <> 43 /\ c <> 45.
Proof. unfold is_bin. rewrite in_cls_spec. lia. Qed.

Lemma dec_shape_all ds : dec_shape ds = true -> nonempty_all is_dec ds = true.
Proof.
  destruct ds as [|d r]; [discriminate|]. cbn [dec_shape]. unfold nonempty_all. cbn [is_nil negb forallb andb].
  rewrite !andb_true_iff. intros [H1 H2]. split; [|exact H2].
  unfold is_dec1, is_dec in *. rewrite in_cls_spec in *. lia.
Qed.

Lemma positional_ge radix (dv : N -> N) ds acc :
  acc <= fold_left (fun a c => a * radix + dv c) ds (acc * 1) \/ radix = 0.
Proof.
  destruct (N.eq_dec radix 0) as [-> | Hr]; [right; reflexivity | left].
  rewrite N.mul_1_r. revert acc. induction ds as [|c ds IH]; intros acc; cbn [fold_left]; [lia|].
  eapply N.le_trans; [|apply IH]. nia.
Qed.

(* the decimal shape [1-9][0-9]* has a value >= 1 *)
Lemma dec_shape_pos ds : dec_shape ds = true -> 1 <= positional 10 dec_digit ds.
Proof.
  destruct ds as [|d r]; [discriminate|]. cbn [dec_shape]. rewrite andb_true_iff. intros [H1 _].
  unfold is_dec1 in H1. apply in_cls_spec in H1.
  unfold positional. cbn [fold_left].
  destruct (positional_ge 10 dec_digit r (0 * 10 + dec_digit d)) as [H | H]; [|discriminate].
  rewrite N.mul_1_r in H. unfold dec_digit in *. lia.
Qed.

Lemma digits_value_all radix (p : N -> bool) (dv : N -> N) ds :
  (forall c, p c = true -> digit_val radix c = Some (dv c)) ->
  forallb p ds = true -> digits_value radix ds = Some (positional radix dv ds).
Proof. intros Hp Hall. exact (digits_value_positional radix p dv Hp ds 0 Hall). Qed.

Lemma signed_value_plus radix ds :
  signed_value radix (43 :: ds) =
  if is_nil ds then None
  else match digits_value radix ds with Some n => Some (Z.of_N n) | None => None end.
Proof. reflexivity. Qed.

Lemma signed_value_minus radix ds :
  signed_value radix (45 :: ds) =
  if is_nil ds then None
  else match digits_value radix ds with Some n => Some (- Z.of_N n)%Z | None => None end.
Proof. reflexivity. Qed.

(* [U] on the regex-13 shapes the specification value is the liberal value; a '-' occurs only in
   front of the decimal shape, and then the value is negative *)
Theorem int_value_liberal t v :
  int_value t = Some v ->
  liberal_value t = Some v /\
  (bytes_eqb t [48] = false ->
   leading_minus (snd (radix_prefix t)) = true -> (v < 0)%Z).
Proof.
  unfold int_value, liberal_value, radix_prefix.
  destruct t as [|c r]; [discriminate|].
  destruct (N.eqb_spec c 48) as [-> | Hc48].
  - destruct r as [|x ds].
    + intros [= <-]. cbn. split; [reflexivity | discriminate].
    + cbn [bytes_eqb]. change (48 =? 48) with true. cbn [andb].
      replace (match ds with [] => false | _ :: _ => false end) with false by (destruct ds; reflexivity).
      destruct ((x =? 120) || (x =? 88)) eqn:Ex.
      * destruct (nonempty_all is_hex ds) eqn:Eh; [|discriminate]. intros [= <-].
        destruct (signed_value_unsigned 16 is_hex hex_digit ds digit_val_hex hex_not_sign Eh) as [Hv Hm].
        cbn [snd]. rewrite Hv, Hm. split; [reflexivity | discriminate].
      * destruct ((x =? 98) || (x =? 66)) eqn:Eb.
        -- destruct (nonempty_all is_bin ds) eqn:Eh; [|discriminate]. intros [= <-].
           destruct (signed_value_unsigned 2 is_bin dec_digit ds digit_val_bin bin_not_sign Eh) as [Hv Hm].
           cbn [snd]. rewrite Hv, Hm. split; [reflexivity | discriminate].
        -- destruct (forallb is_oct (x :: ds)) eqn:Eh; [|discriminate]. intros [= <-].
           assert (Hne : nonempty_all is_oct (x :: ds) = true) by (unfold nonempty_all; rewrite Eh; reflexivity).
           destruct (signed_value_unsigned 8 is_oct dec_digit (x :: ds) digit_val_oct oct_not_sign Hne) as [Hv Hm].
           cbn [snd]. rewrite Hv, Hm. split; [reflexivity | discriminate].
  - assert (E0 : bytes_eqb (c :: r) [48] = false).
    { cbn [bytes_eqb]. rewrite (proj2 (N.eqb_neq c 48) Hc48). reflexivity. }
    rewrite E0. cbn [snd].
    destruct (N.eqb_spec c 43) as [-> | Hc43].
    + destruct (dec_shape r) eqn:Ed; [|discriminate]. intros [= <-].
      apply dec_shape_all in Ed. unfold nonempty_all in Ed. apply andb_true_iff in Ed as [Hne Hall].
      rewrite signed_value_plus.
      destruct (is_nil r); [discriminate|].
      rewrite (digits_value_all 10 is_dec dec_digit r (fun c => digit_val_dec 10 c (N.le_refl 10)) Hall).
      split; [reflexivity | discriminate].
    + destruct (N.eqb_spec c 45) as [-> | Hc45].
      * destruct (dec_shape r) eqn:Ed; [|discriminate]. intros [= <-].
        pose proof (dec_shape_pos r Ed) as Hpos.
        apply dec_shape_all in Ed. unfold nonempty_all in Ed. apply andb_true_iff in Ed as [Hne Hall].
        rewrite signed_value_minus.
        destruct (is_nil r); [discriminate|].
        rewrite (digits_value_all 10 is_dec dec_digit r (fun c => digit_val_dec 10 c (N.le_refl 10)) Hall).
        split; [reflexivity|]. intros _ _. lia.
      * destruct (dec_shape (c :: r)) eqn:Ed; [|discriminate]. intros [= <-].
        apply dec_shape_all in Ed.
        destruct (signed_value_unsigned 10 is_dec dec_digit (c :: r) (fun c => digit_val_dec 10 c (N.le_refl 10)) dec_not_sign Ed) as [Hv Hm].
        rewrite Hv. split; [reflexivity|]. intros _. rewrite Hm. discriminate.
Qed.

(* [U] exact on the lexical forms of regex 13, for every integer type *)
Theorem parse_integer_exact signed bits t v :
  int_value t = Some v ->
  parse_integer signed bits (DString t) = if in_rangeb signed bits v then Some v else None.
Proof.
  intros Hiv. destruct (int_value_liberal t v Hiv) as [Hlib Hneg].
  rewrite parse_integer_liberal.
  destruct (bytes_eqb t [48]) eqn:E0.
  - apply bytes_eqb_spec in E0. subst t. cbn in Hiv. injection Hiv as <-. reflexivity.
  - specialize (Hneg eq_refl).
    destruct (radix_prefix t) as [radix rest]. cbn [snd] in Hneg. rewrite Hlib.
    destruct (leading_minus rest) eqn:Em; cbn [andb]; [|reflexivity].
    specialize (Hneg eq_refl).
    destruct signed; cbn [negb]; [reflexivity|].
    (* unsigned type, negative number: does not fit *)
    replace (in_rangeb false bits v) with false; [reflexivity|].
    symmetry. apply in_rangeb_false. rewrite in_range_unsigned_iff. lia.
Qed.

(* ------------------------------------------------------------------ *)
(** * parse_bool *)

Theorem parse_bool_spec d b :
  parse_bool d = Some b <->
  exists t, d = DString t /\
    ((t = T_true /\ b = true) \/ (t = T1 /\ b = true) \/ (t = T_false /\ b = false) \/ (t = T0 /\ b = false)).
Proof.
  split.
  - destruct d as [i | t | n | f]; cbn [parse_bool]; try discriminate.
    intros H. exists t. split; [reflexivity|].
    destruct (bytes_eqb t T_true) eqn:E1; [apply bytes_eqb_spec in E1; injection H as <-; auto|].
    destruct (bytes_eqb t T1) eqn:E2; [apply bytes_eqb_spec in E2; injection H as <-; auto|].
    cbn [orb] in H.
    destruct (bytes_eqb t T_false) eqn:E3; [apply bytes_eqb_spec in E3; injection H as <-; auto|].
    destruct (bytes_eqb t T0) eqn:E4; [apply bytes_eqb_spec in E4; injection H as <-; auto 6|].
    discriminate.
  - intros (t & -> & [[-> ->] | [[-> ->] | [[-> ->] | [-> ->]]]]); reflexivity.
Qed.
