(* Value/CharData.v — executable model of autosar-data/src/chardata.rs.

   MODEL ONLY (definitions + Examples).  Proofs: Value/F64Proofs.v, Value/CharDataProofs.v.

   Rust item                                   model
   ------------------------------------------  ------------------------------------------
   enum CharacterData                          cdata   (Float carries the 64 bits of the f64)
   CharacterData::check_value                  check_value
   CharacterData::parse                        parse
   CharacterData::serialize_internal           serialize_internal   (escape_text)
   impl Display / to_string                    display
   CharacterData::parse_integer::<T>           parse_integer signed bits
   CharacterData::parse_float                  parse_float
   CharacterData::parse_bool                   parse_bool
   <T as TryFrom<u64>>::try_from               try_from_u64
   `v as f64` for v : u64                      u64_as_f64    (Value/F64.v: round to nearest, ties to even, 53 bits)
   float_from_radix_digits                     float_from_radix_digits (step_bit, digit_bits, radix_loop, f64_scale2)
   str::parse::<f64>                           f64_from_str  (inf/nan spellings modelled, decimal numbers = ORACLE)
   f64::to_string                              f64_to_string (NaN/inf modelled, finite numbers = ORACLE)

   T is described by (signed, bits): u8..u128 = (false, 8..128), i8..i128 = (true, 8..128),
   usize/isize = (_, 64) (x86-64).

   The two std float conversions are Section variables:
     dec_parse : list N -> option N    the result of str::parse::<f64>() on a text that is not one of the
                                       inf/nan spellings (Some bits | None = Err)
     dec_fmt   : N -> list N           f64::to_string() of a finite value given by its bits
   They are never given a definition inside coq/; the theorems that need a law about them state it as a
   hypothesis, and the correspondence run instantiates them with a table of what std answered in the harness.

   Strings are byte lists.  A Rust &str is valid UTF-8; everything chardata.rs does with characters
   (strip_prefix of ASCII text, comparison with ASCII literals, `contains`/`chars()` looking for the five ASCII
   characters amp, lt, gt, apostrophe, quote) acts on single bytes < 128, and in valid UTF-8 such a byte is always a whole character,
   so the byte-level model is exact. *)
From AV Require Import Base.Bytes Base.Outcome Hash.HashModel Spec.SpecTypes Value.Num.
From AV Require Export Value.F64.
From Coq Require Import ZArith.

Local Open Scope N_scope.
Local Open Scope list_scope.

Inductive cdata :=
| DEnum (item : N)          (* CharacterData::Enum(EnumItem), the discriminant *)
| DString (s : list N)      (* CharacterData::String *)
| DUInt (n : N)             (* CharacterData::UnsignedInteger(u64) *)
| DFloat (bits : N).        (* CharacterData::Float(f64), f64::to_bits *)

(* ------------------------------------------------------------------ *)
(** * str::parse::<f64>  and  f64::to_string *)

Definition to_lower (c : N) : N := if (65 <=? c) && (c <=? 90) then c + 32 else c.

(* core::num::dec2flt::parse::parse_inf_nan : after the optional sign, the whole rest is
   "nan", "inf" or "infinity", ASCII case-insensitive *)
Definition inf_nan_word (s : list N) : option bool :=        (* Some true = nan, Some false = inf *)
  let l := map to_lower s in
  if bytes_eqb l [110; 97; 110] then Some true                                   (* nan *)
  else if bytes_eqb l [105; 110; 102] then Some false                            (* inf *)
  else if bytes_eqb l [105; 110; 102; 105; 110; 105; 116; 121] then Some false   (* infinity *)
  else None.

Definition parse_inf_nan (s : list N) : option N :=
  match s with
  | [] => None
  | c :: r =>
      let neg := c =? 45 in
      let body := if (c =? 45) || (c =? 43) then r else s in
      match inf_nan_word body with
      | Some true => Some (if neg then F64_NEG_NAN else F64_NAN)
      | Some false => Some (if neg then F64_NEG_INF else F64_INF)
      | None => None
      end
  end.

Section FloatOracle.
Variable dec_parse : list N -> option N.
Variable dec_fmt : N -> list N.

(* <f64 as FromStr>::from_str(text).ok() *)
Definition f64_from_str (text : list N) : option N :=
  match parse_inf_nan text with
  | Some b => Some b
  | None => dec_parse text
  end.

(* f64::to_string (impl Display for f64: "NaN", "inf", "-inf", otherwise the shortest decimal that round-trips) *)
Definition f64_to_string (b : N) : list N :=
  if f64_is_nan b then [78; 97; 78]                                       (* NaN *)
  else if f64_is_inf b then (if f64_neg b then [45; 105; 110; 102] else [105; 110; 102])  (* -inf / inf *)
  else dec_fmt b.

(* ------------------------------------------------------------------ *)
(** * helpers *)

(* str::strip_prefix *)
Fixpoint strip_prefix (p s : list N) : option (list N) :=
  match p, s with
  | [], _ => Some s
  | a :: p', b :: s' => if a =? b then strip_prefix p' s' else None
  | _ :: _, [] => None
  end.

(* T::try_from(v).ok() for v : u64 *)
Definition try_from_u64 (signed : bool) (bits : N) (v : N) : option Z := checked signed bits (Z.of_N v).

Definition USIZE_MAX : N := 18446744073709551615.

(* s.len() <= max_length.unwrap_or(usize::MAX) *)
Definition len_ok (s : list N) (maxlen : option N) : bool :=
  N.of_nat (List.length s) <=? match maxlen with Some m => m | None => USIZE_MAX end.

(* items.iter().find(|(name, _)| *name == item) *)
Definition find_item (items : list (N * N)) (item : N) : option (N * N) :=
  find (fun p => fst p =? item) items.

(* mask & (version as u32) != 0 *)
Definition version_ok (mask version : N) : bool := negb (N.land mask version =? 0).

(* ------------------------------------------------------------------ *)
(** * parse_integer / parse_float / parse_bool *)

Definition T0 : list N := [48].            (* "0" *)
Definition T0x : list N := [48; 120].      (* "0x" *)
Definition T0X : list N := [48; 88].       (* "0X" *)
Definition T0b : list N := [48; 98].       (* "0b" *)
Definition T0B : list N := [48; 66].       (* "0B" *)

Definition parse_integer (signed : bool) (bits : N) (d : cdata) : option Z :=
  match d with
  | DString text =>
      if bytes_eqb text T0 then try_from_u64 signed bits 0
      else match strip_prefix T0x text with
      | Some hexstr => from_str_radix signed bits 16 hexstr
      | None =>
      match strip_prefix T0X text with
      | Some hexstr => from_str_radix signed bits 16 hexstr
      | None =>
      match strip_prefix T0b text with
      | Some binstr => from_str_radix signed bits 2 binstr
      | None =>
      match strip_prefix T0B text with
      | Some binstr => from_str_radix signed bits 2 binstr
      | None =>
      match strip_prefix T0 text with
      | Some octstr => from_str_radix signed bits 8 octstr
      | None => from_str_radix signed bits 10 text
      end end end end end
  | DUInt value => try_from_u64 signed bits value
  | _ => None
  end.

(* ---- fn float_from_radix_digits(digits, bits_per_digit) ----
   state (mantissa, dropped_bits, sticky); per bit, most significant first:
     if mantissa >> 63 == 0 { mantissa = (mantissa << 1) | bit }
     else { dropped_bits += 1; sticky |= bit == 1 }
   (dropped_bits is an i32 with saturating_add; it cannot saturate for texts shorter than 2^31 bits,
    the model counts in N) *)
Definition step_bit (a : N * N * bool) (bit : N) : N * N * bool :=
  let '(m, dr, st) := a in
  if m / P63 =? 0 then (2 * m + bit, dr, st) else (m, dr + 1, st || (bit =? 1)).

(* (digit >> pos) & 1 for pos = n-1 .. 0 *)
Fixpoint digit_bits (n : nat) (d : N) : list N :=
  match n with O => [] | S k => ((d / 2 ^ N.of_nat k) mod 2) :: digit_bits k d end.

(* for c in digits.chars() { let digit = c.to_digit(1 << bits_per_digit)?; ... } *)
Fixpoint radix_loop (bpd : nat) (ds : list N) (a : N * N * bool) : option (N * N * bool) :=
  match ds with
  | [] => Some a
  | c :: r =>
      match digit_val (2 ^ N.of_nat bpd) c with
      | None => None
      | Some d => radix_loop bpd r (fold_left step_bit (digit_bits bpd d) a)
      end
  end.

(* x * 2f64.powi(n) for x = +0 or a positive normal x and n >= 0: IEEE multiplication by a power of two is
   exact (the exponent field grows by n) unless the result leaves the finite range, then it is +infinity;
   2f64.powi(n) itself is +infinity for n >= 1024, and x is not zero then *)
Definition f64_scale2 (b n : N) : N :=
  if b =? 0 then 0 else if f64_exp b + n <? 2047 then b + n * P52 else F64_INF.

Definition float_from_radix_digits (bpd : nat) (ds : list N) : option N :=
  if is_nil ds then None
  else match radix_loop bpd ds (0, 0, false) with
       | None => None
       | Some (m, dr, st) => Some (f64_scale2 (u64_as_f64 (N.lor m (if st then 1 else 0))) dr)
       end.

(* text.strip_prefix(p).and_then(|t| float_from_radix_digits(t, bits_per_digit)) *)
Definition prefixed_f64 (p : list N) (bpd : nat) (text : list N) : option N :=
  match strip_prefix p text with
  | Some t => float_from_radix_digits bpd t
  | None => None
  end.

(* v.is_finite().then_some(v) *)
Definition finite_or_none (v : N) : option N := if f64_is_finite v then Some v else None.

Definition parse_float (d : cdata) : option N :=
  match d with
  | DString text =>
      if bytes_eqb text T0 then Some F64_ZERO
      else match prefixed_f64 T0x 4 text with
      | Some hexval => finite_or_none hexval
      | None =>
      match prefixed_f64 T0X 4 text with
      | Some hexval => finite_or_none hexval
      | None =>
      match prefixed_f64 T0b 1 text with
      | Some binval => finite_or_none binval
      | None =>
      match prefixed_f64 T0B 1 text with
      | Some binval => finite_or_none binval
      | None =>
      match prefixed_f64 T0 3 text with
      | Some octval => finite_or_none octval
      | None => f64_from_str text                       (* normal float conversion *)
      end end end end end
  | DFloat value => Some value
  | DUInt value => Some (u64_as_f64 value)
  | DEnum _ => None
  end.

Definition T_true : list N := [116; 114; 117; 101].
Definition T_false : list N := [102; 97; 108; 115; 101].
Definition T1 : list N := [49].

Definition parse_bool (d : cdata) : option bool :=
  match d with
  | DString text =>
      if bytes_eqb text T_true || bytes_eqb text T1 then Some true
      else if bytes_eqb text T_false || bytes_eqb text T0 then Some false
      else None
  | _ => None
  end.

(* ------------------------------------------------------------------ *)
(** * check_value / parse / serialize_internal / Display *)

Section Spec.
Variable ET : nametab.                               (* EnumItem's tables *)
Variable validate : N -> list N -> res bool.         (* check_fn = validate_regex_<n> *)

Definition check_value (value : cdata) (spec : cdspec) (file_version : N) : res bool :=
  match spec with
  | CEnum items =>
      match value with
      | DEnum enumitem =>
          match find_item items enumitem with
          | Some (_, version_mask) => Val (version_ok version_mask file_version)
          | None => Val false
          end
      | _ => Val false
      end
  | CPattern fn max_length =>
      match value with
      | DString stringval =>
          if len_ok stringval max_length then validate fn stringval      (* && is lazy *)
          else Val false
      | _ => Val false
      end
  | CString _ max_length =>
      match value with
      | DString stringval => Val (len_ok stringval max_length)
      | _ => Val false
      end
  | CUInt => Val (match value with DUInt _ => true | _ => false end)
  | CFloat => Val (match value with DFloat _ => true | _ => false end)
  end.

Definition parse (input : list N) (spec : cdspec) (version : N) : res (option cdata) :=
  match spec with
  | CEnum items =>
      match from_bytes ET input with                   (* EnumItem::from_str = from_bytes(as_bytes) *)
      | Ok enumitem =>
          match find_item items enumitem with
          | Some (_, version_mask) =>
              Val (if version_ok version_mask version then Some (DEnum enumitem) else None)
          | None => Val None
          end
      | Err => Val None
      | Panic => Pan "EnumItem::from_bytes index"
      end
  | CPattern fn max_length =>
      if len_ok input max_length then
        bind (validate fn input) (fun ok => Val (if ok then Some (DString input) else None))
      else Val None
  | CString _ max_length =>
      Val (if len_ok input max_length then Some (DString input) else None)
  | CUInt => Val (match parse_u64 input with Some v => Some (DUInt v) | None => None end)
  | CFloat => Val (match f64_from_str input with Some v => Some (DFloat v) | None => None end)
  end.

(* escape_text: Cow::Borrowed when none of the five characters occurs, else replaced one by one *)
Definition is_special (c : N) : bool := (c =? 38) || (c =? 62) || (c =? 60) || (c =? 39) || (c =? 34).

Definition escape_char (c : N) : list N :=
  if c =? 60 then [38; 108; 116; 59]                      (* &lt; *)
  else if c =? 62 then [38; 103; 116; 59]                 (* &gt; *)
  else if c =? 38 then [38; 97; 109; 112; 59]             (* &amp; *)
  else if c =? 34 then [38; 113; 117; 111; 116; 59]       (* &quot; *)
  else if c =? 39 then [38; 97; 112; 111; 115; 59]        (* &apos; *)
  else [c].

Definition escape_text (input : list N) : list N :=
  if existsb is_special input then flat_map escape_char input else input.

(* the text appended to `outstring` *)
Definition serialize_internal (d : cdata) : res (list N) :=
  match d with
  | DEnum enumval => unwrap "EnumItem::STRING_TABLE[item]" (to_str ET enumval)
  | DString strval => Val (escape_text strval)
  | DUInt intval => Val (print_u64 intval)
  | DFloat floatval => Val (f64_to_string floatval)
  end.

(* impl Display (and therefore to_string) *)
Definition display (d : cdata) : res (list N) :=
  match d with
  | DEnum enumitem => unwrap "EnumItem::STRING_TABLE[item]" (to_str ET enumitem)
  | DString stringval => Val stringval
  | DUInt uintval => Val (print_u64 uintval)
  | DFloat f64val => Val (f64_to_string f64val)
  end.

End Spec.
End FloatOracle.

(* "equal value" of two character data *)
Definition cdata_same (a b : cdata) : bool :=
  match a, b with
  | DEnum x, DEnum y => x =? y
  | DString x, DString y => bytes_eqb x y
  | DUInt x, DUInt y => x =? y
  | DFloat x, DFloat y => f64_same x y
  | _, _ => false
  end.

(* ------------------------------------------------------------------ *)
(** * Examples (vm_compute) *)

Definition no_dec (_ : list N) : option N := None.
Definition no_fmt (_ : N) : list N := [].

Example u64_as_f64_ex :
  map u64_as_f64 [0; 1; 2; 3; 4660; 9007199254740992; 9007199254740993; 9007199254740994; 9007199254740995;
                  18446744073709551615; 18446744073709550592; 18446744073709550591; 9223372036854775808]
  = [0; 4607182418800017408; 4611686018427387904; 4613937818241073152; 4661845738886529024;
     4845873199050653696; 4845873199050653696; 4845873199050653697; 4845873199050653698;
     4895412794951729152; 4895412794951729152; 4895412794951729151; 4890909195324358656].
Proof. vm_compute. reflexivity. Qed.

Example parse_integer_ex :
  (parse_integer false 8 (DString (BS "0")), parse_integer false 8 (DString (BS "0xff")),
   parse_integer false 8 (DString (BS "0x100")), parse_integer true 8 (DString (BS "-128")),
   parse_integer false 8 (DString (BS "0+7")), parse_integer true 8 (DString (BS "0x-1")),
   parse_integer false 32 (DString (BS "0733")), parse_integer false 32 (DString (BS "0B101010")),
   parse_integer false 8 (DString (BS "00")), parse_integer false 8 (DString (BS "08")),
   parse_integer false 8 (DUInt 255), parse_integer true 8 (DUInt 128), parse_integer true 8 (DFloat 0))
  = (Some 0, Some 255, None, Some (-128), Some 7, Some (-1), Some 475, Some 42, Some 0, None,
     Some 255, None, None)%Z.
Proof. vm_compute. reflexivity. Qed.

Example parse_float_ex :
  (parse_float no_dec (DString (BS "0")), parse_float no_dec (DString (BS "0x1234")),
   parse_float no_dec (DString (BS "0777")), parse_float no_dec (DString (BS "0B1101")),
   parse_float no_dec (DString (BS "INF")), parse_float no_dec (DString (BS "-INF")),
   parse_float no_dec (DString (BS "NaN")), parse_float no_dec (DString (BS "0x1ffffffffffffffff")),
   parse_float no_dec (DUInt 5), parse_float no_dec (DEnum 3),
   parse_float no_dec (DString (BS "02000000000000000000000")), parse_float no_dec (DString (BS "0x10000000000000801")),
   parse_float no_dec (DString (BS "0x+1")), parse_float no_dec (DString (BS "00.12")))
  = (Some 0, Some 4661845738886529024, Some 4647697223260307456, Some 4623507967449235456,
     Some F64_INF, Some F64_NEG_INF, Some F64_NAN, Some 4899916394579099648, Some 4617315517961601024, None,
     Some 4895412794951729152, Some 4895412794951729153, None, None).
Proof. vm_compute. reflexivity. Qed.

Example parse_bool_ex :
  map (fun t => parse_bool (DString (BS t))) ["true"; "1"; "false"; "0"; "TRUE"; ""; "01"; "true "]%string
  = [Some true; Some true; Some false; Some false; None; None; None; None].
Proof. vm_compute. reflexivity. Qed.

Example escape_ex :
  (escape_text (BS "a<b>&'q"""), escape_text (BS "plain"))
  = (BS "a&lt;b&gt;&amp;&apos;q&quot;", BS "plain").
Proof. vm_compute. reflexivity. Qed.
