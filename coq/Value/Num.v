(* Value/Num.v — integer text <-> number.

   MODEL ONLY (no proofs; the proofs are in Value/NumProofs.v).

   [from_str_radix signed bits radix src] mirrors
     core::num::<int>::from_str_radix(src, radix)            (library/core/src/num/mod.rs,
     macro from_str_int_impl!, function from_ascii_radix)
   for the integer type described by (signed, bits):
     u8..u128 = (false, 8..128), i8..i128 = (true, 8..128), usize/isize = (_, 64).

   Rust source, abridged (Ok/Err collapsed to Some/None because every caller in
   chardata.rs applies `.ok()`; the error kinds are therefore not modelled):

     if src.is_empty() { return Err(Empty) }
     let (is_positive, mut digits) = match src {
         [b'+' | b'-']                       => return Err(InvalidDigit),
         [b'+', rest @ ..]                   => (true, rest),
         [b'-', rest @ ..] if is_signed_ty   => (false, rest),
         _                                   => (true, src),
     };
     let mut result = 0;
     while let [c, rest @ ..] = digits {
         let mul = result.checked_mul(radix as T);
         let x = ( *c as char).to_digit(radix) ?InvalidDigit as T;
         result = mul ?Overflow;
         result = result.checked_add(x) ?PosOverflow   /   result.checked_sub(x) ?NegOverflow;
         digits = rest;
     }
     Ok(result)

   The std code has a second, unchecked loop that is taken when
   `radix <= 16 && digits.len() <= size_of::<T>()*2 - is_signed_ty as usize`
   ([can_not_overflow] below); it computes the same result with plain `*`, `+`,
   `-`.  [NumProofs.can_not_overflow_sound] shows that under this condition the
   checked loop never reports an overflow, so the two loops agree and only the
   checked one is modelled.

   [digit_val radix c] is `(c as char).to_digit(radix)` for a byte c:
   '0'..'9' -> 0..9, 'a'..'z' / 'A'..'Z' -> 10..35, kept only when < radix.
   Bytes >= 128 become the chars U+0080..U+00FF, none of which is a digit.
   No whitespace, no underscore, no second sign is accepted. *)
From AV Require Import Base.Bytes.
From Coq Require Import ZArith.

Local Open Scope N_scope.
Local Open Scope list_scope.

(* ------------------------------------------------------------------ *)
(** * Integer types *)

(* 2^n.  The literal cases only make evaluation fast for the machine widths
   ([NumProofs.pow2Z_eq] : pow2Z n = 2 ^ n for every n). *)
Definition pow2Z (n : N) : Z :=
  match n with
  | 7%N => 128 | 8%N => 256 | 15%N => 32768 | 16%N => 65536
  | 31%N => 2147483648 | 32%N => 4294967296
  | 63%N => 9223372036854775808 | 64%N => 18446744073709551616
  | 127%N => 170141183460469231731687303715884105728
  | 128%N => 340282366920938463463374607431768211456
  | _ => 2 ^ Z.of_N n
  end%Z.

Definition int_min (signed : bool) (bits : N) : Z :=
  if signed then (- pow2Z (bits - 1))%Z else 0%Z.

Definition int_max (signed : bool) (bits : N) : Z :=
  if signed then (pow2Z (bits - 1) - 1)%Z else (pow2Z bits - 1)%Z.

(* T::MIN <= v <= T::MAX *)
Definition in_rangeb (signed : bool) (bits : N) (v : Z) : bool :=
  (int_min signed bits <=? v)%Z && (v <=? int_max signed bits)%Z.

Definition in_range (signed : bool) (bits : N) (v : Z) : Prop :=
  (int_min signed bits <= v <= int_max signed bits)%Z.

(* the result of a checked_* operation whose mathematical result is v *)
Definition checked (signed : bool) (bits : N) (v : Z) : option Z :=
  if in_rangeb signed bits v then Some v else None.

(* ------------------------------------------------------------------ *)
(** * char::to_digit *)

Definition to_digit36 (c : N) : option N :=
  if (48 <=? c) && (c <=? 57) then Some (c - 48)
  else if (97 <=? c) && (c <=? 122) then Some (c - 97 + 10)
  else if (65 <=? c) && (c <=? 90) then Some (c - 65 + 10)
  else None.

Definition digit_val (radix : N) (c : N) : option N :=
  match to_digit36 c with
  | Some d => if d <? radix then Some d else None
  | None => None
  end.

(* ------------------------------------------------------------------ *)
(** * from_str_radix *)

Fixpoint checked_loop (signed : bool) (bits radix : N) (is_positive : bool)
         (digits : list N) (result : Z) : option Z :=
  match digits with
  | [] => Some result
  | c :: rest =>
      let mul := checked signed bits (result * Z.of_N radix) in
      match digit_val radix c with
      | None => None                                   (* InvalidDigit *)
      | Some x =>
          match mul with
          | None => None                               (* Pos/NegOverflow *)
          | Some r =>
              match checked signed bits
                      (if is_positive then r + Z.of_N x else r - Z.of_N x)%Z with
              | None => None                           (* Pos/NegOverflow *)
              | Some r' => checked_loop signed bits radix is_positive rest r'
              end
          end
      end
  end.

Definition is_nil {A} (l : list A) : bool := match l with [] => true | _ => false end.

Definition from_str_radix (signed : bool) (bits : N) (radix : N) (src : list N) : option Z :=
  match src with
  | [] => None                                                        (* Empty *)
  | c :: rest =>
      if ((c =? 43) || (c =? 45)) && is_nil rest then None            (* lone sign *)
      else if c =? 43 then checked_loop signed bits radix true rest 0%Z
      else if (c =? 45) && signed then checked_loop signed bits radix false rest 0%Z
      else checked_loop signed bits radix true src 0%Z
  end.

(* the guard of the unchecked fast path of the std implementation (not used by
   the model; see the header) *)
Definition can_not_overflow (signed : bool) (bits radix : N) (digits : list N) : bool :=
  (radix <=? 16) &&
  (N.of_nat (List.length digits) <=? (bits / 8) * 2 - (if signed then 1 else 0)).

(* ------------------------------------------------------------------ *)
(** * u64 <-> decimal text *)

(* u64::to_string : decimal digits, most significant first, "0" for 0.
   20 digits are enough for every n < 2^64 < 10^20. *)
Fixpoint print_dec_aux (fuel : nat) (n : N) (acc : list N) : list N :=
  match fuel with
  | O => acc
  | S f =>
      if n <? 10 then (48 + n) :: acc
      else print_dec_aux f (n / 10) ((48 + n mod 10) :: acc)
  end.

Definition print_u64 (n : N) : list N := print_dec_aux 20 n [].

(* str::parse::<u64>() = u64::from_str_radix(s, 10) *)
Definition parse_u64 (s : list N) : option N :=
  match from_str_radix false 64 10 s with
  | Some z => Some (Z.to_N z)
  | None => None
  end.

(* ------------------------------------------------------------------ *)
(** * Examples (run by vm_compute) *)

Example fsr_ex1 : from_str_radix false 8 10 (BS "255") = Some 255%Z.     Proof. vm_compute. reflexivity. Qed.
Example fsr_ex2 : from_str_radix false 8 10 (BS "256") = None.           Proof. vm_compute. reflexivity. Qed.
Example fsr_ex3 : from_str_radix true 8 10 (BS "-128") = Some (-128)%Z.  Proof. vm_compute. reflexivity. Qed.
Example fsr_ex4 : from_str_radix true 8 10 (BS "-129") = None.           Proof. vm_compute. reflexivity. Qed.
Example fsr_ex5 : from_str_radix true 8 10 (BS "128") = None.            Proof. vm_compute. reflexivity. Qed.
Example fsr_ex6 : from_str_radix false 8 10 (BS "-1") = None.            Proof. vm_compute. reflexivity. Qed.
Example fsr_ex7 : from_str_radix false 8 10 (BS "-0") = None.            Proof. vm_compute. reflexivity. Qed.
Example fsr_ex8 : from_str_radix true 8 10 (BS "-0") = Some 0%Z.         Proof. vm_compute. reflexivity. Qed.
Example fsr_ex9 : from_str_radix false 8 10 (BS "+7") = Some 7%Z.        Proof. vm_compute. reflexivity. Qed.
Example fsr_ex10 : from_str_radix false 8 10 (BS "+") = None.            Proof. vm_compute. reflexivity. Qed.
Example fsr_ex11 : from_str_radix true 8 10 (BS "-") = None.             Proof. vm_compute. reflexivity. Qed.
Example fsr_ex12 : from_str_radix true 8 10 (BS "") = None.              Proof. vm_compute. reflexivity. Qed.
Example fsr_ex13 : from_str_radix true 8 10 (BS "+-1") = None.           Proof. vm_compute. reflexivity. Qed.
Example fsr_ex14 : from_str_radix true 8 10 (BS "--1") = None.           Proof. vm_compute. reflexivity. Qed.
Example fsr_ex15 : from_str_radix false 16 16 (BS "fFfF") = Some 65535%Z. Proof. vm_compute. reflexivity. Qed.
Example fsr_ex16 : from_str_radix false 16 16 (BS "1g") = None.          Proof. vm_compute. reflexivity. Qed.
Example fsr_ex17 : from_str_radix false 16 8 (BS "18") = None.           Proof. vm_compute. reflexivity. Qed.
Example fsr_ex18 : from_str_radix false 16 2 (BS "102") = None.          Proof. vm_compute. reflexivity. Qed.
Example fsr_ex19 : from_str_radix false 16 10 (BS " 1") = None.          Proof. vm_compute. reflexivity. Qed.
Example fsr_ex20 : from_str_radix false 16 10 (BS "1_0") = None.         Proof. vm_compute. reflexivity. Qed.
Example fsr_ex21 : from_str_radix false 8 10 (BS "0000000000255") = Some 255%Z. Proof. vm_compute. reflexivity. Qed.
Example fsr_ex22 : from_str_radix true 128 10 (BS "-170141183460469231731687303715884105728")
                   = Some (-170141183460469231731687303715884105728)%Z.  Proof. vm_compute. reflexivity. Qed.
Example fsr_ex23 : from_str_radix true 128 10 (BS "170141183460469231731687303715884105728") = None.
Proof. vm_compute. reflexivity. Qed.
Example fsr_ex24 : from_str_radix false 64 10 (BS "18446744073709551615") = Some 18446744073709551615%Z.
Proof. vm_compute. reflexivity. Qed.
Example fsr_ex25 : from_str_radix false 64 10 (BS "18446744073709551616") = None.
Proof. vm_compute. reflexivity. Qed.

Example print_u64_ex :
  (print_u64 0, print_u64 7, print_u64 10, print_u64 1234567890, print_u64 18446744073709551615)
  = (BS "0", BS "7", BS "10", BS "1234567890", BS "18446744073709551615").
Proof. vm_compute. reflexivity. Qed.

Example parse_u64_ex :
  (parse_u64 (BS "0"), parse_u64 (BS "007"), parse_u64 (BS "+7"), parse_u64 (BS "-7"),
   parse_u64 (BS "18446744073709551615"), parse_u64 (BS "18446744073709551616"), parse_u64 (BS "0x10"))
  = (Some 0, Some 7, Some 7, None, Some 18446744073709551615, None, None).
Proof. vm_compute. reflexivity. Qed.
