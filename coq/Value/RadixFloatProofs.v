(* Value/RadixFloatProofs.v — float_from_radix_digits (chardata.rs) returns the correctly rounded binary64 of
   the number its digits denote, for digit strings of ANY length:
   - loop invariant: after reading digits of value V the state (mantissa, dropped_bits, sticky) satisfies
     V = mantissa * 2^dropped + rest, rest < 2^dropped, sticky <-> rest <> 0, and mantissa has exactly 64
     significant bits as soon as something was dropped;
   - (mantissa | sticky) as f64 * 2^dropped is the round-to-nearest-even of V (the sticky bit only ever turns a
     false tie into "above the tie"), or is infinite exactly when V >= 2^1024 - 2^970 (the IEEE overflow threshold). *)
From AV Require Import Base.Bytes Value.Num Value.ValueSpec Value.NumProofs Value.F64 Value.F64Proofs Value.CharData.
From Coq Require Import Lia.
Local Open Scope N_scope.

(* ---------------- bits ---------------- *)
Definition bstep (x b : N) : N := 2 * x + b.

Lemma digit_bits_val : forall n d acc,
  fold_left bstep (digit_bits n d) acc = acc * 2 ^ N.of_nat n + d mod 2 ^ N.of_nat n.
Proof.
  induction n as [|k IH]; intros d acc.
  - cbn [digit_bits fold_left N.of_nat]. rewrite N.pow_0_r, N.mod_1_r. lia.
  - cbn [digit_bits fold_left]. rewrite IH. unfold bstep.
    rewrite Nat2N.inj_succ, N.pow_succ_r'.
    set (K := 2 ^ N.of_nat k). assert (HK : K <> 0) by (apply N.pow_nonzero; discriminate).
    replace (2 * K) with (K * 2) by ring.
    rewrite (N.mod_mul_r d K 2) by (try exact HK; discriminate).
    ring.
Qed.

Lemma digit_bits_01 : forall n d, Forall (fun b => b < 2) (digit_bits n d).
Proof.
  induction n as [|k IH]; intros d; cbn [digit_bits]; constructor; [|apply IH].
  apply N.mod_lt. discriminate.
Qed.

(* ---------------- the loop invariant ---------------- *)
(* the digits read so far denote V;  V = m * 2^dr + rest,  rest < 2^dr,  sticky <-> rest <> 0,
   m has at most 64 bits and exactly 64 as soon as something was dropped *)
Definition Inv (V : N) (a : N * N * bool) : Prop :=
  let '(m, dr, st) := a in
  exists rest, V = m * 2 ^ dr + rest /\ rest < 2 ^ dr /\ st = negb (rest =? 0) /\
               m < P64 /\ (dr <> 0 -> P63 <= m).

Lemma Inv_init : Inv 0 (0, 0, false).
Proof. exists 0. repeat split; try reflexivity; try lia. Qed.

Lemma P64_2P63 : P64 = 2 * P63. Proof. reflexivity. Qed.

Lemma Inv_step V a bit : bit < 2 -> Inv V a -> Inv (bstep V bit) (step_bit a bit).
Proof.
  intros Hb. destruct a as [[m dr] st]. intros (rest & HV & Hrest & Hst & Hm & Hdr).
  unfold step_bit, bstep.
  assert (HP : P63 <> 0) by discriminate.
  destruct (N.eqb_spec (m / P63) 0) as [Hz | Hnz].
  - (* m < 2^63 : nothing dropped so far *)
    assert (Hlt : m < P63).
    { destruct (N.lt_ge_cases m P63) as [H | H]; [exact H | exfalso].
      assert (1 <= m / P63) by (apply N.div_le_lower_bound; lia). lia. }
    assert (Hd0 : dr = 0).
    { destruct (N.eq_dec dr 0) as [H | H]; [exact H | specialize (Hdr H); lia]. }
    subst dr. rewrite N.pow_0_r in *. assert (rest = 0) by lia. subst rest.
    exists 0. rewrite N.pow_0_r. repeat split; try lia.
    + exact Hst.
    + rewrite P64_2P63. lia.
  - assert (Hge : P63 <= m).
    { destruct (N.lt_ge_cases m P63) as [H | H]; [|exact H].
      rewrite (N.div_small m P63 H) in Hnz. contradiction. }
    exists (2 * rest + bit). rewrite N.add_1_r, N.pow_succ_r'.
    repeat split; try lia.
    + rewrite Hst.
      destruct (N.eqb_spec rest 0) as [-> | Hr]; cbn [negb orb].
      * destruct (N.eqb_spec bit 1) as [-> | Hb1]; [reflexivity|].
        assert (bit = 0) by lia. subst bit. reflexivity.
      * destruct (N.eqb_spec (2 * rest + bit) 0); [lia | reflexivity].
Qed.

Lemma Inv_fold bs : Forall (fun b => b < 2) bs -> forall V a,
  Inv V a -> Inv (fold_left bstep bs V) (fold_left step_bit bs a).
Proof.
  induction 1 as [|b bs Hb _ IH]; intros V a HI; cbn [fold_left]; [exact HI|].
  apply IH, Inv_step; assumption.
Qed.

Lemma radix_loop_spec bpd : forall ds V a, Inv V a ->
  match digits_value_from (2 ^ N.of_nat bpd) ds V with
  | Some V' => exists a', radix_loop bpd ds a = Some a' /\ Inv V' a'
  | None => radix_loop bpd ds a = None
  end.
Proof.
  induction ds as [|c r IH]; intros V a HI; cbn [digits_value_from radix_loop].
  - exists a. auto.
  - destruct (digit_val (2 ^ N.of_nat bpd) c) as [d|] eqn:Ed; [|reflexivity].
    pose proof (digit_val_lt _ _ _ Ed) as Hd.
    pose proof (Inv_fold (digit_bits bpd d) (digit_bits_01 bpd d) V a HI) as HI'.
    rewrite digit_bits_val, (N.mod_small d _ Hd) in HI'.
    exact (IH _ _ HI').
Qed.

(* ---------------- arithmetic helpers ---------------- *)
Lemma lor_1 m : N.lor m 1 = if N.even m then m + 1 else m.
Proof.
  destruct m as [|p]; [reflexivity|]. destruct p as [p|p|]; cbn; try reflexivity.
Qed.

Lemma log2_63 m : P63 <= m -> m < P64 -> N.log2 m = 63.
Proof. intros H1 H2. apply N.log2_unique; [lia|]. split; [exact H1 | exact H2]. Qed.

Definition big_pick (m : N) : N :=
  let q := m / 2048 in let r := m mod 2048 in
  if (1024 <? r) || ((r =? 1024) && N.odd q) then q + 1 else q.

Lemma u64_as_f64_big m : P63 <= m -> m < P64 -> u64_as_f64 m = 1086 * P52 + (big_pick m - P52).
Proof.
  intros H1 H2. unfold u64_as_f64, big_pick.
  destruct (N.eqb_spec m 0) as [-> | _]; [unfold P63 in H1; lia|].
  rewrite (log2_63 m H1 H2). reflexivity.
Qed.

Lemma encode_props E q' :
  P52 <= q' -> q' <= P53 ->
  let b := E * P52 + (q' - P52) in
  let E' := if q' =? P53 then E + 1 else E in
  1 <= E -> E' < 2048 ->
  f64_exp b = E' /\ f64_neg b = false /\
  f64_scaled b = q' * 2 ^ (E - 1) /\ N.even (f64_frac b) = N.even q' /\ b <> 0.
Proof.
  intros Hlo Hhi b E' HE1 HE'. unfold E' in *. clear E'.
  destruct (N.eqb_spec q' P53) as [-> | Hne].
  - assert (Hb : b = (E + 1) * P52 + 0) by (unfold b; rewrite P53_double; lia).
    destruct (encode_fields (E + 1) 0 HE' ltac:(reflexivity)) as (He & Hf & Hn).
    rewrite Hb. unfold f64_scaled. rewrite He, Hf, Hn.
    repeat split.
    + destruct (N.eqb_spec (E + 1) 0); [lia|].
      replace (E + 1 - 1) with (E - 1 + 1) by lia. rewrite pow2_succ, P53_double. ring.
    + unfold P52. lia.
  - assert (Hlt : q' - P52 < P52) by (rewrite P53_double in Hhi, Hne; lia).
    destruct (encode_fields E (q' - P52) HE' Hlt) as (He & Hf & Hn).
    unfold b, f64_scaled. rewrite He, Hf, Hn.
    repeat split.
    + destruct (N.eqb_spec E 0); [lia|]. f_equal. lia.
    + replace q' with (q' - P52 + 2 * 2251799813685248) at 2 by (unfold P52 in *; lia).
      rewrite N.even_add_mul_2. reflexivity.
    + unfold P52 in *. lia.
Qed.

(* ---------------- the final rounding ---------------- *)
Lemma P63_2048 : P63 = 2048 * P52. Proof. reflexivity. Qed.
Lemma P64_4096 : P64 = 4096 * P52. Proof. reflexivity. Qed.

Lemma even_mod_2048 m : N.even (m mod 2048) = N.even m.
Proof.
  rewrite (N.div_mod m 2048) at 2 by discriminate.
  replace (2048 * (m / 2048)) with (2 * (1024 * (m / 2048))) by ring.
  rewrite N.add_comm, N.even_add_mul_2. reflexivity.
Qed.

Lemma even_lt_succ m P : N.even m = true -> N.even P = true -> m < P -> m + 1 < P.
Proof.
  intros Hm HP Hlt. apply N.even_spec in Hm as [a ->]. apply N.even_spec in HP as [b ->]. lia.
Qed.

Lemma rem_cmp r D rest : 0 < rest -> rest < D ->
  (r * D + rest = 1024 * D -> False) /\ (r * D + rest < 1024 * D -> r < 1024) /\
  (1024 * D < r * D + rest -> 1024 <= r).
Proof.
  intros H0 HD. repeat split; intros H.
  - destruct (N.lt_ge_cases r 1024) as [Hc | Hc].
    + assert (r * D + D <= 1024 * D) by nia. lia.
    + assert (1024 * D <= r * D) by nia. lia.
  - destruct (N.lt_ge_cases r 1024) as [Hc | Hc]; [exact Hc|].
    assert (1024 * D <= r * D) by nia. lia.
  - destruct (N.lt_ge_cases r 1024) as [Hc | Hc]; [|exact Hc].
    assert (r * D + D <= 1024 * D) by nia. lia.
Qed.

Lemma rem_cmp0 r D : 0 < D ->
  (r * D = 1024 * D -> r = 1024) /\ (r * D < 1024 * D -> r < 1024) /\ (1024 * D < r * D -> 1024 < r).
Proof. intros HD. repeat split; intros H; nia. Qed.

Theorem radix_round_correct v m dr st :
  Inv v (m, dr, st) ->
  let b := f64_scale2 (u64_as_f64 (N.lor m (if st then 1 else 0))) dr in
  (f64_is_finite b = true -> correctly_rounded v b) /\
  (f64_is_finite b = false -> 2 ^ 1024 - 2 ^ 970 <= v).
Proof.
  intros (rest & Hv & Hrest & Hst & Hm & Hdr) b.
  destruct (N.eq_dec dr 0) as [-> | Hdr0].
  - (* nothing dropped: v = m < 2^64 *)
    rewrite N.pow_0_r in *. assert (rest = 0) by lia. subst rest.
    change (0 =? 0) with true in Hst. cbn [negb] in Hst. subst st.
    assert (Hvm : v = m) by lia. clear Hv. subst v.
    pose proof (u64_as_f64_correct m Hm) as Hc.
    assert (Hb : b = u64_as_f64 m).
    { unfold b, f64_scale2. rewrite N.lor_0_r. destruct (N.eqb_spec (u64_as_f64 m) 0) as [E | _]; [congruence|].
      destruct Hc as (_ & Hf & _). unfold f64_is_finite in Hf. apply N.ltb_lt in Hf.
      rewrite N.add_0_r. destruct (N.ltb_spec (f64_exp (u64_as_f64 m)) 2047); [lia | lia]. }
    rewrite Hb. split; [intros _; exact Hc|].
    destruct Hc as (_ & Hf & _). rewrite Hf. discriminate.
  - specialize (Hdr Hdr0).
    set (D := 2 ^ dr) in *. assert (HD : 0 < D) by apply pow2_pos.
    set (S := 2 ^ 1074). assert (HS : 0 < S) by apply pow2_pos.
    set (m' := N.lor m (if st then 1 else 0)) in *.
    set (q := m / 2048). set (r := m mod 2048).
    pose proof (N.div_mod m 2048 ltac:(discriminate)) as Hdm. fold q r in Hdm.
    pose proof (N.mod_lt m 2048 ltac:(discriminate)) as Hr. fold r in Hr.
    assert (Hq1 : P52 <= q) by (rewrite P63_2048 in Hdr; lia).
    assert (Hq2 : q < P53) by (rewrite P64_4096 in Hm; rewrite P53_double; lia).
    (* m' = m or m + 1 *)
    assert (Hm' : m' = m + (if st && N.even m then 1 else 0)).
    { unfold m'. destruct st; cbn [andb]; [|rewrite N.lor_0_r; lia].
      rewrite lor_1. destruct (N.even m); lia. }
    assert (Hr' : m' / 2048 = q /\ m' mod 2048 = r + (if st && N.even m then 1 else 0)).
    { rewrite Hm'. destruct (st && N.even m) eqn:E; [|rewrite !N.add_0_r; split; reflexivity].
      apply andb_true_iff in E as [_ Ee]. rewrite <- even_mod_2048 in Ee. fold r in Ee.
      assert (r + 1 < 2048) by (apply even_lt_succ; [exact Ee | reflexivity | exact Hr]).
      symmetry in Hdm.
      replace (m + 1) with (q * 2048 + (r + 1)) by lia.
      split; [rewrite N.div_add_l by discriminate; rewrite (N.div_small (r + 1) 2048) by assumption; lia|].
      rewrite N.add_comm, N.mod_add by discriminate. apply N.mod_small. assumption. }
    destruct Hr' as [Hq' Hr'].
    assert (Hm'1 : P63 <= m') by (rewrite Hm'; lia).
    assert (Hm'2 : m' < P64).
    { rewrite Hm'. destruct (st && N.even m) eqn:E; [|lia].
      apply andb_true_iff in E as [_ Ee]. apply even_lt_succ; [exact Ee | reflexivity | exact Hm]. }
    (* the remainder of v below the unit of q, and the decision *)
    set (W := r * D + rest).
    assert (HvW : v = q * (2048 * D) + W) by (unfold W; rewrite Hv, Hdm; ring).
    assert (HW : W < 2048 * D) by (unfold W; nia).
    set (t := 11 + dr + 1074).
    assert (Ht : 2 ^ t = 2048 * D * S).
    { unfold t, D, S. rewrite !N.pow_add_r. reflexivity. }
    set (q' := big_pick m').
    assert (Hpick : q' = rne_pick q (2 * (W * S) ?= 2 ^ t)).
    { unfold q', big_pick. rewrite Hq', Hr', Ht.
      assert (Hcmp : (2 * (W * S) ?= 2048 * D * S) = (W ?= 1024 * D)).
      { destruct (N.compare_spec W (1024 * D)) as [E | E | E].
        - apply N.compare_eq_iff. rewrite E. ring.
        - apply N.compare_lt_iff. nia.
        - apply N.compare_gt_iff. nia. }
      rewrite Hcmp. clear Hcmp.
      destruct st; cbn [andb].
      - (* sticky: rest <> 0, r' is odd *)
        assert (Hrest0 : 0 < rest).
        { destruct (N.eqb_spec rest 0); [discriminate | lia]. }
        destruct (rem_cmp r D rest Hrest0 Hrest) as (C1 & C2 & C3).
        rewrite <- even_mod_2048. fold r.
        destruct (N.even r) eqn:Er.
        + (* r even, r' = r + 1 *)
          assert (Hne : r <> 1023) by (intros E; rewrite E in Er; discriminate).
          destruct (N.compare_spec W (1024 * D)) as [E | E | E]; cbn [rne_pick]; unfold W in E.
          * exfalso. exact (C1 E).
          * specialize (C2 E).
            destruct (N.ltb_spec 1024 (r + 1)); [lia|]. destruct (N.eqb_spec (r + 1) 1024); [lia|]. reflexivity.
          * specialize (C3 E).
            destruct (N.ltb_spec 1024 (r + 1)); [reflexivity | lia].
        + (* r odd, r' = r *)
          rewrite N.add_0_r.
          assert (Hodd : r <> 1024) by (intros E; rewrite E in Er; discriminate).
          destruct (N.compare_spec W (1024 * D)) as [E | E | E]; cbn [rne_pick]; unfold W in E.
          * exfalso. exact (C1 E).
          * specialize (C2 E).
            destruct (N.ltb_spec 1024 r); [lia|]. destruct (N.eqb_spec r 1024); [lia|]. reflexivity.
          * specialize (C3 E).
            destruct (N.ltb_spec 1024 r); [reflexivity | lia].
      - (* no sticky: rest = 0 *)
        assert (Hr0 : rest = 0) by (destruct (N.eqb_spec rest 0); [assumption | discriminate]).
        destruct (rem_cmp0 r D HD) as (C1 & C2 & C3).
        rewrite N.add_0_r. unfold W. rewrite Hr0, N.add_0_r.
        destruct (N.compare_spec (r * D) (1024 * D)) as [E | E | E]; cbn [rne_pick].
        * rewrite (C1 E). reflexivity.
        * specialize (C2 E).
          destruct (N.ltb_spec 1024 r); [lia|]. destruct (N.eqb_spec r 1024); [lia|]. reflexivity.
        * specialize (C3 E).
          destruct (N.ltb_spec 1024 r); [reflexivity | lia]. }
    assert (Hq'lo : P52 <= q') by (rewrite Hpick; destruct (2 * (W * S) ?= 2 ^ t); cbn [rne_pick]; [destruct (N.odd q)|..]; lia).
    assert (Hq'hi : q' <= P53) by (rewrite Hpick; destruct (2 * (W * S) ?= 2 ^ t); cbn [rne_pick]; [destruct (N.odd q)|..]; lia).
    assert (Hx : u64_as_f64 m' = 1086 * P52 + (q' - P52)) by (apply u64_as_f64_big; assumption).
    set (c := if q' =? P53 then 1 else 0).
    assert (Hc01 : c <= 1) by (unfold c; destruct (q' =? P53); lia).
    destruct (encode_props 1086 q' Hq'lo Hq'hi ltac:(lia)) as (Hxe & _ & _ & _ & Hx0).
    { destruct (q' =? P53); lia. }
    fold c in Hxe. replace (if q' =? P53 then 1086 + 1 else 1086) with (1086 + c) in Hxe by (unfold c; destruct (q' =? P53); reflexivity).
    rewrite <- Hx in Hxe, Hx0.
    unfold b, f64_scale2. destruct (N.eqb_spec (u64_as_f64 m') 0) as [E0 | _]; [contradiction|].
    rewrite Hxe.
    destruct (N.ltb_spec (1086 + c + dr) 2047) as [Hfin | Hinf].
    + (* finite *)
      assert (Hb : u64_as_f64 m' + dr * P52 = (1086 + dr) * P52 + (q' - P52)) by (rewrite Hx; ring).
      rewrite Hb.
      destruct (encode_props (1086 + dr) q' Hq'lo Hq'hi ltac:(lia)) as (He & Hn & Hs & Hev & _).
      { fold c. destruct (q' =? P53); unfold c in *; lia. }
      assert (Hf : f64_is_finite ((1086 + dr) * P52 + (q' - P52)) = true).
      { unfold f64_is_finite. rewrite He. apply N.ltb_lt. fold c. unfold c in *. destruct (q' =? P53); lia. }
      split; [intros _ | rewrite Hf; discriminate].
      assert (Hrho : W * S < 2 ^ t) by (rewrite Ht; apply N.mul_lt_mono_pos_r; assumption).
      destruct (rne_pick_nearest q t (W * S) Hq1 Hrho) as [Hnear Htie].
      assert (HX : q * 2 ^ t + W * S = v * S) by (rewrite Ht, HvW; ring).
      rewrite HX, <- Hpick in Hnear, Htie.
      assert (Hexp : 1086 + dr - 1 = t) by (unfold t; lia).
      unfold correctly_rounded. fold S. rewrite Hs, Hexp, Hev.
      repeat split; assumption.
    + (* overflow *)
      split; [intros H; exfalso; revert H; reflexivity || (vm_compute; discriminate)|]. intros _.
      set (K := 2 ^ 960).
      assert (H1024 : 2 ^ 1024 = P64 * K) by (unfold K; change 1024 with (64 + 960); rewrite N.pow_add_r; f_equal).
      assert (H970 : 2 ^ 970 = 1024 * K) by (unfold K; change 970 with (10 + 960); rewrite N.pow_add_r; f_equal).
      rewrite H1024, H970.
      assert (HK : 0 < K) by apply pow2_pos.
      unfold c in Hinf. destruct (N.eqb_spec q' P53) as [Eq | Nq].
      * (* carry: dr >= 960, q = 2^53 - 1 rounded up *)
        assert (Hdr960 : 960 <= dr) by lia.
        assert (HDK : K <= D) by (apply N.pow_le_mono_r; [discriminate | exact Hdr960]).
        assert (HqW : q = P53 - 1 /\ 1024 * D <= W).
        { rewrite Hpick in Eq. rewrite Ht in Eq.
          destruct (N.compare_spec (2 * (W * S)) (2048 * D * S)) as [E | E | E]; cbn [rne_pick] in Eq;
            [destruct (N.odd q); [|lia]; split; [lia|]; nia | lia | split; [lia|]; nia]. }
        destruct HqW as [-> HW1].
        rewrite HvW. unfold P53, P64 in *. nia.
      * assert (Hdr961 : 961 <= dr) by lia.
        assert (HDK : 2 * K <= D).
        { replace (2 * K) with (2 ^ 961) by (unfold K; change 961 with (N.succ 960); rewrite N.pow_succ_r'; reflexivity).
          apply N.pow_le_mono_r; [discriminate | exact Hdr961]. }
        rewrite Hv. unfold P63, P64 in *. nia.
Qed.

(* ---------------- float_from_radix_digits on a whole digit string ---------------- *)
Theorem float_from_radix_digits_spec bpd ds :
  match (if is_nil ds then None else digits_value (2 ^ N.of_nat bpd) ds) with
  | Some v => exists b, float_from_radix_digits bpd ds = Some b /\
                        (f64_is_finite b = true -> correctly_rounded v b) /\
                        (f64_is_finite b = false -> 2 ^ 1024 - 2 ^ 970 <= v)
  | None => float_from_radix_digits bpd ds = None
  end.
Proof.
  unfold float_from_radix_digits, digits_value.
  destruct (is_nil ds); [reflexivity|].
  pose proof (radix_loop_spec bpd ds 0 (0, 0, false) Inv_init) as H.
  destruct (digits_value_from (2 ^ N.of_nat bpd) ds 0) as [v|].
  - destruct H as ([[m dr] st] & -> & HI).
    eexists. split; [reflexivity|]. exact (radix_round_correct v m dr st HI).
  - rewrite H. reflexivity.
Qed.

Print Assumptions float_from_radix_digits_spec.
