(* Value/NumProofs.v — facts about the model of from_str_radix and the
   u64 print/parse round trip. *)
From AV Require Import Base.Bytes Value.Num Value.ValueSpec.
From Coq Require Import ZArith Lia.

Local Open Scope N_scope.
Local Open Scope list_scope.

(* ------------------------------------------------------------------ *)
(** * Ranges *)

Lemma in_rangeb_spec s b v : in_rangeb s b v = true <-> in_range s b v.
Proof. unfold in_rangeb, in_range. rewrite andb_true_iff, !Z.leb_le. tauto. Qed.

Lemma in_rangeb_false s b v : in_rangeb s b v = false <-> ~ in_range s b v.
Proof.
  rewrite <- in_rangeb_spec. destruct (in_rangeb s b v); split; congruence.
Qed.

Lemma checked_Some s b v r : checked s b v = Some r <-> r = v /\ in_range s b v.
Proof.
  unfold checked. destruct (in_rangeb s b v) eqn:E.
  - apply in_rangeb_spec in E. split; [intros [= <-]; auto | intros [-> _]; reflexivity].
  - apply in_rangeb_false in E. split; [discriminate | intros [_ H]; contradiction].
Qed.

Lemma checked_in s b v : in_range s b v -> checked s b v = Some v.
Proof. intros H. apply checked_Some. auto. Qed.

Lemma checked_out s b v : ~ in_range s b v -> checked s b v = None.
Proof. intros H. unfold checked. apply in_rangeb_false in H. rewrite H. reflexivity. Qed.

Lemma pow2Z_eq (n : N) : pow2Z n = (2 ^ Z.of_N n)%Z.
Proof.
  unfold pow2Z.
  repeat match goal with
         | |- match ?x with _ => _ end = _ => destruct x; try reflexivity
         end.
Qed.

Lemma int_min_eq s b : int_min s b = if s then (- 2 ^ Z.of_N (b - 1))%Z else 0%Z.
Proof. unfold int_min. rewrite pow2Z_eq. reflexivity. Qed.

Lemma int_max_eq s b :
  int_max s b = if s then (2 ^ Z.of_N (b - 1) - 1)%Z else (2 ^ Z.of_N b - 1)%Z.
Proof. unfold int_max. rewrite !pow2Z_eq. reflexivity. Qed.

Lemma pow2_pos (x : N) : (0 < 2 ^ Z.of_N x)%Z.
Proof. apply Z.pow_pos_nonneg; lia. Qed.

Lemma int_min_le_0 s b : (int_min s b <= 0)%Z.
Proof. rewrite int_min_eq. destruct s; [|lia]. pose proof (pow2_pos (b - 1)). lia. Qed.

Lemma int_max_ge_0 s b : (0 <= int_max s b)%Z.
Proof.
  rewrite int_max_eq. destruct s; [pose proof (pow2_pos (b - 1)) | pose proof (pow2_pos b)]; lia.
Qed.

Lemma in_range_0 s b : in_range s b 0.
Proof. unfold in_range. pose proof (int_min_le_0 s b). pose proof (int_max_ge_0 s b). lia. Qed.

(* the signed number with magnitude a *)
Definition sgz (pos : bool) (a : N) : Z := if pos then Z.of_N a else (- Z.of_N a)%Z.

Lemma in_range_convex s b pos a a' :
  a <= a' -> in_range s b (sgz pos a') -> in_range s b (sgz pos a).
Proof.
  unfold in_range, sgz. intros Hle H.
  pose proof (int_min_le_0 s b). pose proof (int_max_ge_0 s b).
  destruct pos; lia.
Qed.

Lemma in_range_unsigned_iff b v : in_range false b v <-> (0 <= v < 2 ^ Z.of_N b)%Z.
Proof. unfold in_range. rewrite int_min_eq, int_max_eq. lia. Qed.

Lemma in_range_signed_iff b v :
  in_range true b v <-> (- 2 ^ Z.of_N (b - 1) <= v < 2 ^ Z.of_N (b - 1))%Z.
Proof. unfold in_range. rewrite int_min_eq, int_max_eq. lia. Qed.

Lemma in_rangeb_meaning signed bits v :
  in_rangeb signed bits v = true <->
  if signed then (- 2 ^ Z.of_N (bits - 1) <= v < 2 ^ Z.of_N (bits - 1))%Z else (0 <= v < 2 ^ Z.of_N bits)%Z.
Proof.
  rewrite in_rangeb_spec. destruct signed; [apply in_range_signed_iff | apply in_range_unsigned_iff].
Qed.

Lemma in_range_u64 n : n < 2 ^ 64 -> in_range false 64 (Z.of_N n).
Proof.
  intros H. apply in_range_unsigned_iff.
  change (2 ^ Z.of_N 64)%Z with (Z.of_N (2 ^ 64)). lia.
Qed.

(* ------------------------------------------------------------------ *)
(** * Digits *)

Lemma digit_val_lt radix c d : digit_val radix c = Some d -> d < radix.
Proof.
  unfold digit_val. destruct (to_digit36 c) as [x|]; [|discriminate].
  destruct (N.ltb_spec x radix) as [Hlt|Hge]; [|discriminate].
  intros [= <-]. exact Hlt.
Qed.

Lemma digit_val_plus radix : digit_val radix 43 = None.
Proof. reflexivity. Qed.

Lemma digit_val_minus radix : digit_val radix 45 = None.
Proof. reflexivity. Qed.

Lemma digits_value_from_ge radix : 0 < radix ->
  forall ds a v, digits_value_from radix ds a = Some v -> a <= v.
Proof.
  intros Hr. induction ds as [|c ds IH]; intros a v; cbn [digits_value_from].
  - intros [= <-]. lia.
  - destruct (digit_val radix c) as [d|]; [|discriminate].
    intros H. apply IH in H. nia.
Qed.

Lemma digits_value_from_app radix l1 l2 a :
  digits_value_from radix (l1 ++ l2) a =
  match digits_value_from radix l1 a with
  | Some v => digits_value_from radix l2 v
  | None => None
  end.
Proof.
  revert a. induction l1 as [|c l1 IH]; intros a; cbn [app digits_value_from]; [reflexivity|].
  destruct (digit_val radix c) as [d|]; [apply IH | reflexivity].
Qed.

(* ------------------------------------------------------------------ *)
(** * The checked loop computes the positional value, or fails exactly when
      a byte is not a digit or the value does not fit *)

Lemma sgz_mul pos a radix : (sgz pos a * Z.of_N radix)%Z = sgz pos (a * radix).
Proof. unfold sgz. destruct pos; rewrite N2Z.inj_mul; ring. Qed.

Lemma sgz_step (pos : bool) a d :
  (if pos then sgz pos a + Z.of_N d else sgz pos a - Z.of_N d)%Z = sgz pos (a + d).
Proof. unfold sgz. destruct pos; rewrite N2Z.inj_add; ring. Qed.

Lemma checked_loop_spec signed bits radix pos : 0 < radix ->
  forall ds a,
    in_range signed bits (sgz pos a) ->
    checked_loop signed bits radix pos ds (sgz pos a) =
    match digits_value_from radix ds a with
    | Some v => checked signed bits (sgz pos v)
    | None => None
    end.
Proof.
  intros Hr. induction ds as [|c ds IH]; intros a Ha; cbn [checked_loop digits_value_from].
  - symmetry. apply checked_in, Ha.
  - destruct (digit_val radix c) as [d|] eqn:Ed; [|reflexivity].
    rewrite sgz_mul.
    destruct (checked signed bits (sgz pos (a * radix))) as [r|] eqn:E1.
    + apply checked_Some in E1 as [-> H1]. rewrite sgz_step.
      destruct (checked signed bits (sgz pos (a * radix + d))) as [r'|] eqn:E2.
      * apply checked_Some in E2 as [-> H2]. apply IH, H2.
      * destruct (digits_value_from radix ds (a * radix + d)) as [v|] eqn:Ev; [|reflexivity].
        symmetry. apply checked_out. intros Hv.
        apply (digits_value_from_ge radix Hr) in Ev.
        apply (in_range_convex _ _ _ _ _ Ev) in Hv.
        apply checked_in in Hv. congruence.
    + destruct (digits_value_from radix ds (a * radix + d)) as [v|] eqn:Ev; [|reflexivity].
      symmetry. apply checked_out. intros Hv.
      apply (digits_value_from_ge radix Hr) in Ev.
      assert (Hle : a * radix <= v) by lia.
      apply (in_range_convex _ _ _ _ _ Hle) in Hv.
      apply checked_in in Hv. congruence.
Qed.

(* ------------------------------------------------------------------ *)
(** * from_str_radix = signed positional value, range-checked;
      a '-' is refused by the unsigned types *)

Definition leading_minus (s : list N) : bool :=
  match s with c :: _ => c =? 45 | [] => false end.

Lemma checked_loop_0 signed bits radix (pos : bool) ds : 0 < radix ->
  checked_loop signed bits radix pos ds 0%Z =
  match digits_value radix ds with
  | Some n => checked signed bits (if pos then Z.of_N n else - Z.of_N n)%Z
  | None => None
  end.
Proof.
  intros Hr. unfold digits_value.
  destruct pos.
  - exact (checked_loop_spec signed bits radix true Hr ds 0 (in_range_0 _ _)).
  - exact (checked_loop_spec signed bits radix false Hr ds 0 (in_range_0 _ _)).
Qed.

Theorem from_str_radix_eq signed bits radix s : 0 < radix ->
  from_str_radix signed bits radix s =
  if leading_minus s && negb signed then None
  else match signed_value radix s with
       | Some v => checked signed bits v
       | None => None
       end.
Proof.
  intros Hr. destruct s as [|c rest]; [reflexivity|].
  unfold from_str_radix, signed_value, split_sign, leading_minus.
  destruct (N.eqb_spec c 43) as [->|H43].
  - (* '+' *)
    cbn [N.eqb Pos.eqb orb andb negb].
    destruct rest as [|c' rest']; [reflexivity|]. cbn [is_nil].
    rewrite (checked_loop_0 signed bits radix true _ Hr).
    destruct (digits_value radix (c' :: rest')); reflexivity.
  - destruct (N.eqb_spec c 45) as [->|H45].
    + (* '-' *)
      cbn [orb andb].
      destruct rest as [|c' rest']; [destruct signed; reflexivity|]. cbn [is_nil].
      destruct signed; cbn [negb andb].
      * rewrite (checked_loop_0 true bits radix false _ Hr).
        destruct (digits_value radix (c' :: rest')); reflexivity.
      * cbn [checked_loop]. rewrite digit_val_minus. reflexivity.
    + (* no sign *)
      cbn [orb andb is_nil].
      rewrite (checked_loop_0 signed bits radix true _ Hr).
      destruct (digits_value radix (c :: rest)); reflexivity.
Qed.

Corollary from_str_radix_sound signed bits radix s v : 0 < radix ->
  from_str_radix signed bits radix s = Some v ->
  signed_value radix s = Some v /\ in_range signed bits v.
Proof.
  intros Hr. rewrite (from_str_radix_eq _ _ _ _ Hr).
  destruct (leading_minus s && negb signed); [discriminate|].
  destruct (signed_value radix s) as [w|]; [|discriminate].
  intros H. apply checked_Some in H as [-> H]. auto.
Qed.

Corollary from_str_radix_complete signed bits radix s v : 0 < radix ->
  signed_value radix s = Some v -> in_range signed bits v ->
  leading_minus s = false \/ signed = true ->
  from_str_radix signed bits radix s = Some v.
Proof.
  intros Hr Hv Hin Hs. rewrite (from_str_radix_eq _ _ _ _ Hr), Hv.
  replace (leading_minus s && negb signed) with false.
  - apply checked_in, Hin.
  - destruct Hs as [-> | ->]; [reflexivity | symmetry; apply andb_false_r].
Qed.

Corollary from_str_radix_overflow signed bits radix s v : 0 < radix ->
  signed_value radix s = Some v -> ~ in_range signed bits v ->
  from_str_radix signed bits radix s = None.
Proof.
  intros Hr Hv Hout. rewrite (from_str_radix_eq _ _ _ _ Hr), Hv.
  destruct (leading_minus s && negb signed); [reflexivity|]. apply checked_out, Hout.
Qed.

Corollary from_str_radix_undefined signed bits radix s : 0 < radix ->
  signed_value radix s = None -> from_str_radix signed bits radix s = None.
Proof.
  intros Hr Hv. rewrite (from_str_radix_eq _ _ _ _ Hr), Hv.
  destruct (leading_minus s && negb signed); reflexivity.
Qed.

(* ------------------------------------------------------------------ *)
(** * The unchecked fast path of std is never taken on an overflowing input *)

Lemma digits_value_from_bound radix : 0 < radix ->
  forall ds a v, digits_value_from radix ds a = Some v ->
  v < (a + 1) * radix ^ N.of_nat (List.length ds).
Proof.
  intros Hr. induction ds as [|c ds IH]; intros a v; cbn [digits_value_from List.length].
  - intros [= <-]. cbn [N.of_nat]. rewrite N.pow_0_r. lia.
  - destruct (digit_val radix c) as [d|] eqn:Ed; [|discriminate].
    apply digit_val_lt in Ed. intros H. apply IH in H.
    rewrite Nat2N.inj_succ, N.pow_succ_r'.
    eapply N.lt_le_trans; [exact H|].
    rewrite N.mul_assoc.
    apply N.mul_le_mono_r. nia.
Qed.

Theorem can_not_overflow_sound signed bits radix pos ds v :
  0 < radix -> 0 < bits -> bits mod 8 = 0 ->
  pos = true \/ signed = true ->      (* `-` is only stripped for signed types *)
  can_not_overflow signed bits radix ds = true ->
  digits_value radix ds = Some v ->
  in_range signed bits (sgz pos v).
Proof.
  intros Hr Hb Hm8 Hps Hc Hv. unfold can_not_overflow in Hc.
  apply andb_true_iff in Hc as [Hr16 Hlen]. apply N.leb_le in Hr16, Hlen.
  apply (digits_value_from_bound radix Hr) in Hv. rewrite N.add_0_l, N.mul_1_l in Hv.
  set (len := N.of_nat (List.length ds)) in *.
  assert (Hbits : bits = 8 * (bits / 8)).
  { pose proof (N.div_mod bits 8 ltac:(lia)) as H. lia. }
  set (k := bits / 8) in *.
  assert (Hv16 : v < 16 ^ len).
  { eapply N.lt_le_trans; [exact Hv|]. apply N.pow_le_mono_l. exact Hr16. }
  assert (H16 : 16 ^ len = 2 ^ (4 * len)).
  { change 16 with (2 ^ 4). rewrite <- N.pow_mul_r. reflexivity. }
  assert (Hk : 0 < k) by lia.
  destruct signed; cbn [N.sub] in Hlen.
  - (* 4*len <= bits - 4 <= bits - 1 *)
    assert (Hle : 2 ^ (4 * len) <= 2 ^ (bits - 1)).
    { apply N.pow_le_mono_r; lia. }
    apply in_range_signed_iff.
    assert (Hz : (Z.of_N v < 2 ^ Z.of_N (bits - 1))%Z).
    { change 2%Z with (Z.of_N 2). rewrite <- N2Z.inj_pow. lia. }
    unfold sgz. destruct pos; lia.
  - assert (Hle : 2 ^ (4 * len) <= 2 ^ bits).
    { apply N.pow_le_mono_r; lia. }
    assert (Hz : (Z.of_N v < 2 ^ Z.of_N bits)%Z).
    { change 2%Z with (Z.of_N 2). rewrite <- N2Z.inj_pow. lia. }
    unfold sgz. destruct pos.
    + apply in_range_unsigned_iff. lia.
    + destruct Hps; discriminate.
Qed.

(* ------------------------------------------------------------------ *)
(** * u64 : print, then parse *)

Lemma digit_val_10_dec d : d < 10 -> digit_val 10 (48 + d) = Some d.
Proof.
  intros H. unfold digit_val, to_digit36.
  replace ((48 <=? 48 + d) && (48 + d <=? 57)) with true.
  - replace (48 + d - 48) with d by lia.
    destruct (N.ltb_spec d 10); [reflexivity | lia].
  - symmetry. apply andb_true_iff. split; apply N.leb_le; lia.
Qed.

Lemma print_dec_aux_value : forall fuel n acc,
  n < 10 ^ N.of_nat fuel ->
  digits_value_from 10 (print_dec_aux fuel n acc) 0 = digits_value_from 10 acc n.
Proof.
  induction fuel as [|f IH]; intros n acc Hn.
  - cbn [N.of_nat] in Hn. rewrite N.pow_0_r in Hn.
    assert (n = 0) as -> by lia. reflexivity.
  - cbn [print_dec_aux]. destruct (N.ltb_spec n 10) as [Hlt|Hge].
    + cbn [digits_value_from]. rewrite (digit_val_10_dec n Hlt). reflexivity.
    + rewrite IH.
      * cbn [digits_value_from].
        rewrite (digit_val_10_dec (n mod 10)) by (apply N.mod_lt; lia).
        f_equal. pose proof (N.div_mod n 10 ltac:(lia)). lia.
      * rewrite Nat2N.inj_succ, N.pow_succ_r' in Hn.
        apply N.div_lt_upper_bound; lia.
Qed.

Definition is_dec_byte (c : N) : Prop := 48 <= c /\ c <= 57.

Lemma print_dec_aux_digits : forall fuel n acc,
  Forall is_dec_byte acc -> Forall is_dec_byte (print_dec_aux fuel n acc).
Proof.
  induction fuel as [|f IH]; intros n acc Hacc; cbn [print_dec_aux]; [exact Hacc|].
  destruct (N.ltb_spec n 10) as [Hlt|Hge].
  - constructor; [unfold is_dec_byte; lia | exact Hacc].
  - apply IH. constructor; [|exact Hacc].
    pose proof (N.mod_lt n 10 ltac:(lia)) as Hm. unfold is_dec_byte.
    set (m := n mod 10) in *. clearbody m. lia.
Qed.

(* the first byte is the leading (non-zero) digit *)
Lemma print_dec_aux_head : forall fuel n acc,
  0 < n -> n < 10 ^ N.of_nat fuel ->
  exists d rest, print_dec_aux fuel n acc = d :: rest /\ 49 <= d /\ d <= 57.
Proof.
  induction fuel as [|f IH]; intros n acc Hpos Hn.
  - cbn [N.of_nat] in Hn. rewrite N.pow_0_r in Hn. lia.
  - cbn [print_dec_aux]. destruct (N.ltb_spec n 10) as [Hlt|Hge].
    + exists (48 + n), acc. repeat split; lia.
    + apply IH.
      * apply N.div_str_pos. lia.
      * rewrite Nat2N.inj_succ, N.pow_succ_r' in Hn.
        apply N.div_lt_upper_bound; lia.
Qed.

Lemma pow2_64_lt_pow10_20 : 2 ^ 64 < 10 ^ N.of_nat 20.
Proof. vm_compute. reflexivity. Qed.

Theorem print_u64_digits : forall n, n < 2 ^ 64 ->
  print_u64 n <> [] /\
  Forall (fun c => 48 <= c /\ c <= 57) (print_u64 n) /\
  (forall r, print_u64 n = 48 :: r -> r = [] /\ n = 0).
Proof.
  intros n Hn. pose proof pow2_64_lt_pow10_20 as H20.
  destruct (N.eq_dec n 0) as [->|Hnz].
  - change (print_u64 0) with [48]. repeat split.
    + discriminate.
    + constructor; [lia|constructor].
    + congruence.
  - destruct (print_dec_aux_head 20 n [] ltac:(lia) ltac:(lia)) as (d & rest & He & Hd1 & Hd2).
    unfold print_u64. repeat split.
    + rewrite He. discriminate.
    + apply (print_dec_aux_digits 20 n []). constructor.
    + rewrite He in H. injection H as Hd _. lia.
    + rewrite He in H. injection H as Hd _. lia.
Qed.

Lemma print_u64_value n : n < 2 ^ 64 -> digits_value 10 (print_u64 n) = Some n.
Proof.
  intros Hn. unfold digits_value, print_u64.
  rewrite print_dec_aux_value; [reflexivity|].
  pose proof pow2_64_lt_pow10_20. lia.
Qed.

Lemma print_u64_signed_value n : n < 2 ^ 64 ->
  signed_value 10 (print_u64 n) = Some (Z.of_N n) /\ leading_minus (print_u64 n) = false.
Proof.
  intros Hn. destruct (print_u64_digits n Hn) as (Hne & Hall & _).
  pose proof (print_u64_value n Hn) as Hv.
  destruct (print_u64 n) as [|c rest] eqn:E; [congruence|].
  inversion Hall as [|? ? Hc _]; subst.
  unfold signed_value, split_sign, leading_minus.
  destruct (N.eqb_spec c 43); [lia|]. destruct (N.eqb_spec c 45); [lia|].
  cbn [is_nil]. rewrite Hv. auto.
Qed.

Theorem from_str_radix_print_u64 signed bits n : n < 2 ^ 64 ->
  from_str_radix signed bits 10 (print_u64 n) = checked signed bits (Z.of_N n).
Proof.
  intros Hn. destruct (print_u64_signed_value n Hn) as [Hv Hm].
  assert (Hr : 0 < 10) by lia.
  rewrite (from_str_radix_eq signed bits 10 _ Hr), Hv, Hm. reflexivity.
Qed.

(* [U] *)
Theorem print_parse_u64 : forall n, n < 2 ^ 64 -> parse_u64 (print_u64 n) = Some n.
Proof.
  intros n Hn. unfold parse_u64.
  rewrite (from_str_radix_print_u64 false 64 n Hn), (checked_in _ _ _ (in_range_u64 n Hn)).
  rewrite N2Z.id. reflexivity.
Qed.

Theorem parse_u64_Some s n : parse_u64 s = Some n ->
  n < 2 ^ 64 /\ signed_value 10 s = Some (Z.of_N n).
Proof.
  unfold parse_u64. destruct (from_str_radix false 64 10 s) as [z|] eqn:E; [|discriminate].
  intros [= <-]. apply from_str_radix_sound in E as [Hv Hin]; [|lia].
  apply in_range_unsigned_iff in Hin.
  change (2 ^ Z.of_N 64)%Z with (Z.of_N (2 ^ 64)) in Hin.
  rewrite Z2N.id by lia. split; [lia | exact Hv].
Qed.

Print Assumptions from_str_radix_eq.
Print Assumptions print_parse_u64.
Print Assumptions print_u64_digits.
