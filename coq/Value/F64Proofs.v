(* Value/F64Proofs.v — `v as f64` (u64 -> binary64) is the correctly rounded value.
   Self-contained arithmetic over N (no floating-point library). *)
From AV Require Import Base.Bytes Value.F64.
From Coq Require Import Lia.

Local Open Scope N_scope.

Lemma P52_eq : P52 = 2 ^ 52. Proof. reflexivity. Qed.
Lemma P53_eq : P53 = 2 ^ 53. Proof. reflexivity. Qed.
Lemma P53_double : P53 = 2 * P52. Proof. reflexivity. Qed.
Lemma P63_eq : P63 = 2048 * P52. Proof. reflexivity. Qed.

Lemma pow2_pos n : 0 < 2 ^ n.
Proof. apply N.neq_0_lt_0, N.pow_nonzero. discriminate. Qed.

Lemma pow2_split a b : b <= a -> 2 ^ a = 2 ^ b * 2 ^ (a - b).
Proof. intros H. rewrite <- N.pow_add_r. f_equal. lia. Qed.

Lemma pow2_succ a : 2 ^ (a + 1) = 2 * 2 ^ a.
Proof. rewrite N.add_1_r, N.pow_succ_r'. reflexivity. Qed.

(* ------------------------------------------------------------------ *)
(** * dist *)

Lemma dist_le a b : a <= b -> dist a b = b - a.
Proof. intros H. unfold dist. destruct (N.leb_spec a b); [reflexivity | lia]. Qed.

Lemma dist_ge a b : b <= a -> dist a b = a - b.
Proof. intros H. unfold dist. destruct (N.leb_spec a b); [lia | reflexivity]. Qed.

Lemma dist_refl a : dist a a = 0.
Proof. rewrite dist_le by lia. lia. Qed.

Lemma dist_0_eq a b : dist a b = 0 -> a = b.
Proof. unfold dist. destruct (N.leb_spec a b); lia. Qed.

(* ------------------------------------------------------------------ *)
(** * No 53-bit number lies strictly between two neighbours q*2^t and (q+1)*2^t with q >= 2^52 *)

Lemma rep53_gap y q t : rep53 y -> P52 <= q -> y <= q * 2 ^ t \/ (q + 1) * 2 ^ t <= y.
Proof.
  intros (m & e & -> & Hm) Hq.
  destruct (N.le_gt_cases t e) as [Hte | Het].
  - (* e >= t : y is a multiple of 2^t *)
    rewrite (pow2_split e t Hte).
    set (T := 2 ^ t). set (c := m * 2 ^ (e - t)).
    replace (m * (T * 2 ^ (e - t))) with (c * T) by (unfold c; ring).
    assert (HT : 0 < T) by apply pow2_pos.
    destruct (N.le_gt_cases c q) as [Hc | Hc].
    + left. apply N.mul_le_mono_r. exact Hc.
    + right. apply N.mul_le_mono_r. lia.
  - (* e < t : y < 2^53 * 2^e <= 2^52 * 2^t *)
    left.
    assert (He : e + 1 <= t) by lia.
    rewrite (pow2_split t (e + 1) He), pow2_succ.
    set (E := 2 ^ e). set (D := 2 ^ (t - (e + 1))).
    assert (HE : 0 < E) by apply pow2_pos.
    assert (HD : 0 < D) by apply pow2_pos.
    rewrite P53_double in Hm.
    (* m*E < 2*P52*E <= q*(2*E*D) *)
    apply N.le_trans with (2 * P52 * E).
    + apply N.mul_le_mono_r. lia.
    + replace (q * (2 * E * D)) with (2 * E * (q * D)) by ring.
      replace (2 * P52 * E) with (2 * E * P52) by ring.
      apply N.mul_le_mono_l. nia.
Qed.

(* ------------------------------------------------------------------ *)
(** * Round to nearest, ties to even, on (q, remainder) *)

(* the significand chosen for x = q*T + rho, 0 <= rho < T *)
Definition rne_pick (q : N) (c : comparison) : N :=
  match c with
  | Lt => q
  | Gt => q + 1
  | Eq => if N.odd q then q + 1 else q
  end.

Lemma odd_succ_even q : N.odd q = true -> N.even (q + 1) = true.
Proof. intros H. rewrite N.add_1_r, N.even_succ. exact H. Qed.

Lemma not_odd_even q : N.odd q = false -> N.even q = true.
Proof. intros H. rewrite <- N.negb_odd, H. reflexivity. Qed.

Theorem rne_pick_nearest q t rho :
  P52 <= q -> rho < 2 ^ t ->
  let X := q * 2 ^ t + rho in
  let B := rne_pick q (2 * rho ?= 2 ^ t) * 2 ^ t in
  (forall y, rep53 y -> dist B X <= dist y X) /\
  (forall y, rep53 y -> y <> B -> dist y X = dist B X ->
             N.even (rne_pick q (2 * rho ?= 2 ^ t)) = true).
Proof.
  intros Hq Hrho X B.
  set (T := 2 ^ t) in *.
  assert (HT : 0 < T) by apply pow2_pos.
  assert (Hgap : forall y, rep53 y -> y <= q * T \/ q * T + T <= y).
  { intros y Hy. destruct (rep53_gap y q t Hy Hq) as [H | H]; [left; exact H | right].
    fold T in H. lia. }
  unfold B, X. clearbody T.
  destruct (N.compare_spec (2 * rho) T) as [Heq | Hlt | Hgt]; cbn [rne_pick].
  - (* tie *)
    destruct (N.odd q) eqn:Hodd.
    + (* up *)
      replace ((q + 1) * T) with (q * T + T) by ring.
      split.
      * intros y Hy. rewrite (dist_ge (q * T + T)) by lia.
        destruct (Hgap y Hy) as [H | H];
          [rewrite dist_le by lia | rewrite dist_ge by lia]; lia.
      * intros _ _ _ _. apply odd_succ_even, Hodd.
    + split.
      * intros y Hy. rewrite (dist_le (q * T)) by lia.
        destruct (Hgap y Hy) as [H | H];
          [rewrite dist_le by lia | rewrite dist_ge by lia]; lia.
      * intros _ _ _ _. apply not_odd_even, Hodd.
  - (* below half: down *)
    split.
    + intros y Hy. rewrite (dist_le (q * T)) by lia.
      destruct (Hgap y Hy) as [H | H];
        [rewrite dist_le by lia | rewrite dist_ge by lia]; lia.
    + intros y Hy Hne Hd. exfalso. rewrite (dist_le (q * T)) in Hd by lia.
      destruct (Hgap y Hy) as [H | H];
        [rewrite dist_le in Hd by lia | rewrite dist_ge in Hd by lia]; lia.
  - (* above half: up *)
    replace ((q + 1) * T) with (q * T + T) by ring.
    split.
    + intros y Hy. rewrite (dist_ge (q * T + T)) by lia.
      destruct (Hgap y Hy) as [H | H];
        [rewrite dist_le by lia | rewrite dist_ge by lia]; lia.
    + intros y Hy Hne Hd. exfalso. rewrite (dist_ge (q * T + T)) in Hd by lia.
      destruct (Hgap y Hy) as [H | H];
        [rewrite dist_le in Hd by lia | rewrite dist_ge in Hd by lia]; lia.
Qed.

(* ------------------------------------------------------------------ *)
(** * Decoding the pattern (1023 + k) * 2^52 + (q' - 2^52) *)

Lemma encode_fields E F : E < 2048 -> F < P52 ->
  f64_exp (E * P52 + F) = E /\ f64_frac (E * P52 + F) = F /\ f64_neg (E * P52 + F) = false.
Proof.
  intros HE HF. unfold f64_exp, f64_frac, f64_neg.
  assert (HP : P52 <> 0) by discriminate.
  rewrite N.div_add_l by exact HP.
  rewrite (N.div_small F P52 HF), N.add_0_r.
  rewrite (N.mod_small E 2048 HE).
  rewrite N.add_comm, N.mod_add by exact HP.
  rewrite (N.mod_small F P52 HF).
  repeat split.
  destruct (N.leb_spec P63 (F + E * P52)) as [H | H]; [|reflexivity].
  unfold P63, P52 in *. lia.
Qed.

(* q' in [2^52, 2^53] : the value is q' * 2^(1022+k), also when q' = 2^53 carried into the exponent *)
Lemma encode_scaled k q' : k <= 63 -> P52 <= q' -> q' <= P53 ->
  let b := (1023 + k) * P52 + (q' - P52) in
  f64_neg b = false /\ f64_is_finite b = true /\
  f64_scaled b = q' * 2 ^ (1022 + k) /\
  N.even (f64_frac b) = N.even q'.
Proof.
  intros Hk Hlo Hhi b. unfold f64_is_finite, f64_scaled.
  destruct (N.eq_dec q' P53) as [-> | Hne].
  - (* carry *)
    assert (Hb : b = (1024 + k) * P52 + 0).
    { unfold b. rewrite P53_double. lia. }
    destruct (encode_fields (1024 + k) 0 ltac:(lia) ltac:(reflexivity)) as (He & Hf & Hn).
    rewrite Hb, He, Hf, Hn.
    repeat split.
    + apply N.ltb_lt. lia.
    + destruct (N.eqb_spec (1024 + k) 0) as [H0 | _]; [lia|].
      replace (1024 + k - 1) with (1022 + k + 1) by lia.
      rewrite pow2_succ, P53_double. ring.
  - assert (Hlt : q' - P52 < P52) by (rewrite P53_double in Hhi, Hne; lia).
    destruct (encode_fields (1023 + k) (q' - P52) ltac:(lia) Hlt) as (He & Hf & Hn).
    unfold b. rewrite He, Hf, Hn.
    repeat split.
    + apply N.ltb_lt. lia.
    + destruct (N.eqb_spec (1023 + k) 0) as [H0 | _]; [lia|].
      replace (1023 + k - 1) with (1022 + k) by lia.
      f_equal. lia.
    + replace q' with (q' - P52 + 2 * 2251799813685248) at 2 by (unfold P52 in *; lia).
      rewrite N.even_add_mul_2. reflexivity.
Qed.

(* ------------------------------------------------------------------ *)
(** * The theorem *)

Lemma rep53_exact m : m < P53 -> rep53 (m * 2 ^ 0 * 1) -> True.
Proof. trivial. Qed.

Lemma correctly_rounded_exact x b :
  f64_neg b = false -> f64_is_finite b = true -> f64_scaled b = x * 2 ^ 1074 ->
  correctly_rounded x b.
Proof.
  intros Hn Hf Hs. unfold correctly_rounded. rewrite Hs, dist_refl.
  repeat split; auto.
  - intros y _. lia.
  - intros y _ Hne Hd. apply dist_0_eq in Hd. congruence.
Qed.

Theorem u64_as_f64_correct : forall v, v < 2 ^ 64 -> correctly_rounded v (u64_as_f64 v).
Proof.
  intros v Hv. unfold u64_as_f64.
  destruct (N.eqb_spec v 0) as [-> | Hnz].
  - apply correctly_rounded_exact; reflexivity.
  - assert (Hpos : 0 < v) by lia.
    destruct (N.log2_spec v Hpos) as [Hlo Hhi].
    set (k := N.log2 v) in *.
    assert (Hk : k <= 63).
    { destruct (N.le_gt_cases k 63) as [H | H]; [exact H | exfalso].
      assert (2 ^ 64 <= 2 ^ k) by (apply N.pow_le_mono_r; lia). lia. }
    destruct (N.leb_spec k 52) as [Hk52 | Hk52].
    + (* exact *)
      set (q' := v * 2 ^ (52 - k)).
      assert (Hq1 : P52 <= q').
      { unfold q'. rewrite P52_eq, (pow2_split 52 k Hk52). apply N.mul_le_mono_r. exact Hlo. }
      assert (Hq2 : q' < P53).
      { unfold q'. rewrite P53_eq. replace 53 with (N.succ k + (52 - k)) by lia.
        rewrite N.pow_add_r. apply N.mul_lt_mono_pos_r; [apply pow2_pos | exact Hhi]. }
      destruct (encode_scaled k q' Hk Hq1 ltac:(lia)) as (Hn & Hf & Hs & _).
      apply correctly_rounded_exact; [exact Hn | exact Hf |].
      rewrite Hs. unfold q'. rewrite <- N.mul_assoc, <- N.pow_add_r. f_equal. f_equal. lia.
    + (* rounding *)
      set (s := k - 52). set (T := 2 ^ s).
      assert (HT : 0 < T) by apply pow2_pos.
      assert (HTnz : T <> 0) by lia.
      pose proof (N.div_mod v T HTnz) as Hdm.
      pose proof (N.mod_lt v T HTnz) as Hr.
      set (q := v / T) in *. set (r := v mod T) in *.
      assert (Hkeq : 2 ^ k = P52 * T).
      { unfold T, s. rewrite P52_eq, <- N.pow_add_r. f_equal. lia. }
      assert (Hq1 : P52 <= q).
      { destruct (N.le_gt_cases P52 q) as [H | H]; [exact H | exfalso]. nia. }
      assert (Hq2 : q < P53).
      { destruct (N.le_gt_cases P53 q) as [H | H]; [exfalso | exact H].
        rewrite N.pow_succ_r', Hkeq in Hhi. rewrite P53_double in H. nia. }
      assert (Hhalf : 2 * 2 ^ (s - 1) = T).
      { unfold T. replace s with (s - 1 + 1) at 2 by (unfold s; lia). rewrite pow2_succ. reflexivity. }
      set (half := 2 ^ (s - 1)) in *.
      set (q' := if (half <? r) || ((r =? half) && N.odd q) then q + 1 else q).
      (* q' is the pick for the scaled problem: X = q * 2^(s+1074) + r * 2^1074 *)
      set (S := 2 ^ 1074).
      assert (HS : 0 < S) by apply pow2_pos.
      assert (Hpick : q' = rne_pick q (2 * (r * S) ?= 2 ^ (s + 1074))).
      { rewrite N.pow_add_r. fold T S. unfold q'.
        destruct (N.compare_spec (2 * (r * S)) (T * S)) as [He | Hl | Hg]; cbn [rne_pick].
        - assert (H2 : 2 * r = T).
          { apply (proj1 (N.mul_cancel_r (2 * r) T S ltac:(lia))). rewrite <- He. ring. }
          assert (Hrh : r = half) by lia. rewrite Hrh.
          rewrite N.ltb_irrefl, N.eqb_refl. reflexivity.
        - assert (H2 : 2 * r < T).
          { apply (proj2 (N.mul_lt_mono_pos_r S (2 * r) T HS)). lia. }
          destruct (N.ltb_spec half r); [lia|]. destruct (N.eqb_spec r half); [lia|]. reflexivity.
        - assert (H2 : T < 2 * r).
          { apply (proj2 (N.mul_lt_mono_pos_r S T (2 * r) HS)). lia. }
          destruct (N.ltb_spec half r); [reflexivity | lia]. }
      assert (Hq'lo : P52 <= q') by (unfold q'; destruct ((half <? r) || _); lia).
      assert (Hq'hi : q' <= P53) by (unfold q'; destruct ((half <? r) || _); lia).
      destruct (encode_scaled k q' Hk Hq'lo Hq'hi) as (Hn & Hf & Hs & He).
      assert (Hrho : r * S < 2 ^ (s + 1074)).
      { rewrite N.pow_add_r. fold T S. apply N.mul_lt_mono_pos_r; assumption. }
      destruct (rne_pick_nearest q (s + 1074) (r * S) Hq1 Hrho) as [Hnear Htie].
      assert (HX : q * 2 ^ (s + 1074) + r * S = v * S).
      { rewrite N.pow_add_r. fold T S. rewrite Hdm at 1. ring. }
      assert (Hexp : 1022 + k = s + 1074) by (unfold s; lia).
      rewrite HX, <- Hpick in Hnear, Htie.
      unfold correctly_rounded. fold S. rewrite Hs, Hexp, He.
      repeat split; assumption.
Qed.

(* every finite binary64 magnitude is one of the candidates of [correctly_rounded] *)
Theorem f64_scaled_rep53 b : rep53 (f64_scaled b).
Proof.
  unfold f64_scaled, f64_frac.
  assert (HP : P52 <> 0) by discriminate.
  pose proof (N.mod_lt b P52 HP) as HF.
  destruct (f64_exp b =? 0).
  - exists (b mod P52), 0. rewrite N.pow_0_r, N.mul_1_r. split; [reflexivity|].
    rewrite P53_double. lia.
  - exists (P52 + b mod P52), (f64_exp b - 1). split; [reflexivity|].
    rewrite P53_double. lia.
Qed.

(* exactly representable naturals are returned unchanged *)
Corollary u64_as_f64_exact v : v < 2 ^ 64 -> rep53 (v * 2 ^ 1074) ->
  f64_scaled (u64_as_f64 v) = v * 2 ^ 1074.
Proof.
  intros Hv Hrep. destruct (u64_as_f64_correct v Hv) as (_ & _ & Hnear & _).
  specialize (Hnear _ Hrep). rewrite dist_refl in Hnear.
  apply dist_0_eq. lia.
Qed.

Print Assumptions u64_as_f64_correct.
