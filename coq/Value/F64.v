(* Value/F64.v — IEEE-754 binary64 as 64-bit patterns (N), the exact value a pattern stands for, what
   "correctly rounded" means, and the model of the Rust cast `v as f64` for v : u64.

   DEFINITIONS ONLY (proofs: Value/F64Proofs.v).  Nothing here comes from a floating-point library.

   A pattern b < 2^64 has sign = bit 63, exponent field E = bits 62..52, fraction F = bits 51..0.
     E = 0          : +-F * 2^-1074                      (zero and subnormals)
     1 <= E <= 2046 : +-(2^52 + F) * 2^(E - 1075)        (normal)
     E = 2047       : infinity (F = 0) or NaN (F <> 0)
   So every finite magnitude times 2^1074 is a natural number, [f64_scaled b]; the theorems compare
   naturals only (no rationals, no reals). *)
From AV Require Import Base.Bytes.

Local Open Scope N_scope.

Definition P52 : N := 4503599627370496.             (* 2^52 *)
Definition P53 : N := 9007199254740992.             (* 2^53 *)
Definition P63 : N := 9223372036854775808.          (* 2^63 *)
Definition P64 : N := 18446744073709551616.         (* 2^64 *)

Definition f64_frac (b : N) : N := b mod P52.
Definition f64_exp (b : N) : N := (b / P52) mod 2048.
Definition f64_neg (b : N) : bool := P63 <=? b.

Definition f64_is_nan (b : N) : bool := (f64_exp b =? 2047) && negb (f64_frac b =? 0).
Definition f64_is_inf (b : N) : bool := (f64_exp b =? 2047) && (f64_frac b =? 0).
Definition f64_is_finite (b : N) : bool := f64_exp b <? 2047.

Definition F64_ZERO : N := 0.
Definition F64_INF : N := 9218868437227405312.       (* 0x7FF0000000000000 *)
Definition F64_NEG_INF : N := 18442240474082181120.  (* 0xFFF0000000000000 *)
Definition F64_NAN : N := 9221120237041090560.       (* 0x7FF8000000000000  f64::NAN *)
Definition F64_NEG_NAN : N := 18444492273895866368.  (* 0xFFF8000000000000  -f64::NAN *)

(* "equal value" for floats: the same bits, or both NaN *)
Definition f64_same (a b : N) : bool := (a =? b) || (f64_is_nan a && f64_is_nan b).

(* ------------------------------------------------------------------ *)
(** * The exact value of a finite pattern, and correct rounding *)

(* |value of b| * 2^1074, for a finite b *)
Definition f64_scaled (b : N) : N :=
  if f64_exp b =? 0 then f64_frac b else (P52 + f64_frac b) * 2 ^ (f64_exp b - 1).

(* y * 2^-1074 is a binary number with at most 53 significant bits and exponent >= -1074:
   the magnitudes binary64 could hold if its exponent range were unbounded above.  The magnitude of
   every finite binary64 value has this form ([F64Proofs.f64_scaled_rep53]). *)
Definition rep53 (y : N) : Prop := exists m e, y = m * 2 ^ e /\ m < P53.

Definition dist (a b : N) : N := if a <=? b then b - a else a - b.

(* [b] is the binary64 nearest to the natural number [x], ties to the even significand
   (IEEE-754 roundTiesToEven), stated against ALL candidates [y] of the format:
   - b is a finite, non-negative pattern;
   - no representable magnitude is closer to x than b's value;
   - if another representable magnitude is exactly as close, b's significand is even.
   Negative candidates need not be listed: they are farther from x >= 0 than +0 is.
   Everything is scaled by 2^1074 so that all quantities are naturals. *)
Definition correctly_rounded (x : N) (b : N) : Prop :=
  f64_neg b = false /\ f64_is_finite b = true /\
  (forall y, rep53 y -> dist (f64_scaled b) (x * 2 ^ 1074) <= dist y (x * 2 ^ 1074)) /\
  (forall y, rep53 y -> y <> f64_scaled b ->
             dist y (x * 2 ^ 1074) = dist (f64_scaled b) (x * 2 ^ 1074) -> N.even (f64_frac b) = true).

(* ------------------------------------------------------------------ *)
(** * `v as f64` for v : u64 *)

(* k = position of the leading one.  Up to 53 significant bits the value is exact.  Otherwise the low
   s = k - 52 bits are rounded off: to nearest, ties to the even significand.  The significand q' may
   become 2^53; the encoding (1023 + k) * 2^52 + (q' - 2^52) then carries into the exponent field,
   which is exactly the next power of two. *)
Definition u64_as_f64 (v : N) : N :=
  if v =? 0 then 0
  else
    let k := N.log2 v in
    if k <=? 52 then (1023 + k) * P52 + (v * 2 ^ (52 - k) - P52)
    else
      let s := k - 52 in
      let q := v / 2 ^ s in
      let r := v mod 2 ^ s in
      let half := 2 ^ (s - 1) in
      let q' := if (half <? r) || ((r =? half) && N.odd q) then q + 1 else q in
      (1023 + k) * P52 + (q' - P52).

Example f64_scaled_ex :
  (f64_scaled 1, f64_scaled 4607182418800017408 (* 1.0 *) =? 2 ^ 1074, f64_scaled 4611686018427387904 (* 2.0 *) =? 2 ^ 1075,
   f64_scaled 4503599627370496 (* smallest normal *) =? 2 ^ 52, f64_scaled 4503599627370495 (* largest subnormal *))
  = (1, true, true, true, 4503599627370495).
Proof. vm_compute. reflexivity. Qed.
