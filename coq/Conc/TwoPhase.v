(* ====================================================================== *)
(*  Conc/TwoPhase.v : criterion 2, two-phase locking => serializability    *)
(*                                                                          *)
(*  Lock traces are extended with data accesses on the locked objects.      *)
(*  Objects are identified with their lock; values are N; the shared store  *)
(*  is [lock -> N].  If every transaction is two-phase, well-locked and     *)
(*  balanced, every complete interleaved execution yields the same final    *)
(*  store and the same private logs as running the transactions one after   *)
(*  the other in some order.                                                *)
(* ====================================================================== *)
From Coq Require Import List NArith Bool Arith Lia Permutation.
From AV Require Import Conc.RwLock.
Import ListNotations.

(* ---------------------------------------------------------------------- *)
(** * Data events, threads, configurations                                 *)
(* ---------------------------------------------------------------------- *)
Inductive dev :=
| DAcq (m : mode) (l : lock)
| DRel (l : lock)
| DRead (l : lock)
    (* the thread appends the current value of l to its private log *)
| DWrite (l : lock) (f : list N -> N).
    (* writes f(private log so far) to l *)

Definition store := lock -> N.

Definition supd (st : store) (l : lock) (v : N) : store :=
  fun x => if N.eqb x l then v else st x.

Record dthread := mkD { drest : list dev; dheld : hlist; dlog : list N }.
Record dconfig := mkC { cstore : store; cthreads : list dthread }.

Definition dinit (ts : list (list dev)) (st0 : store) : dconfig :=
  mkC st0 (map (fun t => mkD t [] []) ts).

(** thread-list level "somebody holds l in mode m" *)
Definition d_holds (thr : list dthread) (l : lock) (m : mode) : Prop :=
  exists th, In th thr /\ In (l, m) (dheld th).

(** same reader/writer exclusion as [RwLock.can_acq] *)
Definition d_can_acq (thr : list dthread) (m : mode) (l : lock) : Prop :=
  match m with
  | Rd => ~ d_holds thr l Wr
  | Wr => forall m', ~ d_holds thr l m'
  end.

Definition guard (thr : list dthread) (e : dev) : Prop :=
  match e with DAcq m l => d_can_acq thr m l | _ => True end.

Definition held_after (h : hlist) (e : dev) : hlist :=
  match e with
  | DAcq m l => (l, m) :: h
  | DRel l => remove_first l h
  | _ => h
  end.

Definition log_after (lg : list N) (e : dev) (st : store) : list N :=
  match e with DRead l => lg ++ [st l] | _ => lg end.

Definition store_after (st : store) (lg : list N) (e : dev) : store :=
  match e with DWrite l f => supd st l (f lg) | _ => st end.

(** [dstep c t e c'] : thread t performs its next event e.  Acquisitions
    wait for the guard; releases and data accesses always fire. *)
Inductive dstep : dconfig -> nat -> dev -> dconfig -> Prop :=
| dstep_intro : forall st thr t e r h lg,
    nth_error thr t = Some (mkD (e :: r) h lg) ->
    guard thr e ->
    dstep (mkC st thr) t e
          (mkC (store_after st lg e)
               (upd thr t (mkD r (held_after h e) (log_after lg e st)))).

Definition dstep_any (c c' : dconfig) : Prop := exists t e, dstep c t e c'.
Definition dreachable : dconfig -> dconfig -> Prop := star dstep_any.

Definition d_all_finished (c : dconfig) : Prop :=
  forall th, In th (cthreads c) -> drest th = [].

(** labelled executions *)
Notation label := (nat * dev)%type (only parsing).

Inductive run : dconfig -> list label -> dconfig -> Prop :=
| run_nil : forall c, run c [] c
| run_cons : forall c t e c1 s c',
    dstep c t e c1 -> run c1 s c' -> run c ((t, e) :: s) c'.

Lemma dreachable_run : forall c c', dreachable c c' -> exists s, run c s c'.
Proof.
  intros c c' H. induction H as [x | x y z [t [e Hxy]] Hyz [s IH]].
  - exists []. constructor.
  - exists ((t, e) :: s). econstructor; eassumption.
Qed.

Lemma run_dreachable : forall c s c', run c s c' -> dreachable c c'.
Proof.
  intros c s c' H. induction H as [c | c t e c1 s c' Hs Hr IH].
  - apply star_refl.
  - apply star_step with (y := c1); [exists t, e; exact Hs | exact IH].
Qed.

Lemma run_app : forall s1 s2 c c1 c',
    run c s1 c1 -> run c1 s2 c' -> run c (s1 ++ s2) c'.
Proof.
  intros s1. induction s1 as [|[t e] s1 IH]; intros s2 c c1 c' H1 H2; simpl.
  - inversion H1; subst. exact H2.
  - inversion H1 as [|c0 t0 e0 c2 s0 c0' Hs Hr]; subst.
    econstructor; [eassumption|]. eapply IH; eassumption.
Qed.

Lemma run_split : forall s1 s2 c c',
    run c (s1 ++ s2) c' -> exists c1, run c s1 c1 /\ run c1 s2 c'.
Proof.
  intros s1. induction s1 as [|[t e] s1 IH]; intros s2 c c' H; simpl in H.
  - exists c. split; [constructor | exact H].
  - inversion H as [|c0 t0 e0 c1 s0 c0' Hs Hr]; subst.
    destruct (IH _ _ _ Hr) as [c2 [Ha Hb]].
    exists c2. split; [econstructor; eassumption | exact Hb].
Qed.

(* ---------------------------------------------------------------------- *)
(** * The criteria (boolean, computable)                                   *)
(* ---------------------------------------------------------------------- *)
Definition is_acq (e : dev) : bool := match e with DAcq _ _ => true | _ => false end.
Definition is_rel (e : dev) : bool := match e with DRel _ => true | _ => false end.

Fixpoint no_acq (t : list dev) : bool :=
  match t with
  | [] => true
  | e :: t' => negb (is_acq e) && no_acq t'
  end.

(** no acquisition after the first release *)
Fixpoint two_phase (t : list dev) : bool :=
  match t with
  | [] => true
  | DRel _ :: t' => no_acq t'
  | _ :: t' => two_phase t'
  end.

Fixpoint wl_from (h : hlist) (t : list dev) : bool :=
  match t with
  | [] => true
  | DAcq m l :: t' => wl_from ((l, m) :: h) t'
  | DRel l :: t' => wl_from (remove_first l h) t'
  | DRead l :: t' => h_any h l && wl_from h t'
  | DWrite l _ :: t' => h_wr h l && wl_from h t'
  end.

(** every read happens under a lock on the object (any mode), every write
    under the write lock *)
Definition well_locked (t : list dev) : bool := wl_from [] t.

Fixpoint dbal_from (h : hlist) (t : list dev) : bool :=
  match t with
  | [] => match h with [] => true | _ => false end
  | DAcq m l :: t' => dbal_from ((l, m) :: h) t'
  | DRel l :: t' => h_any h l && dbal_from (remove_first l h) t'
  | _ :: t' => dbal_from h t'
  end.

(** every release matches an acquisition; at the end nothing is held *)
Definition dbalanced (t : list dev) : bool := dbal_from [] t.

Lemma no_acq_two_phase : forall t, no_acq t = true -> two_phase t = true.
Proof.
  intros t. induction t as [|e t IH]; intros H; simpl in *; auto.
  apply andb_true_iff in H. destruct H as [H1 H2].
  destruct e; simpl in *; auto; discriminate.
Qed.

Lemma two_phase_tail : forall e t, two_phase (e :: t) = true -> two_phase t = true.
Proof.
  intros e t H. destruct e; simpl in H; auto. apply no_acq_two_phase. exact H.
Qed.

Lemma no_acq_in : forall t e, no_acq t = true -> In e t -> is_acq e = false.
Proof.
  intros t. induction t as [|x t IH]; intros e H Hin; simpl in *; [contradiction|].
  apply andb_true_iff in H. destruct H as [H1 H2]. destruct Hin as [<-|Hin]; auto.
  apply negb_true_iff. exact H1.
Qed.

(* ---------------------------------------------------------------------- *)
(** * Invariants of reachable configurations                               *)
(* ---------------------------------------------------------------------- *)
Definition th_ok (th : dthread) : Prop :=
  wl_from (dheld th) (drest th) = true /\
  two_phase (drest th) = true /\
  dbal_from (dheld th) (drest th) = true.

Definition d_excl (thr : list dthread) : Prop :=
  forall t u tht thu l m,
    t <> u -> nth_error thr t = Some tht -> nth_error thr u = Some thu ->
    In (l, Wr) (dheld tht) -> ~ In (l, m) (dheld thu).

Definition dinv (c : dconfig) : Prop :=
  (forall th, In th (cthreads c) -> th_ok th) /\ d_excl (cthreads c).

Lemma th_ok_step : forall e r h lg lg',
    th_ok (mkD (e :: r) h lg) -> th_ok (mkD r (held_after h e) lg').
Proof.
  intros e r h lg lg' [Hwl [Htp Hbal]]. unfold th_ok in *. simpl in *.
  split; [|split].
  - destruct e; simpl in *; auto; apply andb_true_iff in Hwl; tauto.
  - eapply two_phase_tail; eassumption.
  - destruct e; simpl in *; auto. apply andb_true_iff in Hbal. tauto.
Qed.

Lemma dinv_step : forall c t e c', dstep c t e c' -> dinv c -> dinv c'.
Proof.
  intros c t e c' Hstep [Hok Hex].
  destruct Hstep as [st thr t e r h lg Hnth Hg]. simpl in *. split.
  - intros th Hin. apply in_upd in Hin. destruct Hin as [Hin|Hin]; [subst th | auto].
    eapply th_ok_step. apply Hok. eapply nth_error_In; eassumption.
  - intros a b tha thb l m Hab Ha Hb Hwa Hmb. simpl in Ha, Hb.
    destruct (Nat.eq_dec a t) as [Eat|Eat]; destruct (Nat.eq_dec b t) as [Ebt|Ebt].
    + congruence.
    + subst a. rewrite (nth_error_upd_eq _ _ _ Hnth) in Ha. inversion Ha; subst tha.
      clear Ha. rewrite nth_error_upd_neq in Hb by congruence. simpl in Hwa.
      destruct e as [m0 l0 | l0 | l0 | l0 f]; simpl in *.
      * destruct Hwa as [Hwa|Hwa].
        -- inversion Hwa; subst. simpl in Hg. apply (Hg m). exists thb. split; auto.
           eapply nth_error_In; eassumption.
        -- exact (Hex t b _ _ l m Hab Hnth Hb Hwa Hmb).
      * apply in_remove_first in Hwa. exact (Hex t b _ _ l m Hab Hnth Hb Hwa Hmb).
      * exact (Hex t b _ _ l m Hab Hnth Hb Hwa Hmb).
      * exact (Hex t b _ _ l m Hab Hnth Hb Hwa Hmb).
    + subst b. rewrite (nth_error_upd_eq _ _ _ Hnth) in Hb. inversion Hb; subst thb.
      clear Hb. rewrite nth_error_upd_neq in Ha by congruence. simpl in Hmb.
      destruct e as [m0 l0 | l0 | l0 | l0 f]; simpl in *.
      * destruct Hmb as [Hmb|Hmb].
        -- inversion Hmb; subst. destruct m; simpl in Hg.
           ++ apply Hg. exists tha. split; auto. eapply nth_error_In; eassumption.
           ++ apply (Hg Wr). exists tha. split; auto. eapply nth_error_In; eassumption.
        -- exact (Hex a t _ _ l m Hab Ha Hnth Hwa Hmb).
      * apply in_remove_first in Hmb. exact (Hex a t _ _ l m Hab Ha Hnth Hwa Hmb).
      * exact (Hex a t _ _ l m Hab Ha Hnth Hwa Hmb).
      * exact (Hex a t _ _ l m Hab Ha Hnth Hwa Hmb).
    + rewrite nth_error_upd_neq in Ha by congruence.
      rewrite nth_error_upd_neq in Hb by congruence.
      exact (Hex a b _ _ l m Hab Ha Hb Hwa Hmb).
Qed.

Lemma dinv_run : forall c s c', run c s c' -> dinv c -> dinv c'.
Proof.
  intros c s c' H. induction H as [c | c t e c1 s c' Hs Hr IH]; auto.
  intros Hc. apply IH. eapply dinv_step; eassumption.
Qed.

Lemma dinv_init : forall ts st0,
    Forall (fun t => two_phase t = true /\ well_locked t = true /\ dbalanced t = true) ts ->
    dinv (dinit ts st0).
Proof.
  intros ts st0 Hall. split; simpl.
  - intros th Hin. apply in_map_iff in Hin. destruct Hin as [t [Heq Hin]]. subst th.
    rewrite Forall_forall in Hall. destruct (Hall t Hin) as [H1 [H2 H3]].
    unfold th_ok. simpl. auto.
  - intros t u tht thu l m _ Ht _ Hw _.
    apply nth_error_In in Ht. apply in_map_iff in Ht. destruct Ht as [tr [Heq _]].
    subst tht. simpl in Hw. contradiction.
Qed.

(* ---------------------------------------------------------------------- *)
(** * Configurations up to extensional equality of the store               *)
(* ---------------------------------------------------------------------- *)
Definition ceq (c1 c2 : dconfig) : Prop :=
  cthreads c1 = cthreads c2 /\ forall l, cstore c1 l = cstore c2 l.

Lemma ceq_refl : forall c, ceq c c.
Proof. intros c. split; auto. Qed.

Lemma ceq_sym : forall c1 c2, ceq c1 c2 -> ceq c2 c1.
Proof. intros c1 c2 [H1 H2]. split; auto. Qed.

Lemma ceq_trans : forall c1 c2 c3, ceq c1 c2 -> ceq c2 c3 -> ceq c1 c3.
Proof.
  intros c1 c2 c3 [H1 H2] [H3 H4]. split; [congruence|].
  intros l. rewrite H2. apply H4.
Qed.

Lemma store_after_ext : forall st st' lg e,
    (forall l, st l = st' l) -> forall l, store_after st lg e l = store_after st' lg e l.
Proof.
  intros st st' lg e H l. destruct e as [m0 l0 | l0 | l0 | l0 f0]; simpl; auto.
  unfold supd. destruct (N.eqb l l0); auto.
Qed.

Lemma log_after_ext : forall st st' lg e,
    (forall l, st l = st' l) -> log_after lg e st = log_after lg e st'.
Proof. intros st st' lg e H. destruct e; simpl; auto. rewrite H. reflexivity. Qed.

Lemma dstep_ceq : forall c t e c1 c',
    dstep c t e c1 -> ceq c c' -> exists c1', dstep c' t e c1' /\ ceq c1 c1'.
Proof.
  intros c t e c1 c' Hs [Hthr Hst]. destruct Hs as [st thr t e r h lg Hnth Hg].
  destruct c' as [st' thr']. simpl in *. subst thr'.
  exists (mkC (store_after st' lg e)
              (upd thr t (mkD r (held_after h e) (log_after lg e st')))).
  split.
  - constructor; assumption.
  - split; simpl.
    + rewrite (log_after_ext st st' lg e Hst). reflexivity.
    + apply store_after_ext. exact Hst.
Qed.

Lemma run_ceq : forall c s c1,
    run c s c1 -> forall c', ceq c c' -> exists c1', run c' s c1' /\ ceq c1 c1'.
Proof.
  intros c s c1 H. induction H as [c | c t e c2 s c1 Hs Hr IH]; intros c' Heq.
  - exists c'. split; [constructor | exact Heq].
  - destruct (dstep_ceq c t e c2 c' Hs Heq) as [c2' [Hs' Heq2]].
    destruct (IH c2' Heq2) as [c1' [Hr' Heq1]].
    exists c1'. split; [econstructor; eassumption | exact Heq1].
Qed.

(* ---------------------------------------------------------------------- *)
(** * Who holds what, relative to one distinguished thread                 *)
(* ---------------------------------------------------------------------- *)
Definition others_hold (thr : list dthread) (u : nat) (l : lock) (m : mode) : Prop :=
  exists k th, k <> u /\ nth_error thr k = Some th /\ In (l, m) (dheld th).

Lemma holds_split : forall thr u thu l m,
    nth_error thr u = Some thu ->
    (d_holds thr l m <-> In (l, m) (dheld thu) \/ others_hold thr u l m).
Proof.
  intros thr u thu l m Hnu. split.
  - intros [th [Hin Hl]]. apply In_nth_error in Hin. destruct Hin as [k Hk].
    destruct (Nat.eq_dec k u) as [E|E].
    + subst k. rewrite Hnu in Hk. inversion Hk; subst. left. exact Hl.
    + right. exists k, th. auto.
  - intros [Hl | [k [th [Hne [Hk Hl]]]]].
    + exists thu. split; auto. eapply nth_error_In; eassumption.
    + exists th. split; auto. eapply nth_error_In; eassumption.
Qed.

Lemma holds_upd : forall thr u thu thu' l m,
    nth_error thr u = Some thu ->
    (d_holds (upd thr u thu') l m <-> In (l, m) (dheld thu') \/ others_hold thr u l m).
Proof.
  intros thr u thu thu' l m Hnu.
  rewrite (holds_split (upd thr u thu') u thu' l m)
    by (eapply nth_error_upd_eq; eassumption).
  split; (intros [Hl | [k [th [Hne [Hk Hl]]]]]; [left; exact Hl | right]);
    exists k, th; (split; [exact Hne | split; [|exact Hl]]).
  - rewrite nth_error_upd_neq in Hk by congruence. exact Hk.
  - rewrite nth_error_upd_neq by congruence. exact Hk.
Qed.

Lemma held_after_mono : forall h e x,
    is_rel e = false -> In x h -> In x (held_after h e).
Proof. intros h e x He Hin. destruct e; simpl in *; auto; discriminate. Qed.

Lemma held_after_inv : forall h e l m,
    In (l, m) (held_after h e) -> In (l, m) h \/ e = DAcq m l.
Proof.
  intros h e l m Hin. destruct e; simpl in *; auto.
  - destruct Hin as [Hin|Hin]; auto. inversion Hin; subst. auto.
  - left. eapply in_remove_first; eassumption.
Qed.

(** a guard that holds after u stepped also held before, unless u released *)
Lemma guard_before : forall thr u ru hu lgu eu lgu' et,
    nth_error thr u = Some (mkD (eu :: ru) hu lgu) ->
    is_rel eu && is_acq et = false ->
    guard (upd thr u (mkD ru (held_after hu eu) lgu')) et -> guard thr et.
Proof.
  intros thr u ru hu lgu eu lgu' et Hnu Hnc Hg.
  destruct et as [m l | | |]; simpl; auto.
  simpl in Hnc. rewrite andb_true_r in Hnc.
  assert (Hmono : forall m', d_holds thr l m' ->
            d_holds (upd thr u (mkD ru (held_after hu eu) lgu')) l m').
  { intros m' Hh. apply (holds_upd thr u _ _ l m' Hnu).
    apply (holds_split thr u _ l m' Hnu) in Hh. destruct Hh as [Hh|Hh]; auto.
    left. simpl in *. apply held_after_mono; assumption. }
  destruct m; simpl in *.
  - intros Hh. apply Hg. apply Hmono. exact Hh.
  - intros m' Hh. apply (Hg m'). apply Hmono. exact Hh.
Qed.

(** u's guard still holds after t has stepped first, given that t's step
    was possible after u's *)
Lemma guard_after : forall thr u ru hu lgu eu lgu' t rt ht lgt et lgt',
    u <> t ->
    nth_error thr u = Some (mkD (eu :: ru) hu lgu) ->
    nth_error thr t = Some (mkD (et :: rt) ht lgt) ->
    guard thr eu ->
    guard (upd thr u (mkD ru (held_after hu eu) lgu')) et ->
    guard (upd thr t (mkD rt (held_after ht et) lgt')) eu.
Proof.
  intros thr u ru hu lgu eu lgu' t rt ht lgt et lgt' Hne Hnu Hnt Hgu Hgt.
  destruct eu as [mu lu | | |]; simpl; auto.
  assert (Hclaim : forall m',
             d_holds (upd thr t (mkD rt (held_after ht et) lgt')) lu m' ->
             d_holds thr lu m' \/ et = DAcq m' lu).
  { intros m' Hh. apply (holds_upd thr t _ _ lu m' Hnt) in Hh. simpl in Hh.
    destruct Hh as [Hh|Hh].
    - apply held_after_inv in Hh. destruct Hh as [Hh|Hh]; auto.
      left. apply (holds_split thr t _ lu m' Hnt). left. exact Hh.
    - left. apply (holds_split thr t _ lu m' Hnt). right. exact Hh. }
  assert (Hu_holds : d_holds (upd thr u (mkD ru (held_after hu (DAcq mu lu)) lgu')) lu mu).
  { apply (holds_upd thr u _ _ lu mu Hnu). left. simpl. left. reflexivity. }
  simpl in Hgu. destruct mu; simpl in *.
  - intros Hh. destruct (Hclaim Wr Hh) as [Hh'|Het]; [exact (Hgu Hh')|].
    subst et. simpl in Hgt. exact (Hgt Rd Hu_holds).
  - intros m' Hh. destruct (Hclaim m' Hh) as [Hh'|Het]; [exact (Hgu m' Hh')|].
    subst et. destruct m'; simpl in Hgt.
    + exact (Hgt Hu_holds).
    + exact (Hgt Wr Hu_holds).
Qed.

(* ---------------------------------------------------------------------- *)
(** * Conflicting data accesses are excluded by the locks                  *)
(* ---------------------------------------------------------------------- *)
Definition data_conflict (e1 e2 : dev) : bool :=
  match e1, e2 with
  | DRead l, DWrite l' _ => N.eqb l l'
  | DWrite l _, DRead l' => N.eqb l l'
  | DWrite l _, DWrite l' _ => N.eqb l l'
  | _, _ => false
  end.

Lemma data_conflict_sym : forall e1 e2, data_conflict e1 e2 = data_conflict e2 e1.
Proof. intros [] []; simpl; auto; apply N.eqb_sym. Qed.

Lemma no_data_conflict : forall c u t ru hu lgu eu rt ht lgt et,
    dinv c -> u <> t ->
    nth_error (cthreads c) u = Some (mkD (eu :: ru) hu lgu) ->
    nth_error (cthreads c) t = Some (mkD (et :: rt) ht lgt) ->
    data_conflict eu et = false.
Proof.
  intros c u t ru hu lgu eu rt ht lgt et [Hok Hex] Hne Hnu Hnt.
  destruct (Hok _ (nth_error_In _ _ Hnu)) as [Hwu _].
  destruct (Hok _ (nth_error_In _ _ Hnt)) as [Hwt _].
  simpl in Hwu, Hwt.
  destruct eu as [mu lu | lu | lu | lu fu]; destruct et as [mt lt | lt | lt | lt ft];
    simpl; auto;
    destruct (N.eqb lu lt) eqn:E; auto; apply N.eqb_eq in E; subst lt; exfalso;
    simpl in Hwu, Hwt;
    apply andb_true_iff in Hwu; destruct Hwu as [Hwu _];
    apply andb_true_iff in Hwt; destruct Hwt as [Hwt _].
  - apply h_any_spec in Hwu. destruct Hwu as [m Hm]. apply h_wr_spec in Hwt.
    apply (Hex t u _ _ lu m (not_eq_sym Hne) Hnt Hnu Hwt Hm).
  - apply h_any_spec in Hwt. destruct Hwt as [m Hm]. apply h_wr_spec in Hwu.
    apply (Hex u t _ _ lu m Hne Hnu Hnt Hwu Hm).
  - apply h_wr_spec in Hwt. apply h_wr_spec in Hwu.
    apply (Hex u t _ _ lu Wr Hne Hnu Hnt Hwu Hwt).
Qed.

Lemma log_after_indep : forall e1 e2 lg1 lg2 st,
    data_conflict e1 e2 = false ->
    log_after lg1 e1 (store_after st lg2 e2) = log_after lg1 e1 st.
Proof.
  intros e1 e2 lg1 lg2 st H. destruct e1; simpl; auto.
  destruct e2; simpl in *; auto. unfold supd. rewrite H. reflexivity.
Qed.

Lemma store_after_comm : forall e1 e2 lg1 lg2 st,
    data_conflict e1 e2 = false ->
    forall x, store_after (store_after st lg1 e1) lg2 e2 x
              = store_after (store_after st lg2 e2) lg1 e1 x.
Proof.
  intros e1 e2 lg1 lg2 st H x.
  destruct e1 as [m1 l1 | l1 | l1 | l1 f1]; simpl; auto.
  destruct e2 as [m2 l2 | l2 | l2 | l2 f2]; simpl in *; auto. unfold supd.
  destruct (N.eqb x l2) eqn:E0; destruct (N.eqb x l1) eqn:E1; auto.
  apply N.eqb_eq in E0. apply N.eqb_eq in E1. subst. rewrite N.eqb_refl in H.
  discriminate.
Qed.

(* ---------------------------------------------------------------------- *)
(** * The commutation lemma                                                *)
(* ---------------------------------------------------------------------- *)
(** Two adjacent steps of different threads can be swapped, and lead to the
    same configuration, unless the first is a release and the second an
    acquisition.  (Conflicting data accesses cannot be adjacent at all: the
    locks forbid it, by [no_data_conflict].) *)
Lemma swap_steps : forall c u eu c1 t et c2,
    dinv c -> u <> t ->
    dstep c u eu c1 -> dstep c1 t et c2 ->
    is_rel eu && is_acq et = false ->
    exists c1' c2', dstep c t et c1' /\ dstep c1' u eu c2' /\ ceq c2' c2.
Proof.
  intros c u eu c1 t et c2 Hinv Hne Hs1 Hs2 Hnc.
  inversion Hs1 as [st thr u' eu' ru hu lgu Hnu Hgu]; subst.
  inversion Hs2 as [st1 thr1 t' et' rt ht lgt Hnt Hgt]; subst.
  rewrite nth_error_upd_neq in Hnt by exact Hne.
  assert (Hdc : data_conflict eu et = false).
  { eapply no_data_conflict with (c := mkC st thr); simpl; eassumption. }
  assert (Hdc' : data_conflict et eu = false).
  { rewrite data_conflict_sym. exact Hdc. }
  exists (mkC (store_after st lgt et)
              (upd thr t (mkD rt (held_after ht et) (log_after lgt et st)))).
  exists (mkC (store_after (store_after st lgt et) lgu eu)
              (upd (upd thr t (mkD rt (held_after ht et) (log_after lgt et st))) u
                   (mkD ru (held_after hu eu)
                        (log_after lgu eu (store_after st lgt et))))).
  split; [|split].
  - constructor; [exact Hnt|].
    exact (guard_before thr u ru hu lgu eu (log_after lgu eu st) et Hnu Hnc Hgt).
  - constructor.
    + rewrite nth_error_upd_neq by congruence. exact Hnu.
    + exact (guard_after thr u ru hu lgu eu (log_after lgu eu st) t rt ht lgt et _
                         Hne Hnu Hnt Hgu Hgt).
  - split; simpl.
    + rewrite (log_after_indep eu et lgu lgt st Hdc).
      rewrite (log_after_indep et eu lgt lgu st Hdc').
      apply upd_comm. congruence.
    + intros x. apply store_after_comm. exact Hdc'.
Qed.

(* ---------------------------------------------------------------------- *)
(** * Moving one thread's steps to the front of a schedule                 *)
(* ---------------------------------------------------------------------- *)
Definition tid_is (T : nat) (lab : label) : bool := Nat.eqb (fst lab) T.
Definition fT (T : nat) (s : list label) : list label := filter (tid_is T) s.
Definition fN (T : nat) (s : list label) : list label :=
  filter (fun lab => negb (tid_is T lab)) s.

Lemma hop_right : forall T sT u eu rst c c',
    (forall lab, In lab sT -> fst lab = T) -> u <> T ->
    (is_rel eu = true -> forall lab, In lab sT -> is_acq (snd lab) = false) ->
    dinv c -> run c ((u, eu) :: sT ++ rst) c' ->
    exists c'', run c (sT ++ (u, eu) :: rst) c'' /\ ceq c'' c'.
Proof.
  intros T sT. induction sT as [|[t et] sT IH]; intros u eu rst c c' HT Hne Hcond Hinv Hrun.
  - exists c'. split; [exact Hrun | apply ceq_refl].
  - assert (Et : t = T) by (apply (HT (t, et)); left; reflexivity). subst t.
    simpl in Hrun.
    inversion Hrun as [|c0 u0 eu0 c1 s0 c0' Hs1 Hr1]; subst.
    inversion Hr1 as [|c0 t0 et0 c2 s0 c0' Hs2 Hr2]; subst.
    assert (Hnc : is_rel eu && is_acq et = false).
    { destruct (is_rel eu) eqn:Er; simpl; auto.
      apply (Hcond eq_refl (T, et)). left. reflexivity. }
    destruct (swap_steps c u eu c1 T et c2 Hinv Hne Hs1 Hs2 Hnc)
      as [c1' [c2' [Hs1' [Hs2' Heq2]]]].
    destruct (run_ceq c2 (sT ++ rst) c' Hr2 c2' (ceq_sym _ _ Heq2)) as [c'2 [Hr2' Heq']].
    assert (Hinv1 : dinv c1') by (eapply dinv_step; eassumption).
    destruct (IH u eu rst c1' c'2) as [c'' [Hr'' Heq'']]; auto.
    + intros lab Hin. apply HT. right. exact Hin.
    + intros Hrel lab Hin. apply (Hcond Hrel). right. exact Hin.
    + econstructor; eassumption.
    + exists c''. split.
      * simpl. econstructor; eassumption.
      * eapply ceq_trans; [exact Heq''|]. apply ceq_sym. exact Heq'.
Qed.

(** [cond T s] : no release of another thread precedes an acquisition of T *)
Fixpoint cond (T : nat) (s : list label) : Prop :=
  match s with
  | [] => True
  | (t, e) :: s' =>
      (t <> T -> is_rel e = true ->
       forall lab, In lab s' -> fst lab = T -> is_acq (snd lab) = false)
      /\ cond T s'
  end.

Lemma fT_fN_cons_eq : forall T e s,
    fT T ((T, e) :: s) = (T, e) :: fT T s /\ fN T ((T, e) :: s) = fN T s.
Proof.
  intros T e s. unfold fT, fN, tid_is. simpl. rewrite Nat.eqb_refl. simpl. auto.
Qed.

Lemma fT_fN_cons_neq : forall T t e s,
    t <> T ->
    fT T ((t, e) :: s) = fT T s /\ fN T ((t, e) :: s) = (t, e) :: fN T s.
Proof.
  intros T t e s H. unfold fT, fN, tid_is. simpl.
  apply Nat.eqb_neq in H. rewrite H. simpl. auto.
Qed.

Lemma move_front : forall T s c c',
    dinv c -> run c s c' -> cond T s ->
    exists c'', run c (fT T s ++ fN T s) c'' /\ ceq c'' c'.
Proof.
  intros T s. induction s as [|[t e] s IH]; intros c c' Hinv Hrun Hcond.
  - exists c'. split; [exact Hrun | apply ceq_refl].
  - inversion Hrun as [|c0 t0 e0 c1 s0 c0' Hs1 Hr1]; subst.
    destruct Hcond as [Hc1 Hc2].
    assert (Hinv1 : dinv c1) by (eapply dinv_step; eassumption).
    destruct (IH c1 c' Hinv1 Hr1 Hc2) as [c1'' [Hr1' Heq1]].
    destruct (Nat.eq_dec t T) as [E|E].
    + subst t. destruct (fT_fN_cons_eq T e s) as [E1 E2].
      exists c1''. split; [|exact Heq1]. rewrite E1, E2. simpl.
      econstructor; eassumption.
    + destruct (fT_fN_cons_neq T t e s E) as [E1 E2].
      destruct (hop_right T (fT T s) t e (fN T s) c c1'') as [c'' [Hr'' Heq'']]; auto.
      * intros lab Hin. apply filter_In in Hin. destruct Hin as [_ Hin].
        apply Nat.eqb_eq. exact Hin.
      * intros Hrel lab Hin. apply filter_In in Hin. destruct Hin as [Hin HT].
        apply (Hc1 E Hrel lab Hin). apply Nat.eqb_eq. exact HT.
      * econstructor; eassumption.
      * exists c''. split; [rewrite E1, E2; exact Hr''|]. eapply ceq_trans; eassumption.
Qed.

(* ---------------------------------------------------------------------- *)
(** * Projections of a schedule onto one thread                            *)
(* ---------------------------------------------------------------------- *)
Lemma fT_app : forall T s1 s2, fT T (s1 ++ s2) = fT T s1 ++ fT T s2.
Proof. intros T s1 s2. unfold fT. apply filter_app. Qed.

Lemma fT_all : forall T s, (forall lab, In lab s -> fst lab = T) -> fT T s = s.
Proof.
  intros T s. induction s as [|[t e] s IH]; intros H; [reflexivity|].
  assert (E : t = T) by (apply (H (t, e)); left; reflexivity). subst t.
  destruct (fT_fN_cons_eq T e s) as [E1 _]. rewrite E1. f_equal. apply IH.
  intros lab Hin. apply H. right. exact Hin.
Qed.

Lemma fT_none : forall T s, (forall lab, In lab s -> fst lab <> T) -> fT T s = [].
Proof.
  intros T s. induction s as [|[t e] s IH]; intros H; [reflexivity|].
  assert (E : t <> T) by (apply (H (t, e)); left; reflexivity).
  destruct (fT_fN_cons_neq T t e s E) as [E1 _]. rewrite E1. apply IH.
  intros lab Hin. apply H. right. exact Hin.
Qed.

Lemma fT_in : forall T s lab, In lab (fT T s) <-> In lab s /\ fst lab = T.
Proof.
  intros T s lab. unfold fT. rewrite filter_In. unfold tid_is.
  rewrite Nat.eqb_eq. tauto.
Qed.

Lemma fN_in : forall T s lab, In lab (fN T s) <-> In lab s /\ fst lab <> T.
Proof.
  intros T s lab. unfold fN. rewrite filter_In. unfold tid_is.
  rewrite negb_true_iff, Nat.eqb_neq. tauto.
Qed.

Lemma fT_fT : forall T s, fT T (fT T s) = fT T s.
Proof. intros T s. apply fT_all. intros lab Hin. apply fT_in in Hin. tauto. Qed.

Lemma fT_fN : forall T s, fT T (fN T s) = [].
Proof. intros T s. apply fT_none. intros lab Hin. apply fN_in in Hin. tauto. Qed.

Lemma fT_fN_length : forall T s, length (fT T s) + length (fN T s) = length s.
Proof.
  intros T s. induction s as [|[t e] s IH]; [reflexivity|].
  destruct (Nat.eq_dec t T) as [E|E].
  - subst t. destruct (fT_fN_cons_eq T e s) as [E1 E2]. rewrite E1, E2. simpl. lia.
  - destruct (fT_fN_cons_neq T t e s E) as [E1 E2]. rewrite E1, E2. simpl. lia.
Qed.

(** the events of T in a schedule are a prefix of T's remaining trace *)
Lemma run_proj : forall c s c',
    run c s c' ->
    forall T th, nth_error (cthreads c) T = Some th ->
    exists th', nth_error (cthreads c') T = Some th' /\
                drest th = map snd (fT T s) ++ drest th'.
Proof.
  intros c s c' H. induction H as [c | c t e c1 s c' Hs Hr IH]; intros T th Hn.
  - exists th. split; [exact Hn | reflexivity].
  - destruct Hs as [st thr t e r h lg Hnth Hg]. simpl in Hn, IH.
    destruct (Nat.eq_dec t T) as [E|E].
    + subst t. rewrite Hnth in Hn. inversion Hn; subst th. clear Hn.
      destruct (IH T _ (nth_error_upd_eq _ _ _ Hnth)) as [th' [Hn' Hr']].
      exists th'. split; [exact Hn'|].
      destruct (fT_fN_cons_eq T e s) as [E1 _]. rewrite E1. simpl. simpl in Hr'.
      rewrite Hr'. reflexivity.
    + destruct (IH T th) as [th' [Hn' Hr']].
      { rewrite nth_error_upd_neq by exact E. exact Hn. }
      exists th'. split; [exact Hn'|].
      destruct (fT_fN_cons_neq T t e s E) as [E1 _]. rewrite E1. exact Hr'.
Qed.

(** a thread that does not occur in the schedule is untouched *)
Lemma run_frame : forall c s c',
    run c s c' ->
    forall T, fT T s = [] -> nth_error (cthreads c') T = nth_error (cthreads c) T.
Proof.
  intros c s c' H. induction H as [c | c t e c1 s c' Hs Hr IH]; intros T HT; auto.
  destruct (Nat.eq_dec t T) as [E|E].
  - subst t. destruct (fT_fN_cons_eq T e s) as [E1 _]. rewrite E1 in HT. discriminate.
  - destruct (fT_fN_cons_neq T t e s E) as [E1 _]. rewrite E1 in HT.
    rewrite (IH T HT). destruct Hs as [st thr t e r h lg Hnth Hg]. simpl.
    apply nth_error_upd_neq. exact E.
Qed.

Lemma run_length : forall c s c',
    run c s c' -> length (cthreads c') = length (cthreads c).
Proof.
  intros c s c' H. induction H as [c | c t e c1 s c' Hs Hr IH]; auto.
  rewrite IH. destruct Hs as [st thr t e r h lg Hnth Hg]. simpl. apply upd_length.
Qed.

(* ---------------------------------------------------------------------- *)
(** * Running one transaction alone : functional semantics                 *)
(* ---------------------------------------------------------------------- *)
Fixpoint exec_txn (t : list dev) (st : store) (lg : list N) : store * list N :=
  match t with
  | [] => (st, lg)
  | e :: t' => exec_txn t' (store_after st lg e) (log_after lg e st)
  end.

Lemma exec_txn_ext : forall t st st' lg,
    (forall l, st l = st' l) ->
    (forall l, fst (exec_txn t st lg) l = fst (exec_txn t st' lg) l) /\
    snd (exec_txn t st lg) = snd (exec_txn t st' lg).
Proof.
  intros t. induction t as [|e t IH]; intros st st' lg H; simpl.
  - auto.
  - rewrite (log_after_ext st st' lg e H). apply IH. apply store_after_ext. exact H.
Qed.

(** a sequence of steps of T only is exactly [exec_txn] *)
Lemma solo_run : forall sT c c1 T,
    run c sT c1 -> (forall lab, In lab sT -> fst lab = T) ->
    forall th, nth_error (cthreads c) T = Some th ->
    cstore c1 = fst (exec_txn (map snd sT) (cstore c) (dlog th)) /\
    (exists th1, nth_error (cthreads c1) T = Some th1 /\
                 dlog th1 = snd (exec_txn (map snd sT) (cstore c) (dlog th))) /\
    (forall k, k <> T -> nth_error (cthreads c1) k = nth_error (cthreads c) k).
Proof.
  intros sT. induction sT as [|[t e] sT IH]; intros c c1 T Hrun HT th Hn.
  - inversion Hrun; subst. simpl. split; [reflexivity|]. split; [|auto].
    exists th. auto.
  - assert (E : t = T) by (apply (HT (t, e)); left; reflexivity). subst t.
    inversion Hrun as [|c0 t0 e0 c2 s0 c0' Hs Hr]; subst.
    inversion Hs as [st thr t0 e0 r h lg Hnth Hg]; subst. simpl in *.
    rewrite Hnth in Hn. inversion Hn; subst th. clear Hn. simpl.
    destruct (IH _ c1 T Hr) with (th := mkD r (held_after h e) (log_after lg e st))
      as [H1 [H2 H3]].
    + intros lab Hin. apply HT. right. exact Hin.
    + simpl. eapply nth_error_upd_eq. eassumption.
    + simpl in *. split; [exact H1|]. split; [exact H2|].
      intros k Hk. rewrite (H3 k Hk). apply nth_error_upd_neq. congruence.
Qed.

(* ---------------------------------------------------------------------- *)
(** * Choosing the thread to move : the first one to release               *)
(* ---------------------------------------------------------------------- *)
Lemma first_rel : forall s : list label,
    (forall lab, In lab s -> is_rel (snd lab) = false) \/
    exists s1 T l s2, s = s1 ++ (T, DRel l) :: s2 /\
                      forall lab, In lab s1 -> is_rel (snd lab) = false.
Proof.
  intros s. induction s as [|[t e] s IH].
  - left. intros lab [].
  - destruct (is_rel e) eqn:Er.
    + right. destruct e as [m l | l | l | l f]; try discriminate. exists [], t, l, s. split; [reflexivity|].
      intros lab [].
    + destruct IH as [IH | [s1 [T [l [s2 [Hs Hno]]]]]].
      * left. intros lab [<-|Hin]; auto.
      * right. exists ((t, e) :: s1), T, l, s2. split; [simpl; congruence|].
        intros lab [<-|Hin]; auto.
Qed.

Lemma cond_norel_prefix : forall T s1 s2,
    (forall lab, In lab s1 -> is_rel (snd lab) = false) -> cond T s2 -> cond T (s1 ++ s2).
Proof.
  intros T s1 s2. induction s1 as [|[t e] s1 IH]; intros Hno Hc; simpl; auto.
  split.
  - intros _ Hrel. pose proof (Hno (t, e) (or_introl eq_refl)) as Hn. simpl in Hn.
    congruence.
  - apply IH; auto. intros lab Hin. apply Hno. right. exact Hin.
Qed.

Lemma cond_noacq : forall T s,
    (forall lab, In lab s -> fst lab = T -> is_acq (snd lab) = false) -> cond T s.
Proof.
  intros T s. induction s as [|[t e] s IH]; intros H; simpl; auto.
  split.
  - intros _ _ lab Hin. apply H. right. exact Hin.
  - apply IH. intros lab Hin. apply H. right. exact Hin.
Qed.

Lemma choose_T : forall c s c',
    dinv c -> run c s c' -> s <> [] -> exists T, cond T s /\ fT T s <> [].
Proof.
  intros c s c' Hinv Hrun Hne.
  destruct (first_rel s) as [Hno | [s1 [T [l [s2 [Hs Hno]]]]]].
  - destruct s as [|[t e] s]; [congruence|]. exists t. split.
    + rewrite <- (app_nil_r ((t, e) :: s)). apply cond_norel_prefix; simpl; auto.
    + destruct (fT_fN_cons_eq t e s) as [E1 _]. rewrite E1. discriminate.
  - exists T. subst s.
    assert (Hnoacq : forall lab, In lab s2 -> fst lab = T -> is_acq (snd lab) = false).
    { destruct (run_split _ _ _ _ Hrun) as [ca [Hra Hrb]].
      assert (Hinva : dinv ca) by (eapply dinv_run; eassumption).
      inversion Hrb as [|c0 t0 e0 cb s0 c0' Hs Hr]; subst.
      inversion Hs as [st thr t0 e0 r h lg Hnth Hg]; subst.
      destruct Hinva as [Hok _]. simpl in Hok.
      destruct (Hok _ (nth_error_In _ _ Hnth)) as [_ [Htp _]]. simpl in Htp.
      destruct (run_proj _ _ _ Hr T _ (nth_error_upd_eq _ _ _ Hnth)) as [th' [_ Hpre]].
      simpl in Hpre.
      intros lab Hin HT. apply (no_acq_in r); [exact Htp|].
      rewrite Hpre. apply in_or_app. left. apply in_map. apply fT_in. auto. }
    split.
    + apply cond_norel_prefix; [exact Hno|]. simpl. split; [congruence|].
      apply cond_noacq. exact Hnoacq.
    + rewrite fT_app. destruct (fT_fN_cons_eq T (DRel l) s2) as [E1 _]. rewrite E1.
      intros E. apply app_eq_nil in E. destruct E as [_ E]. discriminate.
Qed.

(* ---------------------------------------------------------------------- *)
(** * Serial executions                                                    *)
(* ---------------------------------------------------------------------- *)
Definition dummy : dthread := mkD [] [] [].

(** run the threads listed in [order] one after the other, each to
    completion; returns the final store and every thread's final log *)
Fixpoint serial_c (thr : list dthread) (order : list nat) (st : store)
  : store * list (nat * list N) :=
  match order with
  | [] => (st, [])
  | t :: o =>
      let th := nth t thr dummy in
      let r := exec_txn (drest th) st (dlog th) in
      let r2 := serial_c thr o (fst r) in
      (fst r2, (t, snd r) :: snd r2)
  end.

(** the user-facing version on the transactions themselves *)
Fixpoint serial (ts : list (list dev)) (order : list nat) (st : store)
  : store * list (nat * list N) :=
  match order with
  | [] => (st, [])
  | t :: o =>
      let r := exec_txn (nth t ts []) st [] in
      let r2 := serial ts o (fst r) in
      (fst r2, (t, snd r) :: snd r2)
  end.

Lemma serial_c_init : forall ts order st,
    serial_c (map (fun t => mkD t [] []) ts) order st = serial ts order st.
Proof.
  intros ts order. induction order as [|t o IH]; intros st; simpl; auto.
  change dummy with ((fun t => mkD t [] []) []). rewrite map_nth. simpl.
  rewrite IH. reflexivity.
Qed.

Lemma serial_keys : forall ts order st, map fst (snd (serial ts order st)) = order.
Proof.
  intros ts order. induction order as [|t o IH]; intros st; simpl; auto.
  rewrite IH. reflexivity.
Qed.

Lemma nth_of_nth_error_eq : forall (thr thr' : list dthread) t,
    nth_error thr t = nth_error thr' t -> nth t thr dummy = nth t thr' dummy.
Proof.
  intros thr thr' t H. destruct (nth_error thr t) as [th|] eqn:E.
  - rewrite (nth_error_nth _ _ _ E). symmetry in H. rewrite (nth_error_nth _ _ _ H).
    reflexivity.
  - symmetry in H. apply nth_error_None in E. apply nth_error_None in H.
    rewrite !nth_overflow; auto.
Qed.

Lemma serial_c_agree : forall thr thr' order st,
    (forall t, In t order -> nth_error thr t = nth_error thr' t) ->
    serial_c thr order st = serial_c thr' order st.
Proof.
  intros thr thr' order. induction order as [|t o IH]; intros st H; simpl; auto.
  rewrite (nth_of_nth_error_eq thr thr' t (H t (or_introl eq_refl))).
  rewrite IH; auto. intros k Hk. apply H. right. exact Hk.
Qed.

Lemma serial_c_finished : forall thr order st,
    (forall th, In th thr -> drest th = []) ->
    fst (serial_c thr order st) = st /\
    snd (serial_c thr order st) = map (fun t => (t, dlog (nth t thr dummy))) order.
Proof.
  intros thr order. induction order as [|t o IH]; intros st H; simpl; auto.
  assert (Hd : drest (nth t thr dummy) = []).
  { destruct (nth_in_or_default t thr dummy) as [Hin|Hd]; [auto|]. rewrite Hd. reflexivity. }
  rewrite Hd. simpl. destruct (IH st H) as [H1 H2]. rewrite H1, H2. auto.
Qed.

(* ---------------------------------------------------------------------- *)
(** * The serialization argument                                           *)
(* ---------------------------------------------------------------------- *)
Lemma serial_gen : forall n s c c' pending,
    length s <= n -> dinv c -> run c s c' -> d_all_finished c' ->
    NoDup pending ->
    (forall t th, nth_error (cthreads c) t = Some th -> ~ In t pending -> drest th = []) ->
    exists order,
      Permutation order pending /\
      (forall l, cstore c' l = fst (serial_c (cthreads c) order (cstore c)) l) /\
      (forall t th', In t order -> nth_error (cthreads c') t = Some th' ->
                     In (t, dlog th') (snd (serial_c (cthreads c) order (cstore c)))).
Proof.
  intros n. induction n as [|n IHn]; intros s c c' pending Hlen Hinv Hrun Hfin Hnd Hpend.
  - (* empty schedule *)
    destruct s; [|simpl in Hlen; lia]. inversion Hrun; subst.
    exists pending. split; [apply Permutation_refl|].
    destruct (serial_c_finished (cthreads c') pending (cstore c') Hfin) as [H1 H2].
    rewrite H1, H2. split; [reflexivity|].
    intros t th' Hin Hn. apply in_map_iff. exists t. split; [|exact Hin].
    rewrite (nth_error_nth _ _ _ Hn). reflexivity.
  - destruct s as [|lab0 s0] eqn:Es.
    { apply (IHn [] c c' pending); auto. simpl. lia. }
    rewrite <- Es in *. assert (Hsne : s <> []) by (rewrite Es; discriminate).
    clear Es lab0 s0.
    destruct (choose_T c s c' Hinv Hrun Hsne) as [T [Hcond HfT]].
    destruct (move_front T s c c' Hinv Hrun Hcond) as [c'' [Hrun' [Hthr Hst]]].
    destruct (run_split _ _ _ _ Hrun') as [c1 [Hr1 Hr2]].
    (* T's thread in c *)
    assert (HTlab : forall lab, In lab (fT T s) -> fst lab = T).
    { intros lab Hin. apply fT_in in Hin. tauto. }
    assert (HthT : exists thT, nth_error (cthreads c) T = Some thT /\ drest thT <> []).
    { destruct (fT T s) as [|[t0 e0] sT'] eqn:EfT; [congruence|].
      assert (t0 = T) by (apply (HTlab (t0, e0)); left; reflexivity). subst t0.
      inversion Hr1 as [|c0 t0 e1 c2 s0 c0' Hs Hr]; subst.
      inversion Hs as [st thr t0 e1 r h lg Hnth Hg]; subst. simpl.
      eexists. split; [exact Hnth | simpl; discriminate]. }
    destruct HthT as [thT [HnT HunfT]].
    assert (HTpend : In T pending).
    { destruct (in_dec Nat.eq_dec T pending) as [Hin|Hnin]; auto.
      exfalso. apply HunfT. eapply Hpend; eassumption. }
    assert (Hfin'' : d_all_finished c'').
    { intros th Hin. apply Hfin. rewrite <- Hthr. exact Hin. }
    (* T is finished in c1 and its whole trace is fT T s *)
    assert (Hframe : nth_error (cthreads c'') T = nth_error (cthreads c1) T).
    { apply (run_frame _ _ _ Hr2). apply fT_fN. }
    destruct (run_proj _ _ _ Hr1 T thT HnT) as [th1 [Hn1 Hpre1]].
    assert (Hdone1 : drest th1 = []).
    { apply Hfin''. rewrite <- Hframe in Hn1. eapply nth_error_In; eassumption. }
    rewrite Hdone1, app_nil_r, fT_fT in Hpre1.
    destruct (solo_run (fT T s) c c1 T Hr1 HTlab thT HnT) as [Hst1 [[th1' [Hn1' Hlog1]] Hoth]].
    rewrite Hn1 in Hn1'. inversion Hn1'; subst th1'. clear Hn1'.
    rewrite <- Hpre1 in Hst1, Hlog1.
    (* remove T from pending *)
    destruct (in_split _ _ HTpend) as [p1 [p2 Hp]]. subst pending.
    assert (Hnd' : NoDup (p1 ++ p2)) by (eapply NoDup_remove_1; eassumption).
    assert (HTnot : ~ In T (p1 ++ p2)) by (eapply NoDup_remove_2; eassumption).
    assert (Hinv1 : dinv c1) by (eapply dinv_run; eassumption).
    assert (Hlen2 : length (fN T s) <= n).
    { pose proof (fT_fN_length T s) as HL. destruct (fT T s); [congruence|]. simpl in HL. lia. }
    destruct (IHn (fN T s) c1 c'' (p1 ++ p2) Hlen2 Hinv1 Hr2 Hfin'' Hnd') as [order' [Hperm [Hstore Hlogs]]].
    { intros t th Hn Hnin. destruct (Nat.eq_dec t T) as [E|E].
      - subst t. rewrite Hn1 in Hn. inversion Hn; subst th. exact Hdone1.
      - rewrite (Hoth t E) in Hn. apply (Hpend t th Hn).
        intros Hin. apply Hnin. apply in_app_or in Hin. apply in_or_app.
        destruct Hin as [Hin|[Hin|Hin]]; auto. congruence. }
    assert (HTnot' : ~ In T order').
    { intros Hin. apply HTnot. eapply Permutation_in; eassumption. }
    assert (Hagree : forall x, serial_c (cthreads c1) order' x = serial_c (cthreads c) order' x).
    { intros x. apply serial_c_agree. intros t Hin. apply Hoth. congruence. }
    exists (T :: order'). split; [apply Permutation_cons_app; exact Hperm|].
    simpl. rewrite (nth_error_nth _ _ _ HnT). rewrite <- Hst1. rewrite <- Hagree.
    split.
    + intros l. rewrite <- Hst. apply Hstore.
    + intros t th' [Ht|Ht] Hn.
      * subst t. left. rewrite <- Hthr, Hframe, Hn1 in Hn. inversion Hn; subst th'.
        rewrite Hlog1. reflexivity.
      * right. apply Hlogs; auto. rewrite Hthr. exact Hn.
Qed.

(* ---------------------------------------------------------------------- *)
(** * Main theorem : two-phase locking gives serializability               *)
(* ---------------------------------------------------------------------- *)
Theorem two_phase_serializable : forall (ts : list (list dev)) (st0 : store),
    Forall (fun t => two_phase t = true /\ well_locked t = true /\ dbalanced t = true) ts ->
    forall c, dreachable (dinit ts st0) c -> d_all_finished c ->
    exists order : list nat,
      Permutation order (seq 0 (length ts)) /\
      (* same final store as the serial execution in that order *)
      (forall l, cstore c l = fst (serial ts order st0) l) /\
      (* every thread has read exactly what it reads in the serial execution *)
      (forall t th, nth_error (cthreads c) t = Some th ->
                    In (t, dlog th) (snd (serial ts order st0))).
Proof.
  intros ts st0 Hall c Hreach Hfin.
  destruct (dreachable_run _ _ Hreach) as [s Hrun].
  destruct (serial_gen (length s) s (dinit ts st0) c (seq 0 (length ts)))
    as [order [Hperm [Hstore Hlogs]]]; auto.
  - apply dinv_init. exact Hall.
  - apply seq_NoDup.
  - intros t th Hn Hnin. exfalso. apply Hnin. apply in_seq.
    assert (Hlt : t < length (cthreads (dinit ts st0))) by (apply nth_error_Some; congruence).
    simpl in Hlt. rewrite map_length in Hlt. lia.
  - simpl in Hstore, Hlogs. rewrite serial_c_init in Hstore, Hlogs.
    exists order. split; [exact Hperm|]. split; [exact Hstore|].
    intros t th Hn. apply Hlogs; [|exact Hn].
    apply Permutation_in with (l := seq 0 (length ts)); [apply Permutation_sym; exact Hperm|].
    apply in_seq. assert (Hlt : t < length (cthreads c)) by (apply nth_error_Some; congruence).
    rewrite (run_length _ _ _ Hrun) in Hlt. simpl in Hlt. rewrite map_length in Hlt. lia.
Qed.

Print Assumptions two_phase_serializable.

(* ---------------------------------------------------------------------- *)
(** * Bail-out                                                             *)
(* ---------------------------------------------------------------------- *)
(** A transaction that bails out after the prefix [p] (a timed try-lock
    failed) drops all its guards: it behaves as the transaction [bail p].
    [bail p] again satisfies the three criteria, so the main theorem covers
    executions with bail-outs; and if [p] contains no write, it has no
    effect on the store at all. *)
Definition is_write (e : dev) : bool := match e with DWrite _ _ => true | _ => false end.
Definition no_write (t : list dev) : bool := forallb (fun e => negb (is_write e)) t.

Fixpoint held_run (h : hlist) (p : list dev) : hlist :=
  match p with [] => h | e :: p' => held_run (held_after h e) p' end.

Definition release_all (h : hlist) : list dev := map (fun x => DRel (fst x)) h.

Definition bail (p : list dev) : list dev := p ++ release_all (held_run [] p).

Lemma exec_txn_no_write : forall t st lg,
    no_write t = true -> fst (exec_txn t st lg) = st.
Proof.
  intros t. induction t as [|e t IH]; intros st lg H; simpl in *; auto.
  apply andb_true_iff in H. destruct H as [H1 H2].
  rewrite IH by exact H2. destruct e; simpl in *; auto. discriminate.
Qed.

(** operationally: an execution segment without writes leaves the store unchanged *)
Lemma run_no_write : forall c s c',
    run c s c' -> (forall lab, In lab s -> is_write (snd lab) = false) ->
    cstore c' = cstore c.
Proof.
  intros c s c' H. induction H as [c | c t e c1 s c' Hs Hr IH]; intros Hno; auto.
  rewrite IH by (intros lab Hin; apply Hno; right; exact Hin).
  pose proof (Hno (t, e) (or_introl eq_refl)) as He. simpl in He.
  destruct Hs as [st thr t e r h lg Hnth Hg]. simpl. destruct e; simpl in *; auto. discriminate.
Qed.

Lemma no_acq_app : forall a b, no_acq (a ++ b) = no_acq a && no_acq b.
Proof.
  intros a. induction a as [|e a IH]; intros b; simpl; auto. rewrite IH. apply andb_assoc.
Qed.

Lemma no_acq_release_all : forall h, no_acq (release_all h) = true.
Proof. intros h. induction h as [|[l m] h IH]; simpl; auto. Qed.

Lemma no_write_release_all : forall h, no_write (release_all h) = true.
Proof. intros h. induction h as [|[l m] h IH]; simpl; auto. Qed.

Lemma wl_release_all : forall h' h, wl_from h (release_all h') = true.
Proof. intros h'. induction h' as [|[l m] h' IH]; intros h; simpl; auto. Qed.

Lemma dbal_release_all : forall h, dbal_from h (release_all h) = true.
Proof.
  intros h. induction h as [|[l m] h IH]; simpl; auto.
  rewrite N.eqb_refl. simpl. exact IH.
Qed.

Lemma two_phase_bail : forall p q h',
    two_phase (p ++ q) = true -> two_phase (p ++ release_all h') = true.
Proof.
  intros p. induction p as [|e p IH]; intros q h' H.
  - simpl. apply no_acq_two_phase. apply no_acq_release_all.
  - destruct e; simpl in *; try (eapply IH; eassumption).
    rewrite no_acq_app in *. apply andb_true_iff in H. destruct H as [H _].
    rewrite H. apply no_acq_release_all.
Qed.

Lemma wl_bail : forall p q h h',
    wl_from h (p ++ q) = true -> wl_from h (p ++ release_all h') = true.
Proof.
  intros p. induction p as [|e p IH]; intros q h h' H.
  - simpl. apply wl_release_all.
  - destruct e; simpl in *; try (eapply IH; eassumption);
      apply andb_true_iff in H; destruct H as [H1 H2]; rewrite H1; simpl;
      eapply IH; eassumption.
Qed.

Lemma dbal_bail : forall p q h,
    dbal_from h (p ++ q) = true ->
    dbal_from h (p ++ release_all (held_run h p)) = true.
Proof.
  intros p. induction p as [|e p IH]; intros q h H.
  - simpl. apply dbal_release_all.
  - destruct e; simpl in *; try (eapply IH; eassumption).
    apply andb_true_iff in H. destruct H as [H1 H2]. rewrite H1. simpl.
    eapply IH; eassumption.
Qed.

Theorem bail_ok : forall p q,
    two_phase (p ++ q) = true /\ well_locked (p ++ q) = true /\ dbalanced (p ++ q) = true ->
    two_phase (bail p) = true /\ well_locked (bail p) = true /\ dbalanced (bail p) = true.
Proof.
  intros p q [H1 [H2 H3]]. unfold bail, well_locked, dbalanced in *. split; [|split].
  - eapply two_phase_bail; eassumption.
  - eapply wl_bail; eassumption.
  - eapply dbal_bail; eassumption.
Qed.

Theorem bail_before_write_no_effect : forall p st lg,
    no_write p = true -> fst (exec_txn (bail p) st lg) = st.
Proof.
  intros p st lg H. apply exec_txn_no_write. unfold bail, no_write in *.
  rewrite forallb_app. rewrite H. apply no_write_release_all.
Qed.

Print Assumptions bail_ok.
Print Assumptions bail_before_write_no_effect.

(* ---------------------------------------------------------------------- *)
(** * Executable stepping (to exhibit concrete executions)                 *)
(* ---------------------------------------------------------------------- *)
Definition d_can_acqb (thr : list dthread) (m : mode) (l : lock) : bool :=
  match m with
  | Rd => negb (existsb (fun th => h_wr (dheld th) l) thr)
  | Wr => negb (existsb (fun th => h_any (dheld th) l) thr)
  end.

Lemma d_can_acqb_sound : forall thr m l, d_can_acqb thr m l = true -> d_can_acq thr m l.
Proof.
  intros thr m l H. destruct m; simpl in *; apply negb_true_iff in H.
  - intros [th [Hin Hw]].
    assert (existsb (fun th => h_wr (dheld th) l) thr = true).
    { apply existsb_exists. exists th. split; auto. apply h_wr_spec. exact Hw. }
    congruence.
  - intros m' [th [Hin Hw]].
    assert (existsb (fun th => h_any (dheld th) l) thr = true).
    { apply existsb_exists. exists th. split; auto. apply h_any_spec. eauto. }
    congruence.
Qed.

Definition guardb (thr : list dthread) (e : dev) : bool :=
  match e with DAcq m l => d_can_acqb thr m l | _ => true end.

Definition d_try_step (c : dconfig) (t : nat) : option dconfig :=
  match nth_error (cthreads c) t with
  | Some (mkD (e :: r) h lg) =>
      if guardb (cthreads c) e
      then Some (mkC (store_after (cstore c) lg e)
                     (upd (cthreads c) t (mkD r (held_after h e) (log_after lg e (cstore c)))))
      else None
  | _ => None
  end.

Lemma d_try_step_sound : forall c t c', d_try_step c t = Some c' -> dstep_any c c'.
Proof.
  intros [st thr] t c' H. unfold d_try_step in H. simpl in H.
  destruct (nth_error thr t) as [[[|e r] h lg]|] eqn:En; try discriminate.
  destruct (guardb thr e) eqn:Eg; [|discriminate]. inversion H; subst.
  exists t, e. constructor; [exact En|].
  destruct e; simpl in *; auto. apply d_can_acqb_sound. exact Eg.
Qed.

Fixpoint d_try_run (c : dconfig) (sch : list nat) : option dconfig :=
  match sch with
  | [] => Some c
  | t :: sch' => match d_try_step c t with Some c1 => d_try_run c1 sch' | None => None end
  end.

Lemma d_try_run_sound : forall sch c c', d_try_run c sch = Some c' -> dreachable c c'.
Proof.
  intros sch. induction sch as [|t sch IH]; intros c c' H; simpl in H.
  - inversion H. apply star_refl.
  - destruct (d_try_step c t) as [c1|] eqn:E; [|discriminate].
    apply star_step with (y := c1); [eapply d_try_step_sound; exact E | apply IH; exact H].
Qed.

Definition d_all_finishedb (c : dconfig) : bool :=
  forallb (fun th => match drest th with [] => true | _ => false end) (cthreads c).

Lemma d_all_finishedb_sound : forall c, d_all_finishedb c = true -> d_all_finished c.
Proof.
  intros c H th Hin. unfold d_all_finishedb in H. rewrite forallb_forall in H.
  specialize (H th Hin). destruct (drest th); [reflexivity | discriminate].
Qed.

(* ---------------------------------------------------------------------- *)
(** * Examples                                                             *)
(* ---------------------------------------------------------------------- *)
Local Open Scope N_scope.

Definition incr_from_log : list N -> N := fun lg => last lg 0 + 1.

(** read object 1 under a read lock, read-modify-write object 2 under its
    write lock, release at the end: two-phase *)
Definition good_txn : list dev :=
  [DAcq Rd 1; DRead 1; DAcq Wr 2; DRead 2; DWrite 2 incr_from_log; DRel 2; DRel 1].

Example good_txn_accepted :
  two_phase good_txn && well_locked good_txn && dbalanced good_txn = true.
Proof. vm_compute. reflexivity. Qed.

(** releases the read lock before taking the write lock: not two-phase *)
Definition early_release_txn (a b : lock) : list dev :=
  [DAcq Rd a; DRead a; DRel a; DAcq Wr b; DWrite b incr_from_log; DRel b].

Example early_release_rejected : two_phase (early_release_txn 1 2) = false.
Proof. vm_compute. reflexivity. Qed.

Example early_release_otherwise_fine :
  well_locked (early_release_txn 1 2) && dbalanced (early_release_txn 1 2) = true.
Proof. vm_compute. reflexivity. Qed.

(** write under a read lock / read without any lock: not well-locked *)
Example write_under_read_rejected :
  well_locked [DAcq Rd 1; DWrite 1 incr_from_log; DRel 1] = false.
Proof. vm_compute. reflexivity. Qed.

Example read_after_release_rejected :
  well_locked [DAcq Rd 1; DRel 1; DRead 1] = false.
Proof. vm_compute. reflexivity. Qed.

Example criteria_long :
  let t := flat_map (fun i => [DAcq Wr (N.of_nat i); DRead (N.of_nat i);
                               DWrite (N.of_nat i) incr_from_log]) (seq 0 100)
           ++ map (fun i => DRel (N.of_nat i)) (seq 0 100) in
  two_phase t && well_locked t && dbalanced t = true.
Proof. vm_compute. reflexivity. Qed.

(** the hypotheses of the theorem are satisfiable and complete executions
    exist: two good transactions, interleaved, both finish; object 2 was
    incremented twice *)
Example good_txns_interleaved :
  exists c, dreachable (dinit [good_txn; good_txn] (fun _ => 0)) c /\
            d_all_finished c /\ cstore c 2 = 2.
Proof.
  destruct (d_try_run (dinit [good_txn; good_txn] (fun _ => 0))
              [0; 1; 0; 1; 0; 0; 0; 0; 0; 1; 1; 1; 1; 1]%nat) as [c|] eqn:E;
    [|vm_compute in E; discriminate].
  exists c. split; [eapply d_try_run_sound; exact E|].
  assert (Hc : d_all_finishedb c = true /\ cstore c 2 = 2).
  { revert E. vm_compute. intros E. inversion E. split; reflexivity. }
  destruct Hc as [H1 H2]. split; [apply d_all_finishedb_sound; exact H1 | exact H2].
Qed.

(** the two-phase hypothesis cannot be dropped: the two early-releasing
    transactions (each reads one object and writes the other) have a
    complete execution whose outcome is produced by NO serial order *)
Example early_release_not_serializable :
  let ts := [early_release_txn 1 2; early_release_txn 2 1] in
  let st0 : store := fun _ => 0 in
  exists c, dreachable (dinit ts st0) c /\ d_all_finished c /\
            forall order, Permutation order (seq 0 (length ts)) ->
                          ~ (forall l, cstore c l = fst (serial ts order st0) l).
Proof.
  intros ts st0.
  destruct (d_try_run (dinit ts st0) [0; 0; 0; 1; 1; 1; 0; 0; 0; 1; 1; 1]%nat)
    as [c|] eqn:E; [|vm_compute in E; discriminate].
  exists c. split; [eapply d_try_run_sound; exact E|].
  assert (Hc : d_all_finishedb c = true /\ cstore c 1 = 1 /\ cstore c 2 = 1).
  { revert E. vm_compute. intros E. inversion E. repeat split; reflexivity. }
  destruct Hc as [H0 [H1 H2]]. split; [apply d_all_finishedb_sound; exact H0|].
  intros order Hperm Hser. simpl in Hperm. apply Permutation_sym in Hperm.
  apply Permutation_length_2_inv in Hperm. destruct Hperm as [Ho|Ho]; subst order.
  - specialize (Hser 1). rewrite H1 in Hser. vm_compute in Hser. discriminate.
  - specialize (Hser 2). rewrite H2 in Hser. vm_compute in Hser. discriminate.
Qed.
