(* ====================================================================== *)
(*  Conc/FootprintPath.v : Element::path() — the class with a known        *)
(*  finding.  The walk over the ancestors holds the element's own read     *)
(*  lock and takes BLOCKING reads of the ancestors (Element::parent()      *)
(*  inside path_unchecked): the order criterion fails EXACTLY in the       *)
(*  states in which there is an ancestor to visit.                          *)
(* ====================================================================== *)
From Coq Require Import List NArith Bool Arith Lia.
From AV Require Import Tree.Heap Tree.Inv Conc.RwLock Conc.Deadlock Conc.Eval Conc.EvalProofs Conc.Footprint Conc.FootprintProofs.
Import ListNotations.
Open Scope N_scope.

Lemma order_br_top : forall rank m l body,
    order_from rank [] (br true m l body) = order_from rank [(l, m)] (body ++ [Rel l]).
Proof. intros. unfold br. reflexivity. Qed.

Lemma order_close : forall rank l m, order_from rank [(l, m)] [Rel l] = true.
Proof. intros. change (order_from rank [(l, m)] [Rel l]) with (order_from rank (remove_first l [(l, m)]) []). reflexivity. Qed.

Lemma order_block_fail : forall rank l0 m0 m l t r,
    rank l <= rank l0 -> order_from rank [(l0, m0)] (br true m l t ++ r) = false.
Proof.
  intros rank l0 m0 m l t r H. unfold br. cbn [app order_from forallb fst].
  assert (Hf : (rank l0 <? rank l) = false) by (apply N.ltb_ge; exact H).
  rewrite Hf. reflexivity.
Qed.

Section Path.
  Variable cf : cfg.
  Variable w : world.
  Variable rank : lock -> N.
  Hypothesis HC : Core w.
  Hypothesis Hm : mono w rank.

  Lemma held_e_bound : forall e pp, In pp [(Le e, Rd)] -> rank (fst pp) < rank (Le e) + 1.
  Proof. intros e pp [<-|[]]. simpl. lia. Qed.

  Theorem footprint_path_order : forall fuel e,
      order_ok rank (lock_trace cf (S fuel) (LPath e) w) = false <->
      exists n p q, w_nodes w e = Some n /\ identifiable cf w n = true /\ n_parent n = PElem p /\ w_nodes w p = Some q.
  Proof.
    intros fuel e. unfold order_ok. cbv beta iota delta [lock_trace]. rewrite order_br_top.
    destruct (w_nodes w e) as [n|] eqn:En.
    2:{ cbn [app]. rewrite order_close. split; [discriminate | intros [n [p [q [H _]]]]; discriminate]. }
    rewrite <- app_assoc.
    rewrite (is_ident_OrdN cf w rank HC Hm e n En _ _ (held_e_bound e)).
    destruct (identifiable cf w n) eqn:Ei.
    - rewrite <- app_assoc.
      rewrite (item_name_OrdA cf rank n (rank (Le e) + 1) _ _ (held_e_bound e)).
      destruct (n_parent n) as [|m|p] eqn:Ep.
      + cbn [app]. rewrite order_close. split; [discriminate|].
        intros [n' [p [q [H [_ [H2 _]]]]]]. inversion H; subst. congruence.
      + cbn [app]. rewrite order_close. split; [discriminate|].
        intros [n' [p [q [H [_ [H2 _]]]]]]. inversion H; subst. congruence.
      + rewrite up_path_S. destruct (w_nodes w p) as [q|] eqn:Eq.
        * split; [intros _; exists n, p, q; auto|]. intros _.
          rewrite <- !app_assoc.
          rewrite (OrdA_try rank Rd (Le p) _ (item_name_OrdA cf rank q) (rank (Le e) + 1) _ _ (held_e_bound e)).
          apply order_block_fail.
          assert (Hlt : rank (Le p) < rank (Le e)) by (eapply Hm; eassumption). lia.
        * cbn [app]. rewrite order_close. split; [discriminate|].
          intros [n' [p' [q [H [_ [H2 H3]]]]]]. inversion H; subst. rewrite Ep in H2. inversion H2; subst. congruence.
    - rewrite (xml_path_OrdA cf w rank (S fuel) n (rank (Le e) + 1) _ _ (held_e_bound e)).
      rewrite order_close. split; [discriminate|].
      intros [n' [p [q [H [H1 _]]]]]. inversion H; subst. congruence.
  Qed.

  (** ... and a call of path() on such an element together with a writer that walks down from the parent is a deadlock
      of the model: the two-thread instance of the recorded finding C15-upward-blocking *)
End Path.

(** The consequence, on the example world of Footprint.v (AUTOSAR 0 > AR-PACKAGES 1 > AR-PACKAGE 2 > SHORT-NAME 3, x 4):
    path() of the identifiable element 2 (footprint function) against a writer that walks down from its parent
    (write lock of 1, then of 2: the shape of sort / remove_sub_element) reaches a stuck configuration. *)
Theorem path_vs_downward_writer_deadlock :
  exists c,
    reachable (init [ lock_trace (cfg_flag 9 100) 10 (LPath 2) ex_world;
                      [Acq true Wr (Le 1); Acq true Wr (Le 2); Rel (Le 2); Rel (Le 1)] ]) c /\ stuck c.
Proof. apply (Conc.EvalProofs.find_stuck_sound 12). vm_compute. reflexivity. Qed.

Print Assumptions footprint_path_order.
Print Assumptions path_vs_downward_writer_deadlock.
