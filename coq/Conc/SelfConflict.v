(* ====================================================================== *)
(*  Conc/SelfConflict.v : the single-threaded corollary                    *)
(*                                                                          *)
(*  [self_ok t] : the trace never asks for a lock that the SAME thread      *)
(*  already holds in a conflicting mode.  Run alone, such a trace           *)
(*  completes using successful acquisitions only; a trace violating it      *)
(*  reaches an acquisition that can never succeed (a blocking one hangs,    *)
(*  a try one must fail = spurious lock-conflict error).                    *)
(* ====================================================================== *)
From Coq Require Import List NArith Bool Arith Lia.
From AV Require Import Conc.RwLock.
Import ListNotations.

(* ---------------------------------------------------------------------- *)
(** * The criterion                                                        *)
(* ---------------------------------------------------------------------- *)
Fixpoint self_from (h : hlist) (t : trace) : bool :=
  match t with
  | [] => true
  | Acq _ m l :: t' => negb (h_conflict h m l) && self_from ((l, m) :: h) t'
  | Rel l :: t' => self_from (remove_first l h) t'
  end.

(** No acquisition (blocking or try) of a lock the thread itself holds in a
    conflicting mode: Wr requested while holding anything on l, or anything
    requested while holding Wr on l. *)
Definition self_ok (t : trace) : bool := self_from [] t.

(* ---------------------------------------------------------------------- *)
(** * One-thread configurations                                            *)
(* ---------------------------------------------------------------------- *)
Definition solo (r : trace) (h : hlist) : config := [mkThread r h].

Lemma solo_can_acq : forall r h m l,
    can_acq (solo r h) m l <-> h_conflict h m l = false.
Proof.
  intros r h m l. unfold solo. destruct m; simpl; split.
  - intros H. destruct (h_wr h l) eqn:E; auto. exfalso. apply H.
    exists (mkThread r h). split; [left; reflexivity|]. simpl. apply h_wr_spec. exact E.
  - intros H [th [[Hin|[]] Hw]]. subst th. simpl in Hw.
    apply h_wr_spec in Hw. congruence.
  - intros H. destruct (h_any h l) eqn:E; auto. exfalso. apply H.
    apply h_any_spec in E. destruct E as [m E].
    exists (mkThread r h), m. split; [left; reflexivity|]. exact E.
  - intros H [th [m [[Hin|[]] Hw]]]. subst th. simpl in Hw.
    assert (h_any h l = true) by (apply h_any_spec; eauto). congruence.
Qed.

Lemma solo_step_acq : forall b m l r h,
    h_conflict h m l = false ->
    sstep (solo (Acq b m l :: r) h) (solo r ((l, m) :: h)).
Proof.
  intros b m l r h H. exists 0.
  change (solo r ((l, m) :: h))
    with (upd (solo (Acq b m l :: r) h) 0 (mkThread r ((l, m) :: h))).
  econstructor; [reflexivity|]. constructor. apply solo_can_acq. exact H.
Qed.

Lemma solo_step_rel : forall l r h,
    sstep (solo (Rel l :: r) h) (solo r (remove_first l h)).
Proof.
  intros l r h. exists 0.
  change (solo r (remove_first l h))
    with (upd (solo (Rel l :: r) h) 0 (mkThread r (remove_first l h))).
  econstructor; [reflexivity|]. constructor.
Qed.

(** steps of a one-thread configuration, inverted *)
Lemma solo_lstep_inv : forall r h t o c',
    lstep (solo r h) t o c' ->
    t = 0 /\
    ((exists b m l r', r = Acq b m l :: r' /\ o = Ok /\
                       h_conflict h m l = false /\ c' = solo r' ((l, m) :: h)) \/
     (exists l r', r = Rel l :: r' /\ o = Ok /\ c' = solo r' (remove_first l h)) \/
     (exists m l r', r = Acq false m l :: r' /\ o = Fail /\ c' = solo [] [])).
Proof.
  intros r h t o c' H. inversion H as [c0 t0 o0 th th' Hnth Hts]; subst.
  unfold solo in Hnth. destruct t as [|t]; simpl in Hnth.
  - inversion Hnth; subst th. split; [reflexivity|].
    inversion Hts as [b m l r0 h0 Hcan | l r0 h0 | m l r0 h0]; subst; simpl.
    + left. exists b, m, l, r0. repeat split; auto.
      apply (solo_can_acq (Acq b m l :: r0) h). exact Hcan.
    + right. left. exists l, r0. auto.
    + right. right. exists m, l, r0. auto.
  - destruct t; discriminate.
Qed.

(* ---------------------------------------------------------------------- *)
(** * self_ok traces run to completion without any failing try             *)
(* ---------------------------------------------------------------------- *)
Lemma self_run_gen : forall r h,
    self_from h r = true -> bal_from h r = true ->
    sreachable (solo r h) (solo [] []).
Proof.
  intros r. induction r as [|[b m l | l] r IH]; intros h Hs Hb; simpl in *.
  - apply bal_finished_holds_nothing in Hb. subst h. apply star_refl.
  - apply andb_true_iff in Hs. destruct Hs as [Hc Hs]. apply negb_true_iff in Hc.
    apply star_step with (y := solo r ((l, m) :: h)).
    + apply solo_step_acq. exact Hc.
    + apply IH; assumption.
  - apply andb_true_iff in Hb. destruct Hb as [_ Hb].
    apply star_step with (y := solo r (remove_first l h)).
    + apply solo_step_rel.
    + apply IH; assumption.
Qed.

Lemma self_inv_gen : forall c0 c,
    sreachable c0 c ->
    forall r h, c0 = solo r h -> self_from h r = true ->
    exists r' h', c = solo r' h' /\ self_from h' r' = true.
Proof.
  intros c0 c H. induction H as [x | x y z [t Hxy] Hyz IH]; intros r h Hx Hs.
  - eauto.
  - subst x. apply solo_lstep_inv in Hxy. destruct Hxy as [_ Hcases].
    destruct Hcases as [[b [m [l [r' [Hr [_ [_ Hy]]]]]]] | [[l [r' [Hr [_ Hy]]]] | [m [l [r' [_ [Ho _]]]]]]].
    + subst r. simpl in Hs. apply andb_true_iff in Hs. destruct Hs as [_ Hs].
      eapply IH; eassumption.
    + subst r. simpl in Hs. eapply IH; eassumption.
    + discriminate.
Qed.

Lemma solo_self_enabled : forall r h,
    self_from h r = true -> r <> [] -> strictly_enabled (solo r h) 0.
Proof.
  intros r h Hs Hne. destruct r as [|e r]; [congruence|].
  exists (mkThread (e :: r) h), e, r. repeat split.
  destruct e as [[|] [|] l | l]; simpl in *; auto.
  - apply andb_true_iff in Hs. destruct Hs as [Hc _]. apply negb_true_iff in Hc.
    split.
    + apply (solo_can_acq (Acq true Rd l :: r) h Rd l). exact Hc.
    + intros [[th [r' [[Hin|[]] Hr']]] _]. subst th. simpl in Hr'. discriminate.
  - apply andb_true_iff in Hs. destruct Hs as [Hc _]. apply negb_true_iff in Hc.
    apply (solo_can_acq (Acq true Wr l :: r) h Wr l). exact Hc.
Qed.

Theorem single_thread_runs : forall t,
    self_ok t = true -> balanced t = true ->
    (* there is an execution made of successful steps only that completes *)
    sreachable (init [t]) (init [[]]) /\
    (* and along successful steps nothing is ever stuck; more precisely
       the thread is finished or strictly enabled and can take a
       successful step *)
    forall c, sreachable (init [t]) c ->
              ~ stuck c /\ (c = init [[]] \/ exists c', sstep c c').
Proof.
  intros t Hs Hb. split.
  - apply (self_run_gen t [] Hs Hb).
  - intros c Hreach.
    destruct (self_inv_gen (init [t]) c Hreach t [] eq_refl Hs) as [r [h [Hc Hs']]].
    subst c. split.
    + intros [[th [[Hin|[]] Hunf]] Hnone]. subst th. simpl in Hunf.
      apply (Hnone 0). apply solo_self_enabled; assumption.
    + destruct r as [|[b m l | l] r].
      * left.
        assert (Hbal : thread_inv (fun h r => bal_from h r = true) (solo [] h)).
        { apply (@bal_inv_reachable [t] (solo [] h)).
          - constructor; auto.
          - apply sreachable_reachable. exact Hreach. }
        specialize (Hbal (mkThread [] h) (or_introl eq_refl)). simpl in Hbal.
        apply bal_finished_holds_nothing in Hbal. subst h. reflexivity.
      * right. simpl in Hs'. apply andb_true_iff in Hs'. destruct Hs' as [Hc _].
        apply negb_true_iff in Hc. eexists. apply solo_step_acq. exact Hc.
      * right. eexists. apply solo_step_rel.
Qed.

Print Assumptions single_thread_runs.

(* ---------------------------------------------------------------------- *)
(** * traces that are not self_ok hit an impossible acquisition            *)
(* ---------------------------------------------------------------------- *)
Lemma self_conflict_gen : forall r h,
    self_from h r = false ->
    exists b m l r' h',
      sreachable (solo r h) (solo (Acq b m l :: r') h') /\ h_conflict h' m l = true.
Proof.
  intros r. induction r as [|[b m l | l] r IH]; intros h Hs; simpl in Hs.
  - discriminate.
  - destruct (h_conflict h m l) eqn:Ec.
    + exists b, m, l, r, h. split; [apply star_refl | exact Ec].
    + simpl in Hs. destruct (IH _ Hs) as [b' [m' [l' [r' [h' [Hr Hc]]]]]].
      exists b', m', l', r', h'. split; auto.
      apply star_step with (y := solo r ((l, m) :: h)); auto.
      apply solo_step_acq. exact Ec.
  - destruct (IH _ Hs) as [b' [m' [l' [r' [h' [Hr Hc]]]]]].
    exists b', m', l', r', h'. split; auto.
    apply star_step with (y := solo r (remove_first l h)); auto.
    apply solo_step_rel.
Qed.

Theorem single_thread_conflict : forall t,
    self_ok t = false ->
    exists b m l r h,
      let c := [mkThread (Acq b m l :: r) h] in
      (* the successful-steps-only execution reaches an acquisition ... *)
      sreachable (init [t]) c /\
      (* ... that cannot succeed, *)
      ~ can_acq c m l /\
      (* so a blocking one hangs forever, *)
      (b = true -> stuck c /\ forall c', ~ step c c') /\
      (* and a try one can only fail: spurious lock-conflict error + bail-out *)
      (b = false -> forall t' o c', lstep c t' o c' -> o = Fail /\ c' = init [[]]).
Proof.
  intros t Hs. destruct (self_conflict_gen t [] Hs) as [b [m [l [r [h [Hr Hc]]]]]].
  exists b, m, l, r, h. simpl.
  assert (Hno : ~ can_acq (solo (Acq b m l :: r) h) m l).
  { intros H. apply solo_can_acq in H. congruence. }
  assert (Hsteps : forall t' o c', lstep (solo (Acq b m l :: r) h) t' o c' ->
                                  b = false /\ o = Fail /\ c' = init [[]]).
  { intros t' o c' Hst. apply solo_lstep_inv in Hst. destruct Hst as [_ Hcases].
    destruct Hcases as [[b0 [m0 [l0 [r0 [Hr0 [_ [Hc0 _]]]]]]] | [[l0 [r0 [Hr0 _]]] | [m0 [l0 [r0 [Hr0 [Ho Hc']]]]]]].
    - inversion Hr0; subst. congruence.
    - discriminate.
    - inversion Hr0; subst. auto. }
  split; [exact Hr|]. split; [exact Hno|]. split.
  - intros Hb. subst b. split; [split|].
    + exists (mkThread (Acq true m l :: r) h).
      split; [left; reflexivity | simpl; discriminate].
    + intros t' [th [e [r0 [Hnth [Hrest Hen]]]]].
      destruct t' as [|t']; simpl in Hnth; [|destruct t'; discriminate].
      inversion Hnth; subst th. simpl in Hrest. inversion Hrest; subst e r0.
      apply Hno. destruct m; simpl in *; tauto.
    + intros c' [t' [o Hst]]. apply Hsteps in Hst. destruct Hst as [Hb' _]. congruence.
  - intros Hb t' o c' Hst. apply Hsteps in Hst. tauto.
Qed.

Print Assumptions single_thread_conflict.

(* ---------------------------------------------------------------------- *)
(** * Examples                                                             *)
(* ---------------------------------------------------------------------- *)
Local Open Scope N_scope.

(** recursive READ is not a self conflict (it is caught by [order_ok]) *)
Example self_ok_recursive_read :
  self_ok [Acq true Rd 1; Acq true Rd 1; Rel 1; Rel 1] = true.
Proof. vm_compute. reflexivity. Qed.

Example self_ok_good :
  self_ok [Acq true Rd 1; Acq false Wr 2; Acq true Rd 1; Rel 1; Rel 2; Rel 1;
           Acq false Wr 1; Rel 1] = true.
Proof. vm_compute. reflexivity. Qed.

(** write while holding read (upgrade) *)
Example self_bad_upgrade :
  self_ok [Acq true Rd 1; Acq false Wr 1; Rel 1; Rel 1] = false.
Proof. vm_compute. reflexivity. Qed.

(** read while holding write *)
Example self_bad_read_under_write :
  self_ok [Acq true Wr 1; Acq true Rd 2; Acq false Rd 1; Rel 1; Rel 2; Rel 1] = false.
Proof. vm_compute. reflexivity. Qed.

(** after the release the lock may be taken again *)
Example self_ok_sequential :
  self_ok [Acq true Wr 1; Rel 1; Acq true Wr 1; Rel 1] = true.
Proof. vm_compute. reflexivity. Qed.

Example self_ok_long :
  self_ok (flat_map (fun _ => [Acq true Rd 1; Acq false Wr 2; Acq true Rd 3;
                               Rel 3; Rel 2; Rel 1]) (seq 0 100)) = true.
Proof. vm_compute. reflexivity. Qed.
