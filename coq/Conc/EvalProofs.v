(* ====================================================================== *)
(*  Conc/EvalProofs.v : what the evaluated functions of Eval.v mean         *)
(* ====================================================================== *)
From Coq Require Import List NArith Bool Arith Lia.
From AV Require Import Conc.RwLock Conc.Deadlock Conc.SelfConflict Conc.TwoPhase Conc.Eval.
Import ListNotations.

(** a successful deadlock replay exhibits a reachable stuck configuration *)
Theorem stuck_after_sound : forall ts sch,
    stuck_after ts sch = true -> exists c, reachable (init ts) c /\ stuck c.
Proof.
  intros ts sch H. unfold stuck_after in H.
  destruct (try_run (init ts) sch) as [c|] eqn:E; [|discriminate].
  exists c. split.
  - eapply try_run_sound. exact E.
  - apply stuckb_sound. exact H.
Qed.

Lemma find_stuck_sound_gen : forall fuel c,
    find_stuck fuel c = true -> exists c', reachable c c' /\ stuck c'.
Proof.
  intros fuel. induction fuel as [|f IH]; intros c H; simpl in H; [discriminate|].
  apply orb_true_iff in H. destruct H as [H|H].
  - exists c. split; [apply star_refl | apply stuckb_sound; exact H].
  - apply existsb_exists in H. destruct H as [t [_ Ht]].
    destruct (try_step c t Ok) as [c1|] eqn:E; [|discriminate].
    destruct (IH _ Ht) as [c' [Hr Hs]]. exists c'. split; [|exact Hs].
    apply star_step with (y := c1); [|exact Hr].
    exists t, Ok. apply try_step_sound. exact E.
Qed.

(** the bounded search only reports real deadlocks of the trace semantics *)
Theorem find_stuck_sound : forall fuel ts,
    find_stuck fuel (init ts) = true -> exists c, reachable (init ts) c /\ stuck c.
Proof. intros fuel ts H. apply find_stuck_sound_gen with (fuel := fuel). exact H. Qed.

(** hence a set of traces accepted by the order criterion has no deadlock
    replay and no search hit, whatever the rank table *)
Corollary order_ok_no_stuck_after : forall tbl ts sch,
    Forall (fun t => order_ok (rank_of tbl) t = true /\ balanced t = true) ts ->
    stuck_after ts sch = false.
Proof.
  intros tbl ts sch Hall. destruct (stuck_after ts sch) eqn:E; [|reflexivity].
  exfalso. destruct (stuck_after_sound _ _ E) as [c [Hr Hs]].
  exact (order_sound (rank_of tbl) ts Hall c Hr Hs).
Qed.

(** the data trace built from a balanced lock trace is well-locked by construction *)
Lemma wl_from_to_dev : forall t h, wl_from h (to_dev t) = true.
Proof.
  intros t. induction t as [|e t IH]; intros h; [reflexivity|].
  unfold to_dev in *. simpl. destruct e as [b [|] l | l]; simpl.
  - rewrite N.eqb_refl. simpl. apply IH.
  - rewrite N.eqb_refl. simpl. apply IH.
  - apply IH.
Qed.

Theorem to_dev_well_locked : forall t, well_locked (to_dev t) = true.
Proof. intros t. apply wl_from_to_dev. Qed.

Print Assumptions stuck_after_sound.
Print Assumptions find_stuck_sound.
Print Assumptions to_dev_well_locked.
