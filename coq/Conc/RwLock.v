(* ====================================================================== *)
(*  Conc/RwLock.v : small-step semantics of lock traces                    *)
(*                                                                          *)
(*  Every object carries a reader/writer lock.  A thread is the remaining   *)
(*  suffix of its recorded lock trace together with the list of locks it    *)
(*  currently holds (most recent first; the same lock may occur several     *)
(*  times in Rd mode = recursive read).  The step relation is LIBERAL       *)
(*  (no writer preference), so its reachable set over-approximates every    *)
(*  real RwLock; stuckness is judged with the PESSIMISTIC enabledness       *)
(*  [strictly_enabled] (writer preference: a queued writer blocks readers). *)
(* ====================================================================== *)
From Coq Require Import List NArith Bool Arith Lia.
Import ListNotations.

Set Implicit Arguments.

(* ---------------------------------------------------------------------- *)
(** * Generic list update                                                  *)
(* ---------------------------------------------------------------------- *)
Section Upd.
  Variable A : Type.

  Fixpoint upd (l : list A) (n : nat) (x : A) : list A :=
    match l, n with
    | [], _ => []
    | _ :: l', 0 => x :: l'
    | y :: l', S n' => y :: upd l' n' x
    end.

  Lemma upd_length : forall l n x, length (upd l n x) = length l.
  Proof.
    intros l. induction l as [|y l IH]; intros [|n] x; simpl; auto.
  Qed.

  Lemma nth_error_upd_eq : forall l n x y,
      nth_error l n = Some y -> nth_error (upd l n x) n = Some x.
  Proof.
    intros l. induction l as [|z l IH]; intros [|n] x y H; simpl in *; try discriminate; eauto.
  Qed.

  Lemma nth_error_upd_neq : forall l n k x,
      n <> k -> nth_error (upd l n x) k = nth_error l k.
  Proof.
    intros l. induction l as [|z l IH]; intros [|n] [|k] x H; simpl; auto.
    congruence.
  Qed.

  Lemma in_upd : forall l n x y, In y (upd l n x) -> y = x \/ In y l.
  Proof.
    intros l. induction l as [|z l IH]; intros [|n] x y H; simpl in *; auto.
    - destruct H as [H|H]; auto.
    - destruct H as [H|H]; auto. apply IH in H. tauto.
  Qed.

  Lemma in_upd_nth : forall l n x y,
      In y (upd l n x) -> y = x \/ exists k, k <> n /\ nth_error l k = Some y.
  Proof.
    intros l. induction l as [|z l IH]; intros [|n] x y H; simpl in *; try tauto.
    - destruct H as [H|H]; auto. right.
      apply In_nth_error in H. destruct H as [k Hk]. exists (S k). split; auto.
    - destruct H as [H|H].
      + right. exists 0. split; auto. simpl. congruence.
      + apply IH in H. destruct H as [H|[k [Hk1 Hk2]]]; auto.
        right. exists (S k). split; auto.
  Qed.

  Lemma upd_comm : forall l n k x y,
      n <> k -> upd (upd l n x) k y = upd (upd l k y) n x.
  Proof.
    intros l. induction l as [|z l IH]; intros [|n] [|k] x y H; simpl; auto.
    - congruence.
    - f_equal. apply IH. congruence.
  Qed.

  Lemma nth_error_in_upd : forall l n x y,
      nth_error l n = Some y -> In x (upd l n x).
  Proof.
    intros l. induction l as [|z l IH]; intros [|n] x y H; simpl in *; try discriminate; eauto.
  Qed.

  Lemma in_upd_other : forall l n k x y,
      k <> n -> nth_error l k = Some y -> In y (upd l n x).
  Proof.
    intros l n k x y Hne Hk.
    apply nth_error_In with (n := k). rewrite nth_error_upd_neq; auto.
  Qed.
End Upd.

(* ---------------------------------------------------------------------- *)
(** * Events and traces                                                    *)
(* ---------------------------------------------------------------------- *)
Definition lock := N.
Definition tid := nat.

Inductive mode := Rd | Wr.

Inductive ev :=
| Acq (blocking : bool) (m : mode) (l : lock)
    (* blocking = false : a (timed) try-acquisition *)
| Rel (l : lock).
    (* releases the most recent still-held acquisition of l by this thread *)

Definition trace := list ev.

Definition mode_eqb (a b : mode) : bool :=
  match a, b with Rd, Rd | Wr, Wr => true | _, _ => false end.

Lemma mode_eqb_eq : forall a b, mode_eqb a b = true <-> a = b.
Proof. intros [|] [|]; simpl; split; congruence. Qed.

(* ---------------------------------------------------------------------- *)
(** * Held lists                                                           *)
(* ---------------------------------------------------------------------- *)
Definition hlist := list (lock * mode).

Fixpoint remove_first (l : lock) (h : hlist) : hlist :=
  match h with
  | [] => []
  | (l', m) :: h' => if N.eqb l' l then h' else (l', m) :: remove_first l h'
  end.

Lemma in_remove_first : forall l h x, In x (remove_first l h) -> In x h.
Proof.
  intros l h. induction h as [|[l' m] h IH]; intros x H; simpl in *; auto.
  destruct (N.eqb l' l); simpl in *; auto.
  destruct H as [H|H]; auto.
Qed.

Lemma in_remove_first_other : forall l h l' m,
    l' <> l -> In (l', m) h -> In (l', m) (remove_first l h).
Proof.
  intros l h. induction h as [|[l0 m0] h IH]; intros l' m Hne H; simpl in *; auto.
  destruct (N.eqb l0 l) eqn:E.
  - apply N.eqb_eq in E. destruct H as [H|H]; auto. congruence.
  - destruct H as [H|H]; [left; auto | right; auto].
Qed.

(** [h_any h l] : the thread holds l in some mode;
    [h_wr h l]  : the thread holds l in Wr mode. *)
Definition h_any (h : hlist) (l : lock) : bool :=
  existsb (fun p => N.eqb (fst p) l) h.
Definition h_wr (h : hlist) (l : lock) : bool :=
  existsb (fun p => N.eqb (fst p) l && mode_eqb (snd p) Wr) h.

Lemma h_any_spec : forall h l, h_any h l = true <-> exists m, In (l, m) h.
Proof.
  intros h l. unfold h_any. rewrite existsb_exists. split.
  - intros [[l' m] [Hin Heq]]. simpl in Heq. apply N.eqb_eq in Heq. subst. eauto.
  - intros [m Hin]. exists (l, m). split; [assumption|]. simpl. apply N.eqb_refl.
Qed.

Lemma h_wr_spec : forall h l, h_wr h l = true <-> In (l, Wr) h.
Proof.
  intros h l. unfold h_wr. rewrite existsb_exists. split.
  - intros [[l' m] [Hin Heq]]. simpl in Heq. apply andb_true_iff in Heq.
    destruct Heq as [H1 H2]. apply N.eqb_eq in H1. apply mode_eqb_eq in H2. subst. auto.
  - intros Hin. exists (l, Wr). split; [assumption|]. simpl. rewrite N.eqb_refl. reflexivity.
Qed.

Lemma h_wr_any : forall h l, h_wr h l = true -> h_any h l = true.
Proof. intros h l H. apply h_any_spec. exists Wr. apply h_wr_spec. exact H. Qed.

(** the acquisition of l in mode m conflicts with what the SAME thread holds *)
Definition h_conflict (h : hlist) (m : mode) (l : lock) : bool :=
  match m with Rd => h_wr h l | Wr => h_any h l end.

(* ---------------------------------------------------------------------- *)
(** * Threads and configurations                                           *)
(* ---------------------------------------------------------------------- *)
Record thread := mkThread { rest : trace; held : hlist }.
Definition config := list thread.

Definition init (ts : list trace) : config := map (fun t => mkThread t []) ts.

Definition any_held (c : config) (l : lock) : Prop :=
  exists th m, In th c /\ In (l, m) (held th).
Definition wr_held (c : config) (l : lock) : Prop :=
  exists th, In th c /\ In (l, Wr) (held th).

Lemma wr_held_any_held : forall c l, wr_held c l -> any_held c l.
Proof. intros c l [th [H1 H2]]. exists th, Wr. auto. Qed.

(** Liberal guard of a successful acquisition.  The quantification includes
    the acquiring thread itself: Wr on a lock one holds (in any mode) and
    Rd on a lock one holds in Wr can never succeed (self-deadlock). *)
Definition can_acq (c : config) (m : mode) (l : lock) : Prop :=
  match m with
  | Rd => ~ wr_held c l
  | Wr => ~ any_held c l
  end.

Inductive outcome := Ok | Fail.

Inductive tstep (c : config) : thread -> outcome -> thread -> Prop :=
| ts_acq : forall b m l r h,
    can_acq c m l ->
    tstep c (mkThread (Acq b m l :: r) h) Ok (mkThread r ((l, m) :: h))
| ts_rel : forall l r h,
    tstep c (mkThread (Rel l :: r) h) Ok (mkThread r (remove_first l h))
| ts_fail : forall m l r h,
    (* a try-acquisition may time out at any moment: bail out, drop all guards *)
    tstep c (mkThread (Acq false m l :: r) h) Fail (mkThread [] []).

Inductive lstep : config -> tid -> outcome -> config -> Prop :=
| lstep_intro : forall c t o th th',
    nth_error c t = Some th -> tstep c th o th' -> lstep c t o (upd c t th').

Definition step (c c' : config) : Prop := exists t o, lstep c t o c'.
(** only successful acquisitions / releases *)
Definition sstep (c c' : config) : Prop := exists t, lstep c t Ok c'.

(** reflexive-transitive closure *)
Inductive star (A : Type) (R : A -> A -> Prop) : A -> A -> Prop :=
| star_refl : forall x, star R x x
| star_step : forall x y z, R x y -> star R y z -> star R x z.

Definition reachable : config -> config -> Prop := star step.
Definition sreachable : config -> config -> Prop := star sstep.

Lemma sstep_step : forall c c', sstep c c' -> step c c'.
Proof. intros c c' [t H]. exists t, Ok. exact H. Qed.

Lemma sreachable_reachable : forall c c', sreachable c c' -> reachable c c'.
Proof.
  intros c c' H. induction H as [|x y z Hxy Hyz IH].
  - apply star_refl.
  - apply star_step with (y := y); [apply sstep_step; exact Hxy | exact IH].
Qed.

Lemma reachable_trans : forall a b c, reachable a b -> reachable b c -> reachable a c.
Proof.
  intros a b c H1. revert c. induction H1 as [x|x y z Hxy Hyz IH]; intros c H2.
  - exact H2.
  - apply star_step with (y := y); [exact Hxy | apply IH; exact H2].
Qed.

(* ---------------------------------------------------------------------- *)
(** * Pessimistic enabledness and stuckness                                *)
(* ---------------------------------------------------------------------- *)

(** Some thread's next event is a blocking write acquisition of l.  (When we
    ask whether a thread whose next event is [Acq true Rd l] is enabled, that
    queued writer is automatically ANOTHER thread.) *)
Definition writer_queued (c : config) (l : lock) : Prop :=
  exists th r, In th c /\ rest th = Acq true Wr l :: r.

Definition ev_strictly_enabled (c : config) (e : ev) : Prop :=
  match e with
  | Rel _ => True
  | Acq false _ _ => True                   (* a try can always fail *)
  | Acq true Wr l => ~ any_held c l
  | Acq true Rd l => ~ wr_held c l /\ ~ (writer_queued c l /\ any_held c l)
  end.

Definition strictly_enabled (c : config) (t : tid) : Prop :=
  exists th e r, nth_error c t = Some th /\ rest th = e :: r /\ ev_strictly_enabled c e.

Definition stuck (c : config) : Prop :=
  (exists th, In th c /\ rest th <> []) /\ forall t, ~ strictly_enabled c t.

Definition all_finished (c : config) : Prop :=
  Forall (fun th => rest th = [] /\ held th = []) c.

(** Strict enabledness implies that the thread can really take a step. *)
Lemma strictly_enabled_step : forall c t,
    strictly_enabled c t -> exists o c', lstep c t o c'.
Proof.
  intros c t [th [e [r [Hnth [Hrest Hen]]]]].
  destruct th as [tr h]. simpl in Hrest. subst tr.
  destruct e as [[|] [|] l | l]; simpl in Hen.
  - exists Ok. eexists. econstructor; [eassumption|]. constructor. simpl. tauto.
  - exists Ok. eexists. econstructor; [eassumption|]. constructor. simpl. exact Hen.
  - exists Fail. eexists. econstructor; [eassumption|]. constructor.
  - exists Fail. eexists. econstructor; [eassumption|]. constructor.
  - exists Ok. eexists. econstructor; [eassumption|]. constructor.
Qed.

(* ---------------------------------------------------------------------- *)
(** * Well-formedness : balanced traces                                    *)
(* ---------------------------------------------------------------------- *)
Fixpoint bal_from (h : hlist) (t : trace) : bool :=
  match t with
  | [] => match h with [] => true | _ => false end
  | Acq _ m l :: t' => bal_from ((l, m) :: h) t'
  | Rel l :: t' => h_any h l && bal_from (remove_first l h) t'
  end.

(** every release matches a held acquisition, and at the end nothing is held *)
Definition balanced (t : trace) : bool := bal_from [] t.

(* ---------------------------------------------------------------------- *)
(** * Per-thread invariants are preserved by steps                         *)
(* ---------------------------------------------------------------------- *)
Definition thread_inv (P : hlist -> trace -> Prop) (c : config) : Prop :=
  forall th, In th c -> P (held th) (rest th).

Section ThreadInv.
  Variable P : hlist -> trace -> Prop.
  Hypothesis P_done : P [] [].
  Hypothesis P_acq : forall b m l r h, P h (Acq b m l :: r) -> P ((l, m) :: h) r.
  Hypothesis P_rel : forall l r h, P h (Rel l :: r) -> P (remove_first l h) r.

  Lemma thread_inv_lstep : forall c t o c',
      lstep c t o c' -> thread_inv P c -> thread_inv P c'.
  Proof.
    intros c t o c' Hstep Hinv. destruct Hstep as [c t o th th' Hnth Hts].
    intros x Hx. apply in_upd in Hx. destruct Hx as [Hx|Hx]; [subst x | auto].
    apply nth_error_In in Hnth. apply Hinv in Hnth.
    destruct Hts; simpl in *; auto.
    - eapply P_acq; eassumption.
  Qed.

  Lemma thread_inv_reachable : forall c c',
      reachable c c' -> thread_inv P c -> thread_inv P c'.
  Proof.
    intros c c' H. induction H as [|x y z [t [o Hxy]] Hyz IH]; auto.
    intros Hx. apply IH. eapply thread_inv_lstep; eassumption.
  Qed.

  Lemma thread_inv_init : forall ts,
      Forall (fun t => P [] t) ts -> thread_inv P (init ts).
  Proof.
    intros ts Hall th Hin. unfold init in Hin. apply in_map_iff in Hin.
    destruct Hin as [t [Heq Hin]]. subst th. simpl.
    rewrite Forall_forall in Hall. auto.
  Qed.
End ThreadInv.

Lemma bal_inv_reachable : forall ts c,
    Forall (fun t => balanced t = true) ts ->
    reachable (init ts) c ->
    thread_inv (fun h r => bal_from h r = true) c.
Proof.
  intros ts c Hall Hreach.
  eapply thread_inv_reachable with (P := fun h r => bal_from h r = true); try eassumption.
  - reflexivity.
  - intros b m l r h H. exact H.
  - intros l r h H. simpl in H. apply andb_true_iff in H. tauto.
  - apply thread_inv_init. exact Hall.
Qed.

Lemma bal_finished_holds_nothing : forall h, bal_from h [] = true -> h = [].
Proof. intros [|x h] H; simpl in H; congruence. Qed.

(* ---------------------------------------------------------------------- *)
(** * Boolean deciders (used for [vm_compute] examples and decidability)   *)
(* ---------------------------------------------------------------------- *)
Definition any_heldb (c : config) (l : lock) : bool :=
  existsb (fun th => h_any (held th) l) c.
Definition wr_heldb (c : config) (l : lock) : bool :=
  existsb (fun th => h_wr (held th) l) c.
Definition wants_wr (th : thread) (l : lock) : bool :=
  match rest th with Acq true Wr l' :: _ => N.eqb l' l | _ => false end.
Definition writer_queuedb (c : config) (l : lock) : bool :=
  existsb (fun th => wants_wr th l) c.

Lemma any_heldb_spec : forall c l, any_heldb c l = true <-> any_held c l.
Proof.
  intros c l. unfold any_heldb, any_held. rewrite existsb_exists. split.
  - intros [th [Hin H]]. apply h_any_spec in H. destruct H as [m H]. eauto.
  - intros [th [m [Hin H]]]. exists th. split; auto. apply h_any_spec. eauto.
Qed.

Lemma wr_heldb_spec : forall c l, wr_heldb c l = true <-> wr_held c l.
Proof.
  intros c l. unfold wr_heldb, wr_held. rewrite existsb_exists. split.
  - intros [th [Hin H]]. apply h_wr_spec in H. eauto.
  - intros [th [Hin H]]. exists th. split; auto. apply h_wr_spec. auto.
Qed.

Lemma wants_wr_spec : forall th l,
    wants_wr th l = true <-> exists r, rest th = Acq true Wr l :: r.
Proof.
  intros th l. unfold wants_wr. destruct (rest th) as [|[[|] [|] l' | l'] r]; split;
    try discriminate; try (intros [r' H]; discriminate).
  - intros H. apply N.eqb_eq in H. subst. eauto.
  - intros [r' H]. inversion H. apply N.eqb_refl.
Qed.

Lemma writer_queuedb_spec : forall c l, writer_queuedb c l = true <-> writer_queued c l.
Proof.
  intros c l. unfold writer_queuedb, writer_queued. rewrite existsb_exists. split.
  - intros [th [Hin H]]. apply wants_wr_spec in H. destruct H as [r H]. eauto.
  - intros [th [r [Hin H]]]. exists th. split; auto. apply wants_wr_spec. eauto.
Qed.

Lemma negb_iff : forall b (P : Prop), (b = true <-> P) -> (negb b = true <-> ~ P).
Proof.
  intros [|] P H; simpl; split; intros H1.
  - discriminate.
  - exfalso. apply H1. apply H. reflexivity.
  - intros HP. apply H in HP. discriminate.
  - reflexivity.
Qed.

Lemma andb_iff : forall a b (P Q : Prop),
    (a = true <-> P) -> (b = true <-> Q) -> (a && b = true <-> P /\ Q).
Proof. intros a b P Q H1 H2. rewrite andb_true_iff. tauto. Qed.

Definition can_acqb (c : config) (m : mode) (l : lock) : bool :=
  match m with Rd => negb (wr_heldb c l) | Wr => negb (any_heldb c l) end.

Lemma can_acqb_spec : forall c m l, can_acqb c m l = true <-> can_acq c m l.
Proof.
  intros c [|] l; simpl; apply negb_iff; [apply wr_heldb_spec | apply any_heldb_spec].
Qed.

Definition ev_seb (c : config) (e : ev) : bool :=
  match e with
  | Rel _ => true
  | Acq false _ _ => true
  | Acq true Wr l => negb (any_heldb c l)
  | Acq true Rd l => negb (wr_heldb c l) && negb (writer_queuedb c l && any_heldb c l)
  end.

Lemma ev_seb_spec : forall c e, ev_seb c e = true <-> ev_strictly_enabled c e.
Proof.
  intros c [[|] [|] l | l]; simpl; try tauto.
  - apply andb_iff.
    + apply negb_iff, wr_heldb_spec.
    + apply negb_iff, andb_iff; [apply writer_queuedb_spec | apply any_heldb_spec].
  - apply negb_iff, any_heldb_spec.
Qed.

Definition strictly_enabledb (c : config) (t : tid) : bool :=
  match nth_error c t with
  | Some th => match rest th with e :: _ => ev_seb c e | [] => false end
  | None => false
  end.

Lemma strictly_enabledb_spec : forall c t,
    strictly_enabledb c t = true <-> strictly_enabled c t.
Proof.
  intros c t. unfold strictly_enabledb, strictly_enabled. split.
  - destruct (nth_error c t) as [th|] eqn:E; [|discriminate].
    destruct (rest th) as [|e r] eqn:Er; [discriminate|].
    intros H. apply ev_seb_spec in H. exists th, e, r. auto.
  - intros [th [e [r [H1 [H2 H3]]]]]. rewrite H1, H2. apply ev_seb_spec. exact H3.
Qed.

Definition unfinishedb (th : thread) : bool :=
  match rest th with [] => false | _ => true end.

Lemma unfinishedb_spec : forall th, unfinishedb th = true <-> rest th <> [].
Proof.
  intros th. unfold unfinishedb. destruct (rest th); split; congruence.
Qed.

Definition stuckb (c : config) : bool :=
  existsb unfinishedb c &&
  forallb (fun t => negb (strictly_enabledb c t)) (seq 0 (length c)).

Lemma stuckb_sound : forall c, stuckb c = true -> stuck c.
Proof.
  intros c H. unfold stuckb in H. apply andb_true_iff in H. destruct H as [H1 H2].
  split.
  - apply existsb_exists in H1. destruct H1 as [th [Hin Hu]].
    exists th. split; auto. apply unfinishedb_spec. exact Hu.
  - intros t Hse. rewrite forallb_forall in H2.
    assert (Hlt : t < length c).
    { destruct Hse as [th [e [r [Hn _]]]]. apply nth_error_Some. congruence. }
    specialize (H2 t). rewrite in_seq in H2.
    assert (Hneg : negb (strictly_enabledb c t) = true) by (apply H2; lia).
    apply strictly_enabledb_spec in Hse. rewrite Hse in Hneg. discriminate.
Qed.

(** Either some thread is strictly enabled, or none is (constructively). *)
Lemma strictly_enabled_dec : forall c,
    (exists t, strictly_enabled c t) \/ (forall t, ~ strictly_enabled c t).
Proof.
  intros c.
  destruct (existsb (strictly_enabledb c) (seq 0 (length c))) eqn:E.
  - left. apply existsb_exists in E. destruct E as [t [_ H]].
    exists t. apply strictly_enabledb_spec. exact H.
  - right. intros t Hse.
    assert (Hlt : t < length c).
    { destruct Hse as [th [e [r [Hn _]]]]. apply nth_error_Some. congruence. }
    apply strictly_enabledb_spec in Hse.
    assert (Hex : existsb (strictly_enabledb c) (seq 0 (length c)) = true).
    { apply existsb_exists. exists t. split; auto. apply in_seq. lia. }
    congruence.
Qed.

(* ---------------------------------------------------------------------- *)
(** * Executable stepping (to exhibit concrete executions by computation)  *)
(* ---------------------------------------------------------------------- *)
Definition try_step (c : config) (t : tid) (o : outcome) : option config :=
  match nth_error c t with
  | None => None
  | Some th =>
      match rest th with
      | [] => None
      | Acq b m l :: r =>
          match o with
          | Ok => if can_acqb c m l
                  then Some (upd c t (mkThread r ((l, m) :: held th))) else None
          | Fail => if b then None else Some (upd c t (mkThread [] []))
          end
      | Rel l :: r =>
          match o with
          | Ok => Some (upd c t (mkThread r (remove_first l (held th))))
          | Fail => None
          end
      end
  end.

Lemma try_step_sound : forall c t o c', try_step c t o = Some c' -> lstep c t o c'.
Proof.
  intros c t o c' H. unfold try_step in H.
  destruct (nth_error c t) as [[tr h]|] eqn:En; [|discriminate]. simpl in H.
  destruct tr as [|[b m l | l] r]; [discriminate| |].
  - destruct o.
    + destruct (can_acqb c m l) eqn:Ec; [|discriminate]. inversion H; subst.
      econstructor; [eassumption|]. constructor. apply can_acqb_spec. exact Ec.
    + destruct b; [discriminate|]. inversion H; subst.
      econstructor; [eassumption|]. constructor.
  - destruct o; [|discriminate]. inversion H; subst.
    econstructor; [eassumption|]. constructor.
Qed.

Fixpoint try_run (c : config) (sch : list (tid * outcome)) : option config :=
  match sch with
  | [] => Some c
  | (t, o) :: sch' =>
      match try_step c t o with Some c1 => try_run c1 sch' | None => None end
  end.

Lemma try_run_sound : forall sch c c', try_run c sch = Some c' -> reachable c c'.
Proof.
  intros sch. induction sch as [|[t o] sch IH]; intros c c' H; simpl in H.
  - inversion H. apply star_refl.
  - destruct (try_step c t o) as [c1|] eqn:E; [|discriminate].
    apply star_step with (y := c1);
      [exists t, o; apply try_step_sound; exact E | apply IH; exact H].
Qed.

Lemma try_run_sound_ok : forall sch c c',
    Forall (fun p => snd p = Ok) sch -> try_run c sch = Some c' -> sreachable c c'.
Proof.
  intros sch. induction sch as [|[t o] sch IH]; intros c c' Hall H; simpl in H.
  - inversion H. apply star_refl.
  - destruct (try_step c t o) as [c1|] eqn:E; [|discriminate].
    inversion Hall as [|? ? Ho Hall']; subst. simpl in Ho. subst o.
    apply star_step with (y := c1);
      [exists t; apply try_step_sound; exact E | apply IH; assumption].
Qed.

(* ---------------------------------------------------------------------- *)
(** * Sanity of the model : mutual exclusion                               *)
(* ---------------------------------------------------------------------- *)
(** In every reachable configuration a lock held in Wr mode is held by
    nobody else, and exactly once by its owner. *)
Definition excl (c : config) : Prop :=
  forall t u tht thu l m,
    nth_error c t = Some tht -> nth_error c u = Some thu ->
    In (l, Wr) (held tht) -> In (l, m) (held thu) ->
    t = u /\ count_occ N.eq_dec (map (@fst lock mode) (held tht)) l = 1.

Lemma count_occ_remove_first_other : forall l l' h,
    l' <> l ->
    count_occ N.eq_dec (map (@fst lock mode) (remove_first l h)) l' = count_occ N.eq_dec (map (@fst lock mode) h) l'.
Proof.
  intros l l' h. induction h as [|[l0 m0] h IH]; intros Hne; simpl; auto.
  destruct (N.eqb l0 l) eqn:E.
  - apply N.eqb_eq in E. subst l0. destruct (N.eq_dec l l'); congruence.
  - simpl. destruct (N.eq_dec l0 l'); auto.
Qed.

Lemma count_occ_zero_not_held : forall h l,
    (forall m, ~ In (l, m) h) -> count_occ N.eq_dec (map (@fst lock mode) h) l = 0.
Proof.
  intros h. induction h as [|[l0 m0] h IH]; intros l H; simpl; auto.
  destruct (N.eq_dec l0 l) as [E|E].
  - subst. exfalso. apply (H m0). left. reflexivity.
  - apply IH. intros m Hin. apply (H m). right. exact Hin.
Qed.

Lemma excl_lstep : forall c t o c', lstep c t o c' -> excl c -> excl c'.
Proof.
  intros c t o c' Hstep Hex. destruct Hstep as [c t o th th' Hnth Hts].
  intros a b tha thb l m Ha Hb Hwa Hmb.
  destruct (Nat.eq_dec a t) as [Eat|Eat]; destruct (Nat.eq_dec b t) as [Ebt|Ebt].
  - (* both are the stepping thread *)
    subst a b. split; [reflexivity|].
    rewrite (nth_error_upd_eq _ _ _ Hnth) in Ha. inversion Ha; subst tha. clear Ha Hb.
    destruct Hts as [bk m0 l0 r h Hcan | l0 r h | m0 l0 r h]; simpl in *.
    + destruct Hwa as [Hwa|Hwa].
      * inversion Hwa; subst. simpl in Hcan.
        destruct (N.eq_dec l l); [|congruence]. f_equal.
        apply count_occ_zero_not_held. intros m' Hin. apply Hcan.
        exists (mkThread (Acq bk Wr l :: r) h), m'. split; auto.
        eapply nth_error_In; eassumption.
      * destruct (N.eq_dec l0 l) as [E|E].
        -- subst l0. exfalso. destruct m0; simpl in Hcan.
           ++ apply Hcan. exists (mkThread (Acq bk Rd l :: r) h). split; auto.
              eapply nth_error_In; eassumption.
           ++ apply Hcan. exists (mkThread (Acq bk Wr l :: r) h), Wr. split; auto.
              eapply nth_error_In; eassumption.
        -- destruct (Hex t t _ _ l Wr Hnth Hnth Hwa Hwa) as [_ Hc]. exact Hc.
    + assert (Hin : In (l, Wr) h) by (eapply in_remove_first; eassumption).
      destruct (Hex t t _ _ l Wr Hnth Hnth Hin Hin) as [_ Hc]. simpl in Hc.
      destruct (N.eq_dec l l0) as [E|E].
      * subst l0. exfalso.
        (* l occurs once in h, and it was removed *)
        clear - Hc Hwa. induction h as [|[l1 m1] h IH]; simpl in *; auto.
        destruct (N.eqb l1 l) eqn:E1.
        -- apply N.eqb_eq in E1. subst l1. destruct (N.eq_dec l l); [|congruence].
           inversion Hc as [Hc'].
           assert (Hpos : count_occ N.eq_dec (map (@fst lock mode) h) l > 0).
           { apply count_occ_In. apply in_map_iff. exists (l, Wr). auto. }
           lia.
        -- apply N.eqb_neq in E1. destruct (N.eq_dec l1 l); [congruence|].
           destruct Hwa as [Hwa|Hwa]; [inversion Hwa; congruence|]. auto.
      * rewrite count_occ_remove_first_other; auto.
    + contradiction.
  - (* a steps, b other *)
    subst a. exfalso.
    rewrite (nth_error_upd_eq _ _ _ Hnth) in Ha. inversion Ha; subst tha. clear Ha.
    rewrite nth_error_upd_neq in Hb by congruence.
    destruct Hts as [bk m0 l0 r h Hcan | l0 r h | m0 l0 r h]; simpl in *.
    + destruct Hwa as [Hwa|Hwa].
      * inversion Hwa; subst. simpl in Hcan. apply Hcan. exists thb, m. split; auto.
        eapply nth_error_In; eassumption.
      * destruct (Hex t b _ _ l m Hnth Hb Hwa Hmb) as [E _]. congruence.
    + apply in_remove_first in Hwa.
      destruct (Hex t b _ _ l m Hnth Hb Hwa Hmb) as [E _]. congruence.
    + contradiction.
  - (* b steps, a other *)
    subst b. exfalso.
    rewrite (nth_error_upd_eq _ _ _ Hnth) in Hb. inversion Hb; subst thb. clear Hb.
    rewrite nth_error_upd_neq in Ha by congruence.
    destruct Hts as [bk m0 l0 r h Hcan | l0 r h | m0 l0 r h]; simpl in *.
    + destruct Hmb as [Hmb|Hmb].
      * inversion Hmb; subst. destruct m; simpl in Hcan.
        -- apply Hcan. exists tha. split; auto. eapply nth_error_In; eassumption.
        -- apply Hcan. exists tha, Wr. split; auto. eapply nth_error_In; eassumption.
      * destruct (Hex a t _ _ l m Ha Hnth Hwa Hmb) as [E _]. congruence.
    + apply in_remove_first in Hmb.
      destruct (Hex a t _ _ l m Ha Hnth Hwa Hmb) as [E _]. congruence.
    + contradiction.
  - rewrite nth_error_upd_neq in Ha by congruence.
    rewrite nth_error_upd_neq in Hb by congruence.
    eapply Hex; eassumption.
Qed.

Theorem mutual_exclusion : forall ts c, reachable (init ts) c -> excl c.
Proof.
  intros ts c H.
  assert (Hgen : forall c0 c1, reachable c0 c1 -> excl c0 -> excl c1).
  { intros c0 c1 Hr. induction Hr as [|x y z [t [o Hxy]] Hyz IH]; auto.
    intros Hx. apply IH. eapply excl_lstep; eassumption. }
  apply (Hgen _ _ H).
  intros t u tht thu l m Ht Hu Hw Hm.
  apply nth_error_In in Ht. unfold init in Ht. apply in_map_iff in Ht.
  destruct Ht as [tr [Heq _]]. subst tht. simpl in Hw. contradiction.
Qed.

Print Assumptions mutual_exclusion.
