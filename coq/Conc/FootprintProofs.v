(* ====================================================================== *)
(*  Conc/FootprintProofs.v : the criteria hold for the footprint functions *)
(*  of Conc/Footprint.v in ALL worlds (balanced, self_ok: any world;        *)
(*  order_ok: any world satisfying Core, any rank that grows along parent   *)
(*  links), and their composition with the soundness theorems.              *)
(* ====================================================================== *)
From Coq Require Import List NArith Bool Arith Lia.
From AV Require Import Tree.Heap Tree.Inv Conc.RwLock Conc.Deadlock Conc.SelfConflict Conc.TwoPhase Conc.Eval
  Conc.EvalProofs Conc.Footprint.
Import ListNotations.
Open Scope N_scope.

(* ---------------------------------------------------------------------- *)
(** * Neutral traces: they give back every lock they take                  *)
(* ---------------------------------------------------------------------- *)
Definition BalN (t : trace) : Prop := forall h r, bal_from h (t ++ r) = bal_from h r.
Definition no_wr (h : hlist) : Prop := forall p, In p h -> snd p = Rd.
Definition SelfN (t : trace) : Prop := forall h r, no_wr h -> self_from h (t ++ r) = self_from h r.
Definition SelfE (t : trace) : Prop := forall r, self_from [] (t ++ r) = self_from [] r.
Definition OrdN (rank : lock -> N) (lb : N) (t : trace) : Prop :=
  forall h r, (forall p, In p h -> rank (fst p) < lb) -> order_from rank h (t ++ r) = order_from rank h r.
Definition OrdA (rank : lock -> N) (t : trace) : Prop := forall lb, OrdN rank lb t.
Definition OrdE (rank : lock -> N) (t : trace) : Prop :=
  forall r, order_from rank [] (t ++ r) = order_from rank [] r.

Lemma remove_first_head : forall l m h, remove_first l ((l, m) :: h) = h.
Proof. intros l m h. simpl. rewrite N.eqb_refl. reflexivity. Qed.

Lemma BalN_nil : BalN []. Proof. intros h r. reflexivity. Qed.
Lemma BalN_app : forall a b, BalN a -> BalN b -> BalN (a ++ b).
Proof. intros a b Ha Hb h r. rewrite <- app_assoc. rewrite Ha. apply Hb. Qed.
Lemma BalN_br : forall b m l t, BalN t -> BalN (br b m l t).
Proof.
  intros b m l t Ht h r. unfold br. simpl. rewrite <- app_assoc. rewrite Ht. simpl.
  rewrite N.eqb_refl. simpl. reflexivity.
Qed.

Lemma SelfN_nil : SelfN []. Proof. intros h r _. reflexivity. Qed.
Lemma SelfN_app : forall a b, SelfN a -> SelfN b -> SelfN (a ++ b).
Proof. intros a b Ha Hb h r Hh. rewrite <- app_assoc. rewrite Ha by exact Hh. apply Hb. exact Hh. Qed.

Lemma no_wr_h_wr : forall h l, no_wr h -> h_wr h l = false.
Proof.
  intros h l Hh. destruct (h_wr h l) eqn:E; [|reflexivity].
  apply h_wr_spec in E. apply Hh in E. simpl in E. discriminate.
Qed.

Lemma SelfN_br : forall b l t, SelfN t -> SelfN (br b Rd l t).
Proof.
  intros b l t Ht h r Hh. unfold br. simpl. rewrite (no_wr_h_wr h l Hh). simpl.
  rewrite <- app_assoc. rewrite Ht.
  - simpl. rewrite N.eqb_refl. reflexivity.
  - intros p [<-|Hp]; [reflexivity | apply Hh; exact Hp].
Qed.

Lemma SelfN_E : forall t, SelfN t -> SelfE t.
Proof. intros t Ht r. apply Ht. intros p []. Qed.
Lemma SelfE_app : forall a b, SelfE a -> SelfE b -> SelfE (a ++ b).
Proof. intros a b Ha Hb r. rewrite <- app_assoc. rewrite Ha. apply Hb. Qed.
Lemma SelfE_wr : forall l, SelfE (br true Wr l []).
Proof. intros l r. unfold br. simpl. rewrite N.eqb_refl. reflexivity. Qed.

Lemma OrdN_nil : forall rank lb, OrdN rank lb []. Proof. intros rank lb h r _. reflexivity. Qed.
Lemma OrdN_app : forall rank lb a b, OrdN rank lb a -> OrdN rank lb b -> OrdN rank lb (a ++ b).
Proof. intros rank lb a b Ha Hb h r Hh. rewrite <- app_assoc. rewrite Ha by exact Hh. apply Hb. exact Hh. Qed.
Lemma OrdA_nil : forall rank, OrdA rank []. Proof. intros rank lb. apply OrdN_nil. Qed.
Lemma OrdA_app : forall rank a b, OrdA rank a -> OrdA rank b -> OrdA rank (a ++ b).
Proof. intros rank a b Ha Hb lb. apply OrdN_app; auto. Qed.

(** a try bracket around a trace that is neutral under any held set *)
Lemma OrdA_try : forall rank m l t, OrdA rank t -> OrdA rank (br false m l t).
Proof.
  intros rank m l t Ht lb h r Hh. unfold br. simpl. rewrite <- app_assoc.
  rewrite (Ht (N.max lb (rank l + 1))).
  - simpl. rewrite N.eqb_refl. reflexivity.
  - intros p [<-|Hp]; simpl; [lia | specialize (Hh p Hp); lia].
Qed.

(** a blocking bracket: everything held is below the bound, the bound is at most the lock's rank *)
Lemma OrdN_block : forall rank lb m l t,
    OrdN rank (rank l + 1) t -> lb <= rank l -> OrdN rank lb (br true m l t).
Proof.
  intros rank lb m l t Ht Hlb h r Hh. unfold br. simpl.
  assert (Hall : forallb (fun p => rank (fst p) <? rank l) h = true).
  { apply forallb_forall. intros p Hp. apply N.ltb_lt. specialize (Hh p Hp). lia. }
  rewrite Hall. simpl. rewrite <- app_assoc. rewrite Ht.
  - simpl. rewrite N.eqb_refl. reflexivity.
  - intros p [<-|Hp]; simpl; [lia | specialize (Hh p Hp); lia].
Qed.

Lemma OrdN_block_leaf : forall rank lb m l, lb <= rank l -> OrdN rank lb (br true m l []).
Proof. intros. apply OrdN_block; [apply OrdN_nil | assumption]. Qed.

Lemma OrdN_E : forall rank t, OrdN rank 0 t -> OrdE rank t.
Proof. intros rank t Ht r. apply Ht. intros p []. Qed.
Lemma OrdE_app : forall rank a b, OrdE rank a -> OrdE rank b -> OrdE rank (a ++ b).
Proof. intros rank a b Ha Hb r. rewrite <- app_assoc. rewrite Ha. apply Hb. Qed.
Lemma OrdA_N : forall rank lb t, OrdA rank t -> OrdN rank lb t. Proof. intros. apply H. Qed.

(** unfolding equations (simpl would also unfold the brackets) *)
Lemma up_path_S : forall cf w f cur, up_path cf w (S f) cur =
  match w_nodes w cur with None => [] | Some n =>
    br false Rd (Le cur) (item_name_in cf n) ++ br true Rd (Le cur) [] ++
    match n_parent n with PElem p => up_path cf w f p | _ => [] end end.
Proof. reflexivity. Qed.
Lemma up_xml_S : forall cf w f cur, up_xml cf w (S f) cur =
  match w_nodes w cur with None => [] | Some n =>
    br false Rd (Le cur) (item_name_in cf n) ++ match n_parent n with PElem p => up_xml cf w f p | _ => [] end end.
Proof. reflexivity. Qed.
Lemma up_try_S : forall w f cur, up_try w (S f) cur =
  br false Rd (Le cur) [] ++ match parent_of w cur with PElem p => up_try w f p | _ => [] end.
Proof. reflexivity. Qed.
Lemma fm_S : forall w f cur, fm w (S f) cur =
  match w_nodes w cur with None => br false Rd (Le cur) [] | Some n =>
    br false Rd (Le cur) [] ++
    if is_empty (n_files n) then br true Rd (Le cur) [] ++ match n_parent n with PElem p => fm w f p | _ => [] end else [] end.
Proof. reflexivity. Qed.
Lemma version_reads_cons : forall w ver f r, version_reads w ver (f :: r) =
  br true Rd (Lf f) [] ++
  (if (match nth_error (w_files w) (N.to_nat f) with Some x => f_version x | None => ver end) <? ver
   then br true Rd (Lf f) [] ++ version_reads w (match nth_error (w_files w) (N.to_nat f) with Some x => f_version x | None => ver end) r
   else version_reads w ver r).
Proof. reflexivity. Qed.
Lemma scan_cons : forall w name c r, scan w name (c :: r) =
  br true Rd (Le c) [] ++ if name_of w c =? name then [] else scan w name r.
Proof. reflexivity. Qed.
Lemma np_S : forall cf w f p, np cf w (S f) p =
  match w_nodes w p with None => [] | Some n =>
    br true Rd (Le p) (is_ident_in cf n) ++
    if identifiable cf w n then [] else br true Rd (Le p) [] ++ match n_parent n with PElem q => np cf w f q | _ => [] end end.
Proof. reflexivity. Qed.
Lemma ser_S : forall w f e, ser w (S f) e =
  br true Rd (Le e) (match w_nodes w e with Some n => flat_map (ser w f) (elems_of (n_content n)) | None => [] end).
Proof. reflexivity. Qed.
Ltac unf := rewrite ?ser_S; rewrite ?up_path_S, ?up_xml_S, ?up_try_S, ?fm_S, ?version_reads_cons, ?scan_cons, ?np_S.
Ltac lt := cbv beta iota delta [lock_trace].

(* ---------------------------------------------------------------------- *)
(** * The pieces of the footprints                                         *)
(* ---------------------------------------------------------------------- *)
Section Pieces.
  Variable cf : cfg.
  Variable w : world.

  Lemma item_name_BalN : forall n, BalN (item_name_in cf n).
  Proof.
    intros n. unfold item_name_in. destruct (named cf n); [|apply BalN_nil].
    destruct (first_elem n); [apply BalN_br; apply BalN_nil | apply BalN_nil].
  Qed.
  Lemma item_name_SelfN : forall n, SelfN (item_name_in cf n).
  Proof.
    intros n. unfold item_name_in. destruct (named cf n); [|apply SelfN_nil].
    destruct (first_elem n); [apply SelfN_br; apply SelfN_nil | apply SelfN_nil].
  Qed.
  Lemma item_name_OrdA : forall rank n, OrdA rank (item_name_in cf n).
  Proof.
    intros rank n. unfold item_name_in. destruct (named cf n); [|apply OrdA_nil].
    destruct (first_elem n); [apply OrdA_try; apply OrdA_nil | apply OrdA_nil].
  Qed.

  Lemma is_ident_BalN : forall n, BalN (is_ident_in cf n).
  Proof.
    intros n. unfold is_ident_in. destruct (named cf n); [|apply BalN_nil].
    destruct (first_elem n); [apply BalN_br; apply BalN_nil | apply BalN_nil].
  Qed.
  Lemma is_ident_SelfN : forall n, SelfN (is_ident_in cf n).
  Proof.
    intros n. unfold is_ident_in. destruct (named cf n); [|apply SelfN_nil].
    destruct (first_elem n); [apply SelfN_br; apply SelfN_nil | apply SelfN_nil].
  Qed.

  Lemma up_path_BalN : forall fuel cur, BalN (up_path cf w fuel cur).
  Proof.
    induction fuel as [|f IH]; intros cur; [apply BalN_nil|]; unf.
    destruct (w_nodes w cur) as [n|]; [|apply BalN_nil].
    apply BalN_app; [apply BalN_br; apply item_name_BalN|].
    apply BalN_app; [apply BalN_br; apply BalN_nil|].
    destruct (n_parent n); try apply BalN_nil. apply IH.
  Qed.
  Lemma up_path_SelfN : forall fuel cur, SelfN (up_path cf w fuel cur).
  Proof.
    induction fuel as [|f IH]; intros cur; [apply SelfN_nil|]; unf.
    destruct (w_nodes w cur) as [n|]; [|apply SelfN_nil].
    apply SelfN_app; [apply SelfN_br; apply item_name_SelfN|].
    apply SelfN_app; [apply SelfN_br; apply SelfN_nil|].
    destruct (n_parent n); try apply SelfN_nil. apply IH.
  Qed.

  Lemma up_xml_BalN : forall fuel cur, BalN (up_xml cf w fuel cur).
  Proof.
    induction fuel as [|f IH]; intros cur; [apply BalN_nil|]; unf.
    destruct (w_nodes w cur) as [n|]; [|apply BalN_nil].
    apply BalN_app; [apply BalN_br; apply item_name_BalN|].
    destruct (n_parent n); try apply BalN_nil. apply IH.
  Qed.
  Lemma up_xml_SelfN : forall fuel cur, SelfN (up_xml cf w fuel cur).
  Proof.
    induction fuel as [|f IH]; intros cur; [apply SelfN_nil|]; unf.
    destruct (w_nodes w cur) as [n|]; [|apply SelfN_nil].
    apply SelfN_app; [apply SelfN_br; apply item_name_SelfN|].
    destruct (n_parent n); try apply SelfN_nil. apply IH.
  Qed.
  Lemma up_xml_OrdA : forall rank fuel cur, OrdA rank (up_xml cf w fuel cur).
  Proof.
    intros rank. induction fuel as [|f IH]; intros cur; [apply OrdA_nil|]; unf.
    destruct (w_nodes w cur) as [n|]; [|apply OrdA_nil].
    apply OrdA_app; [apply OrdA_try; apply item_name_OrdA|].
    destruct (n_parent n); try apply OrdA_nil. apply IH.
  Qed.

  Lemma xml_path_BalN : forall fuel n, BalN (xml_path_in cf w fuel n).
  Proof.
    intros fuel n. unfold xml_path_in. apply BalN_app; [apply item_name_BalN|].
    destruct (n_parent n); try apply BalN_nil. apply up_xml_BalN.
  Qed.
  Lemma xml_path_SelfN : forall fuel n, SelfN (xml_path_in cf w fuel n).
  Proof.
    intros fuel n. unfold xml_path_in. apply SelfN_app; [apply item_name_SelfN|].
    destruct (n_parent n); try apply SelfN_nil. apply up_xml_SelfN.
  Qed.
  Lemma xml_path_OrdA : forall rank fuel n, OrdA rank (xml_path_in cf w fuel n).
  Proof.
    intros rank fuel n. unfold xml_path_in. apply OrdA_app; [apply item_name_OrdA|].
    destruct (n_parent n); try apply OrdA_nil. apply up_xml_OrdA.
  Qed.

  Lemma up_try_BalN : forall fuel cur, BalN (up_try w fuel cur).
  Proof.
    induction fuel as [|f IH]; intros cur; [apply BalN_nil|]; unf.
    apply BalN_app; [apply BalN_br; apply BalN_nil|].
    destruct (parent_of w cur); try apply BalN_nil. apply IH.
  Qed.
  Lemma up_try_SelfN : forall fuel cur, SelfN (up_try w fuel cur).
  Proof.
    induction fuel as [|f IH]; intros cur; [apply SelfN_nil|]; unf.
    apply SelfN_app; [apply SelfN_br; apply SelfN_nil|].
    destruct (parent_of w cur); try apply SelfN_nil. apply IH.
  Qed.
  Lemma up_try_OrdA : forall rank fuel cur, OrdA rank (up_try w fuel cur).
  Proof.
    intros rank. induction fuel as [|f IH]; intros cur; [apply OrdA_nil|]; unf.
    apply OrdA_app; [apply OrdA_try; apply OrdA_nil|].
    destruct (parent_of w cur); try apply OrdA_nil. apply IH.
  Qed.

  Lemma fm_BalN : forall fuel cur, BalN (fm w fuel cur).
  Proof.
    induction fuel as [|f IH]; intros cur; [apply BalN_nil|]; unf.
    destruct (w_nodes w cur) as [n|]; [|apply BalN_br; apply BalN_nil].
    apply BalN_app; [apply BalN_br; apply BalN_nil|].
    destruct (is_empty (n_files n)); [|apply BalN_nil].
    apply BalN_app; [apply BalN_br; apply BalN_nil|].
    destruct (n_parent n); try apply BalN_nil. apply IH.
  Qed.
  Lemma fm_SelfN : forall fuel cur, SelfN (fm w fuel cur).
  Proof.
    induction fuel as [|f IH]; intros cur; [apply SelfN_nil|]; unf.
    destruct (w_nodes w cur) as [n|]; [|apply SelfN_br; apply SelfN_nil].
    apply SelfN_app; [apply SelfN_br; apply SelfN_nil|].
    destruct (is_empty (n_files n)); [|apply SelfN_nil].
    apply SelfN_app; [apply SelfN_br; apply SelfN_nil|].
    destruct (n_parent n); try apply SelfN_nil. apply IH.
  Qed.
  Lemma fm_OrdN : forall rank fuel cur, OrdN rank 0 (fm w fuel cur).
  Proof.
    intros rank. induction fuel as [|f IH]; intros cur; [apply OrdN_nil|]; unf.
    destruct (w_nodes w cur) as [n|]; [|apply OrdA_try; apply OrdA_nil].
    apply OrdN_app; [apply OrdA_try; apply OrdA_nil|].
    destruct (is_empty (n_files n)); [|apply OrdN_nil].
    apply OrdN_app; [apply OrdN_block_leaf; lia|].
    destruct (n_parent n); try apply OrdN_nil. apply IH.
  Qed.

  Lemma version_reads_BalN : forall fs ver, BalN (version_reads w ver fs).
  Proof.
    induction fs as [|f r IH]; intros ver; [apply BalN_nil|]; unf.
    apply BalN_app; [apply BalN_br; apply BalN_nil|].
    match goal with |- BalN (if ?c then _ else _) => destruct c end.
    - apply BalN_app; [apply BalN_br; apply BalN_nil | apply IH].
    - apply IH.
  Qed.
  Lemma version_reads_SelfN : forall fs ver, SelfN (version_reads w ver fs).
  Proof.
    induction fs as [|f r IH]; intros ver; [apply SelfN_nil|]; unf.
    apply SelfN_app; [apply SelfN_br; apply SelfN_nil|].
    match goal with |- SelfN (if ?c then _ else _) => destruct c end.
    - apply SelfN_app; [apply SelfN_br; apply SelfN_nil | apply IH].
    - apply IH.
  Qed.
  Lemma version_reads_OrdN : forall rank fs ver, OrdN rank 0 (version_reads w ver fs).
  Proof.
    intros rank. induction fs as [|f r IH]; intros ver; [apply OrdN_nil|]; unf.
    apply OrdN_app; [apply OrdN_block_leaf; lia|].
    match goal with |- OrdN _ _ (if ?c then _ else _) => destruct c end.
    - apply OrdN_app; [apply OrdN_block_leaf; lia | apply IH].
    - apply IH.
  Qed.

  Lemma min_version_BalN : forall fuel e, BalN (min_version_tr cf w fuel e).
  Proof.
    intros fuel e. unfold min_version_tr. apply BalN_app; [apply fm_BalN|].
    destruct (fm_files w fuel e); [apply version_reads_BalN | apply BalN_nil].
  Qed.
  Lemma min_version_SelfN : forall fuel e, SelfN (min_version_tr cf w fuel e).
  Proof.
    intros fuel e. unfold min_version_tr. apply SelfN_app; [apply fm_SelfN|].
    destruct (fm_files w fuel e); [apply version_reads_SelfN | apply SelfN_nil].
  Qed.
  Lemma min_version_OrdN : forall rank fuel e, OrdN rank 0 (min_version_tr cf w fuel e).
  Proof.
    intros rank fuel e. unfold min_version_tr. apply OrdN_app; [apply fm_OrdN|].
    destruct (fm_files w fuel e); [apply version_reads_OrdN | apply OrdN_nil].
  Qed.

  Lemma scan_BalN : forall name l, BalN (scan w name l).
  Proof.
    intros name. induction l as [|c r IH]; [apply BalN_nil|]; unf.
    apply BalN_app; [apply BalN_br; apply BalN_nil|].
    destruct (name_of w c =? name); [apply BalN_nil | apply IH].
  Qed.
  Lemma scan_SelfN : forall name l, SelfN (scan w name l).
  Proof.
    intros name. induction l as [|c r IH]; [apply SelfN_nil|]; unf.
    apply SelfN_app; [apply SelfN_br; apply SelfN_nil|].
    destruct (name_of w c =? name); [apply SelfN_nil | apply IH].
  Qed.
  Lemma scan_OrdN : forall rank lb name l,
      (forall c, In c l -> lb <= rank (Le c)) -> OrdN rank lb (scan w name l).
  Proof.
    intros rank lb name. induction l as [|c r IH]; intros Hl; [apply OrdN_nil|]; unf.
    apply OrdN_app; [apply OrdN_block_leaf; apply Hl; left; reflexivity|].
    destruct (name_of w c =? name); [apply OrdN_nil|]. apply IH. intros x Hx. apply Hl. right. exact Hx.
  Qed.

  Lemma np_BalN : forall fuel p, BalN (np cf w fuel p).
  Proof.
    induction fuel as [|f IH]; intros p; [apply BalN_nil|]; unf.
    destruct (w_nodes w p) as [n|]; [|apply BalN_nil].
    apply BalN_app; [apply BalN_br; apply is_ident_BalN|].
    destruct (identifiable cf w n); [apply BalN_nil|].
    apply BalN_app; [apply BalN_br; apply BalN_nil|].
    destruct (n_parent n); try apply BalN_nil. apply IH.
  Qed.
  Lemma np_SelfN : forall fuel p, SelfN (np cf w fuel p).
  Proof.
    induction fuel as [|f IH]; intros p; [apply SelfN_nil|]; unf.
    destruct (w_nodes w p) as [n|]; [|apply SelfN_nil].
    apply SelfN_app; [apply SelfN_br; apply is_ident_SelfN|].
    destruct (identifiable cf w n); [apply SelfN_nil|].
    apply SelfN_app; [apply SelfN_br; apply SelfN_nil|].
    destruct (n_parent n); try apply SelfN_nil. apply IH.
  Qed.
End Pieces.

Lemma flat_map_BalN : forall (g : id -> trace) l, (forall c, BalN (g c)) -> BalN (flat_map g l).
Proof. intros g l Hg. induction l as [|c r IH]; simpl; [apply BalN_nil | apply BalN_app; auto]. Qed.
Lemma flat_map_SelfN : forall (g : id -> trace) l, (forall c, SelfN (g c)) -> SelfN (flat_map g l).
Proof. intros g l Hg. induction l as [|c r IH]; simpl; [apply SelfN_nil | apply SelfN_app; auto]. Qed.
Lemma flat_map_OrdN : forall rank lb (g : id -> trace) l,
    (forall c, In c l -> OrdN rank lb (g c)) -> OrdN rank lb (flat_map g l).
Proof.
  intros rank lb g l Hg. induction l as [|c r IH]; simpl; [apply OrdN_nil|].
  apply OrdN_app; [apply Hg; left; reflexivity | apply IH; intros x Hx; apply Hg; right; exact Hx].
Qed.

Lemma ser_BalN : forall w fuel e, BalN (ser w fuel e).
Proof.
  intros w. induction fuel as [|f IH]; intros e; [apply BalN_nil|]. unf. apply BalN_br.
  destruct (w_nodes w e); [apply flat_map_BalN; exact IH | apply BalN_nil].
Qed.
Lemma ser_SelfN : forall w fuel e, SelfN (ser w fuel e).
Proof.
  intros w. induction fuel as [|f IH]; intros e; [apply SelfN_nil|]. unf. apply SelfN_br.
  destruct (w_nodes w e); [apply flat_map_SelfN; exact IH | apply SelfN_nil].
Qed.

(* ---------------------------------------------------------------------- *)
(** * balanced and self_ok: every footprint, every world                   *)
(* ---------------------------------------------------------------------- *)
Lemma lock_trace_BalN : forall cf fuel o w, BalN (lock_trace cf fuel o w).
Proof.
  intros cf fuel o w. destruct o; lt;
    try (apply BalN_br; apply BalN_nil).
  - apply BalN_br. destruct (w_nodes w e); [apply item_name_BalN | apply BalN_nil].
  - apply BalN_br. destruct (w_nodes w e); [apply is_ident_BalN | apply BalN_nil].
  - apply BalN_br. destruct (w_nodes w e); [apply scan_BalN | apply BalN_nil].
  - apply BalN_app; [apply BalN_br; apply BalN_nil|].
    destruct (parent_of w e); try apply BalN_nil. apply BalN_br; apply BalN_nil.
  - apply up_try_BalN.
  - apply fm_BalN.
  - apply min_version_BalN.
  - apply BalN_app; [apply BalN_br; apply BalN_nil|].
    destruct (parent_of w e); try apply BalN_nil. apply np_BalN.
  - apply BalN_br. destruct (w_nodes w e); [apply xml_path_BalN | apply BalN_nil].
  - apply BalN_br. destruct (w_nodes w e) as [n|]; [|apply BalN_nil].
    apply BalN_app; [apply is_ident_BalN|].
    destruct (identifiable cf w n); [|apply xml_path_BalN].
    apply BalN_app; [apply item_name_BalN|].
    destruct (n_parent n); try apply BalN_nil. apply up_path_BalN.
  - apply BalN_app; [apply min_version_BalN|].
    destruct (fm_files w fuel e); [apply BalN_br; apply BalN_nil | apply BalN_nil].
  - apply ser_BalN.
  - apply BalN_app; [apply BalN_br; apply BalN_nil|]. apply BalN_app; [apply up_try_BalN|].
    apply BalN_app; [apply min_version_BalN|].
    destruct (fm_files w fuel e); [|apply BalN_nil]. apply BalN_app; apply BalN_br; apply BalN_nil.
  - repeat (apply BalN_app; [apply BalN_br; apply BalN_nil|]). apply BalN_br; apply BalN_nil.
Qed.

Lemma lock_trace_SelfE : forall cf fuel o w, SelfE (lock_trace cf fuel o w).
Proof.
  intros cf fuel o w. destruct o; lt;
    try (apply SelfN_E; apply SelfN_br; apply SelfN_nil).
  - apply SelfE_wr.
  - apply SelfN_E, SelfN_br. destruct (w_nodes w e); [apply item_name_SelfN | apply SelfN_nil].
  - apply SelfN_E, SelfN_br. destruct (w_nodes w e); [apply is_ident_SelfN | apply SelfN_nil].
  - apply SelfN_E, SelfN_br. destruct (w_nodes w e); [apply scan_SelfN | apply SelfN_nil].
  - apply SelfN_E, SelfN_app; [apply SelfN_br; apply SelfN_nil|].
    destruct (parent_of w e); try apply SelfN_nil. apply SelfN_br; apply SelfN_nil.
  - apply SelfN_E, up_try_SelfN.
  - apply SelfN_E, fm_SelfN.
  - apply SelfN_E, min_version_SelfN.
  - apply SelfN_E, SelfN_app; [apply SelfN_br; apply SelfN_nil|].
    destruct (parent_of w e); try apply SelfN_nil. apply np_SelfN.
  - apply SelfN_E, SelfN_br. destruct (w_nodes w e); [apply xml_path_SelfN | apply SelfN_nil].
  - apply SelfN_E, SelfN_br. destruct (w_nodes w e) as [n|]; [|apply SelfN_nil].
    apply SelfN_app; [apply is_ident_SelfN|].
    destruct (identifiable cf w n); [|apply xml_path_SelfN].
    apply SelfN_app; [apply item_name_SelfN|].
    destruct (n_parent n); try apply SelfN_nil. apply up_path_SelfN.
  - apply SelfE_app; [apply SelfN_E, min_version_SelfN|].
    destruct (fm_files w fuel e); [apply SelfE_wr | intros r; reflexivity].
  - apply SelfN_E, ser_SelfN.
  - apply SelfE_app; [apply SelfN_E, SelfN_br, SelfN_nil|]. apply SelfE_app; [apply SelfN_E, up_try_SelfN|].
    apply SelfE_app; [apply SelfN_E, min_version_SelfN|].
    destruct (fm_files w fuel e); [|intros r; reflexivity].
    apply SelfE_app; [apply SelfN_E, SelfN_br, SelfN_nil | apply SelfE_wr].
  - repeat (apply SelfE_app; [apply SelfN_E, SelfN_br, SelfN_nil|]). apply SelfE_wr.
  - apply SelfE_wr.
Qed.

Lemma thread_trace_BalN : forall cf fuel w os, BalN (thread_trace cf fuel w os).
Proof.
  intros cf fuel w os. induction os as [|o os IH]; simpl; [apply BalN_nil|].
  apply BalN_app; [apply lock_trace_BalN | exact IH].
Qed.
Lemma thread_trace_SelfE : forall cf fuel w os, SelfE (thread_trace cf fuel w os).
Proof.
  intros cf fuel w os. induction os as [|o os IH]; simpl; [intros r; reflexivity|].
  apply SelfE_app; [apply lock_trace_SelfE | exact IH].
Qed.

Theorem footprint_thread_balanced : forall cf fuel w os, balanced (thread_trace cf fuel w os) = true.
Proof.
  intros. unfold balanced. rewrite <- (app_nil_r (thread_trace cf fuel w os)).
  rewrite thread_trace_BalN. reflexivity.
Qed.

Theorem footprint_thread_self_ok : forall cf fuel w os, self_ok (thread_trace cf fuel w os) = true.
Proof.
  intros. unfold self_ok. rewrite <- (app_nil_r (thread_trace cf fuel w os)).
  rewrite thread_trace_SelfE. reflexivity.
Qed.

Lemma thread_trace_one : forall cf fuel w o, thread_trace cf fuel w [o] = lock_trace cf fuel o w.
Proof. intros. unfold thread_trace. simpl. apply app_nil_r. Qed.

Theorem footprint_balanced : forall cf fuel o w, balanced (lock_trace cf fuel o w) = true.
Proof. intros. rewrite <- thread_trace_one. apply footprint_thread_balanced. Qed.
Theorem footprint_self_ok : forall cf fuel o w, self_ok (lock_trace cf fuel o w) = true.
Proof. intros. rewrite <- thread_trace_one. apply footprint_thread_self_ok. Qed.

(* ---------------------------------------------------------------------- *)
(** * order_ok: Core worlds, ranks that grow along parent links            *)
(* ---------------------------------------------------------------------- *)
(** the rank of an element lock is larger than that of its parent's lock *)
Definition mono (w : world) (rank : lock -> N) : Prop :=
  forall c n p, w_nodes w c = Some n -> n_parent n = PElem p -> rank (Le p) < rank (Le c).

Lemma elems_of_elems : forall l, elems_of l = elems l.
Proof.
  induction l as [|[c|d] r IH]; simpl; [reflexivity | rewrite IH; reflexivity | exact IH].
Qed.

Lemma first_elem_in : forall n c, first_elem n = Some c -> In c (elems_of (n_content n)).
Proof.
  intros n c H. unfold first_elem in H. destruct (n_content n) as [|[x|d] r]; try discriminate.
  inversion H; subst. simpl. left. reflexivity.
Qed.

Lemma kid_rank : forall w rank, Core w -> mono w rank ->
    forall p n c, w_nodes w p = Some n -> In c (elems_of (n_content n)) -> rank (Le p) < rank (Le c).
Proof.
  intros w rank HC Hm p n c Hn Hc.
  assert (Hl : lists w p c).
  { exists n. split; [exact Hn|]. unfold kids. rewrite <- elems_of_elems. exact Hc. }
  destruct (c_up w HC p c Hl) as [nc [Hnc Hpar]]. eapply Hm; eassumption.
Qed.

Section Order.
  Variable cf : cfg.
  Variable w : world.
  Variable rank : lock -> N.
  Hypothesis HC : Core w.
  Hypothesis Hm : mono w rank.

  Lemma is_ident_OrdN : forall e n, w_nodes w e = Some n -> OrdN rank (rank (Le e) + 1) (is_ident_in cf n).
  Proof.
    intros e n Hn. unfold is_ident_in. destruct (named cf n); [|apply OrdN_nil].
    destruct (first_elem n) as [c|] eqn:E; [|apply OrdN_nil].
    apply OrdN_block_leaf. pose proof (kid_rank w rank HC Hm e n c Hn (first_elem_in n c E)). lia.
  Qed.

  Lemma np_OrdN : forall fuel p, OrdN rank 0 (np cf w fuel p).
  Proof.
    induction fuel as [|f IH]; intros p; [apply OrdN_nil|]; unf.
    destruct (w_nodes w p) as [n|] eqn:En; [|apply OrdN_nil].
    apply OrdN_app; [apply OrdN_block; [apply (is_ident_OrdN p n En) | lia]|].
    destruct (identifiable cf w n); [apply OrdN_nil|].
    apply OrdN_app; [apply OrdN_block_leaf; lia|].
    destruct (n_parent n); try apply OrdN_nil. apply IH.
  Qed.

  Lemma ser_OrdN : forall fuel e lb, lb <= rank (Le e) -> OrdN rank lb (ser w fuel e).
  Proof.
    induction fuel as [|f IH]; intros e lb Hlb; [apply OrdN_nil|]. unf. apply OrdN_block; [|exact Hlb].
    destruct (w_nodes w e) as [n|] eqn:En; [|apply OrdN_nil].
    apply flat_map_OrdN. intros c Hc. apply IH. pose proof (kid_rank w rank HC Hm e n c En Hc). lia.
  Qed.

  Lemma lock_trace_OrdE : forall fuel o, order_class o = true -> OrdE rank (lock_trace cf fuel o w).
  Proof.
    intros fuel o Ho. apply OrdN_E. destruct o; simpl in Ho; try discriminate; lt;
      try (apply OrdN_block_leaf; lia).
    - apply OrdN_block; [|lia]. destruct (w_nodes w e); [apply OrdA_N, item_name_OrdA | apply OrdN_nil].
    - apply OrdN_block; [|lia]. destruct (w_nodes w e) as [n|] eqn:En; [apply (is_ident_OrdN e n En) | apply OrdN_nil].
    - apply OrdN_block; [|lia]. destruct (w_nodes w e) as [n|] eqn:En; [|apply OrdN_nil].
      apply scan_OrdN. intros c Hc. pose proof (kid_rank w rank HC Hm e n c En Hc). lia.
    - apply OrdN_app; [apply OrdN_block_leaf; lia|].
      destruct (parent_of w e); try apply OrdN_nil. apply OrdN_block_leaf; lia.
    - apply OrdA_N, up_try_OrdA.
    - apply fm_OrdN.
    - apply min_version_OrdN.
    - apply OrdN_app; [apply OrdN_block_leaf; lia|].
      destruct (parent_of w e); try apply OrdN_nil. apply np_OrdN.
    - apply OrdN_block; [|lia]. destruct (w_nodes w e); [apply OrdA_N, xml_path_OrdA | apply OrdN_nil].
    - apply OrdN_app; [apply min_version_OrdN|].
      destruct (fm_files w fuel e); [apply OrdN_block_leaf; lia | apply OrdN_nil].
    - apply ser_OrdN. lia.
    - apply OrdN_app; [apply OrdN_block_leaf; lia|]. apply OrdN_app; [apply OrdA_N, up_try_OrdA|].
      apply OrdN_app; [apply min_version_OrdN|].
      destruct (fm_files w fuel e); [|apply OrdN_nil]. apply OrdN_app; apply OrdN_block_leaf; lia.
    - repeat (apply OrdN_app; [apply OrdN_block_leaf; lia|]). apply OrdN_block_leaf; lia.
  Qed.

  Lemma thread_trace_OrdE : forall fuel os,
      Forall (fun o => order_class o = true) os -> OrdE rank (thread_trace cf fuel w os).
  Proof.
    intros fuel os H. induction H as [|o os Ho _ IH]; simpl; [intros r; reflexivity|].
    apply OrdE_app; [apply lock_trace_OrdE; exact Ho | exact IH].
  Qed.

  Theorem footprint_thread_order_ok : forall fuel os,
      Forall (fun o => order_class o = true) os -> order_ok rank (thread_trace cf fuel w os) = true.
  Proof.
    intros fuel os H. unfold order_ok. rewrite <- (app_nil_r (thread_trace cf fuel w os)).
    rewrite (thread_trace_OrdE fuel os H). reflexivity.
  Qed.

End Order.

(* ---------------------------------------------------------------------- *)
(** * A rank that grows along parent links exists in every Core world      *)
(* ---------------------------------------------------------------------- *)
Fixpoint depthf (fuel : nat) (w : world) (i : id) : nat :=
  match fuel with
  | O => O
  | S f => match w_nodes w i with
           | Some n => match n_parent n with PElem p => S (depthf f w p) | _ => O end
           | None => O
           end
  end.

Lemma depthf_Depth : forall w i h, Depth w i h -> forall fuel, (h <= fuel)%nat -> depthf fuel w i = h.
Proof.
  intros w i h H. induction H as [x n Hn Hnp | x n p h Hn Hp Hd IH]; intros fuel Hf.
  - destruct fuel; simpl; [reflexivity|]. rewrite Hn. destruct (n_parent n) eqn:E; try reflexivity.
    exfalso. apply (Hnp p). reflexivity.
  - destruct fuel; [lia|]. simpl. rewrite Hn, Hp. f_equal. apply IH. lia.
Qed.

Lemma Depth_fun : forall w i h, Depth w i h -> forall h', Depth w i h' -> h = h'.
Proof.
  intros w i h H. induction H as [x n Hn Hnp | x n p h Hn Hp Hd IH]; intros h' H'.
  - inversion H' as [? n' Hn' _ | ? n' p' ? Hn' Hp' _]; subst; [reflexivity|].
    rewrite Hn in Hn'. inversion Hn'; subst. exfalso. apply (Hnp p'). exact Hp'.
  - inversion H' as [? n' Hn' Hnp' | ? n' p' h'' Hn' Hp' Hd']; subst.
    + rewrite Hn in Hn'. inversion Hn'; subst. exfalso. apply (Hnp' p). exact Hp.
    + rewrite Hn in Hn'. inversion Hn'; subst. rewrite Hp in Hp'. inversion Hp'; subst. f_equal. apply IH. exact Hd'.
Qed.

Lemma depth_bound_below : forall w, Core w -> forall k : nat,
    exists H : nat, forall i h, (N.to_nat i < k)%nat -> Depth w i h -> (h <= H)%nat.
Proof.
  intros w HC. induction k as [|k [H IH]].
  - exists O. intros i h Hi. lia.
  - destruct (w_nodes w (N.of_nat k)) as [n|] eqn:En.
    + destruct (c_depth w HC (N.of_nat k)) as [hk Hk]; [exists n; exact En|].
      exists (Nat.max H hk). intros i h Hi Hd.
      destruct (Nat.eq_dec (N.to_nat i) k) as [E|E].
      * assert (i = N.of_nat k) by lia. subst i. rewrite (Depth_fun w _ _ Hd _ Hk). lia.
      * specialize (IH i h). assert (N.to_nat i < k)%nat by lia. specialize (IH H0 Hd). lia.
    + exists H. intros i h Hi Hd.
      destruct (Nat.eq_dec (N.to_nat i) k) as [E|E].
      * assert (i = N.of_nat k) by lia. subst i. inversion Hd; congruence.
      * apply (IH i h); [lia | exact Hd].
Qed.

Lemma depth_bound : forall w, Core w -> exists H : nat, forall i h, Depth w i h -> (h <= H)%nat.
Proof.
  intros w HC. destruct (depth_bound_below w HC (N.to_nat (w_next w))) as [H HH].
  exists H. intros i h Hd. apply (HH i h); [|exact Hd].
  assert (Ha : allocated w i) by (inversion Hd; eexists; eassumption).
  apply (c_alloc w HC) in Ha. lia.
Qed.

Definition depth_rank (H : nat) (w : world) (l : lock) : N :=
  if N.eqb (l mod 3) 0 then N.of_nat (depthf H w (l / 3)) else 0.

Lemma Le_div : forall i, Le i / 3 = i.
Proof. intros i. unfold Le. rewrite N.mul_comm. apply N.div_mul. discriminate. Qed.
Lemma Le_mod : forall i, Le i mod 3 = 0.
Proof. intros i. unfold Le. rewrite N.mul_comm. apply N.mod_mul. discriminate. Qed.

Theorem mono_rank_exists : forall w, Core w -> exists rank, mono w rank.
Proof.
  intros w HC. destruct (depth_bound w HC) as [H HH].
  exists (depth_rank H w). intros c n p Hn Hp. unfold depth_rank.
  rewrite !Le_mod, !Le_div. simpl.
  destruct (c_depth w HC c) as [h Hd]; [exists n; exact Hn|].
  inversion Hd as [? n' Hn' Hnp | ? n' p' h' Hn' Hp' Hd']; subst.
  - rewrite Hn in Hn'. inversion Hn'; subst. exfalso. apply (Hnp p). exact Hp.
  - rewrite Hn in Hn'. inversion Hn'; subst. rewrite Hp in Hp'. inversion Hp'; subst.
    rewrite (depthf_Depth w c (S h') Hd H (HH _ _ Hd)).
    assert (Hle : (h' <= H)%nat) by (specialize (HH _ _ Hd); lia).
    rewrite (depthf_Depth w p' h' Hd' H Hle). lia.
Qed.

(* ---------------------------------------------------------------------- *)
(** * Composition with the soundness theorems                              *)
(* ---------------------------------------------------------------------- *)
(** Any number of threads, each performing any sequence of calls of the order classes, the footprints taken in one
    Core world: no interleaving deadlocks, and every maximal execution finishes all threads. *)
Theorem no_deadlock_footprint_classes : forall cf fuel w (threads : list (list lop)),
    Core w ->
    Forall (Forall (fun o => order_class o = true)) threads ->
    forall c, reachable (init (map (thread_trace cf fuel w) threads)) c ->
              ~ stuck c /\ ((forall c', ~ step c c') -> all_finished c).
Proof.
  intros cf fuel w threads HC Hall c Hr.
  destruct (mono_rank_exists w HC) as [rank Hm].
  assert (Hts : Forall (fun t => order_ok rank t = true /\ balanced t = true) (map (thread_trace cf fuel w) threads)).
  { apply Forall_forall. intros t Ht. apply in_map_iff in Ht. destruct Ht as [os [<- Hin]].
    rewrite Forall_forall in Hall. split.
    - apply (footprint_thread_order_ok cf w rank HC Hm). apply Hall. exact Hin.
    - apply footprint_thread_balanced. }
  split.
  - apply (order_sound rank _ Hts c Hr).
  - apply (maximal_execution_finishes rank _ Hts c Hr).
Qed.

(** single-threaded: any sequence of footprint calls (including path) runs to completion with successful acquisitions only *)
Theorem single_thread_footprint_classes : forall cf fuel w os,
    sreachable (init [thread_trace cf fuel w os]) (init [[]]) /\
    forall c, sreachable (init [thread_trace cf fuel w os]) c -> ~ stuck c.
Proof.
  intros cf fuel w os.
  destruct (single_thread_runs (thread_trace cf fuel w os) (footprint_thread_self_ok cf fuel w os)
              (footprint_thread_balanced cf fuel w os)) as [H1 H2].
  split; [exact H1|]. intros c Hc. apply (H2 c Hc).
Qed.

(* ---------------------------------------------------------------------- *)
(** * two_phase: the one-section classes, every world                       *)
(* ---------------------------------------------------------------------- *)
Lemma dbal_to_dev : forall t h, dbal_from h (to_dev t) = bal_from h t.
Proof.
  induction t as [|e t IH]; intros h; [reflexivity|].
  unfold to_dev in *. simpl. destruct e as [b [|] l | l]; simpl; rewrite ?IH; reflexivity.
Qed.

Theorem footprint_two_phase : forall cf fuel o w,
    two_phase_class o = true -> two_phase (to_dev (lock_trace cf fuel o w)) = true.
Proof.
  intros cf fuel o w Ho. destruct o; simpl in Ho; try discriminate; simpl; try reflexivity.
  - destruct (w_nodes w e) as [n|]; [|reflexivity].
    unfold item_name_in. destruct (named cf n); [|reflexivity]. destruct (first_elem n); reflexivity.
  - destruct (w_nodes w e) as [n|]; [|reflexivity].
    unfold is_ident_in. destruct (named cf n); [|reflexivity]. destruct (first_elem n); reflexivity.
Qed.

Theorem serializable_footprint_classes : forall cf fuel w (os : list lop) (st0 : store),
    Forall (fun o => two_phase_class o = true) os ->
    forall c, dreachable (dinit (map (fun o => to_dev (lock_trace cf fuel o w)) os) st0) c -> d_all_finished c ->
    exists order : list nat,
      Permutation.Permutation order (seq 0 (length os)) /\
      (forall l, cstore c l = fst (serial (map (fun o => to_dev (lock_trace cf fuel o w)) os) order st0) l) /\
      (forall t th, nth_error (cthreads c) t = Some th ->
                    In (t, dlog th) (snd (serial (map (fun o => to_dev (lock_trace cf fuel o w)) os) order st0))).
Proof.
  intros cf fuel w os st0 Hall c Hr Hf.
  assert (Hts : Forall (fun t => two_phase t = true /\ well_locked t = true /\ dbalanced t = true)
                       (map (fun o => to_dev (lock_trace cf fuel o w)) os)).
  { apply Forall_forall. intros t Ht. apply in_map_iff in Ht. destruct Ht as [o [<- Hin]].
    rewrite Forall_forall in Hall. split; [apply footprint_two_phase; apply Hall; exact Hin|].
    split; [apply to_dev_well_locked|]. unfold dbalanced. rewrite dbal_to_dev. apply footprint_balanced. }
  destruct (two_phase_serializable _ st0 Hts c Hr Hf) as [order [Hp [Hs Hl]]].
  exists order. rewrite map_length in Hp. auto.
Qed.

Print Assumptions no_deadlock_footprint_classes.
Print Assumptions serializable_footprint_classes.
Print Assumptions single_thread_footprint_classes.
