(* ====================================================================== *)
(*  Conc/Deadlock.v : criterion 1, lock ordering                           *)
(*                                                                          *)
(*  If every thread's trace acquires its BLOCKING locks in strictly         *)
(*  increasing rank (relative to everything it currently holds), then no    *)
(*  reachable configuration is stuck -- for any number of threads, any      *)
(*  trace lengths, any interleaving, and even under writer preference.      *)
(* ====================================================================== *)
From Coq Require Import List NArith Bool Arith Lia.
From AV Require Import Conc.RwLock.
Import ListNotations.

(* ---------------------------------------------------------------------- *)
(** * The criterion                                                        *)
(* ---------------------------------------------------------------------- *)
Fixpoint order_from (rank : lock -> N) (h : hlist) (t : trace) : bool :=
  match t with
  | [] => true
  | Acq b m l :: t' =>
      (if b then forallb (fun p => N.ltb (rank (fst p)) (rank l)) h else true)
      && order_from rank ((l, m) :: h) t'
  | Rel l :: t' => order_from rank (remove_first l h) t'
  end.

(** Every blocking acquisition of l happens while holding only locks of
    strictly smaller rank (in particular l itself is not already held).
    Try-acquisitions and releases are unconstrained. *)
Definition order_ok (rank : lock -> N) (t : trace) : bool := order_from rank [] t.

(* ---------------------------------------------------------------------- *)
(** * Invariants                                                           *)
(* ---------------------------------------------------------------------- *)
Lemma order_inv_reachable : forall rank ts c,
    Forall (fun t => order_ok rank t = true) ts ->
    reachable (init ts) c ->
    thread_inv (fun h r => order_from rank h r = true) c.
Proof.
  intros rank ts c Hall Hreach.
  eapply thread_inv_reachable with (P := fun h r => order_from rank h r = true);
    try eassumption.
  - reflexivity.
  - intros b m l r h H. simpl in H. apply andb_true_iff in H. tauto.
  - intros l r h H. exact H.
  - apply thread_inv_init. exact Hall.
Qed.

(* ---------------------------------------------------------------------- *)
(** * Picking a blocked thread of maximal wanted rank                      *)
(* ---------------------------------------------------------------------- *)
Lemma max_exists : forall (A : Type) (f : A -> N) (l : list A),
    l <> [] -> exists x, In x l /\ forall y, In y l -> (f y <= f x)%N.
Proof.
  intros A f l. induction l as [|a l IH]; [congruence|]. intros _.
  destruct l as [|b l'].
  - exists a. split; [left; reflexivity|]. intros y [<-|[]]. lia.
  - destruct IH as [x [Hx Hmax]]; [discriminate|].
    destruct (N.le_gt_cases (f a) (f x)) as [Hle|Hgt].
    + exists x. split; [right; exact Hx|]. intros y [<-|Hy]; auto.
    + exists a. split; [left; reflexivity|]. intros y [<-|Hy]; [lia|].
      specialize (Hmax y Hy). lia.
Qed.

Definition want_rank (rank : lock -> N) (th : thread) : N :=
  match rest th with Acq _ _ l :: _ => rank l | _ => 0%N end.

(** An unfinished thread that is not strictly enabled is waiting on a
    blocking acquisition of a lock that somebody holds. *)
Lemma blocked_shape : forall c th t,
    nth_error c t = Some th -> rest th <> [] -> ~ strictly_enabled c t ->
    exists m l r, rest th = Acq true m l :: r /\ any_held c l.
Proof.
  intros c th t Hnth Hunf Hnse.
  destruct (rest th) as [|e r] eqn:Er; [congruence|].
  destruct e as [[|] m l | l].
  - exists m, l, r. split; [reflexivity|].
    destruct (any_heldb c l) eqn:E; [apply any_heldb_spec; exact E|].
    exfalso. apply Hnse. exists th, (Acq true m l), r. repeat split; auto.
    assert (Hno : ~ any_held c l).
    { intros H. apply any_heldb_spec in H. congruence. }
    destruct m; simpl.
    + split.
      * intros H. apply Hno. apply wr_held_any_held. exact H.
      * intros [_ H]. auto.
    + exact Hno.
  - exfalso. apply Hnse. exists th, (Acq false m l), r. repeat split; auto.
  - exfalso. apply Hnse. exists th, (Rel l), r. simpl. auto.
Qed.

(* ---------------------------------------------------------------------- *)
(** * Soundness of the lock-order criterion                                *)
(* ---------------------------------------------------------------------- *)
Theorem order_sound : forall (rank : lock -> N) (ts : list trace),
    Forall (fun t => order_ok rank t = true /\ balanced t = true) ts ->
    forall c, reachable (init ts) c -> ~ stuck c.
Proof.
  intros rank ts Hall c Hreach [[th0 [Hin0 Hunf0]] Hnone].
  assert (Hord : thread_inv (fun h r => order_from rank h r = true) c).
  { eapply order_inv_reachable; [|eassumption].
    eapply Forall_impl; [|exact Hall]. simpl. tauto. }
  assert (Hbal : thread_inv (fun h r => bal_from h r = true) c).
  { eapply bal_inv_reachable; [|eassumption].
    eapply Forall_impl; [|exact Hall]. simpl. tauto. }
  (* every unfinished thread is blocked on a held lock of higher rank than all it holds *)
  assert (Hblocked : forall th, In th c -> rest th <> [] ->
            exists m l r, rest th = Acq true m l :: r /\ any_held c l /\
                          forall l' m', In (l', m') (held th) -> (rank l' < rank l)%N).
  { intros th Hin Hunf. destruct (In_nth_error _ _ Hin) as [t Ht].
    destruct (blocked_shape c th t Ht Hunf (Hnone t)) as [m [l [r [Hr Hheld]]]].
    exists m, l, r. repeat split; auto.
    intros l' m' Hl'. specialize (Hord th Hin). simpl in Hord. rewrite Hr in Hord.
    simpl in Hord. apply andb_true_iff in Hord. destruct Hord as [Hf _].
    rewrite forallb_forall in Hf. specialize (Hf (l', m') Hl'). simpl in Hf.
    apply N.ltb_lt in Hf. exact Hf. }
  (* the blocked thread whose wanted lock has maximal rank *)
  set (U := filter unfinishedb c).
  assert (HU : U <> []).
  { assert (In th0 U) as HinU.
    { apply filter_In. split; auto. apply unfinishedb_spec. exact Hunf0. }
    intros E. rewrite E in HinU. contradiction. }
  destruct (max_exists thread (want_rank rank) U HU) as [x [HxU Hmax]].
  apply filter_In in HxU. destruct HxU as [Hxc Hxu]. apply unfinishedb_spec in Hxu.
  destruct (Hblocked x Hxc Hxu) as [m [l [r [Hr [[v [mv [Hvc Hvl]]] _]]]]].
  (* the holder v is unfinished, because finished threads hold nothing *)
  assert (Hvu : rest v <> []).
  { intros E. specialize (Hbal v Hvc). simpl in Hbal. rewrite E in Hbal.
    apply bal_finished_holds_nothing in Hbal. rewrite Hbal in Hvl. contradiction. }
  destruct (Hblocked v Hvc Hvu) as [m' [l' [r' [Hr' [_ Hlt]]]]].
  specialize (Hlt l mv Hvl).
  assert (HvU : In v U).
  { apply filter_In. split; auto. apply unfinishedb_spec. exact Hvu. }
  specialize (Hmax v HvU). unfold want_rank in Hmax. rewrite Hr, Hr' in Hmax. lia.
Qed.

Print Assumptions order_sound.

(** Positive form: some thread is strictly enabled (hence can step). *)
Theorem order_progress : forall (rank : lock -> N) (ts : list trace),
    Forall (fun t => order_ok rank t = true /\ balanced t = true) ts ->
    forall c, reachable (init ts) c ->
    (exists th, In th c /\ rest th <> []) ->
    exists t, strictly_enabled c t /\ exists o c', lstep c t o c'.
Proof.
  intros rank ts Hall c Hreach Hunf.
  destruct (strictly_enabled_dec c) as [[t Ht]|Hnone].
  - exists t. split; auto. apply strictly_enabled_step. exact Ht.
  - exfalso. apply (order_sound rank ts Hall c Hreach). split; assumption.
Qed.

Print Assumptions order_progress.

(* ---------------------------------------------------------------------- *)
(** * Executions are finite                                                *)
(* ---------------------------------------------------------------------- *)
Definition measure (c : config) : nat := list_sum (map (fun th => length (rest th)) c).

Lemma measure_upd : forall c t th th',
    nth_error c t = Some th ->
    measure (upd c t th') + length (rest th) = measure c + length (rest th').
Proof.
  unfold measure. intros c. induction c as [|x c IH]; intros [|t] th th' H; simpl in *;
    try discriminate.
  - inversion H; subst. lia.
  - specialize (IH t th th' H). lia.
Qed.

(** Every step (successful or failing) strictly decreases the number of
    remaining events. *)
Lemma lstep_decreases : forall c t o c', lstep c t o c' -> measure c' < measure c.
Proof.
  intros c t o c' H. destruct H as [c t o th th' Hnth Hts].
  pose proof (measure_upd c t th th' Hnth) as Hm.
  destruct Hts; simpl in Hm; lia.
Qed.

Inductive steps : config -> nat -> config -> Prop :=
| steps_O : forall c, steps c 0 c
| steps_S : forall c c1 c' n, step c c1 -> steps c1 n c' -> steps c (S n) c'.

Lemma steps_bound : forall c n c', steps c n c' -> n + measure c' <= measure c.
Proof.
  intros c n c' H. induction H as [c | c c1 c' n [t [o Hs]] Hrest IH].
  - lia.
  - apply lstep_decreases in Hs. lia.
Qed.

Lemma measure_init : forall ts, measure (init ts) = list_sum (map (@length ev) ts).
Proof.
  unfold measure, init. intros ts. rewrite map_map. reflexivity.
Qed.

Theorem executions_finite : forall (ts : list trace) n c,
    steps (init ts) n c -> n <= list_sum (map (@length ev) ts).
Proof.
  intros ts n c H. apply steps_bound in H. rewrite measure_init in H. lia.
Qed.

Print Assumptions executions_finite.

Lemma steps_reachable : forall c n c', steps c n c' -> reachable c c'.
Proof.
  intros c n c' H. induction H as [c | c c1 c' n Hs Hrest IH].
  - apply star_refl.
  - apply star_step with (y := c1); assumption.
Qed.

Corollary no_infinite_execution : forall f : nat -> config,
    ~ (forall i, step (f i) (f (S i))).
Proof.
  intros f Hf.
  assert (Hsteps : forall n k, steps (f k) n (f (n + k))).
  { intros n. induction n as [|n IH]; intros k.
    - apply steps_O.
    - apply steps_S with (c1 := f (S k)); [apply Hf|].
      replace (S n + k) with (n + S k) by lia. apply IH. }
  specialize (Hsteps (S (measure (f 0))) 0). apply steps_bound in Hsteps. lia.
Qed.

Lemma not_unfinished_all_done : forall c,
    thread_inv (fun h r => bal_from h r = true) c ->
    ~ (exists th, In th c /\ rest th <> []) -> all_finished c.
Proof.
  intros c Hbal Hno. apply Forall_forall. intros th Hin.
  destruct (rest th) as [|e r] eqn:Er.
  - split; [reflexivity|]. specialize (Hbal th Hin). simpl in Hbal. rewrite Er in Hbal.
    apply bal_finished_holds_nothing. exact Hbal.
  - exfalso. apply Hno. exists th. split; auto. congruence.
Qed.

(** Every maximal execution ends with all threads finished (holding nothing). *)
Theorem maximal_execution_finishes : forall (rank : lock -> N) (ts : list trace),
    Forall (fun t => order_ok rank t = true /\ balanced t = true) ts ->
    forall c, reachable (init ts) c -> (forall c', ~ step c c') -> all_finished c.
Proof.
  intros rank ts Hall c Hreach Hmax.
  apply not_unfinished_all_done.
  - eapply bal_inv_reachable; [|eassumption].
    eapply Forall_impl; [|exact Hall]. simpl. tauto.
  - intros Hunf.
    destruct (order_progress rank ts Hall c Hreach Hunf) as [t [_ [o [c' Hs]]]].
    apply (Hmax c'). exists t, o. exact Hs.
Qed.

Print Assumptions maximal_execution_finishes.

(** Together: from [init ts] every execution has at most
    [sum of trace lengths] steps, and whenever it cannot be extended all
    threads have finished. *)
Corollary order_ok_terminates_finished : forall (rank : lock -> N) (ts : list trace),
    Forall (fun t => order_ok rank t = true /\ balanced t = true) ts ->
    forall n c, steps (init ts) n c ->
      n <= list_sum (map (@length ev) ts) /\
      ((forall c', ~ step c c') -> all_finished c).
Proof.
  intros rank ts Hall n c Hs. split.
  - eapply executions_finite; eassumption.
  - apply (maximal_execution_finishes rank ts Hall). eapply steps_reachable; eassumption.
Qed.

(* ---------------------------------------------------------------------- *)
(** * [stuck] is not vacuous : the three classical bugs                    *)
(* ---------------------------------------------------------------------- *)
Local Open Scope N_scope.

Ltac exhibit_stuck sch :=
  match goal with
  | |- exists c, reachable ?c0 c /\ stuck c =>
      let r := eval vm_compute in (try_run c0 sch) in
      match r with
      | Some ?c1 =>
          exists c1; split;
          [ apply (@try_run_sound sch c0 c1); vm_compute; reflexivity
          | apply stuckb_sound; vm_compute; reflexivity ]
      end
  end.

(** AB / BA deadlock *)
Example abba_deadlock :
  exists c,
    reachable (init [ [Acq true Wr 1; Acq true Wr 2; Rel 2; Rel 1];
                      [Acq true Wr 2; Acq true Wr 1; Rel 1; Rel 2] ]) c /\ stuck c.
Proof. exhibit_stuck [(0%nat, Ok); (1%nat, Ok)]. Qed.

(** recursive read lock + queued writer (writer preference) *)
Example recursive_read_deadlock :
  exists c,
    reachable (init [ [Acq true Rd 1; Acq true Rd 1; Rel 1; Rel 1];
                      [Acq true Wr 1; Rel 1] ]) c /\ stuck c.
Proof. exhibit_stuck [(0%nat, Ok)]. Qed.

(** self-deadlock: read after write on the same lock, one thread alone *)
Example self_deadlock :
  exists c,
    reachable (init [ [Acq true Wr 1; Acq true Rd 1; Rel 1; Rel 1] ]) c /\ stuck c.
Proof. exhibit_stuck [(0%nat, Ok)]. Qed.

(** upgrade: Rd then Wr on the same lock, one thread alone *)
Example upgrade_deadlock :
  exists c,
    reachable (init [ [Acq true Rd 1; Acq true Wr 1; Rel 1; Rel 1] ]) c /\ stuck c.
Proof. exhibit_stuck [(0%nat, Ok)]. Qed.

(** the criterion rejects all of them, whatever the ranking: shown here for
    the identity ranking and its reverse on locks 1,2 *)
Example abba_rejected_id :
  forallb (order_ok (fun l => l))
    [ [Acq true Wr 1; Acq true Wr 2; Rel 2; Rel 1];
      [Acq true Wr 2; Acq true Wr 1; Rel 1; Rel 2] ] = false.
Proof. vm_compute. reflexivity. Qed.

Example abba_rejected_rev :
  forallb (order_ok (fun l => 10 - l))
    [ [Acq true Wr 1; Acq true Wr 2; Rel 2; Rel 1];
      [Acq true Wr 2; Acq true Wr 1; Rel 1; Rel 2] ] = false.
Proof. vm_compute. reflexivity. Qed.

Example recursive_read_rejected :
  order_ok (fun l => l) [Acq true Rd 1; Acq true Rd 1; Rel 1; Rel 1] = false.
Proof. vm_compute. reflexivity. Qed.

(** A realistic good trace: model lock (rank 1), then a file (rank 2), then
    elements climbing down the tree (ranks 3, 4, ...), a try-lock of a
    lower-ranked object in between (unconstrained), releases in any order. *)
Definition good_trace : trace :=
  [ Acq true Rd 1; Acq true Rd 2; Acq true Wr 3; Acq false Wr 2; Rel 2;
    Acq true Wr 4; Rel 4; Rel 3; Rel 2; Rel 1;
    Acq true Wr 1; Acq false Rd 7; Rel 7; Acq true Rd 5; Rel 1; Rel 5 ].

Example good_trace_accepted :
  order_ok (fun l => l) good_trace && balanced good_trace = true.
Proof. vm_compute. reflexivity. Qed.

(** the criterion computes on long traces *)
Definition long_trace (n : nat) : trace :=
  flat_map (fun _ => good_trace) (seq 0 n).

Example long_trace_accepted :
  order_ok (fun l => l) (long_trace 100) && balanced (long_trace 100) = true.
Proof. vm_compute. reflexivity. Qed.

Example unbalanced_rejected : balanced [Acq true Rd 1; Rel 2] = false.
Proof. vm_compute. reflexivity. Qed.
