(* ====================================================================== *)
(*  Conc/Footprint.v : lock footprints as FUNCTIONS of operation and world *)
(*                                                                          *)
(*  For a core subset of the operation classes the lock trace of a call is  *)
(*  defined as a function [lock_trace cf fuel o w] of the operation [o] and *)
(*  the world [w] of the heap model (Tree/Heap.v), in exactly the event     *)
(*  vocabulary of Conc/RwLock.v that the criteria consume.  Locks:          *)
(*  element (node) i -> 3i, model m -> 3m+1, file f -> 3f+2.                 *)
(*  The functions mirror element.rs / elementraw.rs / arxmlfile.rs /        *)
(*  autosarmodel.rs lock call by lock call (single-threaded: every try      *)
(*  succeeds); they are tied to the implementation on every run by          *)
(*  comparing them with the traces logged by hook H2 (checks/footprint.py). *)
(*  DEFINITIONS + Examples only; proofs in FootprintProofs.v.               *)
(* ====================================================================== *)
From Coq Require Import List NArith Bool Arith.
From AV Require Import Tree.Heap Conc.RwLock.
Import ListNotations.
Open Scope N_scope.

(** what the footprints need to know beyond the heap: is the element type
    named in SOME version (ElementType::is_named), the ElementName of
    SHORT-NAME, AutosarVersion::LATEST *)
Record cfg := mkCfg { named : node -> bool; shortname : N; latest : N }.

Definition Le (i : id) : lock := 3 * i.
Definition Lm (m : N) : lock := 3 * m + 1.
Definition Lf (f : N) : lock := 3 * f + 2.

(** acquire, run [inner] under the guard, release *)
Definition br (b : bool) (m : mode) (l : lock) (inner : trace) : trace :=
  Acq b m l :: inner ++ [Rel l].

Global Arguments br : simpl never.

Definition first_elem (n : node) : option id :=
  match n_content n with CElem c :: _ => Some c | _ => None end.

Fixpoint elems_of (l : list citem) : list id :=
  match l with
  | [] => []
  | CElem c :: r => c :: elems_of r
  | CData _ :: r => elems_of r
  end.

Definition parent_of (w : world) (i : id) : pref :=
  match w_nodes w i with Some n => n_parent n | None => PNone end.

Definition name_of (w : world) (i : id) : N :=
  match w_nodes w i with Some n => n_name n | None => 0 end.

(** ElementRaw::item_name (the element's own lock is held by the caller):
    timed try on the first sub element when the type is named in some version *)
Definition item_name_in (cf : cfg) (n : node) : trace :=
  if named cf n then match first_elem n with Some c => br false Rd (Le c) [] | None => [] end else [].

(** ElementRaw::is_identifiable: subelem.element_name() = blocking read of the first sub element *)
Definition is_ident_in (cf : cfg) (n : node) : trace :=
  if named cf n then match first_elem n with Some c => br true Rd (Le c) [] | None => [] end else [].

Definition identifiable (cf : cfg) (w : world) (n : node) : bool :=
  named cf n && match first_elem n with Some c => name_of w c =? shortname cf | None => false end.

(** the loop of ElementRaw::path_unchecked over the ancestors, starting at [cur]:
    timed try + item_name, then Element::parent() = BLOCKING read of the same ancestor *)
Fixpoint up_path (cf : cfg) (w : world) (fuel : nat) (cur : id) : trace :=
  match fuel with
  | O => []
  | S f =>
      match w_nodes w cur with
      | None => []
      | Some n =>
          br false Rd (Le cur) (item_name_in cf n) ++ br true Rd (Le cur) [] ++
          match n_parent n with PElem p => up_path cf w f p | _ => [] end
      end
  end.

(** the loop of ElementRaw::xml_path over the ancestors (timed tries only) *)
Fixpoint up_xml (cf : cfg) (w : world) (fuel : nat) (cur : id) : trace :=
  match fuel with
  | O => []
  | S f =>
      match w_nodes w cur with
      | None => []
      | Some n =>
          br false Rd (Le cur) (item_name_in cf n) ++
          match n_parent n with PElem p => up_xml cf w f p | _ => [] end
      end
  end.

Definition xml_path_in (cf : cfg) (w : world) (fuel : nat) (n : node) : trace :=
  item_name_in cf n ++ match n_parent n with PElem p => up_xml cf w fuel p | _ => [] end.

(** Element::model: timed tries up to the root *)
Fixpoint up_try (w : world) (fuel : nat) (cur : id) : trace :=
  match fuel with
  | O => []
  | S f =>
      br false Rd (Le cur) [] ++
      match parent_of w cur with PElem p => up_try w f p | _ => [] end
  end.

(** Element::file_membership: timed try; if the local set is empty, Element::parent() (blocking read) and on to the parent *)
Fixpoint fm (w : world) (fuel : nat) (cur : id) : trace :=
  match fuel with
  | O => []
  | S f =>
      match w_nodes w cur with
      | None => br false Rd (Le cur) []
      | Some n =>
          br false Rd (Le cur) [] ++
          if is_empty (n_files n)
          then br true Rd (Le cur) [] ++ match n_parent n with PElem p => fm w f p | _ => [] end
          else []
      end
  end.

(** the file set it finds (None: ItemDeleted / NoFilesInModel) *)
Fixpoint fm_files (w : world) (fuel : nat) (cur : id) : option (list N) :=
  match fuel with
  | O => None
  | S f =>
      match w_nodes w cur with
      | None => None
      | Some n =>
          if is_empty (n_files n)
          then match n_parent n with PElem p => fm_files w f p | _ => None end
          else Some (n_files n)
      end
  end.

(** Element::min_version: f.version() once, and once more when it is smaller than the minimum so far *)
Fixpoint version_reads (w : world) (ver : N) (fs : list N) : trace :=
  match fs with
  | [] => []
  | f :: r =>
      let fv := match nth_error (w_files w) (N.to_nat f) with Some x => f_version x | None => ver end in
      br true Rd (Lf f) [] ++
      (if fv <? ver then br true Rd (Lf f) [] ++ version_reads w fv r else version_reads w ver r)
  end.

Definition min_version_tr (cf : cfg) (w : world) (fuel : nat) (e : id) : trace :=
  fm w fuel e ++ match fm_files w fuel e with Some fs => version_reads w (latest cf) fs | None => [] end.

(** Element::get_sub_element: element_name() of every sub element up to the first match *)
Fixpoint scan (w : world) (name : N) (l : list id) : trace :=
  match l with
  | [] => []
  | c :: r => br true Rd (Le c) [] ++ if name_of w c =? name then [] else scan w name r
  end.

(** Element::named_parent from the parent [p] on *)
Fixpoint np (cf : cfg) (w : world) (fuel : nat) (p : id) : trace :=
  match fuel with
  | O => []
  | S f =>
      match w_nodes w p with
      | None => []
      | Some n =>
          br true Rd (Le p) (is_ident_in cf n) ++
          if identifiable cf w n then []
          else br true Rd (Le p) [] ++ match n_parent n with PElem q => np cf w f q | _ => [] end
      end
  end.

(** Element::serialize (serialize_internal with for_file = None): the read lock of the element is held while every
    sub element is serialized *)
Fixpoint ser (w : world) (fuel : nat) (e : id) : trace :=
  match fuel with
  | O => []
  | S f =>
      br true Rd (Le e)
         (match w_nodes w e with Some n => flat_map (ser w f) (elems_of (n_content n)) | None => [] end)
  end.

(** the operation classes with a footprint function *)
Inductive lop :=
| LRead1 (e : id)        (* Element::parent, element_name, element_type, character_data, attribute_value, comment,
                            content_item_count, one step of sub_elements() / content() / attributes() *)
| LWrite1 (e : id)       (* Element::remove_attribute, set_comment, insert_character_content_item,
                            remove_character_content_item *)
| LModelRead (m : N)     (* AutosarModel::get_element_by_path, get_references_to, root_element, one step of files() /
                            identifiable_elements() *)
| LFileRead (f : N)      (* ArxmlFile::version, filename, xml_standalone *)
| LItemName (e : id)     (* Element::item_name *)
| LIsIdentifiable (e : id)
| LGetSubElement (e : id) (name : N)
| LPosition (e : id)
| LModelOf (e : id)      (* Element::model *)
| LFileMembership (e : id)
| LMinVersion (e : id)
| LNamedParent (e : id)
| LXmlPath (e : id)
| LPath (e : id)
| LSetAttribute (e : id)  (* Element::set_attribute, set_attribute_string *)
| LSerialize (e : id)     (* Element::serialize *)
| LSetCharData (e : id)   (* Element::set_character_data with a value the specification accepts, on an element that is neither a
                             SHORT-NAME nor a reference *)
| LRemoveCharData (e : id) (* Element::remove_character_data of such an element that has character data *)
| LFileModel (f : N).     (* ArxmlFile::model (takes the WRITE lock of the file) *)

Definition lock_trace (cf : cfg) (fuel : nat) (o : lop) (w : world) : trace :=
  match o with
  | LRead1 e => br true Rd (Le e) []
  | LWrite1 e => br true Wr (Le e) []
  | LModelRead m => br true Rd (Lm m) []
  | LFileRead f => br true Rd (Lf f) []
  | LItemName e =>
      br true Rd (Le e) (match w_nodes w e with Some n => item_name_in cf n | None => [] end)
  | LIsIdentifiable e =>
      br true Rd (Le e) (match w_nodes w e with Some n => is_ident_in cf n | None => [] end)
  | LGetSubElement e name =>
      br true Rd (Le e) (match w_nodes w e with Some n => scan w name (elems_of (n_content n)) | None => [] end)
  | LPosition e =>
      br true Rd (Le e) [] ++ match parent_of w e with PElem p => br true Rd (Le p) [] | _ => [] end
  | LModelOf e => up_try w fuel e
  | LFileMembership e => fm w fuel e
  | LMinVersion e => min_version_tr cf w fuel e
  | LNamedParent e =>
      br true Rd (Le e) [] ++ match parent_of w e with PElem p => np cf w fuel p | _ => [] end
  | LXmlPath e =>
      br true Rd (Le e) (match w_nodes w e with Some n => xml_path_in cf w fuel n | None => [] end)
  | LPath e =>
      br true Rd (Le e)
        (match w_nodes w e with
         | None => []
         | Some n =>
             is_ident_in cf n ++
             if identifiable cf w n
             then item_name_in cf n ++ match n_parent n with PElem p => up_path cf w fuel p | _ => [] end
             else xml_path_in cf w fuel n
         end)
  | LSetAttribute e =>
      min_version_tr cf w fuel e ++
      match fm_files w fuel e with Some _ => br true Wr (Le e) [] | None => [] end
  | LSerialize e => ser w fuel e
  | LSetCharData e =>
      (* elemtype(); model(); min_version(); element_name(); write *)
      br true Rd (Le e) [] ++ up_try w fuel e ++ min_version_tr cf w fuel e ++
      match fm_files w fuel e with
      | Some _ => br true Rd (Le e) [] ++ br true Wr (Le e) []
      | None => []
      end
  | LRemoveCharData e =>
      (* elemtype(); element_name(); character_data(); is_reference() = elemtype(); write *)
      br true Rd (Le e) [] ++ br true Rd (Le e) [] ++ br true Rd (Le e) [] ++ br true Rd (Le e) [] ++ br true Wr (Le e) []
  | LFileModel f => br true Wr (Lf f) []
  end.

(** a thread that performs several calls one after the other *)
Definition thread_trace (cf : cfg) (fuel : nat) (w : world) (os : list lop) : trace :=
  flat_map (fun o => lock_trace cf fuel o w) os.

(** the classes whose footprint never blocks against the tree order (everything but LPath) *)
Definition order_class (o : lop) : bool := match o with LPath _ => false | _ => true end.

(** the classes whose footprint is one critical section (two-phase) *)
Definition two_phase_class (o : lop) : bool :=
  match o with
  | LRead1 _ | LWrite1 _ | LModelRead _ | LFileRead _ | LItemName _ | LIsIdentifiable _ | LFileModel _ => true
  | _ => false
  end.

(** trace equality as a boolean, for the tie *)
Definition ev_eqb (a b : ev) : bool :=
  match a, b with
  | Acq b1 m1 l1, Acq b2 m2 l2 => Bool.eqb b1 b2 && mode_eqb m1 m2 && N.eqb l1 l2
  | Rel l1, Rel l2 => N.eqb l1 l2
  | _, _ => false
  end.
Fixpoint trace_eqb (a b : trace) : bool :=
  match a, b with
  | [], [] => true
  | x :: a', y :: b' => ev_eqb x y && trace_eqb a' b'
  | _, _ => false
  end.

(** worlds given as association lists (for the tie: the check writes the harness' world dump in this form) *)
Fixpoint nodes_of (l : list (id * node)) (i : id) : option node :=
  match l with
  | [] => None
  | (k, n) :: r => if N.eqb k i then Some n else nodes_of r i
  end.
Definition mk_node (p : pref) (name : N) (is_named : bool) (content : list citem) (files : list N) : node :=
  mkNode p name ((if is_named then 1 else 0), 0) content [] files None.
Definition cfg_flag (sn lt : N) : cfg := mkCfg (fun n => N.eqb (fst (n_type n)) 1) sn lt.

(* ---------------------------------------------------------------------- *)
Example ex_world : world :=
  mkWorld (nodes_of [ (0, mk_node (PModel 0) 1 false [CElem 1] [0]);
                      (1, mk_node (PElem 0) 2 false [CElem 2] []);
                      (2, mk_node (PElem 1) 3 true [CElem 3; CElem 4] []);
                      (3, mk_node (PElem 2) 9 false [CData (DString [65])] []);
                      (4, mk_node (PElem 2) 5 false [] []) ])
          5 [mkFile 0 [] 7 None] [mkModel 0 [0] [] []].

Example ex_item_name :
  lock_trace (cfg_flag 9 100) 10 (LItemName 2) ex_world = [Acq true Rd 6; Acq false Rd 9; Rel 9; Rel 6].
Proof. reflexivity. Qed.

Example ex_path :
  lock_trace (cfg_flag 9 100) 10 (LPath 2) ex_world =
  [Acq true Rd 6; Acq true Rd 9; Rel 9; Acq false Rd 9; Rel 9;
   Acq false Rd 3; Rel 3; Acq true Rd 3; Rel 3; Acq false Rd 0; Rel 0; Acq true Rd 0; Rel 0; Rel 6].
Proof. reflexivity. Qed.

Example ex_set_attribute :
  lock_trace (cfg_flag 9 100) 10 (LSetAttribute 4) ex_world =
  [Acq false Rd 12; Rel 12; Acq true Rd 12; Rel 12; Acq false Rd 6; Rel 6; Acq true Rd 6; Rel 6;
   Acq false Rd 3; Rel 3; Acq true Rd 3; Rel 3; Acq false Rd 0; Rel 0;
   Acq true Rd 2; Rel 2; Acq true Rd 2; Rel 2; Acq true Wr 12; Rel 12].
Proof. reflexivity. Qed.
