(* ====================================================================== *)
(*  Conc/Eval.v : the functions the checks evaluate on LOGGED traces       *)
(*                                                                          *)
(*  checks/locks_common.py writes the lock traces recorded by hook H2 as    *)
(*  Gallina lists and evaluates [verdict] / [stuck_after] on them with      *)
(*  vm_compute, so that the boolean criteria whose soundness is proved in   *)
(*  Deadlock.v / SelfConflict.v / TwoPhase.v are what decides.              *)
(*  (definitions and examples only; proofs are in EvalProofs.v)             *)
(* ====================================================================== *)
From Coq Require Import List NArith Bool Arith.
From AV Require Import Conc.RwLock Conc.Deadlock Conc.SelfConflict Conc.TwoPhase.
Import ListNotations.

(** rank function given as an association list (lock, rank); locks that do
    not occur get rank 0 *)
Fixpoint rank_of (tbl : list (N * N)) (l : lock) : N :=
  match tbl with
  | [] => 0%N
  | (k, r) :: tbl' => if N.eqb k l then r else rank_of tbl' l
  end.

(** the data trace of a lock trace: every guard is used for a read, a write
    guard also for a write (the access kind is the guard's mode; that data
    is touched only through the guard is what Rust's guard types enforce) *)
Definition dev_of (e : ev) : list dev :=
  match e with
  | Acq _ Rd l => [DAcq Rd l; DRead l]
  | Acq _ Wr l => [DAcq Wr l; DRead l; DWrite l (fun _ => 0%N)]
  | Rel l => [DRel l]
  end.

Definition to_dev (t : trace) : list dev := flat_map dev_of t.

(** Validate-before-mutate at lock level (a SIGNAL, no soundness theorem is claimed for it): a call that can give up
    with the documented lock error (a try at a site whose failure returns ParentElementLocked = a "bail try") must not
    have completed a write section before: no write-mode guard on a lock that existed before the call has been
    RELEASED when a bail try is attempted.  Events carry a flag: for [Acq] "this is a bail try", for [Rel] "the lock
    existed before the call" (writes to objects the call created itself cannot be observed when it gives up). *)
Definition h_mode (h : hlist) (l : lock) : option mode :=
  match find (fun p => N.eqb (fst p) l) h with Some p => Some (snd p) | None => None end.

Fixpoint vbm_from (h : hlist) (wdone : bool) (t : list (ev * bool)) : bool :=
  match t with
  | [] => true
  | (Acq _ m l, bail) :: t' => (if bail then negb wdone else true) && vbm_from ((l, m) :: h) wdone t'
  | (Rel l, tracked) :: t' =>
      let w := match h_mode h l with Some Wr => tracked | _ => false end in
      vbm_from (remove_first l h) (wdone || w) t'
  end.

Definition validate_before_mutate (t : list (ev * bool)) : bool := vbm_from [] false t.

Record verdicts := mkV { v_balanced : bool; v_self : bool; v_order : bool;
                         v_two_phase : bool; v_well_locked : bool; v_dbalanced : bool }.

(** [t]  : the trace with failed tries written as [Acq false m l; Rel l]
    [t2] : the same trace without the failed tries (no guard was obtained) *)
Definition verdict (tbl : list (N * N)) (t t2 : trace) : verdicts :=
  mkV (balanced t) (self_ok t) (order_ok (rank_of tbl) t)
      (two_phase (to_dev t2)) (well_locked (to_dev t2)) (dbalanced (to_dev t2)).

Definition b2n (b : bool) : N := if b then 1%N else 0%N.
Definition verdict_n (tbl : list (N * N)) (t t2 : trace) : list N :=
  let v := verdict tbl t t2 in
  [b2n (v_balanced v); b2n (v_self v); b2n (v_order v);
   b2n (v_two_phase v); b2n (v_well_locked v); b2n (v_dbalanced v)].

(** the same with the validate-before-mutate signal appended; [t3] is [t] with the flags described above *)
Definition verdict7 (tbl : list (N * N)) (t t2 : trace) (t3 : list (ev * bool)) : list N :=
  verdict_n tbl t t2 ++ [b2n (validate_before_mutate t3)].

(** replay of a recorded deadlock: running the schedule from the initial
    configuration of the recorded (truncated) traces ends in a stuck
    configuration *)
Definition stuck_after (ts : list trace) (sch : list (tid * outcome)) : bool :=
  match try_run (init ts) sch with
  | Some c => stuckb c
  | None => false
  end.

(** exhaustive search for a stuck configuration (successful steps only),
    bounded by fuel; used to look for a deadlock between the SINGLE-thread
    traces of two operation instances *)
Fixpoint find_stuck (fuel : nat) (c : config) : bool :=
  match fuel with
  | O => false
  | S f =>
      stuckb c ||
      existsb (fun t => match try_step c t Ok with
                        | Some c' => find_stuck f c'
                        | None => false
                        end) (seq 0 (length c))
  end.

Local Open Scope N_scope.
Example rank_of_ex : rank_of [(3, 10); (7, 11)] 7 = 11 /\ rank_of [(3, 10)] 9 = 0.
Proof. split; reflexivity. Qed.

Example verdict_ex :
  verdict_n [(1, 10); (2, 11)]
    [Acq true Rd 1; Acq true Wr 2; Rel 2; Rel 1]
    [Acq true Rd 1; Acq true Wr 2; Rel 2; Rel 1] = [1; 1; 1; 1; 1; 1].
Proof. vm_compute. reflexivity. Qed.

(** a failed try on a lock the thread holds itself is a self conflict *)
Example verdict_self_try :
  verdict_n [(1, 10)] [Acq true Wr 1; Acq false Rd 1; Rel 1; Rel 1] [Acq true Wr 1; Rel 1]
  = [1; 0; 1; 1; 1; 1].
Proof. vm_compute. reflexivity. Qed.

(** write section on lock 2 completed, then a bail try on 3: rejected; the same with the try first: accepted *)
Example vbm_rejects :
  validate_before_mutate [(Acq true Wr 1, false); (Acq true Wr 2, false); (Rel 2, true); (Acq false Wr 3, true);
                          (Rel 3, true); (Rel 1, true)] = false.
Proof. vm_compute. reflexivity. Qed.
Example vbm_accepts :
  validate_before_mutate [(Acq true Wr 1, false); (Acq false Wr 3, true); (Acq true Wr 2, false); (Rel 2, true);
                          (Rel 3, true); (Rel 1, true)] = true.
Proof. vm_compute. reflexivity. Qed.
(** a write section on a lock created by the call itself does not count *)
Example vbm_fresh :
  validate_before_mutate [(Acq true Wr 9, false); (Rel 9, false); (Acq false Rd 3, true); (Rel 3, true)] = true.
Proof. vm_compute. reflexivity. Qed.

Example stuck_after_abba :
  stuck_after [ [Acq true Wr 1; Acq true Wr 2]; [Acq true Wr 2; Acq true Wr 1] ]
              [(0%nat, Ok); (1%nat, Ok)] = true.
Proof. vm_compute. reflexivity. Qed.

Example find_stuck_recursive_read :
  find_stuck 10 (init [ [Acq true Rd 1; Acq true Rd 1; Rel 1; Rel 1]; [Acq true Wr 1; Rel 1] ]) = true.
Proof. vm_compute. reflexivity. Qed.

Example find_stuck_none :
  find_stuck 20 (init [ [Acq true Rd 1; Acq true Wr 2; Rel 2; Rel 1]; [Acq true Wr 1; Acq true Wr 2; Rel 2; Rel 1] ]) = false.
Proof. vm_compute. reflexivity. Qed.
