(* Hash/HashRealAttr.v — the generic certificates of HashProofs.v evaluated in the kernel (vm_compute)
   on the table the translator extracted from the current source.  [F] finite-complete. *)
From AV Require Import Base.Bytes Hash.HashModel Hash.HashProofs.
From AV.Gen Require NamesAttr.
Open Scope N_scope.

Definition strtab_attr : list (list N) := Eval vm_compute in map bytes_of_string NamesAttr.strtab_s.

Definition tab_attr : nametab :=
  {| nt_strtab := strtab_attr; nt_disp := NamesAttr.disp;
     nt_mdisp := NamesAttr.m_disp; nt_mtab := NamesAttr.m_tab |}.

Definition discr_attr : list (list N * N) :=
  Eval vm_compute in map (fun p => (bytes_of_string (fst p), snd p)) NamesAttr.discr.

Lemma attr_tabs_ok : tabs_ok tab_attr = true.
Proof. vm_cast_no_check (@eq_refl bool true). Qed.
Lemma attr_roundtrip_ok : roundtrip_ok tab_attr = true.
Proof. vm_cast_no_check (@eq_refl bool true). Qed.
Lemma attr_discr_ok : discr_ok tab_attr discr_attr = true.
Proof. vm_cast_no_check (@eq_refl bool true). Qed.
