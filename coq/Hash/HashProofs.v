(* Hash/HashProofs.v — facts about from_bytes/to_str that hold for every name table,
   plus boolean certificates that are evaluated on the real (generated) tables in Properties/C18.v. *)
From Coq Require Import FinFun.
From AV Require Import Base.Bytes Hash.HashModel.
Open Scope N_scope.

Definition iotaN (n : N) : list N := map N.of_nat (seq 0 (N.to_nat n)).

Lemma iotaN_spec n i : In i (iotaN n) <-> i < n.
Proof.
  unfold iotaN. rewrite in_map_iff. split.
  - intros (k & <- & Hk). apply in_seq in Hk. lia.
  - intros H. exists (N.to_nat i). split; [apply N2Nat.id|]. apply in_seq. lia.
Qed.

Lemma iotaN_length n : List.length (iotaN n) = N.to_nat n.
Proof. unfold iotaN. rewrite map_length, seq_length. reflexivity. Qed.

Lemma iotaN_NoDup n : NoDup (iotaN n).
Proof.
  unfold iotaN. apply Injective_map_NoDup.
  - intros a b H. apply Nat2N.inj in H. exact H.
  - apply seq_NoDup.
Qed.

(* ---------- [U] only members are accepted: the final byte comparison ---------- *)

Theorem from_bytes_only_members (t : nametab) (s : list N) (i : N) :
  from_bytes t s = Ok i -> to_str t i = Some s.
Proof.
  unfold from_bytes, to_str.
  destruct (hashfunc s) as [[g f1] f2].
  destruct (nt_mdisp t =? 0); [discriminate|].
  destruct (nth_opt (nt_disp t) _) as [[d1 d2]|]; [|discriminate].
  destruct (nt_mtab t =? 0); [discriminate|].
  set (idx := ((d2 + (f1 * d1) mod M32) mod M32 + f2) mod M32 mod nt_mtab t).
  destruct (nth_opt (nt_strtab t) (N.to_nat idx)) as [str|] eqn:Hn; [|discriminate].
  destruct (bytes_eqb str s) eqn:He; [|discriminate].
  intros [= <-]. apply bytes_eqb_spec in He. subst str. exact Hn.
Qed.

(* ---------- [U] no input can make from_bytes panic, given well-sized tables ---------- *)

Definition tabs_ok (t : nametab) : bool :=
  negb (nt_mdisp t =? 0) && negb (nt_mtab t =? 0)
  && (N.of_nat (List.length (nt_disp t)) =? nt_mdisp t)
  && (N.of_nat (List.length (nt_strtab t)) =? nt_mtab t).

Theorem from_bytes_no_panic (t : nametab) (s : list N) :
  tabs_ok t = true -> from_bytes t s <> Panic.
Proof.
  unfold tabs_ok. rewrite !andb_true_iff, !negb_true_iff, !N.eqb_eq, !N.eqb_neq.
  intros [[[Hm Hn] Hld] Hls]. unfold from_bytes.
  destruct (hashfunc s) as [[g f1] f2].
  destruct (nt_mdisp t =? 0) eqn:E1; [apply N.eqb_eq in E1; contradiction|].
  destruct (nth_opt (nt_disp t) _) as [[d1 d2]|] eqn:E2.
  2:{ exfalso.
      destruct (nth_opt_lt (nt_disp t) (N.to_nat (g mod nt_mdisp t))) as [x Hx].
      - pose proof (N.mod_lt g (nt_mdisp t) Hm). lia.
      - congruence. }
  destruct (nt_mtab t =? 0) eqn:E3; [apply N.eqb_eq in E3; contradiction|].
  set (idx := ((d2 + (f1 * d1) mod M32) mod M32 + f2) mod M32 mod nt_mtab t).
  destruct (nth_opt (nt_strtab t) (N.to_nat idx)) as [str|] eqn:E4.
  - destruct (bytes_eqb str s); discriminate.
  - exfalso. destruct (nth_opt_lt (nt_strtab t) (N.to_nat idx)) as [x Hx].
    + pose proof (N.mod_lt (((d2 + (f1 * d1) mod M32) mod M32 + f2) mod M32) (nt_mtab t) Hn).
      fold idx in H. lia.
    + congruence.
Qed.

(* ---------- [F] round trip, as a boolean certificate over all indices ---------- *)

Definition roundtrip_at (t : nametab) (i : N) : bool :=
  match to_str t i with
  | Some s => match from_bytes t s with Ok j => j =? i | _ => false end
  | None => false
  end.

Definition roundtrip_ok (t : nametab) : bool := forallb (roundtrip_at t) (iotaN (nt_mtab t)).

Theorem roundtrip_sound (t : nametab) :
  roundtrip_ok t = true ->
  forall i, i < nt_mtab t -> exists s, to_str t i = Some s /\ from_bytes t s = Ok i.
Proof.
  unfold roundtrip_ok. rewrite forallb_forall. intros H i Hi.
  specialize (H i (proj2 (iotaN_spec _ _) Hi)). unfold roundtrip_at in H.
  destruct (to_str t i) as [s|]; [|discriminate].
  destruct (from_bytes t s) as [j| |] eqn:E; try discriminate.
  apply N.eqb_eq in H. subst j. eauto.
Qed.

(* distinct items have distinct texts *)
Theorem to_str_injective (t : nametab) :
  roundtrip_ok t = true ->
  forall i j s, i < nt_mtab t -> j < nt_mtab t ->
    to_str t i = Some s -> to_str t j = Some s -> i = j.
Proof.
  intros H i j s Hi Hj Si Sj.
  destruct (roundtrip_sound t H i Hi) as (s1 & E1 & F1).
  destruct (roundtrip_sound t H j Hj) as (s2 & E2 & F2).
  assert (s1 = s) by congruence. assert (s2 = s) by congruence. subst.
  congruence.
Qed.

(* the exact characterisation, for every byte string *)
Theorem from_bytes_iff (t : nametab) :
  roundtrip_ok t = true -> tabs_ok t = true ->
  forall s i, from_bytes t s = Ok i <-> (i < nt_mtab t /\ to_str t i = Some s).
Proof.
  intros Hr Ht s i. split.
  - intros H. split; [|apply from_bytes_only_members; exact H].
    apply from_bytes_only_members in H. unfold to_str in H. apply nth_opt_Some in H.
    unfold tabs_ok in Ht. rewrite !andb_true_iff, !N.eqb_eq in Ht. lia.
  - intros [Hi Hs]. destruct (roundtrip_sound t Hr i Hi) as (s' & E & F). congruence.
Qed.

Corollary from_bytes_nonmember (t : nametab) :
  roundtrip_ok t = true -> tabs_ok t = true ->
  forall s, (forall i, i < nt_mtab t -> to_str t i <> Some s) -> from_bytes t s = Err.
Proof.
  intros Hr Ht s Hno. destruct (from_bytes t s) as [i| |] eqn:E; [|reflexivity|].
  - apply (from_bytes_iff t Hr Ht) in E as [Hi Hs]. exfalso. exact (Hno i Hi Hs).
  - exfalso. exact (from_bytes_no_panic t s Ht E).
Qed.

(* ---------- [F] the enum discriminants are exactly 0..n-1 and name the right text ---------- *)

Fixpoint nodupb (l : list N) : bool :=
  match l with
  | [] => true
  | x :: l' => negb (existsb (N.eqb x) l') && nodupb l'
  end.

Lemma nodupb_NoDup l : nodupb l = true -> NoDup l.
Proof.
  induction l as [|x l IH]; cbn [nodupb]; [constructor|].
  rewrite andb_true_iff, negb_true_iff. intros [Hx Hl]. constructor; [|auto].
  intros Hin. assert (existsb (N.eqb x) l = true); [|congruence].
  apply existsb_exists. exists x. split; [exact Hin|apply N.eqb_refl].
Qed.

(* discr : (doc text, discriminant) of every variant in source order *)
Definition discr_ok (t : nametab) (discr : list (list N * N)) : bool :=
  (N.of_nat (List.length discr) =? nt_mtab t)
  && nodupb (map snd discr)
  && forallb (fun p => match to_str t (snd p) with
                       | Some s => bytes_eqb s (fst p)
                       | None => false end) discr.

Theorem discr_sound (t : nametab) discr :
  discr_ok t discr = true -> tabs_ok t = true ->
  (* every declared discriminant is a table index and its doc text is the table text *)
  (forall txt d, In (txt, d) discr -> d < nt_mtab t /\ to_str t d = Some txt) /\
  (* every table index is a declared discriminant (so transmute of any index is a valid enum value) *)
  (forall i, i < nt_mtab t -> exists txt, In (txt, i) discr).
Proof.
  unfold discr_ok, tabs_ok. rewrite !andb_true_iff, !N.eqb_eq, forallb_forall.
  intros [[Hlen Hnd] Hall] [[[_ _] _] Hls].
  assert (A : forall txt d, In (txt, d) discr -> d < nt_mtab t /\ to_str t d = Some txt).
  { intros txt d Hin. specialize (Hall _ Hin). cbn [fst snd] in Hall.
    destruct (to_str t d) as [s|] eqn:E; [|discriminate].
    apply bytes_eqb_spec in Hall. subst s. split; [|reflexivity].
    unfold to_str in E. apply nth_opt_Some in E. lia. }
  split; [exact A|].
  intros i Hi.
  assert (Hincl : incl (iotaN (nt_mtab t)) (map snd discr)).
  { apply NoDup_length_incl.
    - apply nodupb_NoDup; exact Hnd.
    - rewrite iotaN_length, map_length. lia.
    - intros d Hd. apply in_map_iff in Hd as ([txt d'] & <- & Hin). cbn [snd].
      apply iotaN_spec. apply (A txt d' Hin). }
  specialize (Hincl i (proj2 (iotaN_spec _ _) Hi)).
  apply in_map_iff in Hincl as ([txt d] & Hd & Hin). cbn [snd] in Hd. subst d. eauto.
Qed.
