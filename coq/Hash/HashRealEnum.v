(* Hash/HashRealEnum.v — the generic certificates of HashProofs.v evaluated in the kernel (vm_compute)
   on the table the translator extracted from the current source.  [F] finite-complete. *)
From AV Require Import Base.Bytes Hash.HashModel Hash.HashProofs.
From AV.Gen Require NamesEnum.
Open Scope N_scope.

Definition strtab_enum : list (list N) := Eval vm_compute in map bytes_of_string NamesEnum.strtab_s.

Definition tab_enum : nametab :=
  {| nt_strtab := strtab_enum; nt_disp := NamesEnum.disp;
     nt_mdisp := NamesEnum.m_disp; nt_mtab := NamesEnum.m_tab |}.

Definition discr_enum : list (list N * N) :=
  Eval vm_compute in map (fun p => (bytes_of_string (fst p), snd p)) NamesEnum.discr.

Lemma enum_tabs_ok : tabs_ok tab_enum = true.
Proof. vm_cast_no_check (@eq_refl bool true). Qed.
Lemma enum_roundtrip_ok : roundtrip_ok tab_enum = true.
Proof. vm_cast_no_check (@eq_refl bool true). Qed.
Lemma enum_discr_ok : discr_ok tab_enum discr_enum = true.
Proof. vm_cast_no_check (@eq_refl bool true). Qed.
