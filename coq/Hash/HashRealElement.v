(* Hash/HashRealElement.v — the generic certificates of HashProofs.v evaluated in the kernel (vm_compute)
   on the table the translator extracted from the current source.  [F] finite-complete. *)
From AV Require Import Base.Bytes Hash.HashModel Hash.HashProofs.
From AV.Gen Require NamesElement.
Open Scope N_scope.

Definition strtab_element : list (list N) := Eval vm_compute in map bytes_of_string NamesElement.strtab_s.

Definition tab_element : nametab :=
  {| nt_strtab := strtab_element; nt_disp := NamesElement.disp;
     nt_mdisp := NamesElement.m_disp; nt_mtab := NamesElement.m_tab |}.

Definition discr_element : list (list N * N) :=
  Eval vm_compute in map (fun p => (bytes_of_string (fst p), snd p)) NamesElement.discr.

Lemma element_tabs_ok : tabs_ok tab_element = true.
Proof. vm_cast_no_check (@eq_refl bool true). Qed.
Lemma element_roundtrip_ok : roundtrip_ok tab_element = true.
Proof. vm_cast_no_check (@eq_refl bool true). Qed.
Lemma element_discr_ok : discr_ok tab_element discr_element = true.
Proof. vm_cast_no_check (@eq_refl bool true). Qed.
