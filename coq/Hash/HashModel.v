(* Hash/HashModel.v — model of autosar-data-specification/src/lib.rs::hashfunc and of
   {ElementName,AttributeName,EnumItem}::{from_bytes,to_str}.
   Hand-written, expression for expression; the constants and tables come from Gen/ (translator).
   u32 arithmetic is N with explicit mod 2^32 exactly where the Rust wraps
   (rotate_left, wrapping_mul, wrapping_add; bitxor never leaves the range).
   from_ne_bytes is little-endian (x86-64 is the only target of this sandbox). *)
From AV Require Import Base.Bytes.
From AV.Gen Require Import HashConsts.
Open Scope N_scope.

Definition M32 : N := 4294967296.

Definition rotl32 (x k : N) : N :=
  N.lor (N.shiftl x k mod M32) (N.shiftr x (32 - k)).

Definition mix (f rot val c : N) : N := (N.lxor (rotl32 f rot) val * c) mod M32.

(* the three stages of hashfunc: 4-byte chunks, then one 2-byte chunk, then one byte *)
Fixpoint hash_loop (data : list N) (f1 f2 : N) {struct data} : N * N :=
  match data with
  | b0 :: b1 :: b2 :: b3 :: rest =>
      let val := b0 + 256 * b1 + 65536 * b2 + 16777216 * b3 in
      hash_loop rest (mix f1 ROT1 val HASHCONST1) (mix f2 ROT2 val HASHCONST2)
  | b0 :: b1 :: rest =>
      let val := b0 + 256 * b1 in
      let f1 := mix f1 ROT1 val HASHCONST1 in
      let f2 := mix f2 ROT2 val HASHCONST2 in
      match rest with
      | b :: _ => (mix f1 ROT1 b HASHCONST1, mix f2 ROT2 b HASHCONST2)
      | [] => (f1, f2)
      end
  | [b] => (mix f1 ROT1 b HASHCONST1, mix f2 ROT2 b HASHCONST2)
  | [] => (f1, f2)
  end.

Definition hashfunc (data : list N) : N * N * N :=
  let '(f1, f2) := hash_loop data SEED1 SEED2 in
  (N.lxor f1 f2, f1, f2).

(* one name table as the translator extracts it *)
Record nametab := {
  nt_strtab : list (list N);   (* STRING_TABLE as byte strings *)
  nt_disp : list (N * N);      (* DISPLACEMENTS *)
  nt_mdisp : N;                (* the modulus in DISPLACEMENTS[(g % M)] *)
  nt_mtab : N                  (* the modulus in ... as usize % N *)
}.

Inductive outcome (A : Type) := Ok (a : A) | Err | Panic.
Arguments Ok {A} a. Arguments Err {A}. Arguments Panic {A}.

(* from_bytes: Ok idx = Ok(transmute(idx as u16)); Err = Err(Parse..Error);
   Panic = index out of bounds (DISPLACEMENTS[..] or STRING_TABLE[..]) or `% 0`. *)
Definition from_bytes (t : nametab) (input : list N) : outcome N :=
  let '(g, f1, f2) := hashfunc input in
  if nt_mdisp t =? 0 then Panic else
  match nth_opt (nt_disp t) (N.to_nat (g mod nt_mdisp t)) with
  | None => Panic
  | Some (d1, d2) =>
      if nt_mtab t =? 0 then Panic else
      let item_idx := ((d2 + (f1 * d1) mod M32) mod M32 + f2) mod M32 mod nt_mtab t in
      match nth_opt (nt_strtab t) (N.to_nat item_idx) with
      | None => Panic
      | Some str => if bytes_eqb str input then Ok item_idx else Err
      end
  end.

(* to_str on discriminant d: STRING_TABLE[*self as usize] *)
Definition to_str (t : nametab) (d : N) : option (list N) := nth_opt (nt_strtab t) (N.to_nat d).
