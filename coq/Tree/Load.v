(* Tree/Load.v — model of AutosarModel::load_buffer_internal, merge_file_data, merge_element, calc_identifiables_merge,
   calc_element_merge, import_new_items, merge_sub_elements (autosarmodel.rs): the parsed element tree
   (Xml/Parser.v `load`) is installed into the heap and merged into the model.

   Load-temporary nodes (DESIGN.md section 5).  The incoming tree is built by the parser as ordinary elements; the ones
   that merge_element does not import (the incoming root, every container merged into an existing element, and whatever
   the failed-merge rollback deletes again) are owned by load_buffer_internal alone and are dropped when it returns:
   no handle to them can exist, every WeakElement that still names them (reference_origins gets one for EVERY reference
   of the incoming file, identifiables may) is dead from then on.  The model keeps such a node allocated but turns it
   into a `dead` node at the end of the load: detached (parent PNone), no sub-elements listed, membership = [DEAD].
   Operations that walk the index lists treat every id alike (the Rust skips dead weak references, the model mutates a
   dead node nobody can see); the two places where the Rust OBSERVES liveness — `upgrade()` in get_element_by_path /
   the overlap check, and in check_references — are modelled by `is_dead` (queries `q_*_live` below).
   The ArxmlFile object of a load that fails after the parse is dropped as well, but elements may keep its weak
   reference in their file_membership set (a probed defect): the model renames such a file id to a fresh dead id
   (>= 2^16, never an index into w_files) and takes the file record out of w_files again.
   MODEL ONLY: definitions, no proofs. *)
From AV Require Import Base.Bytes Base.Outcome Hash.HashModel Tree.Heap Tree.Ops.
From AV Require Xml.Lexer Xml.Parser.
Open Scope string_scope.
Open Scope list_scope.
Open Scope N_scope.

(* ------------------------------------------------------------------ installing a parsed tree *)
Definition to_hc (d : Parser.cdata) : cdata :=
  match d with
  | Parser.DEnum e => DEnum e | Parser.DString s => DString s | Parser.DUInt n => DUInt n | Parser.DFloat b => DFloat b
  end.

(* the node ids given to a parsed tree, in the shape of its content lists (None = a character data item) *)
Inductive itree := INode (i : id) (kids : list (option itree)).
Definition it_id (t : itree) : id := match t with INode i _ => i end.

(* ElementRaw{..}.wrap() for every element of the tree, parent links as the parser sets them (root: None) *)
Fixpoint install (parent : pref) (e : Parser.etree) {struct e} : W itree :=
  match e with
  | Parser.ENode name ty attrs content comment =>
    (do i <- alloc (mkNode parent name ty [] (map (fun a => (fst a, to_hc (snd a))) attrs) [] comment);
     do '(items, kids) <-
       (fix go (l : list (Parser.etree + Parser.cdata)) : W (list citem * list (option itree)) :=
          match l with
          | [] => wret ([], [])
          | inl c :: r => do t <- install (PElem i) c; do '(cs, ts) <- go r; wret (CElem (it_id t) :: cs, Some t :: ts)
          | inr d :: r => do '(cs, ts) <- go r; wret (CData (to_hc d) :: cs, None :: ts)
          end) content;
     modify_node i (fun x => set_content x items);;
     wret (INode i kids))%W
  end.

(* the element a parser position (child indices from the root, counting every content item) denotes *)
Fixpoint it_at (t : itree) (pos : list nat) {struct pos} : option id :=
  match pos with
  | [] => Some (it_id t)
  | k :: r => match t with INode _ kids => match nth_error kids k with Some (Some c) => it_at c r | _ => None end end
  end.

(* ------------------------------------------------------------------ dead nodes and dead files *)
(* Bound of the encoding: fewer than 65535 ArxmlFile objects are ever created in one world.  (The ids must stay small:
   Ops.min_version converts every member of a membership set with N.to_nat.) *)
Definition DEAD : N := 65535.                           (* membership marker of a dead node: never a file id *)
Definition DEAD_FILE_BASE : N := 65536.                 (* dead file ids are >= 2^16 *)
Definition is_dead (n : node) : bool := match n_files n with [x] => x =? DEAD | _ => false end.
Definition node_dead (w : world) (i : id) : bool := match w_nodes w i with Some n => is_dead n | None => true end.

Definition cdata_only (l : list citem) : list citem :=
  filter (fun it => match it with CData _ => true | CElem _ => false end) l.
Definition kill (n : node) : node := mkNode PNone (n_name n) (n_type n) (cdata_only (n_content n)) (n_attrs n) [DEAD] (n_comment n).

Fixpoint n_range (k : nat) (from : N) : list N := match k with O => [] | S k' => from :: n_range k' (from + 1) end.

(* every node allocated in [from, w_next) that is not listed in `keep` becomes a dead node *)
Definition kill_unreachable (from : id) (keep : list id) : W unit :=
  fun w =>
    let ids := n_range (N.to_nat (w_next w - from)) from in
    let nodes := fold_left (fun f i => if existsb (N.eqb i) keep then f
                                       else match f i with Some n => upd f i (kill n) | None => f end) ids (w_nodes w) in
    Val (OK tt, mkWorld nodes (w_next w) (w_files w) (w_models w)).

(* the file object `f` (the LAST record of w_files) is dropped: references that are left in membership sets become dead *)
Definition rename_file (f d : N) (n : node) : node :=
  if set_mem f (n_files n) then set_files n (set_add d (set_remove f (n_files n))) else n.
Definition drop_file (f : N) : W unit :=
  fun w =>
    let d := DEAD_FILE_BASE + w_next w in
    Val (OK tt, mkWorld (fun i => option_map (rename_file f d) (w_nodes w i)) (w_next w) (removelast (w_files w)) (w_models w)).

Section Load.
Variable T : tables.
Variable tab_el tab_at tab_en : nametab.
Variable check_fn : N -> list N -> res bool.
Variable float_parse : list N -> option N.
Variable LATEST : N.
Variable name_definition_ref : N.

(* run a read-only computation at a fixed world *)
Definition rd {A} (m : W A) (w : world) : res A :=
  match m w with
  | Val (OK a, _) => Val a
  | Val (ER _, _) => Pan "Load.rd: a read-only accessor returned an error"
  | Pan s => Pan s
  | Fuel => Fuel
  end.

(* ------------------------------------------------------------------ what merge_element looks at in a sub-element *)
Record ckey := mkKey {
  k_id : id;
  k_name : N;                                   (* element_name() *)
  k_ident : res bool;                           (* is_identifiable() *)
  k_item : res (option (list N));               (* item_name() *)
  k_defref : res (option (list N));             (* get_sub_element(DefinitionRef).character_data().string_value() *)
  k_idx : res (option (list N))                 (* parent_a.element_type().find_sub_element(element_name(), u32::MAX) indices *)
}.

Definition defref_of (n : node) : W (option (list N)) :=
  (do dr <- first_named name_definition_ref (n_content n);
   match dr with
   | Some d => do dn <- get_node d;
               do cd <- wl (character_data T dn);
               wret (match cd with Some (DString s) => Some s | _ => None end)
   | None => wret None
   end)%W.

Definition key_of (w : world) (pty : N * N) (i : id) : res ckey :=
  match w_nodes w i with
  | None => Pan "dangling node id"
  | Some n =>
    Val (mkKey i (n_name n) (rd (is_identifiable T n) w) (rd (item_name T n) w) (rd (defref_of n) w)
               (let* r := find_sub_element T pty (n_name n) 4294967295 in Val (option_map snd r))%res)
  end.

Fixpoint keys_of (w : world) (pty : N * N) (l : list citem) : res (list ckey) :=
  match l with
  | [] => Val []
  | CElem c :: r => (let* k := key_of w pty c in let* ks := keys_of w pty r in Val (k :: ks))%res
  | CData _ :: r => keys_of w pty r
  end.

Inductive action := MergeEqual | MergeUnequal (b : id) | AOnly | BOnly (pos : N).

Definition opt_bytes_eqb (a b : option (list N)) : bool :=
  match a, b with None, None => true | Some x, Some y => bytes_eqb x y | _, _ => false end.

(* parent_b.sub_elements().find(|e| e.element_name() == elem_a.element_name() && e.item_name() == elem_a.item_name()) *)
Fixpoint find_sibling_item (name : N) (item : option (list N)) (lb : list ckey) : res (option id) :=
  match lb with
  | [] => Val None
  | kb :: r =>
    if k_name kb =? name then
      (let* it := k_item kb in if opt_bytes_eqb it item then Val (Some (k_id kb)) else find_sibling_item name item r)%res
    else find_sibling_item name item r
  end.

(* parent_b.sub_elements().filter(|e| e.element_name() == elem_a.element_name()).find(|e| defref(e) == defref_a) *)
Fixpoint find_sibling_defref (name : N) (dr : option (list N)) (lb : list ckey) : res (option id) :=
  match lb with
  | [] => Val None
  | kb :: r =>
    if k_name kb =? name then
      (let* d := k_defref kb in if opt_bytes_eqb d dr then Val (Some (k_id kb)) else find_sibling_defref name dr r)%res
    else find_sibling_defref name dr r
  end.

(* calc_identifiables_merge *)
Definition calc_identifiables_merge (all_b : list ckey) (ka kb : ckey) (splitable : bool) : res (out action) :=
  (let* ia := k_item ka in
   let* ib := k_item kb in
   if opt_bytes_eqb ia ib then Val (OK MergeEqual) else
   let* s := find_sibling_item (k_name ka) ia all_b in
   match s with
   | Some sib => Val (OK (MergeUnequal sib))
   | None => if splitable then Val (OK AOnly) else Val (ER InvalidFileMerge)
   end)%res.

(* calc_element_merge *)
Definition calc_element_merge (all_b : list ckey) (ka kb : ckey) : res action :=
  (let* da := k_defref ka in
   let* db := k_defref kb in
   if opt_bytes_eqb da db then Val MergeEqual else
   let* s := find_sibling_defref (k_name ka) da all_b in
   Val (match s with Some sib => MergeUnequal sib | None => AOnly end))%res.

(* find_merge_partner(parent, elem): the sub-element of parent that elem would be merged with *)
Definition find_merge_partner (l : list ckey) (k : ckey) : res (option id) :=
  (let* ident := k_ident k in
   if ident then let* it := k_item k in find_sibling_item (k_name k) it l
   else let* d := k_defref k in find_sibling_defref (k_name k) d l)%res.

(* the decision of one iteration of the while loop; pos_a = index of elem_a among the sub-elements of parent_a *)
Definition merge_action (all_a all_b : list ckey) (splitable : bool) (pos_a : N) (ka kb : ckey) : res (out action) :=
  if k_name ka =? k_name kb then
    (let* ident := k_ident ka in
     if ident then calc_identifiables_merge all_b ka kb splitable
     else let* a := calc_element_merge all_b ka kb in Val (OK a))%res
  else
    (let* ia := k_idx ka in
     match ia with
     | None => Pan "autosarmodel.rs merge_element: find_sub_element(elem_a.element_name(), u32::MAX).unwrap()"
     | Some indices_a =>
       let* ib := k_idx kb in
       match ib with
       | None => Pan "autosarmodel.rs merge_element: find_sub_element(elem_b.element_name(), u32::MAX).unwrap()"
       | Some indices_b =>
         let* pa := find_merge_partner all_b ka in
         match pa with
         | Some sibling => Val (OK (MergeUnequal sibling))
         | None =>
           let* pb := find_merge_partner all_a kb in
           match pb with
           | Some _ => Val (OK AOnly)
           | None => Val (OK (match lex_cmp indices_a indices_b with Lt => AOnly | _ => BOnly pos_a end))
           end
         end
       end
     end)%res.

Definition merged_b (merges : list (id * id)) (b : id) : bool := existsb (fun p => snd p =? b) merges.

Record walked := mkWalked { wk_merge : list (id * id); wk_a_only : list id; wk_b_only : list (id * N) }.

(* the positional two-pointer walk of merge_element, including the two loops that drain the iterator that is left.
   elem_count = parent_a.content.len().  One unit of fuel per iteration (every iteration advances one side). *)
Fixpoint walk (fuel : nat) (all_a all_b : list ckey) (splitable : bool) (elem_count : N) (pos_a : N) (la lb : list ckey)
         (acc : walked) {struct fuel} : res (out walked) :=
  match fuel with
  | O => Fuel
  | S f =>
    match la, lb with
    | ka :: la', kb :: lb' =>
      (let* act := merge_action all_a all_b splitable pos_a ka kb in
       match act with
       | ER e => Val (ER e)
       | OK MergeEqual =>
         walk f all_a all_b splitable elem_count (pos_a + 1) la' lb'
              (mkWalked (wk_merge acc ++ [(k_id ka, k_id kb)]) (wk_a_only acc) (wk_b_only acc))
       | OK (MergeUnequal other_b) =>
         walk f all_a all_b splitable elem_count (pos_a + 1) la' lb
              (mkWalked (wk_merge acc ++ [(k_id ka, other_b)]) (wk_a_only acc) (wk_b_only acc))
       | OK AOnly =>
         walk f all_a all_b splitable elem_count (pos_a + 1) la' lb
              (mkWalked (wk_merge acc) (wk_a_only acc ++ [k_id ka]) (wk_b_only acc))
       | OK (BOnly position) =>
         walk f all_a all_b splitable elem_count pos_a la lb'
              (mkWalked (wk_merge acc) (wk_a_only acc)
                        (if merged_b (wk_merge acc) (k_id kb) then wk_b_only acc else wk_b_only acc ++ [(k_id kb, position)]))
       end)%res
    | _, [] => Val (OK (mkWalked (wk_merge acc) (wk_a_only acc ++ map k_id la) (wk_b_only acc)))
    | [], _ =>
      Val (OK (mkWalked (wk_merge acc) (wk_a_only acc)
                        (wk_b_only acc ++ map (fun kb => (k_id kb, elem_count))
                                              (filter (fun kb => negb (merged_b (wk_merge acc) (k_id kb))) lb))))
    end
  end.

(* min over the files that still exist; LATEST when there is none *)
Definition files_min_version (w : world) (files : list N) : N :=
  match flat_map (fun f => match nth_opt (w_files w) (N.to_nat f) with Some x => [f_version x] | None => [] end) files with
  | [] => LATEST
  | v :: r => fold_left N.min r v
  end.

(* for element in elements_a_only: if its membership is empty it becomes `files` *)
Fixpoint restrict_a_only (l : list id) (files : list N) : W unit :=
  match l with
  | [] => wret tt
  | e :: r => (modify_node e (fun x => if is_empty (n_files x) then set_files x files else x);; restrict_a_only r files)%W
  end.

(* import_new_items: `idx` elements have been inserted before *)
Fixpoint import_new_items (parent_a : id) (l : list (id * N)) (idx : N) (new_file min_ver_b : N) : W unit :=
  match l with
  | [] => wret tt
  | (new_element, insert_pos) :: r =>
    (modify_node new_element (fun x => set_parent x (PElem parent_a));;
     modify_node new_element (fun x => set_files x (set_add new_file (n_files x)));;
     do ne <- get_node new_element;
     do pa <- get_node parent_a;
     do range <- wcatch (calc_element_insert_range T pa (n_name ne) min_ver_b);
     match range with
     | ER _ => wfail InvalidFileMerge
     | OK (first_pos, last_pos) =>
       let dest := N.min (N.max (insert_pos + idx) first_pos) last_pos in
       content_insert parent_a dest (CElem new_element);;
       import_new_items parent_a r (idx + 1) new_file min_ver_b
     end)%W
  end.

(* merge_element + merge_sub_elements; one unit of fuel per level of the tree *)
Fixpoint merge_element (fuel : nat) (parent_a : id) (files : list N) (parent_b : id) (new_file : N) {struct fuel} : W unit :=
  match fuel with
  | O => wfuel
  | S fl =>
    (do w <- wget;
     do na <- get_node parent_a;
     do nb <- get_node parent_b;
     let pty := n_type na in
     do la <- wl (keys_of w pty (n_content na));
     do lb <- wl (keys_of w pty (n_content nb));
     let min_ver_a := files_min_version w files in
     let min_ver_b := match nth_opt (w_files w) (N.to_nat new_file) with Some x => f_version x | None => LATEST end in
     let version := N.min min_ver_a min_ver_b in
     do splitable <- wl (splittable_in T pty version);
     do wk <- (fun w0 => match walk (S (List.length la + List.length lb)) la lb splitable (N.of_nat (List.length (n_content na))) 0 la lb
                                      (mkWalked [] [] []) with
                         | Val o => Val (o, w0) | Pan s => Pan s | Fuel => Fuel end);
     restrict_a_only (wk_a_only wk) files;;
     import_new_items parent_a (wk_b_only wk) 0 new_file min_ver_b;;
     (fix subs (l : list (id * id)) : W unit :=
        match l with
        | [] => wret tt
        | (elem_a, elem_b) :: r =>
          do ea <- get_node elem_a;
          let files' := if negb (is_empty (n_files ea)) then n_files ea else files in
          merge_element fl elem_a files' elem_b new_file;;
          modify_node elem_a (fun x => if negb (is_empty (n_files x)) then set_files x (set_add new_file (n_files x)) else x);;
          subs r
        end) (wk_merge wk))%W
  end.

(* merge_file_data *)
Definition merge_file_data (m : N) (new_root new_file : N) : W unit :=
  (do x <- get_model m;
   do w <- wget;
   merge_element (fuel_of w) (m_root x) (fold_right set_add [] (m_files x)) new_root new_file;;
   do x2 <- get_model m;
   modify_node (m_root x2) (fun r => set_files r (set_add new_file (n_files r))))%W.

(* identifiables.get(&key).and_then(WeakElement::upgrade) *)
Definition ident_live (w : world) (x : model) (key : list N) : option id :=
  match assoc_get key (m_idents x) with
  | Some e => if node_dead w e then None else Some e
  | None => None
  end.

(* the overlap check that runs before anything is modified (fixes b692965, 9e78914): every path of the new data
   (oldest first) must be new in this file, and if the model's index has a live element for it, of the same kind *)
Fixpoint overlap_check (w : world) (x : model) (t : itree) (l : list (list N * list nat)) (new_paths : list (list N))
  : res bool :=
  match l with
  | [] => Val false
  | (key, pos) :: r =>
    match it_at t pos with
    | None => Pan "Load: parser position does not denote an element"
    | Some value =>
      match w_nodes w value with
      | None => Pan "dangling node id"
      | Some vn =>
        let differs_from_existing :=
          match ident_live w x key with
          | Some existing => match w_nodes w existing with Some en => negb (n_name en =? n_name vn) | None => false end
          | None => false
          end in
        if differs_from_existing || existsb (bytes_eqb key) new_paths then Val true
        else overlap_check w x t r (key :: new_paths)
      end
    end
  end.

(* the loop over parser.identifiables (oldest first): a path that is already present keeps its first element *)
Fixpoint fill_identifiables (m : N) (t : itree) (l : list (list N * list nat)) : W unit :=
  match l with
  | [] => wret tt
  | (key, pos) :: r =>
    match it_at t pos with
    | None => wpanic "Load: parser position does not denote an element"
    | Some value =>
      (do w <- wget;
       do x <- get_model m;
       match ident_live w x key with
       | Some _ => fill_identifiables m t r
       | None => add_identifiable m key value;; fill_identifiables m t r
       end)%W
    end
  end.

Fixpoint fill_references (m : N) (t : itree) (l : list (list N * list nat)) : W unit :=
  match l with
  | [] => wret tt
  | (refpath, pos) :: r =>
    match it_at t pos with
    | None => wpanic "Load: parser position does not denote an element"
    | Some e => (add_reference_origin m refpath e;; fill_references m t r)%W
    end
  end.

(* everything load_buffer_internal does after a successful parse_arxml; `base` = first node id of the incoming tree *)
Definition load_parsed (m : N) (filename : list N) (root : Parser.etree) (st : Parser.pstate) : W N :=
  (do w0 <- wget;
   let base := w_next w0 in
   do t <- install PNone root;
   let root_element := it_id t in
   let fid := N.of_nat (List.length (w_files w0)) in
   do w1 <- wget;
   do x0 <- get_model m;
   do overlap <- wl (overlap_check w1 x0 t (rev (Parser.p_idents st)) []);
   if overlap then kill_unreachable base [];; wfail OverlappingDataError else
   wput (mkWorld (w_nodes w1) (w_next w1) (w_files w1 ++ [mkFile m filename (Parser.p_version st) (Parser.p_standalone st)]) (w_models w1));;
   do x <- get_model m;
   do r <- wcatch
     ((if is_empty (m_files x) then
         modify_node root_element (fun n => set_parent n (PModel m));;
         modify_node root_element (fun n => set_files n (set_add fid (n_files n)));;
         modify_model m (fun y => set_root y root_element)
       else
         do mr <- wcatch (merge_file_data m root_element fid);
         match mr with
         | OK _ => wret tt
         | ER e => do x1 <- get_model m;
                   do _ <- wtry (e_remove_from_file T (m_root x1) fid);
                   wfail e
         end);;
      fill_identifiables m t (rev (Parser.p_idents st));;
      fill_references m t (rev (Parser.p_refs st));;
      modify_model m (fun y => set_mfiles y (m_files y ++ [fid])));
   (* the function returns: local strong references are dropped *)
   do x3 <- get_model m;
   do w3 <- wget;
   do keep <- dfs_ids (fuel_of w3) (m_root x3);
   kill_unreachable base keep;;
   match r with
   | OK _ => wret fid
   | ER e => drop_file fid;; wfail e
   end)%W.

(* AutosarModel::load_buffer(buffer, filename, strict) -> Ok (file id, warnings) | Err (LoadError for lexer/parser
   errors — the kind/line is compared by the XML checks —, DuplicateFilenameError, InvalidFileMerge, OverlappingDataError) *)
Definition m_load_buffer (m : N) (buffer filename : list N) (strict : bool) : W (N * list Parser.perror) :=
  (do x <- get_model m;
   do w <- wget;
   if existsb (fun f => match nth_opt (w_files w) (N.to_nat f) with Some fl => bytes_eqb (f_name fl) filename | None => false end)
              (m_files x)
   then wfail DuplicateFilenameError else
   match Parser.load strict T tab_el tab_at tab_en check_fn float_parse buffer with
   | Val (Parser.Ret root st) => do f <- load_parsed m filename root st; wret (f, rev (Parser.p_warnings st))
   | Val (Parser.Raise _ _) => wfail LoadError
   | Pan s => wpanic s
   | Fuel => wfuel
   end)%W.

(* ------------------------------------------------------------------ liveness-aware queries (observation) *)
(* AutosarModel::get_element_by_path: identifiables.get(path).and_then(upgrade) *)
Definition q_get_by_path_live (m : N) (p : list N) : W (option id) :=
  (do x <- get_model m; do w <- wget; wret (ident_live w x p))%W.

(* AutosarModel::check_references with the upgrade() tests *)
Definition q_check_references_live (m : N) : W (list id) :=
  (do x <- get_model m;
   do w <- wget;
   (fix each (l : list (list N * list id)) : W (list id) :=
      match l with
      | [] => wret []
      | (path, refs) :: rest =>
        do r <- each rest;
        match assoc_get path (m_idents x) with
        | None => wret (refs ++ r)
        | Some target =>
          if node_dead w target then wret (refs ++ r) else
          do tn <- get_node target;
          do bad <- (fix chk (rl : list id) : W (list id) :=
                       match rl with
                       | [] => wret []
                       | re :: rr =>
                         do b <- chk rr;
                         if node_dead w re then wret b else
                         do rn <- get_node re;
                         match attr_value rn (attr_dest T) with
                         | Some (DEnum d) =>
                           do ok <- wlift (verify_reference_dest T (n_type tn) d);
                           wret (if ok then b else re :: b)
                         | _ => wret (re :: b)
                         end
                       end) refs;
          wret (bad ++ r)
        end
      end) (m_origins x))%W.

End Load.
