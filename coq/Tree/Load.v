(* Tree/Load.v — model of AutosarModel::load_buffer_internal, merge_file_data, merge_element, calc_identifiables_merge,
   calc_element_merge, import_new_items, merge_sub_elements (autosarmodel.rs): the parsed element tree
   (Xml/Parser.v `load`) is installed into the heap and merged into the model.
   STUB: the interface below is fixed (Tree/Script2.v and the drivers use it); the bodies are placeholders.
   MODEL ONLY: definitions, no proofs. *)
From AV Require Import Base.Bytes Base.Outcome Hash.HashModel Tree.Heap Tree.Ops.
From AV Require Xml.Lexer Xml.Parser.
Open Scope string_scope.
Open Scope N_scope.

Section Load.
Variable T : tables.
Variable tab_el tab_at tab_en : nametab.
Variable check_fn : N -> list N -> res bool.
Variable float_parse : list N -> option N.
Variable LATEST : N.
Variable name_definition_ref : N.

(* AutosarModel::load_buffer(buffer, filename, strict) -> Ok (file id, warnings) | Err (LoadError for lexer/parser
   errors — the kind/line is compared by the XML checks —, DuplicateFilenameError, InvalidFileMerge, OverlappingDataError) *)
Definition m_load_buffer (m : N) (buffer filename : list N) (strict : bool) : W (N * list Parser.perror) :=
  let _ := (T, tab_el, tab_at, tab_en, check_fn, float_parse, LATEST, name_definition_ref) in wpanic "UNMODELLED: load_buffer".
End Load.
