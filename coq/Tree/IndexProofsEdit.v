(* Tree/IndexProofsEdit.v — C04: operations that edit the character content (or attributes) of ONE node that is not a
   SHORT-NAME element and keep its sub-elements: insert/remove_character_content_item, remove_character_data,
   set_character_data on an element that is not a SHORT-NAME, set_reference_target.  The index and the
   specification side are both unchanged. *)
From AV Require Import Base.Bytes Base.Outcome Hash.HashModel Tree.Heap Tree.Ops Tree.Script Tree.IndexProofsW
  Tree.Index Tree.IndexProofsBase Tree.IndexProofsAssoc Tree.IndexProofsFrame Tree.IndexProofsAttach.
Open Scope string_scope.
Open Scope list_scope.
Open Scope N_scope.

Section Edit.
Variable T : tables.
Variable tab_el tab_en : nametab.
Variable check_fn : N -> list N -> res bool.
Variable LATEST : N.
Hypothesis TK : TablesOK T check_fn.

Notation Inv04 := (Inv04 T check_fn).
Notation SHORTN := (name_short_name T).

Definition edit_world (w : world) (h : id) (n' : node) : world :=
  mkWorld (upd (w_nodes w) h n') (w_next w) (w_files w) (w_models w).

Section OneNode.
Variables (w : world) (h : id) (n n' : node).
Hypothesis Hn : w_nodes w h = Some n.
Hypothesis Hname : n_name n' = n_name n.
Hypothesis Htype : n_type n' = n_type n.
Hypothesis Hkids : elem_ids (n_content n') = elem_ids (n_content n).
Hypothesis Hchars : content_mode T (n_type n) = Val MCharacters -> chars_content (n_content n').
(* h is not a SHORT-NAME element, or it is one that gives no element its name *)
Hypothesis Hns : n_name n = SHORTN ->
  (forall j nj, w_nodes w j = Some nj -> hd_error (n_content nj) = Some (CElem h) -> named T (n_type nj) = false) /\
  (forall s, cdata_of T n' = Some (DString s) -> ~ In 47 s).
Hypothesis Hhead : named T (n_type n) = true ->
  hd_error (n_content n') = hd_error (n_content n)
  \/ (identifiable_n T w n = false /\ identifiable_n T (edit_world w h n') n' = false).

Let w' := edit_world w h n'.

Lemma edit_other j : j <> h -> w_nodes w' j = w_nodes w j.
Proof. intros Hne. cbn. apply upd_neq. exact Hne. Qed.
Lemma edit_self : w_nodes w' h = Some n'.
Proof. cbn. apply upd_eq. Qed.

(* the SHORT-NAME child seen through a content list whose head is not h is the same in both worlds; if the head is h
   then h is not a SHORT-NAME element, or the node is not of a named type *)
Lemma short_child_edit_hd (x : node) :
  (hd_error (n_content x) = Some (CElem h) -> n_name n <> SHORTN) ->
  short_child T w' x = short_child T w x.
Proof.
  intros Hx. rewrite !short_child_hd. destruct (hd_error (n_content x)) as [[s|d]|]; try reflexivity.
  destruct (N.eq_dec s h) as [->|Hne].
  - rewrite edit_self, Hn, Hname. specialize (Hx eq_refl). apply N.eqb_neq in Hx. rewrite Hx. reflexivity.
  - rewrite edit_other by exact Hne. reflexivity.
Qed.
Lemma unnamed_readings ww x : named T (n_type x) = false ->
  item_name_n T ww x = None /\ identifiable_n T ww x = false /\ seg_n T ww x = [].
Proof. intros H. unfold seg_n, item_name_n, identifiable_n. rewrite H. auto. Qed.

Lemma readings_edit j nj :
  w_nodes w j = Some nj ->
  exists nj', w_nodes w' j = Some nj' /\ n_type nj' = n_type nj /\ n_name nj' = n_name nj /\
    item_name_n T w' nj' = item_name_n T w nj /\ identifiable_n T w' nj' = identifiable_n T w nj /\
    seg_n T w' nj' = seg_n T w nj.
Proof.
  intros Hj. destruct (N.eq_dec j h) as [->|Hne].
  - rewrite Hn in Hj. injection Hj as <-. exists n'. split; [apply edit_self|]. split; [exact Htype|]. split; [exact Hname|].
    destruct (named T (n_type n)) eqn:Enm.
    + destruct (Hhead eq_refl) as [Hh|(Hi & Hi')].
      * apply readings_ext; [exact Htype|]. rewrite (short_child_hd T w' n'), (short_child_hd T w n), Hh.
        rewrite <- (short_child_hd T w' n). rewrite <- (short_child_hd T w n). apply short_child_edit_hd.
        intros Hhd Hs. destruct (Hns Hs) as (Hin & _). rewrite (Hin _ _ Hn Hhd) in Enm. discriminate.
      * assert (forall ww nn, identifiable_n T ww nn = false -> item_name_n T ww nn = None).
        { intros ww nn H. destruct (item_name_n T ww nn) eqn:E; [|reflexivity]. apply item_name_identifiable in E. congruence. }
        fold w' in Hi'. unfold seg_n. rewrite (H _ _ Hi), (H _ _ Hi'), Hi, Hi'. auto.
    + unfold seg_n, item_name_n, identifiable_n. rewrite Htype, Enm. auto.
  - exists nj. split; [rewrite edit_other by exact Hne; exact Hj|]. split; [reflexivity|]. split; [reflexivity|].
    destruct (named T (n_type nj)) eqn:Enm.
    + apply readings_ext; [reflexivity|]. apply short_child_edit_hd.
      intros Hhd Hs. destruct (Hns Hs) as (Hin & _). rewrite (Hin _ _ Hj Hhd) in Enm. discriminate.
    + destruct (unnamed_readings w' nj Enm) as (-> & -> & ->). destruct (unnamed_readings w nj Enm) as (-> & -> & ->). auto.
Qed.

Lemma seg_edit j : seg T w' j = seg T w j.
Proof.
  unfold seg. destruct (w_nodes w j) as [nj|] eqn:Ej.
  - destruct (readings_edit _ _ Ej) as (nj' & -> & _ & _ & _ & _ & Hs). exact Hs.
  - destruct (N.eq_dec j h) as [->|Hne]; [congruence|]. rewrite edit_other by exact Hne. rewrite Ej. reflexivity.
Qed.
Lemma identifiable_edit j : identifiable T w' j = identifiable T w j.
Proof.
  unfold identifiable. destruct (w_nodes w j) as [nj|] eqn:Ej.
  - destruct (readings_edit _ _ Ej) as (nj' & -> & _ & _ & _ & Hs & _). exact Hs.
  - destruct (N.eq_dec j h) as [->|Hne]; [congruence|]. rewrite edit_other by exact Hne. rewrite Ej. reflexivity.
Qed.
Lemma child_of_edit p c : child_of w' p c <-> child_of w p c.
Proof.
  unfold child_of. destruct (N.eq_dec p h) as [->|Hne].
  - rewrite edit_self, Hn. split; intros (x & [= <-] & Hc); eexists; (split; [reflexivity|]);
      apply in_elem_ids; apply in_elem_ids in Hc; congruence.
  - rewrite edit_other by exact Hne. tauto.
Qed.
Lemma dpath_edit a i q : dpath T w' a i q <-> dpath T w a i q.
Proof.
  split; intros H; induction H as [|p c q Hp IH Hc]; try constructor.
  - rewrite seg_edit. econstructor; [exact IH|]. apply child_of_edit. exact Hc.
  - rewrite <- seg_edit. econstructor; [exact IH|]. apply child_of_edit. exact Hc.
Qed.
Lemma pathset_edit m p i : PathSet T w' m p i <-> PathSet T w m p i.
Proof.
  unfold PathSet, MReach, SpecPath, reach, spath. change (model_at w' m) with (model_at w m).
  rewrite identifiable_edit. split.
  - intros ((x & Hx & (q & Hd)) & Hi & (x2 & Hx2 & (q2 & Hd2 & ->))).
    split; [exists x; split; [exact Hx|exists q; apply dpath_edit; exact Hd]|]. split; [exact Hi|].
    exists x2. split; [exact Hx2|]. exists q2. split; [apply dpath_edit; exact Hd2|]. rewrite seg_edit. reflexivity.
  - intros ((x & Hx & (q & Hd)) & Hi & (x2 & Hx2 & (q2 & Hd2 & ->))).
    split; [exists x; split; [exact Hx|exists q; apply dpath_edit; exact Hd]|]. split; [exact Hi|].
    exists x2. split; [exact Hx2|]. exists q2. split; [apply dpath_edit; exact Hd2|]. rewrite seg_edit. reflexivity.
Qed.

Lemma mreach_edit m i : MReach T w' m i <-> MReach T w m i.
Proof.
  unfold MReach, reach. change (model_at w' m) with (model_at w m).
  split; intros (x & Hx & (q & Hd)); exists x; (split; [exact Hx|]); exists q; apply dpath_edit; exact Hd.
Qed.
Lemma ref_text_edit_other j : j <> h -> ref_text T w' j = ref_text T w j.
Proof. intros Hne. unfold ref_text. rewrite edit_other by exact Hne. reflexivity. Qed.

Theorem inv04_edit_node : Inv04 w -> Inv04 w'.
Proof.
  intros [I1 I2 I3 IL I4 I5]. constructor.
  - intros j nj' Hj Hnm. destruct (N.eq_dec j h) as [->|Hne].
    + rewrite edit_self in Hj. injection Hj as <-. rewrite Hname in Hnm. rewrite Htype. eapply I1; eauto.
    + rewrite edit_other in Hj by exact Hne. eapply I1; eauto.
  - intros j nj' s Hj Hnm Hcd. destruct (N.eq_dec j h) as [->|Hne].
    + rewrite edit_self in Hj. injection Hj as <-. rewrite Hname in Hnm. destruct (Hns Hnm) as (_ & Hsl). auto.
    + rewrite edit_other in Hj by exact Hne. eapply I2; eauto.
  - intros j nj' Hj Hid. destruct (w_nodes w j) as [nj|] eqn:Ej.
    + destruct (readings_edit _ _ Ej) as (nj2 & Hj2 & _ & _ & Hin & Hidn & _). rewrite Hj in Hj2. injection Hj2 as <-.
      rewrite Hin. eapply I3; eauto; congruence.
    + destruct (N.eq_dec j h) as [->|Hne]; [congruence|]. rewrite edit_other in Hj by exact Hne. congruence.
  - intros j nj' Hj Hm. destruct (N.eq_dec j h) as [->|Hne].
    + rewrite edit_self in Hj. injection Hj as <-. rewrite Htype in Hm. auto.
    + rewrite edit_other in Hj by exact Hne. eapply IL; eauto.
  - intros m x Hx p i. rewrite pathset_edit. apply (I4 m x Hx).
  - intros m x Hx. apply (I5 m x Hx).
Qed.

End OneNode.

(* an operation that does nothing or edits one node h within the conditions of the section above *)
Definition edit_shape (w : world) (h : id) (w' : world) : Prop :=
  w' = w \/
  exists n n', w_nodes w h = Some n /\ n_name n' = n_name n /\ n_type n' = n_type n /\
    elem_ids (n_content n') = elem_ids (n_content n) /\
    (content_mode T (n_type n) = Val MCharacters -> chars_content (n_content n')) /\
    (n_name n = SHORTN ->
       (forall j nj, w_nodes w j = Some nj -> hd_error (n_content nj) = Some (CElem h) -> named T (n_type nj) = false) /\
       (forall s, cdata_of T n' = Some (DString s) -> ~ In 47 s)) /\
    (named T (n_type n) = true ->
       hd_error (n_content n') = hd_error (n_content n)
       \/ (identifiable_n T w n = false /\ identifiable_n T (edit_world w h n') n' = false)) /\
    w' = edit_world w h n'.

Lemma edit_shape_inv04 w h w' : Inv04 w -> edit_shape w h w' -> Inv04 w'.
Proof.
  intros HI [->|(n & n' & Hn & H1 & H2 & H3 & Hc & H4 & H5 & ->)]; [exact HI|]. apply (inv04_edit_node w h n); auto.
Qed.

(* ---------- list facts *)
Lemma elem_ids_insert_cdata l k d : elem_ids (insert_at l k (CData d)) = elem_ids l.
Proof.
  revert k. induction l as [|x l IH]; intros [|k]; cbn [insert_at]; try reflexivity.
  specialize (IH k). destruct x as [c|d0]; unfold elem_ids in *; cbn [flat_map app]; rewrite IH; reflexivity.
Qed.
Lemma elem_ids_remove_cdata l k d : nth_opt l k = Some (CData d) -> elem_ids (remove_at l k) = elem_ids l.
Proof.
  revert k. induction l as [|x l IH]; intros [|k]; cbn [nth_opt remove_at]; try discriminate.
  - intros [= ->]. reflexivity.
  - intros H. specialize (IH _ H). destruct x as [c|d0]; unfold elem_ids in *; cbn [flat_map app]; rewrite IH; reflexivity.
Qed.
Lemma no_elem_ids l : existsb (fun it => match it with CElem _ => true | CData _ => false end) l = false -> elem_ids l = [].
Proof. induction l as [|[c|d] l IH]; cbn; try discriminate; auto. Qed.
Lemma hd_no_elem_not_identifiable w n : elem_ids (n_content n) = [] -> identifiable_n T w n = false.
Proof.
  intros H. unfold identifiable_n, short_child. destruct (n_content n) as [|[s|d] r]; try apply andb_false_r. discriminate.
Qed.

Lemma short_node_mode w h n : Inv04 w -> w_nodes w h = Some n -> n_name n = SHORTN -> content_mode T (n_type n) = Val MCharacters.
Proof. intros HI Hn Hs. destruct (i4_short _ _ _ HI _ _ Hn Hs) as (H & _). exact H. Qed.

(* a change of the reference_origins maps only *)
Lemma inv04_origins w ms : Inv04 w -> map iview ms = map iview (w_models w) ->
  Inv04 (mkWorld (w_nodes w) (w_next w) (w_files w) ms).
Proof. intros HI H. eapply Inv04_iv; [|exact HI]. split; [intros i; reflexivity|exact H]. Qed.

Lemma iview_list_set l k (x y : model) : nth_opt l k = Some x -> iview y = iview x -> map iview (list_set l k y) = map iview l.
Proof. intros Hx Hy. apply list_set_map_same. intros z Hz. rewrite Hx in Hz. injection Hz as <-. exact Hy. Qed.

(* computations that only change reference_origins *)
Definition OO (w w' : world) : Prop :=
  w_nodes w' = w_nodes w /\ w_next w' = w_next w /\ w_files w' = w_files w /\
  map iview (w_models w') = map iview (w_models w).
Lemma OO_refl w : OO w w. Proof. repeat split. Qed.
Lemma OO_trans a b c : OO a b -> OO b c -> OO a c.
Proof. intros (A1 & A2 & A3 & A4) (B1 & B2 & B3 & B4). repeat split; congruence. Qed.
Notation poo := (pres OO).
Lemma poo_ro {A} (m : W A) : ro m -> poo m. Proof. apply pres_ro. apply OO_refl. Qed.
Lemma poo_bind {A B} (m : W A) (k : A -> W B) : poo m -> (forall a, poo (k a)) -> poo (wbind m k).
Proof. apply pres_bind. apply OO_trans. Qed.
Lemma poo_modify_model m f : (forall x, iview (f x) = iview x) -> poo (modify_model m f).
Proof.
  intros Hf w r w' H. apply modify_model_inv in H as (x & Hx & _ & ->). repeat split. cbn.
  eapply iview_list_set; eauto.
Qed.
Create HintDb oo discriminated.
Ltac oo_step :=
  first
  [ solve [apply poo_ro; ro_tac]
  | apply poo_modify_model; intros ?; reflexivity
  | solve [auto with oo]
  | apply poo_bind; [|intros ?]
  | apply pres_try
  | match goal with
    | |- pres _ (match ?x with _ => _ end) => destruct x
    | |- pres _ (if ?b then _ else _) => destruct b
    | |- pres _ (let '(_, _) := ?x in _) => destruct x
    end ].
Ltac oo_tac := repeat oo_step.

Lemma poo_add_reference_origin m p e : poo (add_reference_origin m p e).
Proof. unfold add_reference_origin. oo_tac. Qed.
Lemma poo_remove_reference_origin m p e : poo (remove_reference_origin m p e).
Proof. unfold remove_reference_origin. oo_tac. Qed.
Lemma poo_fix_reference_origins m a b e : poo (fix_reference_origins m a b e).
Proof. unfold fix_reference_origins. oo_tac. Qed.
Hint Resolve poo_add_reference_origin poo_remove_reference_origin poo_fix_reference_origins : oo.

Lemma OO_inv04 w w' : OO w w' -> Inv04 w -> Inv04 w'.
Proof.
  intros (H1 & _ & _ & H4) HI. eapply Inv04_iv; [|exact HI]. split; [intros i; rewrite H1; reflexivity|exact H4].
Qed.

(* ---------- insert_character_content_item *)
Lemma mixed_not_ref n : content_mode T (n_type n) = Val MMixed -> isref T (n_type n) = false.
Proof.
  intros Hm. unfold isref. destruct (is_ref T (n_type n)) as [[|]| |] eqn:E; try reflexivity.
  apply (tk_ref _ _ TK) in E. rewrite Hm in E. unfold MMixed, MCharacters in E. discriminate E.
Qed.

Lemma insert_citem_shape h text pos w r w' :
  Inv04 w -> Known04 T LATEST w (OpInsertCItem h text pos) = false ->
  e_insert_character_content_item T h text pos w = Val (r, w') ->
  edit_shape w h w' /\ (w' = w \/ forall n, w_nodes w h = Some n -> isref T (n_type n) = false).
Proof.
  intros HI HK H. unfold e_insert_character_content_item in H.
  wnode H n Hn. wval H v Hv.
  destruct (v =? MMixed) eqn:Em; [|winv H; split; left; reflexivity]. apply N.eqb_eq in Em. subst v.
  split; [|right; intros n0 Hn0; rewrite Hn in Hn0; injection Hn0 as <-; apply mixed_not_ref; exact Hv].
  destruct (pos <=? N.of_nat (List.length (n_content n))) eqn:El; [|winv H; left; reflexivity]. apply N.leb_le in El.
  apply set_node_inv in H as (_ & ->). right.
  exists n, (set_content n (insert_at (n_content n) (N.to_nat pos) (CData (DString text)))).
  split; [exact Hn|]. split; [reflexivity|]. split; [reflexivity|].
  split; [|split; [|split; [|split; [|reflexivity]]]].
  - cbn. apply elem_ids_insert_cdata.
  - intros Hc. exfalso. rewrite Hc in Hv. unfold MCharacters, MMixed in Hv. discriminate Hv.
  - intros Hs. exfalso. rewrite (short_node_mode _ _ _ HI Hn Hs) in Hv. discriminate.
  - intros Hnm. cbn [Known04] in HK. destruct (N.eq_dec pos 0) as [->|Hp].
    + right. cbn in HK. unfold identifiable in HK. rewrite Hn in HK. split; [exact HK|].
      unfold identifiable_n, short_child. cbn. destruct (n_content n); cbn; apply andb_false_r.
    + left. cbn. apply hd_insert_at; [lia|]. intros E. rewrite E in El. cbn in El. lia.
Qed.

Theorem C04_insert_citem h text pos w r w' :
  Inv04 w -> Known04 T LATEST w (OpInsertCItem h text pos) = false ->
  e_insert_character_content_item T h text pos w = Val (r, w') -> Inv04 w'.
Proof. intros HI HK H. eapply edit_shape_inv04; [exact HI|]. eapply insert_citem_shape; eauto. Qed.

(* ---------- remove_character_content_item *)
Lemma remove_citem_shape h pos w r w' :
  Inv04 w -> Known04 T LATEST w (OpRemoveCItem h pos) = false ->
  e_remove_character_content_item T h pos w = Val (r, w') ->
  edit_shape w h w' /\ (w' = w \/ forall n, w_nodes w h = Some n -> isref T (n_type n) = false).
Proof.
  intros HI HK H. unfold e_remove_character_content_item in H.
  wnode H n Hn. wval H v Hv.
  destruct (v =? MMixed) eqn:Em; [|winv H; split; left; reflexivity]. apply N.eqb_eq in Em. subst v.
  split; [|right; intros n0 Hn0; rewrite Hn in Hn0; injection Hn0 as <-; apply mixed_not_ref; exact Hv].
  destruct (nth_opt (n_content n) (N.to_nat pos)) as [[c|d]|] eqn:En; try (winv H; left; reflexivity).
  apply set_node_inv in H as (_ & ->). right.
  exists n, (set_content n (remove_at (n_content n) (N.to_nat pos))).
  split; [exact Hn|]. split; [reflexivity|]. split; [reflexivity|].
  split; [|split; [|split; [|split; [|reflexivity]]]].
  - cbn. eapply elem_ids_remove_cdata; eauto.
  - intros Hc. exfalso. rewrite Hc in Hv. unfold MCharacters, MMixed in Hv. discriminate Hv.
  - intros Hs. exfalso. rewrite (short_node_mode _ _ _ HI Hn Hs) in Hv. discriminate.
  - intros Hnm. cbn [Known04] in HK. destruct (N.eq_dec pos 0) as [->|Hp].
    + right. cbn in En. destruct (n_content n) as [|it rest] eqn:Ec; [discriminate|]. injection En as ->.
      split; [unfold identifiable_n, short_child; rewrite Ec; apply andb_false_r|].
      cbn [N.eqb andb] in HK. unfold named_node in HK. rewrite Hn, Hnm, Ec in HK. cbn [andb] in HK.
      unfold identifiable_n, short_child. cbn [set_content n_content n_type remove_at N.to_nat]. rewrite Hnm. cbn [andb].
      destruct rest as [|[s|d2] rest2]; try reflexivity.
      unfold is_short_node, Index.SHORTN in HK. cbn [edit_world w_nodes].
      destruct (N.eq_dec s h) as [->|Hne].
      * rewrite upd_eq. rewrite Hn in HK. cbn [set_content n_name]. rewrite HK. reflexivity.
      * rewrite upd_neq by exact Hne. destruct (w_nodes w s) as [sn|]; [|reflexivity]. rewrite HK. reflexivity.
    + left. cbn. destruct (n_content n) as [|it rest]; [reflexivity|]. destruct (N.to_nat pos) eqn:E; [lia|]. reflexivity.
Qed.

Theorem C04_remove_citem h pos w r w' :
  Inv04 w -> Known04 T LATEST w (OpRemoveCItem h pos) = false ->
  e_remove_character_content_item T h pos w = Val (r, w') -> Inv04 w'.
Proof. intros HI HK H. eapply edit_shape_inv04; [exact HI|]. eapply remove_citem_shape; eauto. Qed.

(* ---------- remove_character_data *)
Theorem C04_remove_cdata h w r w' :
  Inv04 w -> e_remove_character_data T h w = Val (r, w') -> Inv04 w'.
Proof.
  intros HI H. unfold e_remove_character_data in H.
  wstep H; try solve [winv E; exact HI]. winv E. wstep H; try solve [winv E; exact HI]. winv E.
  destruct (v =? MCharacters) eqn:Em; cbn [negb] in H; [|winv H; exact HI]. apply N.eqb_eq in Em. subst v.
  destruct (n_name n =? SHORT T) eqn:Es; [winv H; exact HI|]. apply N.eqb_neq in Es.
  wstep H; try solve [winv E; exact HI]. winv E. destruct v as [d|]; [|winv H; exact HI].
  wstep H; try solve [winv E; exact HI]. winv E.
  assert (Hoo : poo (if v then do m <- model_of h; match d with DString r0 => remove_reference_origin m r0 h | _ => wret tt end
                          else wret tt)%W).
  { oo_tac; apply poo_remove_reference_origin. }
  wstep H; [|eapply OO_inv04; [eapply Hoo; eauto|exact HI]].
  pose proof (Hoo _ _ _ E) as Ho. assert (HI1 : Inv04 w0) by (eapply OO_inv04; eauto).
  assert (Hn1 : w_nodes w0 h = Some n) by (destruct Ho as (-> & _); exact Hn).
  apply modify_node_inv in H as (n1 & Hn1' & _ & ->). rewrite Hn1 in Hn1'. injection Hn1' as <-.
  assert (Hl : elem_ids (n_content n) = []) by (apply chars_content_elems; eapply (i4_leaf _ _ _ HI); eauto).
  apply (inv04_edit_node w0 h n); auto.
  - intros _. left. reflexivity.
  - intros Hs. contradiction.
  - intros _. right. split; [apply hd_no_elem_not_identifiable; exact Hl|].
    apply hd_no_elem_not_identifiable. reflexivity.
Qed.

(* ---------- set_character_data, the cases without re-keying: the element is not a SHORT-NAME, or it is a SHORT-NAME
   element without text (under AllNamed such an element names nobody) *)
Definition is_some {A} (o : option A) : bool := match o with Some _ => true | None => false end.

Theorem C04_set_cdata_plain h val0 w r w' :
  Inv04 w ->
  (forall n, w_nodes w h = Some n -> (n_name n =? SHORTN) && is_some (cdata_of T n) = false) ->
  e_set_character_data T tab_en check_fn LATEST h val0 w = Val (r, w') -> Inv04 w'.
Proof.
  intros HI Hplain H. unfold e_set_character_data in H.
  wnode H n Hn. wval H mode Hmode.
  match type of H with (if negb ?c then _ else _) _ = _ => destruct c eqn:Emode end; cbn [negb] in H; [|winv H; exact HI].
  assert (Hleaf : elem_ids (n_content n) = []).
  { apply orb_true_iff in Emode as [Em|Em].
    - apply N.eqb_eq in Em. subst mode. apply chars_content_elems; eapply (i4_leaf _ _ _ HI); eauto.
    - apply andb_true_iff in Em as (_ & Em). apply negb_true_iff in Em. apply no_elem_ids. exact Em. }
  wval H spec Hspec. destruct spec as [cs|]; [|winv H; exact HI].
  wbind_ro H m Em; [|exact HI]. wbind_ro H ver Ever; [|exact HI]. wval H ok0 Hok0.
  wbind_ro H vok Evok.
  2:{ exfalso. destruct (negb ok0 && _); [|winv Evok]. wval Evok s0 Hs0. wval Evok ok1 Hok1. winv Evok. }
  assert (Hchk : snd vok = true -> check_value check_fn (fst vok) cs ver = Val true).
  { destruct (negb ok0 && _).
    - wval Evok s0 Hs0. wval Evok ok1 Hok1. winv Evok. cbn. intros ->. exact Hok1.
    - winv Evok. cbn. intros ->. exact Hok0. }
  clear Evok. destruct vok as [v ok]. cbn [fst snd] in Hchk. destruct ok; cbn [negb] in H; [|winv H; exact HI].
  specialize (Hchk eq_refl).
  wval H cd0 Hcd0.
  pose proof (Hplain _ Hn) as Hpl. rewrite (cdata_of_val _ _ _ Hcd0) in Hpl. unfold is_some in Hpl.
  unfold SHORT in H. fold SHORTN in H. rewrite Hpl in H.
  wbind_ro H pp Epp; [|winv Epp]. winv Epp.
  wval H isr Hisr.
  set (n' := set_content n [CData v]) in *.
  wbind_w H u w1 E1. 2:{ apply set_node_inv in E1 as ([=] & _). }
  apply set_node_inv in E1 as (_ & ->). fold (edit_world w h n') in H.
  assert (HI1 : Inv04 (edit_world w h n')).
  { apply (inv04_edit_node w h n); auto.
    - intros _. right. eexists. reflexivity.
    - intros Hs. apply N.eqb_eq in Hs as Hsb. rewrite Hsb in Hpl. cbn [andb] in Hpl. destruct cd0; [discriminate|].
      split.
      + intros j nj Hj Hhd. destruct (named T (n_type nj)) eqn:Enm; [|reflexivity]. exfalso.
        assert (Hid : identifiable_n T w nj = true).
        { unfold identifiable_n. rewrite Enm, short_child_hd, Hhd, Hn, Hsb. reflexivity. }
        apply (i4_named _ _ _ HI _ _ Hj) in Hid. apply Hid.
        unfold item_name_n. rewrite Enm, short_child_hd, Hhd, Hn, Hsb, (cdata_of_val _ _ _ Hcd0). reflexivity.
      + intros s Hcd. destruct (i4_short _ _ _ HI _ _ Hn Hs) as (Hm & _ & Hval).
        destruct (Hval _ _ _ Hspec Hchk) as (s0 & -> & Hs0).
        unfold cdata_of, character_data in Hcd. cbn [n' set_content n_content n_type] in Hcd. rewrite Hm in Hcd. cbn in Hcd.
        injection Hcd as <-. exact Hs0.
    - intros _. right. split; [apply hd_no_elem_not_identifiable; exact Hleaf|].
      apply hd_no_elem_not_identifiable. reflexivity. }
  wbind_w H u2 w2 E2; [|winv E2; exact HI1]. winv E2.
  match type of H with ?c _ = _ => assert (Hoo : poo c) by oo_tac end.
  eapply OO_inv04; [eapply Hoo; exact H|exact HI1].
Qed.

(* ---------- set_reference_target: DEST attribute (same view), reference_origins, then the text of the reference *)
Lemma elem_ids_set_head l v : elem_ids l = [] -> elem_ids (match l with [] => [CData v] | _ :: r => CData v :: r end) = [].
Proof. destruct l as [|[c|d] l]; cbn; auto. discriminate. Qed.

Theorem C04_set_reference_target h target w r w' :
  Inv04 w -> e_set_reference_target T tab_el tab_en check_fn LATEST h target w = Val (r, w') -> Inv04 w'.
Proof.
  intros HI H. unfold e_set_reference_target in H.
  wnode H n Hn. wval H isr Hisr. destruct isr; cbn [negb] in H; [|winv H; exact HI].
  wbind_ro H new_ref Enr; [|exact HI]. wnode H tn Htn. wval H txt Htxt.
  wbind_ro H item Eitem.
  2:{ destruct (from_bytes tab_en txt); winv Eitem. }
  destruct item as [enum_item|]; [|winv H; exact HI].
  wbind_ro H m Em; [|exact HI]. wbind_ro H ver Ever; [|exact HI].
  wbind_w H ra w1 Ea. 2:{ apply wtry_inv in Ea as (? & _ & [=]). }
  apply wtry_inv in Ea as (r0 & Ea & Hra). injection Hra as ->. apply raw_set_attribute_sv in Ea.
  assert (HI1 : Inv04 w1) by (eapply Inv04_iv; [apply SV_IV; exact Ea|exact HI]).
  destruct r0 as [u|e]; [|winv H; exact HI1].
  wnode H n2 Hn2. wval H cd Hcd.
  wbind_w H u2 w2 Eo.
  2:{ eapply OO_inv04; [|exact HI1]. revert Eo. match goal with |- ?c _ = _ -> _ => assert (Hoo : poo c) by oo_tac end. apply Hoo. }
  assert (Ho : OO w1 w2).
  { revert Eo. match goal with |- ?c _ = _ -> _ => assert (Hoo : poo c) by oo_tac end. apply Hoo. }
  assert (HI2 : Inv04 w2) by (eapply OO_inv04; eauto).
  assert (Hn2' : w_nodes w2 h = Some n2) by (destruct Ho as (-> & _); exact Hn2).
  (* the text write *)
  assert (Hty : n_type n2 = n_type n /\ n_name n2 = n_name n).
  { destruct Ea as (Hnv & _). specialize (Hnv h). rewrite Hn, Hn2 in Hnv. cbn in Hnv. unfold tview in Hnv. split; congruence. }
  destruct Hty as (Hty & Hnm).
  assert (Hmode : content_mode T (n_type n2) = Val MCharacters) by (rewrite Hty; apply (tk_ref _ _ TK); exact Hisr).
  unfold raw_set_character_data in H.
  wnode H n3 Hn3. rewrite Hn2' in Hn3. injection Hn3 as <-.
  wval H mode Hm. rewrite Hmode in Hm. injection Hm as <-. change (MCharacters =? MCharacters) with true in H. cbn [orb] in H.
  wval H spec Hspec. destruct spec as [cs|]; [|winv H; exact HI2].
  wval H ok Hok. destruct ok; [|winv H; exact HI2].
  apply set_node_inv in H as (_ & ->).
  assert (Hleaf : elem_ids (n_content n2) = []) by (apply chars_content_elems; eapply (i4_leaf _ _ _ HI2); eauto).
  apply (inv04_edit_node w2 h n2); auto.
  - cbn. rewrite Hleaf. apply elem_ids_set_head. exact Hleaf.
  - intros Hc. cbn. destruct (i4_leaf _ _ _ HI2 _ _ Hn2' Hc) as [->|(d0 & ->)]; right; eexists; reflexivity.
  - intros Hs. exfalso. rewrite Hnm in Hs. destruct (i4_short _ _ _ HI _ _ Hn Hs) as (_ & Hr & _). congruence.
  - intros _. right. split; [apply hd_no_elem_not_identifiable; exact Hleaf|].
    apply hd_no_elem_not_identifiable. cbn. apply elem_ids_set_head. exact Hleaf.
Qed.

End Edit.
