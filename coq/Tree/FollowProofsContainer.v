(* Tree/FollowProofsContainer.v — C06 proofs, layer 4: move_element_local when the moved element is NOT identifiable
   (a container such as ELEMENTS holding identifiable elements): dest_path is the path of the destination's nearest
   identifiable ancestor-or-self, the index is re-keyed path by path over the snapshot, then the referrer loop runs.
   Side condition [NoCollision]: no element of the moved subtree gets a path that is already a key of the index
   (the code does NOT check this in the container case: see container_collision in FollowWitness.v).  It excludes in
   particular the case src = dest (source and destination share the nearest identifiable ancestor). *)
From Coq Require Import Lia.
From AV Require Import Base.Bytes Base.Outcome Hash.HashModel Tree.Heap Tree.Ops Tree.Script Tree.Index Tree.Refs
  Tree.IndexProofsW Tree.IndexProofsBase Tree.IndexProofsAssoc Tree.Follow Tree.FollowProofsPath Tree.FollowProofsLoop
  Tree.FollowProofsLoopG Tree.FollowProofsRename Tree.FollowProofsMove Tree.FollowProofsIter Tree.FollowProofsTree.
Open Scope string_scope.
Open Scope list_scope.
Open Scope N_scope.

Section Container.
Variable T : tables.
Variable tab_el tab_en : nametab.
Variable check_fn : N -> list N -> res bool.
Variable LATEST : N.

Definition NoCollision (w : world) (m : N) (mv : id) (src dest : list N) : Prop :=
  forall xm k suf x, model_at w m = Some xm -> assoc_get k (m_idents xm) = Some x -> reach T w mv x -> k = src ++ suf ->
                     suf <> [] -> assoc_get (dest ++ suf) (m_idents xm) = None.

Lemma nocollision_b_sound idents src dest :
  nocollision_b idents src dest = true ->
  forall k suf (x : id), assoc_get k idents = Some x -> k = src ++ suf -> suf <> [] -> assoc_get (dest ++ suf) idents = None.
Proof.
  intros H k suf x Hk -> Hne. unfold nocollision_b in H. rewrite forallb_forall in H.
  apply assoc_get_in in Hk. specialize (H _ Hk). cbn [fst] in H. rewrite strip_prefix_app in H.
  destruct suf as [|c t]; [contradiction|]. destruct (assoc_get (dest ++ c :: t) idents); [discriminate H|reflexivity].
Qed.

(* the per-path re-keying loop *)
Section PerPath.
Variable m : N.
Variable src dest : list N.
Variable each : list (list N) -> W unit.
Hypothesis each_nil : each [] = wret tt.
Hypothesis each_cons : forall op r,
  each (op :: r) =
  (match strip_prefix src op with
   | Some suffix => fix_identifiables m op (dest ++ suffix)
   | None => wret tt
   end;; each r)%W.

Lemma perpath_sem : forall P w x w',
  model_at w m = Some x -> each P w = Val (OK tt, w') ->
  w_nodes w' = w_nodes w /\ w_next w' = w_next w /\ w_files w' = w_files w /\
  (forall m2, m2 <> m -> model_at w' m2 = model_at w m2) /\
  exists x', model_at w' m = Some x' /\ m_idents x' = fold_left (iter_step src dest) P (m_idents x) /\
             m_origins x' = m_origins x /\ m_root x' = m_root x /\ m_files x' = m_files x.
Proof.
  induction P as [|op P IH]; intros w x w' Hx H.
  - rewrite each_nil in H. apply wret_inv in H as (_ & ->). repeat split; auto. exists x. auto.
  - rewrite each_cons in H. apply wbind_inv in H as [(u & w1 & E & H)|(e & _ & [=])]. destruct u.
    assert (Hstep : w_nodes w1 = w_nodes w /\ w_next w1 = w_next w /\ w_files w1 = w_files w /\
              (forall m2, m2 <> m -> model_at w1 m2 = model_at w m2) /\
              exists x1, model_at w1 m = Some x1 /\ m_idents x1 = iter_step src dest (m_idents x) op /\
                         m_origins x1 = m_origins x /\ m_root x1 = m_root x /\ m_files x1 = m_files x).
    { unfold iter_step. destruct (strip_prefix src op) as [suf|].
      - unfold fix_identifiables in E. apply modify_model_inv in E as (x0 & Hx0 & _ & ->).
        assert (x0 = x) by (unfold model_at in Hx; congruence). subst x0. cbn [w_nodes w_next w_files].
        repeat split; auto.
        + intros m2 Hne. unfold model_at. cbn [w_models]. apply list_set_nth_neq. intros Q. apply Hne. apply N2Nat.inj. exact Q.
        + eexists. split; [unfold model_at; cbn [w_models]; eapply list_set_nth_eq; exact Hx|]. cbn. auto.
      - apply wret_inv in E as (_ & ->). repeat split; auto. exists x. auto. }
    destruct Hstep as (S1 & S2 & S3 & S4 & x1 & Hx1 & S5 & S6 & S7 & S8).
    destruct (IH _ _ _ Hx1 H) as (I1 & I2 & I3 & I4 & x' & Hx' & I5 & I6 & I7 & I8).
    repeat split; try congruence.
    + intros m2 Hne. rewrite I4 by exact Hne. apply S4. exact Hne.
    + exists x'. split; [exact Hx'|]. cbn [fold_left]. rewrite <- S5. repeat split; congruence.
Qed.
End PerPath.

Lemma ref_text_shape w1 w2 i n1 n2 :
  w_nodes w1 i = Some n1 -> w_nodes w2 i = Some n2 -> n_type n2 = n_type n1 -> n_content n2 = n_content n1 ->
  ref_text T w2 i = ref_text T w1 i.
Proof.
  intros H1 H2 Ht Hc. unfold ref_text. rewrite H1, H2, Ht. unfold cdata_of, character_data. rewrite Hc, Ht. reflexivity.
Qed.

Theorem move_local_container self mv pos m version w w' r :
  Inv06 T check_fn w ->
  move_element_local T check_fn self mv pos m version w = Val (OK r, w') ->
  MReach T w m mv -> MReach T w m self -> self <> mv -> identifiable T w mv = false ->
  (forall n, w_nodes w self = Some n -> isref T (n_type n) = false) ->
  collision06 T w self mv = false -> model_of mv w = Val (OK m, w) ->
  exists src dest xm x',
    SpecPath T w m mv src /\ SpecPath T w m self dest /\ model_at w m = Some xm /\ model_at w' m = Some x' /\
    (forall rf p x, ref_text T w rf = Some p -> MReach T w m rf -> assoc_get p (m_idents xm) = Some x ->
       reach T w mv x -> exists suf, p = src ++ suf /\ ref_text T w' rf = Some (dest ++ suf) /\
                                     assoc_get (dest ++ suf) (m_idents x') = Some x) /\
    (forall rf p, ref_text T w rf = Some p ->
       ~ (MReach T w m rf /\ exists x, assoc_get p (m_idents xm) = Some x /\ reach T w mv x) ->
       ref_text T w' rf = Some p).
Proof.
  intros (HT & H4 & H5) H HRmv HRself Hsm Hid Hselfref Hcol Hmodmv. unfold move_element_local in H.
  wk H. apply get_node_inv in E as (n & Hn & Q & _). injection Q as ->.
  wk H. apply wget_inv in E as ([= ->] & _).
  wk H. rename E into Eanc. destruct a; [discriminate H|].
  wk H. apply get_node_inv in E as (mn & Hmn & Q & _). injection Q as ->.
  wk H. destruct a as [src_parent|]; [|discriminate H].
  wk H. wk H. wk H. destruct a1; [discriminate H|].
  wk H. wk H.
  match goal with E : dfs_ids _ mv w = Val (OK ?x, w) |- _ => rename E into Edfs; rename x into ids end.
  match goal with E : named_paths T ids w = Val (OK ?x, w) |- _ => rename E into Enp; rename x into orig end.
  match goal with E : path_unchecked T mn w = Val (OK ?x, w) |- _ => rename E into Esrc; rename x into src end.
  match goal with E : path_unchecked T n w = Val (OK ?x, w) |- _ => rename E into Edst; rename x into dest end.
  match goal with E : parent_of mn w = _ |- _ => rename E into Epar end.
  destruct (path_unchecked_spec T w m mv mn HT Hmn HRmv) as (_ & Hps).
  destruct (Hps _ _ Esrc) as (_ & (src0 & [= <-] & Hsp)).
  destruct (path_unchecked_spec T w m self n HT Hn HRself) as (_ & Hpd).
  destruct (Hpd _ _ Edst) as (_ & (dest0 & [= <-] & Hdp)).
  assert (Hnc : NoCollision w m mv src dest).
  { unfold collision06 in Hcol. rewrite Hn, Hmn, Esrc, Edst, Hmodmv in Hcol.
    intros xm0 k suf x Hxm0 Hk _ Hks Hne. rewrite Hxm0 in Hcol. apply Bool.negb_false_iff in Hcol.
    eapply nocollision_b_sound; eauto. }
  assert (Hpar : n_parent mn = PElem src_parent).
  { unfold parent_of in Epar. destruct (n_parent mn); try discriminate Epar.
    apply wret_inv in Epar as ([= ->] & _). reflexivity. }
  assert (Hmsp : mv <> src_parent) by (intros <-; exact (no_self_parent w mv mn HT Hmn Hpar)).
  assert (Hidn : identifiable_n T w mn = false) by (unfold identifiable in Hid; rewrite Hmn in Hid; exact Hid).
  pose proof (slashfree_names T w (i4_slash _ _ _ H4)) as HNS.
  assert (Hnb : ~ reach T w mv self).
  { intros Hr. assert (true = false); [|discriminate].
    symmetry. eapply (ancestor_is_sound T w mv HT _ self n); eauto. }
  (* detach *)
  wk H. rename E into Edet. unfold detach_from in Edet. wk Edet.
  apply get_node_inv in E as (pn & Hpn & Q & _). injection Q as ->.
  destruct (index_of (citem_is mv) (n_content pn)) as [kpos|] eqn:Eidx; [|discriminate Edet].
  apply set_node_inv in Edet as (_ & ->).
  (* re-parent *)
  wk H. apply modify_node_inv in E as (n1 & Hn1 & _ & ->). cbn [w_nodes] in Hn1. rewrite upd_neq in Hn1 by exact Hmsp.
  assert (n1 = mn) by congruence. subst n1. clear Hn1.
  wk H. apply get_node_inv in E as (mn2 & Hmn2 & Q & _). injection Q as ->.
  cbn [w_nodes] in Hmn2. rewrite upd_eq in Hmn2. injection Hmn2 as <-.
  match type of H with wbind _ _ ?ww = _ => set (w2 := ww) in * end.
  assert (Hw2m : w_models w2 = w_models w) by reflexivity.
  assert (Hw2n : forall i, i <> mv -> i <> src_parent -> w_nodes w2 i = w_nodes w i).
  { intros i H1 H2. unfold w2. cbn [w_nodes]. rewrite !upd_neq by assumption. reflexivity. }
  assert (Hw2mv : w_nodes w2 mv = Some (set_parent mn (PElem self))) by (unfold w2; cbn [w_nodes]; apply upd_eq).
  assert (Hw2names : forall i, option_map n_name (w_nodes w2 i) = option_map n_name (w_nodes w i)).
  { intros i. unfold w2. cbn [w_nodes]. unfold upd.
    destruct (i =? mv) eqn:Eq1; [apply N.eqb_eq in Eq1; subst i; rewrite Hmn; reflexivity|].
    destruct (i =? src_parent) eqn:Eq2; [apply N.eqb_eq in Eq2; subst i; rewrite Hpn; reflexivity|reflexivity]. }
  wk H. apply (is_identifiable_val T) in E as (_ & [= ->]).
  rewrite (identifiable_n_same T w w2 mn (set_parent mn (PElem self)) Hw2names eq_refl eq_refl), Hidn in H.
  wk H. apply wret_inv in E as ([= ->] & _).
  (* the model *)
  destruct HRmv as (xm & Hxm & Hrootmv). pose proof (ex_intro _ xm (conj Hxm Hrootmv) : MReach T w m mv) as HRmv.
  assert (Hxm2 : model_at w2 m = Some xm) by (unfold model_at in *; rewrite Hw2m; exact Hxm).
  (* the snapshot *)
  assert (Htodo : forall k, In k (map fst orig) ->
            exists x, assoc_get k (m_idents xm) = Some x /\ reach T w mv x /\ identifiable T w x = true /\
                      SpecPath T w m x k).
  { intros k Hk. apply in_map_iff in Hk as ((k0 & x) & Hk0 & Hin). cbn in Hk0. subst k0.
    destruct (named_paths_sound T w ids orig Enp k x Hin) as (Hxi & nx & Hnx & Hpx).
    assert (Hrx : reach T w mv x) by (apply creach_reach; eapply dfs_sound; eauto).
    assert (HRx : MReach T w m x) by (exists xm; split; [exact Hxm|eapply reach_trans; eauto]).
    destruct (path_of_spec T w m x nx HT Hnx HRx) as (_ & Hps2). destruct (Hps2 _ _ Hpx) as (_ & Hif).
    destruct (identifiable T w x) eqn:Eix; [|discriminate Hif]. destruct Hif as (p0 & [= <-] & Hspx).
    exists x. split; [|auto]. apply (i4_exact _ _ _ H4 m xm Hxm). split; [exact HRx|]. split; assumption. }
  assert (Hsuf : forall k x, assoc_get k (m_idents xm) = Some x -> reach T w mv x ->
            exists u, k = src ++ u /\ u <> [] /\ boundary u = true).
  { intros k x Hk Hrx. pose proof (proj1 (i4_exact _ _ _ H4 m xm Hxm k x) Hk) as (_ & Hix & Hspx).
    eapply (below_strict_suffix T w m mv x); eauto; [exact (i4_named _ _ _ H4)|]. intros <-. congruence. }
  (* separation conditions of rekey_iter *)
  assert (HA : forall op u, In op (map fst orig) -> op = src ++ u ->
            forall k s, In k (keys (m_idents xm)) -> boundary s = true -> k = (dest ++ u) ++ s -> False).
  { intros op u Hop Hu k s Hk Hb Heq. destruct (Htodo op Hop) as (x & Hgx & Hrx & _ & _).
    destruct (Hsuf op x Hgx Hrx) as (u' & Hu' & Hune & _). rewrite Hu in Hu'. apply app_inv_head in Hu'. subst u'.
    destruct (assoc_get k (m_idents xm)) as [z|] eqn:Ez; [|apply assoc_get_none in Ez; contradiction].
    pose proof (proj1 (i4_exact _ _ _ H4 m xm Hxm k z) Ez) as (_ & _ & Hspz).
    destruct (prefix_is_path T w m z k (dest ++ u) s HNS Hspz Heq Hb) as (y & Hy1 & Hy2 & _).
    { intros E. apply app_eq_nil in E as (_ & E). contradiction. }
    assert (Hky : assoc_get (dest ++ u) (m_idents xm) = Some y).
    { apply (i4_exact _ _ _ H4 m xm Hxm). split; [eapply specpath_mreach; eauto|]. split; assumption. }
    rewrite (Hnc xm op u x Hxm Hgx Hrx Hu Hune) in Hky. discriminate Hky. }
  assert (HB : forall op op2 u2, In op (map fst orig) -> In op2 (map fst orig) -> op2 = src ++ u2 ->
            forall s s', boundary s = true -> boundary s' = true -> op ++ s = (dest ++ u2) ++ s' -> False).
  { intros op op2 u2 Hop Hop2 Hu2 s s' Hb Hb' Heq.
    destruct (Htodo op Hop) as (x & Hgx & Hrx & Hix & Hspx). destruct (Htodo op2 Hop2) as (x2 & Hgx2 & Hrx2 & Hix2 & Hspx2).
    destruct (Hsuf op x Hgx Hrx) as (u & Hu & Hune & Hbu).
    destruct (boundary_prefix_cmp op (dest ++ u2) s s' Hb Hb' Heq) as [(t & Ht & Hbt)|(t & Ht & Hbt)].
    - (* op lies at or below the new path of op2 *)
      eapply (HA op2 u2 Hop2 Hu2 op t); eauto. eapply assoc_get_some_key; eauto.
    - (* the new path of op2 lies at or below op *)
      assert (Hb0 : boundary ([] : list N) = true) by reflexivity.
      assert (Heq2 : dest ++ u2 = op ++ t) by exact Ht.
      destruct (Hsuf op2 x2 Hgx2 Hrx2) as (u2' & Hu2' & _ & Hbu2). rewrite Hu2 in Hu2'. apply app_inv_head in Hu2'. subst u2'.
      destruct (boundary_prefix_cmp dest op u2 t Hbu2 Hbt Heq2) as [(t1 & Ht1 & Hbt1)|(t1 & Ht1 & Hbt1)].
      + (* dest lies at or below op: the destination would be inside the moved subtree *)
        assert (Hdne : dest <> []).
        { rewrite Ht1, Hu. intros E. apply app_eq_nil in E as (E & _). apply app_eq_nil in E as (_ & E). contradiction. }
        destruct (self_path_owner T w m self dest HNS Hdp Hdne) as (d & Hd1 & Hd2 & Hd3).
        assert (Hkd : assoc_get dest (m_idents xm) = Some d).
        { apply (i4_exact _ _ _ H4 m xm Hxm). split; [eapply specpath_mreach; eauto|]. split; assumption. }
        assert (Hone : op <> []) by (rewrite Hu; intros E; apply app_eq_nil in E as (_ & E); contradiction).
        assert (Hxd : reach T w x d).
        { eapply (old_form_below T w m xm x op dest d); eauto; [exact (i4_exact _ _ _ H4 m)|]. exists t1. auto. }
        apply Hnb. exact (reach_trans T w mv x self Hrx (reach_trans T w x d self Hxd Hd3)).
      + (* op lies at or below dest *)
        destruct t1 as [|c t1'].
        { rewrite app_nil_r in Ht1.
          assert (Hdne : dest <> []) by (rewrite <- Ht1, Hu; intros E; apply app_eq_nil in E as (_ & E); contradiction).
          destruct (self_path_owner T w m self dest HNS Hdp Hdne) as (d & Hd1 & Hd2 & Hd3).
          assert (Hkd : assoc_get dest (m_idents xm) = Some d).
          { apply (i4_exact _ _ _ H4 m xm Hxm). split; [eapply specpath_mreach; eauto|]. split; assumption. }
          rewrite <- Ht1 in Hkd. assert (Ed : d = x) by congruence. rewrite Ed in Hd3.
          apply Hnb. exact (reach_trans T w mv x self Hrx Hd3). }
        set (t1 := c :: t1') in *.
        assert (Hu2t : u2 = t1 ++ t).
        { rewrite Ht1 in Heq2. rewrite <- app_assoc in Heq2. apply app_inv_head in Heq2. exact Heq2. }
        (* src ++ t1 is a boundary prefix of the key op2: it is the key of an element y on the chain of x2 *)
        assert (Hop2eq : op2 = (src ++ t1) ++ t) by (rewrite Hu2, Hu2t, app_assoc; reflexivity).
        destruct (prefix_is_path T w m x2 op2 (src ++ t1) t HNS Hspx2 Hop2eq Hbt) as (y & Hy1 & Hy2 & Hy3).
        { intros E. apply app_eq_nil in E as (_ & E). discriminate E. }
        assert (Hky : assoc_get (src ++ t1) (m_idents xm) = Some y).
        { apply (i4_exact _ _ _ H4 m xm Hxm). split; [eapply specpath_mreach; eauto|]. split; assumption. }
        destruct (reach_comparable T w y mv x2 HT Hy3 Hrx2) as [Hymv|Hmvy].
        * (* y above mv: its path would be a prefix of src *)
          destruct (below_old_form T w m y mv (src ++ t1) src HT Hy1 Hymv Hsp) as (q & Hq & _).
          rewrite <- app_assoc in Hq. rewrite <- (app_nil_r src) in Hq at 1. apply app_inv_head in Hq.
          symmetry in Hq. apply app_eq_nil in Hq as (Hq & _). discriminate Hq.
        * (* y below mv: its new path dest ++ t1 = op is already a key: collision *)
          rewrite Ht1 in Hgx. rewrite (Hnc xm (src ++ t1) t1 y Hxm Hky Hmvy eq_refl) in Hgx; [discriminate Hgx|].
          unfold t1. discriminate. }
  assert (Hsrcs : forall op, In op (map fst orig) -> exists u, op = src ++ u).
  { intros op Hop. destruct (Htodo op Hop) as (x & Hgx & Hrx & _). destruct (Hsuf op x Hgx Hrx) as (u & Hu & _). eauto. }
  destruct (rekey_iter src dest (m_idents xm) (map fst orig) (i4_nodup _ _ _ H4 m xm Hxm) Hsrcs HA HB) as (_ & Hget).
  (* the per-path re-keying *)
  wk H. rename E into Eper. match type of Eper with _ = Val (OK ?u, _) => destruct u end.
  match type of Eper with ?each _ _ = Val (_, ?w3) =>
    destruct (perpath_sem m src dest each eq_refl (fun _ _ => eq_refl) (map fst orig) w2 xm w3 Hxm2 Eper)
      as (P1 & P2 & P3 & P4 & x3 & Hx3 & P5 & P6 & P7 & P8) end.
  (* the referrer loop *)
  wk H. rename E into Eloop. match type of Eloop with _ = Val (OK ?u, _) => destruct u end.
  (* insertion *)
  wk H. rename E into Eins. apply wret_inv in H as (_ & <-).
  unfold content_insert in Eins. wk Eins. apply get_node_inv in E as (n5 & Hn5 & Q & _). injection Q as ->.
  match type of Eins with (if ?b then _ else _) _ = _ => destruct b end; [discriminate Eins|].
  apply set_node_inv in Eins as (_ & ->).
  set (kf := fun k : list N => option_map (app dest) (strip_prefix src k)).
  set (inner := fun (p' : list N) => fix upd_refs (rl : list id) : W unit :=
         match rl with
         | [] => wret tt
         | re :: rr => (raw_set_character_data T check_fn re (DString p') version;; upd_refs rr)%W
         end).
  match type of Eloop with ?each _ ?w4 = Val (_, ?w5) =>
    destruct (outer_sem_g m kf each inner) with (todo := map fst orig) (wc := w4) (w' := w5) (xc := x3)
      as (HF & HN) end.
  { intros p' rl wa wb Hi. exact (inner_sem_move T check_fn (inner p') p' version eq_refl (fun _ _ => eq_refl) rl wa wb Hi). }
  { reflexivity. }
  { intros k rr. unfold kf. destruct (strip_prefix src k); reflexivity. }
  { intros k k' k2 Hk Hkk Hk2 _ Heq. subst k2. destruct (Hsrcs k Hk) as (u & Hu).
    unfold kf in Hkk. rewrite Hu, strip_prefix_app in Hkk. cbn in Hkk. injection Hkk as <-.
    destruct (Htodo (dest ++ u) Hk2) as (x2 & Hgx2 & _).
    eapply (HA k u Hk Hu (dest ++ u) []); [eapply assoc_get_some_key; eauto|reflexivity|rewrite app_nil_r; reflexivity]. }
  { exact Hx3. }
  { rewrite P6. intros k1 k2 k1' k2' l1 l2 rf I1 I2 Hne12 R1 R2 L1 L2 Q1 Q2.
    destruct (i5_exact _ _ H5 m xm Hxm k1) as (_ & X1). destruct (i5_exact _ _ H5 m xm Hxm k2) as (_ & X2).
    assert (Y1 : RefSet T w m k1 rf) by (apply X1; unfold origins_of; rewrite L1; exact Q1).
    assert (Y2 : RefSet T w m k2 rf) by (apply X2; unfold origins_of; rewrite L2; exact Q2).
    destruct Y1 as (_ & Y1). destruct Y2 as (_ & Y2). congruence. }
  { exact Eloop. }
  rewrite P6 in HN. rewrite P1 in HN.
  destruct HF as (_ & _ & _ & HFm & _). destruct (HFm x3 Hx3) as (x' & Hx' & _ & _ & Hid').
  rewrite P5 in Hid'.
  (* nodes that carry a reference text *)
  assert (Hrefnode : forall rf p, ref_text T w rf = Some p ->
            rf <> src_parent /\ rf <> self /\ ref_text T w2 rf = Some p /\ exists n2, w_nodes w2 rf = Some n2).
  { intros rf p Hr. assert (R1 : rf <> src_parent).
    { intros ->. destruct (ref_text_content T w _ p pn Hr Hpn) as (Hc & _). rewrite Hc in Eidx. cbn in Eidx. discriminate Eidx. }
    assert (R2 : rf <> self).
    { intros ->. destruct (ref_text_content T w _ p n Hr Hn) as (_ & Hc). rewrite (Hselfref n Hn) in Hc. discriminate Hc. }
    split; [exact R1|]. split; [exact R2|].
    destruct (N.eq_dec rf mv) as [->|Hne].
    - split; [|eauto]. rewrite <- Hr. eapply ref_text_shape; eauto.
    - assert (Hsame : w_nodes w2 rf = w_nodes w rf) by (apply Hw2n; assumption).
      split; [rewrite <- Hr; apply ref_text_node; exact Hsame|].
      rewrite Hsame. unfold ref_text in Hr. destruct (w_nodes w rf); [eauto|discriminate]. }
  exists src, dest, xm, x'. split; [exact Hsp|]. split; [exact Hdp|]. split; [exact Hxm|]. split; [exact Hx'|]. split.
  - intros rf p x Hr HRr Hgx Hrx.
    destruct (Hsuf p x Hgx Hrx) as (u & -> & Hune & Hbu). exists u. split; [reflexivity|].
    pose proof (proj1 (i4_exact _ _ _ H4 m xm Hxm _ x) Hgx) as (HRx & Hidx & Hspx).
    assert (Hin_todo : In (src ++ u) (map fst orig)).
    { unfold identifiable in Hidx. destruct (w_nodes w x) as [nx|] eqn:Hnx; [|discriminate Hidx].
      assert (Hnmd : is_named T (n_type nx) = Val true).
      { unfold identifiable_n in Hidx. apply andb_true_iff in Hidx as (Hnm & _). unfold named in Hnm.
        destruct (is_named T (n_type nx)) as [[|]| |]; try discriminate Hnm. reflexivity. }
      assert (Hxi : In x ids) by (eapply dfs_covers; [apply (reach_creach T); exact Hrx|exact Edfs]).
      destruct (named_paths_val T w ids orig Enp x nx Hxi Hnx Hnmd) as (r0 & Hr0).
      destruct (path_of_spec T w m x nx HT Hnx HRx) as (_ & Hps2). destruct (Hps2 _ _ Hr0) as (_ & Hif).
      assert (Hidx2 : identifiable T w x = true) by (unfold identifiable; rewrite Hnx; exact Hidx).
      rewrite Hidx2 in Hif. destruct Hif as (p0 & -> & Hsp0).
      destruct (specpath_fun T w m m x _ _ HT Hspx Hsp0) as (_ & <-).
      change (src ++ u) with (fst (src ++ u, x)). apply in_map.
      eapply named_paths_covers; eauto. }
    split.
    + assert (Hkfp : kf (src ++ u) = Some (dest ++ u)) by (unfold kf; rewrite strip_prefix_app; reflexivity).
      destruct (i5_exact _ _ H5 m xm Hxm (src ++ u)) as (_ & X).
      assert (Hin_r : In rf (origins_of xm (src ++ u))) by (apply X; split; assumption).
      unfold origins_of in Hin_r. destruct (assoc_get (src ++ u) (m_origins xm)) as [l|] eqn:El; [|destruct Hin_r].
      destruct (Hrefnode rf _ Hr) as (_ & Rself & Hr2 & (n2 & Hn2)).
      destruct (HN rf) as [(k & k' & l0 & G1 & G2 & G3 & G4 & G5)|(G1 & _)].
      * destruct (i5_exact _ _ H5 m xm Hxm k) as (_ & Xk).
        assert (Yk : RefSet T w m k rf) by (apply Xk; unfold origins_of; rewrite G3; exact G4).
        destruct Yk as (_ & Yk). assert (k = src ++ u) by congruence. subst k.
        assert (k' = dest ++ u) by congruence. subst k'.
        rewrite Hn2 in G5. cbn [option_map] in G5.
        apply (ref_text_rewritten T w2 _ rf n2 (src ++ u) (dest ++ u) Hn2 Hr2).
        cbn [w_nodes]. rewrite upd_neq by exact Rself. exact G5.
      * exfalso. eapply (G1 (src ++ u) (dest ++ u) l); eauto.
    + rewrite Hid'. apply Hget. left. exists (src ++ u). split; [exists (src ++ u); split; [exact Hin_todo|exists []; split; [rewrite app_nil_r; reflexivity|reflexivity]]|].
      split; [|exact Hgx]. unfold gkey. rewrite strip_prefix_app. reflexivity.
  - intros rf p Hr Hcase. destruct (Hrefnode rf _ Hr) as (_ & Rself & Hr2 & _).
    destruct (HN rf) as [(k & k' & l0 & G1 & G2 & G3 & G4 & G5)|(_ & G2)].
    + exfalso. destruct (i5_exact _ _ H5 m xm Hxm k) as (_ & Xk).
      assert (Yk : RefSet T w m k rf) by (apply Xk; unfold origins_of; rewrite G3; exact G4).
      destruct Yk as (Yr & Yk). assert (k = p) by congruence. subst k.
      destruct (Htodo p G1) as (x & Hgx & Hrx & _). apply Hcase. split; [exact Yr|eauto].
    + rewrite <- Hr2. apply ref_text_node. cbn [w_nodes]. rewrite upd_neq by exact Rself. exact G2.
Qed.

(* ---------- the public calls ---------- *)
Definition container_clauses (w w' : world) (m : N) (mv : id) : Prop :=
  (forall rf x, live_ref T w m rf -> designates T w m rf x -> below T w mv x -> designates T w' m rf x) /\
  (forall rf p, ref_text T w rf = Some p ->
                ~ (live_ref T w m rf /\ exists x, designates T w m rf x /\ below T w mv x) -> ref_text T w' rf = Some p).

Lemma container_of_same_refs w w' m mv :
  w_models w' = w_models w -> (forall rf p, ref_text T w rf = Some p -> ref_text T w' rf = Some p) ->
  container_clauses w w' m mv.
Proof.
  intros Hm Hr. split; [|auto].
  intros rf x _ (xm & p & Hxm & Hrp & Hp) _. exists xm, p. split; [unfold model_at in *; rewrite Hm; exact Hxm|]. auto.
Qed.

Lemma container_of_local h mv pos m version w w' r :
  Inv06 T check_fn w ->
  move_element_local T check_fn h mv pos m version w = Val (OK r, w') ->
  model_of h w = Val (OK m, w) -> model_of mv w = Val (OK m, w) -> h <> mv -> identifiable T w mv = false ->
  (forall n, w_nodes w h = Some n -> isref T (n_type n) = false) ->
  collision06 T w h mv = false ->
  container_clauses w w' m mv.
Proof.
  intros HI Hml Hmh Hmm Hne Hid Hnr Hnc. pose proof HI as (HT & H4 & H5).
  assert (HRmv : MReach T w m mv) by (apply (model_of_mreach T); assumption).
  assert (HRh : MReach T w m h) by (apply (model_of_mreach T); assumption).
  destruct (move_local_container h mv pos m version w w' r HI Hml HRmv HRh Hne Hid Hnr Hnc Hmm)
    as (src & dest & xm & x' & Hsp & Hdp & Hxm & Hx' & Ht1 & Ht2).
  split.
  - intros rf x Hlive (xm0 & p & Hxm0 & Hr & Hp) Hb. assert (xm0 = xm) by congruence. subst xm0.
    destruct (Ht1 rf p x Hr Hlive Hp Hb) as (suf & -> & Hr' & Hg').
    exists x', (dest ++ suf). auto.
  - intros rf p Hr Hnot. apply (Ht2 rf p Hr). intros (Hl & x & Hgx & Hrx). apply Hnot. split; [exact Hl|].
    exists x. split; [exists xm, p; auto|exact Hrx].
Qed.

Lemma e_move_here_neq h mv w r w' :
  e_move_element_here T tab_en check_fn LATEST h mv w = Val (OK r, w') -> h <> mv.
Proof. intros H ->. unfold e_move_element_here in H. rewrite N.eqb_refl in H. discriminate H. Qed.
Lemma e_move_here_at_neq h mv pos w r w' :
  e_move_element_here_at T tab_en check_fn LATEST h mv pos w = Val (OK r, w') -> h <> mv.
Proof. intros H ->. unfold e_move_element_here_at in H. rewrite N.eqb_refl in H. discriminate H. Qed.

Theorem C06_move_container h mv w w' r m :
  TablesOK T check_fn -> Inv06 T check_fn w ->
  e_move_element_here T tab_en check_fn LATEST h mv w = Val (OK r, w') ->
  model_of h w = Val (OK m, w) -> model_of mv w = Val (OK m, w) ->
  identifiable T w mv = false ->
  collision06 T w h mv = false ->
  container_clauses w w' m mv.
Proof.
  intros TK HI H Hmh Hmm Hid Hnc.
  destruct (e_move_here_local T tab_en check_fn LATEST _ _ _ _ _ _ TK H Hmh Hmm) as [->|(pos & version & Hml & Hnr)].
  { apply container_of_same_refs; auto. }
  eapply container_of_local; eauto. eapply e_move_here_neq; eauto.
Qed.

Theorem C06_move_at_container h mv pos w w' r m :
  TablesOK T check_fn -> Inv06 T check_fn w ->
  e_move_element_here_at T tab_en check_fn LATEST h mv pos w = Val (OK r, w') ->
  model_of h w = Val (OK m, w) -> model_of mv w = Val (OK m, w) ->
  identifiable T w mv = false ->
  collision06 T w h mv = false ->
  container_clauses w w' m mv.
Proof.
  intros TK HI H Hmh Hmm Hid Hnc. pose proof (e_move_here_at_neq _ _ _ _ _ _ H) as Hne.
  unfold e_move_element_here_at in H.
  destruct (h =? mv); [discriminate H|].
  wk H. wk H. assert (a = m) by congruence. assert (a0 = m) by congruence. subst a a0.
  wk H. wk H. destruct (negb (a0 =? a)); [discriminate H|].
  wk H. apply get_node_inv in E3 as (n & Hn & Q & _). injection Q as ->.
  wk H. apply get_node_inv in E3 as (mn & Hmn & Q & _). injection Q as ->.
  wk H. destruct a1 as (rs, re).
  assert (Hnr : forall n0, w_nodes w h = Some n0 -> isref T (n_type n0) = false).
  { intros n0 Hn0. assert (n0 = n) by congruence. subst n0. eapply calc_range_not_ref; eauto. }
  destruct ((rs <=? pos) && (pos <=? re)); [|discriminate H]. rewrite N.eqb_refl in H.
  wk H. destruct a1 as [p|]; [|discriminate H].
  destruct (p =? h).
  - unfold move_element_position in H. wk H.
    match goal with E : get_node h w = Val _ |- _ => apply get_node_inv in E as (n0 & Hn0 & Q & _) end. injection Q as ->.
    assert (n0 = n) by congruence. subst n0.
    destruct (pos <? re); [|discriminate H].
    destruct (index_of (citem_is mv) (n_content n)) as [cur|]; [|discriminate H].
    wk H. match goal with E : set_node _ _ _ = Val _ |- _ => apply set_node_inv in E as (_ & ->) end.
    apply wret_inv in H as (_ & ->).
    apply container_of_same_refs; [reflexivity|].
    intros rf p0 Hr. rewrite <- Hr. apply ref_text_node. cbn [w_nodes]. apply upd_neq. intros ->.
    destruct (ref_text_content T w h p0 n Hr Hn) as (_ & Hc). rewrite (Hnr n Hn) in Hc. discriminate Hc.
  - eapply container_of_local; eauto.
Qed.

End Container.
