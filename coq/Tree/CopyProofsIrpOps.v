(* Tree/CopyProofsIrpOps.v — C13 independence calculus, layer 3: tactics and the operations of Tree/Ops.v. *)
From AV Require Import Base.Bytes Base.Outcome Hash.HashModel Tree.Heap Tree.Ops Tree.Script
  Tree.CopyProofsW Tree.CopyProofsDefs Tree.CopyProofsIrp Tree.CopyProofsIrpLib Tree.CopyProofsGrow.
From Coq Require Import Lia PeanoNat.
Open Scope string_scope.
Open Scope list_scope.
Open Scope N_scope.

Lemma index_of_citem_In l c : forall k, index_of (citem_is c) l = Some k -> In (CElem c) l.
Proof.
  induction l as [|[x|d] l IH]; intros k H; cbn in H; [discriminate| |].
  - destruct (x =? c) eqn:E.
    + apply N.eqb_eq in E. subst. left. reflexivity.
    + destruct (index_of (citem_is c) l) eqn:E2; [|discriminate]. right. eapply IH. reflexivity.
  - destruct (index_of (citem_is c) l) eqn:E2; [|discriminate]. right. eapply IH. reflexivity.
Qed.

(* ------------------------------------------------------------------ solvers *)
(* goal: ~ P x *)
Ltac np :=
  solve
  [ assumption
  | match goal with
    | H : GoodN ?P _ ?n, E : n_parent ?n = PElem ?p |- ~ ?P ?p => exact (proj1 (proj2 H) p E)
    | H : GoodN ?P _ ?n, E : n_content ?n = CElem ?c :: _ |- ~ ?P ?c => apply (proj1 H); rewrite E; left; reflexivity
    | H : GoodN ?P _ ?n, I : In (CElem ?c) (n_content ?n) |- ~ ?P ?c => exact (proj1 H c I)
    | H : GoodN ?P _ ?n, E : index_of (citem_is ?c) (n_content ?n) = Some _ |- ~ ?P ?c =>
      exact (proj1 H c (index_of_citem_In _ _ _ E))
    | H : GoodM ?P ?x |- ~ ?P (m_root ?x) => exact (proj1 H)
    | H : OutO ?P (Some ?c) |- ~ ?P ?c => exact (H c eq_refl)
    | H : forall a, Some ?c = Some a -> ~ ?P a |- ~ ?P ?c => exact (H c eq_refl)
    | H : forall a, Some (Some ?c) = Some a -> OutO ?P a |- ~ ?P ?c => exact (H _ eq_refl c eq_refl)
    | H : OutC ?P (CElem ?c :: _) |- ~ ?P ?c => apply H; left; reflexivity
    | H : OutI ?P (?c :: _) |- ~ ?P ?c => apply H; left; reflexivity
    | H : OutP ?P ((?k, ?c) :: _) |- ~ ?P ?c => apply (H k); left; reflexivity
    | H : GoodM ?P ?x, E : assoc_get _ (m_idents ?x) = Some ?j |- ~ ?P ?j => exact (GoodM_idents P x _ j H E)
    end ].

(* goal: OutC / OutI / OutP of a list *)
Ltac outl :=
  solve
  [ assumption
  | match goal with
    | H : OutC ?P (_ :: ?l) |- OutC ?P ?l => intros ? ?Hc; apply H; right; exact Hc
    | H : OutI ?P (_ :: ?l) |- OutI ?P ?l => intros ? ?Hc; apply H; right; exact Hc
    | H : OutP ?P (_ :: ?l) |- OutP ?P ?l => intros ?k ? ?Hc; apply (H k); right; exact Hc
    | H : GoodN ?P ?b ?n |- OutC ?P (n_content ?n) => exact (GoodN_OutC P b n H)
    | H : GoodM ?P ?x, E : assoc_get _ (m_origins ?x) = Some ?l |- OutI ?P ?l => exact (GoodM_origins P x _ l H E)
    | |- OutI _ [] => apply OutI_nil
    | |- OutI _ (if ?c then _ else _) => destruct c; outl
    | |- OutI _ (_ :: _) => apply OutI_cons_intro; [np | outl]
    end ].

(* goal: forall c, In (CElem c) L -> ~ P c *)
Ltac in_out :=
  let c := fresh "c" in let Hin := fresh "Hin" in
  intros c Hin;
  repeat match type of Hin with
  | In _ (insert_at _ _ _) => apply in_insert_at_l in Hin; destruct Hin as [Hin|Hin]
  | In _ (remove_at _ _) => apply in_remove_at_l in Hin
  | In _ (_ ++ _) => apply in_app_or in Hin; destruct Hin as [Hin|Hin]
  | In _ [] => destruct Hin
  | In _ (_ :: _) => destruct Hin as [Hin|Hin]
  | In _ (match ?l with _ => _ end) => destruct l eqn:?
  end;
  first
  [ discriminate Hin
  | (injection Hin as Hin; first [subst; np | rewrite <- Hin; np | rewrite Hin; np])
  | np
  | match goal with H : GoodN ?P _ ?n |- _ => apply (proj1 H); first [exact Hin | match goal with E : n_content n = _ |- _ => rewrite E; simpl; auto end] end ].

(* goal: GoodN n' *)
Ltac good :=
  repeat match goal with
         | |- GoodN _ _ (if ?c then _ else _) => destruct c
         | |- GoodN _ _ (match ?x with _ => _ end) => destruct x eqn:?
         end;
  first
  [ assumption
  | unfold GoodN; cbn [n_content n_parent set_content set_parent set_attrs set_files set_comment new_node];
    split; [ in_out
           | split; [ let p := fresh "p" in let E := fresh "Ep" in intros p E;
                      first [ discriminate E
                            | (injection E as E; first [subst; np | rewrite <- E; np])
                            | match goal with H : GoodN _ _ ?n |- _ => exact (proj1 (proj2 H) p E) end ]
                    | let m := fresh "m" in let E := fresh "Em" in intros m E;
                      first [ discriminate E
                            | match goal with H : GoodN _ _ ?n |- _ => exact (proj2 (proj2 H) m E) end ] ] ] ].
Ltac goodf := let n := fresh "n" in let Hn := fresh "Hn" in intros n Hn; good.

(* goals about the values of index maps *)
Ltac allv :=
  repeat first
  [ assumption
  | apply AllV_nil
  | apply AllV_insert | apply AllV_snoc
  | (eapply AllV_incl; [ intros ?; first [apply in_assoc_remove | apply in_assoc_swap_remove] | ])
  | apply OutI_app | apply OutI_one
  | match goal with
    | H : GoodM ?P ?x |- AllV _ (m_idents ?x) => exact (GoodM_idents P x H)
    | H : GoodM ?P ?x |- AllV _ (m_origins ?x) => exact (GoodM_origins_all P x H)
    | H : GoodM ?P ?x, E : assoc_get _ (m_origins ?x) = Some ?l |- CopyProofsIrp.OutI _ ?l => exact (GoodM_origins P x _ l H E)
    | |- AllV _ (match ?x with _ => _ end) => destruct x eqn:?
    | |- CopyProofsIrp.OutI _ _ => outl
    | |- ~ _ _ => np
    end ].
Ltac goodm :=
  first
  [ assumption
  | apply GoodM_set_origins; [goodm | allv]
  | apply GoodM_set_idents; [goodm | allv]
  | apply GoodM_set_mfiles; goodm ].

Create HintDb irp discriminated.
#[export] Hint Extern 1 (~ _ _) => np : irp.
#[export] Hint Extern 1 (OutC _ _) => outl : irp.
#[export] Hint Extern 1 (OutI _ _) => outl : irp.
#[export] Hint Extern 1 (OutP _ _) => outl : irp.
#[export] Hint Extern 1 (irpqL _ _ _ _ _ _ _ (model_of _)) => (eapply irpq_model_of; np) : irp.
#[export] Hint Extern 1 (irpqL _ _ _ _ _ _ _ (dfs_ids _ _)) => (eapply irpq_dfs_ids; np) : irp.
#[export] Hint Extern 1 (irpqL _ _ _ _ _ _ _ (named_paths _ _)) => (eapply irpq_named_paths; outl) : irp.
#[export] Hint Extern 1 (irpqL _ _ _ _ _ _ _ (ref_texts _ _ _)) => (eapply irpq_ref_texts; outl) : irp.
#[export] Hint Extern 1 (irpqL _ _ _ _ _ _ _ (parent_of ?n)) =>
  (match goal with H : GoodN _ _ n |- _ => eapply irpq_parent_of; exact H end) : irp.
#[export] Hint Extern 1 (irpqL _ _ _ _ _ _ _ (wtry (parent_of ?n))) =>
  (match goal with H : GoodN _ _ n |- _ => eapply irpq_try; eapply irpq_parent_of; exact H end) : irp.
#[export] Hint Extern 1 (irpqL _ _ _ _ _ _ _ (first_named _ _)) => (eapply irpq_first_named; outl) : irp.
#[export] Hint Extern 1 (irpqL _ _ _ _ _ _ _ (get_sub_element _ _)) => (eapply irpq_get_sub_element; np) : irp.
#[export] Hint Extern 1 (irpqL _ _ _ _ _ _ _ (first_named_item _ _ _ _)) => (eapply irpq_first_named_item; outl) : irp.
#[export] Hint Extern 8 (irpqL _ _ _ _ _ _ _ _) => (apply irp_ro; solve [ro_tac]) : irp.
#[export] Hint Extern 2 (irpqL _ _ _ _ _ _ _ (add_identifiable _ _ _)) => (apply irp_add_identifiable; [assumption | np]) : irp.
#[export] Hint Extern 2 (irpqL _ _ _ _ _ _ _ (remove_identifiable _ _)) => (apply irp_remove_identifiable; assumption) : irp.
#[export] Hint Extern 2 (irpqL _ _ _ _ _ _ _ (fix_identifiables _ _ _)) => (apply irp_fix_identifiables; assumption) : irp.
#[export] Hint Extern 2 (irpqL _ _ _ _ _ _ _ (add_reference_origin _ _ _)) => (apply irp_add_reference_origin; [assumption | np]) : irp.
#[export] Hint Extern 2 (irpqL _ _ _ _ _ _ _ (fix_reference_origins _ _ _ _)) => (apply irp_fix_reference_origins; [assumption | np]) : irp.
#[export] Hint Extern 2 (irpqL _ _ _ _ _ _ _ (remove_reference_origin _ _ _)) => (apply irp_remove_reference_origin; assumption) : irp.

Ltac irp_loop :=
  match goal with
  | |- irpqL ?P ?b ?pf _ _ _ ?Q (?F ?l) =>
    is_fix F;
    first
    [ let H := fresh "Hout" in
      first [ assert (H : OutC P l) by outl | assert (H : OutI P l) by outl | assert (H : OutP P l) by outl ];
      revert H; generalize l; let l' := fresh "l" in intro l'; induction l' as [|? ? ?]; intro H;
      lazy beta iota fix zeta
    | let l' := fresh "l" in generalize l; intro l'; induction l' as [|? ? ?]; lazy beta iota fix zeta ]
  end.

Ltac irp_step :=
  lazymatch goal with
  | |- irpL _ _ _ _ _ _ _ => unfold irpL
  | |- irpqL _ _ _ _ _ _ _ (wret _) => apply irpq_ret; first [exact I | np | outl | auto with irp]
  | |- irpqL _ _ _ _ _ _ _ (wfail _) => apply irpq_fail
  | |- irpqL _ _ _ _ _ _ _ (wpanic _) => apply irpq_panic
  | |- irpqL _ _ _ _ _ _ _ wfuel => apply irpq_fuel
  | |- irpqL _ _ _ _ _ _ _ (wbind (get_node _) _) => first [ apply irpq_get; [np | intros ? ?] | apply irpq_get_any; intros ? ]
  | |- irpqL _ _ _ _ _ _ _ (wbind (get_model _) _) =>
    first [ apply irpq_get_model; [assumption | intros ? ?] | apply irpq_get_model_any; intros ? ]
  | |- irpqL _ _ _ _ _ _ _ (wbind wget _) => apply irpq_wget; intros ?
  | |- irpqL _ _ _ _ _ _ _ (wbind (get_file _) _) =>
    first [ apply irpq_get_file; [np | intros ? ?] | apply irpq_get_file_any; intros ? ]
  | |- irpqL _ _ _ _ _ _ _ (set_file _ _) => apply irp_set_file; [np | cbn [f_model]; np]
  | |- irpqL _ _ _ _ _ _ _ (wbind (alloc _) _) => eapply irpq_bind; [apply irpq_alloc; good | solve [grows_tac] | cbv beta; intros ? ?]
  | |- irpqL _ _ _ _ _ _ _ (wbind (wtry _) _) =>
    first [ eapply irpq_bind; [ solve [eauto with irp nocore] | solve [grows_tac] | cbv beta; intros ? ? ]
          | eapply irpq_bind; [ eapply irpq_try; solve [eauto with irp nocore] | solve [grows_tac] | cbv beta; intros ? ? ]
          | eapply (irpq_bind _ _ _ _ _ _ (fun _ => True)); [ | solve [grows_tac] | intros ? _ ] ]
  | |- irpqL ?P _ _ _ _ _ _ (wbind (?F ?l) _) =>
    first [ (is_fix F; eapply (irpq_bind _ _ _ _ _ _ (OutI P)); [ | solve [grows_tac] | intros ? ? ])
          | eapply irpq_bind; [ solve [eauto with irp nocore] | solve [grows_tac] | cbv beta; intros ? ? ]
          | eapply (irpq_bind _ _ _ _ _ _ (fun _ => True)); [ | solve [grows_tac] | intros ? _ ] ]
  | |- irpqL _ _ _ _ _ _ _ (wbind _ _) =>
    first [ eapply irpq_bind; [ solve [eauto with irp nocore] | solve [grows_tac] | cbv beta; intros ? ? ]
          | eapply (irpq_bind _ _ _ _ _ _ (fun _ => True)); [ | solve [grows_tac] | intros ? _ ] ]
  | |- irpqL _ _ _ _ _ _ _ (wtry _) => eapply (irp_try _ _ _ _ _ _ (fun _ => True))
  | |- irpqL _ _ _ _ _ _ _ (set_node _ _) => apply irp_set_node; [np | good]
  | |- irpqL _ _ _ _ _ _ _ (modify_node _ _) => apply irp_modify_node; [np | goodf]
  | |- irpqL _ _ _ _ _ _ _ (set_model _ _) => apply irp_set_model; [assumption | goodm]
  | |- irpqL _ _ _ _ _ _ _ (modify_model _ _) => apply irp_modify_model; [assumption | intros ? ?; goodm]
  | |- irpqL _ _ _ _ _ _ _ (match ?x with _ => _ end) => destruct x eqn:?
  | |- irpqL _ _ _ _ _ _ _ (if ?b then _ else _) => destruct b eqn:?
  | |- irpqL _ _ _ _ _ _ _ (let '(_, _) := ?x in _) => destruct x
  | |- irpqL _ _ _ _ _ _ _ (?F ?l) =>
    first [ match goal with IH : _ -> irpqL _ _ _ _ _ _ _ (F l) |- _ => apply IH; outl end
          | assumption
          | solve [eauto with irp nocore]
          | irp_loop ]
  | |- _ => first [ assumption | solve [eauto with irp nocore] ]
  end.
Ltac irp_tac := repeat irp_step.

Section Ops.
Variable P : id -> Prop.
Variable PM : N -> Prop.
Variable PF : N -> Prop.
Variables L LM LF : N.
Variable T : tables.
Variable tab_el tab_en : nametab.
Variable check_fn : N -> list N -> res bool.
Variable LATEST : N.
Variable root_attrs : list (N * cdata).

Notation irpq := (irpqL P PM PF L LM LF).
Notation irp := (CopyProofsIrp.irpqL P PM PF L LM LF (fun _ => True)).
Notation NPq := (fun c : id => ~ P c).

Lemma irp_content_insert i pos c : ~ P i -> ~ P c -> irp (content_insert i pos (CElem c)).
Proof. intros Hi Hc. unfold content_insert. irp_tac. Qed.
Hint Resolve irp_content_insert : irp.

Lemma irpq_create_inner self name pos version : ~ P self -> irpq NPq (create_sub_element_inner T self name pos version).
Proof. intros Hs. unfold create_sub_element_inner. irp_tac. Qed.
Hint Resolve irpq_create_inner : irp.

Lemma irpq_raw_create_sub self name version : ~ P self -> irpq NPq (raw_create_sub_element T self name version).
Proof. intros Hs. unfold raw_create_sub_element. irp_tac. Qed.
Lemma irpq_raw_create_sub_at self name pos version : ~ P self -> irpq NPq (raw_create_sub_element_at T self name pos version).
Proof. intros Hs. unfold raw_create_sub_element_at. irp_tac. Qed.
Hint Resolve irpq_raw_create_sub irpq_raw_create_sub_at : irp.

Lemma irp_raw_set_cdata i v version : ~ P i -> irp (raw_set_character_data T check_fn i v version).
Proof. intros Hi. unfold raw_set_character_data. irp_tac. Qed.
Hint Resolve irp_raw_set_cdata : irp.

Lemma irpq_create_named_inner self name item pos m version :
  ~ P self -> ~ PM m -> irpq NPq (create_named_sub_element_inner T check_fn self name item pos m version).
Proof. intros Hs Hm. unfold create_named_sub_element_inner. irp_tac. Qed.
Hint Resolve irpq_create_named_inner : irp.
Lemma irpq_raw_create_named self name item m version :
  ~ P self -> ~ PM m -> irpq NPq (raw_create_named_sub_element T check_fn self name item m version).
Proof. intros Hs Hm. unfold raw_create_named_sub_element. irp_tac. Qed.
Lemma irpq_raw_create_named_at self name item pos m version :
  ~ P self -> ~ PM m -> irpq NPq (raw_create_named_sub_element_at T check_fn self name item pos m version).
Proof. intros Hs Hm. unfold raw_create_named_sub_element_at. irp_tac. Qed.
Hint Resolve irpq_raw_create_named irpq_raw_create_named_at : irp.

Lemma irp_make_unique i m pp : ~ P i -> irp (make_unique_item_name T i m pp).
Proof. intros Hi. unfold make_unique_item_name. irp_tac. Qed.
Hint Resolve irp_make_unique : irp.

Lemma irp_detach parent c : ~ P parent -> irp (detach_from parent c).
Proof. intros Hp. unfold detach_from. irp_tac. Qed.
Hint Resolve irp_detach : irp.

Lemma irp_remove_internal fuel : forall i m path, ~ P i -> ~ PM m -> irp (remove_internal T fuel i m path).
Proof. induction fuel as [|f IH]; intros i m path Hi Hm; cbn [remove_internal]; irp_tac. Qed.
Hint Resolve irp_remove_internal : irp.

Lemma irp_raw_remove self sub m : ~ P self -> ~ PM m -> irp (raw_remove_sub_element T self sub m).
Proof. intros Hs Hm. unfold raw_remove_sub_element. irp_tac. Qed.
Hint Resolve irp_raw_remove : irp.
Lemma irp_e_remove h sub : ~ P h -> irp (e_remove_sub_element T h sub).
Proof. intros Hh. unfold e_remove_sub_element. irp_tac. Qed.
Hint Resolve irp_e_remove : irp.
Lemma irp_e_remove_kind h name : ~ P h -> irp (e_remove_sub_element_kind T h name).
Proof. intros Hh. unfold e_remove_sub_element_kind. irp_tac. Qed.

Lemma irp_set_item_name h nm : ~ P h -> irp (e_set_item_name T check_fn LATEST h nm).
Proof. intros Hh. unfold e_set_item_name. irp_tac. Qed.

(* ---------- move ---------- *)
Lemma irpq_move_position self mv pos e : ~ P self -> ~ P mv -> irpq NPq (move_element_position self mv pos e).
Proof. intros Hs Hmv. unfold move_element_position. irp_tac. Qed.
Hint Resolve irpq_move_position : irp.
Lemma irpq_move_local self mv pos m version :
  ~ P self -> ~ P mv -> ~ PM m -> irpq NPq (move_element_local T check_fn self mv pos m version).
Proof. intros Hs Hmv Hm. unfold move_element_local. irp_tac. Qed.
Hint Resolve irpq_move_local : irp.
Lemma irpq_move_full self mv pos m m_src version :
  ~ P self -> ~ P mv -> ~ PM m -> ~ PM m_src -> irpq NPq (move_element_full T tab_en check_fn self mv pos m m_src version).
Proof. intros Hs Hmv Hm Hms. unfold move_element_full. irp_tac. Qed.
Hint Resolve irpq_move_full : irp.
Lemma irpq_e_move h mv : ~ P h -> ~ P mv -> irpq NPq (e_move_element_here T tab_en check_fn LATEST h mv).
Proof. intros Hh Hmv. unfold e_move_element_here. irp_tac. Qed.
Lemma irpq_e_move_at h mv pos : ~ P h -> ~ P mv -> irpq NPq (e_move_element_here_at T tab_en check_fn LATEST h mv pos).
Proof. intros Hh Hmv. unfold e_move_element_here_at. irp_tac. Qed.

(* ---------- file membership ---------- *)
Lemma irp_atfr fuel : forall e f, ~ P e -> irp (add_to_file_restricted T fuel e f).
Proof. induction fuel as [|fl IH]; intros e f He; cbn [add_to_file_restricted]; irp_tac. Qed.
Hint Resolve irp_atfr : irp.
Lemma irp_add_to_file e f : ~ P e -> irp (e_add_to_file T e f).
Proof. intros He. unfold e_add_to_file. irp_tac. Qed.
Lemma irp_remove_from_file e f : ~ P e -> irp (e_remove_from_file T e f).
Proof. intros He. unfold e_remove_from_file. irp_tac. Qed.
Hint Resolve irp_remove_from_file : irp.
Lemma irp_set_file_membership e fm : ~ P e -> irp (set_file_membership T e fm).
Proof. intros He. unfold set_file_membership. irp_tac. Qed.
Hint Resolve irp_set_file_membership : irp.
Lemma irp_remove_file m f : ~ PM m -> irp (m_remove_file T m f).
Proof. intros Hm. unfold m_remove_file. irp_tac. Qed.

(* ---------- edits in place ---------- *)
Lemma irpq_e_create_sub h name : ~ P h -> irpq NPq (e_create_sub_element T LATEST h name).
Proof. intros Hh. unfold e_create_sub_element. irp_tac. Qed.
Lemma irpq_e_create_sub_at h name pos : ~ P h -> irpq NPq (e_create_sub_element_at T LATEST h name pos).
Proof. intros Hh. unfold e_create_sub_element_at. irp_tac. Qed.
Lemma irpq_e_create_named h name item : ~ P h -> irpq NPq (e_create_named_sub_element T check_fn LATEST h name item).
Proof. intros Hh. unfold e_create_named_sub_element. irp_tac. Qed.
Lemma irpq_e_create_named_at h name item pos : ~ P h -> irpq NPq (e_create_named_sub_element_at T check_fn LATEST h name item pos).
Proof. intros Hh. unfold e_create_named_sub_element_at. irp_tac. Qed.
Lemma irpq_e_get_or_create h name : ~ P h -> irpq NPq (e_get_or_create_sub_element T LATEST h name).
Proof. intros Hh. unfold e_get_or_create_sub_element. irp_tac. Qed.
Lemma irpq_e_get_or_create_named h name item : ~ P h -> irpq NPq (e_get_or_create_named_sub_element T check_fn LATEST h name item).
Proof. intros Hh. unfold e_get_or_create_named_sub_element. irp_tac. Qed.
Lemma irp_e_set_cdata h v : ~ P h -> irp (e_set_character_data T tab_en check_fn LATEST h v).
Proof. intros Hh. unfold e_set_character_data. irp_tac. Qed.
Lemma irp_e_remove_cdata h : ~ P h -> irp (e_remove_character_data T h).
Proof. intros Hh. unfold e_remove_character_data. irp_tac. Qed.
Lemma irp_e_insert_citem h t p : ~ P h -> irp (e_insert_character_content_item T h t p).
Proof. intros Hh. unfold e_insert_character_content_item. irp_tac. Qed.
Lemma irp_e_remove_citem h p : ~ P h -> irp (e_remove_character_content_item T h p).
Proof. intros Hh. unfold e_remove_character_content_item. irp_tac. Qed.
Lemma irp_raw_set_attribute h a v version : ~ P h -> irp (raw_set_attribute T check_fn h a v version).
Proof. intros Hh. unfold raw_set_attribute. irp_tac. Qed.
Hint Resolve irp_raw_set_attribute : irp.
Lemma irp_e_set_attribute h a v : ~ P h -> irp (e_set_attribute T check_fn LATEST h a v).
Proof. intros Hh. unfold e_set_attribute. irp_tac. Qed.
Lemma irp_e_remove_attribute h a : ~ P h -> irp (e_remove_attribute T h a).
Proof. intros Hh. unfold e_remove_attribute. irp_tac. Qed.
Lemma irp_e_set_comment h c : ~ P h -> irp (e_set_comment h c).
Proof. intros Hh. unfold e_set_comment. irp_tac. Qed.
Lemma irp_e_set_reference_target h target : ~ P h -> irp (e_set_reference_target T tab_el tab_en check_fn LATEST h target).
Proof. intros Hh. unfold e_set_reference_target. irp_tac. Qed.

(* ---------- copy ---------- *)
Lemma irpq_deep_copy fuel : forall src version, irpq NPq (deep_copy T fuel src version).
Proof. induction fuel as [|f IH]; intros src version; cbn [deep_copy]; irp_tac. Qed.
Hint Resolve irpq_deep_copy : irp.
Lemma irp_register_subtree fuel : forall m cur i, ~ PM m -> ~ P i -> irp (register_subtree T fuel m cur i).
Proof. induction fuel as [|f IH]; intros m cur i Hm Hi; cbn [register_subtree]; irp_tac. Qed.
Hint Resolve irp_register_subtree : irp.
Lemma irpq_ccsei self other pos m version :
  ~ P self -> ~ PM m -> irpq NPq (create_copied_sub_element_inner T self other pos m version).
Proof. intros Hs Hm. unfold create_copied_sub_element_inner. irp_tac. Qed.
Hint Resolve irpq_ccsei : irp.
Lemma irpq_e_copy h other : ~ P h -> irpq NPq (e_create_copied_sub_element T LATEST h other).
Proof. intros Hh. unfold e_create_copied_sub_element, raw_create_copied_sub_element. irp_tac. Qed.
Lemma irpq_e_copy_at h other pos : ~ P h -> irpq NPq (e_create_copied_sub_element_at T LATEST h other pos).
Proof. intros Hh. unfold e_create_copied_sub_element_at, raw_create_copied_sub_element_at. irp_tac. Qed.


(* ---------- new model, new file ---------- *)
Lemma nth_opt_snoc {A} (l : list A) x k :
  nth_opt (l ++ [x]) k = nth_opt l k \/ (k = List.length l /\ nth_opt l k = None /\ nth_opt (l ++ [x]) k = Some x).
Proof.
  revert k. induction l as [|y l IH]; intros [|k]; cbn [nth_opt app List.length]; auto.
  destruct (IH k) as [H|(H1 & H2 & H3)]; [left; exact H|right]. subst. auto.
Qed.

Lemma irpq_new_model : irpq (fun m => ~ PM m) (new_model T root_attrs).
Proof.
  intros w r w' S E B. unfold new_model in E.
  destruct (et_new T (autosar_element T)) as [ty| |]; destruct (elem T (autosar_element T)) as [ed| |]; try discriminate E.
  injection E as <- <-. destruct S as (S1 & S2 & S3 & S4 & S5).
  destruct B as (B1 & B2 & _). cbn [w_next w_models] in B1, B2. rewrite app_length in B2. cbn [List.length] in B2.
  assert (Hfresh : ~ P (w_next w)). { intros Hp. apply S1 in Hp. lia. }
  assert (Hlen : ~ PM (N.of_nat (List.length (w_models w)))).
  { intros Hb. destruct (S4 _ Hb) as [(xb & Hxb)|Hge]; [|lia]. apply nth_opt_Some in Hxb. rewrite Nnat.Nat2N.id in Hxb. lia. }
  split; [|split].
  - split; [|split; [|split; [|split; [|exact S5]]]]; cbn [w_next w_nodes w_models].
    + intros i Hi. apply S1 in Hi. lia.
    + intros j n Hj Hn. destruct (N.eq_dec j (w_next w)) as [->|Hne].
      * rewrite upd_eq in Hn. injection Hn as <-. split; [intros c []|]. split; [intros p; cbn; discriminate|].
        cbn. intros m [= <-]. exact Hlen.
      * rewrite upd_neq in Hn by exact Hne. eapply S2; eauto.
    + intros m x Hk Hx. destruct (nth_opt_snoc (w_models w) (mkModel (w_next w) [] [] []) (N.to_nat m)) as [H|(_ & _ & H)]; rewrite H in Hx.
      * eapply S3; eauto.
      * injection Hx as <-. split; [exact Hfresh|]. split; [intros ? ? []|intros ? ? ? []].
    + intros m Hm. destruct (S4 m Hm) as [(xb & Hxb)|Hge]; [left|right; exact Hge]. exists xb.
      destruct (nth_opt_snoc (w_models w) (mkModel (w_next w) [] [] []) (N.to_nat m)) as [H|(_ & H & _)]; congruence.
  - split; [|split]; cbn [w_next w_nodes w_models w_files].
    + intros j Hj. apply upd_neq. intros ->. auto.
    + intros m Hm. destruct (nth_opt_snoc (w_models w) (mkModel (w_next w) [] [] []) (N.to_nat m)) as [H|(Hk & _ & _)]; [exact H|].
      exfalso. apply Hlen. rewrite <- Hk, Nnat.N2Nat.id. exact Hm.
    + split; [apply FileSame_eq; reflexivity|]. unfold Grow; cbn [w_next w_models w_files]. rewrite app_length. cbn. repeat split; lia.
  - intros a [= <-]. exact Hlen.
Qed.

Lemma Sealed_new_file w m name version :
  ~ PM m -> SealedL P PM PF L LM LF w ->
  let w1 := mkWorld (w_nodes w) (w_next w) (w_files w ++ [mkFile m name version None]) (w_models w) in
  N.of_nat (List.length (w_files w)) < LF ->
  SealedL P PM PF L LM LF w1 /\ Same P PM PF w w1 /\ ~ PF (N.of_nat (List.length (w_files w))).
Proof.
  intros Hm S w1 HB. destruct S as (S1 & S2 & S3 & S4 & S5 & S6).
  assert (Hnew : ~ PF (N.of_nat (List.length (w_files w)))).
  { intros Hf. destruct (S5 _ Hf) as [(fl & Hfl)|Hge]; [|lia]. apply nth_opt_Some in Hfl. rewrite Nnat.Nat2N.id in Hfl. lia. }
  assert (Hold : forall f, PF f -> nth_opt (w_files w ++ [mkFile m name version None]) (N.to_nat f) = nth_opt (w_files w) (N.to_nat f)).
  { intros f Hf. destruct (nth_opt_snoc (w_files w) (mkFile m name version None) (N.to_nat f)) as [H|(Hk & _ & _)]; [exact H|].
    exfalso. apply Hnew. rewrite <- Hk, Nnat.N2Nat.id. exact Hf. }
  split; [|split].
  - split; [exact S1|]. split; [exact S2|]. split; [exact S3|]. split; [exact S4|]. split.
    + intros f Hf. destruct (S5 f Hf) as [(fl & Hfl)|Hge]; [left|right; exact Hge]. exists fl. subst w1. cbn [w_files]. rewrite Hold by exact Hf. exact Hfl.
    + intros f fl Hf Hfl. subst w1. cbn [w_files] in Hfl.
      destruct (nth_opt_snoc (w_files w) (mkFile m name version None) (N.to_nat f)) as [H|(_ & _ & H)]; rewrite H in Hfl.
      * eapply S6; eauto.
      * injection Hfl as <-. exact Hm.
  - split; [reflexivity|]. split; [reflexivity|]. split; [intros f Hf; subst w1; cbn [w_files]; apply Hold; exact Hf|].
    subst w1. unfold Grow; cbn [w_next w_models w_files]. rewrite app_length. cbn. repeat split; lia.
  - exact Hnew.
Qed.

Lemma irpq_create_file m name version : ~ PM m -> irpq (fun f => ~ PF f) (m_create_file T m name version).
Proof.
  intros Hm. unfold m_create_file. apply irpq_get_model; [exact Hm|intros x Gx].
  intros w r w' S E B. apply wbind_inv in E as [(w0 & w1 & E1 & E2) | (e & E1 & _)]; [|apply wget_inv in E1 as ([=] & _)].
  apply wget_inv in E1 as ([= ->] & ->).
  destruct (existsb _ (m_files x)).
  { apply wfail_inv in E2 as (-> & ->). split; [exact S|]. split; [apply Same_refl|]. intros a [=]. }
  apply wbind_inv in E2 as [(u & w1 & E1 & E2) | (e & E1 & _)]; [|discriminate E1].
  unfold wput in E1. injection E1 as <- <-.
  assert (HB : N.of_nat (List.length (w_files w)) < LF).
  { assert (G : Grow (mkWorld (w_nodes w) (w_next w) (w_files w ++ [mkFile m name version None]) (w_models w)) w').
    { revert E2. generalize (N.of_nat (List.length (w_files w))). intros fid E2.
      assert (Hg : grows (modify_model m (fun y => set_mfiles y (m_files y ++ [fid]));;
                     (do w2 <- wget; do _ <- wtry (add_to_file_restricted T (fuel_of w2) (m_root x) fid); wret fid))%W) by grows_tac.
      exact (Hg _ _ _ E2). }
    destruct G as (_ & _ & G3). destruct B as (_ & _ & B3). cbn [w_files] in G3. rewrite app_length in G3. cbn [List.length] in G3. lia. }
  destruct (Sealed_new_file w m name version Hm S HB) as (S1 & Sm1 & Hfid). cbv zeta in S1, Sm1.
  revert E2 Hfid. generalize (N.of_nat (List.length (w_files w))). intros fid E2 Hfid.
  assert (Hk : irpq (fun f => ~ PF f) (modify_model m (fun y => set_mfiles y (m_files y ++ [fid]));;
                     (do w2 <- wget; do _ <- wtry (add_to_file_restricted T (fuel_of w2) (m_root x) fid); wret fid))%W).
  { irp_tac. }
  destruct (Hk _ _ _ S1 E2 B) as (S2 & Sm2 & Hq). split; [exact S2|]. split; [eapply Same_trans; eauto|exact Hq].
Qed.

End Ops.
