(* Tree/CompatHist4.v — the typing invariant for histories, part 4: operations that attach an EXISTING node: move_element_here(_at)
   and create_copied_sub_element(_at).  Everything they do before the final content_insert is a frame step; the inserted edge
   (destination, element) is an okpair exactly under the side condition
       the destination's type lists the element's name with the element's stored DATATYPE (for some version set).
   FI self c m : m is frame steps, possibly followed by one insertion of c into the content of self. *)
From Coq Require Import PeanoNat Arith Lia.
From AV Require Import Base.Bytes Base.Outcome Hash.HashModel Spec.SpecOps Tree.Heap Tree.Ops Tree.Script Tree.Inv
  Tree.InvProofsBase Tree.InvProofsCore Tree.InvProofsPrim Tree.InvProofsCreate Tree.InvProofsRefs Tree.InvProofsRemove
  Tree.Compat Tree.CompatSpec Tree.CompatTyped Tree.CompatProofs8 Tree.CompatFrame Tree.CompatFrameOps Tree.CompatHist1 Tree.CompatHist2
  Tree.CompatHist3.
Open Scope string_scope.
Open Scope list_scope.
Open Scope N_scope.

Definition FrI (self c : id) (w0 w' : world) : Prop :=
  Fr w0 w' \/
  exists w4 n4 pos, Fr w0 w4 /\ w_nodes w4 self = Some n4 /\
                    w' = wset w4 self (set_content n4 (insert_at (n_content n4) pos (CElem c))).

Definition FI {A} (self c : id) (w0 : world) (m : W A) : Prop :=
  forall w r w', Fr w0 w -> m w = Val (r, w') -> FrI self c w0 w'.

Lemma FI_frp {A} self c w0 (m : W A) : frp w0 m -> FI self c w0 m.
Proof. intros Hm w r w' F H. left. exact (Hm _ _ _ F H). Qed.
Lemma FI_bind {A B} self c w0 (m : W A) (k : A -> W B) : frp w0 m -> (forall a, FI self c w0 (k a)) -> FI self c w0 (wbind m k).
Proof.
  intros Hm Hk w r w' F H. apply wbind_inv in H as [(a & w1 & H1 & H2) | (e & H1 & _)].
  - exact (Hk a _ _ _ (Hm _ _ _ F H1) H2).
  - left. exact (Hm _ _ _ F H1).
Qed.
Lemma FI_bind_get {B} self c w0 i (k : node -> W B) :
  (forall n, known w0 i n -> FI self c w0 (k n)) -> FI self c w0 (wbind (get_node i) k).
Proof.
  intros Hk w r w' F H. apply wbind_inv in H as [(n & w1 & H1 & H2) | (e & H1 & _)].
  - apply get_node_inv in H1 as (n' & Hn & [= <-] & ->). exact (Hk n (proj2 F _ _ Hn) _ _ _ F H2).
  - apply get_node_inv in H1 as (n' & _ & [=] & _).
Qed.
Lemma FI_insert {A} self c w0 pos (x : A) : FI self c w0 (content_insert self pos (CElem c);; wret x)%W.
Proof.
  intros w r w' F H. apply wbind_inv in H as [(a & w1 & H1 & H2) | (e & H1 & _)].
  - apply wret_inv in H2 as (_ & ->). apply content_insert_inv in H1 as (n & Hn & _ & ->). right. eauto 10.
  - apply content_insert_inv in H1 as (n & Hn & [=] & _).
Qed.

Ltac fi_step :=
  lazymatch goal with
  | |- FI _ _ _ (wbind (content_insert _ _ _) _) => apply FI_insert
  | |- FI _ _ _ (wbind (get_node _) _) => apply FI_bind_get; intros ? ?
  | |- FI _ _ _ (wbind _ _) => apply FI_bind; [ solve [fr_go] | intros ? ]
  | |- FI _ _ _ (match ?x with _ => _ end) => destruct x eqn:?
  | |- FI _ _ _ (if ?b then _ else _) => destruct b
  | |- FI _ _ _ (let '(_, _) := ?x in _) => destruct x
  | |- FI _ _ _ _ => first [ assumption | apply FI_frp; solve [fr_go] ]
  end.
Ltac fi_tac := repeat fi_step.

Section Attach.
Variable T : tables.
Variable tab_el tab_en : nametab.
Variable check_fn : N -> list N -> res bool.
Variable LATEST : N.

(* what FrI gives for the invariant: the side condition is stated on the BASE world *)
Lemma FrI_typed self c w0 w' :
  Bounded w0 -> TypedU T w0 -> c < w_next w0 ->
  (forall n0 c0, w_nodes w0 self = Some n0 -> w_nodes w0 c = Some c0 -> okpair T (n_type n0) (n_name c0) (n_type c0)) ->
  FrI self c w0 w' -> Bounded w' /\ TypedU T w'.
Proof.
  intros B0 T0 Hc Hok [F|(w4 & n4 & pos & F & Hn4 & ->)].
  - split; [exact (Fr_bounded _ _ F B0)|exact (Fr_typed_u T _ _ F T0)].
  - pose proof (Fr_bounded _ _ F B0) as B4. pose proof (Fr_typed_u T _ _ F T0) as T4.
    destruct (proj2 F _ _ Hn4) as (n0 & Hn0 & (_ & Tn & _)).
    split.
    + apply (bounded_add_edge w4 self n4 c); [exact B4|exact Hn4|destruct F as (Nx & _); lia|].
      intros x Hx. exact (in_insert_elem _ _ _ _ Hx).
    + apply (typed_add_edge T w4 self n4 c); [exact T4|exact Hn4| |].
      * intros nc Hnc. destruct (proj2 F _ _ Hnc) as (c0 & Hc0 & (Nc & Tc & _)). rewrite Tn, Nc, Tc. exact (Hok _ _ Hn0 Hc0).
      * intros x Hx. exact (in_insert_elem _ _ _ _ Hx).
Qed.

(* ---- move ---- *)
Lemma frp_move_position w0 self mv pos e : frp w0 (move_element_position self mv pos e).
Proof.
  unfold move_element_position. apply frp_bind_get. intros n K.
  destruct (pos <? e); [|apply frp_ro; ro_tac].
  destruct (index_of (citem_is mv) (n_content n)) as [cur|] eqn:Ei; [|apply frp_ro; ro_tac].
  apply frp_bind; [|intros _; apply frp_ro; ro_tac].
  apply frp_set_node. apply (known_upd w0 self n _ K). split; [reflexivity|]. split; [reflexivity|].
  intros c Hin. cbn [set_content n_content] in Hin. apply in_insert_at in Hin as [Hin|Hin]; [|exact (in_remove_at _ _ _ Hin)].
  injection Hin as ->.
  clear K. revert cur Ei. induction (n_content n) as [|it l IH]; intros cur Ei; [discriminate|].
  cbn [index_of] in Ei. destruct (citem_is mv it) eqn:Eit.
  - destruct it as [x|d]; [|discriminate]. cbn [citem_is] in Eit. apply N.eqb_eq in Eit. subst x. left. reflexivity.
  - destruct (index_of (citem_is mv) l) as [k|]; [|discriminate]. right. exact (IH k eq_refl).
Qed.

Lemma FI_move_local w0 self mv pos m version : FI self mv w0 (move_element_local T check_fn self mv pos m version).
Proof. unfold move_element_local. fi_tac. Qed.

Lemma FI_move_full w0 self mv pos m m_src version : FI self mv w0 (move_element_full T tab_en check_fn self mv pos m m_src version).
Proof. unfold move_element_full. fi_tac. Qed.

Lemma FI_e_move w0 h mv : FI h mv w0 (e_move_element_here T tab_en check_fn LATEST h mv).
Proof.
  unfold e_move_element_here.
  repeat first [ apply FI_move_local | apply FI_move_full | fi_step ].
Qed.
Lemma FI_e_move_at w0 h mv pos : FI h mv w0 (e_move_element_here_at T tab_en check_fn LATEST h mv pos).
Proof.
  unfold e_move_element_here_at.
  repeat first [ apply FI_move_local | apply FI_move_full | apply FI_frp; apply frp_move_position | fi_step ].
Qed.

(* the side condition: the destination lists the element's name with the element's stored datatype *)
Definition attach_ok (w : world) (h c : id) : Prop :=
  forall n cn, w_nodes w h = Some n -> w_nodes w c = Some cn -> okpair T (n_type n) (n_name cn) (n_type cn).

Lemma model_of_node i w r w1 : model_of i w = Val (r, w1) -> exists n, w_nodes w i = Some n.
Proof.
  unfold model_of. intros H. apply wbind_inv in H as [(a & w2 & H1 & H2)|(e & H1 & _)]; [|apply wget_inv in H1 as ([=] & _)].
  apply wget_inv in H1 as ([= <-] & ->). unfold fuel_of in H2. cbn [model_walk] in H2.
  apply wbind_inv in H2 as [(n & w3 & H3 & _)|(e & H3 & _)]; apply get_node_inv in H3 as (n' & Hn & _); eauto.
Qed.

Lemma attach_from_FI {A} (m : W A) h mv w r w' :
  (forall w0, FI h mv w0 m) -> m w = Val (r, w') -> (exists mn, w_nodes w mv = Some mn) ->
  Bounded w -> TypedU T w -> attach_ok w h mv -> Bounded w' /\ TypedU T w'.
Proof.
  intros HF H (mn & Emv) B HT Hok.
  apply (FrI_typed h mv w w' B HT); [destruct B as (B1 & _); exact (B1 _ _ Emv)|exact Hok|].
  exact (HF w w r w' (Fr_refl w) H).
Qed.

Theorem move_typed h mv w r w' :
  e_move_element_here T tab_en check_fn LATEST h mv w = Val (r, w') ->
  Bounded w -> TypedU T w -> attach_ok w h mv -> Bounded w' /\ TypedU T w'.
Proof.
  intros H B HT Hok. pose proof H as H0. unfold e_move_element_here in H0.
  destruct (h =? mv); [apply wfail_inv in H0 as (_ & ->); auto|].
  assert (Hex : exists mn, w_nodes w mv = Some mn).
  { apply wbind_inv in H0 as [(a & w2 & H1 & _)|(e & H1 & _)]; exact (model_of_node _ _ _ _ H1). }
  exact (attach_from_FI _ h mv w r w' (fun w0 => FI_e_move w0 h mv) H Hex B HT Hok).
Qed.

Theorem move_at_typed h mv pos w r w' :
  e_move_element_here_at T tab_en check_fn LATEST h mv pos w = Val (r, w') ->
  Bounded w -> TypedU T w -> attach_ok w h mv -> Bounded w' /\ TypedU T w'.
Proof.
  intros H B HT Hok. pose proof H as H0. unfold e_move_element_here_at in H0.
  destruct (h =? mv); [apply wfail_inv in H0 as (_ & ->); auto|].
  assert (Hex : exists mn, w_nodes w mv = Some mn).
  { apply wbind_inv in H0 as [(a & w2 & H1 & _)|(e & H1 & _)]; exact (model_of_node _ _ _ _ H1). }
  exact (attach_from_FI _ h mv w r w' (fun w0 => FI_e_move_at w0 h mv pos) H Hex B HT Hok).
Qed.

(* ---- copy ---- *)
Lemma frp_register_subtree w0 fuel : forall m cur i, frp w0 (register_subtree T fuel m cur i).
Proof. induction fuel as [|f IH]; intros m cur i; cbn [register_subtree]; fr_go. Qed.

Lemma copied_inner_typed self other pos m version w r w' :
  create_copied_sub_element_inner T self other pos m version w = Val (r, w') ->
  Bounded w -> TypedU T w -> attach_ok w self other -> Bounded w' /\ TypedU T w'.
Proof.
  intros H B HT Hok. unfold create_copied_sub_element_inner in H.
  wstepn H nn En. apply get_node_inv in En as (n & Hn & En & _). assert (nn = n) by congruence. subst nn. clear En.
  wstepn H wc Ew. assert (wc = w) by (apply wget_inv in Ew as (Ew & _); congruence). subst wc. clear Ew.
  wstepn H anc Ea; [|auto].
  destruct anc; [apply wfail_inv in H as (_ & ->); auto|].
  wstepn H c Ed.
  2:{ destruct (deep_copy_dc T _ _ _ _ _ _ Ed B HT) as (B1 & T1 & _). auto. }
  destruct (deep_copy_dc T _ _ _ _ _ _ Ed B HT) as (B1 & T1 & E1 & (o & nc & Ho & Hnc & Nnc & Tnc & Hc)).
  match type of Ed with _ = Val (_, ?wx) => set (w1 := wx) in * end.
  assert (HF : FI self c w1
      (do cn0 <- get_node c;
       do nv <- wl (is_named_in_version T (n_type cn0) version);
       do id0 <- is_identifiable T cn0;
       if nv && negb id0 then wfail ItemNameRequired else
       do path <- path_unchecked T n;
       modify_node c (fun x => set_parent x (PElem self));;
       do cn <- get_node c;
       do ident <- is_identifiable T cn;
       (if ident then do _ <- make_unique_item_name T c m path; wret tt else wret tt);;
       do w2 <- wget;
       register_subtree T (fuel_of w2) m path c;;
       content_insert self pos (CElem c);;
       wret c)%W).
  { pose proof (frp_register_subtree w1) as HR. fi_tac. }
  apply (FrI_typed self c w1 w' B1 T1); [lia| |exact (HF w1 r w' (Fr_refl w1) H)].
  intros n0 c0 Hn0 Hc0. rewrite Hnc in Hc0. injection Hc0 as <-.
  assert (Hself : self < w_next w) by (destruct B as (X1 & _); exact (X1 _ _ Hn)).
  rewrite (proj2 E1) in Hn0 by exact Hself. rewrite Hn in Hn0. injection Hn0 as <-.
  rewrite Nnc, Tnc. exact (Hok _ _ Hn Ho).
Qed.

Theorem copy_typed h other w r w' :
  e_create_copied_sub_element T LATEST h other w = Val (r, w') ->
  Bounded w -> TypedU T w -> attach_ok w h other -> Bounded w' /\ TypedU T w'.
Proof.
  intros H B HT Hok. unfold e_create_copied_sub_element in H.
  destruct (h =? other); [apply wfail_inv in H as (_ & ->); auto|].
  wstepn H m Em. wstepn H v Ev. unfold raw_create_copied_sub_element in H.
  wstepn H n En. wstepn H o Eo. wstepn H se Ec. destruct se as [s e].
  exact (copied_inner_typed _ _ _ _ _ _ _ _ H B HT Hok).
  all: auto.
Qed.

Theorem copy_at_typed h other pos w r w' :
  e_create_copied_sub_element_at T LATEST h other pos w = Val (r, w') ->
  Bounded w -> TypedU T w -> attach_ok w h other -> Bounded w' /\ TypedU T w'.
Proof.
  intros H B HT Hok. unfold e_create_copied_sub_element_at in H.
  destruct (h =? other); [apply wfail_inv in H as (_ & ->); auto|].
  wstepn H m Em. wstepn H v Ev. unfold raw_create_copied_sub_element_at in H.
  wstepn H n En. wstepn H o Eo. wstepn H se Ec. destruct se as [s e].
  destruct ((s <=? pos) && (pos <=? e)); [|apply wfail_inv in H as (_ & ->); auto].
  exact (copied_inner_typed _ _ _ _ _ _ _ _ H B HT Hok).
  all: auto.
Qed.

End Attach.
