(* Tree/InvProofsOp2Rej.v — C03: Core over the whole alphabet op2 outside the ONE genuine class Known_load_shared
   (rejected loads are covered: Tree/InvProofsLoadRej.v). *)
From Coq Require Import PeanoNat Arith Lia.
From AV Require Import Base.Bytes Base.Outcome Hash.HashModel Tree.Heap Tree.Ops Tree.Script Tree.Inv
  Tree.InvProofsBase Tree.InvProofsCore Tree.InvProofsPrim Tree.InvProofs Tree.Sort Tree.Copy Tree.Compat Tree.Serialize
  Tree.Load Tree.Script2 Tree.InvLoad Tree.InvProofsOp2 Tree.InvProofsLoadBase Tree.InvProofsLoad Tree.InvProofsLoadRej
  Tree.InvProofsReal Tree.InvEBase Tree.InvProofsLoadLive Tree.InvProofsOp2Lift Tree.InvProofsOp2Live.
From AV Require Xml.Parser Xml.TablesOk Tree.InvProofsLoadParser.
Open Scope string_scope.
Open Scope list_scope.
Open Scope N_scope.

Section Op2Rej.
Variable T : tables.
Variable tab_el tab_at tab_en : nametab.
Variable check_fn : N -> list N -> res bool.
Variable float_parse : list N -> option N.
Variable float_fmt : N -> list N.
Variable LATEST name_index name_definition_ref attr_schema_location : N.
Variable root_attrs : list (N * cdata).

Notation run2 := (run_op2 T tab_el tab_at tab_en check_fn float_parse float_fmt LATEST name_index name_definition_ref
                          attr_schema_location root_attrs).
Notation KShared := (Known_load_shared T tab_el tab_at tab_en check_fn float_parse LATEST name_definition_ref).

Lemma load_buffer_core_full m buffer filename strict w r w' :
  Core w -> KShared w (OpLoad m buffer filename strict) = false ->
  m_load_buffer T tab_el tab_at tab_en check_fn float_parse LATEST name_definition_ref m buffer filename strict w = Val (r, w') ->
  Core w'.
Proof.
  intros C Hs H. unfold m_load_buffer in H.
  bstep H x wx E0; [|apply get_model_inv in E0 as (? & _ & [=] & _)]. apply get_model_inv in E0 as (x' & Hx & [= ->] & ->).
  bstep H w0 wx E1; [|apply wget_inv in E1 as ([=] & _)]. apply wget_inv in E1 as ([= ->] & ->).
  destruct (existsb _ _); [apply wfail_inv in H as (_ & ->); exact C|].
  unfold Known_load_shared, load_merge_point in Hs.
  destruct (Parser.load strict T tab_el tab_at tab_en check_fn float_parse buffer) as [[root st|pe st]| |] eqn:EP;
    try discriminate H.
  2:{ apply wfail_inv in H as (_ & ->). exact C. }
  assert (G : forall r0 w0, load_parsed T LATEST name_definition_ref m filename root st w = Val (r0, w0) -> Core w0).
  { intros r0 w0 HL. eapply (load_parsed_core_full T LATEST name_definition_ref m filename root st w r0 w0 C); [|exact HL].
    intros t w1 x1 Ei w2 Hx1 Hfirst. rewrite Ei in Hs. fold w2 in Hs. rewrite Hx1, Hfirst in Hs. exact Hs. }
  bstep H f0 wx E2.
  - apply wret_inv in H as (_ & ->). eapply G; eauto.
  - eapply G; eauto.
Qed.

Theorem Core_step2_full o w r w' : KShared w o = false -> Core w -> run2 o w = Val (r, w') -> Core w'.
Proof.
  intros HK C H. destruct (pending_op2 o) eqn:Ep.
  2:{ eapply Core_step2_partial; eauto. }
  destruct o; try discriminate Ep. cbn [run_op2] in H.
  apply wbind_inv in H as [([f ws] & w1 & H1 & H2) | (e & H1 & ->)].
  - apply wret_inv in H2 as (_ & ->). eapply load_buffer_core_full; eauto.
  - eapply load_buffer_core_full; eauto.
Qed.

Fixpoint clean_shared_ops2 (l : list op2) (w : world) : bool :=
  match l with
  | [] => true
  | o :: r => negb (KShared w o) && match run2 o w with Val (_, w') => clean_shared_ops2 r w' | _ => true end
  end.

Theorem Core_histories2_full l : forall w w',
  Core w -> clean_shared_ops2 l w = true ->
  run_ops2 T tab_el tab_at tab_en check_fn float_parse float_fmt LATEST name_index name_definition_ref
           attr_schema_location root_attrs l w = Val w' -> Core w'.
Proof.
  induction l as [|o l IH]; intros w w' C Hc H; cbn [run_ops2 clean_shared_ops2] in *.
  - injection H as <-. exact C.
  - apply andb_prop in Hc as (Hk & Hc). apply negb_true_iff in Hk.
    destruct (run2 o w) as [[r w1]| |] eqn:E; try discriminate H.
    eapply IH; [|exact Hc|exact H]. eapply Core_step2_full; eauto.
Qed.

(* ---------- RealInvL over the whole alphabet: rejected loads included ---------- *)
Theorem RealInvL_load_full m buffer filename strict w r w' :
  TablesOk.tables_ok T = true -> RealInvL T w -> KShared w (OpLoad m buffer filename strict) = false ->
  m_load_buffer T tab_el tab_at tab_en check_fn float_parse LATEST name_definition_ref m buffer filename strict w = Val (r, w') ->
  RealInvL T w'.
Proof.
  intros OK I Hs H. unfold m_load_buffer in H.
  bstep H x wx E0; [|apply get_model_inv in E0 as (? & _ & [=] & _)]. apply get_model_inv in E0 as (x' & Hx & [= ->] & ->).
  bstep H w0 wx E1; [|apply wget_inv in E1 as ([=] & _)]. apply wget_inv in E1 as ([= ->] & ->).
  destruct (existsb _ _); [apply wfail_inv in H as (_ & ->); exact I|].
  unfold Known_load_shared, load_merge_point in Hs.
  destruct (Parser.load strict T tab_el tab_at tab_en check_fn float_parse buffer) as [[root st|pe st]| |] eqn:EP;
    try discriminate H.
  2:{ apply wfail_inv in H as (_ & ->). exact I. }
  destruct (InvProofsLoadParser.load_tree_facts T tab_el tab_at tab_en check_fn float_parse strict buffer root st OK EP) as (EC & ERf).
  assert (G : forall r0 w0, load_parsed T LATEST name_definition_ref m filename root st w = Val (r0, w0) -> RealInvL T w0).
  { intros r0 w0 HL. eapply (load_parsed_real_full T LATEST name_definition_ref m filename root st w r0 w0 I EC ERf); [|exact HL].
    intros t w1 x1 Ei w2 Hx1 Hfirst. rewrite Ei in Hs. fold w2 in Hs. rewrite Hx1, Hfirst in Hs. exact Hs. }
  bstep H f0 wx E2.
  - apply wret_inv in H as (_ & ->). eapply G; eauto.
  - eapply G; eauto.
Qed.

Notation KReal2 := (Known_real2 T tab_el tab_at tab_en check_fn float_parse float_fmt LATEST name_index name_definition_ref
                                attr_schema_location root_attrs).

Theorem RealInvL_step2_full o w r w' :
  RefChars T -> TablesOk.tables_ok T = true -> RealInvL T w ->
  KReal2 w o = false -> KShared w o = false -> run2 o w = Val (r, w') -> RealInvL T w'.
Proof.
  intros RC OK I HK HL H.
  destruct o as [o1| | |m0|m0 buffer filename strict| | | |];
    try (eapply (RealInvL_step2 T tab_el tab_at tab_en check_fn float_parse float_fmt LATEST name_index name_definition_ref
                                attr_schema_location root_attrs); eauto; reflexivity).
  cbn [run_op2] in H.
  apply wbind_inv in H as [([f ws] & w1 & H1 & H2) | (e & H1 & ->)].
  - apply wret_inv in H2 as (_ & ->). eapply RealInvL_load_full; eauto.
  - eapply RealInvL_load_full; eauto.
Qed.

Fixpoint clean_ops2_full (l : list op2) (w : world) : bool :=
  match l with
  | [] => true
  | o :: r => negb (KReal2 w o) && negb (KShared w o) &&
              match run2 o w with Val (_, w') => clean_ops2_full r w' | _ => true end
  end.

Theorem RealInvL_histories2_full l : forall w w',
  RefChars T -> TablesOk.tables_ok T = true -> RealInvL T w -> clean_ops2_full l w = true ->
  run_ops2 T tab_el tab_at tab_en check_fn float_parse float_fmt LATEST name_index name_definition_ref
           attr_schema_location root_attrs l w = Val w' -> RealInvL T w'.
Proof.
  induction l as [|o l IH]; intros w w' RC OK I Hc H; cbn [run_ops2 clean_ops2_full] in *.
  - injection H as <-. exact I.
  - apply andb_prop in Hc as (Hc1 & Hc). apply andb_prop in Hc1 as (Hk & Hl).
    apply negb_true_iff in Hk. apply negb_true_iff in Hl.
    destruct (run2 o w) as [[r w1]| |] eqn:E; try discriminate H.
    eapply IH; [exact RC|exact OK| |exact Hc|exact H]. eapply RealInvL_step2_full; eauto.
Qed.

End Op2Rej.
