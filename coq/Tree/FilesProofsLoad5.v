(* Tree/FilesProofsLoad5.v — C10 proofs, load: the witness that RootFull is needed (the shape of the known finding
   C10-merge-membership-inconsistent): a state reached through the API in which TreeInv, FilesInv and FilesOwned hold
   and the root is not in all files; a successful load after which FilesInvW (b) fails. *)
From Coq Require Import PeanoNat Arith Lia.
From AV Require Import Base.Bytes Base.Outcome Hash.HashModel Tree.Heap Tree.Ops Tree.Script Tree.Inv Tree.Load Tree.MergeSpec
  Tree.Files Tree.FilesLoad Tree.FilesProofsBase Tree.FilesProofsOwned Tree.FilesProofsTop.
Open Scope string_scope.
Open Scope list_scope.
Open Scope N_scope.
Import TinyF TinyL.

Definition model0 (w : world) : model := match nth_opt (w_models w) 0 with Some x => x | None => mkModel 0 [] [] [] end.

Lemma pre_inv : TreeInv w_pre /\ FilesInv tiny w_pre /\ FilesOwned w_pre.
Proof. apply (reachable_owned_all tiny tiny_el tiny_en tiny_check_fn LATEST [] pre w_pre); vm_compute; reflexivity. Qed.

Lemma pre_not_full : ~ RootFull w_pre (model0 w_pre).
Proof.
  intros (rn & Hrn & Hi).
  assert (option_map n_files (w_nodes w_pre (m_root (model0 w_pre))) = Some [0]) as E by (vm_compute; reflexivity).
  rewrite Hrn in E. cbn in E. injection E as E. rewrite E in Hi.
  assert (In 1 (m_files (model0 w_pre))) as H1 by (vm_compute; auto).
  specialize (Hi 1 H1). destruct Hi as [Hi|[]]. discriminate Hi.
Qed.

Lemma ld_ok : ld w_pre = Val (OK 2, w_post).
Proof.
  assert (match ld w_pre with Val (r0, _) => Some r0 | _ => None end = Some (OK 2)) as Hres by (vm_compute; reflexivity).
  unfold w_post. destruct (ld w_pre) as [[r w']| |]; try discriminate Hres. injection Hres as ->. reflexivity.
Qed.

Lemma post_nodes :
  option_map (fun n => (n_files n, n_parent n, kids n)) (w_nodes w_post 0) = Some ([0; 2], PModel 0, [1]) /\
  option_map (fun n => (n_files n, n_parent n, kids n)) (w_nodes w_post 1) = Some ([], PElem 0, [2; 6]) /\
  option_map (fun n => (n_files n, n_parent n)) (w_nodes w_post 2) = Some ([0; 1], PElem 1) /\
  m_root (model0 w_post) = 0.
Proof. vm_compute. repeat split; reflexivity. Qed.

Lemma post_broken : ~ FilesInvW w_post (model0 w_post).
Proof.
  destruct post_nodes as (E0 & E1 & E2 & Er). intros [A B D]. rewrite Er in *.
  destruct (w_nodes w_post 0) as [n0|] eqn:H0; [|discriminate E0]. cbn in E0. injection E0 as F0 P0 K0.
  destruct (w_nodes w_post 1) as [n1|] eqn:H1; [|discriminate E1]. cbn in E1. injection E1 as F1 P1 K1.
  destruct (w_nodes w_post 2) as [n2|] eqn:H2; [|discriminate E2]. cbn in E2. injection E2 as F2 P2.
  assert (Reach w_post 0 2) as Hr.
  { eapply R_kid; [eapply R_kid; [constructor; exists n0; exact H0|]|].
    - exists n0. split; auto. rewrite K0. left. reflexivity.
    - exists n1. split; auto. rewrite K1. left. reflexivity. }
  destruct (B 2 n2 1 Hr H2) as (s & Hs & Hi); [rewrite F2; intros Hx; discriminate Hx|exact P2|].
  destruct (Eff_up_inv _ _ _ _ Hs H1 F1) as (p & Hp & Hs0). assert (p = 0) as -> by (rewrite P1 in Hp; injection Hp as Hp; symmetry; exact Hp).
  assert (s = [0; 2]) as -> by (rewrite <- F0; apply (Eff_local_inv _ _ _ _ Hs0 H0); rewrite F0; intros Hx; discriminate Hx).
  rewrite F2 in Hi. specialize (Hi 1 (or_intror (or_introl eq_refl))).
  destruct Hi as [Hi|[Hi|[]]]; discriminate Hi.
Qed.

Theorem root_partial_witness :
  exists (w : world) (x : model) (w' : world) (x' : model) (fid : N),
    TreeInv w /\ FilesInv tiny w /\ FilesOwned w /\ nth_opt (w_models w) 0 = Some x /\ ~ RootFull w x /\
    ld w = Val (OK fid, w') /\ nth_opt (w_models w') 0 = Some x' /\ ~ FilesInvW w' x'.
Proof.
  exists w_pre, (model0 w_pre), w_post, (model0 w_post), 2.
  destruct pre_inv as (TI & FI & FO). split; [exact TI|]. split; [exact FI|]. split; [exact FO|].
  split; [vm_compute; reflexivity|]. split; [exact pre_not_full|]. split; [exact ld_ok|].
  split; [vm_compute; reflexivity|exact post_broken].
Qed.

(* ---------- rule (c) is not kept by a merge (why the load theorems speak of FilesInvW) ---------- *)
Lemma pre_c_inv : TreeInv wc_pre /\ FilesInv tiny wc_pre /\ FilesOwned wc_pre.
Proof. apply (reachable_owned_all tiny tiny_el tiny_en tiny_check_fn LATEST [] pre_c wc_pre); vm_compute; reflexivity. Qed.

Lemma pre_c_full : RootFull wc_pre (model0 wc_pre).
Proof.
  assert (exists rn, w_nodes wc_pre (m_root (model0 wc_pre)) = Some rn /\ n_files rn = [0]) as (rn & Hrn & Hf)
    by (eexists; split; [vm_compute; reflexivity|reflexivity]).
  exists rn. split; auto. rewrite Hf. assert (m_files (model0 wc_pre) = [0]) as -> by (vm_compute; reflexivity). apply incl_refl.
Qed.

Lemma ld_c_ok : ld_c wc_pre = Val (OK 1, wc_post).
Proof.
  assert (match ld_c wc_pre with Val (r0, _) => Some r0 | _ => None end = Some (OK 1)) as Hres by (vm_compute; reflexivity).
  unfold wc_post. destruct (ld_c wc_pre) as [[r w']| |]; try discriminate Hres. injection Hres as ->. reflexivity.
Qed.

Lemma post_c_nodes :
  option_map (fun n => (n_files n, n_parent n, kids n)) (w_nodes wc_post 0) = Some ([0; 1], PModel 0, [1]) /\
  option_map (fun n => (n_parent n, kids n)) (w_nodes wc_post 1) = Some (PElem 0, [2]) /\
  option_map (fun n => (n_parent n, kids n, splittable tiny (n_type n))) (w_nodes wc_post 2) = Some (PElem 1, [3; 4], Val 0) /\
  option_map (fun n => (n_files n, n_parent n)) (w_nodes wc_post 4) = Some ([0], PElem 2) /\
  m_root (model0 wc_post) = 0.
Proof. vm_compute. repeat split; reflexivity. Qed.

Lemma post_c_broken : ~ FilesInvM tiny wc_post (model0 wc_post).
Proof.
  destruct post_c_nodes as (E0 & E1 & E2 & E4 & Er). intros [A B S D]. rewrite Er in *.
  destruct (w_nodes wc_post 0) as [n0|] eqn:H0; [|discriminate E0]. cbn in E0. injection E0 as F0 P0 K0.
  destruct (w_nodes wc_post 1) as [n1|] eqn:H1; [|discriminate E1]. cbn in E1. injection E1 as P1 K1.
  destruct (w_nodes wc_post 2) as [n2|] eqn:H2; [|discriminate E2]. cbn in E2. injection E2 as P2 K2 S2.
  destruct (w_nodes wc_post 4) as [n4|] eqn:H4; [|discriminate E4]. cbn in E4. injection E4 as F4 P4.
  assert (Reach wc_post 0 4) as Hr.
  { eapply R_kid; [eapply R_kid; [eapply R_kid; [constructor; exists n0; exact H0|]|]|].
    - exists n0. split; auto. rewrite K0. left. reflexivity.
    - exists n1. split; auto. rewrite K1. left. reflexivity.
    - exists n2. split; auto. rewrite K2. right. left. reflexivity. }
  assert (n_files n4 <> []) as Hne by (rewrite F4; intros Hx; discriminate Hx).
  destruct (S 4 n4 2 n2 Hr H4 Hne P4 H2) as (sv & Hsv & Hnz). rewrite S2 in Hsv. injection Hsv as <-. apply Hnz. reflexivity.
Qed.

Theorem rule_c_witness :
  exists (w : world) (x : model) (w' : world) (x' : model) (fid : N),
    TreeInv w /\ FilesInv tiny w /\ FilesOwned w /\ nth_opt (w_models w) 0 = Some x /\ RootFull w x /\
    ld_c w = Val (OK fid, w') /\ nth_opt (w_models w') 0 = Some x' /\ ~ FilesInvM tiny w' x'.
Proof.
  exists wc_pre, (model0 wc_pre), wc_post, (model0 wc_post), 1.
  destruct pre_c_inv as (TI & FI & FO). split; [exact TI|]. split; [exact FI|]. split; [exact FO|].
  split; [vm_compute; reflexivity|]. split; [exact pre_c_full|]. split; [exact ld_c_ok|].
  split; [vm_compute; reflexivity|exact post_c_broken].
Qed.
