(* Tree/RangeProofsMovePos.v — C07: move_element_here_at inside the SAME parent (Ops.move_element_position with the bound
   `pos < end of range` of fix fd5588f): taking any child out and putting an element called `name` back at a target index
   lo <= pos < hi of the range computed (with the child still present) keeps the child list in specification order. *)
From Coq Require Import Arith.
From AV Require Import Base.Bytes Base.Outcome Hash.HashModel Spec.SpecOps Tree.Heap Tree.Ops Tree.Script Tree.Inv Tree.InvProofsBase
  Tree.Range Tree.RangeProofsPath Tree.SpecWF Tree.RangeProofsLoop Tree.RangeProofsCalc Tree.RangeProofsOps.
Open Scope list_scope.
Open Scope N_scope.

Lemma in_firstn_remove {A} (x : A) : forall l p k, In x (firstn p (remove_at l k)) -> In x (firstn (S p) l).
Proof.
  induction l as [|y l IH]; intros p k H; [destruct k; destruct p; exact H|].
  destruct k as [|k]; cbn [remove_at] in H.
  - cbn [firstn]. right. exact H.
  - destruct p as [|p]; cbn [firstn] in H; [destruct H|]. destruct H as [<-|H]; [left; reflexivity|].
    cbn [firstn]. right. apply (IH p k). exact H.
Qed.

Lemma in_skipn_remove {A} (x : A) : forall l p k, In x (skipn p (remove_at l k)) -> In x (skipn p l).
Proof.
  induction l as [|y l IH]; intros p k H; [destruct k; destruct p; exact H|].
  destruct k as [|k]; cbn [remove_at] in H.
  - destruct p as [|p]; cbn [skipn]; [right; exact H|]. clear IH. revert p H. induction l as [|z l IHl]; intros p H; [destruct p; exact H|].
    destruct p as [|p]; cbn [skipn] in *; [right; exact H| apply IHl; exact H].
  - destruct p as [|p]; cbn [skipn] in *.
    + destruct H as [<-|H]; [left; reflexivity|]. right. apply (IH 0%nat k). exact H.
    + apply (IH p k). exact H.
Qed.

Lemma valid_remove cs k p : valid cs p -> valid cs (S p) -> valid (remove_at cs k) p.
Proof.
  intros (_ & A1) (B1 & _). split; apply Forall_forall; intros c Hc.
  - rewrite Forall_forall in B1. apply B1. eapply in_firstn_remove; eauto.
  - rewrite Forall_forall in A1. apply A1. eapply in_skipn_remove; eauto.
Qed.

Lemma map_remove_at {A B} (f : A -> B) l k : map f (remove_at l k) = remove_at (map f l) k.
Proof. revert k. induction l as [|y l IH]; intros [|k]; cbn [map remove_at]; try reflexivity. rewrite IH. reflexivity. Qed.

Lemma remove_at_length {A} (l : list A) k : (k < List.length l)%nat -> List.length (remove_at l k) = pred (List.length l).
Proof.
  revert k. induction l as [|y l IH]; intros k Hk; cbn [List.length] in *; [lia|].
  destruct k as [|k]; cbn [remove_at List.length]; [reflexivity|]. rewrite IH by lia. lia.
Qed.

Section MovePos.
Variable T : tables.
Hypothesis WF : SpecWF T.

(* the pure statement *)
Theorem reposition_ordered n name v w lo hi w1 items cur pos :
  items_of w (n_content n) = Some items -> Ordered T (n_type n) v items ->
  calc_element_insert_range T n name v w = Val (OK (lo, hi), w1) ->
  (cur < List.length items)%nat -> lo <= pos -> pos < hi ->
  Ordered T (n_type n) v (ins (remove_at items cur) (N.to_nat pos) (Some name)).
Proof.
  intros HI HO H Hcur Hlo Hhi.
  unfold Ordered, orderedb in HO. rewrite paths_of_opaths in HO.
  destruct (opaths T (n_type n) v items) as [ol|] eqn:EO; cbn [option_map] in HO; [|discriminate].
  pose proof (opaths_length T _ _ _ _ EO) as HLen2.
  pose proof (calc_ro T _ _ _ _ _ _ H) as ->.
  destruct (calc_cases T _ _ _ _ _ _ H) as (d & Hd & [(_ & X & _) | [(_ & _ & X & _) | (NC & new & EX & Hcase)]]); try discriminate.
  pose proof (idx_of_leaf T _ _ _ _ EX) as Lnew.
  pose proof (opaths_leaf T _ _ _ _ EO) as Lol.
  pose proof (opaths_remove T (n_type n) v items ol cur EO) as EO'.
  assert (HO' : all_pairs_ok T (n_type n) (somes (remove_at ol cur)) = true).
  { destruct (somes_remove ol cur) as [E|(j & E)]; rewrite E; [exact HO | apply all_pairs_ok_remove; exact HO]. }
  assert (Hq : (N.to_nat pos <= List.length (remove_at items cur))%nat).
  { rewrite remove_at_length by exact Hcur. pose proof (calc_bound T _ _ _ _ _ _ _ H) as Hb.
    rewrite <- (items_of_length _ _ _ HI) in Hb. lia. }
  apply (ordered_ins_iff T _ _ _ _ _ _ _ EX EO' Hq). split; [exact HO'|].
  rewrite map_remove_at.
  assert (V : forall q, lo <= N.of_nat q <= hi -> valid (map (cls_of T (n_type n) new) ol) q).
  { intros q Hqr. destruct Hcase as [(Hbag & HR & _) | (Hnb & HR)].
    - apply all_mid_valid. apply Forall_forall. intros c Hc.
      apply in_map_iff in Hc as ([ex|] & <- & Hin); cbn [cls_of]; [|reflexivity].
      apply (bag_all_mid T WF (n_type n) d new ex Hd Hbag Lnew). apply Lol. exact Hin.
    - destruct (range_loop_refine T (n_type n) v new Lnew _ _ _ _ _ _ _ _ HI EO HR) as [_ HC]. cbn beta iota in HC.
      pose proof (tail_ok_of_ordered T (n_type n) new ol Lnew Lol HO) as HT.
      destruct (cloop_exact _ 0 0 lo hi (N.le_refl 0) HC) as (A & B & C & D & E & F).
      rewrite map_length, HLen2 in B, F.
      apply (F HT); [|lia]. pose proof (calc_bound T _ _ _ _ _ _ _ H) as Hb.
      rewrite <- (items_of_length _ _ _ HI) in Hb. lia. }
  apply valid_remove; apply V; lia.
Qed.

(* ---------- the heap side ---------- *)
Lemma items_of_remove w : forall l items k, items_of w l = Some items -> items_of w (remove_at l k) = Some (remove_at items k).
Proof.
  induction l as [|c l IH]; intros items k; cbn [items_of].
  - intros [= <-]. destruct k; reflexivity.
  - destruct (item_of w c) as [x|] eqn:EI; [|discriminate]. destruct (items_of w l) as [xs|] eqn:EL; [|discriminate].
    intros [= <-]. destruct k as [|k]; cbn [remove_at]; [exact EL|]. cbn [items_of]. rewrite EI, (IH xs k eq_refl). reflexivity.
Qed.

Lemma index_of_lt {A} (p : A -> bool) : forall l k, index_of p l = Some k -> (k < List.length l)%nat.
Proof.
  induction l as [|x l IH]; intros k; cbn [index_of]; [discriminate|].
  destruct (p x); [intros [= <-]; cbn; lia|].
  destruct (index_of p l) as [j|]; cbn [option_map]; [|discriminate]. intros [= <-]. cbn [List.length]. specialize (IH j eq_refl). lia.
Qed.

Variable tab_en : nametab.
Variable check_fn : N -> list N -> res bool.
Variable LATEST : N.

Theorem move_at_same_parent_order_inv h mv pos n mn m v w c w' items :
  w_nodes w h = Some n -> w_nodes w mv = Some mn -> n_parent mn = PElem h ->
  model_of mv w = Val (OK m, w) -> model_of h w = Val (OK m, w) ->
  min_version LATEST mv w = Val (OK v, w) -> min_version LATEST h w = Val (OK v, w) ->
  items_of w (n_content n) = Some items -> Ordered T (n_type n) v items ->
  e_move_element_here_at T tab_en check_fn LATEST h mv pos w = Val (OK c, w') ->
  exists n' items', w_nodes w' h = Some n' /\ n_type n' = n_type n /\
    items_of w' (n_content n') = Some items' /\ Ordered T (n_type n) v items'.
Proof.
  intros Hn Hmn Hpar Hms Hm Hvs Hv HI HO H.
  unfold e_move_element_here_at in H.
  destruct (h =? mv) eqn:Ehm; [discriminate|].
  unfold wbind at 1 in H. rewrite Hms in H. unfold wbind at 1 in H. rewrite Hm in H.
  unfold wbind at 1 in H. rewrite Hvs in H. unfold wbind at 1 in H. rewrite Hv in H.
  rewrite N.eqb_refl in H. cbn [negb] in H.
  unfold wbind at 1 in H. unfold get_node at 1 in H. rewrite Hn in H.
  unfold wbind at 1 in H. unfold get_node at 1 in H. rewrite Hmn in H.
  unfold wbind at 1 in H.
  destruct (calc_element_insert_range T n (n_name mn) v w) as [[[[lo hi]|er] w1]| |] eqn:EC; try discriminate.
  pose proof (calc_ro T _ _ _ _ _ _ EC) as ->.
  destruct ((lo <=? pos) && (pos <=? hi)) eqn:EP; [|discriminate].
  apply andb_true_iff in EP as [E1 _]. apply N.leb_le in E1.
  rewrite N.eqb_refl in H.
  unfold wbind at 1 in H. unfold parent_of in H. rewrite Hpar in H. unfold wret at 1 in H. cbn beta iota in H.
  rewrite N.eqb_refl in H.
  unfold move_element_position in H. unfold wbind at 1 in H. unfold get_node at 1 in H. rewrite Hn in H.
  destruct (pos <? hi) eqn:EL; [|discriminate]. apply N.ltb_lt in EL.
  destruct (index_of (citem_is mv) (n_content n)) as [cur|] eqn:EI; [|discriminate].
  unfold wbind, set_node, wret in H. injection H as <- <-.
  pose proof (index_of_lt _ _ _ EI) as Hcur. rewrite <- (items_of_length _ _ _ HI) in Hcur.
  eexists. eexists. cbn [w_nodes]. unfold upd at 1. rewrite N.eqb_refl.
  split; [reflexivity|]. split; [reflexivity|]. cbn [n_content set_content]. split.
  - apply items_of_insert.
    + apply (items_of_frame w).
      * intros i cn Hi. cbn [w_nodes]. unfold upd. destruct (i =? h) eqn:E; [|eauto].
        apply N.eqb_eq in E. subst i. rewrite Hn in Hi. injection Hi as <-. eexists. split; reflexivity.
      * apply items_of_remove. exact HI.
    + cbn [item_of w_nodes]. unfold upd. rewrite (N.eqb_sym mv h), Ehm, Hmn. reflexivity.
  - eapply reposition_ordered; eauto.
Qed.

End MovePos.
