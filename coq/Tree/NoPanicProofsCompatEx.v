(* Tree/NoPanicProofsCompatEx.v — C12: ArxmlFile::check_version_compatibility PANICS after a well-formed history on the
   regenerated tables (found by `avh panics mixup`, confirmed on the implementation: findings/C12-panic-check-compat-mixup.json).
   COMPONENT-IREF is created below TD-EVENT-MODE-DECLARATION (stored type (1054, 657)) with a TARGET-COMPONENT-REF child and
   moved below SWC-TO-ECU-MAPPING-CONSTRAINT, which lists COMPONENT-IREF with the type (1058, 658): the move keeps the stored
   type (C07 / C17 class attach-keeps-stored-type).  The walk looks TARGET-COMPONENT-REF up in the RECALCULATED type, gets the
   index list [2] and reads `self.element_type().get_sub_element_version_mask(&[2])` on the STORED type, whose group has fewer
   entries: index out of range.  So OpCheckCompat / OpSetVersion cannot be covered for every well-formed history. *)
From Coq Require Import Lia.
From AV Require Import Base.Bytes Base.Outcome Hash.HashModel Spec.SpecOps Spec.SpecReal Xml.TablesOk
  Tree.Heap Tree.Ops Tree.Script Tree.Inv Tree.Compat Tree.SortProofsReal.
From AV Require Import Hash.HashRealElement Hash.HashRealAttr Hash.HashRealEnum.
From AV Require Import Tree.NoPanic Tree.NoPanicProofsCopy2 Tree.NoPanicFloat Tree.NoPanicProofsHist Tree.NoPanicProofsHistEx.
Open Scope list_scope.
Open Scope N_scope.

Definition mx_hist : list op :=
  [ OpNewModel; OpCreateFile 0 [102] 1048576;
    OpCreateSub 0 5413;                     (* AR-PACKAGES                          -> 1 *)
    OpCreateNamed 1 5250 [110; 49];         (* AR-PACKAGE n1                        -> 2 (3) *)
    OpCreateSub 2 3929;                     (* ELEMENTS                             -> 4 *)
    OpCreateNamed 4 3786 [110; 50];         (* BSW-COMPOSITION-TIMING n2            -> 5 (6) *)
    OpCreateSub 5 3102;                     (* TIMING-DESCRIPTIONS                  -> 7 *)
    OpCreateNamed 7 3896 [110; 51];         (* TD-EVENT-MODE-DECLARATION n3         -> 8 (9) *)
    OpCreateSub 8 5018;                     (* COMPONENT-IREF                       -> 10 *)
    OpCreateSub 10 5649;                    (* TARGET-COMPONENT-REF                 -> 11 *)
    OpCreateNamed 4 1081 [110; 52];         (* SYSTEM n4                            -> 12 (13) *)
    OpCreateSub 12 3194;                    (* MAPPINGS                             -> 14 *)
    OpCreateNamed 14 218 [110; 53];         (* SYSTEM-MAPPING n5                    -> 15 (16) *)
    OpCreateSub 15 2273;                    (* MAPPING-CONSTRAINTS                  -> 17 *)
    OpCreateSub 17 3944;                    (* SWC-TO-ECU-MAPPING-CONSTRAINT        -> 18 *)
    OpMove 18 10 ].

Definition mx_final : res world := Eval vm_compute in Inv.run_ops RT tab_element tab_enum nv_check 1048576 [] mx_hist empty_world.

Example mx_wf : wf_ops RT tab_element tab_enum nv_check 1048576 [] ex_fmt mx_hist empty_world.
Proof. unfold mx_hist. do 16 wf_step. exact I. Qed.

(* AFTER THE FIX in element.rs (the mask is read from the recalculated type): the same state is checked without a panic *)
Example mx_fixed : exists w r,
  Inv.run_ops RT tab_element tab_enum nv_check 1048576 [] mx_hist empty_world = Val w /\
  option_map n_parent (w_nodes w 10) = Some (PElem 18) /\
  f_check RT w 0 1 = Val r.
Proof.
  destruct mx_final as [w| |] eqn:E; try (vm_compute in E; discriminate).
  assert (Hrun : Inv.run_ops RT tab_element tab_enum nv_check 1048576 [] mx_hist empty_world = Val w)
    by (rewrite <- E; vm_cast_no_check (@eq_refl _ mx_final)).
  vm_compute in E. injection E as <-. eexists. eexists. split; [exact Hrun|]. split; vm_compute; reflexivity.
Qed.
