(* Tree/NoPanicProofsDec.v — C12: the termination of ElementRaw::make_unique_item_name.
   `format!("{counter}")` is injective (to_dec has a left inverse below 10^40), so the candidate names orig, orig_1,
   orig_2, .. are pairwise different and at most `number of index entries` of them can be taken (pigeonhole):
   unique_loop with fuel = entries + 2 returns. *)
From Coq Require Import Lia.
From AV Require Import Base.Bytes Base.Outcome Hash.HashModel Spec.SpecOps Tree.Heap Tree.Ops.
Open Scope list_scope.
Open Scope N_scope.

Definition dval (l : list N) : N := fold_left (fun a d => a * 10 + (d - 48)) l 0.

Lemma dval_snoc l d : dval (l ++ [d]) = dval l * 10 + (d - 48).
Proof. unfold dval. rewrite fold_left_app. reflexivity. Qed.

Lemma dec_aux_app : forall fuel n acc, dec_aux fuel n acc = dec_aux fuel n [] ++ acc.
Proof.
  induction fuel as [|f IH]; intros n acc; cbn [dec_aux]; [reflexivity|].
  destruct (n <? 10); [reflexivity|].
  rewrite (IH (n / 10) ((48 + n mod 10) :: acc)), (IH (n / 10) [48 + n mod 10]). rewrite <- app_assoc. reflexivity.
Qed.

Lemma dval_dec_aux : forall fuel n, n < 10 ^ N.of_nat fuel -> (0 < fuel)%nat -> dval (dec_aux fuel n []) = n.
Proof.
  induction fuel as [|f IH]; intros n L F; [exfalso; clear L; lia|]. cbn [dec_aux].
  destruct (n <? 10) eqn:E.
  - apply N.ltb_lt in E. unfold dval. cbn [fold_left]. lia.
  - apply N.ltb_ge in E. rewrite dec_aux_app, dval_snoc.
    assert (F' : (0 < f)%nat).
    { destruct f; [|lia]. cbn in L. lia. }
    rewrite IH; [| |exact F'].
    + pose proof (N.div_mod n 10 ltac:(lia)) as DM. set (q := n / 10) in *. set (r := n mod 10) in *. lia.
    + rewrite Nat2N.inj_succ, N.pow_succ_r' in L. apply N.div_lt_upper_bound; lia.
Qed.

Lemma to_dec_inj a b : a < 10 ^ 40 -> b < 10 ^ 40 -> to_dec a = to_dec b -> a = b.
Proof.
  intros La Lb E. unfold to_dec in E.
  rewrite <- (dval_dec_aux 40 a La ltac:(lia)), <- (dval_dec_aux 40 b Lb ltac:(lia)). rewrite E. reflexivity.
Qed.

(* ---------- pigeonhole over an association list ---------- *)
Lemma bytes_eqb_true a b : bytes_eqb a b = true -> a = b.
Proof.
  revert b. induction a as [|x a IH]; intros [|y b] H; cbn in H; try discriminate; [reflexivity|].
  apply andb_true_iff in H as [H1 H2]. apply N.eqb_eq in H1. f_equal; auto.
Qed.

Lemma assoc_get_some_in {A} k (l : list (list N * A)) a : assoc_get k l = Some a -> In k (map fst l).
Proof.
  induction l as [|[k1 a1] l IH]; [discriminate|]. cbn. destruct (bytes_eqb k1 k) eqn:E.
  - intros _. left. apply bytes_eqb_true. exact E.
  - intros H. right. apply IH. exact H.
Qed.

Lemma NoDup_map_in {A B} (g : A -> B) (l : list A) :
  NoDup l -> (forall x y, In x l -> In y l -> g x = g y -> x = y) -> NoDup (map g l).
Proof.
  induction 1 as [|x l NI ND IH]; intros INJ; cbn; constructor.
  - intros IN. apply in_map_iff in IN as (y & E & Hy). apply NI.
    rewrite (INJ x y (or_introl eq_refl) (or_intror Hy) (eq_sym E)). exact Hy.
  - apply IH. intros a b Ha Hb. apply INJ; right; assumption.
Qed.

(* among len+1 pairwise different keys one is not in the map *)
Lemma pigeon {A} (l : list (list N * A)) (g : nat -> list N) :
  (forall i j, (i <= List.length l)%nat -> (j <= List.length l)%nat -> g i = g j -> i = j) ->
  exists k, (k <= List.length l)%nat /\ assoc_get (g k) l = None.
Proof.
  intros INJ.
  destruct (List.find (fun k => match assoc_get (g k) l with None => true | Some _ => false end) (seq 0 (S (List.length l)))) as [k|] eqn:F.
  - apply find_some in F as [IN H]. apply in_seq in IN. exists k. split; [lia|]. destruct (assoc_get (g k) l); [discriminate|reflexivity].
  - exfalso.
    assert (ALL : forall k, (k <= List.length l)%nat -> In (g k) (map fst l)).
    { intros k Hk. pose proof (find_none _ _ F k) as H. specialize (H ltac:(apply in_seq; lia)). cbv beta in H.
      destruct (assoc_get (g k) l) eqn:E; [eapply assoc_get_some_in; eauto|discriminate H]. }
    assert (ND : NoDup (map g (seq 0 (S (List.length l))))).
    { apply NoDup_map_in; [apply seq_NoDup|].
      intros i j Hi Hj E. apply in_seq in Hi, Hj. apply INJ; [lia|lia|exact E]. }
    assert (INC : incl (map g (seq 0 (S (List.length l)))) (map fst l)).
    { intros y Hy. apply in_map_iff in Hy as (k & <- & Hk). apply in_seq in Hk. apply ALL. lia. }
    pose proof (NoDup_incl_length ND INC) as LEN. rewrite !map_length, seq_length in LEN. lia.
Qed.
