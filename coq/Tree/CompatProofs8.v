(* Tree/CompatProofs8.v — where the world invariant of the real-table exactness theorem comes from.
   (1) typed_of_core : the parent-link half of Typed and RootOk follow from C03's structural invariant Core (which every operation
       preserves); what remains is TypedT: every element's stored datatype is the one its parent's stored type lists for its name
       in some version set within u32.
   (2) TypedT is established by element creation: create_sub_element_inner (the common core of create_sub_element(_at) and
       get_or_create_sub_element) preserves it when the version it is called with lies within u32.
   NOT covered: move_element_here / create_copied_sub_element keep the stored type of the moved / copied element and only check
   that the destination lists its NAME - they preserve TypedT only when source and destination list the same datatype for it. *)
From Coq Require Import PeanoNat Arith Lia.
From AV Require Import Base.Bytes Base.Outcome Hash.HashModel Spec.SpecOps Tree.Heap Tree.Ops Tree.Script Tree.Inv
  Tree.InvProofsBase Tree.InvProofsCore Tree.InvProofsPrim Tree.InvProofsCreate
  Tree.Compat Tree.CompatSpec Tree.CompatTyped Tree.CompatProofs5 Tree.CompatReal Spec.SpecReal.
Open Scope string_scope.
Open Scope list_scope.
Open Scope N_scope.

Section TypedT.
Variable T : tables.

Definition TypedT (w : world) : Prop :=
  forall i n c cn, w_nodes w i = Some n -> In (CElem c) (n_content n) -> w_nodes w c = Some cn ->
    exists u et ixs, N.land u U32MAX = u /\
      find_sub_element T (n_type n) (n_name cn) u = Val (Some (et, ixs)) /\ snd et = snd (n_type cn).

Lemma in_elems c l : In (CElem c) l -> In c (elems l).
Proof.
  induction l as [|it r IH]; [intros []|]. intros [->|H]; cbn [elems].
  - left. reflexivity.
  - destruct it; [right|]; apply IH; exact H.
Qed.

Theorem typed_of_core w : Core w -> TypedT w -> Typed T w.
Proof.
  intros C HT i n c cn Hn Hin Hcn. split; [|exact (HT i n c cn Hn Hin Hcn)].
  assert (Hl : lists w i c) by (exists n; split; [exact Hn|apply in_elems; exact Hin]).
  apply (c_up _ C) in Hl as (cn' & Hcn' & Hp). rewrite Hcn in Hcn'. injection Hcn' as <-. exact Hp.
Qed.

Theorem rootok_of_core w f : Core w -> RootOk w f.
Proof.
  intros C r ty n (x & m & n0 & Hx & Hm & -> & Hn0 & ->) Hn p Hp.
  assert (Hr : nth_error (roots w) (N.to_nat (f_model x)) = Some (m_root m)).
  { unfold roots. rewrite nth_error_map. rewrite nth_opt_nth_error in Hm. rewrite Hm. reflexivity. }
  destruct (c_roots _ C _ _ Hr) as (n1 & Hn1 & Hpm). rewrite Hn in Hn1. injection Hn1 as <-. congruence.
Qed.

Lemma in_insert_at {A} (x y : A) l k : In x (insert_at l k y) -> x = y \/ In x l.
Proof.
  revert l. induction k as [|k IH]; intros l H.
  - destruct l; cbn in H; destruct H as [H|H]; auto.
  - destruct l as [|z l]; cbn in H.
    + destruct H as [H|[]]; auto.
    + destruct H as [H|H]; [right; left; exact H|]. destruct (IH _ H) as [E|E]; [left; exact E|right; right; exact E].
Qed.

Theorem create_inner_typed self name pos version w r w' :
  Core w -> TypedT w -> N.land version U32MAX = version ->
  create_sub_element_inner T self name pos version w = Val (r, w') -> TypedT w'.
Proof.
  intros C HT Hver H. unfold create_sub_element_inner in H.
  wstep H; winv E.
  wstep H; winv E.
  destruct v as [[et ix]|]; [|winv H; exact HT].
  wstep H; winv E.
  destruct v; [winv H; exact HT|].
  wstep H. apply alloc_walloc in E as ([= ->] & ->).
  set (nd := new_node (PElem self) name et) in *.
  pose proof (core_not_fresh _ _ _ C Hn) as Hsf.
  assert (Hw' : w' = wset (walloc w nd) self (set_content n (insert_at (n_content n) (N.to_nat pos) (CElem (w_next w))))).
  { wstep H.
    - apply content_insert_inv in E as (n1 & Hn1 & _ & ->). rewrite nodes_walloc_old in Hn1 by exact Hsf. rewrite Hn in Hn1.
      injection Hn1 as <-. winv H. reflexivity.
    - apply content_insert_inv in E as (_ & _ & [=] & _). }
  clear H. subst w'. set (n' := set_content n _).
  (* every node of the new world is the fresh leaf or an old node with the same name and type (the same node unless it is self) *)
  assert (Hnodes : forall j x, w_nodes (wset (walloc w nd) self n') j = Some x ->
            (j = w_next w /\ x = nd) \/
            (j <> w_next w /\ exists x0, w_nodes w j = Some x0 /\ n_type x0 = n_type x /\ n_name x0 = n_name x /\ (j <> self -> x = x0))).
  { intros j x Hj. destruct (N.eq_dec j self) as [->|Hjs].
    - rewrite nodes_wset_eq in Hj. injection Hj as <-. right. split; [exact Hsf|]. exists n. repeat split; auto. intros []; reflexivity.
    - rewrite nodes_wset_neq in Hj by exact Hjs. destruct (N.eq_dec j (w_next w)) as [->|Hjn].
      + rewrite nodes_walloc_new in Hj. injection Hj as <-. left. auto.
      + rewrite nodes_walloc_old in Hj by exact Hjn. right. split; [exact Hjn|]. exists x. auto. }
  assert (Hfresh_unlisted : forall i ni, w_nodes w i = Some ni -> ~ In (CElem (w_next w)) (n_content ni)).
  { intros i ni Hi Hin. assert (Hl : lists w i (w_next w)) by (exists ni; split; [exact Hi|apply in_elems; exact Hin]).
    apply (c_up _ C) in Hl as (cn & Hcn & _). exact (core_not_fresh _ _ _ C Hcn eq_refl). }
  intros i ni c cn Hi Hin Hc.
  destruct (Hnodes _ _ Hi) as [[-> ->]|(Hin_ & ni0 & Hi0 & Hty & Hnm & Hsame)]; [destruct Hin|].
  destruct (Hnodes _ _ Hc) as [[-> ->]|(Hcn_ & cn0 & Hc0 & Htyc & Hnmc & _)].
  - (* the child is the fresh leaf: it is listed by self only *)
    destruct (N.eq_dec i self) as [->|Hne].
    + rewrite Hn in Hi0. injection Hi0 as <-. exists version, et, ix. rewrite <- Hty. cbn [nd new_node n_name n_type]. auto.
    + rewrite (Hsame Hne) in Hin. exfalso. exact (Hfresh_unlisted _ _ Hi0 Hin).
  - (* an old child: it was listed before *)
    assert (Hin0 : In (CElem c) (n_content ni0)).
    { destruct (N.eq_dec i self) as [->|Hne].
      - rewrite nodes_wset_eq in Hi. injection Hi as <-. rewrite Hn in Hi0. injection Hi0 as <-.
        cbn [n' set_content n_content] in Hin. apply in_insert_at in Hin as [Hx|Hx]; [injection Hx as ->; congruence|exact Hx].
      - rewrite (Hsame Hne) in Hin. exact Hin. }
    destruct (HT i ni0 c cn0 Hi0 Hin0 Hc0) as (u & et0 & ixs0 & Hu & Hf & Hs).
    exists u, et0, ixs0. rewrite <- Hty, <- Hnmc, <- Htyc. auto.
Qed.

End TypedT.

(* on the real tables: C03's invariant + typed stored datatypes suffice *)
Theorem f_check_exact_real_core w f v r :
  Core w -> TypedT RT w -> f_check RT w f v = Val r -> (fst r = [] <-> ValidIn RT w f v).
Proof. intros C HT. exact (f_check_exact_real w f v r (typed_of_core RT w C HT) (rootok_of_core w f C)). Qed.
