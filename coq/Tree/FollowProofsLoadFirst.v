(* Tree/FollowProofsLoadFirst.v — C06 after a first load, layer 5: the run of load_parsed for the FIRST file of a model
   whose index maps are empty (what AutosarModel::new leaves), taken apart. *)
From Coq Require Import Lia.
From AV Require Import Base.Bytes Base.Outcome Hash.HashModel Tree.Heap Tree.Ops Tree.Script Tree.Load
  Tree.IndexProofsW Tree.Index Tree.IndexProofsAssoc Tree.IndexProofsFrame Tree.IndexProofsReg Tree.LoadProofs Tree.LoadRefineHeap Tree.LoadRefineTop
  Tree.FollowProofsLoadRep Tree.FollowProofsLoadFills.
From AV Require Xml.Lexer Xml.Parser.
Open Scope string_scope.
Open Scope list_scope.
Open Scope N_scope.

Section First.
Variable T : tables.
Variables LATEST defref : N.

Lemma dfs_root_in f i w keep w' : dfs_ids (S f) i w = Val (OK keep, w') -> In i keep.
Proof.
  rewrite dfs_unfold. intros H.
  apply wbind_inv in H as [(n & w1 & H1 & H) | (e' & H1 & [=])].
  apply wbind_inv in H as [(rest & w2 & H2 & H) | (e' & H2 & [=])].
  apply wret_inv in H as (E & _). injection E as ->. left. reflexivity.
Qed.

Lemma first_load_inv m filename root st w x f w' :
  nth_opt (w_models w) (N.to_nat m) = Some x -> m_files x = [] -> m_idents x = [] -> m_origins x = [] ->
  load_parsed T LATEST defref m filename root st w = Val (OK f, w') ->
  exists t w1 w4 keep x4,
    install PNone root w = Val (OK t, w1) /\
    NoDup (map fst (rev (Parser.p_idents st))) /\
    (forall i, option_map tview (w_nodes w4 i) = option_map tview (w_nodes w1 i)) /\ w_next w4 = w_next w1 /\
    w_models w4 = list_set (w_models w) (N.to_nat m) x4 /\ m_root x4 = it_id t /\
    NoDupKeys (m_idents x4) /\
    (forall k v, assoc_get k (m_idents x4) = Some v <-> exists pos, In (k, pos) (rev (Parser.p_idents st)) /\ it_at t pos = Some v) /\
    NoDupKeys (m_origins x4) /\
    (forall p e, In e (olist (m_origins x4) p) <-> exists pos, In (p, pos) (rev (Parser.p_refs st)) /\ it_at t pos = Some e) /\
    In (it_id t) keep /\ kill_unreachable (w_next w) keep w4 = Val (OK tt, w').
Proof.
  intros Hx Hfx Hix Hox H. unfold load_parsed in H.
  apply wbind_inv in H as [(w0 & w0' & H0 & H) | (e' & H0 & [=])].
  apply wget_inv in H0 as (E0 & E0'). injection E0 as E0. subst w0 w0'.
  apply wbind_inv in H as [(t & w1 & H1 & H) | (e' & H1 & [=])].
  pose proof (above_install (w_next w) _ _ _ _ _ (N.le_refl _) H1) as (A11 & A12 & A13 & A14).
  apply wbind_inv in H as [(w1' & w1'' & H2 & H) | (e' & H2 & [=])].
  apply wget_inv in H2 as (E2 & E2'). injection E2 as E2. subst w1' w1''.
  apply wbind_inv in H as [(x0 & w2 & H3 & H) | (e' & H3 & [=])].
  apply get_model_inv in H3 as (x0' & Hx0 & E3 & E3'). injection E3 as E3. subst x0 w2.
  assert (x0' = x) by (rewrite A14 in Hx0; congruence). subst x0'.
  apply wbind_inv in H as [(ov & w3 & H4 & H) | (e' & H4 & [=])].
  apply wl_inv in H4 as (ov' & Hov & E4 & E4'). injection E4 as E4. subst ov w3.
  destruct ov'.
  { apply wbind_inv in H as [(u & w4 & H5 & H) | (e' & H5 & [=])]. apply wfail_inv in H as ([=] & _). }
  apply wbind_inv in H as [(u & w4 & H5 & H) | (e' & H5 & [=])].
  unfold wput in H5. injection H5 as _ H5. subst w4.
  set (fl := mkFile m filename (Parser.p_version st) (Parser.p_standalone st)) in *.
  set (w1f := mkWorld (w_nodes w1) (w_next w1) (w_files w1 ++ [fl]) (w_models w1)) in *.
  apply wbind_inv in H as [(x1 & w5 & H6 & H) | (e' & H6 & [=])].
  apply get_model_inv in H6 as (x1' & Hx1 & E6 & E6'). injection E6 as E6. subst x1 w5.
  assert (x1' = x) by (cbn [w_models w1f] in Hx1; congruence). subst x1'.
  rewrite Hfx in H. cbn [is_empty] in H.
  apply wbind_inv in H as [(r & w6 & H7 & H) | (e' & H7 & [=])].
  apply wcatch_inv in H7 as (r0 & H7 & E7). injection E7 as E7. subst r.
  (* the tail first: r0 must be OK *)
  apply wbind_inv in H as [(x3 & w7 & H8 & H) | (e' & H8 & [=])].
  apply get_model_inv in H8 as (x3' & Hx3 & E8 & E8'). injection E8 as E8. subst x3 w7.
  apply wbind_inv in H as [(w8 & w9 & H9 & H) | (e' & H9 & [=])].
  apply wget_inv in H9 as (E9 & E9'). injection E9 as E9. subst w8 w9.
  apply wbind_inv in H as [(keep & w10 & H10 & H) | (e' & H10 & [=])].
  apply wbind_inv in H as [(uk & w11 & H11 & H) | (e' & H11 & [=])].
  destruct r0 as [u0|e0].
  2:{ apply wbind_inv in H as [(u2 & w12 & H12 & H) | (e' & H12 & [=])]. apply wfail_inv in H as ([=] & _). }
  apply wret_inv in H as (_ & ->).
  assert (Hro : w10 = w6).
  { assert (R : ro (dfs_ids (fuel_of w6) (m_root x3'))) by (apply ro_dfs_ids). exact (R _ _ _ H10). }
  subst w10.
  (* the body *)
  apply wbind_inv in H7 as [(u1 & wS & Hs & H7) | (e' & Hs & [=])].
  apply wbind_inv in H7 as [(u2 & wa & Ha & H7) | (e' & Ha & [=])].
  apply wbind_inv in H7 as [(u3 & wb & Hb & H7) | (e' & Hb & [=])].
  destruct u2, u3.
  (* stage *)
  apply wbind_inv in Hs as [(v1 & ws1 & Hs1 & Hs) | (e' & Hs1 & [=])].
  apply wbind_inv in Hs as [(v2 & ws2 & Hs2 & Hs) | (e' & Hs2 & [=])].
  apply modify_node_inv in Hs1 as (rn & Hrn & _ & ->).
  apply modify_node_inv in Hs2 as (rn2 & Hrn2 & _ & ->).
  apply modify_model_inv in Hs as (xs & Hxs & _ & ->).
  cbn [w_nodes w_next w_files w_models w1f] in *.
  assert (xs = x) by congruence. subst xs.
  rewrite upd_eq in Hrn2. injection Hrn2 as <-.
  set (nS := upd (upd (w_nodes w1) (it_id t) (set_parent rn (PModel m))) (it_id t)
                 (set_files (set_parent rn (PModel m)) (set_add (N.of_nat (List.length (w_files w))) (n_files (set_parent rn (PModel m)))))) in *.
  set (xS := set_root x (it_id t)) in *.
  set (wS := mkWorld nS (w_next w1) (w_files w1 ++ [fl]) (list_set (w_models w1) (N.to_nat m) xS)) in *.
  assert (HxS : nth_opt (w_models wS) (N.to_nat m) = Some xS) by (eapply IndexProofsW.list_set_nth_eq; rewrite A14; exact Hx).
  destruct (fill_identifiables_sem m t (rev (Parser.p_idents st)) wS wa xS HxS) as (I' & -> & HndI & HgetI); auto.
  { unfold xS. cbn. rewrite Hix. constructor. }
  { apply (overlap_nodup _ _ _ _ _ Hov). }
  { intros k _. unfold xS. cbn. rewrite Hix. intros []. }
  set (xa := set_idents xS I') in *.
  destruct (fill_references_sem m t (rev (Parser.p_refs st)) (wm m wS xa) wb xa (wm_model m wS xS xa HxS)) as (O' & -> & HndO & HgetO); auto.
  { unfold xa, xS. cbn. rewrite Hox. constructor. }
  rewrite wm_wm in *. set (xb := set_origins xa O') in *.
  apply modify_model_inv in H7 as (xb' & Hxb & _ & ->).
  assert (xb' = xb) by (rewrite (wm_model m wS xS xb HxS) in Hxb; congruence). subst xb'.
  set (x4 := set_mfiles xb (m_files xb ++ [N.of_nat (List.length (w_files w))])) in *.
  cbn [wm w_nodes w_next w_files w_models wS] in *.
  exists t, w1, (mkWorld nS (w_next w1) (w_files w1 ++ [fl]) (list_set (list_set (list_set (w_models w1) (N.to_nat m) xS) (N.to_nat m) xb) (N.to_nat m) x4)), keep, x4.
  split; [exact H1|]. split; [apply (overlap_nodup _ _ _ _ _ Hov)|].
  split.
  { intros i. cbn [w_nodes]. unfold nS. destruct (N.eq_dec i (it_id t)) as [->|Hne].
    - rewrite upd_eq, Hrn. reflexivity.
    - rewrite !upd_neq by exact Hne. reflexivity. }
  split; [reflexivity|].
  split; [cbn [w_models]; rewrite !list_set_twice, A14; reflexivity|].
  split; [reflexivity|].
  split; [exact HndI|].
  split.
  { intros k v. change (m_idents x4) with I'. rewrite HgetI. unfold xS. cbn. rewrite Hix. cbn. split; [intros [[=]|A]; exact A|auto]. }
  split; [exact HndO|].
  split.
  { intros p e. change (m_origins x4) with O'. rewrite HgetO. unfold xa, xS. cbn. rewrite Hox. cbn. split; [intros [[]|A]; exact A|auto]. }
  split.
  { rewrite list_set_twice in Hx3. cbn [w_models] in Hx3.
    assert (Hx3' : x3' = x4).
    { rewrite !list_set_twice in Hx3. erewrite IndexProofsW.list_set_nth_eq in Hx3 by (rewrite A14; exact Hx). congruence. }
    subst x3'. change (m_root x4) with (it_id t) in H10. eapply dfs_root_in. exact H10. }
  destruct uk. exact H11.
Qed.

End First.
