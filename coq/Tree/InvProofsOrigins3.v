(* Tree/InvProofsOrigins3.v — C03: OriginsRef (every element recorded in the reference-origin index is an allocated
   node of a reference type) is preserved by every operation; the computations that add an element. *)
From Coq Require Import PeanoNat Arith.
From AV Require Import Base.Bytes Base.Outcome Hash.HashModel Tree.Heap Tree.Ops Tree.Script Tree.Inv
  Tree.InvProofsBase Tree.InvProofsCore Tree.InvProofsTree Tree.InvProofsPrim Tree.InvProofsCreate
  Tree.InvProofsData Tree.InvProofsRefs Tree.InvProofsRemove Tree.InvProofsFiles Tree.InvProofsMove
  Tree.InvProofsCopy Tree.InvProofsRename Tree.InvProofsFrame Tree.InvProofs Tree.InvProofsChars Tree.InvProofsChars2
  Tree.InvProofsChars3 Tree.InvProofsChars4 Tree.InvProofsChars5 Tree.InvProofsOrigins Tree.InvProofsOrigins2.
Open Scope string_scope.
Open Scope list_scope.
Open Scope N_scope.

(* adding at most the element e, and only when P holds *)
Definition oaddP (e : id) (P : Prop) (w w' : world) : Prop :=
  forall re, in_origins w' re -> in_origins w re \/ (re = e /\ P).
Definition oapP {A} (e : id) (P : Prop) (m : W A) : Prop := forall w r w', m w = Val (r, w') -> oaddP e P w w'.

Lemma oaddP_refl e P w : oaddP e P w w. Proof. intros re H. auto. Qed.
Lemma oaddP_trans e P a b c : oaddP e P a b -> oaddP e P b c -> oaddP e P a c.
Proof. intros H1 H2 re H. destruct (H2 _ H) as [Hb|?]; auto. Qed.
Lemma oapP_osp {A} e P (m : W A) : osp m -> oapP e P m.
Proof. intros H w r w' E re Hr. left. eapply H; eauto. Qed.
Lemma oapP_bind {A B} e P (m : W A) (k : A -> W B) : oapP e P m -> (forall a, oapP e P (k a)) -> oapP e P (wbind m k).
Proof.
  intros Hm Hk w r w' H. apply wbind_inv in H as [(a & w1 & H1 & H2) | (er & H1 & _)].
  - eapply oaddP_trans; [eapply Hm | eapply Hk]; eauto.
  - eapply Hm; eauto.
Qed.
Lemma oapP_bind_wl {A B} e P (x : res A) (k : A -> W B) :
  (forall a, x = Val a -> oapP e P (k a)) -> oapP e P (wbind (wl x) k).
Proof.
  intros Hk w r w' H. apply wbind_inv in H as [(a & w1 & H1 & H2) | (er & H1 & _)].
  - apply wl_inv in H1 as (a' & Hx & [= <-] & ->). eapply Hk; eauto.
  - apply wl_inv in H1 as (a' & _ & [=] & _).
Qed.

Lemma in_origins_set w m x y re :
  nth_opt (w_models w) (N.to_nat m) = Some x ->
  in_origins (wmodels w (list_set (w_models w) (N.to_nat m) y)) re ->
  in_origins w re \/ exists k l, In (k, l) (m_origins y) /\ In re l.
Proof.
  intros Hx (z & k & l & Hz & Hk & Hre). cbn in Hz. apply in_list_set in Hz as [->|Hz]; [right; eauto|].
  left. exists z, k, l. auto.
Qed.

Lemma oap_add_reference_origin e (P : Prop) m r : P -> oapP e P (add_reference_origin m r e).
Proof.
  intros HP w rr w' H. unfold add_reference_origin in H. apply modify_model_inv in H as (x & Hx & _ & ->).
  intros re Hre. apply (in_origins_set _ _ _ _ _ Hx) in Hre as [?|(k & l & Hk & Hin)]; auto. cbn in Hk.
  destruct (assoc_get r (m_origins x)) as [l0|] eqn:Hg.
  - apply assoc_insert_in in Hk as [Hk| ->]; [left; eapply in_origins_get; eauto|].
    apply in_app_or in Hin as [Hin|[<-|[]]]; auto.
    left. apply assoc_get_in in Hg as (k' & Hk'). eapply in_origins_get; eauto.
  - apply in_app_or in Hk as [Hk|[[= <- <-]|[]]]; [left; eapply in_origins_get; eauto|].
    destruct Hin as [<-|[]]. auto.
Qed.

Lemma oap_fix_reference_origins e (P : Prop) m a b : P -> oapP e P (fix_reference_origins m a b e).
Proof.
  intros HP w rr w' H. unfold fix_reference_origins in H. destruct (bytes_eqb a b); [winv H; apply oaddP_refl|].
  apply modify_model_inv in H as (x & Hx & _ & ->).
  intros re Hre. apply (in_origins_set _ _ _ _ _ Hx) in Hre as [?|(k & l & Hk & Hin)]; auto. cbn in Hk.
  set (o1 := match assoc_get a (m_origins x) with
             | Some l1 => match index_of (N.eqb e) l1 with
                          | Some k1 => if is_empty (swap_remove_at l1 k1) then assoc_remove a (m_origins x)
                                       else assoc_insert a (swap_remove_at l1 k1) (m_origins x)
                          | None => m_origins x end
             | None => m_origins x end) in *.
  assert (Ho1 : forall k l re, In (k, l) o1 -> In re l -> in_origins w re).
  { intros k0 l0 re0 Hk0 Hre0. unfold o1 in Hk0. destruct (assoc_get a (m_origins x)) as [la|] eqn:Hg; [|eapply in_origins_get; eauto].
    destruct (index_of (N.eqb e) la); [|eapply in_origins_get; eauto].
    destruct (is_empty _).
    - apply assoc_remove_in in Hk0. eapply in_origins_get; eauto.
    - apply assoc_insert_in in Hk0 as [Hk0| ->]; [eapply in_origins_get; eauto|].
      apply in_swap_remove in Hre0. apply assoc_get_in in Hg as (k' & Hk'). eapply in_origins_get; eauto. }
  destruct (assoc_get b o1) as [l0|] eqn:Hg.
  - apply assoc_insert_in in Hk as [Hk| ->]; [left; eapply Ho1; eauto|].
    apply in_app_or in Hin as [Hin|[<-|[]]]; auto.
    left. apply assoc_get_in in Hg as (k' & Hk'). eapply Ho1; eauto.
  - apply in_app_or in Hk as [Hk|[[= <- <-]|[]]]; [left; eapply Ho1; eauto|].
    destruct Hin as [<-|[]]. auto.
Qed.

Ltac oa_step :=
  first
  [ apply oapP_osp; solve [os_tac]
  | assumption
  | apply oap_add_reference_origin; solve [auto]
  | apply oap_fix_reference_origins; solve [auto]
  | match goal with
    | |- oapP _ _ (wbind (wl _) _) => apply oapP_bind_wl; intros ? ?
    | |- oapP _ _ (wbind _ _) => apply oapP_bind; [ | intros ? ]
    | |- oapP _ _ (if negb ?b then _ else _) => destruct b; cbn [negb]
    | |- oapP _ _ (match ?x with _ => _ end) => destruct x
    end
  | progress cbv zeta ].
Ltac oa_tac := repeat oa_step.

Section OS3.
Variable T : tables.
Variable tab_el tab_en : nametab.
Variable check_fn : N -> list N -> res bool.
Variable LATEST : N.
Variable root_attrs : list (N * cdata).

Definition RefNode (w : world) (re : id) : Prop := exists n, w_nodes w re = Some n /\ is_ref T (n_type n) = Val true.
Definition OriginsRef (w : world) : Prop := forall re, in_origins w re -> RefNode w re.
Definition orel (w w' : world) : Prop := forall re, in_origins w' re -> in_origins w re \/ RefNode w' re.

Lemma OriginsRef_empty : OriginsRef empty_world.
Proof. intros re (x & k & l & [] & _). Qed.

Notation cframe := (frame (cNR T) (cNN T)).

Lemma RefNode_frame w w' re : cframe w w' -> RefNode w re -> RefNode w' re.
Proof.
  intros F (n & Hn & Hr). destruct (type_frame T _ _ _ _ F Hn) as (n' & Hn' & Ht). exists n'. split; auto. congruence.
Qed.
Lemma OriginsRef_orel w w' : cframe w w' -> orel w w' -> OriginsRef w -> OriginsRef w'.
Proof. intros F R O re Hre. destruct (R _ Hre) as [H|H]; auto. eapply RefNode_frame; eauto. Qed.
Lemma orel_osub w w' : osub w w' -> orel w w'.
Proof. intros H re Hre. left. auto. Qed.

(* ---------- set_character_data, set_reference_target: only the element itself, and only if it is a reference ---------- *)
Lemma set_cdata_oadd h v w r w' n :
  w_nodes w h = Some n -> e_set_character_data T tab_en check_fn LATEST h v w = Val (r, w') ->
  oaddP h (is_ref T (n_type n) = Val true) w w'.
Proof.
  intros Hn H. unfold e_set_character_data in H.
  wstepn H nq En; winv En. match goal with Hq : w_nodes w h = Some ?n1 |- _ => assert (n1 = n) as -> by congruence end.
  match type of H with ?rest ?wa = _ => refine ((_ : oapP h _ rest) wa _ _ H) end.
  oa_tac.
Qed.

Lemma set_ref_target_oadd h target w r w' n :
  w_nodes w h = Some n -> e_set_reference_target T tab_el tab_en check_fn LATEST h target w = Val (r, w') ->
  oaddP h (is_ref T (n_type n) = Val true) w w'.
Proof.
  intros Hn H. unfold e_set_reference_target in H.
  wstepn H nq En; winv En. match goal with Hq : w_nodes w h = Some ?n1 |- _ => assert (n1 = n) as -> by congruence end.
  match type of H with ?rest ?wa = _ => refine ((_ : oapP h _ rest) wa _ _ H) end.
  oa_tac.
Qed.

End OS3.
