(* Tree/LoadEffects.v — C11, load half: what a merge (in particular a REJECTED merge, InvalidFileMerge) can change.
   merge_element / merge_file_data never touch the files, the model records (root, file list, both index maps), the
   allocation bound, nor the name, type, attributes, comment of any node; they never remove or reorder content.
   The only changes are
     * file membership: an empty (inherited) membership becomes explicit (elements that only the model has:
       restrict_a_only), and the new file is added (merged elements with an explicit membership, imported elements);
     * imported elements of the new tree get a parent in the model tree and are inserted into its content list.
   The rollback of a rejected load (Element::remove_from_file (new file) at the root, Ops.e_remove_from_file) then
   removes the new file from every membership and deletes what becomes empty, i.e. the imported elements: what it cannot
   undo are the memberships made explicit — the first half of the known finding C11-load-merge-rollback. *)
From AV Require Import Base.Bytes Base.Outcome Hash.HashModel Tree.Heap Tree.Ops Tree.Script Tree.Load
  Tree.LoadProofsBase Tree.LoadProofs.
Open Scope string_scope.
Open Scope list_scope.
Open Scope N_scope.

(* membership: made explicit (from empty), or the new file added — any number of times *)
Inductive FilesEff (nf : N) : list N -> list N -> Prop :=
| fe_refl f : FilesEff nf f f
| fe_restrict fs f' : FilesEff nf fs f' -> FilesEff nf [] f'
| fe_add f f' : FilesEff nf (set_add nf f) f' -> FilesEff nf f f'.

(* content: elements inserted, nothing removed or reordered *)
Inductive ContentEff : list citem -> list citem -> Prop :=
| ce_refl c : ContentEff c c
| ce_ins c k x c' : ContentEff (insert_at c k (CElem x)) c' -> ContentEff c c'.

Lemma FilesEff_trans nf a b c : FilesEff nf a b -> FilesEff nf b c -> FilesEff nf a c.
Proof. induction 1; intros H2; auto; [apply fe_restrict with fs|apply fe_add]; auto. Qed.
Lemma ContentEff_trans a b c : ContentEff a b -> ContentEff b c -> ContentEff a c.
Proof. induction 1; intros H2; auto. eapply ce_ins. eauto. Qed.

Definition ParentEff (p p' : pref) : Prop := p' = p \/ exists a, p' = PElem a.

Record NodeEff (nf : N) (n n' : node) : Prop := mkNodeEff {
  ne_name : n_name n' = n_name n;
  ne_type : n_type n' = n_type n;
  ne_attrs : n_attrs n' = n_attrs n;
  ne_comment : n_comment n' = n_comment n;
  ne_parent : ParentEff (n_parent n) (n_parent n');
  ne_files : FilesEff nf (n_files n) (n_files n');
  ne_content : ContentEff (n_content n) (n_content n')
}.

Lemma NodeEff_refl nf n : NodeEff nf n n.
Proof. constructor; auto; [left; reflexivity|apply fe_refl|apply ce_refl]. Qed.
Lemma NodeEff_trans nf a b c : NodeEff nf a b -> NodeEff nf b c -> NodeEff nf a c.
Proof.
  intros [A1 A2 A3 A4 A5 A6 A7] [B1 B2 B3 B4 B5 B6 B7]. constructor; try congruence.
  - destruct B5 as [B5|(x & B5)]; [rewrite B5; exact A5|right; eauto].
  - eapply FilesEff_trans; eauto.
  - eapply ContentEff_trans; eauto.
Qed.

Definition WorldEff (nf : N) (w w' : world) : Prop :=
  w_next w' = w_next w /\ w_files w' = w_files w /\ w_models w' = w_models w /\
  forall i, match w_nodes w i, w_nodes w' i with
            | Some n, Some n' => NodeEff nf n n'
            | None, None => True
            | _, _ => False
            end.

Lemma WorldEff_refl nf w : WorldEff nf w w.
Proof. repeat split; auto. intros i. destruct (w_nodes w i); [apply NodeEff_refl|exact I]. Qed.
Lemma WorldEff_trans nf w1 w2 w3 : WorldEff nf w1 w2 -> WorldEff nf w2 w3 -> WorldEff nf w1 w3.
Proof.
  intros (A1 & A2 & A3 & A4) (B1 & B2 & B3 & B4). repeat split; try congruence.
  intros i. specialize (A4 i). specialize (B4 i).
  destruct (w_nodes w1 i), (w_nodes w2 i), (w_nodes w3 i); try contradiction; auto. eapply NodeEff_trans; eauto.
Qed.

Definition eff (nf : N) {A} (m : W A) : Prop := forall w r w', m w = Val (r, w') -> WorldEff nf w w'.

Lemma eff_ro nf {A} (m : W A) : ro m -> eff nf m.
Proof. intros H w r w' E. apply H in E. subst. apply WorldEff_refl. Qed.
Lemma eff_bind nf {A B} (m : W A) (k : A -> W B) : eff nf m -> (forall a, eff nf (k a)) -> eff nf (wbind m k).
Proof.
  intros Hm Hk w r w' H. apply wbind_inv in H as [(a & w1 & H1 & H2) | (e & H1 & _)].
  - eapply WorldEff_trans; [eapply Hm|eapply Hk]; eauto.
  - eapply Hm; eauto.
Qed.

Lemma eff_upd nf w i n n' :
  w_nodes w i = Some n -> NodeEff nf n n' ->
  WorldEff nf w (mkWorld (upd (w_nodes w) i n') (w_next w) (w_files w) (w_models w)).
Proof.
  intros Hn He. repeat split; auto. intros j. cbn [w_nodes]. destruct (N.eq_dec j i) as [->|Hne].
  - rewrite upd_eq, Hn. exact He.
  - rewrite upd_neq by exact Hne. destruct (w_nodes w j); [apply NodeEff_refl|exact I].
Qed.

Lemma eff_modify_node nf i f : (forall n, NodeEff nf n (f n)) -> eff nf (modify_node i f).
Proof. intros Hf w r w' H. apply modify_node_inv in H as (n & Hn & _ & ->). apply eff_upd with n; auto. Qed.

Lemma eff_content_insert nf self pos x : eff nf (content_insert self pos (CElem x)).
Proof.
  intros w r w' H. unfold content_insert in H.
  apply wbind_inv in H as [(n & w1 & H1 & H) | (e & H1 & _)]; [|apply get_node_inv in H1 as (? & _ & [=] & _)].
  apply get_node_inv in H1 as (n' & Hn & [= <-] & ->).
  destruct (_ <? _); [discriminate|]. apply set_node_inv in H as (_ & ->).
  apply eff_upd with n; [exact Hn|]. constructor; cbn; auto; [left; reflexivity|apply fe_refl|].
  eapply ce_ins. apply ce_refl.
Qed.

Section Effects.
Variable T : tables.
Variables LATEST defref : N.

Lemma eff_restrict_a_only nf l files : eff nf (restrict_a_only l files).
Proof.
  induction l as [|e l IH]; cbn [restrict_a_only]; [apply eff_ro, ro_ret|].
  apply eff_bind; [|intros _; exact IH]. apply eff_modify_node. intros n.
  destruct (n_files n) as [|f0 fr] eqn:E; cbn [is_empty]; [|apply NodeEff_refl].
  constructor; cbn; auto; [left; reflexivity| |apply ce_refl]. rewrite E. apply fe_restrict with files. apply fe_refl.
Qed.

Lemma eff_import_new_items nf pa minv : forall l idx, eff nf (import_new_items T pa l idx nf minv).
Proof.
  induction l as [|[ne pos] l IH]; intros idx; cbn [import_new_items]; [apply eff_ro, ro_ret|].
  apply eff_bind.
  { apply eff_modify_node. intros n. constructor; cbn; auto; [right; eauto|apply fe_refl|apply ce_refl]. }
  intros _. apply eff_bind.
  { apply eff_modify_node. intros n. constructor; cbn; auto; [left; reflexivity| |apply ce_refl]. apply fe_add. apply fe_refl. }
  intros _. apply eff_bind; [apply eff_ro, ro_get_node|intros nn].
  apply eff_bind; [apply eff_ro, ro_get_node|intros pn].
  apply eff_bind; [apply eff_ro, ro_catch, ro_calc_range|intros range].
  destruct range as [[fp lp]|e]; [|apply eff_ro, ro_fail].
  apply eff_bind; [apply eff_content_insert|intros _]. apply IH.
Qed.

Theorem merge_effects nf fuel : forall pa files pb, eff nf (merge_element T LATEST defref fuel pa files pb nf).
Proof.
  induction fuel as [|f IH]; intros pa files pb; cbn [merge_element]; [apply eff_ro, ro_fuel|].
  apply eff_bind; [apply eff_ro, ro_wget|intros w0].
  apply eff_bind; [apply eff_ro, ro_get_node|intros na].
  apply eff_bind; [apply eff_ro, ro_get_node|intros nb].
  apply eff_bind; [apply eff_ro, ro_wl|intros la].
  apply eff_bind; [apply eff_ro, ro_wl|intros lb].
  apply eff_bind; [apply eff_ro, ro_wl|intros sp].
  apply eff_bind.
  { apply eff_ro. intros w r w'. destruct (walk _ _ _ _ _ _ _ _ _) as [o| |]; try discriminate. intros [= _ <-]. reflexivity. }
  intros wk.
  apply eff_bind; [apply eff_restrict_a_only|intros _].
  apply eff_bind; [apply eff_import_new_items|intros _].
  induction (wk_merge wk) as [|[ea eb] l IHl]; [apply eff_ro, ro_ret|].
  apply eff_bind; [apply eff_ro, ro_get_node|intros nea].
  apply eff_bind; [apply IH|intros _].
  apply eff_bind; [|intros _; exact IHl].
  apply eff_modify_node. intros n. destruct (n_files n) as [|f0 fr] eqn:E; cbn [is_empty negb]; [apply NodeEff_refl|].
  constructor; cbn; auto; [left; reflexivity| |apply ce_refl]. rewrite E. apply fe_add. apply fe_refl.
Qed.

(* the merge stage of a load: whatever its outcome — in particular when it is rejected *)
Theorem merge_file_data_effects m new_root nf : eff nf (merge_file_data T LATEST defref m new_root nf).
Proof.
  unfold merge_file_data.
  apply eff_bind; [apply eff_ro, ro_get_model|intros x].
  apply eff_bind; [apply eff_ro, ro_wget|intros w0].
  apply eff_bind; [apply merge_effects|intros _].
  apply eff_bind; [apply eff_ro, ro_get_model|intros x2].
  apply eff_modify_node. intros n. constructor; cbn; auto; [left; reflexivity| |apply ce_refl]. apply fe_add. apply fe_refl.
Qed.

Theorem merge_conflict_effects m new_root nf w e w' :
  merge_file_data T LATEST defref m new_root nf w = Val (ER e, w') ->
  e = InvalidFileMerge /\ WorldEff nf w w'.
Proof.
  intros H. split; [exact (errs_merge_file_data T LATEST defref m new_root nf w e w' H)|].
  eapply merge_file_data_effects; eauto.
Qed.

End Effects.
