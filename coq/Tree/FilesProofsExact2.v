(* Tree/FilesProofsExact2.v — C10 proofs: what remove_file removes.
   A deletion of a live element that is not a SHORT-NAME always succeeds and clears the whole subtree; the deletion
   loop therefore clears every element of its list; with the complete list of the scan, remove_file (another file
   remains, no SHORT-NAME carries a local set) removes exactly the elements attributed to the removed file alone. *)
From Coq Require Import PeanoNat Arith Lia.
From AV Require Import Base.Bytes Base.Outcome Hash.HashModel Tree.Heap Tree.Ops Tree.Script Tree.Serialize
  Tree.Inv Tree.InvProofsBase Tree.InvProofsCore Tree.InvProofsTree Tree.InvProofsPrim Tree.InvProofsNav
  Tree.InvProofsRemove Tree.InvProofsFiles
  Tree.Files Tree.FilesProofsBase Tree.FilesProofsProj Tree.FilesProofsFrame Tree.FilesProofsOps
  Tree.FilesProofsSet Tree.FilesProofsHole Tree.FilesProofsAdd Tree.FilesProofsStrip Tree.FilesProofsRemove
  Tree.FilesProofsExact Tree.FilesProofsLast.
From AV Require Tree.Index.
Open Scope string_scope.
Open Scope list_scope.
Open Scope N_scope.

(* content lists that only lost sub-elements *)
Inductive thin : list citem -> list citem -> Prop :=
| thin_nil : thin [] []
| thin_keep it l' l : thin l' l -> thin (it :: l') (it :: l)
| thin_drop c l' l : thin l' l -> thin l' (CElem c :: l).

Lemma thin_refl l : thin l l.
Proof. induction l; constructor; auto. Qed.
Lemma thin_trans a b c : thin a b -> thin b c -> thin a c.
Proof.
  intros H1 H2. revert a H1. induction H2 as [|it l' l H IH|x l' l H IH]; intros a H1.
  - exact H1.
  - inversion H1; subst; [constructor; auto|apply thin_drop; auto].
  - apply thin_drop. auto.
Qed.
Lemma thin_incl l' l : thin l' l -> incl (elems l') (elems l).
Proof.
  induction 1 as [|it l' l H IH|c l' l H IH]; [apply incl_refl| |].
  - destruct it as [c|d]; cbn; [|exact IH]. intros x [<-|Hx]; [left; auto|right; auto].
  - cbn. intros x Hx. right. auto.
Qed.
Lemma thin_data l' l d : thin l' l -> In (CData d) l -> In (CData d) l'.
Proof.
  induction 1 as [|it l' l H IH|c l' l H IH]; intros Hi; auto.
  - destruct Hi as [<-|Hi]; [left; auto|right; auto].
  - destruct Hi as [Hi|Hi]; [discriminate|auto].
Qed.
Lemma thin_remove_at l d : forall pos, index_of (citem_is d) l = Some pos -> thin (remove_at l pos) l.
Proof.
  induction l as [|y l IH]; intros pos H; cbn in H; [discriminate|].
  destruct (citem_is d y) eqn:E.
  - injection H as <-. destruct y as [y|dd]; cbn in E; [|discriminate]. cbn. apply thin_drop. apply thin_refl.
  - destruct (index_of (citem_is d) l) as [k|]; cbn in H; [|discriminate]. injection H as <-. cbn. apply thin_keep. auto.
Qed.

(* everything the writer reads of a node except its content list and file set *)
Definition same_label (n n' : node) : Prop :=
  n_type n' = n_type n /\ n_attrs n' = n_attrs n /\ n_comment n' = n_comment n /\ n_files n' = n_files n /\
  thin (n_content n') (n_content n).

(* y is as before (parent link, name, label; sub-elements only lost) or it is cleared *)
Definition same_or_cleared (n n' : node) : Prop :=
  ((n_parent n' = n_parent n /\ n_name n' = n_name n /\ incl (kids n') (kids n)) /\ same_label n n') \/
  (n_parent n' = PNone /\ kids n' = []).
Definition cleared (w : world) (z : id) : Prop := exists n, w_nodes w z = Some n /\ n_parent n = PNone /\ kids n = [].

Lemma soc_refl n : same_or_cleared n n.
Proof. left. split; [repeat split; auto; apply incl_refl|]. repeat split; auto. apply thin_refl. Qed.
Lemma soc_trans a b c : same_or_cleared a b -> same_or_cleared b c -> same_or_cleared a c.
Proof.
  intros [((P1 & N1 & K1) & (T1 & A1 & C1 & F1 & X1))|(P1 & K1)] [((P2 & N2 & K2) & (T2 & A2 & C2 & F2 & X2))|(P2 & K2)].
  - left. split; [repeat split; try congruence; eapply incl_tran; eauto|]. repeat split; try congruence. eapply thin_trans; eauto.
  - right. auto.
  - right. split; [congruence|]. rewrite K1 in K2. destruct (kids c) as [|k l]; auto. exfalso. apply (K2 k). left. reflexivity.
  - right. auto.
Qed.

Section Exact2.
Variable T : tables.

(* ---------- errors of the upward walks come from a detached ancestor ---------- *)
Lemma model_walk_er fuel : forall i w e w', model_walk fuel i w = Val (ER e, w') ->
  exists a na, AncS w a i /\ w_nodes w a = Some na /\ n_parent na = PNone.
Proof.
  induction fuel as [|fuel IH]; intros i w e w' H; cbn [model_walk] in H; [discriminate|].
  apply wbind_inv in H as [(n & w1 & H1 & H) | (e0 & H1 & _)]; [|apply get_node_inv in H1 as (? & _ & [=] & _)].
  apply get_node_inv in H1 as (n' & Hn & [= <-] & ->).
  destruct (n_parent n) as [|m0|p] eqn:Hp.
  - exists i, n. split; [constructor|auto].
  - discriminate.
  - destruct (IH _ _ _ _ H) as (a & na & Ha & Hna & Hpa). exists a, na. split; auto.
    eapply A_up; eauto. exists n; auto.
Qed.

Lemma item_name_noerr n w e w' : item_name T n w = Val (ER e, w') -> False.
Proof.
  unfold item_name. intros H.
  apply wbind_inv in H as [(named & w1 & H1 & H) | (e0 & H1 & _)]; [|apply wl_inv in H1 as (? & _ & [=] & _)].
  destruct (negb named); [discriminate|]. destruct (n_content n) as [|[s|d] r]; try discriminate.
  apply wbind_inv in H as [(sn & w2 & H2 & H) | (e0 & H2 & _)]; [|apply get_node_inv in H2 as (? & _ & [=] & _)].
  destruct (n_name sn =? SHORT T); [|discriminate].
  apply wbind_inv in H as [(cd & w3 & H3 & H) | (e0 & H3 & _)]; [discriminate|apply wl_inv in H3 as (? & _ & [=] & _)].
Qed.

Lemma up_names_er fuel : forall p acc w e w', up_names T fuel p acc w = Val (ER e, w') ->
  p = PNone \/ exists i a na, p = PElem i /\ AncS w a i /\ w_nodes w a = Some na /\ n_parent na = PNone.
Proof.
  induction fuel as [|fuel IH]; intros p acc w e w' H; cbn [up_names] in H; [discriminate|].
  destruct p as [|m0|i]; [left; auto|discriminate|]. right.
  apply wbind_inv in H as [(n & w1 & H1 & H) | (e0 & H1 & _)]; [|apply get_node_inv in H1 as (? & _ & [=] & _)].
  apply get_node_inv in H1 as (n' & Hn & [= <-] & ->).
  apply wbind_inv in H as [(nm & w1 & H1 & H) | (e0 & H1 & _)]; [|exfalso; eapply item_name_noerr; eauto].
  assert (w1 = w) as -> by (refine ((_ : ro (item_name T n)) _ _ _ H1); ro_tac).
  destruct (IH _ _ _ _ _ H) as [Hp|(j & a & na & Hp & Ha & Hna & Hpa)].
  - exists i, i, n. repeat split; auto. constructor.
  - exists i, a, na. repeat split; auto. eapply A_up; eauto. exists n; auto.
Qed.

Lemma path_unchecked_er n w e w' : path_unchecked T n w = Val (ER e, w') ->
  n_parent n = PNone \/ exists i a na, n_parent n = PElem i /\ AncS w a i /\ w_nodes w a = Some na /\ n_parent na = PNone.
Proof.
  unfold path_unchecked. intros H.
  apply wbind_inv in H as [(own & w1 & H1 & H) | (e0 & H1 & _)]; [|exfalso; eapply item_name_noerr; eauto].
  assert (w1 = w) as -> by (refine ((_ : ro (item_name T n)) _ _ _ H1); ro_tac).
  apply wbind_inv in H as [(w0 & w1 & H2 & H) | (e0 & H2 & _)]; [|apply wget_inv in H2 as ([=] & _)].
  apply wget_inv in H2 as ([= ->] & ->).
  apply wbind_inv in H as [(names & w1 & H2 & H) | (e0 & H2 & _)]; [discriminate|].
  eapply up_names_er; eauto.
Qed.

(* a reached element has no detached ancestor *)
Lemma reached_no_detached w x i a na : Core w -> In x (w_models w) -> Reach w (m_root x) i -> AncS w a i ->
  w_nodes w a = Some na -> n_parent na <> PNone.
Proof.
  intros C Hx Hr Ha Hna Hp. pose proof (reach_ancs _ _ _ _ C Hx Hr Ha) as Hra.
  destruct (reach_cases _ _ _ Hra) as [->|(q & _ & Hl)].
  - destruct (root_node _ _ C Hx) as (rn & k & Hrn & Hrp). congruence.
  - destruct (c_up _ C _ _ Hl) as (n & Hn & Hpn). congruence.
Qed.

(* ---------- one deletion ---------- *)
Lemma remove_step_spec pi d w r w' : Core w -> e_remove_sub_element T pi d w = Val (r, w') ->
  ((forall y n, w_nodes w y = Some n -> exists n', w_nodes w' y = Some n' /\ same_or_cleared n n') /\ roots w' = roots w) /\
  (forall x dn, In x (w_models w) -> Reach w (m_root x) d -> w_nodes w d = Some dn -> n_parent dn = PElem pi ->
                n_name dn <> SHORT T -> r = OK tt /\ forall z, Reach w d z -> cleared w' z).
Proof.
  intros C H.
  assert ((forall y n, w_nodes w y = Some n -> exists n', w_nodes w y = Some n' /\ same_or_cleared n n') /\ roots w = roots w) as Same
    by (split; auto; intros y n Hn; exists n; split; auto; apply soc_refl).
  unfold e_remove_sub_element in H. destruct (pi =? d) eqn:Epd.
  { apply wfail_inv in H as (Er & Ew); subst r w'. split; auto. intros x dn Hx Hr Hdn Hp _. exfalso.
    apply N.eqb_eq in Epd. subst pi. eapply (not_own_parent w d d); eauto. exists dn; auto. }
  apply wbind_inv in H as [(m & w1 & H1 & H) | (e0 & H1 & ->)].
  2:{ assert (w' = w) as -> by (refine ((_ : ro (model_of pi)) _ _ _ H1); ro_tac). split; auto.
      intros x dn Hx Hr Hdn Hp _. exfalso. unfold model_of in H1.
      apply wbind_inv in H1 as [(w0 & w1 & H0 & H1) | (? & H0 & _)]; [|apply wget_inv in H0 as ([=] & _)].
      apply wget_inv in H0 as ([= ->] & ->).
      destruct (model_walk_er _ _ _ _ _ H1) as (a & na & Ha & Hna & Hpa).
      apply (reached_no_detached w x d a na C Hx Hr); auto. eapply A_up; eauto. exists dn; auto. }
  assert (w1 = w) as -> by (refine ((_ : ro (model_of pi)) _ _ _ H1); ro_tac). clear H1.
  unfold raw_remove_sub_element in H.
  apply wbind_inv in H as [(ns & w1 & H1 & H) | (e0 & H1 & _)]; [|apply get_node_inv in H1 as (? & _ & [=] & _)].
  apply get_node_inv in H1 as (ns' & Hns & [= <-] & ->).
  apply wbind_inv in H as [(path & w1 & H1 & H) | (e0 & H1 & ->)].
  2:{ assert (w' = w) as -> by (refine ((_ : ro (path_unchecked T ns)) _ _ _ H1); ro_tac). split; auto.
      intros x dn Hx Hr Hdn Hp _. exfalso.
      assert (Reach w (m_root x) pi) as Hrp by (eapply reach_par; eauto; exists dn; auto).
      destruct (path_unchecked_er _ _ _ _ H1) as [Hpn|(i & a & na & Hpi & Ha & Hna & Hpa)].
      - apply (reached_no_detached w x pi pi ns C Hx Hrp); auto. constructor.
      - apply (reached_no_detached w x pi a na C Hx Hrp); auto. eapply A_up; eauto. exists ns; auto. }
  assert (w1 = w) as -> by (refine ((_ : ro (path_unchecked T ns)) _ _ _ H1); ro_tac). clear H1.
  destruct (index_of (citem_is d) (n_content ns)) as [pos|] eqn:Hidx.
  2:{ apply wfail_inv in H as (Er & Ew); subst r w'. split; auto. intros x dn Hx Hr Hdn Hp _. exfalso.
      assert (par w d pi) as Hpar by (exists dn; auto).
      destruct (reach_par w x d pi C Hx Hr Hpar) as (_ & (pn & Hpn & Hin)).
      assert (pn = ns) by congruence. subst pn. eapply index_of_citem_none; eauto. }
  apply wbind_inv in H as [(named & w1 & H1 & H) | (e0 & H1 & _)]; [|apply wl_inv in H1 as (? & _ & [=] & _)].
  apply wl_inv in H1 as (named' & _ & [= <-] & ->).
  apply wbind_inv in H as [(sn & w1 & H1 & H) | (e0 & H1 & _)]; [|apply get_node_inv in H1 as (? & _ & [=] & _)].
  apply get_node_inv in H1 as (sn' & Hsn & [= <-] & ->).
  destruct (named && (n_name sn =? SHORT T)) eqn:Esh.
  { apply wfail_inv in H as (Er & Ew); subst r w'. split; auto. intros x dn Hx Hr Hdn Hp Hnm. exfalso.
    assert (dn = sn) by congruence. subst dn. apply Bool.andb_true_iff in Esh as (_ & E). apply N.eqb_eq in E. contradiction. }
  apply wbind_inv in H as [(w0 & w1 & H1 & H) | (e0 & H1 & _)]; [|apply wget_inv in H1 as ([=] & _)].
  apply wget_inv in H1 as ([= ->] & ->).
  assert (lists w pi d) as Hl by (exists ns; split; auto; eapply index_of_citem_in; eauto).
  assert (allocated w d) as Hda by (exists sn; auto).
  set (f := N.to_nat (w_next w)) in *.
  pose proof (enough_top _ _ C Hda) as He. fold f in He.
  apply wbind_inv in H as [(u & w1 & H1 & H) | (e0 & H1 & _)].
  2:{ destruct (remove_internal_spec T w C f d m path Hda He w _ _ (fun x _ => eq_refl) H1) as ([=] & _). }
  destruct (remove_internal_spec T w C f d m path Hda He w _ _ (fun x _ => eq_refl) H1) as (_ & _ & Rt & Cl & Fr).
  apply modify_node_wset in H as (nq & Hnq & -> & ->).
  assert (~ In pi (subl f w d)) as Hps by (apply subl_not_parent; auto).
  rewrite (Fr pi Hps) in Hnq. assert (nq = ns) by congruence. subst nq.
  assert (forall z, In z (subl f w d) -> cleared (wset w1 pi (set_content ns (remove_at (n_content ns) pos))) z) as Clr.
  { intros z Hz. pose proof (Cl z Hz) as Hsk. assert (z <> pi) by (intros ->; contradiction).
    unfold cleared. rewrite nodes_wset_neq; auto. unfold skel in Hsk.
    destruct (w_nodes w1 z) as [nz|]; [|discriminate]. injection Hsk as Hp Hk. exists nz. auto. }
  split; [split; [|rewrite roots_wset; exact Rt]|].
  - intros y n Hn. destruct (N.eq_dec y pi) as [->|Hne].
    + assert (n = ns) by congruence. subst n. exists (set_content ns (remove_at (n_content ns) pos)). rewrite nodes_wset_eq.
      split; auto. left. split; [repeat split; auto; intros k Hk; unfold kids in *; cbn in Hk; eapply elems_remove_incl; eauto|].
      repeat split; auto. cbn. eapply thin_remove_at; eauto.
    + destruct (in_dec N.eq_dec y (subl f w d)) as [Hi|Hi].
      * destruct (Clr y Hi) as (ny & Hny & Hp & Hk). exists ny. split; auto. right. auto.
      * exists n. rewrite nodes_wset_neq; auto. rewrite (Fr y Hi). split; auto. apply soc_refl.
  - intros x dn Hx Hr Hdn Hp Hnm. split; auto. intros z Hz. apply Clr. apply (subl_reach w f d z C Hda He). exact Hz.
Qed.

(* ---------- the deletion loop clears every element of its list ---------- *)
Definition Jrel (w w' : world) : Prop :=
  forall y n, w_nodes w y = Some n -> exists n', w_nodes w' y = Some n' /\ same_or_cleared n n'.

Lemma Jrel_refl w : Jrel w w.
Proof. intros y n H. exists n. split; auto. apply soc_refl. Qed.
Lemma Jrel_trans a b c : Jrel a b -> Jrel b c -> Jrel a c.
Proof.
  intros H1 H2 y n Hn. destruct (H1 _ _ Hn) as (n1 & Hn1 & S1). destruct (H2 _ _ Hn1) as (n2 & Hn2 & S2).
  exists n2. split; auto. eapply soc_trans; eauto.
Qed.
Lemma Jrel_cleared w w' z : Jrel w w' -> cleared w z -> cleared w' z.
Proof.
  intros J (n & Hn & Hp & Hk). destruct (J _ _ Hn) as (n' & Hn' & [((P & _ & K) & _)|(P & K)]); exists n'; repeat split; auto; try congruence.
  rewrite Hk in K. destruct (kids n') as [|k l]; auto. exfalso. apply (K k). left. reflexivity.
Qed.

(* an element that was reached from the root in w0 and is not cleared in wk is reached from the root in wk *)
Lemma live_persists w0 wk r0 k : Core w0 -> nth_error (roots w0) k = Some r0 -> TreeInv wk -> Jrel w0 wk ->
  forall y, Reach w0 r0 y -> (forall nk, w_nodes wk y = Some nk -> n_parent nk <> PNone) -> Reach wk r0 y.
Proof.
  intros C0 Hr0 (Ck & NOk & _) J y Hr. induction Hr as [(n & Hn)|p c Hp IH Hl]; intros Hnc.
  - destruct (J _ _ Hn) as (nk & Hnk & _). constructor. exists nk; auto.
  - destruct (c_up _ C0 _ _ Hl) as (cn & Hcn & Hcp).
    destruct (J _ _ Hcn) as (cnk & Hcnk & [((P & _ & _) & _)|(P & _)]); [|exfalso; eapply Hnc; eauto].
    assert (par wk c p) as Hpark by (exists cnk; split; auto; congruence).
    pose proof (NOk _ _ Hpark) as Hlk.
    eapply R_kid; eauto. apply IH. intros pnk Hpnk Hpp.
    destruct Hlk as (pnk' & Hpnk' & Hin). assert (pnk' = pnk) by congruence. subst pnk'.
    destruct (reach_alloc _ _ _ C0 Hp) as (pn0 & Hpn0).
    destruct (J _ _ Hpn0) as (pnk'' & Hpnk'' & [((Pp & _ & _) & _)|(_ & Kk)]); assert (pnk'' = pnk) by congruence; subst pnk''.
    + (* the parent link of p in w0 is not PNone: p is reached from the root *)
      destruct (reach_cases _ _ _ Hp) as [->|(q & _ & Hlq)].
      * destruct (c_roots _ C0 _ _ Hr0) as (rn & Hrn & Hrp). congruence.
      * destruct (c_up _ C0 _ _ Hlq) as (pn1 & Hpn1 & Hpp1). congruence.
    + rewrite Kk in Hin. destruct Hin.
Qed.

Lemma del_exact w0 r0 k : Core w0 -> nth_error (roots w0) k = Some r0 ->
  forall l wk r w', TreeInv wk -> FilesInv T wk -> roots wk = roots w0 -> Jrel w0 wk ->
  (forall d, In d l -> exists dn p, w_nodes w0 d = Some dn /\ n_parent dn = PElem p /\ n_name dn <> SHORT T /\ Reach w0 r0 d) ->
  del_loop T l wk = Val (r, w') ->
  Jrel wk w' /\ TreeInv w' /\ roots w' = roots wk /\ forall d, In d l -> cleared w' d.
Proof.
  intros C0 Hr0. induction l as [|d rest IH]; intros wk r w' TI FI Hroots J Hl H; cbn [del_loop] in H.
  - apply wret_inv in H as (_ & ->). split; [apply Jrel_refl|]. split; auto. split; auto. intros d [].
  - pose proof TI as (Ck & NOk & ROk).
    apply wbind_inv in H as [(dn & w1 & H1 & H) | (e0 & H1 & _)]; [|apply get_node_inv in H1 as (? & _ & [=] & _)].
    apply get_node_inv in H1 as (dnk & Hdnk & [= <-] & ->).
    apply wbind_inv in H as [(p & w1 & H1 & H) | (e0 & H1 & _)]; [|apply wtry_inv in H1 as (? & _ & [=])].
    assert (w1 = wk) as -> by (refine ((_ : ro (wtry (parent_of dn))) _ _ _ H1); ro_tac).
    destruct (Hl d (or_introl eq_refl)) as (dn0 & p0 & Hdn0 & Hp0 & Hname & Hrd).
    destruct (J _ _ Hdn0) as (dnk' & Hdnk' & Sd). assert (dnk' = dn) by congruence. subst dnk'.
    apply wbind_inv in H as [(u & w1 & H2 & H) | (e0 & H2 & _)].
    2:{ exfalso. destruct p as [[pi|]|]; try discriminate.
        apply wbind_inv in H2 as [(u1 & w2 & H3 & H2) | (e1 & H3 & _)]; [discriminate|apply wtry_inv in H3 as (? & _ & [=])]. }
    assert (Jrel wk w1 /\ TreeInv w1 /\ FilesInv T w1 /\ roots w1 = roots wk /\ cleared w1 d) as (J1 & TI1 & FI1 & R1 & Cd).
    { destruct Sd as [((Pd & Nd & _) & _)|(Pd & Kd)].
      - (* d is still there: it is deleted now *)
        unfold parent_of in H1. rewrite Pd, Hp0 in H1. apply wtry_inv in H1 as (rp & H1 & Ep).
        apply wret_inv in H1 as (-> & _). injection Ep as ->.
        apply wbind_inv in H2 as [(u1 & w2 & H3 & H2) | (e0 & H3 & _)]; [|apply wtry_inv in H3 as (? & _ & [=])].
        apply wret_inv in H2 as (_ & Ew). subst w2.
        destruct (remove_step T _ _ _ _ _ TI FI H3) as (TI1 & FI1 & _).
        apply wtry_inv in H3 as (r0' & H3 & _).
        destruct (remove_step_spec p0 d wk r0' w1 Ck H3) as ((A & Rt) & B).
        assert (exists xk, In xk (w_models wk) /\ m_root xk = r0) as (xk & Hxk & Hxr).
        { rewrite <- Hroots in Hr0. unfold roots in Hr0. rewrite nth_error_map in Hr0.
          destruct (nth_error (w_models wk) k) as [xk|] eqn:E; [|discriminate]. injection Hr0 as Hr0.
          exists xk. split; auto. eapply nth_error_In; eauto. }
        assert (Reach wk r0 d) as Hrk.
        { apply (live_persists w0 wk r0 k C0 Hr0 TI J d Hrd). intros nk Hnk. assert (nk = dn) by congruence. subst. congruence. }
        rewrite <- Hxr in Hrk.
        assert (n_parent dn = PElem p0) as Hpp by congruence.
        assert (n_name dn <> SHORT T) as Hnn by congruence.
        destruct (B xk dn Hxk Hrk Hdnk Hpp Hnn) as (_ & Cl).
        split; [exact A|]. split; auto. split; auto. split; auto. apply Cl. constructor. exists dn; auto.
      - (* d has already been cleared with an ancestor *)
        unfold parent_of in H1. rewrite Pd in H1. apply wtry_inv in H1 as (rp & H1 & Ep).
        apply wfail_inv in H1 as (-> & _). injection Ep as ->.
        apply wret_inv in H2 as (_ & ->). split; [apply Jrel_refl|]. split; auto. split; auto. split; auto.
        exists dn. auto. }
    destruct (IH w1 r w' TI1 FI1) as (J2 & TI2 & R2 & Cl2); auto; try congruence.
    { eapply Jrel_trans; eauto. }
    { intros d' Hd'. apply Hl. right. exact Hd'. }
    split; [eapply Jrel_trans; eauto|]. split; auto. split; [congruence|].
    intros d' [<-|Hd']; [eapply Jrel_cleared; eauto | auto].
Qed.

(* if i is still reached from the root after edges were only lost, so is every element on its old path *)
Lemma pass_through w w' r : Core w -> (forall p c, lists w' p c -> lists w p c) -> (forall q, ~ lists w q r) ->
  forall i, Reach w' r i -> forall a, Reach w a i -> Reach w' r a.
Proof.
  intros C Sh Hroot i H. induction H as [Ha|p c Hp IH Hl]; intros a Hai.
  - destruct (reach_cases _ _ _ Hai) as [->|(q & _ & Hq)]; [constructor; auto|]. exfalso. eapply Hroot; eauto.
  - destruct (reach_cases _ _ _ Hai) as [->|(q & Hq & Hlq)]; [eapply R_kid; eauto|].
    apply IH. pose proof (Sh _ _ Hl) as Hl0.
    destruct (c_up _ C _ _ Hl0) as (cn & Hcn & Hcp). destruct (c_up _ C _ _ Hlq) as (cn' & Hcn' & Hcp').
    assert (q = p) by congruence. subst q. exact Hq.
Qed.

Lemma all_f_remove f s : (forall g, In g s -> g = f) -> set_remove f s = [].
Proof.
  intros H. destruct (set_remove f s) as [|g l] eqn:E; auto. exfalso.
  assert (In g (set_remove f s)) as Hi by (rewrite E; left; reflexivity).
  apply set_remove_in in Hi as (Hne & Hi). apply Hne. auto.
Qed.

Definition NoShortLocal (w : world) (x : model) : Prop :=
  forall i n, Reach w (m_root x) i -> w_nodes w i = Some n -> n_name n = SHORT T -> n_files n = [].

(* remove_file (another file remains): the elements that are still in the model afterwards are exactly those that
   were attributed to some other file *)
Lemma remove_file_exact_full m f w r w' x :
  TreeInv w -> FilesInv T w ->
  Known_root_last w (OpRemoveFile m f) = false -> Unowned w (OpRemoveFile m f) = false -> last_file w (OpRemoveFile m f) = false ->
  NoShortLocal w x ->
  m_remove_file T m f w = Val (r, w') -> model_b w m = Some x -> In f (m_files x) ->
  TreeInv w' /\ roots w' = roots w /\
  (forall i n, Reach w (m_root x) i -> Reach w' (m_root x) i -> w_nodes w i = Some n ->
     exists n', w_nodes w' i = Some n' /\ n_name n' = n_name n /\ n_parent n' = n_parent n /\ n_type n' = n_type n /\
                n_attrs n' = n_attrs n /\ n_comment n' = n_comment n /\ n_files n' = set_remove f (n_files n) /\
                thin (n_content n') (n_content n)) /\
  forall i, Reach w (m_root x) i -> (Reach w' (m_root x) i <-> exists g, g <> f /\ Attributed w i g).
Proof.
  intros TI FI HK HU HL NS H Hmx Hin. pose proof TI as (C & NO & _).
  assert (forall i, Reach w (m_root x) i -> (exists g, g <> f /\ Attributed w i g) -> Reach w' (m_root x) i) as Keep.
  { intros i Hri (g & Hg & Ha). apply (remove_file_keeps T m f w r w' x TI FI HK HU HL H Hmx i g Hri Hg Ha). }
  destruct (remove_file_shape T m f w r w' TI FI HK HU HL H) as [(-> & Hnf)|(x0 & cur & w1 & w3 & td & r3 & Hx0 & Hxin & Hfin & Hn1 & ST1 & Hcur & Hrest & S & TI3 & FI3 & Hdel & Htd & Hcomp)].
  { exfalso. apply (Hnf x Hmx). exact Hin. }
  assert (x0 = x) by congruence. subst x0. pose proof (FI x Hxin) as FIx.
  pose proof TI3 as (C3 & NO3 & _).
  assert (same_tree w w3) as ST3 by (eapply same_tree_trans; [exact ST1|apply (st_tree _ _ _ _ _ S)]).
  pose proof (fun a b => proj1 (reach_same_tree_iff w w3 a b ST3)) as R13.
  pose proof (fun a b => proj2 (reach_same_tree_iff w w3 a b ST3)) as R31.
  destruct ST3 as (_ & Hroots3 & _).
  destruct (root_node _ _ C Hxin) as (rn & k0 & Hrn & Hrp).
  assert (exists k, nth_error (roots w3) k = Some (m_root x)) as (k & Hk).
  { rewrite Hroots3. apply In_nth_error. unfold roots. apply in_map. exact Hxin. }
  (* an element of td is not the root, has an element parent and is not a SHORT-NAME *)
  assert (forall d nd, w_nodes w d = Some nd -> n_files nd <> [] -> set_remove f (n_files nd) = [] -> d <> m_root x) as NotRoot.
  { intros d nd Hnd Hne Hem ->. assert (nd = rn) by congruence. subst nd.
    assert (cur = n_files rn) by (eapply Eff_local_inv; eauto). subst cur. contradiction. }
  assert (forall a n, w_nodes w a = Some n -> exists fs, w_nodes w3 a = Some (set_files n fs)) as N3.
  { intros a n Hn. destruct (st_node _ _ _ _ _ S a n) as (fs & H3 & _); [rewrite Hn1; auto|]. eauto. }
  destruct (del_exact w3 (m_root x) k C3 Hk td w3 r3 w' TI3 FI3 eq_refl (Jrel_refl w3)) as (J & TI' & Rt' & Clr); auto.
  { intros d Hd. destruct (Htd d Hd) as (Hrd & nd & Hnd & Hne & Hem).
    destruct (N3 d nd Hnd) as (fs & H3). pose proof (NotRoot d nd Hnd Hne Hem) as Hdr.
    destruct (reach_cases _ _ _ Hrd) as [->|(p & _ & Hl)]; [congruence|].
    destruct (c_up _ C _ _ Hl) as (nd' & Hnd' & Hpp). assert (nd' = nd) by congruence. subst nd'.
    exists (set_files nd fs), p. split; auto. split; [exact Hpp|]. split; [|apply R13; exact Hrd].
    cbn. intros Hs. apply Hne. eapply NS; eauto. }
  split; auto. split; [congruence|]. split.
  { intros i n Hri Hri' Hn.
    assert (cur = n_files rn) as Ecur.
    { destruct (n_files rn) as [|g0 l0] eqn:Ef.
      - destruct (Eff_up_inv _ _ _ _ Hcur Hrn Ef) as (p & Hp & _). congruence.
      - rewrite <- Ef. eapply Eff_local_inv; eauto. congruence. }
    assert (w_nodes w3 i = Some (set_files n (set_remove f (n_files n)))) as H3.
    { destruct (st_node _ _ _ _ _ S i n) as (fs & H3 & He & Hi & _); [rewrite Hn1; auto|].
      rewrite H3. destruct (N.eq_dec i (m_root x)) as [->|Hne].
      - rewrite (He eq_refl). assert (n = rn) by congruence. subst n. rewrite Ecur. reflexivity.
      - rewrite (Hi Hne); auto. apply (reach_same_tree w w1); auto. }
    destruct (J _ _ H3) as (n' & Hn' & [((P & Nm & _) & (Ty & At & Cm & Fs & Th))|(P & _)]).
    - exists n'. cbn in *. repeat split; auto.
    - exfalso. destruct TI' as (C' & _).
      destruct (reach_cases _ _ _ Hri') as [->|(q & _ & Hq)].
      + rewrite <- Rt' in Hk. destruct (c_roots _ C' _ _ Hk) as (n2 & Hn2 & Hp2). congruence.
      + destruct (c_up _ C' _ _ Hq) as (n1 & Hn1' & Hp1). congruence. }
  intros i Hri. split; [|apply Keep; auto]. intros Hri'.
  assert (m_files x <> []) as Hne by (intros E; rewrite E in Hfin; destruct Hfin).
  destruct (fi_eff _ _ _ FIx Hne i Hri) as (si & Hsi).
  destruct (existsb (fun g => negb (g =? f)) si) eqn:Eex.
  { apply existsb_exists in Eex as (g & Hg & Hgf). exists g. split.
    - intros ->. rewrite N.eqb_refl in Hgf. discriminate.
    - exists si. auto. }
  exfalso.
  assert (forall g, In g si -> g = f) as AllF.
  { intros g Hg. destruct (N.eq_dec g f) as [|Hgf]; auto. exfalso.
    assert (existsb (fun g => negb (g =? f)) si = true) as Ht.
    { apply existsb_exists. exists g. split; auto. apply N.eqb_neq in Hgf. rewrite Hgf. reflexivity. }
    congruence. }
  destruct (Eff_owner _ _ _ Hsi) as (a & na & Ha & Hna & Hs & Hsne).
  assert (Reach w (m_root x) a) as Hra by (eapply reach_ancs; eauto).
  assert (Reach w a i) as Hai by (apply ancs_reach; auto; exists na; auto).
  assert (set_remove f (n_files na) = []) as Hem by (rewrite Hs; apply all_f_remove; exact AllF).
  assert (n_files na <> []) as Hnae by congruence.
  pose proof (NotRoot a na Hna Hnae Hem) as Har.
  assert (In a td) as Hatd by (eapply Hcomp; eauto).
  pose proof (Clr a Hatd) as (na' & Hna' & Hpn & _).
  destruct (del_outside T td w3 r3 w' TI3 FI3 Hdel) as (Shr & _).
  assert (Reach w' (m_root x) a) as Hra'.
  { apply (pass_through w3 w' (m_root x) C3) with (i := i); auto.
    - intros p c (pn' & Hpn' & Hc).
      assert (Reach w3 p p) as Hpp by (apply Shr; constructor; exists pn'; auto).
      destruct (reach_alloc _ _ _ C3 Hpp) as (pn & Hpn3).
      destruct (J _ _ Hpn3) as (pn'' & Hpn'' & [((_ & _ & K) & _)|(_ & K)]); assert (pn'' = pn') by congruence; subst pn''.
      + exists pn. split; auto.
      + rewrite K in Hc. destruct Hc.
    - intros q Hq. destruct (c_up _ C3 _ _ Hq) as (n1 & Hn1' & Hp1). destruct (c_roots _ C3 _ _ Hk) as (n2 & Hn2 & Hp2). congruence. }
  destruct TI' as (C' & _).
  destruct (reach_cases _ _ _ Hra') as [->|(q & _ & Hq)]; [congruence|].
  destruct (c_up _ C' _ _ Hq) as (n1 & Hn1' & Hp1). congruence.
Qed.

Theorem remove_file_exact m f w r w' x :
  TreeInv w -> FilesInv T w ->
  Known_root_last w (OpRemoveFile m f) = false -> Unowned w (OpRemoveFile m f) = false -> last_file w (OpRemoveFile m f) = false ->
  NoShortLocal w x ->
  m_remove_file T m f w = Val (r, w') -> model_b w m = Some x -> In f (m_files x) ->
  forall i, Reach w (m_root x) i -> (Reach w' (m_root x) i <-> exists g, g <> f /\ Attributed w i g).
Proof. intros TI FI HK HU HL NS H Hmx Hin. apply (remove_file_exact_full m f w r w' x TI FI HK HU HL NS H Hmx Hin). Qed.

(* ---------- the two caches: with agent-c04's exactness statements for the result world, a removed element has
   neither an index entry nor a referrer entry ---------- *)
Lemma reach_Reach w r0 i : allocated w r0 -> Index.reach T w r0 i -> Reach w r0 i.
Proof.
  intros Ha (q & H). induction H as [|p c q Hp IH (n & Hn & Hc)]; [constructor; auto|].
  eapply R_kid; eauto. exists n. split; auto. apply in_elems. exact Hc.
Qed.

Lemma removed_not_mreach m f w r w' x :
  TreeInv w -> FilesInv T w ->
  Known_root_last w (OpRemoveFile m f) = false -> Unowned w (OpRemoveFile m f) = false -> last_file w (OpRemoveFile m f) = false ->
  NoShortLocal w x ->
  m_remove_file T m f w = Val (r, w') -> model_b w m = Some x -> In f (m_files x) ->
  forall i, Reach w (m_root x) i -> ~ (exists g, g <> f /\ Attributed w i g) -> ~ Index.MReach T w' m i.
Proof.
  intros TI FI HK HU HL NS H Hmx Hin i Hri Hno (x' & Hx' & Hr').
  destruct (remove_file_exact_full m f w r w' x TI FI HK HU HL NS H Hmx Hin) as ((C' & _) & Rt & _ & Ex).
  assert (m_root x' = m_root x) as Er.
  { unfold Index.model_at in Hx'. unfold model_b in Hmx. rewrite nth_opt_error in Hx', Hmx.
    assert (nth_error (roots w') (N.to_nat m) = Some (m_root x')) as H1 by (unfold roots; rewrite nth_error_map, Hx'; reflexivity).
    assert (nth_error (roots w) (N.to_nat m) = Some (m_root x)) as H2 by (unfold roots; rewrite nth_error_map, Hmx; reflexivity).
    congruence. }
  apply Hno. apply (Ex i Hri). rewrite <- Er. apply reach_Reach; auto.
  unfold Index.model_at in Hx'. rewrite nth_opt_error in Hx'.
  assert (nth_error (roots w') (N.to_nat m) = Some (m_root x')) as H1 by (unfold roots; rewrite nth_error_map, Hx'; reflexivity).
  destruct (c_roots _ C' _ _ H1) as (n & Hn & _). exists n; auto.
Qed.

Theorem remove_file_exact_index m f w r w' x :
  TreeInv w -> FilesInv T w ->
  Known_root_last w (OpRemoveFile m f) = false -> Unowned w (OpRemoveFile m f) = false -> last_file w (OpRemoveFile m f) = false ->
  NoShortLocal w x ->
  m_remove_file T m f w = Val (r, w') -> model_b w m = Some x -> In f (m_files x) ->
  Index.IndexExact T w' m ->
  forall i, Reach w (m_root x) i -> ~ (exists g, g <> f /\ Attributed w i g) ->
  forall x' p, model_b w' m = Some x' -> assoc_get p (m_idents x') <> Some i.
Proof.
  intros TI FI HK HU HL NS H Hmx Hin IE i Hri Hno x' p Hx' Hp.
  apply (removed_not_mreach m f w r w' x TI FI HK HU HL NS H Hmx Hin i Hri Hno).
  apply (IE x' Hx') in Hp. destruct Hp as (Hm & _). exact Hm.
Qed.

Theorem remove_file_exact_refs m f w r w' x :
  TreeInv w -> FilesInv T w ->
  Known_root_last w (OpRemoveFile m f) = false -> Unowned w (OpRemoveFile m f) = false -> last_file w (OpRemoveFile m f) = false ->
  NoShortLocal w x ->
  m_remove_file T m f w = Val (r, w') -> model_b w m = Some x -> In f (m_files x) ->
  Index.RefsExact T w' m ->
  forall i, Reach w (m_root x) i -> ~ (exists g, g <> f /\ Attributed w i g) ->
  forall x' p, model_b w' m = Some x' -> ~ In i (Index.origins_of x' p).
Proof.
  intros TI FI HK HU HL NS H Hmx Hin RE i Hri Hno x' p Hx' Hp.
  apply (removed_not_mreach m f w r w' x TI FI HK HU HL NS H Hmx Hin i Hri Hno).
  destruct (RE x' Hx' p) as (_ & Hiff). apply Hiff in Hp. destruct Hp as (Hm & _). exact Hm.
Qed.

End Exact2.
