(* Tree/SortProofsNames.v — sorting keeps the SHORT-NAME sub-element in first position, hence Element::item_name of every
   element (and with the parent links, which sort_frame keeps, every path) is what it was.
   Hypotheses: [NameFirst] a named element's SHORT-NAME child, if it has one, is its first content item and its only
   SHORT-NAME child (what create_named_sub_element builds; the loader does NOT enforce it - see the report: a file with the
   SHORT-NAME in second position loads, and sort then moves it to the front), and [MaskOk] the SHORT-NAME entry of a named type is
   valid in some version (its version mask meets u32::MAX). *)
From Coq Require Import Permutation Lia.
From AV Require Import Base.Bytes Base.Outcome Base.Radix Hash.HashModel Tree.Heap Tree.Ops Tree.Sort
  Tree.SortProofsOrder Tree.SortProofsCmp Tree.SortProofsHeap Tree.SortProofsMain.
Open Scope list_scope.
Open Scope N_scope.

(* ------------------------------------------------------------------ positions found by find_sub_element *)
Section Spec.
Variable T : tables.

(* the scan of find_sub_element_internal over the entries of one group, from position `pos` *)
Definition scan (f : nat) (start : N) (d : dtype) (target version : N) :=
  fix loop (k : nat) (pos : N) {struct k} : res (option (etype * list N)) :=
    match k with
    | O => Val None
    | S k' =>
      (let* '(kind, idx) := subel T (start + pos) in
       if kind =? 0 then
         let* e := elem T idx in
         let* mask := vinfo T (dt_sub_ver d + pos) in
         if (ed_name e =? target) && negb (N.land version mask =? 0)
         then (let* et := et_new T idx in Val (Some (et, [pos])))
         else loop k' (pos + 1)
       else
         match find_sub T f idx target version with
         | Val (Some (et, ixs)) => Val (Some (et, pos :: ixs))
         | Val None => loop k' (pos + 1)
         | Pan s => Pan s
         | Fuel => Fuel
         end)%res
    end.

Lemma find_sub_scan f ty target version :
  find_sub T (S f) ty target version =
  (let* '(start, stop, d) := sub_slice T ty in scan f start d target version (N.to_nat (stop - start)) 0)%res.
Proof. reflexivity. Qed.

(* the head of an index list found by the scan starting at `pos` is at least `pos` *)
Lemma scan_head_ge f start d target version k : forall pos et ix,
  scan f start d target version k pos = Val (Some (et, ix)) -> exists p rest, ix = p :: rest /\ pos <= p.
Proof.
  induction k as [| k IH]; intros pos et ix; cbn [scan]; [discriminate |].
  destruct (subel T (start + pos)) as [[kind idx] | |]; cbn; try discriminate.
  destruct (kind =? 0).
  - destruct (elem T idx) as [e | |]; cbn; try discriminate.
    destruct (vinfo T (dt_sub_ver d + pos)) as [mask | |]; cbn; try discriminate.
    destruct ((ed_name e =? target) && negb (N.land version mask =? 0)).
    + destruct (et_new T idx); cbn; try discriminate. intros [= _ <-]. exists pos, []. split; auto. lia.
    + intros H. apply IH in H as (p & rest & -> & le). exists p, rest. split; auto. lia.
  - destruct (find_sub T f idx target version) as [[[et' ixs] |] | |]; try discriminate.
    + intros [= _ <-]. exists pos, ixs. split; auto. lia.
    + intros H. apply IH in H as (p & rest & -> & le). exists p, rest. split; auto. lia.
Qed.

(* in a named type: SHORT-NAME is found at position 0, every other name at a position >= 1 *)
Lemma named_positions ty target version et ix m :
  short_name_version_mask T (snd ty) = Val (Some m) ->
  find_sub_element T ty target version = Val (Some (et, ix)) ->
  (target = name_short_name T -> N.land version m <> 0 -> ix = [0]) /\
  (target <> name_short_name T -> exists p rest, ix = p :: rest /\ 1 <= p).
Proof.
  unfold short_name_version_mask, find_sub_element, FUEL. rewrite find_sub_scan.
  destruct (sub_slice T (snd ty)) as [[[start stop] d] | |]; cbn [bind]; try discriminate.
  destruct (start =? stop) eqn:Ess; [discriminate |].
  destruct (subel T start) as [[kind idx] | |] eqn:Es; cbn [bind]; try discriminate.
  destruct (kind =? 0) eqn:Ek; [| discriminate].
  destruct (elem T idx) as [e | |] eqn:Ee; cbn [bind]; try discriminate.
  destruct (ed_name e =? name_short_name T) eqn:En; [| discriminate].
  destruct (vinfo T (dt_sub_ver d)) as [m0 | |] eqn:Ev; cbn [bind]; try discriminate.
  intros [= <-].
  destruct (N.to_nat (stop - start)) as [| k]; [discriminate |].
  cbn [scan]. rewrite N.add_0_r, Es. cbn [bind]. rewrite Ek, Ee. cbn [bind]. rewrite N.add_0_r, Ev. cbn [bind].
  apply N.eqb_eq in En.
  destruct ((ed_name e =? target) && negb (N.land version m0 =? 0)) eqn:Eh.
  - destruct (et_new T idx); cbn [bind]; try discriminate. intros [= _ <-]. split; auto.
    intros ne. apply andb_prop in Eh as [Eh _]. apply N.eqb_eq in Eh. congruence.
  - intros H. split.
    + intros -> nz. rewrite En, N.eqb_refl in Eh. cbn in Eh. apply negb_false_iff, N.eqb_eq in Eh. congruence.
    + intros _. apply scan_head_ge in H as (p & rest & -> & le). exists p, rest. split; auto.
Qed.
End Spec.

(* ------------------------------------------------------------------ the first of a sorted list *)
Lemma sort_head_min srt (SS : StableSort srt) {A} (c : A -> A -> comparison) (x : A) (rest : list A) :
  TotalPreorderOn c (fun y => In y (x :: rest)) ->
  (forall y, In y rest -> c x y = Lt) ->
  exists t, srt A c (x :: rest) = x :: t.
Proof.
  intros H lt.
  pose proof (ss_perm srt SS c (x :: rest)) as P.
  pose proof (ss_sorted srt SS c (x :: rest) H) as S.
  destruct (srt A c (x :: rest)) as [| h t] eqn:E.
  - apply Permutation_sym, Permutation_nil in P. discriminate.
  - assert (ih : In h (x :: rest)) by (eapply Permutation_in; [apply Permutation_sym; exact P | left; auto]).
    destruct ih as [<- | ih]; [eauto |]. exfalso.
    assert (ix : In x (h :: t)) by (eapply Permutation_in; [exact P | left; auto]).
    destruct ix as [-> | ix].
    + specialize (lt x ih). rewrite (tp_refl _ _ H x (or_introl eq_refl)) in lt. discriminate.
    + destruct S as [m _]. apply (m x ix).
      rewrite (tp_swap _ _ H x h (or_introl eq_refl) (or_intror ih)), (lt h ih). reflexivity.
Qed.

Section Names.
Variable T : tables.
Variable tab_el tab_at tab_en : nametab.
Variable name_index name_definition_ref : N.
Variable srt : forall A, (A -> A -> comparison) -> list A -> list A.
Hypothesis SS : StableSort srt.

Notation sort_f' := (sort_f T tab_el tab_at tab_en name_index name_definition_ref srt).
Notation cmp_p' := (cmp_p T tab_el tab_at tab_en name_index name_definition_ref policy_cur).
Notation cmp_tot := (cmp_total T tab_el tab_at tab_en name_index name_definition_ref).
Notation all_pairs' := (all_pairs_val T tab_el tab_at tab_en name_index name_definition_ref).

Definition sn_child (w : world) (c : id) : Prop := exists cn, w_nodes w c = Some cn /\ n_name cn = name_short_name T.
Definition named_ty (ty : N * N) : Prop := exists m, short_name_version_mask T (snd ty) = Val (Some m).

(* a named element's SHORT-NAME child is its first content item, and the only SHORT-NAME among its children *)
Definition NameFirst (w : world) : Prop :=
  forall i n c, w_nodes w i = Some n -> named_ty (n_type n) -> In (CElem c) (n_content n) -> sn_child w c ->
    exists rest, n_content n = CElem c :: rest /\ forall c', In (CElem c') rest -> ~ sn_child w c'.
Definition MaskOk : Prop := forall ty m, short_name_version_mask T ty = Val (Some m) -> N.land MAXV m <> 0.

Definition head_kept (w w' : world) : Prop :=
  forall i n n' c rest, w_nodes w i = Some n -> w_nodes w' i = Some n' -> named_ty (n_type n) ->
    n_content n = CElem c :: rest -> sn_child w c -> exists rest', n_content n' = CElem c :: rest'.

Definition kept (w w' : world) : Prop := world_rel T w w' /\ head_kept w w'.

Lemma sn_child_rel w w' c : world_rel T w w' -> (sn_child w c <-> sn_child w' c).
Proof.
  intros (_ & _ & _ & nodes). specialize (nodes c). unfold sn_child.
  destruct (w_nodes w c) as [n |], (w_nodes w' c) as [n' |]; try tauto;
    try (split; intros (x & [=] & _); fail).
  destruct nodes as [(_ & e & _) _]. split; intros (x & [= <-] & h); eexists; split; eauto; congruence.
Qed.

Lemma kept_refl w : kept w w.
Proof.
  split; [apply world_rel_refl |]. intros i n n' c rest Wi Wi' _ E _. rewrite Wi in Wi'. injection Wi' as <-. eauto.
Qed.

Lemma kept_trans a b c : kept a b -> kept b c -> kept a c.
Proof.
  intros [r1 h1] [r2 h2]. split; [eapply world_rel_trans; eauto |].
  intros i n n'' x rest Wa Wc nt E sx.
  destruct r1 as (q1 & q2 & q3 & nodes). pose proof (nodes i) as hb. rewrite Wa in hb.
  destruct (w_nodes b i) as [n' |] eqn:Wb; [| destruct hb].
  destruct (h1 i n n' x rest Wa Wb nt E sx) as [rest' E'].
  eapply (h2 i n' n'' x rest' Wb Wc); eauto.
  - destruct hb as [(_ & _ & et & _) _]. rewrite et. exact nt.
  - apply (sn_child_rel a b x (conj q1 (conj q2 (conj q3 nodes)))). exact sx.
Qed.

Lemma NameFirst_kept w w' : kept w w' -> NameFirst w -> NameFirst w'.
Proof.
  intros [R Hk] NF i n' c Wi' nt ic sc.
  pose proof R as (_ & _ & _ & nodes). pose proof (nodes i) as h. rewrite Wi' in h.
  destruct (w_nodes w i) as [n |] eqn:Wi; [| destruct h].
  assert (ty : n_type n' = n_type n) by apply h.
  rewrite ty in nt.
  assert (ic0 : In (CElem c) (n_content n)) by (eapply node_rel_in_elem; eauto).
  assert (sc0 : sn_child w c) by (apply (sn_child_rel w w' c R); exact sc).
  destruct (NF i n c Wi nt ic0 sc0) as (rest & E & others).
  destruct (Hk i n n' c rest Wi Wi' nt E sc0) as [rest' E'].
  exists rest'. split; auto.
  intros c' ic' sc'. apply (others c').
  - destruct h as [_ [e | [_ p]]].
    + rewrite e, E in E'. injection E' as <-. exact ic'.
    + rewrite E, E' in p. cbn in p.
      assert (pr : Permutation (map CElem (celems rest)) rest') by (eapply Permutation_cons_inv; exact p).
      eapply Permutation_in in ic'; [| apply Permutation_sym; exact pr].
      apply in_map_iff in ic' as (x & [= ->] & ix). apply in_celems. exact ix.
  - apply (sn_child_rel w w' c' R). exact sc'.
Qed.

Definition kept_ok (rec : id -> W unit) : Prop :=
  forall c w r w', NameFirst w -> rec c w = Val (r, w') -> r = OK tt /\ kept w w'.

(* the positions recorded by the loop are those of the children's names in the ORIGINAL world *)
Lemma keyed_loop_kept rec ty l : kept_ok rec ->
  forall w r w', NameFirst w -> keyed_loop T rec ty l w = Val (r, w') ->
    kept w w' /\ exists keyed, r = OK keyed /\ map snd keyed = celems l /\
      forall k, In k keyed -> exists cn et, w_nodes w (snd k) = Some cn /\
                                          find_sub_element T ty (n_name cn) MAXV = Val (Some (et, fst k)).
Proof.
  intros F. induction l as [| it l IH]; intros w r w' NF H.
  - cbn in H. injection H as <- <-. split; [apply kept_refl |]. exists []. repeat split; auto. intros k [].
  - destruct it as [c | d]; cbn [keyed_loop] in H; [| apply IH; auto].
    apply wbind_val in H as [(u & w1 & E1 & H) | (e & E1 & _)]; [| apply F in E1 as [E1 _]; auto; discriminate].
    apply F in E1 as [_ K1]; auto.
    apply wbind_val in H as [(cn & w2 & E2 & H) | (e & E2 & _)];
      [| apply get_node_val in E2 as (? & _ & E2 & _); discriminate].
    apply get_node_val in E2 as (cn' & Wc & E2 & ->). injection E2 as <-.
    apply wbind_val in H as [(fs & w3 & E3 & H) | (e & E3 & _)];
      [| apply wl_val in E3 as (? & _ & E3 & _); discriminate].
    apply wl_val in E3 as (fs' & Hfs & E3 & ->). injection E3 as <-.
    destruct fs as [[et idx] |]; [| discriminate].
    pose proof (NameFirst_kept _ _ K1 NF) as NF1.
    apply wbind_val in H as [(more & w4 & E4 & H) | (e & E4 & ->)].
    + apply IH in E4 as (K2 & keyed & E4 & Hk & Hpos); auto. injection E4 as ->.
      cbn in H. injection H as <- <-.
      split; [eapply kept_trans; [exact K1 | exact K2] |]. exists ((idx, c) :: keyed). cbn [map snd]. split; [reflexivity |].
      split; [change (celems (CElem c :: l)) with (c :: celems l); rewrite Hk; reflexivity |].
      destruct K1 as [(q1 & q2 & q3 & nodes) _].
      intros k [<- | ik]; cbn [fst snd].
      * pose proof (nodes c) as hc. rewrite Wc in hc. destruct (w_nodes w c) as [cn0 |]; [| destruct hc].
        exists cn0, et. split; [reflexivity |]. destruct hc as [(_ & en & _) _]. rewrite <- en. exact Hfs.
      * destruct (Hpos k ik) as (cn1 & et1 & W1 & F1).
        pose proof (nodes (snd k)) as hk. rewrite W1 in hk. destruct (w_nodes w (snd k)) as [cn0 |]; [| destruct hk].
        exists cn0, et1. split; [reflexivity |]. destruct hk as [(_ & en & _) _]. rewrite <- en. exact F1.
    + apply IH in E4 as (_ & keyed & E4 & _); auto. discriminate.
Qed.

Lemma iter_loop_kept rec l : kept_ok rec ->
  forall w r w', NameFirst w -> iter_loop rec l w = Val (r, w') -> r = OK tt /\ kept w w'.
Proof.
  intros F. induction l as [| it l IH]; intros w r w' NF H.
  - cbn in H. injection H as <- <-. split; auto. apply kept_refl.
  - destruct it as [c | d]; cbn [iter_loop] in H; [| apply IH; auto].
    apply wbind_val in H as [(u & w1 & E1 & H) | (e & E1 & _)]; [| apply F in E1 as [E1 _]; auto; discriminate].
    apply F in E1 as [_ K1]; auto. apply IH in H as [-> K2]; [| eapply NameFirst_kept; eauto].
    split; auto. eapply kept_trans; eauto.
Qed.

Hypothesis MO : MaskOk.

Lemma sort_kept f : kept_ok (sort_f' f).
Proof.
  induction f as [| f IH]; intros i w r w' NF H; [discriminate |].
  pose proof (sort_frame T tab_el tab_at tab_en name_index name_definition_ref srt (srt_perm srt SS) (S f) i w r w' H) as [Hr Rw].
  split; auto. split; auto.
  cbn [sort_f] in H.
  apply wbind_val in H as [(n & w1 & E1 & H) | (e & E1 & _)];
    [| apply get_node_val in E1 as (? & _ & E1 & _); discriminate].
  apply get_node_val in E1 as (n' & Wi & E1 & ->). injection E1 as <-.
  apply wbind_val in H as [(mode & w2 & E2 & H) | (e & E2 & _)];
    [| apply wl_val in E2 as (? & _ & E2 & _); discriminate].
  apply wl_val in E2 as (mode' & Hmode & E2 & ->). injection E2 as <-.
  destruct ((mode =? MCharacters) || (mode =? MMixed)) eqn:Em.
  { cbn in H. injection H as <- <-. apply kept_refl. }
  apply wbind_val in H as [(ordered & w3 & E3 & H) | (e & E3 & _)];
    [| apply wl_val in E3 as (? & _ & E3 & _); discriminate].
  apply wl_val in E3 as (ordered' & Hord & E3 & ->). injection E3 as <-.
  destruct (negb ordered && (1 <? N.of_nat (List.length (n_content n)))) eqn:Eb;
    [| eapply iter_loop_kept in H as [_ [_ K]]; eauto].
  apply wbind_val in H as [(keyed & w4 & E4 & H) | (e & E4 & _)];
    [| eapply keyed_loop_kept in E4 as (_ & ? & E4 & _); [discriminate | exact IH | exact NF]].
  eapply keyed_loop_kept in E4 as (K1 & keyed' & E4 & Hk & Hpos); [| exact IH | exact NF]. injection E4 as <-.
  apply wbind_val in H as [(wc & w5 & E5 & H) | (e & E5 & _)]; [| discriminate].
  unfold wget in E5. injection E5 as <- <-.
  apply wbind_val in H as [(u & w6 & E6 & H) | (e & E6 & _)];
    [| apply wl_val in E6 as (? & _ & E6 & _); discriminate].
  apply wl_val in E6 as (u' & AP & _ & ->). destruct u'.
  unfold modify_node in H.
  apply wbind_val in H as [(n1 & w7 & E7 & H) | (e & E7 & _)];
    [| apply get_node_val in E7 as (? & _ & E7 & _); discriminate].
  apply get_node_val in E7 as (n1' & W1 & E7 & ->). injection E7 as <-.
  unfold set_node in H. injection H as _ <-.
  (* nodes other than i: as after the children; node i: the sorted list starts with the SHORT-NAME child *)
  destruct K1 as [R1 H1].
  intros j m m' c rest Wj Wj' nt E sc. cbn in Wj'. unfold upd in Wj'.
  destruct (j =? i) eqn:Ej.
  - apply N.eqb_eq in Ej. subst j. rewrite Wi in Wj. injection Wj as <-. injection Wj' as <-. cbn.
    (* keyed = (idx_c, c) :: others, idx_c = [0], the others start at a position >= 1 *)
    rewrite E in Hk. change (celems (CElem c :: rest)) with (c :: celems rest) in Hk.
    destruct keyed as [| [i0 c0] krest]; [discriminate |]. cbn in Hk. injection Hk as -> Hk.
    destruct nt as [m0 Hm0].
    destruct (NF i n c Wi (ex_intro _ m0 Hm0)) as (rest0 & E0 & others); [rewrite E; left; auto | exact sc |].
    rewrite E in E0. injection E0 as <-.
    assert (P0 : i0 = [0]).
    { destruct (Hpos (i0, c) (or_introl eq_refl)) as (cn & et & Wc & Fc). cbn [fst snd] in Wc, Fc.
      destruct sc as (cn' & Wc' & nm). rewrite Wc in Wc'. injection Wc' as <-.
      apply (proj1 (named_positions T (n_type n) (n_name cn) MAXV et i0 m0 Hm0 Fc)); auto. apply (MO _ _ Hm0). }
    subst i0.
    assert (Lt0 : forall k, In k krest -> key_cmp (cmp_tot w4) ([0], c) k = Lt).
    { intros k ik. destruct (Hpos k (or_intror ik)) as (cn & et & Wk & Fk).
      assert (ne : n_name cn <> name_short_name T).
      { intros e. apply (others (snd k)).
        - apply in_celems. rewrite <- Hk. apply in_map. exact ik.
        - exists cn. auto. }
      destruct (proj2 (named_positions T (n_type n) (n_name cn) MAXV et (fst k) m0 Hm0 Fk) ne) as (p & rs & ep & le).
      unfold key_cmp. cbn [fst]. rewrite ep. cbn [lex_cmp].
      assert (0 ?= p = Lt) by (apply N.compare_lt_iff; lia). rewrite H. reflexivity. }
    destruct (sort_head_min srt SS (key_cmp (cmp_tot w4)) ([0], c) krest) as [t Et]; auto.
    { apply (key_cmp_total_preorder T tab_el tab_at tab_en name_index name_definition_ref w4 (([0], c) :: krest)).
      intros a b ia ib. eapply all_pairs_val_inv; eauto. }
    rewrite Et. cbn. eauto.
  - eapply H1; eauto.
Qed.

(* Element::item_name reads the type, the first content item, its name and its character data: all as before *)
Theorem item_name_kept i w r w' f n n' :
  NameFirst w -> sort_f' f i w = Val (r, w') ->
  forall j, w_nodes w j = Some n -> w_nodes w' j = Some n' ->
    forall nm, item_name_p T w n = Val (Some nm) -> item_name_p T w' n' = Val (Some nm).
Proof.
  intros NF H j Wj Wj' nm.
  destruct (sort_kept f i w r w' NF H) as [_ [R Hk]].
  pose proof R as (_ & _ & _ & nodes).
  pose proof (nodes j) as hj. rewrite Wj, Wj' in hj. destruct hj as [(_ & _ & ety & _) _].
  unfold item_name_p. rewrite ety.
  destruct (is_named T (n_type n)) as [named | |] eqn:En; cbn; try discriminate.
  destruct named; cbn; [| discriminate].
  destruct (n_content n) as [| [s | d] rest] eqn:Ec; try discriminate.
  unfold nd. destruct (w_nodes w s) as [sn |] eqn:Ws; cbn; try discriminate.
  destruct (n_name sn =? name_short_name T) eqn:Es; [| discriminate].
  apply N.eqb_eq in Es.
  assert (nt : named_ty (n_type n)).
  { unfold named_ty. unfold is_named in En.
    destruct (short_name_version_mask T (snd (n_type n))) as [[m |] | |]; cbn in En; try discriminate.
    exists m. reflexivity. }
  destruct (Hk j n n' s rest Wj Wj' nt Ec (ex_intro _ sn (conj Ws Es))) as [rest' E'].
  rewrite E'.
  pose proof (nodes s) as hs. rewrite Ws in hs. destruct (w_nodes w' s) as [sn' |] eqn:Ws'; [| destruct hs]. cbn.
  destruct hs as [(_ & en & ety' & _) ct]. rewrite en, Es, N.eqb_refl.
  unfold character_data. rewrite ety'.
  destruct ct as [e | [(m & Hm & Hchars & _) p]]; [rewrite e; auto |].
  (* a sortable SHORT-NAME node has no character data before or after *)
  destruct (n_content sn) as [| [x | d] [| ? ?]] eqn:Ecs; cbn; try discriminate.
  rewrite Hm. cbn. rewrite Hchars. discriminate.
Qed.

(* ... and an element that has no item name does not get one *)
Theorem item_name_kept_back i w r w' f n n' :
  NameFirst w -> sort_f' f i w = Val (r, w') ->
  forall j, w_nodes w j = Some n -> w_nodes w' j = Some n' ->
    forall nm, item_name_p T w' n' = Val (Some nm) -> item_name_p T w n = Val (Some nm).
Proof.
  intros NF H j Wj Wj' nm.
  destruct (sort_kept f i w r w' NF H) as [_ [R Hk]].
  pose proof R as (_ & _ & _ & nodes).
  pose proof (nodes j) as hj. rewrite Wj, Wj' in hj. pose proof hj as [(_ & _ & ety & _) _].
  unfold item_name_p. rewrite ety.
  destruct (is_named T (n_type n)) as [named | |] eqn:En; cbn [bind]; try discriminate.
  destruct named; cbn [negb]; [| discriminate].
  destruct (n_content n') as [| [s | d] rest'] eqn:Ec'; try discriminate.
  unfold nd. destruct (w_nodes w' s) as [sn' |] eqn:Ws'; cbn [unwrap bind]; try discriminate.
  destruct (n_name sn' =? name_short_name T) eqn:Es; [| discriminate].
  apply N.eqb_eq in Es.
  assert (nt : named_ty (n_type n)).
  { unfold named_ty. unfold is_named in En.
    destruct (short_name_version_mask T (snd (n_type n))) as [[m |] | |]; cbn in En; try discriminate.
    exists m. reflexivity. }
  pose proof (nodes s) as hs. rewrite Ws' in hs. destruct (w_nodes w s) as [sn |] eqn:Ws; [| destruct hs].
  assert (is0 : In (CElem s) (n_content n)) by (eapply node_rel_in_elem; [exact hj | rewrite Ec'; left; reflexivity]).
  assert (sc : sn_child w s).
  { exists sn. split; auto. destruct hs as [(_ & en & _) _]. congruence. }
  destruct (NF j n s Wj nt is0 sc) as (rest & E & _).
  rewrite E, Ws. cbn [unwrap bind].
  destruct hs as [(_ & en & ety' & _) ct]. rewrite <- en, Es, N.eqb_refl.
  unfold character_data. rewrite ety'.
  destruct ct as [e | [(m & Hm & Hchars & _) p]]; [rewrite e; auto |].
  destruct (n_content sn') as [| [x | d] [| ? ?]] eqn:Ecs; cbn [bind]; try discriminate.
  rewrite Hm. cbn [bind]. rewrite Hchars. discriminate.
Qed.

(* Element::sort keeps every item name *)
Theorem e_sort_item_names i w r w' :
  NameFirst w -> e_sort_with T tab_el tab_at tab_en name_index name_definition_ref srt i w = Val (r, w') ->
  forall j n n' nm, w_nodes w j = Some n -> w_nodes w' j = Some n' ->
    (item_name_p T w n = Val (Some nm) <-> item_name_p T w' n' = Val (Some nm)).
Proof.
  intros NF H j n n' nm Wj Wj'. unfold e_sort_with, wbind, wget in H. split.
  - eapply item_name_kept; eauto.
  - eapply item_name_kept_back; eauto.
Qed.

End Names.
