(* Tree/FailResidue.v — C11: the residue of the three Known11 classes, by theorem.
   move (K11_move_noname / K11_move_refwrite): after a move that fails late
       - the moved element carries the parent link of the DESTINATION,
       - its former parent no longer lists it, the destination does not list it, nobody does (under C03's Core):
         the element is detached from the tree but not marked removed,
       - no node has gained a child, every other parent link, w_next and the files are what they were
       (the path index / referrer map of the model may be partially updated: not characterised here).
   set_reference_target (K11_setref): the world differs from the old one in exactly two places: the attribute list of the
       reference element (DEST written) and the referrer map of its model (the element moved / added under the new
       path); its text, every other node, the path index, files, roots are the same. *)
From Coq Require Import Lia.
From AV Require Import Base.Bytes Base.Outcome Hash.HashModel Tree.Heap Tree.Ops Tree.Script Tree.Inv
  Tree.FailProofsBase Tree.FailProofsOps Tree.Fail Tree.FailProofsLate Tree.FailProofsMove Tree.FailProofsInv Tree.FailRepair.
Open Scope string_scope.
Open Scope list_scope.
Open Scope N_scope.

(* no node gains a child *)
Definition nnc (w w' : world) : Prop :=
  w_next w' = w_next w /\ w_files w' = w_files w /\
  forall p n' c, w_nodes w' p = Some n' -> In (CElem c) (n_content n') ->
                 exists n, w_nodes w p = Some n /\ In (CElem c) (n_content n).
Lemma nnc_refl w : nnc w w. Proof. repeat split; auto. intros p n' c H1 H2. eauto. Qed.
Lemma nnc_trans a b c : nnc a b -> nnc b c -> nnc a c.
Proof.
  intros (A1 & A2 & A3) (B1 & B2 & B3). repeat split; try congruence.
  intros p n' x H1 H2. destruct (B3 _ _ _ H1 H2) as (n & H3 & H4). eapply A3; eauto.
Qed.
Lemma nnc_models w fs ms : fs = w_files w -> nnc w (mkWorld (w_nodes w) (w_next w) fs ms).
Proof. intros ->. repeat split; auto. intros p n' c H1 H2. eauto. Qed.
Lemma nnc_upd w i n n' fs ms :
  w_nodes w i = Some n -> fs = w_files w ->
  (forall c, In (CElem c) (n_content n') -> In (CElem c) (n_content n)) ->
  nnc w (mkWorld (upd (w_nodes w) i n') (w_next w) fs ms).
Proof.
  intros Hn -> Hs. repeat split; auto. intros p np c H1 H2. cbn [w_nodes] in H1. unfold upd in H1.
  destruct (p =? i) eqn:E; [apply N.eqb_eq in E; subst p; injection H1 as <-; eauto|eauto].
Qed.

Definition allN {A} (m : W A) : Prop := forall w r w', m w = Val (r, w') -> nnc w w'.
Definition errN {A} (m : W A) : Prop := forall w e w', m w = Val (ER e, w') -> nnc w w'.

Lemma allN_ro {A} (m : W A) : ro m -> allN m.
Proof. intros H w r w' E. apply H in E. subst. apply nnc_refl. Qed.
Lemma allN_bind {A B} (m : W A) (k : A -> W B) : allN m -> (forall a, allN (k a)) -> allN (wbind m k).
Proof.
  intros Hm Hk w r w' H. apply wbind_inv in H as [(a & w1 & H1 & H2) | (e' & H1 & ->)].
  - eapply nnc_trans; [eapply Hm|eapply Hk]; eauto.
  - eapply Hm; eauto.
Qed.
Lemma allN_try {A} (m : W A) : allN m -> allN (wtry m).
Proof. intros Hm w r w' H. apply wtry_inv in H as (r0 & H & _). eapply Hm; eauto. Qed.
Lemma errN_bind {A B} (m : W A) (k : A -> W B) : allN m -> (forall a, errN (k a)) -> errN (wbind m k).
Proof.
  intros Hm Hk w e w' H. apply wbind_inv in H as [(a & w1 & H1 & H2) | (e' & H1 & _)].
  - eapply nnc_trans; [eapply Hm|eapply Hk]; eauto.
  - eapply Hm; eauto.
Qed.
Lemma errN_of_nofail {A} (m : W A) : nofail m -> errN m.
Proof. intros H w e w' E. exfalso. eapply H; eauto. Qed.
Lemma allN_set_model m x : allN (set_model m x).
Proof. intros w r w' H. apply set_model_inv in H as (_ & ->). apply nnc_models. reflexivity. Qed.
Lemma allN_modify_model m f : allN (modify_model m f).
Proof. intros w r w' H. apply modify_model_inv in H as (x & _ & _ & ->). apply nnc_models. reflexivity. Qed.
Lemma allN_modify_node i f :
  (forall x c, In (CElem c) (n_content (f x)) -> In (CElem c) (n_content x)) -> allN (modify_node i f).
Proof. intros Hf w r w' H. apply modify_node_inv in H as (n & Hn & _ & ->). eapply nnc_upd; eauto. Qed.

Section Residue.
Variable T : tables.
Variable tab_el tab_en : nametab.
Variable check_fn : N -> list N -> res bool.
Variable LATEST : N.
Variable root_attrs : list (N * cdata).

Lemma allN_raw_set_character_data i v version : allN (raw_set_character_data T check_fn i v version).
Proof.
  intros w r w' H. unfold raw_set_character_data in H.
  wstep H; [|apply nnc_refl]. winvs. wstep H; [|apply nnc_refl]. winvs.
  match type of H with (if ?b then _ else _) _ = _ => destruct b end; [|winvs; apply nnc_refl].
  wstep H; [|apply nnc_refl]. winvs.
  match type of H with (match ?x with _ => _ end) _ = _ => destruct x end; [|winvs; apply nnc_refl].
  wstep H; [|apply nnc_refl]. winvs.
  match type of H with (if ?b then _ else _) _ = _ => destruct b end; [|winvs; apply nnc_refl].
  apply set_node_inv in H as (_ & ->). eapply nnc_upd; eauto.
  intros ch Hc. cbn [set_content n_content] in Hc. destruct (n_content n) as [|x rest]; [destruct Hc as [Q|[]]; discriminate Q|].
  destruct Hc as [Q|Hc]; [discriminate Q|right; exact Hc].
Qed.

Lemma allN_make_unique_item_name i m pp : allN (make_unique_item_name T i m pp).
Proof.
  unfold make_unique_item_name.
  repeat first [ apply allN_ro; solve [ro_tac]
               | apply allN_modify_node; intros ? ? Hq; cbn [set_content n_content] in Hq; destruct Hq as [Hq|[]]; discriminate Hq
               | apply allN_bind; [|intros ?]
               | match goal with |- allN (match ?x with _ => _ end) => destruct x
                                 | |- allN (if ?b then _ else _) => destruct b
                                 | |- allN (let '(_, _) := ?x in _) => destruct x end ].
Qed.
Lemma allN_fix_identifiables m a b : allN (fix_identifiables m a b).
Proof. unfold fix_identifiables. apply allN_modify_model. Qed.
Lemma allN_add_identifiable m p e : allN (add_identifiable m p e).
Proof. unfold add_identifiable. apply allN_modify_model. Qed.
Lemma allN_remove_identifiable m p : allN (remove_identifiable m p).
Proof. unfold remove_identifiable. apply allN_modify_model. Qed.
Lemma allN_add_reference_origin m r e : allN (add_reference_origin m r e).
Proof. unfold add_reference_origin. apply allN_modify_model. Qed.
Lemma allN_remove_reference_origin m r e : allN (remove_reference_origin m r e).
Proof. unfold remove_reference_origin. apply allN_modify_model. Qed.

End Residue.

Ltac allN_step :=
  first
  [ apply allN_raw_set_character_data | apply allN_make_unique_item_name | apply allN_fix_identifiables
  | apply allN_add_identifiable | apply allN_remove_identifiable | apply allN_add_reference_origin
  | apply allN_remove_reference_origin
  | apply allN_ro; solve [ro_tac]
  | apply allN_set_model | apply allN_modify_model
  | apply allN_modify_node; intros ? ? ?; cbn [set_content set_parent n_content] in *;
    solve [ assumption | match goal with Hq : In _ [CData _] |- _ => destruct Hq as [Hq|[]]; discriminate Hq end ]
  | apply allN_try
  | apply allN_bind; [ | intros ? ]
  | match goal with
    | |- allN (match ?x with _ => _ end) => destruct x
    | |- allN (if ?b then _ else _) => destruct b
    | |- allN (let '(_, _) := ?x in _) => destruct x
    end ].
Ltac allN_tac := repeat allN_step.
Ltac allN_loop :=
  match goal with
  | |- allN (_ ?l) => induction l as [|? ?rest ?IHr]; allN_tac; auto
  end.
Ltac allN_loop_pair :=
  match goal with
  | |- allN (_ ?l) => induction l as [|[? ?] ? IHl]; allN_tac; auto
  end.

Section MoveResidue.
Variable T : tables.
Variable tab_el tab_en : nametab.
Variable check_fn : N -> list N -> res bool.
Variable LATEST : N.
Variable root_attrs : list (N * cdata).

Ltac wl1 H := wer H; [|left; reflexivity].

(* the world right after the unlinking from the source parent *)
Definition unlinked (w : world) (src_parent : id) (pn : node) (k : nat) : world :=
  mkWorld (upd (w_nodes w) src_parent (set_content pn (remove_at (n_content pn) k))) (w_next w) (w_files w) (w_models w).

Lemma allN_reparent mv self : allN (modify_node mv (fun x => set_parent x (PElem self))).
Proof. apply allN_modify_node. intros x c Hc. exact Hc. Qed.

Lemma move_local_residue self mv pos m version w e w' :
  move_element_local T check_fn self mv pos m version w = Val (ER e, w') ->
  w' = w \/
  exists mn src_parent pn k,
    w_nodes w mv = Some mn /\ n_parent mn = PElem src_parent /\ w_nodes w src_parent = Some pn /\
    index_of (citem_is mv) (n_content pn) = Some k /\ nnc (unlinked w src_parent pn k) w'.
Proof.
  intros H. unfold move_element_local in H.
  wl1 H. winvs. wl1 H. winvs. wl1 H.
  match type of H with (if ?b then _ else _) _ = _ => destruct b end; [winvs; left; reflexivity|].
  wl1 H. winvs. wl1 H.
  match type of H with (match ?x with _ => _ end) _ = _ => destruct x as [src_parent|] end; [|winvs; left; reflexivity].
  match goal with E : parent_of ?x w = Val (OK (Some src_parent), _) |- _ => rename E into Epar; rename x into mn end.
  match goal with Hx : w_nodes w mv = Some mn |- _ => rename Hx into Hmn end.
  assert (Hpar : n_parent mn = PElem src_parent).
  { unfold parent_of in Epar. destruct (n_parent mn) as [|mm|pp]; [discriminate Epar| |].
    - apply wret_inv in Epar as (Q & _). discriminate Q.
    - apply wret_inv in Epar as (Q & _). injection Q as ->. reflexivity. }
  wl1 H. wl1 H. wl1 H.
  match type of H with (if ?b then _ else _) _ = _ => destruct b end; [winvs; left; reflexivity|].
  wl1 H. wl1 H.
  wer H. 2:{ left. eapply nf_detach_from; eauto. }
  match goal with E : detach_from _ _ _ = Val _ |- _ => rename E into Edet end.
  unfold detach_from in Edet. wok Edet. winvs.
  match goal with Hx : w_nodes w src_parent = Some ?x |- _ => rename x into pn; rename Hx into Hpn end.
  destruct (index_of (citem_is mv) (n_content pn)) as [k|] eqn:Eidx; [|discriminate Edet].
  apply set_node_inv in Edet as (_ & ->).
  right. exists mn, src_parent, pn, k. repeat (split; [assumption|]).
  match type of H with ?tail ?w1 = _ => assert (Hl : errN tail) end.
  { clear. apply errN_bind; [apply allN_reparent|intros ?].
    repeat (apply errN_bind; [solve [allN_tac; try (allN_loop; try allN_loop)] | intros ?]).
    apply errN_of_nofail. nofail_tac. }
  exact (Hl _ _ _ H).
Qed.

Lemma move_full_residue self mv pos m m_src version w e w' :
  move_element_full T tab_en check_fn self mv pos m m_src version w = Val (ER e, w') ->
  w' = w \/
  exists mn src_parent pn k,
    w_nodes w mv = Some mn /\ n_parent mn = PElem src_parent /\ w_nodes w src_parent = Some pn /\
    index_of (citem_is mv) (n_content pn) = Some k /\ nnc (unlinked w src_parent pn k) w'.
Proof.
  intros H. unfold move_element_full in H.
  wl1 H. winvs. wl1 H. winvs. wl1 H. wl1 H. wl1 H.
  match type of H with (match ?x with _ => _ end) _ = _ => destruct x as [src_parent|] end; [|winvs; left; reflexivity].
  match goal with E : parent_of ?x w = Val (OK (Some src_parent), _) |- _ => rename E into Epar; rename x into mn end.
  match goal with Hx : w_nodes w mv = Some mn |- _ => rename Hx into Hmn end.
  assert (Hpar : n_parent mn = PElem src_parent).
  { unfold parent_of in Epar. destruct (n_parent mn) as [|mm|pp]; [discriminate Epar| |].
    - apply wret_inv in Epar as (Q & _). discriminate Q.
    - apply wret_inv in Epar as (Q & _). injection Q as ->. reflexivity. }
  wl1 H. winvs. wl1 H. wl1 H. wl1 H.
  wer H. 2:{ left. eapply nf_detach_from; eauto. }
  match goal with E : detach_from _ _ _ = Val _ |- _ => rename E into Edet end.
  unfold detach_from in Edet. wok Edet. winvs.
  match goal with Hx : w_nodes w src_parent = Some ?x |- _ => rename x into pn; rename Hx into Hpn end.
  destruct (index_of (citem_is mv) (n_content pn)) as [k|] eqn:Eidx; [|discriminate Edet].
  apply set_node_inv in Edet as (_ & ->).
  right. exists mn, src_parent, pn, k. repeat (split; [assumption|]).
  match type of H with ?tail ?w1 = _ => assert (Hl : errN tail) end.
  { clear. apply errN_bind; [solve [allN_loop_pair]|intros ?]. apply errN_bind; [solve [allN_loop_pair]|intros ?].
    apply errN_bind; [apply allN_reparent|intros ?].
    repeat (apply errN_bind; [solve [allN_tac; try allN_loop_pair] | intros ?]).
    apply errN_of_nofail. nofail_tac. }
  exact (Hl _ _ _ H).
Qed.

End MoveResidue.
